-------------------------- MODULE ConfigParseTrace --------------------------
(***************************************************************************)
(* Role C for C08: one observation per snapshot given to the real           *)
(* config.For.  For every ACCEPTED snapshot the necessary conditions of     *)
(* ConfigParse (SoundFails) are evaluated on what the code returned; a      *)
(* rejected snapshot is never judged (C08 does not say what must be         *)
(* accepted).  Failing predicates are printed, nothing stops early.         *)
(***************************************************************************)
EXTENDS ConfigParse, Json

Trace == ndJsonDeserialize("obs.ndjson")
N == Len(Trace)

VARIABLE i

BS(f) == Pow2(IF f = "v4" THEN S4 ELSE S6)
Full(cnt, f) == {a \in A : cnt[a + 1] = BS(f)}
Part(cnt, f) == {a \in A : cnt[a + 1] > 0 /\ cnt[a + 1] < BS(f)}

RPool(po) ==
  [name |-> po.name,
   full4 |-> Full(po.cnt4, "v4"), part4 |-> Part(po.cnt4, "v4"),
   full6 |-> Full(po.cnt6, "v6"), part6 |-> Part(po.cnt6, "v6"),
   out |-> po.out,
   l2 |-> {[nodes |-> Rng(x.nodes), ifs |-> Rng(x.ifs)] : x \in Rng(po.l2)},
   bgp |-> {[name |-> x.name, nodes |-> Rng(x.nodes), agg4 |-> x.agg4, agg6 |-> x.agg6,
             lp |-> x.lp, peers |-> Rng(x.peers)] : x \in Rng(po.bgp)}]

Res(o) == [pools |-> {RPool(po) : po \in Rng(o.pools)},
           nodeIn |-> {<<x.node, x.pool>> : x \in Rng(o.nodeIn)}]

Fails(k) ==
  LET o == Trace[k] IN
  IF o.panic # "" THEN {"C08.NoPanic"}
  ELSE IF ~o.ok THEN {}
  ELSE SoundFails(o.snap, Res(o))

Init == i = 1
Next == i < N /\ i' = i + 1

Judge ==
  LET f == Fails(i) IN
  /\ (f = {} \/ PrintT(ToJson([fails |-> f, line |-> i, id |-> Trace[i].id])))
  /\ (i < N \/ PrintT(ToJson([done |-> N])))
=============================================================================
