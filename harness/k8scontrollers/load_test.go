//go:build verif

package controllers

// Role B/C harness for C18, function-shaped half: every snapshot enumerated by TLC
// (spec/ConfigLoadMC.tla) is rendered as ClusterResources and given to the real toConfig
// for every validator mode (DontValidate, DiscardFRROnly = native, DiscardNativeOnly = frr) and through
// every entry point (toConfig; the validating webhooks' config.NewValidator(v).Validate(lists...), which
// gets the lists unsorted; config.For on the unsorted lists)
//   - in the listed order (the reference),
//   - again in the listed order, VERIF_REPS times (repeatability; Go map order),
//   - with every permutation of every kind (one kind at a time), and with all kinds permuted at once.
// Logged per snapshot: how many of those loads were accepted / rejected and how many accepted
// values are not reflect.DeepEqual to the reference (the reconcilers' own comparison).
// No judgement happens here.

import (
	"encoding/json"
	"fmt"
	"os"
	"reflect"
	"strconv"
	"testing"
	"time"

	v1beta1 "go.universe.tf/metallb/api/v1beta1"
	v1beta2 "go.universe.tf/metallb/api/v1beta2"
	"go.universe.tf/metallb/internal/config"
	corev1 "k8s.io/api/core/v1"
	metav1 "k8s.io/apimachinery/pkg/apis/meta/v1"
)

const vNS = "metallb-system"

type vLoadObjs struct {
	Pools []struct {
		Name  string   `json:"name"`
		Lab   string   `json:"lab"`
		Cidrs []int    `json:"cidrs"`
		Ns    []string `json:"ns"`
		Sel   bool     `json:"sel"`
		Nssel bool     `json:"nssel"`
		Prio  int      `json:"prio"`
	} `json:"pools"`
	Peers []struct {
		Name  string `json:"name"`
		Addr  int    `json:"addr"`
		Bfd   string `json:"bfd"`
		Vrf   string `json:"vrf"`
		MyASN uint32 `json:"myasn"`
		Rid   string `json:"rid"`
		Hold  int    `json:"hold"`
		Ka    int    `json:"ka"`
		Pw    string `json:"pw"`
	} `json:"peers"`
	Bfds []struct {
		Name string `json:"name"`
		Echo bool   `json:"echo"`
	} `json:"bfds"`
	L2advs []struct {
		Name  string   `json:"name"`
		Pools []string `json:"pools"`
		Ifs   []string `json:"ifs"`
		Nsel  []string `json:"nsel"`
	} `json:"l2advs"`
	Bgpadvs []struct {
		Name  string   `json:"name"`
		Pools []string `json:"pools"`
		Agg4  int32    `json:"agg4"`
		Lp    uint32   `json:"lp"`
		Comms []string `json:"comms"`
		Peers []string `json:"peers"`
		Nsel  []string `json:"nsel"`
		Psel  []string `json:"psel"`
	} `json:"bgpadvs"`
	Communities []struct {
		Name    string `json:"name"`
		Aliases []struct {
			Name  string `json:"name"`
			Value int    `json:"value"`
		} `json:"aliases"`
	} `json:"communities"`
	Nodes []struct {
		Name string `json:"name"`
		Zone string `json:"zone"`
	} `json:"nodes"`
	Namespaces []struct {
		Name string `json:"name"`
		Lab  string `json:"lab"`
	} `json:"namespaces"`
}

type vLoadScen struct {
	ID   string          `json:"id"`
	Snap json.RawMessage `json:"snap"`
	Objs vLoadObjs       `json:"objs"`
}

type vLoadDom struct {
	Perms [][][]int `json:"perms"` // Perms[n-1] = all permutations of n positions (1-based)
	Reps  int       `json:"reps"`
}

func vLoadCidr(c int) string {
	if c >= 100 {
		return fmt.Sprintf("fc00:2:%x::/64", c)
	}
	return fmt.Sprintf("10.2.%d.0/24", c)
}

func vZoneSelectors(vals []string) []metav1.LabelSelector {
	var out []metav1.LabelSelector
	for _, v := range vals {
		out = append(out, metav1.LabelSelector{MatchLabels: map[string]string{"zone": v}})
	}
	return out
}

func vLoadResources(o vLoadObjs) config.ClusterResources {
	var r config.ClusterResources
	for _, p := range o.Pools {
		cr := v1beta1.IPAddressPool{ObjectMeta: metav1.ObjectMeta{Name: p.Name, Namespace: vNS}}
		if p.Lab != "" {
			cr.Labels = map[string]string{"grp": p.Lab}
		}
		for _, c := range p.Cidrs {
			cr.Spec.Addresses = append(cr.Spec.Addresses, vLoadCidr(c))
		}
		if len(p.Ns) > 0 || p.Sel || p.Nssel {
			at := &v1beta1.ServiceAllocation{Priority: p.Prio}
			at.Namespaces = append(at.Namespaces, p.Ns...)
			if p.Sel {
				at.ServiceSelectors = []metav1.LabelSelector{{MatchLabels: map[string]string{"app": p.Name}}, {MatchLabels: map[string]string{"app": "any"}}}
			}
			if p.Nssel {
				at.NamespaceSelectors = []metav1.LabelSelector{{MatchLabels: map[string]string{"team": "x"}}}
			}
			cr.Spec.AllocateTo = at
		}
		r.Pools = append(r.Pools, cr)
	}
	for _, p := range o.Peers {
		cr := v1beta2.BGPPeer{ObjectMeta: metav1.ObjectMeta{Name: p.Name, Namespace: vNS},
			Spec: v1beta2.BGPPeerSpec{MyASN: p.MyASN, ASN: 64600, Address: fmt.Sprintf("10.9.0.%d", p.Addr), BFDProfile: p.Bfd,
				VRFName: p.Vrf, RouterID: p.Rid, Password: p.Pw}}
		if p.Hold > 0 {
			cr.Spec.HoldTime = &metav1.Duration{Duration: time.Duration(p.Hold) * time.Millisecond}
		}
		if p.Ka > 0 {
			cr.Spec.KeepaliveTime = &metav1.Duration{Duration: time.Duration(p.Ka) * time.Millisecond}
		}
		r.Peers = append(r.Peers, cr)
	}
	for _, p := range o.Bfds {
		cr := v1beta1.BFDProfile{ObjectMeta: metav1.ObjectMeta{Name: p.Name, Namespace: vNS}}
		if p.Echo {
			e := true
			cr.Spec.EchoMode = &e
		}
		r.BFDProfiles = append(r.BFDProfiles, cr)
	}
	for _, a := range o.L2advs {
		cr := v1beta1.L2Advertisement{ObjectMeta: metav1.ObjectMeta{Name: a.Name, Namespace: vNS}}
		cr.Spec.IPAddressPools = append(cr.Spec.IPAddressPools, a.Pools...)
		cr.Spec.Interfaces = append(cr.Spec.Interfaces, a.Ifs...)
		cr.Spec.NodeSelectors = vZoneSelectors(a.Nsel)
		r.L2Advs = append(r.L2Advs, cr)
	}
	for _, a := range o.Bgpadvs {
		cr := v1beta1.BGPAdvertisement{ObjectMeta: metav1.ObjectMeta{Name: a.Name, Namespace: vNS}}
		cr.Spec.IPAddressPools = append(cr.Spec.IPAddressPools, a.Pools...)
		agg := a.Agg4
		cr.Spec.AggregationLength = &agg
		cr.Spec.LocalPref = a.Lp
		cr.Spec.Communities = append(cr.Spec.Communities, a.Comms...)
		cr.Spec.Peers = append(cr.Spec.Peers, a.Peers...)
		cr.Spec.NodeSelectors = vZoneSelectors(a.Nsel)
		for _, v := range a.Psel {
			cr.Spec.IPAddressPoolSelectors = append(cr.Spec.IPAddressPoolSelectors, metav1.LabelSelector{MatchLabels: map[string]string{"grp": v}})
		}
		r.BGPAdvs = append(r.BGPAdvs, cr)
	}
	for _, c := range o.Communities {
		cr := v1beta1.Community{ObjectMeta: metav1.ObjectMeta{Name: c.Name, Namespace: vNS}}
		for _, al := range c.Aliases {
			cr.Spec.Communities = append(cr.Spec.Communities, v1beta1.CommunityAlias{Name: al.Name, Value: "64512:" + strconv.Itoa(al.Value)})
		}
		r.Communities = append(r.Communities, cr)
	}
	for _, n := range o.Nodes {
		r.Nodes = append(r.Nodes, corev1.Node{ObjectMeta: metav1.ObjectMeta{Name: n.Name, Labels: map[string]string{"zone": n.Zone}}})
	}
	for _, n := range o.Namespaces {
		r.Namespaces = append(r.Namespaces, corev1.Namespace{ObjectMeta: metav1.ObjectMeta{Name: n.Name, Labels: map[string]string{"team": n.Lab}}})
	}
	return r
}

func vPermuted[T any](in []T, pi []int) []T {
	if len(in) == 0 {
		return in
	}
	out := make([]T, len(in))
	for i := range in {
		out[i] = in[pi[i]-1]
	}
	return out
}

var vKinds = []string{"pools", "peers", "bfds", "l2advs", "bgpadvs", "communities", "nodes", "namespaces"}

func vKindLen(r *config.ClusterResources, kind string) int {
	switch kind {
	case "pools":
		return len(r.Pools)
	case "peers":
		return len(r.Peers)
	case "bfds":
		return len(r.BFDProfiles)
	case "l2advs":
		return len(r.L2Advs)
	case "bgpadvs":
		return len(r.BGPAdvs)
	case "communities":
		return len(r.Communities)
	case "nodes":
		return len(r.Nodes)
	}
	return len(r.Namespaces)
}

// vWithPerm: a copy of r in which kind is listed in the order pi (the other kinds untouched).
func vWithPerm(r config.ClusterResources, kind string, pi []int) config.ClusterResources {
	switch kind {
	case "pools":
		r.Pools = vPermuted(r.Pools, pi)
	case "peers":
		r.Peers = vPermuted(r.Peers, pi)
	case "bfds":
		r.BFDProfiles = vPermuted(r.BFDProfiles, pi)
	case "l2advs":
		r.L2Advs = vPermuted(r.L2Advs, pi)
	case "bgpadvs":
		r.BGPAdvs = vPermuted(r.BGPAdvs, pi)
	case "communities":
		r.Communities = vPermuted(r.Communities, pi)
	case "nodes":
		r.Nodes = vPermuted(r.Nodes, pi)
	case "namespaces":
		r.Namespaces = vPermuted(r.Namespaces, pi)
	}
	return r
}

type vTally struct {
	Kind  string `json:"kind"`
	N     int    `json:"n"`     // objects of the kind
	Runs  int    `json:"runs"`  // loads performed
	Neq   int    `json:"neq"`   // accepted loads whose value is not DeepEqual to the reference
	Nacc  int    `json:"nacc"`  // accepted
	Nrej  int    `json:"nrej"`  // rejected
	First []int  `json:"first"` // first permutation with a different value / verdict
}

// one validator mode through one entry point
type vModeObs struct {
	Mode    string   `json:"mode"`  // none = DontValidate, native = DiscardFRROnly, frr = DiscardNativeOnly
	Entry   string   `json:"entry"` // toConfig (value + verdict), webhook = NewValidator(v).Validate(lists), for = config.For(unsorted, v)
	FirstOk bool     `json:"first_ok"`
	Err     string   `json:"err"`
	Reps    vTally   `json:"reps"`
	Kinds   []vTally `json:"kinds"`
	Comb    vTally   `json:"comb"`
}

type vLoadObs struct {
	T     string          `json:"t"`
	ID    string          `json:"id"`
	Snap  json.RawMessage `json:"snap"`
	Panic string          `json:"panic"`
	Modes []vModeObs      `json:"modes"`
}

func vClean(s string) string {
	b := []rune(s)
	for i, r := range b {
		if r == '"' || r == '\\' || r < 32 || r > 126 {
			b[i] = '\''
		}
	}
	if len(b) > 100 {
		b = b[:100]
	}
	return string(b)
}

var vLoadModes = []struct {
	name string
	v    config.Validate
}{{"none", config.DontValidate}, {"native", config.DiscardFRROnly}, {"frr", config.DiscardNativeOnly}}

// vLoadOnce: one load through one entry point; the value only for toConfig.
func vLoadOnce(entry string, r config.ClusterResources, v config.Validate) (*config.Config, error) {
	switch entry {
	case "toConfig":
		return toConfig(r, v)
	case "for":
		_, err := config.For(r, v)
		return nil, err
	}
	// the validating webhooks' entry point: the lists as the API server returned them
	err := config.NewValidator(v).Validate(
		&v1beta1.IPAddressPoolList{Items: r.Pools}, &v1beta2.BGPPeerList{Items: r.Peers}, &v1beta1.BFDProfileList{Items: r.BFDProfiles},
		&v1beta1.BGPAdvertisementList{Items: r.BGPAdvs}, &v1beta1.L2AdvertisementList{Items: r.L2Advs},
		&v1beta1.CommunityList{Items: r.Communities}, &corev1.NodeList{Items: r.Nodes})
	return nil, err
}

func vLoadMode(sc vLoadScen, dom vLoadDom, mode string, v config.Validate, entry string, reps int) vModeObs {
	m := vModeObs{Mode: mode, Entry: entry, Kinds: []vTally{}}
	m.Reps.First, m.Comb.First = []int{}, []int{}
	base := vLoadResources(sc.Objs)
	ref, err := vLoadOnce(entry, base, v)
	m.FirstOk = err == nil
	if err != nil {
		m.Err = vClean(err.Error())
	}
	tally := func(t *vTally, r config.ClusterResources, pi []int) {
		cfg, e := vLoadOnce(entry, r, v)
		t.Runs++
		diff := false
		if e != nil {
			t.Nrej++
			diff = m.FirstOk
		} else {
			t.Nacc++
			if !m.FirstOk {
				diff = true
			} else if entry == "toConfig" && !reflect.DeepEqual(ref, cfg) {
				t.Neq++
				diff = true
			}
		}
		if diff && len(t.First) == 0 && pi != nil {
			t.First = append(t.First, pi...)
		}
	}
	m.Reps.Kind = "reps"
	for k := 0; k < reps; k++ {
		tally(&m.Reps, base, nil)
	}
	maxPerms := 1
	for _, kind := range vKinds {
		n := vKindLen(&base, kind)
		t := vTally{Kind: kind, N: n, First: []int{}}
		if n >= 2 {
			perms := dom.Perms[n-1]
			if len(perms) > maxPerms {
				maxPerms = len(perms)
			}
			for _, pi := range perms {
				tally(&t, vWithPerm(base, kind, pi), pi)
			}
		}
		m.Kinds = append(m.Kinds, t)
	}
	// all kinds permuted at once: the j-th permutation of every kind
	m.Comb.Kind = "combined"
	for j := 1; j < maxPerms; j++ {
		r := base
		for _, kind := range vKinds {
			if n := vKindLen(&base, kind); n >= 2 {
				perms := dom.Perms[n-1]
				r = vWithPerm(r, kind, perms[j%len(perms)])
			}
		}
		tally(&m.Comb, r, []int{j})
	}
	return m
}

func vLoadRun(sc vLoadScen, dom vLoadDom) (o vLoadObs) {
	o = vLoadObs{T: "load", ID: sc.ID, Snap: sc.Snap, Modes: []vModeObs{}}
	defer func() {
		if r := recover(); r != nil {
			o.Panic = vClean(fmt.Sprint(r))
		}
	}()
	for _, md := range vLoadModes {
		for _, entry := range []string{"toConfig", "webhook", "for"} {
			reps := dom.Reps
			if entry != "toConfig" || md.name != "none" {
				reps = (dom.Reps + 3) / 4
			}
			o.Modes = append(o.Modes, vLoadMode(sc, dom, md.name, md.v, entry, reps))
		}
	}
	return o
}

func TestVerifConfigLoad(t *testing.T) {
	var dom vLoadDom
	b, err := os.ReadFile(os.Getenv("VERIF_DOMAIN"))
	vMust(err)
	vMust(json.Unmarshal(b, &dom))
	var scens []vLoadScen
	vReadLines("VERIF_SCENARIOS", func(line []byte) {
		var sc vLoadScen
		vMust(json.Unmarshal(line, &sc))
		scens = append(scens, sc)
	})
	out := make([][]interface{}, len(scens))
	total := make([]int, len(scens))
	vParallel(len(scens), func(i int) {
		o := vLoadRun(scens[i], dom)
		out[i] = []interface{}{o}
		for _, m := range o.Modes {
			total[i] += m.Reps.Runs + m.Comb.Runs + 1
			for _, k := range m.Kinds {
				total[i] += k.Runs
			}
		}
	})
	vWriteObs(out)
	sum := 0
	for _, x := range total {
		sum += x
	}
	t.Logf("toConfig: %d loads over %d snapshots", sum, len(out))
}
