//go:build verif

package verifkit

// Helpers of the listener family (C20): a per-run logical clock, the goroutine-dump based
// watchdog (deadlock vs. stall) and the normalisation of code positions.  Nothing here judges.

import (
	"fmt"
	"regexp"
	"runtime"
	"sort"
	"strconv"
	"strings"
	"sync/atomic"
	"time"
)

// LsnClock is the logical clock of one run: every logged event takes a tick.
type LsnClock struct{ n int64 }

func (c *LsnClock) Tick() int64 { return atomic.AddInt64(&c.n, 1) }
func (c *LsnClock) Now() int64  { return atomic.LoadInt64(&c.n) }

var lsnGoidRe = regexp.MustCompile(`^goroutine (\d+) \[`)

// LsnGoid returns the id of the calling goroutine (parsed from its stack header).
func LsnGoid() int64 {
	buf := make([]byte, 64)
	buf = buf[:runtime.Stack(buf, false)]
	m := lsnGoidRe.FindSubmatch(buf)
	if m == nil {
		return -1
	}
	n, _ := strconv.ParseInt(string(m[1]), 10, 64)
	return n
}

var lsnFrameRe = regexp.MustCompile(`^\s+(/\S+\.go):(\d+)`)

// LsnSite normalises a file position: files of the repository become "<repo-relative path>:<line>",
// harness files (injected by the overlay) "harness", everything else "".
func LsnSite(file string, line string) string {
	if strings.Contains(file, "/harness/") || strings.Contains(file, "zz_verif_") || strings.Contains(file, "/verifkit/") {
		return "harness"
	}
	for _, mark := range []string{"/internal/", "/controller/", "/speaker/", "/api/", "/frr-tools/"} {
		if i := strings.Index(file, mark); i >= 0 && !strings.Contains(file, "/pkg/mod/") && !strings.Contains(file, "/go/src/") &&
			!strings.Contains(file, "/toolchain@") {
			return file[i+1:] + ":" + line
		}
	}
	return ""
}

// LsnTopSite returns the first repository (non-harness) position of a stack text, "" if none.
func LsnTopSite(stack string) string {
	for _, l := range strings.Split(stack, "\n") {
		if m := lsnFrameRe.FindStringSubmatch(l); m != nil {
			if s := LsnSite(m[1], m[2]); s != "" && s != "harness" {
				return s
			}
		}
	}
	return ""
}

// LsnPanic describes a recovered panic: message class and the repository position that raised it.
func LsnPanic(p interface{}) map[string]string {
	buf := make([]byte, 1<<16)
	buf = buf[:runtime.Stack(buf, false)]
	st := string(buf)
	// skip the frames of the recovery itself: the panicking frames follow "panic("
	if i := strings.Index(st, "panic("); i >= 0 {
		st = st[i:]
	}
	msg := fmt.Sprint(p)
	if len(msg) > 160 {
		msg = msg[:160]
	}
	return map[string]string{"msg": msg, "site": LsnTopSite(st)}
}

// LsnBlocked is the verdict of the watchdog about the goroutines of one run.
type LsnBlocked struct {
	Deadlock bool     `json:"deadlock"` // every goroutine of the run sat in a blocking synchronisation, twice, without progress
	Stall    bool     `json:"stall"`    // the run did not finish in time but is not provably blocked
	Sites    []string `json:"sites"`    // where the blocked goroutines wait (repository positions)
	States   []string `json:"states"`
}

var lsnBlockedStates = map[string]bool{"semacquire": true, "sync.Mutex.Lock": true, "sync.RWMutex.RLock": true,
	"sync.RWMutex.Lock": true, "chan send": true, "chan receive": true, "select": true, "sync.WaitGroup.Wait": true,
	"sync.Cond.Wait": true, "chan send (nil chan)": true, "chan receive (nil chan)": true, "select (no cases)": true}

type lsnGState struct {
	state string
	site  string
}

func lsnDump(ids map[int64]bool) map[int64]lsnGState {
	buf := make([]byte, 8<<20)
	buf = buf[:runtime.Stack(buf, true)]
	out := map[int64]lsnGState{}
	for _, blk := range strings.Split(string(buf), "\n\n") {
		m := lsnGoidRe.FindStringSubmatch(blk)
		if m == nil {
			continue
		}
		id, _ := strconv.ParseInt(m[1], 10, 64)
		if !ids[id] {
			continue
		}
		hdr := blk[:strings.IndexByte(blk+"\n", '\n')]
		st := hdr[strings.IndexByte(hdr, '[')+1:]
		if j := strings.IndexAny(st, ",]"); j >= 0 {
			st = st[:j]
		}
		out[id] = lsnGState{state: st, site: LsnTopSite(blk)}
	}
	return out
}

// LsnWatch waits for done.  When it does not come within limit it inspects the goroutines ids()
// of the run twice, pause apart: deadlock iff the progress counter stood still and every live
// goroutine of the run is in a blocking synchronisation state at the same position both times.
func LsnWatch(done <-chan struct{}, limit, pause time.Duration, progress func() int64, ids func() map[int64]bool) LsnBlocked {
	select {
	case <-done:
		return LsnBlocked{Sites: []string{}, States: []string{}}
	case <-time.After(limit):
	}
	p1 := progress()
	d1 := lsnDump(ids())
	select {
	case <-done:
		return LsnBlocked{Sites: []string{}, States: []string{}}
	case <-time.After(pause):
	}
	p2 := progress()
	d2 := lsnDump(ids())
	res := LsnBlocked{Sites: []string{}, States: []string{}}
	all := len(d2) > 0 && p1 == p2
	seenSite := map[string]bool{}
	for id, g := range d2 {
		res.States = append(res.States, g.state)
		if !lsnBlockedStates[g.state] || d1[id] != g {
			all = false
		}
		if g.site != "" && !seenSite[g.site] {
			seenSite[g.site] = true
			res.Sites = append(res.Sites, g.site)
		}
	}
	sort.Strings(res.Sites)
	sort.Strings(res.States)
	res.Deadlock = all
	res.Stall = !all
	return res
}
