//go:build verif

package native

// Role B harness for C17, part 3: the two drivers.
//
//   TestVerifSessStress  free-running, seeded (VERIF_SEED) stress against the real session:
//                        random Sets (empty sets, attribute-only changes, bursts), drops (idle,
//                        after n more UPDATEs, in the middle of the next full send, FIN or RST),
//                        wrong-ASN phases (at most two refused attempts), Close; settled
//                        observations at intermediate points and at the end.
//   TestVerifSessGated   schedules chosen by TLC (spec/BGPSessionMC.tla, simulation) replayed
//                        through the blocking hook; needs the verifPoint calls in native.go.
//
// The drivers hold no oracle.  Waiting limits only decide how faithfully a schedule is followed
// and whether a settled observation gets logged; a limit that expires is logged as
// {"k":"end","status":"timeout:..."} and makes the run inconclusive, never a failure.

import (
	"bufio"
	"encoding/json"
	"math/rand"
	"net"
	"os"
	"strconv"
	"sync"
	"testing"
	"time"

	"github.com/go-kit/log"
	"go.universe.tf/metallb/internal/bgp"
	kit "go.universe.tf/metallb/internal/verifkit"
)

type vSessRun struct {
	id      string
	l       *vSessLog
	u       *vSessUniverse
	p       *vSessPeer
	c       *vSessCtl
	s       *session
	hooks   bool
	lastReq map[string]string
	closed  bool
	status  string
	settle  time.Duration // hook-less mode: how long the connection must have been quiet
	quiet   time.Duration // how long the peer is watched after Close returned
	settled int
	pending []chan struct{} // calls in progress (Set / Close that may be blocked on s.mu)
}

func vSessEnvInt(name string, def int) int {
	if v := os.Getenv(name); v != "" {
		if n, err := strconv.Atoi(v); err == nil {
			return n
		}
	}
	return def
}

func vSessStart(id, mode string, ibgp bool, hold uint16, gated bool, seed int64, wrongFirst int) *vSessRun {
	return vSessStartHold(id, mode, ibgp, hold, gated, seed, wrongFirst, false)
}

func vSessStartHold(id, mode string, ibgp bool, hold uint16, gated bool, seed int64, wrongFirst int, holdFirst bool) *vSessRun {
	return vSessStartOpt(id, mode, ibgp, hold, gated, seed, wrongFirst, vSessOpt{holdFirst: holdFirst, src: seed%2 == 0})
}

// vSessOpt: further dimensions of a run.
type vSessOpt struct {
	holdFirst bool
	src       bool          // the session is created WITH SessionParameters.SourceAddress (127.0.0.1 as net.ParseIP gives it)
	slowSend  time.Duration // free-running, with the hook: the sender is paced (up to this long) after every UPDATE it wrote
	jitter    bool          // with the hook: s.conn is wrapped by a connection whose Write calls are delayed individually
	plainPeer bool          // the peer does not vary its OPEN (capability 65, hold time as given, no pipelining)
}

func vSessStartOpt(id, mode string, ibgp bool, hold uint16, gated bool, seed int64, wrongFirst int, opt vSessOpt) *vSessRun {
	holdFirst := opt.holdFirst
	r := &vSessRun{id: id, hooks: vSessHooksPresent, lastReq: vSessEmptyTable(), status: "ok",
		settle: time.Duration(vSessEnvInt("VERIF_SETTLE_MS", 250)) * time.Millisecond,
		quiet:  time.Duration(vSessEnvInt("VERIF_QUIET_MS", 120)) * time.Millisecond}
	r.l = vSessNewLog(id)
	r.u = vSessNewUniverse(ibgp)
	myASN, peerASN := uint32(64512), uint32(64512)
	if !ibgp {
		peerASN = 64600
	}
	r.p = vSessNewPeer(r.l, r.u, peerASN, hold)
	r.p.vary, r.p.myASN = !opt.plainPeer, myASN
	r.p.rng = rand.New(rand.NewSource(seed*7919 + 17))
	if gated {
		r.p.holds = []uint16{0, 30} // no keepalive traffic within a gated run
	} else {
		r.p.holds = []uint16{hold, hold, 0, 3, 30}
	}
	r.p.start()
	r.p.setWrong(wrongFirst)
	if holdFirst {
		r.p.armHold()
	}
	r.c = vSessNewCtl(r.l, r.u, gated && r.hooks)
	r.c.callerG[vSessGoid()] = true
	r.c.slowSend, r.c.jitter = opt.slowSend, opt.jitter
	r.c.pace = rand.New(rand.NewSource(seed*31 + 5))
	r.l.add("meta", map[string]interface{}{"mode": mode, "ibgp": ibgp, "hooks": r.hooks, "seed": int(seed), "hold": int(hold),
		"src": opt.src, "slow": int(opt.slowSend / time.Microsecond), "jitter": opt.jitter})
	var src net.IP
	if opt.src {
		src = net.ParseIP("127.0.0.1")
	}
	vSessCtls.Store(uint16(r.p.port), r.c)
	ht := 90 * time.Second
	sess, err := NewSessionManager(log.NewNopLogger()).NewSession(log.NewNopLogger(), bgp.SessionParameters{
		PeerAddress: "127.0.0.1", PeerPort: uint16(r.p.port), MyASN: myASN, PeerASN: peerASN,
		HoldTime: &ht, CurrentNode: "verif", SessionName: id, SourceAddress: src})
	kit.Must(err)
	r.s = sess.(*session)
	r.l.mu.Lock()
	r.c.s = r.s
	r.l.mu.Unlock()
	return r
}

func (r *vSessRun) finish() {
	r.p.release()
	r.waitCalls(2 * time.Second)
	if !r.closed {
		r.doClose()
	}
	r.c.ungate()
	r.l.add("end", map[string]interface{}{"status": r.status, "desync": r.c.desync, "settled": r.settled})
	r.p.stop()
	vSessCtls.Delete(uint16(r.p.port))
}

// startCall runs f on a helper goroutine (registered as a caller for the hook) and logs ret when f
// has returned.  The call may block on s.mu (the sender holds it during sends and across the
// whole handshake): that is not judged; what is judged is what happens after "<x>.ret".
func (r *vSessRun) startCall(ret string, f func()) {
	done := make(chan struct{})
	r.pending = append(r.pending, done)
	go func() {
		g := vSessGoid()
		r.l.mu.Lock()
		r.c.callerG[g] = true
		r.l.mu.Unlock()
		f()
		r.l.add(ret, nil)
		close(done)
	}()
}

// waitCalls waits for the calls in progress; if they do not return in time the peer's held
// handshake is released and the gates are opened for good (the schedule is abandoned, not the run).
func (r *vSessRun) waitCalls(first time.Duration) bool {
	ok := true
	for _, done := range r.pending {
		select {
		case <-done:
			continue
		case <-time.After(first):
		}
		ok = false
		r.p.release()
		r.c.ungate()
		select {
		case <-done:
		case <-time.After(20 * time.Second):
			r.status = "timeout:call"
		}
	}
	r.pending = nil
	return ok
}

func (r *vSessRun) startSet(t map[string]string) {
	cp := vSessEmptyTable()
	for k, v := range t {
		cp[k] = v
	}
	r.lastReq = cp
	r.l.add("set.call", map[string]interface{}{"S": cp, "req": vSessPairs(cp)})
	advs := r.u.advs(cp)
	r.startCall("set.ret", func() { _ = r.s.Set(advs...) })
}

func (r *vSessRun) startClose() {
	r.closed = true
	r.l.add("close.call", nil)
	r.startCall("close.ret", func() { _ = r.s.Close() })
}

func (r *vSessRun) doSet(t map[string]string) {
	r.startSet(t)
	r.waitCalls(2 * time.Second)
}

func (r *vSessRun) doClose() {
	r.startClose()
	r.waitCalls(2 * time.Second)
}

// waitCallsSoft waits for the calls in progress without abandoning anything.
func (r *vSessRun) waitCallsSoft(limit time.Duration) {
	deadline := time.Now().Add(limit)
	left := r.pending[:0]
	for _, done := range r.pending {
		t := time.NewTimer(time.Until(deadline))
		select {
		case <-done:
		case <-t.C:
			left = append(left, done)
		}
		t.Stop()
	}
	r.pending = left
}

// unblock: a step that needs s.mu free cannot be replayed while the peer holds a handshake back
// or a call is pending (the schedule has drifted from the model): let both finish first.
func (r *vSessRun) unblock() {
	if r.holding() {
		r.p.release()
		r.c.waitFor(700*time.Millisecond, func() bool { return r.l.holdC == 0 }, nil)
		r.c.stabilize()
	}
	r.drainCalls()
}

// drainCalls: there is ONE caller (the model's `call` variable, and the meaning of "the most
// recently requested set"): before the next call is issued the one in progress must have
// returned.  If it is blocked because the replay has drifted from the schedule (the peer still
// holds a handshake back, the sender sits at a gate with s.mu held), the blockers are moved on.
func (r *vSessRun) drainCalls() {
	for n := 0; n < 60 && len(r.pending) > 0; n++ {
		r.waitCallsSoft(20 * time.Millisecond)
		if len(r.pending) == 0 {
			return
		}
		if r.holding() {
			r.p.release()
			r.c.waitFor(700*time.Millisecond, func() bool { return r.l.holdC == 0 }, nil)
		}
		if r.c.senderHoldsLock() {
			r.c.releaseSender()
		}
		r.c.stabilize()
	}
	if len(r.pending) > 0 {
		r.waitCalls(2 * time.Second) // gives the schedule up (gates open), not the run
	}
}

func (r *vSessRun) holding() bool {
	r.l.mu.Lock()
	defer r.l.mu.Unlock()
	return r.l.holdC != 0
}

// trySettle waits until the session is idle on a live connection and logs a settled
// observation in the same critical section in which that was seen.
//
//	with the hook:    the sender is parked in cond.Wait with nothing pending (read under s.mu by
//	                  the hook), and the peer has read every UPDATE the hook saw being written
//	                  on this connection - an exact, clock-free criterion;
//	without the hook: s.conn != nil, s.new == nil (read under s.mu) and nothing received for
//	                  the settle period.
func (r *vSessRun) trySettle(limit time.Duration) bool {
	c, l := r.c, r.l
	req := vSessPairs(r.lastReq)
	if r.hooks {
		ok := c.waitFor(limit, func() bool {
			return c.sstate == vSessParked && !c.wakePending && c.up && !c.newHas && !c.closed &&
				l.curAlive && l.curConn == c.connPeerIdx && l.updRecv[l.curConn] == c.sentOnConn
		}, func() {
			l.addLocked("settled", map[string]interface{}{"c": l.curConn, "req": req, "how": "hook", "nupd": l.updRecv[l.curConn]})
		})
		if ok {
			r.settled++
		}
		return ok
	}
	deadline := time.Now().Add(limit)
	for time.Now().Before(deadline) {
		r.s.mu.Lock()
		l.mu.Lock()
		idle := r.s.conn != nil && r.s.new == nil && !r.s.closed && l.curAlive && time.Since(l.lastEvent) >= r.settle
		if idle {
			l.addLocked("settled", map[string]interface{}{"c": l.curConn, "req": req, "how": "time", "nupd": l.updRecv[l.curConn]})
		}
		l.mu.Unlock()
		r.s.mu.Unlock()
		if idle {
			r.settled++
			return true
		}
		time.Sleep(5 * time.Millisecond)
	}
	return false
}

// afterClose watches the peer for the quiet period and logs what it saw.
func (r *vSessRun) afterClose() {
	time.Sleep(r.quiet)
	r.l.mu.Lock()
	r.l.addLocked("quiet", map[string]interface{}{"accepts": r.l.accepts})
	r.l.mu.Unlock()
}

// ---------------------------------------------------------------------------- stress

func vSessRandTable(rng *rand.Rand, cur map[string]string) map[string]string {
	t := vSessEmptyTable()
	x := rng.Intn(100)
	switch {
	case x < 12: // empty set
	case x < 40: // attribute-only change of the current set (if it is not empty)
		n := 0
		for _, r := range vSessRoutes {
			t[r] = cur[r]
			if cur[r] != "-" {
				n++
			}
		}
		if n == 0 {
			t[vSessRoutes[rng.Intn(len(vSessRoutes))]] = vSessAttrNames[rng.Intn(len(vSessAttrNames))]
			break
		}
		for changed := false; !changed; {
			for _, r := range vSessRoutes {
				if t[r] != "-" && rng.Intn(2) == 0 {
					a := vSessAttrNames[rng.Intn(len(vSessAttrNames))]
					if a != t[r] {
						t[r] = a
						changed = true
					}
				}
			}
		}
	case x < 46: // the same set again
		for _, r := range vSessRoutes {
			t[r] = cur[r]
		}
	default:
		for _, r := range vSessRoutes {
			if rng.Intn(2) == 0 {
				t[r] = vSessAttrNames[rng.Intn(len(vSessAttrNames))]
			}
		}
	}
	return t
}

// slowHandshake: the peer reads the session's OPEN on the next connection and keeps its own
// back; Set and/or Close are issued while the handshake is pending (with the code as it is they
// block on s.mu until connect() returns); then the peer answers - possibly with a wrong ASN -
// and the calls are awaited.
func (r *vSessRun) slowHandshake(rng *rand.Rand, armed bool) {
	if !armed {
		r.p.armHold()
		r.p.drop(0, rng.Intn(2) == 0) // if there is no live connection the next attempt is held anyway
	}
	if !r.c.waitFor(3*time.Second, func() bool { return r.l.holdC != 0 }, nil) {
		r.p.release()
		return
	}
	x := rng.Intn(100)
	if x < 55 {
		r.startSet(vSessRandTable(rng, r.lastReq))
	}
	if x >= 30 {
		if len(r.pending) > 0 && rng.Intn(2) == 0 {
			time.Sleep(time.Duration(rng.Intn(1500)) * time.Microsecond)
		}
		r.startClose()
	}
	if rng.Intn(4) == 0 {
		r.p.setWrong(1)
	}
	time.Sleep(time.Duration(rng.Intn(3000)) * time.Microsecond)
	r.p.release()
	r.waitCalls(15 * time.Second)
	r.p.setWrong(0)
}

// vSessJitterRun: a live session with keepalives every second (hold time 3 s) over a connection
// whose Write calls are delayed individually (short writes longer), while Sets keep the sender
// busy: whatever the session writes concurrently must still reach the peer as whole messages.
func vSessJitterRun(id string, seed int64) *vSessLog {
	rng := rand.New(rand.NewSource(seed))
	r := vSessStartOpt(id, "stress", rng.Intn(2) == 0, 3, false, seed, 0, vSessOpt{jitter: true, plainPeer: true, src: rng.Intn(2) == 0})
	defer r.finish()
	end := time.Now().Add(time.Duration(vSessEnvInt("VERIF_JITTER_MS", 3300)) * time.Millisecond)
	for time.Now().Before(end) && r.status == "ok" {
		r.doSet(vSessRandTable(rng, r.lastReq))
		time.Sleep(time.Duration(1500+rng.Intn(3000)) * time.Microsecond)
	}
	if r.status != "ok" {
		return r.l
	}
	if !r.trySettle(10 * time.Second) {
		r.status = "timeout:settle"
		return r.l
	}
	r.doClose()
	r.afterClose()
	return r.l
}

func vSessStressRun(id string, seed int64) *vSessLog {
	rng := rand.New(rand.NewSource(seed))
	ibgp := rng.Intn(2) == 0
	hold := uint16(0)
	if rng.Intn(100) < 30 {
		hold = 3
	}
	wrongFirst := 0
	wrongUsed := false
	if rng.Intn(100) < 6 {
		wrongFirst, wrongUsed = 1+rng.Intn(2), true
	}
	holdFirst := rng.Intn(100) < 8
	opt := vSessOpt{holdFirst: holdFirst, src: rng.Intn(2) == 0}
	if rng.Intn(100) < 35 {
		// a slow socket: the sender is held up after every UPDATE, so that a reset by the peer in
		// the middle of a burst is noticed by the next write of the same burst
		opt.slowSend = time.Duration(200+rng.Intn(1300)) * time.Microsecond
	}
	r := vSessStartOpt(id, "stress", ibgp, hold, false, seed, wrongFirst, opt)
	defer r.finish()
	if holdFirst {
		r.slowHandshake(rng, true)
	}
	nops := 5 + rng.Intn(22)
	limit := 8 * time.Second
	for i := 0; i < nops && !r.closed && r.status == "ok"; i++ {
		x := rng.Intn(100)
		switch {
		case x < 42:
			r.doSet(vSessRandTable(rng, r.lastReq))
		case x < 50:
			for n := 2 + rng.Intn(4); n > 0; n-- {
				r.doSet(vSessRandTable(rng, r.lastReq))
			}
		case x < 60:
			r.p.drop(0, rng.Intn(2) == 0)
		case x < 68:
			r.p.armDrop(1+rng.Intn(3), rng.Intn(2) == 0)
			r.doSet(vSessRandTable(rng, r.lastReq))
		case x < 75:
			r.p.armNextDrop(1+rng.Intn(3), rng.Intn(2) == 0)
			r.p.drop(0, rng.Intn(2) == 0)
		case x < 79:
			if !wrongUsed {
				wrongUsed = true
				n := 1 + rng.Intn(2)
				before := r.p.refusedCount()
				r.p.setWrong(n)
				r.p.drop(0, false)
				if rng.Intn(2) == 0 {
					r.doSet(vSessRandTable(rng, r.lastReq))
				}
				// at most two refused attempts (back-off 0 s, then 1 s), then the right ASN again
				r.c.waitFor(6*time.Second, func() bool { return r.p.refusedCount() >= before+n }, nil)
				r.p.setWrong(0)
			}
		case x < 88:
			if !r.trySettle(limit) {
				r.status = "timeout:settle"
			}
		case x < 93:
			r.slowHandshake(rng, false)
		default:
			time.Sleep(time.Duration(rng.Intn(3000)) * time.Microsecond)
		}
	}
	if r.status != "ok" {
		return r.l
	}
	if r.closed {
		r.afterClose()
		return r.l
	}
	if rng.Intn(100) < 15 {
		// Close in the middle of whatever is going on, possibly followed by more Sets
		r.doClose()
		for n := rng.Intn(3); n > 0; n-- {
			r.doSet(vSessRandTable(rng, r.lastReq))
		}
		r.afterClose()
		return r.l
	}
	if !r.closed {
		if !r.trySettle(limit) {
			r.status = "timeout:settle"
			return r.l
		}
		r.doClose()
		if rng.Intn(3) == 0 {
			r.doSet(vSessRandTable(rng, r.lastReq))
		}
		r.afterClose()
	}
	return r.l
}

// ---------------------------------------------------------------------------- gated

type vSessStep struct {
	A string            `json:"a"`
	S map[string]string `json:"S"`
	K int               `json:"k"`
}

type vSessSchedule struct {
	ID    string      `json:"id"`
	Ibgp  bool        `json:"ibgp"`
	Steps []vSessStep `json:"steps"`
}

func vSessGatedRun(sc vSessSchedule) *vSessLog {
	var h int64
	for _, ch := range sc.ID {
		h = h*131 + int64(ch)
	}
	r := vSessStart(sc.ID, "gated", sc.Ibgp, 0, true, h, 0)
	defer r.finish()
	c := r.c
	c.stabilize() // the sender arrives at gate.connect
	for n, st := range sc.Steps {
		if r.status != "ok" || !func() bool { r.l.mu.Lock(); defer r.l.mu.Unlock(); return c.gated }() {
			break
		}
		switch st.A {
		case "ConnectBegin":
			r.l.mu.Lock()
			at := c.sstate == vSessAtGate && c.spoint == "gate.connect"
			r.l.mu.Unlock()
			if at {
				r.p.armHold()
				c.releaseSender()
				// the sender is now inside connect(): wait until the peer holds its OPEN (or the sender left)
				c.waitFor(700*time.Millisecond, func() bool { return r.l.holdC != 0 || c.sstate != vSessRunning }, nil)
			}
		case "CallSet":
			r.drainCalls()
			t := vSessEmptyTable()
			for k, v := range st.S {
				t[k] = v
			}
			r.startSet(t)
		case "CallClose":
			if !r.closed {
				r.drainCalls()
				r.startClose()
			}
		case "RunCall":
			if len(r.pending) > 0 {
				r.waitCallsSoft(700 * time.Millisecond)
				c.stabilize()
			}
		case "Set":
			r.unblock()
			c.ensureLockFree()
			t := vSessEmptyTable()
			for k, v := range st.S {
				t[k] = v
			}
			r.doSet(t)
			c.stabilize()
		case "Close":
			if !r.closed {
				r.unblock()
				c.ensureLockFree()
				r.doClose()
				c.stabilize()
			}
		case "ConnectOK", "ConnectRefused":
			r.l.mu.Lock()
			at := c.sstate == vSessAtGate && c.spoint == "gate.connect"
			r.l.mu.Unlock()
			if st.A == "ConnectRefused" {
				r.p.setWrong(1)
			} else {
				r.p.setWrong(0)
			}
			if r.holding() { // the peer answers the pending handshake
				r.p.release()
				c.waitFor(700*time.Millisecond, func() bool { return r.l.holdC == 0 }, nil)
				c.stabilize()
			} else if at {
				c.releaseSender()
				c.stabilize()
			}
		case "ReaderSeesEOF":
			r.unblock()
			c.ensureLockFree()
			c.releaseReader(st.K, 250*time.Millisecond)
			c.stabilize()
		case "PeerDrops":
			r.p.drop(0, n%2 == 1) // FIN or RST, fixed by the position in the schedule
		case "PeerRecv":
			c.waitFor(100*time.Millisecond, func() bool {
				return r.l.curConn != c.connPeerIdx || !r.l.curAlive || r.l.updRecv[r.l.curConn] >= c.sentOnConn
			}, nil)
		case "KeepaliveFails", "Init":
		default: // every other action is a step of the sender goroutine
			if c.releaseSender() {
				c.stabilize()
			}
		}
	}
	// the schedule is over: open the gates, let the session converge, observe, close, observe
	c.ungate()
	r.p.setWrong(0)
	r.p.release()
	r.waitCalls(10 * time.Second)
	if r.status != "ok" {
		return r.l
	}
	if !r.closed {
		if !r.trySettle(8 * time.Second) {
			r.status = "timeout:settle"
			return r.l
		}
		r.doClose()
	}
	r.afterClose()
	return r.l
}

// ---------------------------------------------------------------------------- tests

func vSessWorkers() int {
	return vSessEnvInt("VERIF_PAR", 12)
}

func TestVerifSessStress(t *testing.T) {
	out := kit.NewObsWriter()
	defer out.Close()
	seed := int64(vSessEnvInt("VERIF_SEED", 1))
	runs := vSessEnvInt("VERIF_RUNS", 50)
	first := vSessEnvInt("VERIF_FIRST", 0)
	only := os.Getenv("VERIF_ONLY") // replay: one run id
	ch := make(chan int)
	var wg sync.WaitGroup
	for w := 0; w < vSessWorkers(); w++ {
		wg.Add(1)
		go func() {
			defer wg.Done()
			for n := range ch {
				id := "s" + strconv.FormatInt(seed, 10) + "_" + strconv.Itoa(n)
				if only != "" && id != only {
					continue
				}
				var l *vSessLog
				if n%50 == 7 && vSessHooksPresent {
					l = vSessJitterRun(id, seed*1000003+int64(n))
				} else {
					l = vSessStressRun(id, seed*1000003+int64(n))
				}
				b := &kit.Block{}
				l.flush(b)
				out.WriteBlock(b)
			}
		}()
	}
	for n := first; n < first+runs; n++ {
		ch <- n
	}
	close(ch)
	wg.Wait()
}

func TestVerifSessGated(t *testing.T) {
	if !vSessHooksPresent {
		t.Skip("no verifPoint hook in the tree under test")
	}
	f, err := os.Open(os.Getenv("VERIF_SCENARIOS"))
	kit.Must(err)
	defer f.Close()
	out := kit.NewObsWriter()
	defer out.Close()
	ch := make(chan vSessSchedule)
	var wg sync.WaitGroup
	for w := 0; w < vSessWorkers(); w++ {
		wg.Add(1)
		go func() {
			defer wg.Done()
			for sc := range ch {
				l := vSessGatedRun(sc)
				b := &kit.Block{}
				l.flush(b)
				out.WriteBlock(b)
			}
		}()
	}
	scan := bufio.NewScanner(f)
	scan.Buffer(make([]byte, 1<<20), 1<<26)
	for scan.Scan() {
		var sc vSessSchedule
		kit.Must(json.Unmarshal(scan.Bytes(), &sc))
		ch <- sc
	}
	close(ch)
	wg.Wait()
}
