------------------------------ MODULE Controller ------------------------------
(***************************************************************************)
(* The controller process: controller.SetBalancer / convergeBalancer /      *)
(* allocateIPs (controller/main.go, controller/service.go), the service     *)
(* reconciler with its start-up gate and full re-sync passes                *)
(* (internal/k8s/controllers/service_controller*.go), the API server's      *)
(* Service objects with resource versions, the informer cache, pool         *)
(* (re)configuration, failing status writes and crashes.                    *)
(*                                                                         *)
(* One action per handler invocation / reconcile request / pass step.       *)
(* The handler is one pure operator `Handle` that returns the new allocator *)
(* memory, the object it wants to write and its SyncState.                  *)
(***************************************************************************)
EXTENDS Alloc

(* A service spec:                                                         *)
(*  [type "LB"|"CIP", fam, pol, v6first, cips (cluster IPs valid),          *)
(*   share, ports, etp "Cluster"|"Local", sel, reqIPs (seq), reqPool,       *)
(*   bad (spec.loadBalancerIP is not a parsable address), dep, legacy]      *)

BackendKey(sp) == IF sp.etp = "Local" THEN "local:" \o sp.sel ELSE ""   \* (prefix: fix e25dcb0)
ReqOf(sp) == [ports |-> sp.ports, sk |-> sp.share, bk |-> BackendKey(sp),
              fam |-> sp.fam, pol |-> sp.pol, v6first |-> sp.v6first]

SeqFam(ips) ==
  IF Len(ips) = 1 THEN Fam(ips[1])
  ELSE IF Len(ips) = 2 /\ Fam(ips[1]) # Fam(ips[2]) THEN "dual"
  ELSE "unknown"

(* isEqualIPs sorts both lists (by their text form, which for the           *)
(* addresses of Domain.tla is the numeric order) and compares.              *)
SortIPs(ips) ==
  IF Len(ips) = 2 /\ ips[1] > ips[2] THEN <<ips[2], ips[1]>> ELSE ips

FamilyChanged(lbFam, clFam, pol) ==
  IF lbFam = "unknown" THEN TRUE
  ELSE IF lbFam = clFam THEN FALSE
  ELSE IF clFam = "dual" /\ pol = "P" THEN FALSE
  ELSE TRUE

(* the controller has not loaded any configuration yet (c.pools == nil)      *)
NOCFG == ""

AllocKey(al, s) == IF al[s] = NULL THEN "" ELSE al[s].bk \o al[s].sk   \* backend + sharing, no separator (as the code)

(* ---- convergeBalancer ------------------------------------------------- *)
(* Input: layout L (the controller's pools), memory al, service s, object   *)
(* o = [spec, status, ann].  Output: set of [al, status, ann, err].         *)
(* clearServiceState: Unassign, annotation deleted, status emptied.         *)

Cleared(al, s) == [al |-> UnassignRes(al, s), status |-> <<>>, ann |-> ""]

(* allocateIPs on a cleared service: set of [ok, al, ips]                   *)
AllocateIPs(L, al, s, sp) ==
  LET r == ReqOf(sp) IN
  IF sp.bad THEN {[ok |-> FALSE, al |-> al, ips |-> <<>>]}     \* unparsable requested address
  ELSE IF sp.reqIPs # <<>> THEN
     IF SeqFam(sp.reqIPs) = "unknown" \/ SeqFam(sp.reqIPs) # sp.fam THEN {[ok |-> FALSE, al |-> al, ips |-> <<>>]}
     ELSE LET ar == AssignRes(L, al, s, sp.reqIPs, r) IN
          IF ~ar.ok THEN {[ok |-> FALSE, al |-> al, ips |-> <<>>]}
          ELSE IF sp.reqPool # "" /\ ar.al[s].pool # sp.reqPool
               THEN {[ok |-> FALSE, al |-> UnassignRes(ar.al, s), ips |-> <<>>]}
               ELSE {[ok |-> TRUE, al |-> ar.al, ips |-> sp.reqIPs]}
  ELSE IF sp.reqPool # "" THEN
     LET x == AllocFromPoolRes(L, al, s, sp.reqPool, r) IN {[ok |-> x.ok, al |-> x.al, ips |-> x.ips]}
  ELSE {[ok |-> x.ok, al |-> x.al, ips |-> x.ips] : x \in AllocateRes(L, al, s, r)}

Converge(L, al, s, o) ==
  LET sp == o.spec
      r == ReqOf(sp)
      clr == Cleared(al, s)
      fail(c) == [al |-> c.al, status |-> c.status, ann |-> c.ann, err |-> TRUE]
  IN
  IF sp.type # "LB" THEN {[al |-> clr.al, status |-> <<>>, ann |-> "", err |-> FALSE]}
  ELSE IF PoolsOf(L) = {} THEN {fail(clr)}
  ELSE IF ~sp.cips THEN {fail(clr)}
  ELSE IF sp.pol = "R" /\ sp.fam # "dual" THEN {fail(clr)}
  ELSE
    (* phase 1: keep or clear the recorded addresses *)
    LET st0 == o.status
        (* c1: state after the family check *)
        c1 == IF st0 = <<>> THEN [al |-> clr.al, status |-> <<>>, ann |-> "", lb |-> <<>>]
              ELSE IF FamilyChanged(SeqFam(st0), sp.fam, sp.pol)
                   THEN [al |-> clr.al, status |-> <<>>, ann |-> "", lb |-> <<>>]
                   ELSE [al |-> al, status |-> st0, ann |-> o.ann, lb |-> st0]
        (* c2: re-Assign of the recorded addresses *)
        c2 == IF c1.lb = <<>> THEN c1
              ELSE LET ar == AssignRes(L, c1.al, s, c1.lb, r) IN
                   IF ar.ok THEN [c1 EXCEPT !.al = ar.al]
                   ELSE [al |-> UnassignRes(c1.al, s), status |-> <<>>, ann |-> "", lb |-> <<>>]
        (* c3: a different pool was requested *)
        c3 == IF c2.lb # <<>> /\ sp.reqPool # "" /\ c2.al[s].pool # sp.reqPool
              THEN [al |-> UnassignRes(c2.al, s), status |-> <<>>, ann |-> "", lb |-> <<>>]
              ELSE c2
        badReq == sp.bad \/ (sp.reqIPs # <<>> /\ SeqFam(sp.reqIPs) = "unknown")
        (* c4: different addresses were requested (the comparison sorts lb in place) *)
        c4 == IF c3.lb # <<>> /\ sp.reqIPs # <<>> /\ ~badReq
              THEN IF SortIPs(c3.lb) = SortIPs(sp.reqIPs)
                   THEN [c3 EXCEPT !.lb = SortIPs(c3.lb)]
                   ELSE [al |-> UnassignRes(c3.al, s), status |-> <<>>, ann |-> "", lb |-> <<>>]
              ELSE c3
    IN
    IF c1.lb # <<>> /\ badReq
      THEN {[al |-> c3.al, status |-> c3.status, ann |-> c3.ann, err |-> TRUE]}
    ELSE
      (* phase 2: PreferDualStack top-up, or a fresh allocation *)
      LET c5 == IF Len(c4.lb) = 1 /\ sp.pol = "P" /\ sp.fam = "dual"
                THEN LET x == AllocAdditionalRes(L, c4.al, s, c4.lb[1], c4.al[s].pool, r) IN
                     IF x.ok THEN [c4 EXCEPT !.al = x.al, !.lb = <<c4.lb[1], x.ip>>] ELSE c4
                ELSE c4
          outs == IF c5.lb # <<>> THEN {[ok |-> TRUE, al |-> c5.al, ips |-> c5.lb]}
                  ELSE AllocateIPs(L, c5.al, s, sp)
      IN { IF ~x.ok THEN [al |-> x.al, status |-> c5.status, ann |-> c5.ann, err |-> TRUE]
           ELSE IF x.al[s] = NULL \/ ~HasPool(L, x.al[s].pool)
                THEN [al |-> UnassignRes(x.al, s), status |-> <<>>, ann |-> "", err |-> TRUE]
                ELSE [al |-> x.al, status |-> x.ips, ann |-> x.al[s].pool, err |-> FALSE]
           : x \in outs }

(* ---- SetBalancer ------------------------------------------------------ *)
(* Result records: [al, res, write, status, ann]; write = TRUE when the     *)
(* handler calls UpdateStatus with (status, ann).  The outcome of the write *)
(* is decided by the caller (API conflict, injected fault).                 *)
(* res is the SyncState assuming the write (if any) succeeds.               *)
Handle(L, al, s, o) ==
  IF o = NULL THEN
     IF al[s] # NULL
     THEN {[al |-> UnassignRes(al, s), res |-> "ReprocessAll", write |-> FALSE, status |-> <<>>, ann |-> ""]}
     ELSE {[al |-> al, res |-> "Success", write |-> FALSE, status |-> <<>>, ann |-> ""]}
  ELSE IF L = NOCFG THEN {[al |-> al, res |-> "Success", write |-> FALSE, status |-> o.status, ann |-> o.ann]}
  ELSE
   { LET prevIPs == IF al[s] = NULL THEN <<>> ELSE al[s].ips
         res0 == IF c.err THEN "ErrorNoRetry" ELSE "Success"
         res1 == IF AllocKey(al, s) # AllocKey(c.al, s) THEN "ReprocessAll" ELSE res0
         changed == c.status # o.status \/ c.ann # o.ann
         gaveUp == IF c.al[s] = NULL THEN TRUE ELSE ~(Range(prevIPs) \subseteq Range(c.al[s].ips))
         res2 == IF prevIPs # <<>> /\ gaveUp /\ PoolsFor(L, Range(prevIPs)) # {}
                 THEN "ReprocessAll" ELSE res1
     IN [al |-> c.al, res |-> res2, write |-> changed, status |-> c.status, ann |-> c.ann]
     : c \in Converge(L, al, s, o) }

=============================================================================
