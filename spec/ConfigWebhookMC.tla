--------------------------- MODULE ConfigWebhookMC ---------------------------
(***************************************************************************)
(* C08, the acceptance gate of the admission webhooks: a resource set is    *)
(* also "accepted" when a create / update of ONE object is admitted against *)
(* the stored objects.  The set that is validated must be the stored set    *)
(* with the new version of the object in place of the old one (appended on  *)
(* create).  Role A: the model of the *ListWithUpdate helpers has that      *)
(* property; role B: every scenario (kind, number of stored objects,        *)
(* position of the object, fresh / clashing new version) is printed and     *)
(* replayed on the real validate*Create / validate*Update functions of      *)
(* internal/k8s/webhooks over a fake client, with the real config validator *)
(* behind a recording wrapper.                                              *)
(***************************************************************************)
EXTENDS Integers, Sequences, FiniteSets, TLC, Json

VARIABLE scen

WKinds == {"pool", "bgpadv", "l2adv", "community", "peer"}

Scenarios == {[kind |-> k, n |-> n, pos |-> pos, newv |-> v] :
                 k \in WKinds, n \in 1 .. 3, pos \in 0 .. 3, v \in {"fresh", "clash"}}

Valid(s) == s.pos <= s.n

(* stored objects: <<name, version>>; the new object has version "new"      *)
Stored(s) == [i \in 1 .. s.n |-> <<i, "old">>]
NewObj(s) == <<IF s.pos = 0 THEN 9 ELSE s.pos, "new">>

(* model of the helper: replace the element with the same name, else append *)
RECURSIVE Replace(_, _, _)
Replace(list, obj, i) ==
  IF i > Len(list) THEN Append(list, obj)
  ELSE IF list[i][1] = obj[1] THEN [list EXCEPT ![i] = obj]
  ELSE Replace(list, obj, i + 1)

ToValidate(s) == Replace(Stored(s), NewObj(s), 1)

Rng(f) == {f[x] : x \in DOMAIN f}

Init == /\ scen \in {s \in Scenarios : Valid(s)}
        /\ PrintT(ToJson([scen |-> scen]))
Next == UNCHANGED scen
Spec == Init /\ [][Next]_scen

InvValidatesNewState ==
  LET l == ToValidate(scen) IN
  /\ Len(l) = scen.n + (IF scen.pos = 0 THEN 1 ELSE 0)
  /\ Cardinality({i \in DOMAIN l : l[i] = NewObj(scen)}) = 1
  /\ \A i \in DOMAIN l : l[i][1] = NewObj(scen)[1] => l[i][2] = "new"
  /\ \A i \in 1 .. scen.n : i # NewObj(scen)[1] => <<i, "old">> \in Rng(l)
=============================================================================
