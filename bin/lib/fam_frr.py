"""FRR family (C14 FRR mode, C15 FRR-K8s mode).
spec/FRRFilter.tla   the meaning of the generated artefacts (prefix-list / route-map / neighbor / network semantics,
                     FRRConfiguration semantics): the trusted base
spec/FRRProps.tla    the property predicates (names of failing conjuncts)
spec/FRRMC.tla       role A (designed generator Gen / GenCR checked against the predicates, Lemmas) and role B (TLC
                     enumerates session sets x advertisements x creation orders; RandomSubset under -seed)
harness/frr          real sessionManager + templateConfig, tokenizer (no meaning) -> abstract program
harness/frrk8s       real frr-k8s session manager, FRRConfiguration handed to the callback -> projection
spec/FRRTrace.tla    role C: TLC evaluates the predicates on the real programs / resources"""
import concurrent.futures
import hashlib
import json
import os

import vlib

PROPS = ["C14", "C15"]

FRR_PKG = "internal/bgp/frr"
K8S_PKG = "internal/bgp/frrk8s"
CTRL_PKG = "internal/k8s/controllers"
CONFIRM_PER_SIG = 2
JUDGES = 12


def test_files(pkg):
    d = os.path.join(vlib.REPO, pkg)
    return [os.path.join(pkg, f) for f in sorted(os.listdir(d)) if f.endswith("_test.go")]


def kit_files():
    # kit.go + this family's file only: another family's kit file under construction must not break the build
    return {"internal/verifkit/kit.go": os.path.join(vlib.HARNESS, "kit", "kit.go"),
            "internal/verifkit/frrcfg.go": os.path.join(vlib.HARNESS, "kit", "frrcfg.go"),
            "internal/verifkit/frrcfg_k8s.go": os.path.join(vlib.HARNESS, "kit", "frrcfg_k8s.go")}


def overlay(chk, pkg, hdir, tag):
    m = kit_files()
    d = os.path.join(vlib.HARNESS, hdir)
    for f in sorted(os.listdir(d)):
        if f.startswith("frrcfg_") and f.endswith(".go"):      # harness/frr is shared with the debounce family
            base = f[:-3]
            if base.endswith("_test"):
                base = base[:-5]
            m["%s/zz_verif_%s_test.go" % (pkg, base)] = os.path.join(d, f)
    # internal/bgp/frr: docker_test.go's TestMain needs a Docker daemon and the golden-file tests use its helpers;
    # the repository's own test files of both packages are hidden from the verification build (never a source file)
    return vlib.overlay_for(m, os.path.join(chk.work, "ov_" + tag), mask=test_files(pkg))


# --------------------------------------------------------------------------- roles A + B

def looks(sc):
    """Number of observations a scenario asks for."""
    if "views" in sc:
        return sum(1 for op in sc["orders"][0] if op["look"] > 0)
    return len(sc["orders"])


def enumerate_inputs(chk):
    """TLC checks Design14 / Design15 on the designed generator for every input and prints the input (Emit).
    The list is sorted, so ids depend on the set only (which depends on tier and -seed only)."""
    got = []
    cfg = "FRRMC_%s.cfg" % chk.tier
    res = vlib.tlc(chk.work, "FRRMC", cfg, workers=12, timeout=1700, args=["-seed", str(chk.seed), "-continue"],
                   json_sink=got.append, heap="8g")
    chk.add_model_run(cfg, res)
    if res.violated:
        chk.notes.append("MODEL-ONLY: design model %s violates %s" % (cfg, res.violated))
        print("MODEL-ONLY: %s violates %s in the design model (the designed generator of spec/FRRMC.tla, not the code)"
              % (cfg, res.violated))
    elif res.error:
        raise vlib.Inconclusive("TLC %s: %s\n%s" % (cfg, res.error, res.out[-1500:]))
    seen = {}
    pwcases = []
    for o in got:
        if "sessions" in o:
            seen.setdefault(vlib.canon(o), o)
        elif "pwcases" in o:
            pwcases = sorted(o["pwcases"], key=vlib.canon)
            for n, c in enumerate(pwcases):
                c["id"] = "pw%03d" % n
    if not seen or not pwcases:
        raise vlib.Inconclusive("no inputs from %s: %s" % (cfg, res.out[-800:]))
    scs = []
    for n, k in enumerate(sorted(seen)):
        o = seen[k]
        sc = {"id": "s%06d" % n, "node": o["node"], "ns": o["ns"], "sessions": o["sessions"], "orders": o["orders"]}
        if "views" in o:                      # a history: one order, observed after every operation
            sc["id"] = "h%06d" % n
            sc["views"], sc["frronly"] = o["views"], o["frronly"]
        scs.append(sc)
    vlib.log("  %s: %d states, %d session sets (%d orders) + %d histories (%d looks), %.1fs"
             % (cfg, res.distinct, sum(1 for s in scs if "views" not in s), sum(looks(s) for s in scs if "views" not in s),
                sum(1 for s in scs if "views" in s), sum(looks(s) for s in scs if "views" in s), res.wall))
    return scs, pwcases


# --------------------------------------------------------------------------- harness

def execute_pw(chk, pwcases, tag):
    """The speaker's passwordForSession on every case; returns the observations (mode pw)."""
    d = os.path.join(chk.work, "h_" + tag)
    os.makedirs(d, exist_ok=True)
    scen = os.path.join(d, "pw_scen.ndjson")
    with open(scen, "w") as fh:
        fh.write(json.dumps({"pwcases": pwcases}, separators=(",", ":")) + "\n")
    m = kit_files()
    m["speaker/zz_verif_frrcfg_password_test.go"] = os.path.join(vlib.HARNESS, "frrpw", "frrcfg_password_test.go")
    ov = vlib.overlay_for(m, os.path.join(chk.work, "ov_" + tag + "_pw"))
    obs_path = os.path.join(d, "obs_pw.ndjson")
    rc, txt = vlib.go_test("speaker", "^TestVerifFrrcfgPassword$", ov, {"VERIF_SCENARIOS": scen, "VERIF_OBS": obs_path}, timeout=1500)
    if rc != 0:
        raise vlib.Inconclusive("harness speaker failed (rc=%s):\n%s" % (rc, txt[-3000:]))
    obs = [json.loads(l) for l in open(obs_path)]
    if len(obs) != len(pwcases):
        raise vlib.Inconclusive("harness speaker logged %d observations for %d password cases" % (len(obs), len(pwcases)))
    return obs



def execute(chk, scs, tag, modes, text=False):
    """Plays the scenarios on the real code; returns {mode: [observations sorted by (scenario, seq)]}; modes out of
    frr (FRR session manager), k8s (FRR-K8s session manager, value handed to the callback), rec (the same through the real
    FRRK8sReconciler and a fake client).  Histories that contain a refusal only FRR mode knows are not given to k8s / rec."""
    d = os.path.join(chk.work, "h_" + tag)
    os.makedirs(d, exist_ok=True)
    jobs = []
    for mode, pkg, run, hdir in (("frr", FRR_PKG, "^TestVerifFrrcfg$", "frr"), ("k8s", K8S_PKG, "^TestVerifFrrcfgK8s$", "frrk8s"),
                                 ("rec", CTRL_PKG, "^TestVerifFrrcfgReconcile$", "k8scontrollers")):
        if mode not in modes:
            continue
        mine = [sc for sc in scs if mode == "frr" or not sc.get("frronly")]
        if not mine:
            continue
        scen = os.path.join(d, "scen_%s.ndjson" % mode)
        with open(scen, "w") as fh:
            for sc in mine:
                fh.write(json.dumps(sc, separators=(",", ":")) + "\n")
        jobs.append((mode, pkg, run, overlay(chk, pkg, hdir, tag + "_" + mode), scen, sum(looks(sc) for sc in mine)))

    def one(job):
        mode, pkg, run, ov, scen, want = job
        env = {"VERIF_SCENARIOS": scen, "VERIF_OBS": os.path.join(d, "obs_%s.ndjson" % mode), "VERIF_SEED": chk.seed}
        if text:
            env["VERIF_TEXT"] = "1"
        return vlib.go_test(pkg, run, ov, env, timeout=1500)

    with concurrent.futures.ThreadPoolExecutor(max_workers=3) as ex:
        results = list(ex.map(one, jobs))
    out = {}
    for (mode, pkg, run, ov, scen, want), (rc, txt) in zip(jobs, results):
        if rc != 0:
            raise vlib.Inconclusive("harness %s failed (rc=%s):\n%s" % (pkg, rc, txt[-3000:]))
        obs = [json.loads(l) for l in open(os.path.join(d, "obs_%s.ndjson" % mode))]
        if len(obs) != want:
            raise vlib.Inconclusive("harness %s logged %d observations for %d looks" % (pkg, len(obs), want))
        obs.sort(key=lambda o: (o["id"], o["seq"]))
        # the harness writes expected sessions + program / resource once per distinct (artefact, sessions) of a scenario
        # (same = the observation that had them first); share them here
        at = {(o["id"], o["seq"]): o for o in obs}
        for o in obs:
            if o.get("same"):
                src = at[(o["id"], o["same"])]
                if src["sha"] != o["sha"]:
                    raise vlib.Inconclusive("harness %s: observation %s of %s refers to %s with another digest"
                                            % (pkg, o["seq"], o["id"], o["same"]))
                for k in ("sessions", "prog", "cr", "text", "json"):
                    if k in src:
                        o[k] = src[k]
        out[mode] = obs
    if "frr" in out:
        unk = [(o["id"], o["prog"]["unknown"][:3]) for o in out["frr"] if o["prog"]["unknown"]]
        if unk:
            # the tokenizer does not know a line inside the sections it covers: no meaning can be assigned
            raise vlib.Inconclusive("tokenizer: %d texts contain lines it does not know, e.g. %s" % (len(unk), unk[:2]))
    return out


def state_id(o):
    """Identity of the state a history observation is expected to show: the open sessions and, as a set, what each was
    last ACCEPTED to advertise - plus the BFD profiles the harness synchronises for the scenario (all profiles its
    sessions name), which are session-manager state outside the session set.  Observations of different histories (and
    steps) with the same identity must show the same artefact: they become lines of one id for the judge."""
    st = sorted((s["k"], sorted(vlib.canon(a) for a in s["advs"])) for s in o["sessions"] if not s["ghost"])
    bfd = sorted({s["bfd"] for s in o["sessions"] if s["bfd"]})
    return "h" + hashlib.sha1(vlib.canon([st, bfd]).encode()).hexdigest()[:14]


def lines_for(prop, out, hist_ids):
    """The observation lines the judge reads.  C14: mode frr.  C15: the resource (callback path, reconciler path) joined
    with the program of the same scenario / order / step.  Line id: the scenario for one-shot scenarios (orders must
    agree), the expected state for histories (every history and step reaching that state must agree)."""
    lines = []
    if prop == "C14":
        for o in out["frr"]:
            l = dict(o)
            l["scen"], l["id"], l["order"] = o["id"], (state_id(o) if o["id"] in hist_ids else o["id"]), o["ord"]
            l["ord"] = o["seq"]
            lines.append(l)
    else:
        prog = {(o["id"], o["ord"], o["step"]): o for o in out["frr"]}
        for path in ("k8s", "rec"):
            for o in out.get(path, []):
                f = prog[(o["id"], o["ord"], o["step"])]
                j = {"id": (state_id(o) if o["id"] in hist_ids else o["id"]), "ord": o["seq"] + (100000 if path == "rec" else 0),
                     "scen": o["id"], "order": o["ord"], "step": o["step"], "mode": "c15", "path": o["path"], "node": o["node"], "ns": o["ns"],
                     "sessions": o["sessions"], "created": o["created"], "created14": f["created"], "errs": o["errs"],
                     "errs14": f["errs"], "refusals": o["refusals"], "refusedok": o["refusedok"] and f["refusedok"],
                     "sha": o["sha"], "sha0": o["sha0"], "sha14": f["sha"], "len": o["len"], "calls": o["calls"], "cr": o["cr"],
                     "prog": f["prog"]}
                if o.get("json"):
                    j["json"] = o["json"]
                if f.get("text"):
                    j["text"] = f["text"]
                lines.append(j)
    # ord must be unique within an id (several histories share a state id)
    lines.sort(key=lambda l: (l["id"], l["scen"], l["ord"]))
    last, n = None, 0
    for l in lines:
        n = n + 1 if l["id"] == last else 1
        last = l["id"]
        l["ord0"], l["ord"] = l["ord"], n
    return lines


def judge(chk, lines, tag):
    """Role C.  Orders of one session set that produced the SAME artefact (equal SHA-256 of the text, for C15 also of the
    resource) are judged once: the predicates are functions of (sessions, program, resource).  A second line of the same
    id therefore exists only if an order produced something different, which is what Deterministic forbids."""
    groups = {}
    for o in lines:                                   # lines are sorted by (id, ord)
        groups.setdefault((o["id"], o["sha"], o.get("sha0", ""), o.get("sha14", ""), o.get("refusedok", True)), []).append(o)
    p = os.path.join(chk.work, "obs_%s.ndjson" % tag)
    with open(p, "w") as fh:
        # within one id: orders that produced no resource at all first (see FRRTrace!Verdict15), then by first order
        for key in sorted(groups, key=lambda k: (k[0], bool(groups[k][0].get("refusedok", True)),
                                                 bool(groups[k][0].get("cr", {}).get("present", True)), groups[k][0]["ord"])):
            paths = "+".join(sorted({x["path"] for x in groups[key] if x.get("path")}))
            for x in groups[key]:
                x["paths"] = paths            # which paths (callback / reconciler) showed exactly this
            o = {k: v for k, v in groups[key][0].items() if k not in ("text", "json")}
            o["ords"] = [x["ord"] for x in groups[key]]
            fh.write(json.dumps(o, separators=(",", ":")) + "\n")
    return vlib.run_judge_parallel(chk, "FRRTrace", "FRRTrace.cfg", p, walk_key="id", chunks=JUDGES)


# --------------------------------------------------------------------------- signatures

def _kind(s):
    return "iface" if s["iface"] else ("v4" if s["afam"] == 4 else "v6")


def signature(name, fail, line):
    """Canonical description of one failing conjunct: the conjunct + the kinds of neighbor it fails on (per-session
    conjuncts) or the number of live sessions (global ones)."""
    if line["mode"] == "pw":
        return "%s|speaker|impl=%s|handling=%s" % (name, line["case"]["impl"], line["case"]["handling"])
    by_k = {s["k"]: s for s in line["sessions"]}
    det = [d for d in (fail.get("info", {}).get("detail") or []) if d[1] == name]
    if ".Params." in name or name.endswith(".PasswordXor"):
        return name
    if name.endswith(".Handover"):
        return "%s|path=%s" % (name, line.get("paths") or line.get("path"))
    if det:
        # the first (alphabetically) kind of neighbor it fails on: iface / v4 / v6
        return "%s|nbr=%s" % (name, sorted({_kind(by_k[d[0]]) for d in det})[0])
    live = sum(1 for s in line["sessions"] if not s["ghost"])
    return "%s|sessions=%d" % (name, live)


def _short_session(s):
    return {"k": s["k"], "vrf": s["vrf"], "peer": s["iface"] or s["addr"], "asn": s["dyn"] or s["asn"], "ghost": s["ghost"],
            "advs": ["%s lp=%s c=%s lc=%s" % (a["p"]["s"], a["lp"], ",".join(a["comms"]), ",".join(a["lcomms"])) for a in s["advs"]]}


def _short(line):
    if line["mode"] == "pw":
        return {k: line[k] for k in ("id", "mode", "case", "password", "secret", "panic")}
    o = {"id": line["id"], "scenario": line.get("scen"), "order": line.get("order"), "step": line.get("step"), "mode": line["mode"],
         "path": line.get("path", ""), "sessions": [_short_session(s) for s in line["sessions"]],
         "errs": line.get("errs"), "refused": line.get("refusals"), "sha": line["sha"][:16], "len": line["len"]}
    if "prog" in line:
        pr = line["prog"]
        o["program"] = {"prefix_list_entries": len(pr["plists"]), "route_map_entries": len(pr["rmaps"]),
                        "routers": [(r["asn"], r["vrf"]) for r in pr["routers"]], "neighbor_statements": len(pr["nbrstmts"]),
                        "address_family_statements": len(pr["afstmts"])}
    if "cr" in line:
        o["resource"] = {"routers": [{"vrf": r["vrf"], "prefixes": [p["s"] for p in r["prefixes"]],
                                      "neighbors": [{"peer": n["iface"] or n["address"], "allowed": [p["s"] for p in n["allowed"]]}
                                                    for n in r["neighbors"]]} for r in line["cr"]["routers"]]}
    return o


def split_fails(prop, fails):
    verdict, info = [], []
    for f in fails:
        names = sorted(x for x in f["fails"] if x.startswith(prop + "."))
        if names:
            verdict.append((f, names))
        if any(x.startswith("INFO.") for x in f["fails"]):
            info.append(f)
    return verdict, info


# --------------------------------------------------------------------------- run / confirm / replay

def rerun(chk, items, tag):
    """Re-executes session sets and / or password cases alone (with the text kept) and returns the judge's lines."""
    scs = [x for x in items if "sessions" in x]
    pws = [x for x in items if "sessions" not in x]
    lines = []
    if scs:
        lines += lines_for(chk.prop, execute(chk, scs, tag, modes_for(chk.prop), text=True), {sc["id"] for sc in scs if "views" in sc})
    if pws:
        lines += execute_pw(chk, pws, tag)
    return lines


def modes_for(prop):
    return ["frr"] if prop == "C14" else ["frr", "k8s", "rec"]


def assumptions(chk):
    chk.assumptions += [
        "TRUSTED BASE (spec/FRRFilter.tla, FRR 9.x): ip / ipv6 prefix-lists are separate name spaces, entries in increasing seq, "
        "first match decides, no match = deny, a repeated seq replaces the earlier line; an entry matches routes of its own "
        "family only, exactly (same length and bits) unless ge / le are given; `any` = /0 le max",
        "TRUSTED BASE: `match ip|ipv6 address prefix-list L` looks L up in that family's name space, an undefined list matches "
        "nothing (reported as INFO.UndefinedListReference, never a verdict), all match clauses of an entry must match, no clause "
        "= matches every route; route-map entries in increasing seq; deny+match = denied; permit+match applies the set clauses and "
        "stops, or with `on-match next` becomes sticky-permit and continues; falling off the end = permitted iff sticky-permit; "
        "an undefined route-map denies everything; `set community / large-community ... additive` adds (without: replaces), "
        "`set local-preference` overwrites",
        "TRUSTED BASE: a neighbor exchanges family f only if activated in `address-family f unicast` (`no bgp default "
        "ipv4-unicast` present); `neighbor X route-map R in|out` inside the address family filters that family and direction, "
        "without one everything passes (nothing for eBGP unless `no bgp ebgp-requires-policy`); `network P` originates P in its "
        "router/VRF given `no bgp network import-check`; router blocks with the same VRF are one router",
        "TRUSTED BASE (C15): frr-k8s sends a neighbor the router prefixes listed in toAdvertise.allowed, with every community "
        "whose withCommunity entry lists the prefix and the local preference whose withLocalPref entry lists it",
        "local preference 0 means 'none requested'; LOCAL_PREF towards eBGP peers is not modelled on either side",
        "domain: one session per (peer address or interface, VRF); all sessions of a VRF share local ASN and router id; prefixes "
        "are in canonical (masked) form as the speaker builds them; the same prefix is never requested with two different local "
        "preferences on one session (FRR mode refuses that, FRR-K8s mode lists both: the statement leaves the corner open); the "
        "communities of one advertisement arrive in BGPCommunity.LessThan order, as SetBalancer passes them",
        "domain: a DisableMP session is only asked for prefixes of its own address family, and DisableMP is not combined with an "
        "unnumbered (interface) session (no family can be derived; the template activates none)",
        "session parameters judged = the list in the C14 statement (ASN / dynamic ASN, address / interface, port, timers, connect "
        "timer, password, source address, multihop, BFD profile, VRF, per-family activation); graceful restart and router id are "
        "varied but not judged; a port of 0 and half-set timers are outside the domain",
        "'sorted' (C15) is accepted for the byte order of the strings or for (family, address, length) order",
        "a session carrying both a password and a secret reference may be refused by NewSession (then it is not expected in the "
        "resource and not compared with the FRR text) or carried with exactly one of the two",
        "histories: a Set that is refused (more than 63 communities on a later advertisement; in FRR mode also one prefix with "
        "two local preferences) changes nothing: the expected state is the last ACCEPTED Set of every open session; if the code "
        "accepts such a Set the observations after it are not judged (DRIFT); SyncBFDProfiles repeats the same profiles, "
        "SyncExtraInfo passes the empty string; observations of different histories / steps with the same expected state must "
        "show the same text / resource",
        "C15.Handover: the value handed to the config-changed callback is looked at again after the operation returned, and the "
        "object the real FRRK8sReconciler (DEBUG level, fake client) wrote is read after a first and after a second Reconcile; "
        "both looks must give the same digest (name, namespace, spec)",
        "creation orders: all permutations of NewSession (+ Set after each, advertisements forwards / all Sets afterwards in "
        "reverse, advertisements backwards) and one history with a preliminary Set that is overwritten and an extra session that "
        "advertises and is closed again; Deterministic compares the SHA-256 of the rendered text / of the marshalled resource",
    ]


def run(chk):
    scs, pwcases = enumerate_inputs(chk)
    byid = {sc["id"]: sc for sc in scs}
    if chk.prop == "C15":
        with concurrent.futures.ThreadPoolExecutor(max_workers=2) as ex:
            fpw = ex.submit(execute_pw, chk, pwcases, "all")
            out = execute(chk, scs, "all", modes_for(chk.prop))
            pwobs = fpw.result()
    else:
        out, pwobs = execute(chk, scs, "all", modes_for(chk.prop)), []
    lines = lines_for(chk.prop, out, {sc["id"] for sc in scs if "views" in sc}) + pwobs
    if pwobs:
        chk.cov["password_cases"] = len(pwobs)
    for c in pwcases:
        byid[c["id"]] = c
    fails, nlines = judge(chk, lines, "all")
    verdict, info = split_fails(chk.prop, fails)
    chk.cov["traces_validated_against_impl"] += len(lines)
    chk.cov["evaluations"] += len(lines)
    chk.cov["judged_distinct_artefacts"] = nlines
    chk.cov["session_sets"] = sum(1 for sc in scs if "views" not in sc)
    chk.cov["histories"] = sum(1 for sc in scs if "views" in sc)
    chk.cov["history_states"] = len({l["id"] for l in lines if l.get("scen", "").startswith("h")})
    chk.cov["by_sessions"] = {str(k): sum(1 for sc in scs if "views" not in sc and sum(1 for s in sc["sessions"] if not s["ghost"]) == k)
                              for k in (1, 2, 3)}
    nontrivial = {l["sha"] for l in lines if any(s["advs"] and not s["ghost"] for s in l.get("sessions", []))}
    chk.cov["distinct_nontrivial"] += len(nontrivial)
    chk.cov["rule"] = ("every session set TLC enumerates (spec/FRRMC.tla, tier and -seed) is created on the real session manager in "
                       "every listed creation order and observed at the end; every history is played on one session manager and "
                       "observed after every operation; one evaluation = one observation; spec/FRRTrace.tla judges each distinct "
                       "artefact of a session set / of an expected history state once (observations with the same SHA-256 share the "
                       "verdict, different ones of one id violate Deterministic); "
                       "non-trivial = distinct rendered %s (SHA-256) among session sets with at least one advertisement"
                       % ("texts" if chk.prop == "C14" else "FRRConfiguration resources"))
    chk.cov["exhaustive"] = False
    chk.cov["drift"] += len(info)
    undef = sum(1 for f in info if "INFO.UndefinedListReference" in f["fails"])
    if undef:
        print("INFO: %d programs reference a prefix-list that is not defined (harmless under FRR's semantics, "
              "see assumptions); not a verdict" % undef)
    norefusal = sum(1 for f in info if "INFO.RefusalNotObserved" in f["fails"])
    if norefusal:
        print("DRIFT: %d observations follow a Set that the model expects to be refused but the code accepted; "
              "their expected state is undefined, not judged" % norefusal)
    for k in (1, 2, 3):
        s = next((l for l in lines if "sessions" in l and sum(1 for x in l["sessions"] if not x["ghost"]) == k and l.get("order") == 1
                  and any(x["advs"] for x in l["sessions"])), None)
        if s is not None:
            chk.cov["samples"].append(_short(s))
    if verdict:
        confirm(chk, verdict, byid, lines)
    assumptions(chk)


def confirm(chk, verdict, byid, lines):
    """Re-execute the failing session sets once (alone) and re-judge; only what fails again is reported."""
    line_at = {(l["id"], l["ord"]): l for l in lines}
    per_sig = {}
    for f, names in verdict:
        l = line_at[(f["id"], f["ord"])]
        for name in names:
            per_sig.setdefault(signature(name, f, l), [])
            if l.get("scen", l["id"]) not in per_sig[signature(name, f, l)]:
                per_sig[signature(name, f, l)].append(l.get("scen", l["id"]))
    chosen = []
    for sig, ids in sorted(per_sig.items()):
        # the smallest failing scenarios are the most readable ones
        ids.sort(key=lambda i: (len(json.dumps(byid[i])), i))
        for i in ids[:CONFIRM_PER_SIG]:
            if i not in chosen:
                chosen.append(i)
    lines2 = rerun(chk, [byid[i] for i in chosen], "confirm")
    fails2, _ = judge(chk, lines2, "confirm")
    verdict2, _ = split_fails(chk.prop, fails2)
    report(chk, verdict2, lines2, byid)
    confirmed = {f["sig"] for f in chk.failures}
    counts = {}
    for f, names in verdict:
        l = line_at[(f["id"], f["ord"])]
        for name in names:
            s = signature(name, f, l)
            counts[s] = counts.get(s, 0) + 1
    chk.cov["failing_observations_by_signature"] = dict(sorted(counts.items()))
    lost = sorted(s for s in counts if s not in confirmed)
    if lost:
        chk.notes.append("signatures seen but not reproduced: %s" % lost[:10])


def report(chk, verdict, lines, byid):
    line_at = {(l["id"], l["ord"]): l for l in lines}
    seen = set()
    for f, names in verdict:
        l = line_at[(f["id"], f["ord"])]
        for name in names:
            sig = signature(name, f, l)
            if sig in seen:
                continue
            seen.add(sig)
            sc = byid[l.get("scen", l["id"])]
            detail = {"observation": _short(l), "judge": f.get("info")}
            if "orders" in sc:
                detail["order"] = sc["orders"][l["order"] - 1]
                detail["observed_after_operation"] = l.get("step")
            if l.get("text"):
                detail["text"] = l["text"]
            if l.get("json"):
                detail["resource_json"] = l["json"]
            chk.fail(sig, name, detail=detail, scenario={"family": "frr", "scenarios": [sc]})


def replay(chk, path):
    body = json.load(open(path))
    scs = body["scenario"]["scenarios"]
    byid = {sc["id"]: sc for sc in scs}
    lines = rerun(chk, scs, "replay")
    fails, nlines = judge(chk, lines, "replay")
    verdict, _ = split_fails(chk.prop, fails)
    chk.cov["evaluations"] = chk.cov["traces_validated_against_impl"] = len(lines)
    # the only TLC run of a replay is role C: the trace specification has one state per observation
    chk.cov["states"] = chk.cov["transitions"] = nlines
    chk.cov["rule"] = "replay of the stored session sets; states = states of the role-C trace specification"
    chk.cov["distinct_nontrivial"] = len({l["sha"] for l in lines if l["mode"] != "pw"}) + sum(1 for l in lines if l["mode"] == "pw")
    chk.cov["samples"] += [_short(l) for l in lines[:3]]
    report(chk, verdict, lines, byid)
    assumptions(chk)
