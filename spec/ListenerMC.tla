----------------------------- MODULE ListenerMC -----------------------------
(***************************************************************************)
(* Role A for C20: a small model of the design of internal/k8s/listener.go  *)
(* and of the counters path of the allocator.                               *)
(*                                                                         *)
(* Deliverers (the independent reconcilers) each own a script of events.    *)
(* A handler invocation is three steps, as in the code:                     *)
(*   Enter    l.Lock(); the handler starts reading the state                *)
(*   Apply    the handler's sequential operator (Listener!Outcomes) is      *)
(*            applied to the state it read; the result is written back      *)
(*   Publish  the pool counters are rewritten (under countersMutex) and     *)
(*            the lock is released (defer l.Unlock())                       *)
(* Fetchers read one pool's counters atomically (CountersForPool under      *)
(* countersMutex.RLock) at any moment.                                      *)
(*                                                                         *)
(* Properties: InvAtomic - every handler computed its result from the state *)
(* its predecessor in lock order left, so the whole run is the serial       *)
(* execution of the handlers in lock order; InvFetch - a fetched counter is *)
(* the counter of the state before or after the handler in progress;        *)
(* InvQuiet - with no handler in progress the counters are the derived      *)
(* counters of the state.  With UseLock = FALSE (the wrapper forgets the    *)
(* mutex) TLC finds the lost update: the properties are not vacuous.        *)
(***************************************************************************)
EXTENDS Listener, TLC

CONSTANTS Procs,        \* deliverer identities
          Scripts,      \* deliverer |-> sequence of events
          Svcs,
          MaxFetch,     \* number of fetches
          FetchPools,   \* pool names the fetchers ask for
          UseLock

VARIABLES st,       \* [L, al]: controller.pools / allocator memory
          ctr,      \* pool |-> counters as published
          lock,     \* "" or the deliverer holding the Listener's mutex
          pc,       \* deliverer |-> "idle" | "in" | "pub"
          pos,      \* deliverer |-> index of its next event
          snap,     \* deliverer |-> the state it read at Enter / wrote at Apply
          order,    \* the handler invocations in the order in which they took effect: [ev, pre, post, res]
          fetched   \* [pool, val, at]: at = number of applications that had taken effect

vars == <<st, ctr, lock, pc, pos, snap, order, fetched>>

Start == CtlInit(Svcs)
PubCtr(s) == [pn \in FetchPools |-> Ctr(s.L, s.al, pn)]

Init ==
  /\ st = Start /\ ctr = PubCtr(Start) /\ lock = ""
  /\ pc = [p \in Procs |-> "idle"] /\ pos = [p \in Procs |-> 1]
  /\ snap = [p \in Procs |-> Start]
  /\ order = <<>> /\ fetched = <<>>

Enter(p) ==
  /\ pc[p] = "idle" /\ pos[p] <= Len(Scripts[p])
  /\ (IF UseLock THEN lock = "" ELSE TRUE)
  /\ lock' = (IF UseLock THEN p ELSE lock)
  /\ snap' = [snap EXCEPT ![p] = st]
  /\ pc' = [pc EXCEPT ![p] = "in"]
  /\ UNCHANGED <<st, ctr, pos, order, fetched>>

Apply(p) ==
  /\ pc[p] = "in"
  /\ \E x \in Outcomes(snap[p], Scripts[p][pos[p]]) :
        /\ st' = x.st
        /\ order' = Append(order, [ev |-> Scripts[p][pos[p]], pre |-> snap[p], post |-> x.st, res |-> x.res])
        /\ snap' = [snap EXCEPT ![p] = x.st]
  /\ pc' = [pc EXCEPT ![p] = "pub"]
  /\ UNCHANGED <<ctr, lock, pos, fetched>>

Publish(p) ==
  /\ pc[p] = "pub"
  /\ ctr' = PubCtr(snap[p])
  /\ lock' = (IF UseLock THEN "" ELSE lock)
  /\ pos' = [pos EXCEPT ![p] = pos[p] + 1]
  /\ pc' = [pc EXCEPT ![p] = "idle"]
  /\ UNCHANGED <<st, snap, order, fetched>>

Fetch(pn) ==
  /\ Len(fetched) < MaxFetch
  /\ fetched' = Append(fetched, [pool |-> pn, val |-> ctr[pn], at |-> Len(order)])
  /\ UNCHANGED <<st, ctr, lock, pc, pos, snap, order>>

Next == (\E p \in Procs : Enter(p) \/ Apply(p) \/ Publish(p)) \/ (\E pn \in FetchPools : Fetch(pn))
Spec == Init /\ [][Next]_vars

----------------------------------------------------------------------------
StateAt(k) == IF k = 0 THEN Start ELSE order[k].post

(* serial equivalence: the recorded order is a serial execution *)
InvAtomic ==
  /\ \A k \in 1..Len(order) : order[k].pre = StateAt(k - 1)
  /\ st = StateAt(Len(order))

(* atomic reads: the value is the counter of a state adjacent to the fetch *)
InvFetch ==
  \A k \in 1..Len(fetched) :
     LET f == fetched[k] IN
     \E j \in {f.at - 1, f.at} : j >= 0 /\ f.val = Ctr(StateAt(j).L, StateAt(j).al, f.pool)

InvQuiet == (\A p \in Procs : pc[p] = "idle") => ctr = PubCtr(st)

(* mutual exclusion of the handlers *)
InvMutex == \A p, q \in Procs : (p # q /\ pc[p] # "idle") => pc[q] = "idle"

(* reachability witnesses (expected to be VIOLATED: they show that complete runs, contention on the
   lock and a fetch in the middle of a handler are inside the explored space)                       *)
WitFullRun == ~(/\ \A p \in Procs : pos[p] > Len(Scripts[p])
                /\ Len(fetched) = MaxFetch)
WitContention == ~(\E p, q \in Procs : p # q /\ pc[p] = "in" /\ pc[q] = "idle" /\ pos[q] <= Len(Scripts[q]))
WitStaleFetch == ~(\E k \in 1..Len(fetched) :
                     LET f == fetched[k] IN f.at > 0 /\ f.val # Ctr(StateAt(f.at).L, StateAt(f.at).al, f.pool))

----------------------------------------------------------------------------
(* bounded instances                                                        *)
Put(s, sp) == [k |-> "svc", s |-> s, o |-> [spec |-> sp, status |-> <<>>, ann |-> ""]]
Del(s) == [k |-> "svc", s |-> s, o |-> NULL]
Pl(L) == [k |-> "pool", layout |-> L]
Shared80 == LSp("LB", "v4", "S", "k1", {"tcp80"}, "Cluster", "x", <<>>, "")
Shared443 == LSp("LB", "v4", "S", "k1", {"tcp443"}, "Cluster", "x", <<>>, "")

ScriptsA == [d1 |-> << Put("s1", LPlain), Del("s1") >>,
             d2 |-> << Put("s2", LPlain), Put("s2", Shared80) >>,
             d3 |-> << Pl("One"), Pl("Two") >>]
ScriptsB == [d1 |-> << Put("s1", Shared80), Put("s1", LPlain), Del("s1") >>,
             d2 |-> << Put("s2", Shared443), Del("s2"), Put("s2", LPlain) >>,
             d3 |-> << Pl("Two"), Pl("One"), Pl("TwoRen") >>]
ProcsABC == {"d1", "d2", "d3"}
=============================================================================
