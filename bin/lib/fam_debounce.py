"""Debounce family (C19, FRR reload delivery): spec/Debounce.tla (operators + property predicates),
spec/DebounceMC.tla (roles A and B, instances frr and k8s), harness/kit/debounce.go (conductor),
harness/frr (real debouncer, real session-manager wiring), harness/k8scontrollers (real
FRRK8sReconciler + debouncer + controller-runtime work queue), spec/DebounceTrace.tla (role C)."""
import concurrent.futures
import json
import os
import random

import vlib

PROPS = ["C19"]

RELOAD_US, RETRY_US = 15000, 25000
BEATS = {"quick": 6, "thorough": 8}
BEATS_CONFIRM = 30
SAFETY = {"NeverOlder", "Coalesce", "IdenticalNoReload"}
QUIET = {"Delivered", "RetryWithoutSubmit", "NoBlockForever"}

# role A
MODEL = {"quick": ["DebounceMC_frr.cfg", "DebounceMC_frrrej.cfg", "DebounceMC_k8s.cfg", "DebounceMC_frr_long.cfg",
                   "DebounceMC_k8s_long.cfg",
                   "DebounceMC_frr_live3.cfg", "DebounceMC_k8s_live3.cfg"],
         "thorough": ["DebounceMC_frr.cfg", "DebounceMC_frrrej.cfg", "DebounceMC_k8s.cfg", "DebounceMC_frr_long.cfg",
                      "DebounceMC_k8s_long.cfg", "DebounceMC_frr_big.cfg",
                      "DebounceMC_k8s_big.cfg", "DebounceMC_frr_live3.cfg", "DebounceMC_frrrej_live3.cfg",
                      "DebounceMC_k8s_live3.cfg"]}
# role B: sources of scripts.  name -> (spec instance that judges, target, cfg prefix, targeted edges or None = all,
# timing decorations per walk, simulations [(cfg suffix, walks, depth, delay profile)])
# "frrrej" = the frr instance with rejected submissions, played on the session-manager wiring.
PLAN = {
    "quick": {
        "frr": ("frr", "deb", "DebounceMC_frr", 700, 1,
                [("_burst", 40, 70, "burst"), ("_hammer", 8, 1000, "hammer"), ("_longfail", 16, 80, "edge")]),
        "frrrej": ("frr", "sm", "DebounceMC_frrrej", 230, 1,
                   [("_burst", 8, 70, "burst"), ("_hammer", 8, 1000, "hammer"), ("_longfail", 6, 80, "edge")]),
        "k8s": ("k8s", "k8s", "DebounceMC_k8s", 800, 1,
                [("_burst", 40, 70, "burst"), ("_hammer", 8, 1000, "hammer"), ("_longfail", 12, 80, "edge")]),
    },
    "thorough": {
        "frr": ("frr", "deb", "DebounceMC_frr", None, 8,
                [("_sim", 1500, 30, "edge"), ("_burst", 400, 70, "burst"), ("_hammer", 60, 1000, "hammer"),
                 ("_longfail", 150, 80, "edge")]),
        "frrrej": ("frr", "sm", "DebounceMC_frrrej", 900, 1,
                   [("_burst", 60, 70, "burst"), ("_hammer", 24, 1000, "hammer"), ("_longfail", 30, 80, "edge")]),
        "k8s": ("k8s", "k8s", "DebounceMC_k8s", None, 1,
                [("_sim", 1500, 30, "edge"), ("_burst", 400, 70, "burst"), ("_hammer", 60, 1000, "hammer"),
                 ("_longfail", 150, 80, "edge")]),
    },
}
VIAS = ["extra", "bfd", "set", "mix"]     # session-manager entry points that carry the configurations
MAXLEN = 18

FRR_PKG = "internal/bgp/frr"
K8S_PKG = "internal/k8s/controllers"


# --------------------------------------------------------------------------- role A

def role_a(chk):
    for cfg in MODEL[chk.tier]:
        live = "live" in cfg
        res = vlib.tlc(chk.work, "DebounceMC", cfg, workers=4 if live else 8, timeout=900, want_json=False)
        chk.add_model_run(cfg, res)
        if not res.violated and "Temporal propert" in res.out:
            res.violated, res.error = "temporal property", None
        if res.violated:
            print("MODEL-ONLY: %s violates %s in the design model" % (cfg, res.violated))
            chk.notes.append("MODEL-ONLY: %s violates %s" % (cfg, res.violated))
        elif res.error:
            raise vlib.Inconclusive("TLC %s: %s\n%s" % (cfg, res.error, res.out[-1500:]))
        vlib.log("  %s (role A): %d distinct, %d generated, %.1fs" % (cfg, res.distinct, res.generated, res.wall))


# --------------------------------------------------------------------------- role B

def delays(rnd):
    r, f = RELOAD_US, RETRY_US
    edge = [50, 300, 1000, 3000, r - 3000, r - 1000, r - 300, r - 100, r, r + 100, r + 300, r + 1000, r + 3000,
            f - r - 300, f - r + 300, f - 1000, f - 300, f, f + 300, f + 1000]
    if rnd.random() < 0.45:
        return 0
    return max(0, rnd.choice(edge) + rnd.randint(-60, 60))


def decorate(steps, rnd, profile="edge"):
    out = []
    for st in steps:
        st = dict(st)
        if st["op"] != "SB":
            st["d"] = 0
        elif profile == "burst":       # "at any rate": many submissions per timer period
            st["d"] = rnd.choice([0, 0, rnd.randint(0, 400), rnd.randint(0, 4000)])
        elif profile == "hammer":      # hundreds of submissions across several timer expiries
            st["d"] = rnd.choice([0, 0, rnd.randint(0, 300), rnd.randint(0, 600)])
        else:
            st["d"] = delays(rnd)
        out.append(st)
    return out


def file_fault(steps, rnd):
    """Session-manager target: one of the script's failing attempts (if any) is made to fail below the reload
    action - the configuration file cannot be written while that attempt is due."""
    fails = [i for i, st in enumerate(steps) if st["op"] == "Done" and not st["ok"]]
    if not fails or rnd.random() < 0.4:
        return steps
    i = rnd.choice(fails)
    j = max(k for k in range(i) if steps[k]["op"] == "Fire" and steps[k]["body"])
    steps[i]["file"] = steps[j]["file"] = True
    return steps


def mk_script(sid, variant, target, steps, beats, free=False, via="extra"):
    return {"id": sid, "variant": variant, "target": target, "via": via, "reload_us": RELOAD_US, "retry_us": RETRY_US,
            "beats": beats, "free": free, "steps": steps}


def gen_scripts(chk):
    rnd = random.Random(chk.seed * 7919 + 17)
    scripts = []
    beats = BEATS[chk.tier]
    nvia = 0
    for name, (variant, target, prefix, sample, reps, sims) in sorted(PLAN[chk.tier].items()):
        cfg = prefix + "_edges.cfg"
        edges, inits, res = vlib.generate_edges(chk, "DebounceMC", cfg, workers=4, timeout=900)
        walks, left = vlib.edge_cover_walks(edges, inits[0], max_len=MAXLEN, seed=chk.seed, sample=sample)
        steps = [[edges[i][1] for i in w] for w in walks]
        chk.cov.setdefault("model_edges", {})[name] = {"edges": len(edges), "targeted": sample or len(edges),
                                                        "walks": len(walks), "uncovered": left, "target": target}
        vlib.log("  %s: %d edges, %d targeted, %d walks, %d steps, %d uncovered"
                 % (cfg, len(edges), sample or len(edges), len(walks), sum(map(len, steps)), left))
        for n, st in enumerate(steps):
            for r in range(reps):
                nvia += 1
                dst = decorate(st, rnd)
                if target == "sm":
                    dst = file_fault(dst, rnd)
                scripts.append(mk_script("%s-e%d-%d" % (target, n, r), variant, target, dst, beats,
                                         via=VIAS[(nvia + chk.seed) % len(VIAS)]))
        for suffix, num, depth, profile in sims:
            simcfg = prefix + suffix + ".cfg"
            raw, sres = vlib.simulate_walks(chk, "DebounceMC", simcfg, num, depth, chk.seed)
            if not raw:
                raise vlib.Inconclusive("simulation produced no walks: " + sres.out[-800:])
            raw = raw[:num]
            for n, w in enumerate(raw):
                nvia += 1
                dst = decorate([o["act"] for o in w], rnd, profile)
                if target == "sm" and profile != "hammer":
                    dst = file_fault(dst, rnd)
                scripts.append(mk_script("%s-s%s%d" % (target, suffix, n), variant, target, dst, beats, profile == "hammer",
                                         via=VIAS[(nvia + chk.seed) % len(VIAS)]))
            vlib.log("  %s: %d simulated walks (depth %d, %s delays)" % (simcfg, len(raw), depth, profile))
    return scripts


def test_files(pkg):
    d = os.path.join(vlib.REPO, pkg)
    return [os.path.join(pkg, f) for f in sorted(os.listdir(d)) if f.endswith("_test.go")]


def kit_files():
    # kit.go + this family's file only: another family's kit file under construction must not break the build
    return {"internal/verifkit/kit.go": os.path.join(vlib.HARNESS, "kit", "kit.go"),
            "internal/verifkit/debounce.go": os.path.join(vlib.HARNESS, "kit", "debounce.go")}


def run_harness(chk, scripts, tag):
    """Plays the scripts on the real code (two packages in parallel); returns the merged observation file."""
    d = os.path.join(chk.work, "h_" + tag)
    os.makedirs(d, exist_ok=True)
    scen = os.path.join(d, "scen.ndjson")
    with open(scen, "w") as fh:
        for sc in scripts:
            fh.write(json.dumps(sc) + "\n")
    tmp = os.path.join(d, "tmp")
    os.makedirs(tmp, exist_ok=True)
    jobs = []
    if any(sc["target"] in ("deb", "sm") for sc in scripts):
        m = kit_files()
        m[FRR_PKG + "/zz_verif_debounce_test.go"] = os.path.join(vlib.HARNESS, "frr", "debounce_test.go")
        # docker_test.go's TestMain needs a Docker daemon and the golden-file tests depend on its helpers:
        # the repository's own test files of this package are hidden from the verification build
        ov = vlib.overlay_for(m, os.path.join(d, "ov_frr"), mask=test_files(FRR_PKG))
        jobs.append((FRR_PKG, "^TestVerifDebounce$", ov, os.path.join(d, "obs_frr.ndjson")))
    if any(sc["target"] == "k8s" for sc in scripts):
        m = kit_files()
        m[K8S_PKG + "/zz_verif_frrk8s_debounce_test.go"] = os.path.join(vlib.HARNESS, "k8scontrollers", "frrk8s_debounce_test.go")
        # reconciliation_test.go needs envtest binaries; none of the repository's tests is needed here
        ov = vlib.overlay_for(m, os.path.join(d, "ov_k8s"), mask=test_files(K8S_PKG))
        jobs.append((K8S_PKG, "^TestVerifFrrk8sDebounce$", ov, os.path.join(d, "obs_k8s.ndjson")))

    def one(job):
        pkg, run, ov, obs = job
        return vlib.go_test(pkg, run, ov, {"VERIF_SCENARIOS": scen, "VERIF_OBS": obs, "VERIF_SEED": chk.seed, "TMPDIR": tmp},
                            timeout=1500)

    with concurrent.futures.ThreadPoolExecutor(max_workers=2) as ex:
        results = list(ex.map(one, jobs))
    for (pkg, run, ov, obs), (rc, out) in zip(jobs, results):
        if rc != 0:
            raise vlib.Inconclusive("harness %s failed (rc=%s):\n%s" % (pkg, rc, out[-3000:]))
    chk.deb_contaminated = False
    for (_, _, _, obs) in jobs:
        if os.path.exists(obs + ".meta"):
            meta = json.load(open(obs + ".meta"))
            if meta.get("lingering_debouncers"):
                chk.cov["sm_lingering_debouncers"] = chk.cov.get("sm_lingering_debouncers", 0) + meta["lingering_debouncers"]
            n = meta.get("foreign_reload_calls", 0)
            if n or meta.get("lingering_debouncers"):
                chk.deb_contaminated = True
            if n:
                chk.cov["sm_reload_calls_of_no_run"] = chk.cov.get("sm_reload_calls_of_no_run", 0) + n
                chk.notes.append("%d reload call(s) in the session-manager target carried another run's configuration "
                                 "(a debouncer that outlived its run); they were not attributed to any run" % n)
    merged = os.path.join(d, "obs.ndjson")
    with open(merged, "w") as fh:
        for (_, _, _, obs) in jobs:
            fh.write(open(obs).read())
    return merged


# --------------------------------------------------------------------------- role C

def judge(chk, obs_path, tag):
    """Returns {run id: {"fails": [...], "drift": bool}} (best placement per run), the runs, line count."""
    d = os.path.join(chk.work, "j_" + tag)
    os.makedirs(d, exist_ok=True)
    sub = vlib.Check.__new__(vlib.Check)       # run_judge only needs .work
    sub.work = d
    got, nlines = vlib.run_judge(sub, "DebounceTrace", "DebounceTrace.cfg", obs_path, timeout=1500, deque=True)
    runs = {}
    for l in open(obs_path):
        o = json.loads(l)
        runs.setdefault(o["w"], []).append(o)
    best = {}
    for g in got:
        # fewest failing predicates, then no drift, then a fixed order of names (stable signatures)
        key = (len(g["fails"]), 1 if g["drift"] else 0, sorted(g["fails"]))
        if g["w"] not in best or key < best[g["w"]][0]:
            best[g["w"]] = (key, g)
    missing = [w for w in runs if w not in best]
    if missing:
        raise vlib.Inconclusive("no placement explains run(s) %s; first history: %s"
                                % (missing[:5], json.dumps(compact(runs[missing[0]]))))
    herr = [(w, ev[-1]["err"]) for w, ev in runs.items() if ev[-1].get("err")]
    if herr:
        raise vlib.Inconclusive("harness error in runs: %s" % herr[:5])
    return {w: {"fails": sorted(b[1]["fails"]), "drift": bool(b[1]["drift"])} for w, b in best.items()}, runs, nlines


def compact(events):
    out = []
    for e in events:
        if e["ev"] in ("SB",):
            out.append("SB(%s,%d)" % (e["p"], e["c"]))
        elif e["ev"] == "SE":
            out.append("SE(%s)" % e["p"])
        elif e["ev"] == "B":
            out.append("B(%d)" % e["c"])
        elif e["ev"] == "BE":
            out.append("BE(%s)" % ("ok" if e["ok"] else "fail"))
        elif e["ev"] == "Q":
            out.append("Q(%s)" % ("quiet" if e["quiet"] else "busy"))
    return out


def signature(name, sc):
    sig = "C19.%s|variant=%s|target=%s" % (name, sc["variant"], sc["target"])
    if sc["target"] == "sm":
        sig += "|via=" + sc.get("via", "extra")
    return sig


def run(chk):
    role_a(chk)
    scripts = gen_scripts(chk)
    byid = {sc["id"]: sc for sc in scripts}
    obs = run_harness(chk, scripts, "main")
    verdicts, runs, nlines = judge(chk, obs, "main")

    chk.cov["traces_validated_against_impl"] += len(runs)
    chk.cov["evaluations"] += nlines
    nontrivial = set()
    per_target = {}
    noquiet = drift = reloads = coalesced = 0
    for w, ev in runs.items():
        sc = byid[w]
        t = per_target.setdefault(sc["target"], {"runs": 0, "reloads": 0, "failed_reloads": 0, "held_reloads": 0})
        t["runs"] += 1
        nb = sum(1 for e in ev if e["ev"] == "B")
        t["reloads"] += nb
        t["failed_reloads"] += sum(1 for e in ev if e["ev"] == "BE" and not e["ok"])
        # a reload during which a submitter entered its call
        inb = False
        for e in ev:
            if e["ev"] == "B":
                inb = True
                seen = False
            elif e["ev"] == "BE":
                inb = False
            elif e["ev"] == "SB" and inb and not seen:
                t["held_reloads"] += 1
                seen = True
        reloads += nb
        if nb:
            nontrivial.add(sc["target"] + ":" + " ".join(compact(ev)))
        if not any(e["ev"] == "Q" and e["quiet"] for e in ev):
            noquiet += 1
        if verdicts[w]["drift"]:
            drift += 1
    chk.cov["per_target"] = per_target
    chk.cov["distinct_nontrivial"] += len(nontrivial)
    chk.cov["runs_without_quiescence"] = noquiet
    chk.cov["drift"] += drift
    if drift:
        print("DRIFT: %d runs contain a step the detailed model of Debounce.tla does not make; not a verdict" % drift)
        ex = [w for w in runs if verdicts[w]["drift"]][:3]
        for w in ex:
            vlib.log("  drift example %s: %s" % (w, " ".join(compact(runs[w]))))
    if noquiet * 4 > len(runs):
        raise vlib.Inconclusive("%d of %d runs never became quiescent (machine overloaded?)" % (noquiet, len(runs)))
    for w in list(runs)[:3]:
        chk.cov["samples"].append({"script": [(s["op"], s["p"], s["c"], s["ok"], s["d"]) for s in byid[w]["steps"]],
                                   "target": byid[w]["target"], "history": compact(runs[w]), "verdict": verdicts[w]})
    disturbed = [w for w, ev in runs.items() if ev[-1].get("disturbed")]
    if disturbed:
        chk.cov["disturbed_runs_not_judged"] = len(disturbed)
    failing = {w: v for w, v in verdicts.items() if v["fails"] and w not in disturbed}
    vlib.log("  %d runs, %d lines, %d reloads, %d distinct histories with a reload, %d failing runs, %d drift, %d not quiet"
             % (len(runs), nlines, reloads, len(nontrivial), len(failing), drift, noquiet))
    if failing:
        confirm(chk, failing, byid, runs)
    chk.cov["rule"] = ("every transition of the bounded TLC state graph of DebounceMC (frr and k8s instance) is a step of some "
                       "script played on the real debouncers (quick: a seeded subset of the transitions); non-trivial = "
                       "distinct recorded histories (sequence of SB/SE/B/BE events per target) containing at least one reload")
    chk.assumptions += [
        "quiescence is declared after %d consecutive harness timers, each 1.25 x the longer interval (%d us), without any "
        "logged event (and with every dispatched submission begun and no debouncer goroutine runnable inside the session "
        "manager's reload action); Delivered/RetryWithoutSubmit/NoBlockForever are evaluated only there and become a violation only "
        "if they fail again with %d such timers; no other timing enters the verdict" % (BEATS[chk.tier], RETRY_US, BEATS_CONFIRM),
        "a re-apply request that is never served is reported as drift, not as a violation (the statement demands the "
        "latest configuration to be applied, retries after failures, no blocking; it does not demand a reload per re-apply)",
        "frr-k8s: the FRRConfiguration informer of SetupWithManager needs an API server; the harness wires the same channel "
        "source into a real controller-runtime controller and replaces watch events by 'poke' requests; the reload "
        "action is the Create/Update of the fake client; failures of Get are not injected",
        "a reload that was entered counts as applying the configuration it was entered with (linearised at entry)",
        "session-manager target: a configuration's identity is the harness's own tuple (extra text, BFD receive interval, "
        "prefix per session) computed before the call; the applied identity is read back from the rendered file",
    ]


def confirm(chk, failing, byid, runs):
    """Re-executes failing scripts (up to 5 rounds, long patience).  Confirmed predicate -> chk.fail."""
    groups = {}
    for w, v in sorted(failing.items()):
        for name in v["fails"]:
            groups.setdefault(signature(name, byid[w]), []).append(w)
    todo = {}
    for sig, ws in sorted(groups.items())[:24]:
        for w in ws[:3]:
            todo[w] = True
    confirmed = {}
    for rnd in range(5):
        pend = [w for w in todo if any(signature(n, byid[w]) not in confirmed for n in failing[w]["fails"])]
        if not pend:
            break
        scripts = []
        for w in pend:
            for k in range(4):
                sc = dict(byid[w], id="%s~%d" % (w, k), beats=BEATS_CONFIRM)
                scripts.append(sc)
        obs = run_harness(chk, scripts, "confirm%d" % rnd)
        verdicts, runs2, _ = judge(chk, obs, "confirm%d" % rnd)
        for w2, v in verdicts.items():
            w = w2.split("~")[0]
            if runs2[w2][-1].get("disturbed"):
                continue        # a debouncer of an earlier session-manager run acted during this one
            for name in v["fails"]:
                if name in failing[w]["fails"]:
                    sig = signature(name, byid[w])
                    confirmed.setdefault(sig, (name, w, compact(runs2[w2]), compact(runs[w])))
    for sig, (name, w, hist2, hist1) in sorted(confirmed.items()):
        chk.fail(sig, "C19." + name, detail={"history": hist1, "history_on_reexecution": hist2, "run": w},
                 scenario={"family": "debounce", "script": byid[w]})
    lost_safety = []
    for sig, ws in sorted(groups.items()):
        if sig in confirmed:
            continue
        name = sig.split("|")[0].split(".")[1]
        note = "unreproduced: %s in run %s: %s" % (sig, ws[0], " ".join(compact(runs[ws[0]])))
        chk.notes.append(note)
        vlib.log("  " + note)
        if name in SAFETY:
            lost_safety.append(note)
    if lost_safety and not confirmed:
        raise vlib.Inconclusive("a recorded history violates a timing-free predicate but 20 re-executions did not reproduce it: "
                                + "; ".join(lost_safety[:3]))


def replay(chk, path):
    body = json.load(open(path))
    sc = body["scenario"]["script"]
    scripts = [dict(sc, id="%s~%d" % (sc["id"], k), beats=BEATS_CONFIRM) for k in range(8)]
    obs = run_harness(chk, scripts, "replay")
    verdicts, runs, nlines = judge(chk, obs, "replay")
    chk.cov["evaluations"] = nlines
    chk.cov["traces_validated_against_impl"] = len(runs)
    seen = set()
    for w, v in sorted(verdicts.items()):
        if not chk.cov["samples"]:
            chk.cov["samples"].append({"history": compact(runs[w]), "verdict": v})
        for name in v["fails"]:
            sig = signature(name, sc)
            if sig not in seen:
                seen.add(sig)
                chk.fail(sig, "C19." + name, detail={"history": compact(runs[w])}, scenario=body["scenario"])
