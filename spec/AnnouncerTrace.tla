---------------------------- MODULE AnnouncerTrace ----------------------------
(***************************************************************************)
(* Role C of the announcer family (C13).  The NDJSON observations of the    *)
(* Go harness (harness/layer2) are read back and TLC evaluates the C13      *)
(* predicates on what the real layer2.Announce / arpResponder /             *)
(* ndpResponder did.                                                        *)
(*                                                                         *)
(* `ann` -- the announced set of Announcer.tla -- is driven by the stimuli  *)
(* of the trace only; it is what the property statement means by "a         *)
(* Service currently announced holds the address with an advertisement      *)
(* covering that interface".  `st` is the detailed code-level model state;  *)
(* it is used for DRIFT reporting only (names "D.*"), never for a verdict.  *)
(*                                                                         *)
(* Two judges live here (two .cfg files):                                   *)
(*  - sequential (SeqInit/SeqNext/SeqJudge): one line per executed step     *)
(*    with the complete answer battery; failing predicates are printed,     *)
(*    nothing stops at the first failure;                                   *)
(*  - concurrent (ConcInit/ConcNext/ConcJudge): begin/end events of calls   *)
(*    of several goroutines ordered by a global sequence number; TLC        *)
(*    searches a linearization point for every call between its begin and   *)
(*    its end that explains its result.  A history for which the search     *)
(*    reaches its last event prints [ok |-> w]; a history that never does   *)
(*    is unexplained.                                                       *)
(***************************************************************************)
EXTENDS Announcer, Json

Trace == ndJsonDeserialize("obs.ndjson")
N == Len(Trace)

VARIABLES i, ann, st, pend

TSvcs == {"s1", "s2", "s3", "s4"}
TIps  == {0, 1, 2, 3, 100, 101, 102, 103, 200, 201, 202, 203}

SetOf(seq) == {seq[k] : k \in DOMAIN seq}
AdvJ(a) == [ip |-> a.ip, all |-> a.all, ifs |-> SetOf(a.ifs)]
AdvSeq(seq) == [k \in DOMAIN seq |-> AdvJ(seq[k])]

Empty == EmptyState(TSvcs, TIps)

(* results that mean "no frame went out" *)
Clean == {"none", "closed", "error", "arpReply", "messageType", "noSourceLL", "ethernetDestination",
          "notAnnounced", "notThisInterface", "noneNoReply", "absent", "sendError"}
Replied(res) == res \notin Clean

ApplyAnn(a, act) ==
  CASE act.op = "Set" -> AnnSet(a, act.s, AdvJ(act.adv))
    [] act.op = "Del" -> AnnDel(a, act.s)
    [] OTHER -> a
ApplySt(x, act) ==
  CASE act.op = "Set" -> SetRes(x, act.s, AdvJ(act.adv))
    [] act.op = "Del" -> DelRes(x, act.s)
    [] OTHER -> x

ObsRef(cnt, a) == IF \E k \in DOMAIN cnt : cnt[k].ip = a
                  THEN cnt[CHOOSE k \in DOMAIN cnt : cnt[k].ip = a].n ELSE 0
RefcntOK(cnt, a0) ==
  /\ \A a \in TIps : ObsRef(cnt, a) = Cardinality(SpecHolders(a0, a))
  /\ \A k \in DOMAIN cnt : cnt[k].ip \notin TIps => cnt[k].n = 0

----------------------------------------------------------------------------
(* Sequential judge                                                         *)

ObsGrp(o, r, g) == IF \E k \in DOMAIN o.groups : o.groups[k].r = r /\ o.groups[k].g = g
                   THEN o.groups[CHOOSE k \in DOMAIN o.groups : o.groups[k].r = r /\ o.groups[k].g = g].n ELSE 0
RespA(o) == {o.arpq[k].intf : k \in DOMAIN o.arpq}
RespN(o) == {o.ndpq[k].intf : k \in DOMAIN o.ndpq}

(* answered iff some announced service holds the address with an            *)
(* advertisement covering the interface: the announcer's decision ...       *)
C13_AnswerIff(o) ==
  \A k \in DOMAIN o.q : (o.q[k].res = "none") <=> SpecHolds(ann, o.q[k].ip, o.q[k].intf)
(* ... an ARP request through arpResponder.processRequest: answered iff the  *)
(* frame is for this machine (Ethernet destination = node or broadcast --   *)
(* whatever the target-hardware-address field of the packet says) and the   *)
(* address is held and covered ...                                          *)
C13_ArpAnswerIff(o) ==
  \A k \in DOMAIN o.arpq :
     /\ (o.arpq[k].res = "reply") <=> (o.arpq[k].dst \in {"self", "bcast"} /\ SpecHolds(ann, o.arpq[k].ip, o.arpq[k].intf))
     /\ Replied(o.arpq[k].res) => o.arpq[k].res = "reply"
(* ... a neighbor solicitation through ndpResponder.processRequest          *)
C13_NdpAnswerIff(o) ==
  \A k \in DOMAIN o.ndpq : /\ (o.ndpq[k].res = "reply") <=> SpecHolds(ann, o.ndpq[k].ip, o.ndpq[k].intf)
                           /\ Replied(o.ndpq[k].res) => o.ndpq[k].res = "reply"

C13_RefcntExact(o) == RefcntOK(o.refcnt, ann)

(* unsolicited announcements only for addresses some service holds          *)
C13_GratuitousOnlyHeld(o) ==
  o.act.op = "Grat" =>
     /\ (o.frames # <<>> \/ o.gstat > 0) => SpecHeld(ann, o.act.adv.ip)
     /\ \A k \in DOMAIN o.frames : SpecHeld(ann, o.frames[k].ip)

(* only ARP requests addressed to the node or to broadcast are answered,    *)
(* and those iff held and covered                                           *)
C13_ArpFilter(o) ==
  o.act.op = "Arp" =>
     LET proper == o.act.aop = "request" /\ o.act.dst \in {"self", "bcast"}
         should == proper /\ SpecHolds(ann, o.act.target, o.act.intf)
     IN /\ (o.res = "reply") <=> should
        /\ Replied(o.res) => o.res = "reply"

(* neighbor solicitations are answered iff held and covered; other NDP      *)
(* messages never; a solicitation without source link-layer option is a     *)
(* corner the statement leaves open: only "never when not held" is asked    *)
C13_NdpFilter(o) ==
  (o.act.op = "Ndp" /\ o.res # "absent") =>
     LET holds == SpecHolds(ann, o.act.target, o.act.intf) IN
     CASE o.act.kind \in {"ns", "ns2"} -> /\ (o.res = "reply") <=> holds
                               /\ Replied(o.res) => o.res = "reply"
       [] o.act.kind = "nsNoLL" -> Replied(o.res) => (holds /\ o.res = "reply")
       [] OTHER -> ~Replied(o.res)

(* a held IPv6 address has its solicited-node multicast group watched by    *)
(* every NDP responder                                                      *)
C13_GroupJoinedWhenHeld(o) ==
  o.ndp => \A a \in TIps : (~AnnIsV4(a) /\ SpecHeld(ann, a)) =>
              \A r \in RespN(o) : ObsGrp(o, r, GroupOf(a)) > 0

C13_NoPanic(o) == o.panic = ""

(* information only: unsolicited frames on an interface no current holder   *)
(* covers (the spam loop keeps the last advertisement it was handed)        *)
INFO_GratStaleScope(o) ==
  o.act.op = "Grat" => \A k \in DOMAIN o.frames : SpecHolds(ann, o.frames[k].ip, o.frames[k].intf)

(* drift against the detailed model                                         *)
D_Ips(o) == \A s \in DOMAIN o.ips : AdvSeq(o.ips[s]) = st.ips[s]
D_Groups(o) == o.ndp => \A r \in RespN(o), g \in DOMAIN st.groups : ObsGrp(o, r, g) = st.groups[g]
D_Reason(o) ==
  /\ \A k \in DOMAIN o.q : o.q[k].res = QueryRes(st, o.q[k].ip, o.q[k].intf)
  /\ \A k \in DOMAIN o.arpq : o.arpq[k].res = ArpRes(st, "request", o.arpq[k].dst, o.arpq[k].tha, o.arpq[k].ip, o.arpq[k].intf)
  /\ \A k \in DOMAIN o.ndpq : o.ndpq[k].res = NdpRes(st, "ns", o.ndpq[k].ip, o.ndpq[k].intf)
  /\ (o.act.op = "Arp" => o.res = ArpRes(st, o.act.aop, o.act.dst, o.act.tha, o.act.target, o.act.intf))
  /\ ((o.act.op = "Ndp" /\ o.res # "absent") => o.res = NdpRes(st, o.act.kind, o.act.target, o.act.intf))
D_Spam(o) == IF o.act.op = "Set" THEN AdvSeq(o.spam) = <<AdvJ(o.act.adv)>> ELSE o.spam = <<>>
D_Grat(o) ==
  o.act.op = "Grat" =>
     LET adv == AdvJ(o.act.adv) IN
     IF AnnIsV4(adv.ip)
     THEN /\ {o.frames[k].intf : k \in DOMAIN o.frames} = GratRes(st, adv, RespA(o))
          /\ \A k \in DOMAIN o.frames : o.frames[k].n = 2 /\ o.frames[k].ip = adv.ip
     ELSE /\ o.frames = <<>>
          /\ (o.ndp => o.gstat = Cardinality(GratRes(st, adv, RespN(o))))

SeqFails(o) ==
  (IF C13_AnswerIff(o) THEN {} ELSE {"C13.AnswerIff"}) \cup
  (IF C13_ArpAnswerIff(o) THEN {} ELSE {"C13.ArpAnswerIff"}) \cup
  (IF C13_NdpAnswerIff(o) THEN {} ELSE {"C13.NdpAnswerIff"}) \cup
  (IF C13_RefcntExact(o) THEN {} ELSE {"C13.RefcntExact"}) \cup
  (IF C13_GratuitousOnlyHeld(o) THEN {} ELSE {"C13.GratuitousOnlyHeld"}) \cup
  (IF C13_ArpFilter(o) THEN {} ELSE {"C13.ArpFilter"}) \cup
  (IF C13_NdpFilter(o) THEN {} ELSE {"C13.NdpFilter"}) \cup
  (IF C13_GroupJoinedWhenHeld(o) THEN {} ELSE {"C13.GroupJoinedWhenHeld"}) \cup
  (IF C13_NoPanic(o) THEN {} ELSE {"C13.Panic"}) \cup
  (IF INFO_GratStaleScope(o) THEN {} ELSE {"INFO.GratStaleScope"}) \cup
  (IF D_Ips(o) THEN {} ELSE {"D.Ips"}) \cup
  (IF D_Groups(o) THEN {} ELSE {"D.Groups"}) \cup
  (IF D_Reason(o) THEN {} ELSE {"D.Reason"}) \cup
  (IF D_Spam(o) THEN {} ELSE {"D.Spam"}) \cup
  (IF D_Grat(o) THEN {} ELSE {"D.Grat"})

SeqInit == i = 1 /\ ann = {} /\ st = Empty /\ pend = {}
SeqNext ==
  /\ i < N
  /\ i' = i + 1
  /\ pend' = pend
  /\ LET o == Trace[i + 1] IN
     IF o.i = 0 THEN ann' = {} /\ st' = Empty
     ELSE ann' = ApplyAnn(ann, o.act) /\ st' = ApplySt(st, o.act)

SeqJudge ==
  LET f == SeqFails(Trace[i]) IN
  /\ (f = {} \/ PrintT(ToJson([fails |-> f, line |-> i, w |-> Trace[i].w, step |-> Trace[i].i])))
  /\ (i < N \/ PrintT(ToJson([done |-> N])))

----------------------------------------------------------------------------
(* Concurrent judge: linearizability by search                              *)
(* `i` is the next line to consume, `pend` the lines of the begin events of *)
(* calls that began and did not take effect yet.  (`st` is not used.)       *)

Pending(c) == \E b \in pend : Trace[b].c = c

(* the effect / the explanation of call e at its linearization point        *)
LinOK(e) ==
  CASE e.op = "Q"   -> (e.res = "none") <=> SpecHolds(ann, e.ip, e.intf)
    [] e.op = "Arp" -> LET should == e.aop = "request" /\ e.dst \in {"self", "bcast"} /\ SpecHolds(ann, e.ip, e.intf)
                       IN ((e.res = "reply") <=> should) /\ (Replied(e.res) => e.res = "reply")
    [] e.op = "Ndp" -> LET holds == SpecHolds(ann, e.ip, e.intf) IN
                       CASE e.nk \in {"ns", "ns2"} -> ((e.res = "reply") <=> holds) /\ (Replied(e.res) => e.res = "reply")
                         [] e.nk = "nsNoLL" -> Replied(e.res) => (holds /\ e.res = "reply")
                         [] OTHER -> ~Replied(e.res)
    [] e.op \in {"Set", "Del"} -> e.res = "ok"
    [] e.op = "G" -> e.res = "ok"
    [] OTHER -> FALSE

Lin == \E b \in pend :
         LET e == Trace[b] IN
         /\ LinOK(e)
         /\ ann' = ApplyAnn(ann, e)
         /\ pend' = pend \ {b}
         /\ UNCHANGED <<i, st>>

(* number of events of a history the search could consume: kept in the TLC  *)
(* register numbered by the history's first line, printed when it grows     *)
Mark(h, v, w) == IF TLCGet(h) < v THEN TLCSet(h, v) /\ PrintT(ToJson([hw |-> v, w |-> w])) ELSE TRUE

Consume ==
  /\ i <= N
  /\ LET e == Trace[i] IN
     /\ CASE e.ph = "B" -> /\ pend' = pend \cup {i}
                           /\ ann' = (IF e.k = 0 THEN {} ELSE ann)
          [] e.ph = "E" -> /\ ~Pending(e.c)
                           /\ (IF e.op \in {"Set", "Del"} THEN RefcntOK(e.refcnt, ann) ELSE TRUE)
                           /\ pend' = pend /\ ann' = ann
          [] e.ph = "F" -> /\ SpecHeld(ann, e.ip)    \* an unsolicited frame leaves only for a held address
                           /\ pend' = pend /\ ann' = ann
     /\ (IF e.last THEN PrintT(ToJson([ok |-> e.w])) ELSE TRUE)   \* (IF, not \/: TLC splits a disjunction of an action)
     /\ Mark(i - e.k, e.k + 1, e.w)
  /\ i' = i + 1
  /\ UNCHANGED st

(* give a history up and go on with the next one                            *)
Skip ==
  /\ i <= N /\ Trace[i].k = 0 /\ pend = {}
  /\ i' = i + Trace[i].n
  /\ UNCHANGED <<ann, st, pend>>

ConcInit == /\ i = 1 /\ ann = {} /\ st = Empty /\ pend = {}
            /\ \A k \in 1..N : Trace[k].k = 0 => TLCSet(k, 0)
ConcNext == Consume \/ Lin \/ Skip

ConcJudge == i <= N \/ PrintT(ToJson([done |-> N]))
=============================================================================
