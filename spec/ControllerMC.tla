----------------------------- MODULE ControllerMC -----------------------------
(***************************************************************************)
(* State machine of the controller process (see Controller.tla) together    *)
(* with its environment: users editing Services and pools, the informer     *)
(* cache, the work queue of the service reconciler (single worker), the     *)
(* pool reconciler, failing status writes and crashes.                      *)
(* Roles A and B as in AllocMC: invariants + one JSON line per transition.  *)
(***************************************************************************)
EXTENDS Controller, Json

CONSTANTS Svcs,         \* service identities
          SpecsOf(_),   \* s |-> set of specs the user may give service s
          LayoutSet, InitLayout,
          MaxUser,      \* bound on user operations (put/delete/layout)
          MaxFaults,    \* failing status writes
          MaxCrashes,
          Interleave,   \* TRUE: environment steps may fall between the handler calls of a pass
          Stale,        \* TRUE: the informer cache lags (explicit Sync steps)
          InitSvcs      \* services existing at start: s |-> spec (function on a subset of Svcs)

VARIABLES api,      \* s |-> NULL | [spec, status, ann]
          cache,    \* s |-> NULL | [spec, status, ann, stale]   what the reconciler reads
          cfgApi,   \* layout in the cluster
          ctl,      \* NOCFG | layout the controller has loaded (c.pools)
          al,       \* allocator memory
          gate,     \* initialLoadPerformed
          svcQ,     \* pending single-service requests
          reload,   \* a reload request is pending
          poolEvt,  \* a pool reconcile is pending
          pass,     \* NULL | [snap, todo, retry]
          nuser, nfault, ncrash,
          act,
          lf        \* history: a List call failed since the last (re)start and the gate is still closed

vars == <<api, cache, cfgApi, ctl, al, gate, svcQ, reload, poolEvt, pass, nuser, nfault, ncrash, act, lf>>
View == <<api, cache, cfgApi, ctl, al, gate, svcQ, reload, poolEvt, pass, nuser, nfault, ncrash, lf>>

Existing == {s \in Svcs : api[s] # NULL}
Obj(sp, st, an) == [spec |-> sp, status |-> st, ann |-> an]
Copy(o) == [spec |-> o.spec, status |-> o.status, ann |-> o.ann, stale |-> FALSE]
MarkStale(c) == IF c = NULL THEN NULL ELSE [c EXCEPT !.stale = TRUE]

Init ==
  /\ api = [s \in Svcs |-> IF s \in DOMAIN InitSvcs THEN Obj(InitSvcs[s], <<>>, "") ELSE NULL]
  /\ cache = [s \in Svcs |-> IF s \in DOMAIN InitSvcs THEN Copy(Obj(InitSvcs[s], <<>>, "")) ELSE NULL]
  /\ cfgApi = InitLayout /\ ctl = NOCFG
  /\ al = [s \in Svcs |-> NULL]
  /\ gate = FALSE
  /\ svcQ = {s \in Svcs : s \in DOMAIN InitSvcs}
  /\ reload = FALSE /\ poolEvt = TRUE /\ pass = NULL
  /\ nuser = 0 /\ nfault = 0 /\ ncrash = 0
  /\ act = [op |-> "Init"]
  /\ lf = FALSE

(* ---- effects of a change of api[s] on the copies the controller holds -- *)
(* new value n (NULL = deleted).  Without lag the cache follows at once and *)
(* the service is enqueued; with lag that is the job of Sync.               *)
ApiChange(s, n) ==
  /\ api' = [api EXCEPT ![s] = n]
  /\ IF Stale
     THEN /\ cache' = [cache EXCEPT ![s] = MarkStale(cache[s])]
          /\ UNCHANGED svcQ
     ELSE /\ cache' = [cache EXCEPT ![s] = IF n = NULL THEN NULL ELSE Copy(n)]
          /\ svcQ' = svcQ \cup {s}
  /\ pass' = IF pass = NULL THEN NULL
             ELSE [pass EXCEPT !.snap = [pass.snap EXCEPT ![s] = MarkStale(pass.snap[s])]]

EnvOK == pass = NULL \/ Interleave

UserPut(s, sp) ==
  /\ EnvOK /\ nuser < MaxUser
  /\ (IF api[s] = NULL THEN TRUE ELSE api[s].spec # sp)
  /\ ApiChange(s, IF api[s] = NULL THEN Obj(sp, <<>>, "") ELSE [api[s] EXCEPT !.spec = sp])
  /\ nuser' = nuser + 1
  /\ act' = [op |-> "UserPut", s |-> s, spec |-> sp]
  /\ UNCHANGED <<cfgApi, ctl, al, gate, reload, poolEvt, nfault, ncrash>>

UserDelete(s) ==
  /\ EnvOK /\ nuser < MaxUser /\ api[s] # NULL
  /\ ApiChange(s, NULL)
  /\ nuser' = nuser + 1
  /\ act' = [op |-> "UserDelete", s |-> s]
  /\ UNCHANGED <<cfgApi, ctl, al, gate, reload, poolEvt, nfault, ncrash>>

UserLayout(L) ==
  /\ EnvOK /\ nuser < MaxUser /\ L # cfgApi
  /\ cfgApi' = L /\ poolEvt' = TRUE
  /\ nuser' = nuser + 1
  /\ act' = [op |-> "UserLayout", layout |-> L]
  /\ UNCHANGED <<api, cache, ctl, al, gate, svcQ, reload, pass, nfault, ncrash>>

(* the informer delivers the current object of s (only with Stale)          *)
Sync(s) ==
  /\ Stale /\ EnvOK
  /\ (IF api[s] = NULL THEN cache[s] # NULL ELSE (IF cache[s] = NULL THEN TRUE ELSE cache[s].stale))
  /\ cache' = [cache EXCEPT ![s] = IF api[s] = NULL THEN NULL ELSE Copy(api[s])]
  /\ svcQ' = svcQ \cup {s}
  /\ act' = [op |-> "Sync", s |-> s]
  /\ UNCHANGED <<api, cfgApi, ctl, al, gate, reload, poolEvt, pass, nuser, nfault, ncrash>>

(* ---- pool reconciler --------------------------------------------------- *)
PoolReconcile ==
  /\ poolEvt /\ EnvOK
  /\ poolEvt' = FALSE
  /\ IF ctl = cfgApi
     THEN UNCHANGED <<ctl, al, reload>>        \* configuration did not change, ignored
     ELSE /\ ctl' = cfgApi /\ al' = SetPoolsRes(cfgApi, al) /\ reload' = TRUE
  /\ act' = [op |-> "PoolReconcile"]
  /\ UNCHANGED <<api, cache, cfgApi, gate, svcQ, pass, nuser, nfault, ncrash>>

(* ---- one handler invocation ------------------------------------------- *)
(* o: the object handed to the handler (a cache / snapshot copy, or NULL).  *)
(* w: the fate of the status write, if the handler writes:                  *)
(*    "ok" | "fail" (injected error) | "crashBefore" | "crashAfter"         *)
(* Returns the set of [al, res, wrote, status, ann, crashed].               *)
WriteFates == {"ok"} \cup (IF nfault < MaxFaults THEN {"fail"} ELSE {})
                     \cup (IF ncrash < MaxCrashes THEN {"crashBefore", "crashAfter"} ELSE {})

Invoke(s, o, w) ==
  LET ho == IF o = NULL THEN NULL ELSE Obj(o.spec, o.status, o.ann)
      canWrite == api[s] # NULL /\ o # NULL /\ ~o.stale
  IN { IF ~h.write THEN [al |-> h.al, res |-> h.res, wrote |-> FALSE, crashed |-> FALSE, status |-> h.status, ann |-> h.ann, tried |-> FALSE]
       ELSE CASE w = "ok" ->
                   [al |-> h.al, res |-> IF canWrite THEN h.res ELSE "Error", wrote |-> canWrite, crashed |-> FALSE,
                    status |-> h.status, ann |-> h.ann, tried |-> TRUE]
              [] w = "fail" ->
                   [al |-> h.al, res |-> "Error", wrote |-> FALSE, crashed |-> FALSE, status |-> h.status, ann |-> h.ann, tried |-> TRUE]
              [] w = "crashBefore" ->
                   [al |-> h.al, res |-> "Crash", wrote |-> FALSE, crashed |-> TRUE, status |-> h.status, ann |-> h.ann, tried |-> TRUE]
              [] w = "crashAfter" ->
                   [al |-> h.al, res |-> "Crash", wrote |-> canWrite, crashed |-> TRUE, status |-> h.status, ann |-> h.ann, tried |-> TRUE]
       : h \in Handle(ctl, al, s, ho) }

(* volatile state after a (re)start: everything existing is enqueued, the   *)
(* pool event is pending, the cache is current                              *)
Restarted(apiNow) ==
  /\ al' = [s \in Svcs |-> NULL] /\ ctl' = NOCFG /\ gate' = FALSE
  /\ cache' = [s \in Svcs |-> IF apiNow[s] = NULL THEN NULL ELSE Copy(apiNow[s])]
  /\ svcQ' = {s \in Svcs : apiNow[s] # NULL}
  /\ reload' = FALSE /\ poolEvt' = TRUE /\ pass' = NULL
  /\ ncrash' = ncrash + 1

ReconcileOne(s, w) ==
  /\ pass = NULL /\ s \in svcQ
  /\ IF ~gate /\ cache[s] # NULL     \* deletions pass the start-up gate (fix f3481a2)
     THEN /\ svcQ' = svcQ \ {s}
          /\ act' = [op |-> "ReconcileOne", s |-> s, w |-> "ok", gated |-> TRUE]
          /\ w = "ok"
          /\ UNCHANGED <<api, cache, cfgApi, ctl, al, gate, reload, poolEvt, pass, nuser, nfault, ncrash>>
     ELSE \E x \in Invoke(s, cache[s], w) :
          /\ (x.tried \/ w = "ok")
          /\ act' = [op |-> "ReconcileOne", s |-> s, w |-> w, gated |-> FALSE]
          /\ nfault' = IF w = "fail" /\ x.tried THEN nfault + 1 ELSE nfault
          /\ UNCHANGED <<cfgApi, nuser>>
          /\ IF x.crashed
             THEN LET apiNow == IF x.wrote THEN [api EXCEPT ![s] = [api[s] EXCEPT !.status = x.status, !.ann = x.ann]] ELSE api
                  IN api' = apiNow /\ Restarted(apiNow)
             ELSE /\ al' = x.al
                  /\ IF x.wrote
                     THEN /\ api' = [api EXCEPT ![s] = [api[s] EXCEPT !.status = x.status, !.ann = x.ann]]
                          /\ IF Stale
                             THEN /\ cache' = [cache EXCEPT ![s] = MarkStale(cache[s])]
                                  /\ svcQ' = (svcQ \ {s}) \cup (IF x.res = "Error" THEN {s} ELSE {})
                             ELSE /\ cache' = [cache EXCEPT ![s] = Copy(api'[s])]
                                  /\ svcQ' = svcQ      \* removed and re-added by its own update event
                     ELSE /\ UNCHANGED <<api, cache>>
                          /\ svcQ' = (svcQ \ {s}) \cup (IF x.res = "Error" THEN {s} ELSE {})
                  /\ reload' = (reload \/ x.res = "ReprocessAll")
                  /\ UNCHANGED <<ctl, gate, poolEvt, pass, ncrash>>

PassBegin ==
  /\ pass = NULL /\ reload
  /\ reload' = FALSE
  /\ pass' = [snap |-> cache, todo |-> {s \in Svcs : cache[s] # NULL}, retry |-> FALSE]
  /\ act' = [op |-> "PassBegin"]
  /\ UNCHANGED <<api, cache, cfgApi, ctl, al, gate, svcQ, poolEvt, nuser, nfault, ncrash>>

(* the List call that starts a re-sync pass fails (API error): reprocessAll  *)
(* returns before any Service is handled, the request is retried later and  *)
(* nothing else changes - in particular the start-up gate stays closed      *)
ListFail ==
  /\ pass = NULL /\ reload /\ nfault < MaxFaults
  /\ nfault' = nfault + 1
  /\ act' = [op |-> "ListFail"]
  /\ UNCHANGED <<api, cache, cfgApi, ctl, al, gate, svcQ, reload, poolEvt, pass, nuser, ncrash>>

(* services with more recorded addresses first; any order among equals     *)
NextInPass == {s \in pass.todo : \A t \in pass.todo : Len(pass.snap[s].status) >= Len(pass.snap[t].status)}

PassStep(s, w) ==
  /\ pass # NULL /\ s \in NextInPass
  /\ \E x \in Invoke(s, pass.snap[s], w) :
     /\ (x.tried \/ w = "ok")
     /\ act' = [op |-> "PassStep", s |-> s, w |-> w]
     /\ nfault' = IF w = "fail" /\ x.tried THEN nfault + 1 ELSE nfault
     /\ UNCHANGED <<cfgApi, nuser>>
     /\ IF x.crashed
        THEN LET apiNow == IF x.wrote THEN [api EXCEPT ![s] = [api[s] EXCEPT !.status = x.status, !.ann = x.ann]] ELSE api
             IN api' = apiNow /\ Restarted(apiNow)
        ELSE /\ al' = x.al
             /\ LET p2 == [pass EXCEPT !.todo = pass.todo \ {s},
                                       !.retry = pass.retry \/ x.res \in {"Error", "ReprocessAll"}]
                IN IF x.wrote
                   THEN /\ api' = [api EXCEPT ![s] = [api[s] EXCEPT !.status = x.status, !.ann = x.ann]]
                        /\ pass' = [p2 EXCEPT !.snap = [p2.snap EXCEPT ![s] = MarkStale(p2.snap[s])]]
                        /\ IF Stale
                           THEN cache' = [cache EXCEPT ![s] = MarkStale(cache[s])] /\ UNCHANGED svcQ
                           ELSE cache' = [cache EXCEPT ![s] = Copy(api'[s])] /\ svcQ' = svcQ \cup {s}
                   ELSE pass' = p2 /\ UNCHANGED <<api, cache, svcQ>>
             /\ UNCHANGED <<ctl, gate, reload, poolEvt, ncrash>>

PassEnd ==
  /\ pass # NULL /\ pass.todo = {}
  /\ pass' = NULL
  /\ IF pass.retry THEN reload' = TRUE /\ UNCHANGED gate
                   ELSE gate' = TRUE /\ UNCHANGED reload
  /\ act' = [op |-> "PassEnd"]
  /\ UNCHANGED <<api, cache, cfgApi, ctl, al, svcQ, poolEvt, nuser, nfault, ncrash>>

Crash ==
  /\ ncrash < MaxCrashes
  /\ UNCHANGED <<api, cfgApi, nuser, nfault>>
  /\ Restarted(api)
  /\ act' = [op |-> "Crash"]

(* lf is a history variable: it makes the states that follow a failed List  *)
(* distinct, so that the edge cover of role B continues *through* the       *)
(* failure (gated requests, the retried pass) instead of reaching the same  *)
(* states by another path.  It never influences an action.                  *)
LfStep == lf' = (IF ncrash' # ncrash \/ gate' THEN FALSE ELSE IF act'.op = "ListFail" THEN TRUE ELSE lf)
H(A) == A /\ LfStep

Next ==
  \/ \E s \in Svcs : \E sp \in SpecsOf(s) : H(UserPut(s, sp))
  \/ \E s \in Svcs : H(UserDelete(s))
  \/ \E L \in LayoutSet : H(UserLayout(L))
  \/ \E s \in Svcs : H(Sync(s))
  \/ H(PoolReconcile)
  \/ \E s \in Svcs, w \in WriteFates : H(ReconcileOne(s, w))
  \/ H(PassBegin)
  \/ H(ListFail)
  \/ \E s \in Svcs, w \in WriteFates : H(PassStep(s, w))
  \/ H(PassEnd)
  \/ H(Crash)

SpecNoPrint == Init /\ [][Next]_vars
Quiescent == /\ svcQ = {} /\ ~reload /\ ~poolEvt /\ pass = NULL /\ gate /\ ctl # NOCFG
             /\ \A s \in Svcs : (api[s] = NULL /\ cache[s] = NULL) \/ (api[s] # NULL /\ cache[s] # NULL /\ ~cache[s].stale)

StateRec == [api |-> api, cache |-> cache, cfgApi |-> cfgApi, ctl |-> ctl, al |-> al, gate |-> gate, svcQ |-> svcQ,
             reload |-> reload, poolEvt |-> poolEvt, pass |-> pass, q |-> Quiescent, lf |-> lf]
StateRecP == [api |-> api', cache |-> cache', cfgApi |-> cfgApi', ctl |-> ctl', al |-> al', gate |-> gate', svcQ |-> svcQ',
              reload |-> reload', poolEvt |-> poolEvt', pass |-> pass', q |-> Quiescent', lf |-> lf']
Emit == PrintT(ToJson([pre |-> StateRec, act |-> act', post |-> StateRecP, n |-> nuser]))
InitP == Init /\ PrintT(ToJson([init |-> StateRec, stale |-> Stale]))
Spec == InitP /\ [][Next]_vars
FairSpec == Spec /\ WF_vars(H(PoolReconcile)) /\ WF_vars(H(PassBegin)) /\ WF_vars(H(PassEnd))
                 /\ WF_vars(H(\E s \in Svcs : ReconcileOne(s, "ok"))) /\ WF_vars(H(\E s \in Svcs : PassStep(s, "ok")))
                 /\ WF_vars(H(\E s \in Svcs : Sync(s)))

----------------------------------------------------------------------------
(* Role A: the properties on the design                                     *)
StatusShareOK(x, y) ==
  /\ x.spec.share # "" /\ x.spec.share = y.spec.share
  /\ x.spec.ports \cap y.spec.ports = {}
  /\ BackendKey(x.spec) = BackendKey(y.spec)

InvExclusiveMem == Exclusive(al)
InvExclusiveStatus ==
  Quiescent => \A s, t \in Existing :
     (s # t /\ api[s].spec.type = "LB" /\ api[t].spec.type = "LB"
        /\ Range(api[s].status) \cap Range(api[t].status) # {}) => StatusShareOK(api[s], api[t])
(* memory = statuses at quiescence (C06 NoLeak / C11 no ghost reservation)  *)
InvNoLeak ==
  Quiescent => \A s \in Svcs :
     IF api[s] = NULL THEN al[s] = NULL
     ELSE (al[s] = NULL /\ api[s].status = <<>>) \/ (al[s] # NULL /\ al[s].ips = api[s].status)
(* C07 *)
CanPlace(L, mem, s, sp) == \E x \in AllocateIPs(L, mem, s, sp) : x.ok
InvNoStarve ==
  Quiescent => \A s \in Existing :
     (api[s].spec.type = "LB" /\ api[s].spec.cips /\ ~(api[s].spec.pol = "R" /\ api[s].spec.fam # "dual")
        /\ api[s].status = <<>>) => ~CanPlace(ctl, al, s, api[s].spec)
Converges == <>[]Quiescent

----------------------------------------------------------------------------
(* Spec catalogues                                                          *)
(* dep: the user-facing annotations (allow-shared-ip, address-pool, loadBalancerIPs) are written with  *)
(* the deprecated metallb.universe.tf prefix; legacy: the Service still carries the deprecated           *)
(* ip-allocated-from-pool annotation (written by old releases) with that value.  Both are inert in the   *)
(* model: the code must treat the spellings alike and ignore the legacy record.                          *)
Sp(type, fam, pol, share, ports, etp, sel, reqIPs, reqPool) ==
  [type |-> type, fam |-> fam, pol |-> pol, v6first |-> FALSE, cips |-> TRUE, share |-> share, ports |-> ports,
   etp |-> etp, sel |-> sel, reqIPs |-> reqIPs, reqPool |-> reqPool, dep |-> FALSE, legacy |-> "", bad |-> FALSE,
   blank |-> FALSE]
Bad(sp) == [sp EXCEPT !.bad = TRUE]
(* the stable allow-shared-ip annotation is present and empty (sharing switched off) next to a    *)
(* left-over deprecated one that carries "k1": a present stable annotation is the one that counts *)
BlankStable(sp) == [sp EXCEPT !.blank = TRUE]
V6First(sp) == [sp EXCEPT !.v6first = TRUE]
Dep(sp) == [sp EXCEPT !.dep = TRUE]
Legacy(sp, pn) == [sp EXCEPT !.legacy = pn]
Plain == Sp("LB", "v4", "S", "", {"tcp80"}, "Cluster", "x", <<>>, "")

(* sharing: keys, ports, traffic policy, type change *)
SpecsShare(s) ==
  { Sp(ty, "v4", "S", sk, p, etp, "x", <<>>, "") :
      ty \in {"LB"}, sk \in {"", "k1"}, p \in {{"tcp80"}, {"tcp443"}}, etp \in {"Cluster"} }
  \cup { Sp("LB", "v4", "S", "k1", {"tcp80"}, "Local", IF s = "s1" THEN "x" ELSE "y", <<>>, ""),
         Sp("LB", "v4", "S", "k1", {"tcp443"}, "Local", "", <<>>, ""),     \* Local policy, selector-less Service
         Sp("LB", "v4", "S", "k1", {"tcp80", "udp80"}, "Cluster", "x", <<>>, ""),   \* one port number, two protocols
         Sp("LB", "v4", "S", "k1", {"udp80"}, "Cluster", "x", <<>>, ""),
         \* Local policy with a two-label selector (identical for every Service): port differs per Service
         Sp("LB", "v4", "S", "k1", IF s = "s1" THEN {"tcp80"} ELSE {"tcp443"}, "Local", "x+z", <<>>, ""),
         BlankStable(Sp("LB", "v4", "S", "", {"tcp443"}, "Cluster", "x", <<>>, "")),
         Sp("CIP", "v4", "S", "", {"tcp80"}, "Cluster", "x", <<>>, "") }
(* requests: explicit addresses / pool *)
SpecsReq(s) ==
  { Plain, Sp("LB", "v4", "S", "", {"tcp80"}, "Cluster", "x", <<0>>, ""),
    Sp("LB", "v4", "S", "", {"tcp80"}, "Cluster", "x", <<1>>, ""),
    Sp("LB", "v4", "S", "", {"tcp80"}, "Cluster", "x", <<>>, "p2"),
    Dep(Sp("LB", "v4", "S", "", {"tcp80"}, "Cluster", "x", <<>>, "p2")),
    Sp("LB", "v4", "S", "", {"tcp80"}, "Cluster", "x", <<0>>, "p2"),
    Bad(Plain),
    Sp("LB", "v4", "S", "k1", {"tcp80"}, "Cluster", "x", <<>>, ""),
    Dep(Sp("LB", "v4", "S", "k1", {"tcp443"}, "Cluster", "x", <<>>, "")) }
(* a Service that holds an address asks for a pool that is already full (p2 of TwoPlus has one    *)
(* address), while a third Service waits for whatever becomes free                                *)
SpecsReqFull(s) ==
  IF s = "s2" THEN { Sp("LB", "v4", "S", "", {"tcp80"}, "Cluster", "x", <<>>, "p2") }
  ELSE IF s = "s1" THEN { Plain, Sp("LB", "v4", "S", "", {"tcp80"}, "Cluster", "x", <<>>, "p2") }
  ELSE { Plain }
(* sharing among Local-policy Services (identical one- and two-label selectors, a different selector, Cluster) *)
SpecsLocalShare(s) ==
  LET pt == IF s = "s1" THEN {"tcp80"} ELSE {"tcp443"} IN
  { Sp("LB", "v4", "S", "k1", pt, "Local", "x+z", <<>>, ""),
    Sp("LB", "v4", "S", "k1", pt, "Local", "x", <<>>, ""),
    Sp("LB", "v4", "S", "k1", pt, "Local", IF s = "s1" THEN "x+z" ELSE "x+y", <<>>, ""),
    Sp("LB", "v4", "S", "k1", pt, "Cluster", "x", <<>>, "") }
SpecsPlain(s) == { Plain }
SpecsPlainCIP(s) == { Plain, Sp("CIP", "v4", "S", "", {"tcp80"}, "Cluster", "x", <<>>, "") }
SpecsDual(s) ==
  { Plain, Sp("LB", "v6", "S", "", {"tcp80"}, "Cluster", "x", <<>>, ""),
    Sp("LB", "dual", "R", "", {"tcp80"}, "Cluster", "x", <<>>, ""),
    Sp("LB", "dual", "P", "", {"tcp80"}, "Cluster", "x", <<>>, ""),
    Sp("LB", "v4", "P", "", {"tcp80"}, "Cluster", "x", <<>>, "") }
Innocent == Legacy(Sp("LB", "v4", "S", "k1", {"udp80"}, "Cluster", "x", <<>>, ""), "p1")
SpecsInnocent(s) == IF s = "s1" THEN { Innocent } ELSE SpecsShare(s)

None == <<>>
InitTwo == [s \in {"s1", "s2"} |-> Plain]
(* failing writes: a request that cannot be met (address in no pool), a request for the only address, a re-type *)
SpecsFault(s) ==
  { Plain, Sp("LB", "v4", "S", "", {"tcp80"}, "Cluster", "x", <<5>>, ""),
    Sp("LB", "v4", "S", "", {"tcp80"}, "Cluster", "x", <<0>>, ""), Bad(Plain),
    Sp("CIP", "v4", "S", "", {"tcp80"}, "Cluster", "x", <<>>, "") }
InitOne == [s \in {"s1"} |-> Plain]
InitThree == [s \in {"s1", "s2", "s3"} |-> Plain]
(* dual-stack requests incl. a requested pair whose IPv4 half is a buggy address *)
SpecsDualReq(s) ==
  { Plain, Sp("LB", "dual", "R", "", {"tcp80"}, "Cluster", "x", <<>>, ""),
    Sp("LB", "dual", "R", "", {"tcp80"}, "Cluster", "x", <<100, 1>>, ""),
    Sp("LB", "dual", "R", "", {"tcp80"}, "Cluster", "x", <<0, 101>>, ""),
    Dep(Sp("LB", "dual", "P", "", {"tcp80"}, "Cluster", "x", <<101, 0>>, "")),
    Sp("LB", "dual", "R", "", {"tcp80"}, "Cluster", "x", <<0>>, ""),      \* a dual-stack Service requesting one address only
    V6First(Sp("LB", "dual", "R", "", {"tcp80"}, "Cluster", "x", <<>>, "")) }
SpecsPrefer(s) ==
  { Plain, Sp("LB", "dual", "P", "", {"tcp80"}, "Cluster", "x", <<>>, ""),
    Sp("LB", "v4", "P", "", {"tcp80"}, "Cluster", "x", <<>>, ""),      \* PreferDualStack on a single-stack cluster (one clusterIP)
    V6First(Sp("LB", "dual", "P", "", {"tcp80"}, "Cluster", "x", <<>>, "")),
    V6First(Sp("LB", "dual", "R", "", {"tcp80"}, "Cluster", "x", <<>>, "")) }
(* a PreferDualStack Service gains its second address, the write fails, the Service is made single-stack *)
SpecsPreferDown(s) == { Plain, Sp("LB", "dual", "P", "", {"tcp80"}, "Cluster", "x", <<>>, ""),
                        Sp("LB", "v6", "S", "", {"tcp80"}, "Cluster", "x", <<>>, "") }
InitPreferOne == [s \in {"s1"} |-> Sp("LB", "dual", "P", "", {"tcp80"}, "Cluster", "x", <<>>, "")]
InitInnocent == [s \in {"s1"} |-> Innocent]
=============================================================================
