"""Wire family (C16, native BGP wire format): spec/BGPWire.tla (independent RFC 4271 reader, Intended,
OpenReader), spec/BGPWireMC.tla (role A: design check of the reader against a reference writer;
role B: TLC enumerates writer parameters and reader octet strings), harness/native (real
sendOpen/sendUpdate/sendWithdraw/sendKeepalive/readOpen), spec/BGPWireTrace.tla (role C)."""
import json
import os
import re

import vlib

PROPS = ["C16"]

MODES = ["writer", "history", "reader"]
CONFIRM_MAX = 200


def _cfg_text(tier, mode, seed):
    src = os.path.join(vlib.SPEC, "cfg", "BGPWireMC_%s_%s.cfg" % (tier, mode))
    txt = open(src).read()
    txt, n = re.subn(r"(?m)^\s*Seed\s*=\s*\d+\s*$", "  Seed = %d" % (seed % 65521), txt)
    if n != 1:
        raise vlib.Inconclusive("no Seed line in %s" % src)
    return txt


def enumerate_inputs(chk, mode):
    """Roles A + B: TLC checks WriterDesign / ReaderDesign on every input of the bounded domain and
    prints each input (invariant Emit).  The list is sorted, so ids do not depend on worker timing."""
    got = []
    res = vlib.tlc(chk.work, "BGPWireMC", _cfg_text(chk.tier, mode, chk.seed), workers=8, timeout=1500,
                   args=["-continue"], json_sink=got.append, heap="8g")
    name = "BGPWireMC_%s_%s.cfg" % (chk.tier, mode)
    chk.add_model_run(name, res)
    if res.violated:
        chk.notes.append("MODEL-ONLY: design model %s violates %s" % (name, res.violated))
        print("MODEL-ONLY: %s violates %s in the design model (the specification's own writer/reader disagree)"
              % (name, res.violated))
    elif res.error:
        raise vlib.Inconclusive("TLC %s: %s\n%s" % (name, res.error, res.out[-1500:]))
    seen = {}
    for o in got:
        if "kind" not in o:
            continue
        o.pop("gen", None)      # the structure a grammar-built OPEN came from: used by role A only
        seen.setdefault(vlib.canon(o), o)
    if res.distinct == 0 or len(seen) == 0:
        raise vlib.Inconclusive("no inputs from %s: %s" % (name, res.out[-800:]))
    inputs = []
    for n, k in enumerate(sorted(seen)):
        o = seen[k]
        o["id"] = "%s%06d" % (mode[0], n)
        inputs.append(o)
    vlib.log("  %s: %d states, %d inputs, %.1fs" % (name, res.distinct, len(inputs), res.wall))
    return inputs


def execute(chk, inputs, tag):
    scen = os.path.join(chk.work, "scen_%s.ndjson" % tag)
    with open(scen, "w") as fh:
        for o in inputs:
            fh.write(json.dumps(o, separators=(",", ":")) + "\n")
    obs_path = os.path.join(chk.work, "obs_%s.ndjson" % tag)
    ov = vlib.overlay_for(vlib.harness_mapping("native", "internal/bgp/native"), chk.work)
    rc, out = vlib.go_test("internal/bgp/native", "^TestVerifWire$", ov,
                           {"VERIF_SCENARIOS": scen, "VERIF_OBS": obs_path, "VERIF_SEED": chk.seed})
    if rc != 0:
        raise vlib.Inconclusive("native harness failed (rc=%s):\n%s" % (rc, out[-3000:]))
    n = sum(1 for _ in open(obs_path))
    if n != len(inputs):
        raise vlib.Inconclusive("native harness logged %d observations for %d inputs" % (n, len(inputs)))
    return obs_path


def judge(chk, obs_path):
    return vlib.run_judge_parallel(chk, "BGPWireTrace", "BGPWireTrace.cfg", obs_path, walk_key="id", chunks=14)


def _norm(txt):
    txt = re.sub(r"0x[0-9a-fA-F]+", "0xN", txt or "")
    txt = re.sub(r"\d+", "N", txt)
    return txt[:120]


def signature(name, fail, obs):
    """Canonical, stable description of one failing conjunct on one observation."""
    info = fail.get("info", {})
    if obs.get("kind") == "history":
        # the first failing send of the history, described like a single send, plus what kind of
        # disturbance preceded it on the same process (a refused send, a failed connection write)
        k = info.get("step", 1) - 1
        st = obs["steps"][k]
        one = dict(st, kind=st["p"].get("kind"))
        prev = set()
        for q in obs["steps"][:k]:
            if q.get("err"):
                prev.add("writefail" if q["p"].get("failat", -1) >= 0 else "refused")
        if prev:
            # which octets are stale decides where the decoder trips: not part of the signature
            return "%s|kind=%s|prev=%s" % (name, one["kind"], "+".join(sorted(prev)))
        return "%s|prev=clean" % signature(name, {"info": info.get("first", {})}, one)
    if obs.get("kind") == "read":
        hl, ty = info.get("hdrlen"), info.get("type")
        if name.endswith(".Bounded"):
            # announced length: below the 19-octet header / exact up to 36 / longer; over = octets taken beyond Allowed
            hb = "lt19" if hl < 19 else (hl if hl < 37 else "ge37")
            over = info.get("consumed", 0) - info.get("allowed", 0)
            return "%s|type=%s|hdrlen=%s|over=%s" % (name, ty, hb, over if over <= 2 else "gt2")
        if name.endswith(".Outcome"):
            bucket = "lt37" if isinstance(hl, int) and hl < 37 else "ge37"
            if not info.get("ok"):
                got = "err:" + _norm(info.get("err"))
            else:
                want, g = info.get("want", {}), info.get("got", {})
                got = "differs:" + ",".join(sorted(k for k in g if k != "class" and g.get(k) != want.get(k)))
            return "%s|hdrlen=%s|got=%s" % (name, bucket, got)
        if name.endswith(".Panic"):
            return "%s|%s" % (name, _norm(obs.get("panic")))
        return "%s|type=%s|hdrlen=%s" % (name, ty, hl)
    p = obs.get("p", {})
    ctx = "kind=%s" % obs.get("kind")
    if obs.get("kind") == "update":
        ctx += "|ibgp=%s|fbasn=%s|asn>65535=%s" % (str(p.get("ibgp")).lower(), str(p.get("fbasn")).lower(),
                                                   str(bool(p.get("asn", [0, 0])[0] or p.get("asn", [0, 0])[1])).lower())
    if name.endswith(".Content"):
        return "%s|%s|diff=%s" % (name, ctx, ",".join(sorted(info.get("diff", []))))
    if name.endswith(".Framing"):
        return "%s|%s|why=%s" % (name, ctx, info.get("why"))
    if name.endswith(".Panic"):
        return "%s|%s|%s" % (name, ctx, _norm(obs.get("panic")))
    if name.endswith(".NothingWritten") or name.endswith(".ErrorAfterWrite"):
        return "%s|%s|err=%s" % (name, ctx, _norm(obs.get("err")))
    return "%s|%s" % (name, ctx)


def _short(o):
    """An observation trimmed for samples / evidence."""
    def cut(v):
        if isinstance(v, list) and len(v) > 48:
            return v[:48] + ["... %d more" % (len(v) - 48)]
        if isinstance(v, dict):
            return {k: cut(x) for k, x in v.items()}
        return v
    return cut(o)


def nontrivial_key(o):
    """Distinct non-trivial cases: a writer call that produced a message (keyed by the octets), a
    reader call on a stream that passes the marker test (keyed by the stream)."""
    if o["kind"] == "history":
        return "h" + vlib.canon([st["bytes"] for st in o["steps"]])
    if o["kind"] == "read":
        s = o["stream"]
        if len(s) >= 19 and all(b == 255 for b in s[:16]):
            return "r" + vlib.canon(s)
        return None
    if o["bytes"]:
        return "w" + vlib.canon(o["bytes"])
    return None


def run_inputs(chk, inputs, tag):
    obs_path = execute(chk, inputs, tag)
    fails, nlines = judge(chk, obs_path)
    obs = [json.loads(l) for l in open(obs_path)]
    return fails, obs, nlines


def split_fails(fails):
    verdict, info = [], []
    for f in fails:
        names = [x for x in f["fails"] if x.startswith("C16.")]
        if names:
            verdict.append((f, names))
        if any(not x.startswith("C16.") for x in f["fails"]):
            info.append(f)
    return verdict, info


def run(chk):
    inputs = []
    for mode in MODES:
        inputs += enumerate_inputs(chk, mode)
    byid = {o["id"]: o for o in inputs}
    fails, obs, nlines = run_inputs(chk, inputs, "all")
    obs_by_id = {o["id"]: o for o in obs}
    verdict, info = split_fails(fails)
    chk.cov["traces_validated_against_impl"] += nlines
    chk.cov["evaluations"] += nlines
    chk.cov["distinct_nontrivial"] += len({k for k in map(nontrivial_key, obs) if k})
    chk.cov["writer_inputs"] = sum(1 for o in inputs if o["kind"] not in ("read", "history"))
    chk.cov["writer_histories"] = sum(1 for o in inputs if o["kind"] == "history")
    chk.cov["writer_history_sends"] = sum(len(o["steps"]) for o in obs if o["kind"] == "history")
    chk.cov["writer_history_sends_refused_or_failed"] = sum(1 for o in obs if o["kind"] == "history"
                                                            for st in o["steps"] if st["err"])
    chk.cov["reader_inputs"] = sum(1 for o in inputs if o["kind"] == "read")
    chk.cov["reader_accepted_by_code"] = sum(1 for o in obs if o["kind"] == "read" and o["ok"])
    chk.cov["exhaustive"] = True
    chk.cov["drift"] += len(info)
    if info:
        print("DRIFT: readOpen accepted %d octet strings the abstract reader classifies as malformed "
              "(the property does not say they must be refused); not a verdict" % len(info))
        chk.cov["drift_examples"] = [{"id": f["id"], "why": f["info"].get("why"),
                                      "stream": obs_by_id[f["id"]]["stream"][:64]} for f in info[:3]]
    for k in ("update", "withdraw", "open", "keepalive", "history", "read"):
        s = next((o for o in obs if o["kind"] == k), None)
        if s is not None:
            chk.cov["samples"].append(_short(s))
    if verdict:
        confirm(chk, verdict, byid, obs_by_id)
    chk.cov["rule"] = ("every input TLC enumerates from the bounded domain of spec/BGPWireMC.tla is executed once on the real "
                       "writers / readOpen; non-trivial = distinct non-empty messages produced by the writers plus distinct "
                       "reader streams that pass the 16-octet marker test plus distinct per-call octet sequences of the writer histories "
                       "(2..4 sends on one connection object, with refused sends and connection failures after k octets)")
    chk.assumptions += [
        "hold times are whole seconds in {0} u 3..65535; router id and next hop are 4-octet IPv4 addresses; prefixes are IPv4 "
        "(length 0..32), given as 4- or 16-octet net.IP with a 32-bit mask; bits beyond the prefix length are ignored (RFC 4271 4.3)",
        "ORIGIN is IGP; communities are compared as a set plus their number; an empty COMMUNITIES attribute counts as none",
        "eBGP UPDATE with own ASN > 65535 to a peer without capability 65: either AS_TRANS in 2-octet form or a refusal that "
        "writes nothing is accepted (corner the statement leaves open)",
        "withdraw lists hold 1..3 distinct prefixes; OPEN optional-parameter types other than 2, conflicting capability-65 values, "
        "a non-zero reserved octet in capability 1 and identifier 0.0.0.0 are outside the 'well-formed OPEN' the reader must accept",
        "histories: a send that returns an error where a refusal (large community, 64 communities, 2-octet corner) or an injected "
        "connection failure is expected is not judged (it may have written nothing or a prefix); a send reporting success with a "
        "large community has no defined intended content and is not judged; the following sends are judged on their own octets",
        "which malformed octet strings readOpen refuses is not judged (the statement only demands no panic, no hang, no over-read)",
    ]


def confirm(chk, verdict, byid, obs_by_id):
    """Re-execute the failing inputs once (alone) and re-judge; only what fails again is reported."""
    # at most CONFIRM_MAX inputs, but at least one per signature
    chosen, per_sig = [], {}
    for f, names in verdict:
        o = obs_by_id[f["id"]]
        for name in names:
            per_sig.setdefault(signature(name, f, o), []).append(f["id"])
    for sig, ids in sorted(per_sig.items()):
        for i in ids[:max(1, CONFIRM_MAX // max(1, len(per_sig)))]:
            if i not in chosen:
                chosen.append(i)
    chosen = chosen[:max(CONFIRM_MAX, len(per_sig))]
    again, obs2, _ = run_inputs(chk, [byid[i] for i in chosen], "confirm")
    obs2_by_id = {o["id"]: o for o in obs2}
    again_by_id = {f["id"]: f for f in again}
    confirmed = set()
    for i in chosen:
        f2 = again_by_id.get(i)
        for f, names in verdict:
            if f["id"] != i:
                continue
            for name in names:
                if f2 and name in f2["fails"]:
                    confirmed.add(signature(name, f2, obs2_by_id[i]))
                    chk.fail(signature(name, f2, obs2_by_id[i]), name,
                             detail={"observation": _short(obs2_by_id[i]), "judge": f2.get("info")},
                             scenario={"family": "wire", "inputs": [byid[i]]})
                else:
                    chk.notes.append("unreproduced: %s %s" % (i, name))
    # failures of a confirmed signature that were not re-executed are counted, not re-reported
    counts = {}
    for f, names in verdict:
        for name in names:
            s = signature(name, f, obs_by_id[f["id"]])
            counts[s] = counts.get(s, 0) + 1
    chk.cov["failing_observations_by_signature"] = {s: n for s, n in sorted(counts.items())}
    lost = sorted(s for s in counts if s not in confirmed)
    if lost:
        chk.notes.append("signatures seen but not reproduced: %s" % lost[:10])


def replay(chk, path):
    body = json.load(open(path))
    inputs = body["scenario"]["inputs"]
    fails, obs, nlines = run_inputs(chk, inputs, "replay")
    obs_by_id = {o["id"]: o for o in obs}
    chk.cov["evaluations"] = nlines
    chk.cov["traces_validated_against_impl"] = nlines
    # the only TLC run of a replay is role C: the trace specification has one state per observation
    chk.cov["states"] = chk.cov["transitions"] = nlines
    chk.cov["rule"] = "replay of the stored inputs; states = states of the role-C trace specification"
    chk.cov["distinct_nontrivial"] = len({k for k in map(nontrivial_key, obs) if k})
    chk.cov["samples"] += [_short(o) for o in obs[:3]]
    for f in fails:
        for name in f["fails"]:
            if name.startswith("C16."):
                o = obs_by_id[f["id"]]
                chk.fail(signature(name, f, o), name, detail={"observation": _short(o), "judge": f.get("info")},
                         scenario=body["scenario"])
