//go:build verif

package allocator

// C11, arithmetic half: pool shapes with real prefix lengths enumerated by TLC (spec/PoolShape.tla);
// the harness installs each as the only pool of a fresh allocator and logs the reported counters
// as base-2^20 limbs (TLC integers are 32 bit).

import (
	"bufio"
	"encoding/json"
	"math/big"
	"net"
	"os"
	"testing"

	"go.universe.tf/metallb/internal/config"
	kit "go.universe.tf/metallb/internal/verifkit"
)

type vShapeCidr struct {
	Fam  string `json:"fam"`
	Len  int    `json:"len"`
	Last int    `json:"last"`
	Cidr string `json:"cidr"`
}

type vShape struct {
	Cidrs []vShapeCidr `json:"cidrs"`
	Avoid bool         `json:"avoid"`
}

func vLimbs(v int64) map[string]any {
	neg := v < 0
	b := big.NewInt(v)
	b.Abs(b)
	base := big.NewInt(1 << 20)
	limbs := []int{}
	for i := 0; i < 4; i++ {
		m := new(big.Int)
		b.DivMod(b, base, m)
		limbs = append(limbs, int(m.Int64()))
	}
	return map[string]any{"neg": neg, "limbs": limbs}
}

func TestVerifPoolShapes(t *testing.T) {
	f, err := os.Open(os.Getenv("VERIF_SCENARIOS"))
	kit.Must(err)
	defer f.Close()
	out := kit.NewObsWriter()
	defer out.Close()
	sc := bufio.NewScanner(f)
	sc.Buffer(make([]byte, 1<<20), 1<<26)
	n := 0
	for sc.Scan() {
		var sh vShape
		kit.Must(json.Unmarshal(sc.Bytes(), &sh))
		p := &config.Pool{Name: "p", AvoidBuggyIPs: sh.Avoid, AutoAssign: true}
		for _, c := range sh.Cidrs {
			_, ipn, err := net.ParseCIDR(c.Cidr)
			kit.Must(err)
			p.CIDR = append(p.CIDR, ipn)
		}
		a := New(func(string) {})
		a.SetPools(&config.Pools{ByName: map[string]*config.Pool{"p": p}})
		c := a.CountersForPool("p")
		out.Write(map[string]any{"w": "shape" + kit.Itoa(n), "cidrs": sh.Cidrs, "avoid": sh.Avoid,
			"av4": vLimbs(c.AvailableIPv4), "av6": vLimbs(c.AvailableIPv6), "as4": vLimbs(c.AssignedIPv4), "as6": vLimbs(c.AssignedIPv6)})
		n++
	}
}
