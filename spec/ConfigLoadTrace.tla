--------------------------- MODULE ConfigLoadTrace ---------------------------
(***************************************************************************)
(* Role C for C18.  Two kinds of observation lines:                         *)
(*  t = "load": one snapshot given to the real toConfig in the listed       *)
(*      order (reference), repeated, and under every permutation of every   *)
(*      kind; tallies of accepted / rejected loads and of accepted values   *)
(*      that are not reflect.DeepEqual to the reference.                    *)
(*  t = "rec":  one step of a walk of the real PoolReconciler /             *)
(*      ConfigReconciler: handler invocations of the reconciliation after   *)
(*      the event and of the idle reconciliations that follow, order-free   *)
(*      digest of the value now, digest of the value applied before.        *)
(* The predicates are exactly the clauses of C18.                           *)
(***************************************************************************)
EXTENDS Integers, Sequences, FiniteSets, TLC, Json

Trace == ndJsonDeserialize("obs.ndjson")
N == Len(Trace)

VARIABLE i

Rng(f) == {f[x] : x \in DOMAIN f}

(* computing the configuration twice from the same snapshot yields equal values *)
Repeatable(o) == o.reps.neq = 0 /\ (o.reps.nacc = 0 \/ o.reps.nrej = 0) /\ (o.first_ok <=> o.reps.nrej = 0)

(* the same value whatever the listing order (only meaningful where a       *)
(* single load has a value at all: Repeatable reports the other case)       *)
OrderFree(o) == Repeatable(o) => (\A k \in Rng(o.kinds) : k.neq = 0) /\ o.comb.neq = 0

(* acceptance or rejection does not depend on the listing order             *)
AcceptanceOrderFree(o) ==
  LET all == Rng(o.kinds) \cup {o.comb} IN
  IF o.first_ok THEN \A k \in all : k.nrej = 0 ELSE \A k \in all : k.nacc = 0

(* an unrelated event (or no event) never triggers the handler              *)
NoSpuriousReload(o) ==
  /\ o.idle = 0
  /\ (o.dig = o.applied => o.calls = 0)
  /\ (o.dig = "" => o.calls = 0)

(* a changed, accepted value is handed to the handler                       *)
ReloadOnChange(o) == (o.dig # "" /\ o.dig # o.applied) => o.calls >= 1

Fails(k) ==
  LET o == Trace[k] IN
  IF o.t = "load" /\ o.panic # "" THEN {"C18.NoPanic"}
  ELSE IF o.t = "load" THEN
    (IF Repeatable(o) THEN {} ELSE {"C18.Repeatable"}) \cup
    (IF OrderFree(o) THEN {} ELSE {"C18.OrderFree"}) \cup
    (IF AcceptanceOrderFree(o) THEN {} ELSE {"C18.AcceptanceOrderFree"})
  ELSE
    (IF NoSpuriousReload(o) THEN {} ELSE {"C18.NoSpuriousReload"}) \cup
    (IF ReloadOnChange(o) THEN {} ELSE {"C18.ReloadOnChange"})

Init == i = 1
Next == i < N /\ i' = i + 1

Judge ==
  LET f == Fails(i) IN
  /\ (f = {} \/ PrintT(ToJson([fails |-> f, line |-> i])))
  /\ (i < N \/ PrintT(ToJson([done |-> N])))
=============================================================================
