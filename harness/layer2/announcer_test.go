//go:build verif

package layer2

// Role B harness of the announcer family (C13).  It builds a real layer2.Announce without
// background goroutines and without raw sockets, gives it real arpResponder / ndpResponder
// objects (ARP over an in-memory net.PacketConn, NDP over the UDP test connections of the
// ndp library when an interface with a link-local address exists), replays TLC-generated
// steps and logs what the real code did.  No judgement happens here.

import (
	"bytes"
	"encoding/json"
	"fmt"
	"net"
	"os"
	"sort"
	"sync"
	"sync/atomic"
	"testing"
	"time"

	"github.com/go-kit/log"
	"github.com/mdlayher/arp"
	"github.com/mdlayher/ethernet"
	"github.com/mdlayher/ndp"
	"github.com/prometheus/client_golang/prometheus"
	kit "go.universe.tf/metallb/internal/verifkit"
	"k8s.io/apimachinery/pkg/util/sets"
)

var (
	vReqMAC   = net.HardwareAddr{1, 2, 3, 4, 5, 6}
	vOtherMAC = net.HardwareAddr{6, 5, 4, 3, 2, 1}
	vReqIP    = net.IPv4(192, 168, 1, 1)
)

func vReason(r dropReason) string {
	switch r {
	case dropReasonNone:
		return "none"
	case dropReasonClosed:
		return "closed"
	case dropReasonError:
		return "error"
	case dropReasonARPReply:
		return "arpReply"
	case dropReasonMessageType:
		return "messageType"
	case dropReasonNoSourceLL:
		return "noSourceLL"
	case dropReasonEthernetDestination:
		return "ethernetDestination"
	case dropReasonAnnounceIP:
		return "notAnnounced"
	case dropReasonNotMatchInterface:
		return "notThisInterface"
	}
	return fmt.Sprintf("unknown%d", int(r))
}

type vAdv struct {
	Ip  int      `json:"ip"`
	All bool     `json:"all"`
	Ifs []string `json:"ifs"`
}

func vNoAdv() vAdv { return vAdv{Ip: -1, Ifs: []string{}} }

func (v vAdv) real() IPAdvertisement {
	return NewIPAdvertisement(kit.AnnIP(v.Ip), v.All, sets.New(v.Ifs...))
}

func vAdvOf(x IPAdvertisement) vAdv {
	ifs := []string{}
	for k := range x.interfaces {
		ifs = append(ifs, k)
	}
	sort.Strings(ifs)
	return vAdv{Ip: kit.AnnAbs(x.ip), All: x.allInterfaces, Ifs: ifs}
}

type vAct struct {
	Op     string `json:"op"`
	S      string `json:"s"`
	Adv    vAdv   `json:"adv"`
	Aop    string `json:"aop"`
	Dst    string `json:"dst"`
	Tha    string `json:"tha"`
	Target int    `json:"target"`
	Intf   string `json:"intf"`
	Kind   string `json:"kind"`
}

type vItem struct {
	K    string `json:"k"` // Q | Arp | Ndp
	Ip   int    `json:"ip"`
	Intf string `json:"intf"`
	Aop  string `json:"aop"`
	Dst  string `json:"dst"`
	Tha  string `json:"tha"`
	Nk   string `json:"nk"`
}

type vLoad struct {
	Q    [][]vItem `json:"q"`
	G    []vAdv    `json:"g"`
	Gaps []int     `json:"gaps"` // microseconds the updater waits before its k-th update
	Tail int       `json:"tail"` // microseconds the history stays open after the last update
}

func vSpin(us int) {
	if us <= 0 {
		return
	}
	if us >= 1000 {
		time.Sleep(time.Duration(us) * time.Microsecond)
		return
	}
	for t0 := time.Now(); time.Since(t0) < time.Duration(us)*time.Microsecond; {
	}
}

type vInit struct {
	Svcs    []string `json:"svcs"`
	Ips     []int    `json:"ips"`
	Foreign []int    `json:"foreign"`
	Intfs   []string `json:"intfs"`
	Resp    []string `json:"resp"`
	Load    vLoad    `json:"load"`
}

// ---------------------------------------------------------------- the rig

type vArpEnd struct {
	intf    string
	mac     net.HardwareAddr
	conn    *kit.MemConn
	resp    *arpResponder
	mu      sync.Mutex
	replies []*arp.Packet
}

type vNdpEnd struct {
	intf string
	mac  net.HardwareAddr
	resp *ndpResponder
	peer *ndp.Conn
	addr net.IP
}

type vRig struct {
	a      *Announce
	arp    map[string]*vArpEnd
	ndp    map[string]*vNdpEnd
	resp   []string
	onGrat func(seq int64, intf string, ip int)
}

var (
	vIfOnce  sync.Once
	vAnyIf   *net.Interface // any interface: arp.New only asks it for its addresses
	vNdpIf   *net.Interface // an interface with a link-local IPv6 address, nil if there is none
	vGroupOf = map[string]int{}
)

func vProbeInterfaces() {
	vIfOnce.Do(func() {
		ifs, err := net.Interfaces()
		if err != nil || len(ifs) == 0 {
			panic("verif: no network interfaces at all")
		}
		x := ifs[0]
		vAnyIf = &x
		if os.Getenv("VERIF_NO_NDP") == "" {
			for i := range ifs {
				c1, c2, _, err := ndp.TestConns(&ifs[i])
				if err != nil {
					continue
				}
				c1.Close()
				c2.Close()
				y := ifs[i]
				vNdpIf = &y
				break
			}
		}
		for _, a := range []int{100, 101, 102, 103, 104, 105} {
			g, err := ndp.SolicitedNodeMulticast(kit.AnnIP(a))
			if err == nil {
				vGroupOf[g.String()] = a
			}
		}
	})
}

// vNewRig: the constructor New() minus its two goroutines (interface scan would open raw
// sockets; the spam loop is started by the concurrent tests only), plus one ARP and one NDP
// responder per name in resp.
func vNewRig(resp []string) *vRig {
	vProbeInterfaces()
	a := &Announce{
		logger:         log.NewNopLogger(),
		nodeInterfaces: []string{},
		arps:           map[int]*arpResponder{},
		ndps:           map[int]*ndpResponder{},
		ips:            map[string][]IPAdvertisement{},
		ipRefcnt:       map[string]int{},
		spamCh:         make(chan IPAdvertisement, 1024),
	}
	r := &vRig{a: a, arp: map[string]*vArpEnd{}, ndp: map[string]*vNdpEnd{}, resp: resp}
	for i, name := range resp {
		mac := net.HardwareAddr{2, 0, 0, 0, 0, byte(i + 1)}
		ifi := net.Interface{Index: vAnyIf.Index, MTU: 1500, Name: name, HardwareAddr: mac}
		mc := kit.NewMemConn()
		cl, err := arp.New(&ifi, mc)
		kit.Must(err)
		end := &vArpEnd{intf: name, mac: mac, conn: mc}
		end.resp = &arpResponder{logger: log.NewNopLogger(), intf: name, hardwareAddr: mac, conn: cl,
			closed: make(chan struct{}), announce: a.shouldAnnounce}
		mc.OnWrite = func(seq int64, b []byte) {
			var eth ethernet.Frame
			if eth.UnmarshalBinary(b) != nil {
				return
			}
			var p arp.Packet
			if p.UnmarshalBinary(eth.Payload) != nil {
				return
			}
			if bytes.Equal(eth.Destination, ethernet.Broadcast) {
				if f := r.onGrat; f != nil {
					f(seq, end.intf, kit.AnnAbs(p.SenderIP))
				}
				return
			}
			end.mu.Lock()
			end.replies = append(end.replies, &p)
			end.mu.Unlock()
		}
		a.arps[i+1] = end.resp
		r.arp[name] = end
		if vNdpIf != nil {
			c1, c2, addr, err := ndp.TestConns(vNdpIf)
			kit.Must(err)
			ne := &vNdpEnd{intf: name, mac: mac, peer: c2, addr: addr}
			ne.resp = &ndpResponder{logger: log.NewNopLogger(), intf: name, hardwareAddr: mac, conn: c1,
				closed: make(chan struct{}), announce: a.shouldAnnounce, solicitedNodeGroups: map[string]int64{}}
			a.ndps[i+1] = ne.resp
			r.ndp[name] = ne
		}
	}
	return r
}

func (r *vRig) close() {
	for _, e := range r.arp {
		e.resp.Close()
	}
	for _, e := range r.ndp {
		e.resp.Close()
		e.peer.Close()
	}
}

// ask pushes one ARP frame through the real arpResponder.processRequest.  dst names the
// destination of the Ethernet frame, tha the target hardware address inside the ARP packet
// (independent of each other; "" = the same as the Ethernet destination).
func (e *vArpEnd) ask(aop, dst, tha string, target net.IP) string {
	op := arp.OperationRequest
	switch aop {
	case "reply":
		op = arp.OperationReply
	case "other":
		op = arp.Operation(3)
	}
	dmac := e.mac
	switch dst {
	case "bcast":
		dmac = ethernet.Broadcast
	case "other":
		dmac = vOtherMAC
	case "near": // another station whose address differs from ours in the last byte only
		dmac = append(net.HardwareAddr{}, e.mac...)
		dmac[5] ^= 0x10
	}
	tmac := dmac
	switch tha {
	case "zero": // ordinary requests and Linux' unicast re-validation probes
		tmac = net.HardwareAddr{0, 0, 0, 0, 0, 0}
	case "self":
		tmac = e.mac
	case "other":
		tmac = vOtherMAC
	}
	pkt, err := arp.NewPacket(op, vReqMAC, vReqIP, tmac, target)
	kit.Must(err)
	pb, _ := pkt.MarshalBinary()
	fb, _ := (&ethernet.Frame{Destination: dmac, Source: vReqMAC, EtherType: ethernet.EtherTypeARP, Payload: pb}).MarshalBinary()
	e.mu.Lock()
	e.replies = nil
	e.mu.Unlock()
	e.conn.Push(fb)
	reason := e.resp.processRequest()
	e.mu.Lock()
	got := e.replies
	e.replies = nil
	e.mu.Unlock()
	good := len(got) == 1 && got[0].Operation == arp.OperationReply && got[0].SenderIP.Equal(target) &&
		bytes.Equal(got[0].SenderHardwareAddr, e.mac) && bytes.Equal(got[0].TargetHardwareAddr, vReqMAC)
	switch {
	case reason == dropReasonNone && good:
		return "reply"
	case reason == dropReasonNone && len(got) == 0:
		return "noneNoReply"
	case reason == dropReasonNone:
		return "noneBadReply"
	case len(got) > 0:
		return vReason(reason) + "+reply"
	}
	return vReason(reason)
}

// ask sends one NDP message from the peer connection and lets the real
// ndpResponder.processRequest handle it.  stray > 0: when the responder says it dropped the
// message, wait that long for a neighbor advertisement that should not come.
func (e *vNdpEnd) ask(kind string, target net.IP, stray time.Duration) string {
	var m ndp.Message
	switch kind {
	case "ns":
		m = &ndp.NeighborSolicitation{TargetAddress: target,
			Options: []ndp.Option{&ndp.LinkLayerAddress{Direction: ndp.Source, Addr: vReqMAC}}}
	case "ns2": // the source option is not the first option
		m = &ndp.NeighborSolicitation{TargetAddress: target,
			Options: []ndp.Option{&ndp.LinkLayerAddress{Direction: ndp.Target, Addr: vOtherMAC},
				&ndp.LinkLayerAddress{Direction: ndp.Source, Addr: vReqMAC}}}
	case "nsNoLL":
		m = &ndp.NeighborSolicitation{TargetAddress: target,
			Options: []ndp.Option{&ndp.LinkLayerAddress{Direction: ndp.Target, Addr: vReqMAC}}}
	default:
		m = &ndp.NeighborAdvertisement{TargetAddress: target, Solicited: true,
			Options: []ndp.Option{&ndp.LinkLayerAddress{Direction: ndp.Target, Addr: vReqMAC}}}
	}
	if err := e.peer.WriteTo(m, nil, e.addr); err != nil {
		return "sendError"
	}
	e.resp.conn.SetReadDeadline(time.Now().Add(5 * time.Second))
	reason := e.resp.processRequest()
	wait := stray
	if reason == dropReasonNone {
		wait = 2 * time.Second
	}
	got := 0
	good := false
	if wait > 0 {
		e.peer.SetReadDeadline(time.Now().Add(wait))
		rm, _, _, err := e.peer.ReadFrom()
		if err == nil {
			got = 1
			if na, ok := rm.(*ndp.NeighborAdvertisement); ok && na.Solicited && na.TargetAddress.Equal(target) {
				for _, o := range na.Options {
					if l, ok := o.(*ndp.LinkLayerAddress); ok && l.Direction == ndp.Target && bytes.Equal(l.Addr, e.mac) {
						good = true
					}
				}
			}
		}
	}
	switch {
	case reason == dropReasonNone && good:
		return "reply"
	case reason == dropReasonNone && got == 0:
		return "noneNoReply"
	case reason == dropReasonNone:
		return "noneBadReply"
	case got > 0:
		return vReason(reason) + "+reply"
	}
	return vReason(reason)
}

// ---------------------------------------------------------------- projection

type vCnt struct {
	Ip int `json:"ip"`
	N  int `json:"n"`
}

type vGrp struct {
	R string `json:"r"`
	G int    `json:"g"`
	N int    `json:"n"`
}

func (r *vRig) project(svcs []string) (map[string][]vAdv, []vCnt, []vGrp) {
	a := r.a
	a.RLock()
	defer a.RUnlock()
	ips := map[string][]vAdv{}
	for _, s := range svcs {
		ips[s] = []vAdv{}
	}
	for name, advs := range a.ips {
		l := []vAdv{}
		for _, x := range advs {
			l = append(l, vAdvOf(x))
		}
		ips[name] = l
	}
	cnt := []vCnt{}
	for k, n := range a.ipRefcnt {
		cnt = append(cnt, vCnt{Ip: kit.AnnAbs(net.ParseIP(k)), N: n})
	}
	sort.Slice(cnt, func(i, j int) bool { return cnt[i].Ip < cnt[j].Ip })
	grp := []vGrp{}
	for _, n := range r.resp {
		e := r.ndp[n]
		if e == nil {
			continue
		}
		for g, c := range e.resp.solicitedNodeGroups {
			ag, ok := vGroupOf[g]
			if !ok {
				ag = 999
			}
			grp = append(grp, vGrp{R: n, G: ag, N: int(c)})
		}
	}
	sort.Slice(grp, func(i, j int) bool {
		if grp[i].R != grp[j].R {
			return grp[i].R < grp[j].R
		}
		return grp[i].G < grp[j].G
	})
	return ips, cnt, grp
}

func (r *vRig) drainSpam() []vAdv {
	out := []vAdv{}
	for {
		select {
		case x := <-r.a.spamCh:
			out = append(out, vAdvOf(x))
		default:
			return out
		}
	}
}

// vGratCount reads metallb_layer2_gratuitous_sent{ip} through a private registry (the metric
// types of client_model are used without importing the package: an import of an indirect
// dependency would make the go tool rewrite /repo/go.mod).
var (
	vRegOnce sync.Once
	vReg     *prometheus.Registry
)

func vGratCount(ip net.IP) int {
	vRegOnce.Do(func() {
		vReg = prometheus.NewRegistry()
		vReg.MustRegister(stats.gratuitous)
	})
	mfs, err := vReg.Gather()
	if err != nil {
		return -1
	}
	for _, mf := range mfs {
		for _, m := range mf.GetMetric() {
			for _, l := range m.GetLabel() {
				if l.GetName() == "ip" && l.GetValue() == ip.String() {
					return int(m.GetCounter().GetValue())
				}
			}
		}
	}
	return 0
}

// ---------------------------------------------------------------- sequential replay

type vQ struct {
	Ip   int    `json:"ip"`
	Intf string `json:"intf"`
	Res  string `json:"res"`
}

type vAQ struct {
	Ip   int    `json:"ip"`
	Intf string `json:"intf"`
	Dst  string `json:"dst"`
	Tha  string `json:"tha"`
	Res  string `json:"res"`
}

// the ARP part of the battery: a unicast probe with a zero target hardware address, an ordinary
// broadcast request, and a frame for another station that names the node inside the packet
var vArpBattery = [][2]string{{"self", "zero"}, {"bcast", "zero"}, {"other", "self"}}

type vFrame struct {
	Intf string `json:"intf"`
	Ip   int    `json:"ip"`
	N    int    `json:"n"`
}

type vObs struct {
	W      string            `json:"w"`
	I      int               `json:"i"`
	Act    json.RawMessage   `json:"act"`
	Panic  string            `json:"panic"`
	Ips    map[string][]vAdv `json:"ips"`
	Refcnt []vCnt            `json:"refcnt"`
	Groups []vGrp            `json:"groups"`
	Ndp    bool              `json:"ndp"`
	Spam   []vAdv            `json:"spam"`
	Res    string            `json:"res"`
	Frames []vFrame          `json:"frames"`
	Gstat  int               `json:"gstat"`
	Q      []vQ              `json:"q"`
	Arpq   []vAQ             `json:"arpq"`
	Ndpq   []vQ              `json:"ndpq"`
}

// the statistics counter of gratuitous announcements is global: steps that read it are serialised
var vGratMu sync.Mutex

const vStray = 400 * time.Microsecond

func vStep(r *vRig, act vAct, o *vObs) {
	defer func() {
		if p := recover(); p != nil {
			o.Panic = fmt.Sprint(p)
		}
	}()
	switch act.Op {
	case "Set":
		r.a.SetBalancer(act.S, act.Adv.real())
	case "Del":
		r.a.DeleteBalancer(act.S)
	case "Grat":
		vGratMu.Lock()
		defer vGratMu.Unlock()
		var mu sync.Mutex
		n := map[string]int{}
		r.onGrat = func(_ int64, intf string, ip int) {
			mu.Lock()
			n[fmt.Sprintf("%s %d", intf, ip)]++
			mu.Unlock()
		}
		ip := kit.AnnIP(act.Adv.Ip)
		before := vGratCount(ip)
		r.a.gratuitous(act.Adv.real())
		o.Gstat = vGratCount(ip) - before
		r.onGrat = nil
		for k, c := range n {
			var f vFrame
			fmt.Sscanf(k, "%s %d", &f.Intf, &f.Ip)
			f.N = c
			o.Frames = append(o.Frames, f)
		}
		sort.Slice(o.Frames, func(i, j int) bool {
			if o.Frames[i].Intf != o.Frames[j].Intf {
				return o.Frames[i].Intf < o.Frames[j].Intf
			}
			return o.Frames[i].Ip < o.Frames[j].Ip
		})
	case "Arp":
		o.Res = r.arp[act.Intf].ask(act.Aop, act.Dst, act.Tha, kit.AnnIP(act.Target))
	case "Ndp":
		if e := r.ndp[act.Intf]; e != nil {
			o.Res = e.ask(act.Kind, kit.AnnIP(act.Target), vStray)
		} else {
			o.Res = "absent"
		}
	case "Init":
	default:
		panic("unknown op " + act.Op)
	}
}

func vBattery(r *vRig, in *vInit, o *vObs) {
	defer func() {
		if p := recover(); p != nil {
			o.Panic += " battery: " + fmt.Sprint(p)
		}
	}()
	all := append(append([]int{}, in.Ips...), in.Foreign...)
	for _, ip := range all {
		for _, f := range in.Intfs {
			o.Q = append(o.Q, vQ{Ip: ip, Intf: f, Res: vReason(r.a.shouldAnnounce(kit.AnnIP(ip), f))})
		}
	}
	for _, n := range r.resp {
		for _, ip := range all {
			if ip < 100 {
				for _, c := range vArpBattery {
					o.Arpq = append(o.Arpq, vAQ{Ip: ip, Intf: n, Dst: c[0], Tha: c[1],
						Res: r.arp[n].ask("request", c[0], c[1], kit.AnnIP(ip))})
				}
			} else if e := r.ndp[n]; e != nil {
				o.Ndpq = append(o.Ndpq, vQ{Ip: ip, Intf: n, Res: e.ask("ns", kit.AnnIP(ip), vStray)})
			}
		}
	}
}

func vReplayWalk(w kit.Walk, b *kit.Block) {
	var in vInit
	kit.Must(json.Unmarshal(w.Init, &in))
	r := vNewRig(in.Resp)
	defer r.close()
	steps := append([]json.RawMessage{json.RawMessage(`{"op":"Init"}`)}, w.Steps...)
	for i, raw := range steps {
		act := vAct{Adv: vNoAdv()}
		kit.Must(json.Unmarshal(raw, &act))
		if act.Adv.Ifs == nil {
			act.Adv.Ifs = []string{}
		}
		o := &vObs{W: w.ID, I: i, Act: raw, Ndp: vNdpIf != nil, Frames: []vFrame{}, Q: []vQ{}, Arpq: []vAQ{}, Ndpq: []vQ{}}
		vStep(r, act, o)
		o.Spam = r.drainSpam()
		o.Ips, o.Refcnt, o.Groups = r.project(in.Svcs)
		vBattery(r, &in, o)
		b.Add(o)
	}
}

func TestVerifAnnouncerReplay(t *testing.T) {
	walks := kit.ReadWalks()
	out := kit.NewObsWriter()
	defer out.Close()
	kit.ForEachWalk(walks, out, vReplayWalk)
	t.Logf("replayed %d walks, %d observations, ndp=%v", len(walks), out.N, vNdpIf != nil)
}

// ---------------------------------------------------------------- concurrent histories

type vEv struct {
	W      string `json:"w"`
	K      int    `json:"k"`
	N      int    `json:"n"`
	Last   bool   `json:"last"`
	Ph     string `json:"ph"` // B, E, F
	C      int    `json:"c"`
	G      string `json:"g"`
	Seq    int64  `json:"seq"`
	Op     string `json:"op"` // Set Del Q Arp Ndp G F
	S      string `json:"s"`
	Adv    vAdv   `json:"adv"`
	Ip     int    `json:"ip"`
	Intf   string `json:"intf"`
	Aop    string `json:"aop"`
	Dst    string `json:"dst"`
	Tha    string `json:"tha"`
	Nk     string `json:"nk"`
	Res    string `json:"res"`
	Refcnt []vCnt `json:"refcnt"`
	b, e   int64
}

func vBlankEv(g, op string) vEv {
	return vEv{G: g, Op: op, Adv: vNoAdv(), Ip: -1, Refcnt: []vCnt{}}
}

func vCall(ev *vEv, f func() string) {
	defer func() {
		if p := recover(); p != nil {
			ev.Res = "panic: " + fmt.Sprint(p)
			ev.e = kit.NextSeq()
		}
	}()
	ev.b = kit.NextSeq()
	ev.Res = f()
	ev.e = kit.NextSeq()
}

// vQuery executes one item of a query goroutine's load on the goroutine's own responders.
func vQuery(r *vRig, j int, it vItem, stray time.Duration) vEv {
	intf := r.resp[j%len(r.resp)]
	ev := vBlankEv(fmt.Sprintf("q%d", j+1), it.K)
	ev.Ip = it.Ip
	useArp := j < 2
	switch {
	case it.K == "Arp" && useArp && it.Ip < 100:
		ev.Intf, ev.Aop, ev.Dst, ev.Tha = intf, it.Aop, it.Dst, it.Tha
		vCall(&ev, func() string { return r.arp[intf].ask(it.Aop, it.Dst, it.Tha, kit.AnnIP(it.Ip)) })
	case it.K == "Ndp" && !useArp && it.Ip >= 100 && r.ndp[intf] != nil:
		ev.Intf, ev.Nk = intf, it.Nk
		vCall(&ev, func() string { return r.ndp[intf].ask(it.Nk, kit.AnnIP(it.Ip), stray) })
	default:
		ev.Op = "Q"
		ev.Intf = it.Intf
		if ev.Intf == "" {
			ev.Intf = intf
		}
		vCall(&ev, func() string { return vReason(r.a.shouldAnnounce(kit.AnnIP(it.Ip), ev.Intf)) })
	}
	return ev
}

func vRunHistory(w kit.Walk, b *kit.Block) {
	var in vInit
	kit.Must(json.Unmarshal(w.Init, &in))
	r := vNewRig(in.Resp)
	defer r.close()
	var open atomic.Bool
	var fmu sync.Mutex
	frames := []vEv{}
	r.onGrat = func(seq int64, intf string, ip int) {
		if !open.Load() {
			return
		}
		ev := vBlankEv("spam", "F")
		ev.Ph, ev.Seq, ev.Intf, ev.Ip = "F", seq, intf, ip
		fmu.Lock()
		frames = append(frames, ev)
		fmu.Unlock()
	}
	open.Store(true)
	go r.a.spamLoop()

	nq := len(in.Load.Q)
	logs := make([][]vEv, nq+2)
	start := make(chan struct{})
	var wg sync.WaitGroup
	// the updater
	wg.Add(1)
	go func() {
		defer wg.Done()
		<-start
		for n, raw := range w.Steps {
			act := vAct{Adv: vNoAdv()}
			kit.Must(json.Unmarshal(raw, &act))
			if act.Adv.Ifs == nil {
				act.Adv.Ifs = []string{}
			}
			if len(in.Load.Gaps) > 0 {
				vSpin(in.Load.Gaps[n%len(in.Load.Gaps)])
			}
			ev := vBlankEv("u", act.Op)
			ev.S, ev.Adv = act.S, act.Adv
			vCall(&ev, func() string {
				switch act.Op {
				case "Set":
					r.a.SetBalancer(act.S, act.Adv.real())
				case "Del":
					r.a.DeleteBalancer(act.S)
				default:
					panic("update op " + act.Op)
				}
				_, ev.Refcnt, _ = r.project(nil)
				return "ok"
			})
			logs[0] = append(logs[0], ev)
		}
	}()
	// the query goroutines
	for j := 0; j < nq; j++ {
		wg.Add(1)
		go func(j int) {
			defer wg.Done()
			<-start
			for _, it := range in.Load.Q[j] {
				logs[1+j] = append(logs[1+j], vQuery(r, j, it, 0))
			}
		}(j)
	}
	// direct calls of gratuitous(), next to the real spam loop
	wg.Add(1)
	go func() {
		defer wg.Done()
		<-start
		for _, adv := range in.Load.G {
			ev := vBlankEv("g", "G")
			ev.Adv = adv
			if ev.Adv.Ifs == nil {
				ev.Adv.Ifs = []string{}
			}
			vCall(&ev, func() string { r.a.gratuitous(adv.real()); return "ok" })
			logs[1+nq] = append(logs[1+nq], ev)
		}
	}()
	close(start)
	wg.Wait()
	vSpin(in.Load.Tail)
	// let the spam loop handle what SetBalancer queued (its first gratuitous per address is immediate)
	for i := 0; i < 200 && len(r.a.spamCh) > 0; i++ {
		time.Sleep(100 * time.Microsecond)
	}
	time.Sleep(200 * time.Microsecond)
	open.Store(false)

	evs := []vEv{}
	c := 0
	for _, l := range logs {
		for _, ev := range l {
			c++
			ev.C = c
			bev, eev := ev, ev
			bev.Ph, bev.Seq = "B", ev.b
			eev.Ph, eev.Seq = "E", ev.e
			evs = append(evs, bev, eev)
		}
	}
	fmu.Lock()
	evs = append(evs, frames...)
	fmu.Unlock()
	sort.Slice(evs, func(i, j int) bool { return evs[i].Seq < evs[j].Seq })
	for k := range evs {
		evs[k].W, evs[k].K, evs[k].N, evs[k].Last = w.ID, k, len(evs), k == len(evs)-1
		b.Add(evs[k])
	}
}

func TestVerifAnnouncerConc(t *testing.T) {
	walks := kit.ReadWalks()
	out := kit.NewObsWriter()
	defer out.Close()
	if os.Getenv("VERIF_PAR") == "" {
		os.Setenv("VERIF_PAR", "3")
	}
	kit.ForEachWalk(walks, out, vRunHistory)
	t.Logf("ran %d histories, %d events, ndp=%v", len(walks), out.N, vNdpIf != nil)
}

// TestVerifAnnouncerStress: the same load without any logging or sequence numbers (which would
// add happens-before edges between the goroutines), for the race detector alone.
func TestVerifAnnouncerStress(t *testing.T) {
	walks := kit.ReadWalks()
	if len(walks) == 0 {
		t.Fatal("no scenarios")
	}
	var in vInit
	kit.Must(json.Unmarshal(walks[0].Init, &in))
	r := vNewRig(in.Resp)
	defer r.close()
	go r.a.spamLoop()
	var stop atomic.Bool
	var wg sync.WaitGroup
	nq := len(in.Load.Q)
	for j := 0; j < nq; j++ {
		wg.Add(1)
		go func(j int) {
			defer wg.Done()
			for n := 0; !stop.Load(); n++ {
				w := walks[n%len(walks)]
				var wi vInit
				if json.Unmarshal(w.Init, &wi) != nil || j >= len(wi.Load.Q) {
					continue
				}
				for _, it := range wi.Load.Q[j] {
					vQuery(r, j, it, 0)
				}
			}
		}(j)
	}
	wg.Add(1)
	go func() {
		defer wg.Done()
		for n := 0; !stop.Load(); n++ {
			for _, adv := range in.Load.G {
				r.a.gratuitous(adv.real())
			}
		}
	}()
	rounds := 3
	updates := 0
	for k := 0; k < rounds; k++ {
		for _, w := range walks {
			for _, raw := range w.Steps {
				act := vAct{Adv: vNoAdv()}
				kit.Must(json.Unmarshal(raw, &act))
				switch act.Op {
				case "Set":
					r.a.SetBalancer(act.S, act.Adv.real())
				case "Del":
					r.a.DeleteBalancer(act.S)
				}
				updates++
			}
			r.a.AnnounceName("s1")
		}
	}
	stop.Store(true)
	wg.Wait()
	t.Logf("stress: %d updates against %d query goroutines", updates, nq)
}
