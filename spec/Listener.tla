------------------------------ MODULE Listener ------------------------------
(***************************************************************************)
(* C20 - event handlers are atomic.                                         *)
(*                                                                         *)
(* internal/k8s/listener.go puts one mutex around ServiceChanged /          *)
(* PoolChanged / ConfigChanged / NodeChanged.  The sequential meaning of    *)
(* events delivered concurrently by the independent reconcilers is          *)
(* therefore: the handlers' sequential operators applied in LOCK ORDER.     *)
(*                                                                         *)
(* Controller side: the operators are those of Controller.tla / Alloc.tla   *)
(*   ServiceEvent(s, o)  |->  Handle(L, al, s, o)       (controller.SetBalancer) *)
(*   PoolEvent(L2)       |->  SetPoolsRes(L2, al)       (controller.SetPools)    *)
(* on the state [L, al] (layout loaded, allocator memory).  The status      *)
(* fetcher CountersForPool is an atomic read of one pool's counters, which  *)
(* are a derived map of [L, al] (Ctr below).                                *)
(*                                                                         *)
(* Speaker side: the handlers are not re-modelled here; their sequential    *)
(* meaning is taken from a serial re-execution on a fresh real instance     *)
(* (ListenerTrace compares the two logs).  This module carries the event    *)
(* alphabet of both sides (printed by ListenerDump for the Go harness).     *)
(***************************************************************************)
EXTENDS Controller

(* ---- controller side: state and events -------------------------------- *)
NILPOOLS == "nil"      \* a PoolEvent carrying no pools (rejected by SetPools)

CtlState(L, al) == [L |-> L, al |-> al]
CtlInit(S) == CtlState(NOCFG, [s \in S |-> NULL])

(* outcomes of one event applied to state st: set of [st, res, write, status, ann] *)
SvcEvt(st, s, o) ==
  { [st |-> CtlState(st.L, h.al), res |-> h.res, write |-> h.write, status |-> h.status, ann |-> h.ann]
    : h \in Handle(st.L, st.al, s, o) }

PoolEvt(st, L2) ==
  IF L2 = NILPOOLS
  THEN {[st |-> st, res |-> "ErrorNoRetry", write |-> FALSE, status |-> <<>>, ann |-> ""]}
  ELSE {[st |-> CtlState(L2, SetPoolsRes(L2, st.al)), res |-> "ReprocessAll", write |-> FALSE,
         status |-> <<>>, ann |-> ""]}

(* ev: [k |-> "svc", s, o]  |  [k |-> "pool", layout] *)
Outcomes(st, ev) == IF ev.k = "svc" THEN SvcEvt(st, ev.s, ev.o) ELSE PoolEvt(st, ev.layout)

(* ---- pool counters: <<assigned v4, assigned v6, available v4, available v6>> *)
AllPoolNames == UNION {PoolNames(L) : L \in LayoutNames}
ZeroCtr == <<0, 0, 0, 0>>
Ctr(L, al, pn) ==
  IF L = NOCFG THEN ZeroCtr
  ELSE IF ~HasPool(L, pn) THEN ZeroCtr
  ELSE LET p  == PoolNamed(L, pn)
           a4 == Cardinality(DPoolUse(al, pn, "v4"))
           a6 == Cardinality(DPoolUse(al, pn, "v6"))
       IN <<a4, a6, PoolCountFam(p, "v4") - a4, PoolCountFam(p, "v6") - a6>>
Counters(st) == [pn \in AllPoolNames |-> Ctr(st.L, st.al, pn)]

(* ---- event alphabet of the controller side (harness input domain) ------ *)
LSp(type, fam, pol, share, ports, etp, sel, reqIPs, reqPool) ==
  [type |-> type, fam |-> fam, pol |-> pol, v6first |-> FALSE, cips |-> TRUE, share |-> share, ports |-> ports,
   etp |-> etp, sel |-> sel, reqIPs |-> reqIPs, reqPool |-> reqPool, dep |-> FALSE, legacy |-> "", bad |-> FALSE]
LPlain == LSp("LB", "v4", "S", "", {"tcp80"}, "Cluster", "x", <<>>, "")

CtlSpecs ==
  { LSp("LB", "v4", "S", sk, p, "Cluster", "x", <<>>, "") : sk \in {"", "k1"}, p \in {{"tcp80"}, {"tcp443"}} }
  \cup { LSp("LB", "v4", "S", "k1", {"tcp80"}, "Local", "x", <<>>, ""),
         LSp("LB", "v4", "S", "k1", {"tcp443"}, "Local", "y", <<>>, ""),
         LSp("CIP", "v4", "S", "", {"tcp80"}, "Cluster", "x", <<>>, ""),
         LSp("LB", "v4", "S", "", {"tcp80"}, "Cluster", "x", <<0>>, ""),
         LSp("LB", "v4", "S", "", {"tcp80"}, "Cluster", "x", <<1>>, ""),
         LSp("LB", "v4", "S", "k1", {"udp80"}, "Cluster", "x", <<1>>, ""),
         LSp("LB", "v4", "S", "", {"tcp80"}, "Cluster", "x", <<>>, "p2"),
         LSp("LB", "v6", "S", "", {"tcp80"}, "Cluster", "x", <<>>, ""),
         LSp("LB", "dual", "R", "", {"tcp80"}, "Cluster", "x", <<>>, ""),
         LSp("LB", "dual", "P", "", {"tcp80"}, "Cluster", "x", <<>>, ""),
         LSp("LB", "v4", "P", "", {"tcp80"}, "Cluster", "x", <<>>, ""),
         [LPlain EXCEPT !.bad = TRUE],
         [LSp("LB", "v4", "S", "k1", {"tcp443"}, "Cluster", "x", <<>>, "") EXCEPT !.dep = TRUE] }
CtlLayouts == {"One", "Two", "TwoRen", "TwoSplit", "TwoPlus", "Dual", "Mixed", "A", "Asplit"}
CtlSvcs == {"s1", "s2", "s3", "s4"}

(* ---- event alphabet of the speaker side -------------------------------- *)
(* A configuration: pools (blocks of Domain.tla, BGP and layer-2             *)
(* advertisements with the nodes they apply to) and BGP peers (sel = ""      *)
(* every node, else a node label "k=v").  Interface names if0 / if1 are      *)
(* concretised by the harness.                                              *)
BAdv(agg4, agg6, lp, peers, nodes) == [agg4 |-> agg4, agg6 |-> agg6, lp |-> lp, peers |-> peers, nodes |-> nodes]
LAdv(nodes, all, ifs) == [nodes |-> nodes, all |-> all, ifs |-> ifs]
SPool(name, blocks, bgp, l2) == [name |-> name, cidrs |-> [i \in 1..Len(blocks) |-> Blk[blocks[i]].cidr], bgp |-> bgp, l2 |-> l2]
SPeer(name, addr, sel) == [name |-> name, addr |-> addr, sel |-> sel]
BothNodes == {"n1", "n2"}

SpkConfigs == [
  c1 |-> [pools |-> << SPool("p1", <<"b01", "v01">>, << BAdv(32, 128, 100, <<>>, BothNodes) >>, << LAdv(BothNodes, TRUE, <<>>) >>),
                       SPool("p2", <<"b23">>, << BAdv(32, 128, 0, <<"peerA">>, {"n1"}) >>, << LAdv({"n1"}, FALSE, <<"if0">>) >>) >>,
          peers |-> << SPeer("peerA", "10.0.0.1", ""), SPeer("peerB", "10.0.0.2", "rack=a") >>],
  c2 |-> [pools |-> << SPool("p1", <<"b01", "v01">>, << BAdv(31, 127, 100, <<"peerB">>, BothNodes), BAdv(32, 128, 50, <<>>, {"n1"}) >>,
                             << LAdv({"n1"}, FALSE, <<"if0", "if1">>) >>),
                       SPool("p2", <<"b23">>, << BAdv(32, 128, 0, <<>>, BothNodes) >>, << LAdv(BothNodes, FALSE, <<"if1">>) >>) >>,
          peers |-> << SPeer("peerA", "10.0.0.1", ""), SPeer("peerB", "10.0.0.2", ""), SPeer("peerC", "10.0.0.3", "rack=b") >>],
  c3 |-> [pools |-> << SPool("p1", <<"b01", "v01">>, << >>, << LAdv(BothNodes, TRUE, <<>>) >>),
                       SPool("p2", <<"b23">>, << BAdv(32, 128, 0, <<>>, {"n2"}) >>, << >>) >>,
          peers |-> << SPeer("peerB", "10.0.0.2", "rack=a") >>],
  c4 |-> [pools |-> << SPool("p2", <<"b23">>, << BAdv(32, 128, 0, <<>>, BothNodes) >>, << LAdv(BothNodes, TRUE, <<>>) >>) >>,
          peers |-> << SPeer("peerA", "10.0.0.1", "") >>],
  c5 |-> [pools |-> << SPool("p1", <<"b01", "v01", "b23">>, << BAdv(32, 128, 0, <<>>, BothNodes) >>, << LAdv(BothNodes, TRUE, <<>>) >>) >>,
          peers |-> << >>]
]

(* node objects: name, labels rack, NetworkUnavailable condition, exclude-from-external-load-balancers label *)
SpkNodes ==
  { [name |-> n, rack |-> r, unavail |-> u, excl |-> x] :
      n \in BothNodes, r \in {"a", "b"}, u \in BOOLEAN, x \in BOOLEAN }

(* service objects as the speaker sees them: type, traffic policy, assigned addresses, endpoints *)
SpkEps == { << >>, << [node |-> "n1", ready |-> TRUE] >>, << [node |-> "n2", ready |-> TRUE] >>,
            << [node |-> "n1", ready |-> TRUE], [node |-> "n2", ready |-> TRUE] >>,
            << [node |-> "n1", ready |-> FALSE], [node |-> "n2", ready |-> TRUE] >> }
SpkSvcObjs ==
  { [type |-> ty, etp |-> etp, ips |-> ips, eps |-> eps] :
      ty \in {"LB"}, etp \in {"Cluster", "Local"},
      ips \in { <<>>, <<0>>, <<1>>, <<3>>, <<0, 100>>, <<1, 101>>, <<100>> }, eps \in SpkEps }
  \cup { [type |-> "CIP", etp |-> "Cluster", ips |-> <<>>, eps |-> << [node |-> "n1", ready |-> TRUE] >>] }
SpkSvcs == {"s1", "s2", "s3", "s4"}

=============================================================================
