----------------------------- MODULE AnnouncerMC -----------------------------
(***************************************************************************)
(* State machine over the announcer's entry points: role A (TLC checks the  *)
(* C13 relations between the code-level memory `st` and the announced set   *)
(* `ann`) and role B (every generated transition is printed as one JSON     *)
(* line (pre, act, post) for replay on the real layer2.Announce).  `act`    *)
(* is the stimulus of the step just taken (with the model's expected        *)
(* result in `exp`, advisory); it is not part of the VIEW.                  *)
(***************************************************************************)
EXTENDS Announcer, Json

CONSTANTS Svcs,       \* service names
          Ips,        \* abstract addresses that can be announced
          Scopes,     \* [all, ifs] records
          Intfs,      \* interfaces a query may name
          Resp,       \* interfaces that have an ARP and an NDP responder
          Acts,       \* which actions this configuration takes: subset of {"Set","Del","Grat","Arp","Ndp"}
          ArpOps, ArpDsts, ArpThas, ArpTargets, NdpKinds, NdpTargets,
          MaxOps      \* bound on the length of a behaviour (0 = unbounded)

VARIABLES st, ann, act, nops

vars == <<st, ann, act, nops>>
View == <<st, ann>>

Advs == {MkAdv(a, sc) : a \in Ips, sc \in Scopes}

StateRec(x) == [ips |-> x.ips]

Init == /\ st = EmptyState(Svcs, Ips)
        /\ ann = {}
        /\ act = [op |-> "Init"]
        /\ nops = 0
        /\ PrintT(ToJson([init |-> StateRec(st)]))

Tick == nops' = IF MaxOps = 0 THEN 0 ELSE nops + 1
Bound == MaxOps = 0 \/ nops < MaxOps

DoSet(s, adv) ==
  /\ "Set" \in Acts
  /\ st' = SetRes(st, s, adv)
  /\ ann' = AnnSet(ann, s, adv)
  /\ act' = [op |-> "Set", s |-> s, adv |-> adv]

DoDel(s) ==
  /\ "Del" \in Acts
  /\ st' = DelRes(st, s)
  /\ ann' = AnnDel(ann, s)
  /\ act' = [op |-> "Del", s |-> s]

(* the spam loop may call gratuitous() with any advertisement it was ever   *)
(* handed, held or not: always taken, the result says whether it sent       *)
DoGrat(adv) ==
  /\ "Grat" \in Acts
  /\ UNCHANGED <<st, ann>>
  /\ act' = [op |-> "Grat", adv |-> adv, exp |-> GratRes(st, adv, Resp)]

DoArp(o, d, h, t, r) ==
  /\ "Arp" \in Acts
  /\ UNCHANGED <<st, ann>>
  /\ act' = [op |-> "Arp", aop |-> o, dst |-> d, tha |-> h, target |-> t, intf |-> r, exp |-> ArpRes(st, o, d, h, t, r)]

DoNdp(k, t, r) ==
  /\ "Ndp" \in Acts
  /\ UNCHANGED <<st, ann>>
  /\ act' = [op |-> "Ndp", kind |-> k, target |-> t, intf |-> r, exp |-> NdpRes(st, k, t, r)]

Next == /\ Bound /\ Tick
        /\ \/ \E s \in Svcs, adv \in Advs : DoSet(s, adv)
           \/ \E s \in Svcs : DoDel(s)
           \/ \E adv \in Advs : DoGrat(adv)
           \/ \E o \in ArpOps, d \in ArpDsts, h \in ArpThas, t \in ArpTargets, r \in Resp : DoArp(o, d, h, t, r)
           \/ \E k \in NdpKinds, t \in NdpTargets, r \in Resp : DoNdp(k, t, r)

Spec == Init /\ [][Next]_vars

(* Role B: one JSON line per generated transition.                          *)
Emit == PrintT(ToJson([pre |-> StateRec(st), act |-> act', post |-> StateRec(st'), n |-> nops]))

----------------------------------------------------------------------------
(* Role A                                                                   *)
InvNoDupIp == NoDupIp(st)
InvRefcntExact == RefcntExact(st, ann, Ips)
InvAnswerIff == AnswerIff(st, ann, Ips \cup ArpTargets \cup NdpTargets, Intfs)
InvGratuitousOnlyHeld == GratuitousOnlyHeld(st, ann, Advs, Resp)
InvArpFilter == ArpFilter(st, ann, ArpOps, ArpDsts, ArpThas, ArpTargets, Resp)
InvGroupsExact == GroupsExact(st, ann, Ips)
(* after the last holder is withdrawn the address is neither answered nor   *)
(* announced; withdrawing one of several holders does not interrupt answers *)
(* -- both are instances of the three invariants above in the post-state;   *)
(* spelled out as an action property for the record                         *)
WithdrawStep ==
  [][\A a \in Ips, f \in Intfs :
        /\ (SpecHolds(ann', a, f) => QueryRes(st', a, f) = "none")
        /\ (~SpecHeld(ann', a) => /\ QueryRes(st', a, f) # "none"
                                  /\ \A sc \in Scopes : GratRes(st', MkAdv(a, sc), Resp) = {})]_vars

----------------------------------------------------------------------------
(* Catalogues                                                               *)
ScAll == [all |-> TRUE, ifs |-> {}]
ScIf1 == [all |-> FALSE, ifs |-> {"if1"}]
ScIf2 == [all |-> FALSE, ifs |-> {"if2"}]
ScNone == [all |-> FALSE, ifs |-> {}]
ScBoth == [all |-> FALSE, ifs |-> {"if1", "if2"}]
ScAllIf1 == [all |-> TRUE, ifs |-> {"if1"}]
Scopes3 == {ScAll, ScIf1, ScIf2}
Scopes4 == {ScAll, ScIf1, ScIf2, ScAllIf1}
Scopes6 == {ScAll, ScIf1, ScIf2, ScNone, ScBoth, ScAllIf1}

=============================================================================
