//go:build verif

package main

// Role B/C harness of the controller family (C01 status form, C02, C03, C06, C07): replays
// TLC-generated walks of spec/ControllerMC.tla against the real controller (SetBalancer /
// convergeBalancer / allocateIPs), the real allocator and the real ServiceReconciler.  The
// harness is the API server (objects with resource versions, conflicts, injected write faults),
// the informer cache and the work queue.  It logs; it does not judge.

import (
	"context"
	"encoding/json"
	"fmt"
	"math/rand"
	"os"
	"sort"
	"strconv"
	"strings"
	"testing"

	"github.com/go-kit/log"
	"go.universe.tf/metallb/internal/allocator"
	"go.universe.tf/metallb/internal/config"
	"go.universe.tf/metallb/internal/k8s/controllers"
	kit "go.universe.tf/metallb/internal/verifkit"
	v1 "k8s.io/api/core/v1"
	discovery "k8s.io/api/discovery/v1"
	apierrors "k8s.io/apimachinery/pkg/api/errors"
	metav1 "k8s.io/apimachinery/pkg/apis/meta/v1"
	"k8s.io/apimachinery/pkg/runtime/schema"
	"k8s.io/apimachinery/pkg/types"
	ctrl "sigs.k8s.io/controller-runtime"
	"sigs.k8s.io/controller-runtime/pkg/client"
	"sigs.k8s.io/controller-runtime/pkg/event"
)

type vSpec struct {
	Type    string   `json:"type"`
	Fam     string   `json:"fam"`
	Pol     string   `json:"pol"`
	V6first bool     `json:"v6first"`
	Cips    bool     `json:"cips"`
	Share   string   `json:"share"`
	Ports   []string `json:"ports"`
	Etp     string   `json:"etp"`
	Sel     string   `json:"sel"`
	ReqIPs  []int    `json:"reqIPs"`
	ReqPool string   `json:"reqPool"`
	Dep     bool     `json:"dep"`
	Legacy  string   `json:"legacy"`
	Bad     bool     `json:"bad"`
	Blank   bool     `json:"blank"`
}

type vAct struct {
	Op     string          `json:"op"`
	S      string          `json:"s"`
	Spec   json.RawMessage `json:"spec"`
	Layout string          `json:"layout"`
	W      string          `json:"w"`
}

type vInit struct {
	Layout string                     `json:"layout"`
	Svcs   map[string]json.RawMessage `json:"svcs"`
	Stale  bool                       `json:"stale"`
}

type vCrash struct{}

var vSvcGR = schema.GroupResource{Group: "", Resource: "services"}

// ---------------------------------------------------------------- concretisation

func vMakeService(s string, raw json.RawMessage) *v1.Service {
	var sp vSpec
	kit.Must(json.Unmarshal(raw, &sp))
	m := kit.Dom().SvcMeta[s]
	svc := &v1.Service{ObjectMeta: metav1.ObjectMeta{Name: s, Namespace: m.Ns, Labels: map[string]string{"app": m.Label}}}
	svc.Spec.Type = v1.ServiceTypeClusterIP
	if sp.Type == "LB" {
		svc.Spec.Type = v1.ServiceTypeLoadBalancer
	}
	pol := v1.IPFamilyPolicySingleStack
	switch sp.Pol {
	case "P":
		pol = v1.IPFamilyPolicyPreferDualStack
	case "R":
		pol = v1.IPFamilyPolicyRequireDualStack
	}
	svc.Spec.IPFamilyPolicy = &pol
	if sp.Cips {
		switch sp.Fam {
		case "v4":
			svc.Spec.ClusterIPs = []string{"10.96.0.10"}
			svc.Spec.IPFamilies = []v1.IPFamily{v1.IPv4Protocol}
		case "v6":
			svc.Spec.ClusterIPs = []string{"fd00:96::10"}
			svc.Spec.IPFamilies = []v1.IPFamily{v1.IPv6Protocol}
		default:
			if sp.V6first {
				svc.Spec.ClusterIPs = []string{"fd00:96::10", "10.96.0.10"}
				svc.Spec.IPFamilies = []v1.IPFamily{v1.IPv6Protocol, v1.IPv4Protocol}
			} else {
				svc.Spec.ClusterIPs = []string{"10.96.0.10", "fd00:96::10"}
				svc.Spec.IPFamilies = []v1.IPFamily{v1.IPv4Protocol, v1.IPv6Protocol}
			}
		}
		svc.Spec.ClusterIP = svc.Spec.ClusterIPs[0]
	}
	for _, p := range sp.Ports {
		proto, n := kit.ParsePort(p)
		svc.Spec.Ports = append(svc.Spec.Ports, v1.ServicePort{Name: p, Protocol: v1.Protocol(proto), Port: int32(n)})
	}
	svc.Spec.ExternalTrafficPolicy = v1.ServiceExternalTrafficPolicyTypeCluster
	if sp.Etp == "Local" {
		svc.Spec.ExternalTrafficPolicy = v1.ServiceExternalTrafficPolicyTypeLocal
	}
	if sp.Sel != "" {
		// "x+z" stands for the two-label selector {app: x, tier: z}
		if i := strings.IndexByte(sp.Sel, '+'); i >= 0 {
			svc.Spec.Selector = map[string]string{"app": sp.Sel[:i], "tier": sp.Sel[i+1:]}
		} else {
			svc.Spec.Selector = map[string]string{"app": sp.Sel}
		}
	}
	ann := map[string]string{}
	kShare, kIPs, kPool := AnnotationAllowSharedIP, AnnotationLoadBalancerIPs, AnnotationAddressPool
	if sp.Dep {
		kShare, kIPs, kPool = DeprecatedAnnotationAllowSharedIP, DeprecatedAnnotationLoadBalancerIPs, DeprecatedAnnotationAddressPool
	}
	if sp.Share != "" {
		ann[kShare] = sp.Share
	} else if sp.Blank {
		// sharing switched off by a present, empty stable annotation; a left-over deprecated one carries a key
		ann[AnnotationAllowSharedIP] = ""
		ann[DeprecatedAnnotationAllowSharedIP] = "k1"
	}
	if len(sp.ReqIPs) == 1 && !sp.Dep {
		svc.Spec.LoadBalancerIP = kit.IP(sp.ReqIPs[0]).String()
	} else if len(sp.ReqIPs) >= 1 {
		var l []string
		for _, a := range sp.ReqIPs {
			l = append(l, kit.IP(a).String())
		}
		ann[kIPs] = strings.Join(l, ",")
	}
	if sp.ReqPool != "" {
		ann[kPool] = sp.ReqPool
	}
	if sp.Legacy != "" {
		ann[DeprecatedAnnotationIPAllocateFromPool] = sp.Legacy
	}
	if sp.Bad {
		svc.Spec.LoadBalancerIP = "192.168.1.256"
	}
	if len(ann) > 0 {
		svc.Annotations = ann
	}
	return svc
}

// ---------------------------------------------------------------- the world

type vWorld struct {
	t       *testing.T
	id      string
	rnd     *rand.Rand
	stale   bool
	api     map[string]*v1.Service // by abstract name
	specs   map[string]json.RawMessage
	cache   map[string]*v1.Service
	rv      int
	cfgApi  string
	ctlName string // layout the controller loaded ("" = none)
	c       *controller
	r       *controllers.ServiceReconciler
	reloadC chan event.GenericEvent
	// work queue
	svcQ     map[string]bool
	reload   bool
	poolEvt  bool
	inPass   bool
	listFail bool
	// a pass the script does not know about (a reload request the model did not expect is pending)
	unscripted bool
	// fault injection for the next UpdateStatus
	fate string
	// log of the step being executed
	writes   []map[string]any
	lastRes  string
	panicMsg string
	fresh    bool
	crashes  int
	// script
	steps []json.RawMessage
	pos   int
	blk   *kit.Block
	nobs  int
}

// service interface of the controller (UpdateStatus, Infof, Errorf)
func (w *vWorld) UpdateStatus(svc *v1.Service) error {
	s := svc.Name
	fate := w.fate
	w.fate = "ok"
	rec := map[string]any{"s": s, "status": vStatus(svc), "ann": svc.Annotations[AnnotationIPAllocateFromPool], "fate": fate, "ok": false, "same": false}
	defer func() { w.writes = append(w.writes, rec) }()
	if fate == "fail" {
		return fmt.Errorf("injected write failure")
	}
	if fate == "crashBefore" {
		panic(vCrash{})
	}
	cur, ok := w.api[s]
	if !ok {
		if fate == "crashAfter" {
			panic(vCrash{})
		}
		return apierrors.NewNotFound(vSvcGR, s)
	}
	if svc.ResourceVersion != cur.ResourceVersion {
		if fate == "crashAfter" {
			panic(vCrash{})
		}
		return apierrors.NewConflict(vSvcGR, s, fmt.Errorf("resource version %s is not %s", svc.ResourceVersion, cur.ResourceVersion))
	}
	rec["same"] = vSameStatus(cur, svc)
	n := cur.DeepCopy()
	n.Status = *svc.Status.DeepCopy()
	n.Annotations = nil
	if svc.Annotations != nil {
		n.Annotations = map[string]string{}
		for k, v := range svc.Annotations {
			n.Annotations[k] = v
		}
	}
	w.setAPI(s, n)
	rec["ok"] = true
	if fate == "crashAfter" {
		panic(vCrash{})
	}
	return nil
}
func (w *vWorld) Infof(*v1.Service, string, string, ...interface{})  {}
func (w *vWorld) Errorf(*v1.Service, string, string, ...interface{}) {}

func vStatus(svc *v1.Service) []int {
	out := []int{}
	for _, in := range svc.Status.LoadBalancer.Ingress {
		out = append(out, kit.AbsStr(in.IP))
	}
	return out
}

func vSameStatus(a, b *v1.Service) bool {
	x, y := vStatus(a), vStatus(b)
	if len(x) != len(y) {
		return false
	}
	for i := range x {
		if x[i] != y[i] {
			return false
		}
	}
	return a.Annotations[AnnotationIPAllocateFromPool] == b.Annotations[AnnotationIPAllocateFromPool]
}

// setAPI installs a new version of s (nil = deleted) and lets the informer follow (no lag mode).
func (w *vWorld) setAPI(s string, n *v1.Service) {
	if n == nil {
		delete(w.api, s)
	} else {
		w.rv++
		n.ResourceVersion = strconv.Itoa(w.rv)
		w.api[s] = n
	}
	if !w.stale {
		w.syncCache(s)
	}
}

func (w *vWorld) syncCache(s string) {
	if cur, ok := w.api[s]; ok {
		w.cache[s] = cur.DeepCopy()
	} else {
		delete(w.cache, s)
	}
	w.svcQ[s] = true
}

// client.Client for the ServiceReconciler: reads come from the informer cache.
type vReader struct {
	client.Client
	w *vWorld
}

func (r vReader) Get(_ context.Context, key client.ObjectKey, obj client.Object, _ ...client.GetOption) error {
	svc, ok := obj.(*v1.Service)
	if !ok {
		return fmt.Errorf("unexpected Get of %T", obj)
	}
	cur, ok := r.w.cache[key.Name]
	if !ok || cur.Namespace != key.Namespace {
		return apierrors.NewNotFound(vSvcGR, key.Name)
	}
	cur.DeepCopyInto(svc)
	return nil
}

func (r vReader) List(_ context.Context, list client.ObjectList, _ ...client.ListOption) error {
	l, ok := list.(*v1.ServiceList)
	if !ok {
		return fmt.Errorf("unexpected List of %T", list)
	}
	if r.w.listFail {
		r.w.listFail = false
		return fmt.Errorf("verif: injected List failure")
	}
	names := kit.SortedKeys(r.w.cache)
	r.w.rnd.Shuffle(len(names), func(i, j int) { names[i], names[j] = names[j], names[i] })
	l.Items = nil
	for _, n := range names {
		l.Items = append(l.Items, *r.w.cache[n].DeepCopy())
	}
	return nil
}

func (w *vWorld) start() {
	w.c = &controller{ips: allocator.New(func(string) {}), client: w}
	w.reloadC = make(chan event.GenericEvent, 1024)
	w.r = &controllers.ServiceReconciler{
		Client: vReader{w: w}, Logger: log.NewNopLogger(), Reload: w.reloadC,
		Handler: w.handler,
	}
	w.ctlName = ""
	w.svcQ = map[string]bool{}
	for s := range w.api {
		w.cache[s] = w.api[s].DeepCopy()
		w.svcQ[s] = true
	}
	for s := range w.cache {
		if _, ok := w.api[s]; !ok {
			delete(w.cache, s)
		}
	}
	w.reload = false
	w.poolEvt = true
	w.inPass = false
	w.fate = "ok"
}

func (w *vWorld) drainReload() {
	for {
		select {
		case <-w.reloadC:
			w.reload = true
		default:
			return
		}
	}
}

// handler wraps the real controller.SetBalancer; inside a pass it first lets the script's
// environment steps that fall before this handler call happen.
func (w *vWorld) handler(l log.Logger, name string, svc *v1.Service, eps []discovery.EndpointSlice) controllers.SyncState {
	var cur json.RawMessage
	idx := -1
	if w.inPass && !w.unscripted {
		for w.pos < len(w.steps) {
			var a vAct
			kit.Must(json.Unmarshal(w.steps[w.pos], &a))
			if a.Op == "PassEnd" || a.Op == "PassBegin" || a.Op == "ReconcileOne" {
				// PassEnd: the real pass has more handler calls than the scripted one.  PassBegin /
				// ReconcileOne cannot happen inside a real pass (single worker): the script has left
				// the real run (e.g. a scripted crash did not happen because nothing was written);
				// the remaining handler calls of this pass run unscripted.
				break
			}
			raw := w.steps[w.pos]
			idx = w.pos
			w.pos++
			if a.Op == "PassStep" {
				if a.W != "" {
					w.fate = a.W
				}
				cur = raw
				break
			}
			w.exec(raw, a, idx)
			idx = -1
		}
	}
	// did the handler get the current version of the object (or a stale cache / snapshot copy)?
	w.fresh = true
	if cur, ok := w.api[kit.SvcOfKey(name)]; ok {
		w.fresh = svc != nil && svc.ResourceVersion == cur.ResourceVersion
	} else {
		w.fresh = svc == nil
	}
	res := w.c.SetBalancer(l, name, svc, eps)
	w.lastRes = vResName(res)
	if w.inPass {
		w.observe(idx, cur, "PassStep", kit.SvcOfKey(name), false)
	}
	return res
}

func vResName(r controllers.SyncState) string {
	switch r {
	case controllers.SyncStateSuccess:
		return "Success"
	case controllers.SyncStateError:
		return "Error"
	case controllers.SyncStateErrorNoRetry:
		return "ErrorNoRetry"
	case controllers.SyncStateReprocessAll:
		return "ReprocessAll"
	}
	return "?"
}

func (w *vWorld) loadPools() {
	cfg, err := config.For(config.ClusterResources{Pools: kit.PoolCRs(w.cfgApi), Namespaces: kit.Namespaces()}, config.DontValidate)
	if err != nil {
		w.t.Fatalf("layout %s rejected: %v", w.cfgApi, err)
	}
	res := w.c.SetPools(log.NewNopLogger(), cfg.Pools)
	w.ctlName = w.cfgApi
	if res == controllers.SyncStateReprocessAll {
		w.reload = true
	}
}

func (w *vWorld) crash() {
	w.crashes++
	w.start()
}

// runGuarded runs f and turns the sentinel panic of an injected crash into a restart.
func (w *vWorld) runGuarded(f func()) (crashed bool) {
	defer func() {
		if r := recover(); r != nil {
			if _, ok := r.(vCrash); ok {
				crashed = true
				w.crash()
				return
			}
			// a panic of the code under test: the process would die and be restarted
			w.panicMsg = fmt.Sprint(r)
			if len(w.panicMsg) > 200 {
				w.panicMsg = w.panicMsg[:200]
			}
			crashed = true
			w.crash()
		}
	}()
	f()
	return false
}

func (w *vWorld) exec(raw json.RawMessage, a vAct, idx int) {
	w.writes = nil
	w.lastRes = ""
	switch a.Op {
	case "UserPut":
		n := vMakeService(a.S, a.Spec)
		if cur, ok := w.api[a.S]; ok {
			n.Status = *cur.Status.DeepCopy()
			if p, ok := cur.Annotations[AnnotationIPAllocateFromPool]; ok {
				if n.Annotations == nil {
					n.Annotations = map[string]string{}
				}
				n.Annotations[AnnotationIPAllocateFromPool] = p
			}
		}
		w.specs[a.S] = a.Spec
		w.setAPI(a.S, n)
	case "UserDelete":
		delete(w.specs, a.S)
		w.setAPI(a.S, nil)
	case "UserLayout":
		w.cfgApi = a.Layout
		w.poolEvt = true
	case "Sync":
		w.syncCache(a.S)
	case "PoolReconcile":
		w.poolEvt = false
		if w.ctlName != w.cfgApi {
			if w.runGuarded(w.loadPools) {
				w.observe(idx, raw, a.Op, a.S, true)
				return
			}
		}
	case "Crash":
		if w.inPass {
			w.observe(idx, raw, a.Op, a.S, true)
			panic(vCrash{})
		}
		w.crash()
		w.observe(idx, raw, a.Op, a.S, true)
		return
	case "ReconcileOne":
		if a.W != "" {
			w.fate = a.W
		}
		delete(w.svcQ, a.S)
		crashed := w.runGuarded(func() {
			m := kit.Dom().SvcMeta[a.S]
			_, err := w.r.Reconcile(context.Background(), ctrl.Request{NamespacedName: types.NamespacedName{Namespace: m.Ns, Name: a.S}})
			if err != nil {
				w.svcQ[a.S] = true
			}
		})
		w.fate = "ok"
		w.drainReload()
		w.observe(idx, raw, a.Op, a.S, crashed)
		return
	case "PassBegin":
		if w.inPass || !w.reload {
			// a re-sync pass only starts from a pending reload request (they come from the pool
			// handler or from a service handler, never from nowhere): a scripted PassBegin that
			// finds none pending (the script left the real run) is not a legal stimulus
			return
		}
		w.reload = false
		w.inPass = true
		w.observe(idx, raw, a.Op, "", false)
		crashed := w.runGuarded(func() {
			_, err := w.r.Reconcile(context.Background(), ctrl.Request{NamespacedName: types.NamespacedName{Namespace: "metallbreload", Name: "reload"}})
			if err != nil {
				w.reload = true
			}
		})
		w.inPass = false
		w.fate = "ok"
		w.drainReload()
		if crashed {
			// the crash was logged by the step that caused it; skip the rest of the scripted pass
			for !w.unscripted && w.pos < len(w.steps) {
				var n vAct
				kit.Must(json.Unmarshal(w.steps[w.pos], &n))
				if n.Op != "PassStep" && n.Op != "PassEnd" {
					break
				}
				w.pos++
			}
			w.writes = nil
			w.observe(-1, json.RawMessage(`{"op":"Restarted"}`), "Restarted", "", true)
			return
		}
		// the real pass is over: scripted PassSteps that were not reached (the real pass had fewer
		// handler calls) are dropped up to the scripted PassEnd; anything else is left to the main loop
		endIdx := -1
		for !w.unscripted && w.pos < len(w.steps) {
			var n vAct
			kit.Must(json.Unmarshal(w.steps[w.pos], &n))
			if n.Op == "PassEnd" {
				endIdx = w.pos
				w.pos++
				break
			}
			if n.Op != "PassStep" {
				break
			}
			w.pos++
		}
		w.writes = nil
		w.lastRes = ""
		w.observe(endIdx, json.RawMessage(`{"op":"PassEnd"}`), "PassEnd", "", false)
		return
	case "ListFail":
		// the List call of the re-sync pass fails: the real Reconcile returns an error and is retried
		if w.inPass || !w.reload {
			return
		}
		w.listFail = true
		crashed := w.runGuarded(func() {
			_, err := w.r.Reconcile(context.Background(), ctrl.Request{NamespacedName: types.NamespacedName{Namespace: "metallbreload", Name: "reload"}})
			if err == nil && !w.listFail {
				// the failure was consumed but the pass reported success: its request is served
				w.reload = false
			}
		})
		w.listFail = false
		w.drainReload()
		w.observe(idx, raw, a.Op, "", crashed)
		return
	case "PassStep", "PassEnd":
		// outside a running pass (the script diverged from the real run): nothing to do
		return
	default:
		w.t.Fatalf("unknown op %q", a.Op)
	}
	w.observe(idx, raw, a.Op, a.S, false)
}

type vObsSvc struct {
	Spec   json.RawMessage `json:"spec"`
	Status []int           `json:"status"`
	Ann    string          `json:"ann"`
}

type vObsMem struct {
	Pool  string   `json:"pool"`
	Ips   []int    `json:"ips"`
	Ports []string `json:"ports"`
	Sk    string   `json:"sk"`
	Bk    string   `json:"bk"`
}

func (w *vWorld) quiescent() bool {
	if len(w.svcQ) > 0 || w.reload || w.poolEvt || w.inPass || w.ctlName == "" || !controllers.VerifGate(w.r) {
		return false
	}
	for s, cur := range w.api {
		c, ok := w.cache[s]
		if !ok || c.ResourceVersion != cur.ResourceVersion {
			return false
		}
	}
	for s := range w.cache {
		if _, ok := w.api[s]; !ok {
			return false
		}
	}
	return true
}

func (w *vWorld) observe(idx int, raw json.RawMessage, op, s string, crashed bool) {
	if raw == nil {
		raw = json.RawMessage(`{"op":"` + op + `"}`)
	}
	o := map[string]any{"w": w.id, "n": w.nobs, "i": idx + 1, "act": raw, "op": op, "s": s, "res": w.lastRes, "crashed": crashed,
		"crashes": w.crashes, "q": w.quiescent(), "gate": controllers.VerifGate(w.r), "ctl": w.ctlName, "cfgApi": w.cfgApi,
		"inPass": w.inPass, "reload": w.reload, "poolEvt": w.poolEvt, "svcQ": kit.SortedKeys(w.svcQ), "panic": w.panicMsg, "fresh": w.fresh}
	w.fresh = true
	w.panicMsg = ""
	api := map[string]vObsSvc{}
	for name, svc := range w.api {
		api[name] = vObsSvc{Spec: w.specs[name], Status: vStatus(svc), Ann: svc.Annotations[AnnotationIPAllocateFromPool]}
	}
	o["api"] = api
	mem := map[string]vObsMem{}
	for k, al := range allocator.VerifSnapshot(w.c.ips) {
		e := vObsMem{Pool: al.Pool, Ips: kit.AbsList(al.IPs), Sk: al.Sharing, Bk: strings.Replace(strings.Replace(al.Backend, "app=", "", 1), ",tier=", "+", 1), Ports: []string{}}
		for _, p := range al.Ports {
			e.Ports = append(e.Ports, kit.PortName(p.Proto, p.Port))
		}
		sort.Strings(e.Ports)
		mem[kit.SvcOfKey(k)] = e
	}
	o["mem"] = mem
	if w.writes == nil {
		w.writes = []map[string]any{}
	}
	o["writes"] = w.writes
	w.nobs++
	w.blk.Add(o)
}

// drain runs the pending work in a fixed order until nothing is pending (bounded).
func (w *vWorld) drain() {
	for k := 0; k < 40 && !w.quiescent(); k++ {
		var raw string
		switch {
		case w.stale && w.cacheBehind() != "":
			raw = `{"op":"Sync","s":"` + w.cacheBehind() + `"}`
		case w.poolEvt:
			raw = `{"op":"PoolReconcile"}`
		case len(w.svcQ) > 0:
			raw = `{"op":"ReconcileOne","s":"` + kit.SortedKeys(w.svcQ)[0] + `","w":"ok"}`
		case w.reload:
			raw = `{"op":"PassBegin"}`
		default:
			// nothing pending but not quiescent (gate still closed): genuinely stuck
			k = 1000
			continue
		}
		var a vAct
		kit.Must(json.Unmarshal([]byte(raw), &a))
		w.exec(json.RawMessage(raw), a, -1)
	}
	w.writes = nil
	w.lastRes = ""
	w.observe(-1, json.RawMessage(`{"op":"Drained"}`), "Drained", "", false)
}

func (w *vWorld) cacheBehind() string {
	for _, s := range kit.SortedKeys(w.api) {
		if c, ok := w.cache[s]; !ok || c.ResourceVersion != w.api[s].ResourceVersion {
			return s
		}
	}
	for _, s := range kit.SortedKeys(w.cache) {
		if _, ok := w.api[s]; !ok {
			return s
		}
	}
	return ""
}

func TestVerifControllerReplay(t *testing.T) {
	walks := kit.ReadWalks()
	out := kit.NewObsWriter()
	defer out.Close()
	seed, _ := strconv.Atoi(os.Getenv("VERIF_SEED"))
	drain := os.Getenv("VERIF_DRAIN") != "0"
	kit.ForEachWalk(walks, out, func(wk kit.Walk, blk *kit.Block) {
		var in vInit
		kit.Must(json.Unmarshal(wk.Init, &in))
		h := int64(seed)
		for _, c := range wk.ID {
			h = h*131 + int64(c)
		}
		w := &vWorld{t: t, id: wk.ID, rnd: rand.New(rand.NewSource(h)), stale: in.Stale, api: map[string]*v1.Service{},
			specs: map[string]json.RawMessage{}, cache: map[string]*v1.Service{}, cfgApi: in.Layout, steps: wk.Steps, blk: blk}
		for s, raw := range in.Svcs {
			n := vMakeService(s, raw)
			w.rv++
			n.ResourceVersion = strconv.Itoa(w.rv)
			w.api[s] = n
			w.specs[s] = raw
		}
		w.start()
		w.observe(-1, json.RawMessage(`{"op":"Init"}`), "Init", "", false)
		for w.pos < len(w.steps) {
			var a vAct
			kit.Must(json.Unmarshal(w.steps[w.pos], &a))
			raw := w.steps[w.pos]
			idx := w.pos
			w.pos++
			w.exec(raw, a, idx)
			// A reload request is pending although the script does not start a pass next: the real
			// system may run that pass at any moment (single worker, but the queue order is free).
			// Half of the time (seeded) it runs now, unscripted.
			if w.reload && !w.inPass && w.pos < len(w.steps) && w.rnd.Intn(2) == 0 {
				var n vAct
				kit.Must(json.Unmarshal(w.steps[w.pos], &n))
				if n.Op != "PassBegin" {
					w.unscripted = true
					w.exec(json.RawMessage(`{"op":"PassBegin"}`), vAct{Op: "PassBegin"}, -1)
					w.unscripted = false
				}
			}
		}
		if drain {
			w.drain()
		}
	})
}
