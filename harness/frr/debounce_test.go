//go:build verif

package frr

// C19 harness for internal/bgp/frr: the scripts of spec/DebounceMC.tla are played against
//   target "deb": the real debouncer(...) with the intervals of the script as parameters, and
//   target "sm":  the real NewSessionManager wiring (SyncExtraInfo / SyncBFDProfiles / session.Set -> createConfig -> channel ->
//                 debouncer -> generateAndReloadConfigFile -> template -> file -> reloadConfig()),
//                 with only the package variables reloadConfig/debounceTimeout/failureTimeout and
//                 the FRR_CONFIG_FILE environment variable set by the harness.
// The harness holds no oracle; spec/DebounceTrace.tla judges the recorded histories.

import (
	"bytes"
	"fmt"
	"net"
	"os"
	"path/filepath"
	"regexp"
	"runtime"
	"strconv"
	"sync"
	"sync/atomic"
	"testing"
	"time"

	"github.com/go-kit/log"
	"go.universe.tf/metallb/internal/bgp"
	metallbconfig "go.universe.tf/metallb/internal/config"
	"go.universe.tf/metallb/internal/logging"
	"go.universe.tf/metallb/internal/verifkit"
	"k8s.io/utils/ptr"
)

type vdebTarget struct {
	reload chan reloadEvent
}

func vdebConfig(c int) *frrConfig {
	// a fresh value every time: equality must be structural, not by pointer
	return &frrConfig{
		Hostname: strconv.Itoa(c),
		Routers:  []*routerConfig{{MyASN: uint32(64500 + c), RouterID: "10.0.0." + strconv.Itoa(c)}},
	}
}

func (t *vdebTarget) Submit(c int) { t.reload <- reloadEvent{config: vdebConfig(c)} }
func (t *vdebTarget) NoConf()      { t.reload <- reloadEvent{useOld: true} }
func (t *vdebTarget) Close(clean bool) {
	if clean { // a blocked sender would panic on close: leave the goroutines behind instead
		close(t.reload)
	}
}

func vdebMake(env *verifkit.DebEnv) verifkit.DebTarget {
	t := &vdebTarget{reload: make(chan reloadEvent)}
	body := func(cfg *frrConfig) error {
		c := 0
		if cfg != nil {
			c, _ = strconv.Atoi(cfg.Hostname)
		}
		return env.Body(c)
	}
	debouncer(body, t.reload, env.ReloadInterval(), env.RetryInterval(), log.NewNopLogger())
	return t
}

// ---- session manager wiring

type vdebSMTarget struct {
	sm   *sessionManager
	sess [2]*session
	env  *verifkit.DebEnv
	run  string
	via  string
	base int // debouncer goroutines that were alive before this run's session manager was created

	file    string
	fmu     sync.Mutex
	blocked bool

	req  vdebState // what the harness has asked for so far (touched by submitter "u" only)
	val  int       // the value Digest chose for the submission that follows
	nops int
	mu  sync.Mutex
	ids map[string]int
}

// vdebAlive counts the goroutines running the loop of debouncer().  The reload action of the session
// manager ends in a package variable, so a debouncer that is still inside a (slow) reload when its
// run is over would report into the next run: Close waits until it is gone.
func vdebAlive() int {
	buf := make([]byte, 4<<20)
	n := runtime.Stack(buf, true)
	return bytes.Count(buf[:n], []byte("internal/bgp/frr.debouncer.func1("))
}

var vdebLingering atomic.Int64

// Busy: some debouncer goroutine is inside the reload action and running or waiting for a CPU
// (rendering the template, writing the file).  A goroutine parked on a mutex, channel or the
// harness gate is not busy.
func (t *vdebSMTarget) Busy() bool {
	buf := make([]byte, 4<<20)
	n := runtime.Stack(buf, true)
	for _, g := range bytes.Split(buf[:n], []byte("\n\n")) {
		if !bytes.Contains(g, []byte("internal/bgp/frr.debouncer.func1(")) {
			continue
		}
		head := g
		if i := bytes.IndexByte(g, '\n'); i >= 0 {
			head = g[:i]
		}
		for _, st := range []string{"[running", "[runnable", "[syscall", "[IO wait"} {
			if bytes.Contains(head, []byte(st)) {
				return true
			}
		}
	}
	return false
}

// ---- configurations of the session-manager target
//
// What the harness asks for is a tuple (extra, rx, adv[0], adv[1]): the number in the extra
// configuration, the receive interval of the one BFD profile (the NUMBER of profiles never changes)
// and the prefix advertised through each of two sessions.  A script step Submit(c) changes one
// component through the entry point named by the script's `via`:
//   extra  SyncExtraInfo          bfd  SyncBFDProfiles          set  session[c%2].Set
//   mix    c%3 = 1: extra, 2: bfd, 0: set, with a value that rotates from submission to submission
// Digest() keeps the harness's own copy of the tuple and names each distinct tuple by a small
// number; the reload action reads the tuple back from the file FRR would load and reports the same
// numbers.  So "what was applied" is compared with "what was asked for", never with what the
// session manager or the debouncer stored.  Submit(-2) is a Set that passes validate() and is
// rejected by createConfig (one prefix with two local preferences).
type vdebState struct {
	extra, rx int
	adv       [2]int
}

func (s vdebState) key() string { return fmt.Sprintf("%d|%d|%d|%d", s.extra, s.rx, s.adv[0], s.adv[1]) }

func (t *vdebSMTarget) id(key string) int {
	t.mu.Lock()
	defer t.mu.Unlock()
	if n, ok := t.ids[key]; ok {
		return n
	}
	n := len(t.ids) + 1
	t.ids[key] = n
	return n
}

func (t *vdebSMTarget) component(c int) string {
	switch t.via {
	case "bfd", "set":
		return t.via
	case "mix":
		return []string{"set", "extra", "bfd"}[c%3]
	}
	return "extra"
}

func (t *vdebSMTarget) Digest(c int) int {
	t.val = c
	if t.via == "mix" { // every component keeps changing: the value rotates with the number of submissions
		t.nops++
		t.val = 1 + (c+t.nops)%3
	}
	switch t.component(c) {
	case "extra":
		t.req.extra = t.val
	case "bfd":
		t.req.rx = t.val
	case "set":
		t.req.adv[c%2] = t.val
	}
	return t.id(t.req.key())
}

func vdebPrefix(sess, n int) *net.IPNet {
	_, p, _ := net.ParseCIDR(fmt.Sprintf("10.%d.%d.0/24", sess+1, n))
	return p
}

func (t *vdebSMTarget) Submit(c int) {
	var err error
	if c == -2 {
		p := vdebPrefix(0, 99)
		if t.sess[0].Set(&bgp.Advertisement{Prefix: p, LocalPref: 100}, &bgp.Advertisement{Prefix: p, LocalPref: 200}) == nil {
			t.env.SetErr("a Set with two local preferences for one prefix was accepted")
		}
		return
	}
	switch t.component(c) {
	case "extra":
		err = t.sm.SyncExtraInfo(vdebExtra(t.run, t.val))
	case "bfd":
		err = t.sm.SyncBFDProfiles(map[string]*metallbconfig.BFDProfile{"verif": {Name: "verif", ReceiveInterval: ptr.To(uint32(100 + t.val))}})
	case "set":
		err = t.sess[c%2].Set(&bgp.Advertisement{Prefix: vdebPrefix(c%2, t.val)})
	}
	if err != nil {
		panic(err)
	}
}
// Block / Unblock (verifkit.DebFileFault): while blocked a directory sits where the configuration
// file belongs, so the real writeConfig fails and generateAndReloadConfigFile returns its error
// before the reload action; afterwards the path is free again.
func (t *vdebSMTarget) Block() {
	t.fmu.Lock()
	defer t.fmu.Unlock()
	if !t.blocked {
		_ = os.Remove(t.file)
		_ = os.Mkdir(t.file, 0o755)
		t.blocked = true
	}
}

func (t *vdebSMTarget) Unblock() {
	t.fmu.Lock()
	defer t.fmu.Unlock()
	if t.blocked {
		_ = os.Remove(t.file)
		t.blocked = false
	}
}

func (t *vdebSMTarget) NoConf() { t.sm.reloadConfig <- reloadEvent{useOld: true} } // what validateReload sends
func (t *vdebSMTarget) Close(clean bool) {
	if !clean { // a submitter is still inside its call: closing the channel would panic it
		vdebLingering.Add(1)
		return
	}
	close(t.sm.reloadConfig)
	for t0 := time.Now(); vdebAlive() > t.base; time.Sleep(2 * time.Millisecond) {
		if time.Since(t0) > 3*time.Second {
			vdebLingering.Add(1)
			break
		}
	}
}

// the run's name is part of every configuration: a reload action that finds another run's
// configuration in the file was not caused by this run (the reload action is a package variable)
func vdebExtra(run string, n int) string { return fmt.Sprintf("! verif-run-%s. verif-extra-%d.", run, n) }

var (
	vdebRunRe   = regexp.MustCompile(`verif-run-(\S+)\. verif-extra-(\d+)\.`)
	vdebRxRe    = regexp.MustCompile(`receive-interval (\d+)`)
	vdebAdvRe   = regexp.MustCompile(`permit 10\.(\d+)\.(\d+)\.0/24`)
	vdebForeign atomic.Int64
)

// vdebReadBack: the tuple in the file FRR would load, and the run it was rendered for.
func vdebReadBack(file string) (run string, st vdebState, ok bool) {
	b, err := os.ReadFile(file)
	if err != nil {
		return "", st, false
	}
	m := vdebRunRe.FindSubmatch(b)
	if m == nil {
		return "", st, false
	}
	run = string(m[1])
	st.extra, _ = strconv.Atoi(string(m[2]))
	if m := vdebRxRe.FindSubmatch(b); m != nil {
		rx, _ := strconv.Atoi(string(m[1]))
		st.rx = rx - 100
	}
	for _, m := range vdebAdvRe.FindAllSubmatch(b, -1) {
		sess, _ := strconv.Atoi(string(m[1]))
		n, _ := strconv.Atoi(string(m[2]))
		if sess >= 1 && sess <= 2 {
			st.adv[sess-1] = n
		}
	}
	return run, st, true
}

func vdebMakeSM(dir string) func(env *verifkit.DebEnv) verifkit.DebTarget {
	return func(env *verifkit.DebEnv) verifkit.DebTarget {
		file := filepath.Join(dir, env.Script.ID+".conf")
		os.Setenv("FRR_CONFIG_FILE", file)
		debounceTimeout = env.ReloadInterval()
		failureTimeout = env.RetryInterval()
		t := &vdebSMTarget{run: env.Script.ID, via: env.Script.Via, env: env, ids: map[string]int{}, file: file}
		reloadConfig = func() error {
			run, st, ok := vdebReadBack(file)
			if !ok || run != env.Script.ID || env.Over() {
				vdebForeign.Add(1)
				env.Disturb()
				return nil
			}
			return env.Body(t.id(st.key()))
		}
		t.base = vdebAlive()
		sm := NewSessionManager(log.NewNopLogger(), logging.LevelInfo).(*sessionManager)
		// the state the scripts start from, installed without a submission: the run's name, one BFD
		// profile (built the way SyncBFDProfiles builds it) and two sessions (what NewSession does
		// minus its submission)
		sm.extraConfig = vdebExtra(env.Script.ID, 0)
		sm.bfdProfiles = append(make([]BFDProfile, 0), *ConfigBFDProfileToFRR(&metallbconfig.BFDProfile{Name: "verif", ReceiveInterval: ptr.To(uint32(100))}))
		for i := range t.sess {
			s := &session{
				advertised:     []*bgp.Advertisement{},
				sessionManager: sm,
				SessionParameters: bgp.SessionParameters{
					PeerAddress: fmt.Sprintf("10.9.0.%d", i+1), PeerPort: 179, SourceAddress: net.ParseIP("10.8.0.1"),
					MyASN: 64512, RouterID: net.ParseIP("10.8.0.1"), PeerASN: uint32(64600 + i),
					CurrentNode: "verifnode", SessionName: fmt.Sprintf("verif-peer-%d", i),
				},
			}
			_ = sm.addSession(s)
			t.sess[i] = s
		}
		t.sm = sm
		return t
	}
}

func TestVerifDebounce(t *testing.T) {
	scripts := verifkit.ReadDebScripts()
	out := verifkit.NewObsWriter()
	defer out.Close()
	var deb, sm []verifkit.DebScript
	for _, sc := range scripts {
		switch sc.Target {
		case "deb":
			deb = append(deb, sc)
		case "sm":
			sm = append(sm, sc)
		}
	}
	verifkit.DebRunAll(deb, out, 16, func(verifkit.DebScript) func(env *verifkit.DebEnv) verifkit.DebTarget { return vdebMake })
	// the session manager reads package variables and the environment: one run at a time
	dir := t.TempDir()
	oldReload, oldDeb, oldFail := reloadConfig, debounceTimeout, failureTimeout
	verifkit.DebRunAll(sm, out, 1, func(verifkit.DebScript) func(env *verifkit.DebEnv) verifkit.DebTarget { return vdebMakeSM(dir) })
	reloadConfig, debounceTimeout, failureTimeout = oldReload, oldDeb, oldFail
	_ = os.WriteFile(os.Getenv("VERIF_OBS")+".meta", []byte(fmt.Sprintf("{\"foreign_reload_calls\": %d, \"lingering_debouncers\": %d}\n", vdebForeign.Load(), vdebLingering.Load())), 0o644)
	t.Logf("verif: %d debouncer runs, %d session-manager runs, %d lines, %d reload calls that belonged to no current run",
		len(deb), len(sm), out.N, vdebForeign.Load())
}
