----------------------------- MODULE DebounceMC -----------------------------
(***************************************************************************)
(* State machine over spec/Debounce.tla.                                   *)
(*  role A: TLC checks the invariants / liveness of the design on bounded  *)
(*          configurations (3 configurations, <= 5 submissions including   *)
(*          repeats and re-apply, <= 3 failing attempts);                  *)
(*  role B: every generated transition is printed (pre, act, post); the    *)
(*          driver turns edge-covering paths / -simulate walks into        *)
(*          submission + failure scripts for the real debouncers.          *)
(*                                                                         *)
(* Submitter "u" submits configurations (in metallb they are serialised by *)
(* the session manager's / reconciler's mutex), submitter "v" submits      *)
(* re-apply requests (frr: reloadValidator) or pokes (k8s: watch events).  *)
(* A submission is begun (the submitter is inside its call) and takes      *)
(* effect in a second step, which a running reload delays.                 *)
(***************************************************************************)
EXTENDS Debounce, TLC, Json

CONSTANTS Configs,     \* e.g. {1, 2, 3}
          MaxSubmits,  \* bound on begun submissions (0 = unbounded)
          MaxFails,    \* bound on failing reload attempts (0 = unbounded)
          Variant,     \* "frr" | "k8s"
          Rejects,     \* BOOLEAN: submitter "u" may also make submissions that are rejected (REJ)
          Tampers,     \* BOOLEAN (k8s): the environment deletes / edits the cluster's object (DEL, EDIT)
          MinFails     \* no reload attempt succeeds before this many have failed (long failure bursts)

Submitters == {"u", "v"}

VARIABLES s,      \* the record of Debounce.tla
          pend,   \* [Submitters -> NONE | configuration | OLD]: begun, not yet effective
          bad,    \* names of C19 predicates that failed at some reload of this behaviour
          nsub, nfail,
          act     \* stimulus of the last step (role B), not part of the VIEW

vars == <<s, pend, bad, nsub, nfail, act>>
View == <<s, pend, bad>>
ViewBounded == <<s, pend, bad, nsub, nfail>>

Act(op, p, c, ok, body) == [op |-> op, p |-> p, c |-> c, ok |-> ok, body |-> body]

StateRec(st, pe) == [s |-> st, pend |-> pe]

Init == /\ s = S0(Variant)
        /\ pend = [p \in Submitters |-> NONE]
        /\ bad = {}
        /\ nsub = 0 /\ nfail = 0
        /\ act = Act("Init", "", 0, TRUE, FALSE)
        /\ PrintT(ToJson([init |-> StateRec(s, pend)]))

Begin(p, x) ==
  /\ pend[p] = NONE
  /\ MaxSubmits = 0 \/ nsub < MaxSubmits
  /\ pend' = [pend EXCEPT ![p] = x]
  /\ nsub' = IF MaxSubmits = 0 THEN 0 ELSE nsub + 1
  /\ act' = Act("SB", p, x, TRUE, FALSE)
  /\ UNCHANGED <<s, bad, nfail>>

Effect(p) ==
  /\ pend[p] # NONE
  /\ EffectAllowed(s, pend[p])
  /\ s' = AnyEff(s, pend[p])
  /\ pend' = [pend EXCEPT ![p] = NONE]
  /\ act' = Act("Eff", p, pend[p], TRUE, FALSE)
  /\ UNCHANGED <<bad, nsub, nfail>>

Tick ==
  /\ TickEnabled(s)
  /\ s' = TickEff(s)
  /\ act' = Act("Tick", "", 0, TRUE, FALSE)
  /\ UNCHANGED <<pend, bad, nsub, nfail>>

Fire ==
  /\ CanFire(s)
  /\ IF FireIsNoop(s)
     THEN /\ s' = FireNoop(s)
          /\ bad' = bad
          /\ act' = Act("Fire", "", 0, TRUE, FALSE)
     ELSE /\ s' = BodyBegin(s, s.config)
          /\ bad' = bad \cup BodyFails(s, s.config)
          /\ act' = Act("Fire", "", s.config, TRUE, TRUE)
  /\ UNCHANGED <<pend, nsub, nfail>>

Done(ok) ==
  /\ s.busy
  /\ ok \/ MaxFails = 0 \/ nfail < MaxFails
  /\ ok => nfail >= MinFails
  /\ s' = BodyEnd(s, ok)
  /\ nfail' = IF ok \/ MaxFails = 0 THEN nfail ELSE nfail + 1
  /\ act' = Act("Done", "", s.inflight, ok, TRUE)
  /\ UNCHANGED <<pend, bad, nsub>>

Next == \/ \E c \in Configs : Begin("u", c)
        \/ Rejects /\ Begin("u", REJ)
        \/ Tampers /\ Variant = "k8s" /\ \E x \in {DEL, EDIT} : Begin("v", x)
        \/ Begin("v", OLD)
        \/ \E p \in Submitters : Effect(p)
        \/ Tick
        \/ Fire
        \/ \E ok \in BOOLEAN : Done(ok)

Spec == Init /\ [][Next]_vars

(* failures stop (MaxFails), timers expire, the reload action returns, a    *)
(* submitter that may proceed does                                          *)
FairSpec == /\ Spec
            /\ WF_vars(Fire) /\ WF_vars(Tick)
            /\ WF_vars(\E ok \in BOOLEAN : Done(ok))
            /\ \A p \in Submitters : WF_vars(Effect(p))

----------------------------------------------------------------------------
(* Role A *)

TypeOK == /\ s.config \in Configs \cup {NONE}
          /\ s.lastApplied \in Configs \cup {NONE, FOREIGN}
          /\ \A p \in Submitters : pend[p] \in Configs \cup {NONE, OLD, REJ, DEL, EDIT}

(* NeverOlder, Coalesce, IdenticalNoReload held at every reload so far      *)
InvReloads == bad = {}

(* the stored configuration is the latest submitted one                     *)
InvConfig == s.config = s.lastSubmitted

(* RetryWithoutSubmit, safety form: a failed attempt leaves a retry armed   *)
InvRetryArmed == s.failing => (s.busy \/ IF s.v = "frr" THEN s.timerSet ELSE s.queued)

(* Coalesce, structural form (frr): exactly one armed timer per owed reload *)
InvOneTimer == (s.v = "frr" /\ ~s.busy) => (s.owed <=> s.timerSet)

(* IdenticalNoReload, structural form: an identical resubmission arms       *)
(* nothing in frr; in k8s the reconcile it causes writes nothing            *)
InvIdentical == (s.ident /\ ~s.owed /\ ~s.busy) =>
                   /\ s.v = "frr" => ~s.timerSet
                   /\ s.config = s.lastApplied \/ s.failing

(* Delivered / RetryWithoutSubmit on states where nothing is armed          *)
Quiescent == Idle(s) /\ \A p \in Submitters : pend[p] = NONE
InvQuiet == Quiescent => QuietFails(s, {}) = {}

(* NoBlockForever, safety form: only a running reload holds a submitter up  *)
InvNoBlock == ~s.busy => \A p \in Submitters : pend[p] # NONE => EffectAllowed(s, pend[p])

(* liveness, under FairSpec *)
LiveDelivered == <>[](s.lastApplied = s.lastSubmitted /\ ~s.failing /\ ~s.busy)
LiveNoBlock == \A p \in Submitters : [](pend[p] # NONE => <>(pend[p] = NONE))

----------------------------------------------------------------------------
(* Role B: one JSON line per generated transition *)
Emit == PrintT(ToJson([pre |-> StateRec(s, pend), act |-> act', post |-> StateRec(s', pend'), n |-> nsub]))
=============================================================================
