//go:build verif

package controllers

// C15 harness, reconciler side: the scenarios of spec/FRRMC.tla are played against the real frr-k8s
// session manager whose config-changed callback is the real FRRK8sReconciler.UpdateConfig (DEBUG log
// level on both, so that the dump paths run); at every look the real Reconcile runs TWICE against a
// controller-runtime fake client and the FRRConfiguration object found there is projected: digest
// after the first and after the second Reconcile, projection of the second.  No oracle here.

import (
	"context"
	"testing"

	"github.com/go-kit/log"
	"github.com/go-logr/logr"
	frrv1beta1 "github.com/metallb/frr-k8s/api/v1beta1"
	frrk8s "go.universe.tf/metallb/internal/bgp/frrk8s"
	"go.universe.tf/metallb/internal/logging"
	"go.universe.tf/metallb/internal/verifkit"
	apierrors "k8s.io/apimachinery/pkg/api/errors"
	"k8s.io/apimachinery/pkg/runtime"
	"k8s.io/apimachinery/pkg/types"
	ctrl "sigs.k8s.io/controller-runtime"
	"sigs.k8s.io/controller-runtime/pkg/client"
	"sigs.k8s.io/controller-runtime/pkg/client/fake"
	logf "sigs.k8s.io/controller-runtime/pkg/log"
)

// vFrrcfgWritten reads the object the reconciler wrote (nil if none).
func vFrrcfgWritten(cl client.Client, node, ns string, errs *[]string) *frrv1beta1.FRRConfiguration {
	cur := &frrv1beta1.FRRConfiguration{}
	err := cl.Get(context.Background(), client.ObjectKey{Name: frrk8s.ConfigName(node), Namespace: ns}, cur)
	if apierrors.IsNotFound(err) {
		return nil
	}
	if err != nil {
		*errs = append(*errs, "get: "+err.Error())
		return nil
	}
	return cur
}

func TestVerifFrrcfgReconcile(t *testing.T) {
	logf.SetLogger(logr.Discard())
	scs := verifkit.FrrReadScenarios()
	out := verifkit.NewObsWriter()
	defer out.Close()
	withText := verifkit.FrrWithText()
	l := log.NewNopLogger()
	scheme := runtime.NewScheme()
	verifkit.Must(frrv1beta1.AddToScheme(scheme))
	verifkit.FrrForEach(scs, out, func(sc verifkit.FrrScenario, b *verifkit.Block) {
		first := map[string]int{}
		seq := 0
		for k, ops := range sc.Orders {
			cl := fake.NewClientBuilder().WithScheme(scheme).Build()
			r := &FRRK8sReconciler{Client: cl, Logger: l, LogLevel: logging.LevelDebug, Scheme: scheme, NodeName: sc.Node,
				FRRK8sNamespace: sc.Ns}
			// UpdateConfig signals the debouncer of SetupWithManager over this channel; here the harness decides
			// when Reconcile runs, so the signals are only taken off the channel
			r.configChangedChan = make(chan struct{})
			stop := make(chan struct{})
			go func() {
				for {
					select {
					case <-r.configChangedChan:
					case <-stop:
						return
					}
				}
			}()
			sm := frrk8s.NewSessionManager(l, logging.LevelDebug, sc.Node, sc.Ns)
			calls := 0
			sm.SetEventCallback(func(v interface{}) {
				calls++
				r.UpdateConfig(v)
			})
			req := ctrl.Request{NamespacedName: types.NamespacedName{Name: frrk8s.ConfigName(sc.Node), Namespace: sc.Ns}}
			verifkit.FrrRun(sm, l, sc, ops, func(lk verifkit.FrrLook) {
				seq++
				o := verifkit.FrrK8sObs{ID: sc.ID, Ord: k + 1, Step: lk.Step, Seq: seq, Mode: "k8s", Path: "reconciler", Node: sc.Node,
					Ns: sc.Ns, Sessions: lk.Sessions, Created: lk.Created, Errs: lk.Errs, Refusals: lk.Refusals, RefusedOK: lk.RefusedOK,
					Calls: calls}
				if _, err := r.Reconcile(context.Background(), req); err != nil {
					o.Errs = append(o.Errs, "reconcile 1: "+err.Error())
				}
				if w := vFrrcfgWritten(cl, sc.Node, sc.Ns, &o.Errs); w != nil {
					o.Sha0, _, _ = verifkit.FrrCRDigest(w)
				}
				if _, err := r.Reconcile(context.Background(), req); err != nil {
					o.Errs = append(o.Errs, "reconcile 2: "+err.Error())
				}
				if w := vFrrcfgWritten(cl, sc.Node, sc.Ns, &o.Errs); w != nil {
					o.Sha, o.Len, o.JSON = verifkit.FrrCRDigest(w)
					cr := verifkit.FrrProjectCR(w)
					o.CR = &cr
				} else {
					o.CR = verifkit.FrrEmptyCR()
				}
				key := verifkit.FrrSameKey(o.Sha0+"|"+o.Sha+"|"+o.JSON, o.Sessions)
				if f, ok := first[key]; ok {
					o.Same, o.Sessions, o.CR = f, nil, nil // compression only
				} else {
					first[key] = seq
				}
				if !withText || o.Same > 0 {
					o.JSON = ""
				}
				b.Add(o)
			})
			close(stop)
		}
	})
	t.Logf("verif: %d scenarios, %d observations", len(scs), out.N)
}
