//go:build verif

package frr

// C19 harness for internal/bgp/frr: the scripts of spec/DebounceMC.tla are played against
//   target "deb": the real debouncer(...) with the intervals of the script as parameters, and
//   target "sm":  the real NewSessionManager wiring (SyncExtraInfo -> createConfig -> channel ->
//                 debouncer -> generateAndReloadConfigFile -> template -> file -> reloadConfig()),
//                 with only the package variables reloadConfig/debounceTimeout/failureTimeout and
//                 the FRR_CONFIG_FILE environment variable set by the harness.
// The harness holds no oracle; spec/DebounceTrace.tla judges the recorded histories.

import (
	"fmt"
	"os"
	"path/filepath"
	"regexp"
	"strconv"
	"testing"

	"github.com/go-kit/log"
	"go.universe.tf/metallb/internal/logging"
	"go.universe.tf/metallb/internal/verifkit"
)

type vdebTarget struct {
	reload chan reloadEvent
}

func vdebConfig(c int) *frrConfig {
	// a fresh value every time: equality must be structural, not by pointer
	return &frrConfig{
		Hostname: strconv.Itoa(c),
		Routers:  []*routerConfig{{MyASN: uint32(64500 + c), RouterID: "10.0.0." + strconv.Itoa(c)}},
	}
}

func (t *vdebTarget) Submit(c int) { t.reload <- reloadEvent{config: vdebConfig(c)} }
func (t *vdebTarget) NoConf()      { t.reload <- reloadEvent{useOld: true} }
func (t *vdebTarget) Close(clean bool) {
	if clean { // a blocked sender would panic on close: leave the goroutines behind instead
		close(t.reload)
	}
}

func vdebMake(env *verifkit.DebEnv) verifkit.DebTarget {
	t := &vdebTarget{reload: make(chan reloadEvent)}
	body := func(cfg *frrConfig) error {
		c := 0
		if cfg != nil {
			c, _ = strconv.Atoi(cfg.Hostname)
		}
		return env.Body(c)
	}
	debouncer(body, t.reload, env.ReloadInterval(), env.RetryInterval(), log.NewNopLogger())
	return t
}

// ---- session manager wiring

type vdebSMTarget struct {
	sm *sessionManager
}

func (t *vdebSMTarget) Submit(c int) {
	if err := t.sm.SyncExtraInfo(fmt.Sprintf("! verif-config-%d", c)); err != nil {
		panic(err)
	}
}
func (t *vdebSMTarget) NoConf() { t.sm.reloadConfig <- reloadEvent{useOld: true} } // what validateReload sends
func (t *vdebSMTarget) Close(clean bool) {
	if clean {
		close(t.sm.reloadConfig)
	}
}

var vdebMarker = regexp.MustCompile(`verif-config-(\d+)`)

func vdebMakeSM(dir string) func(env *verifkit.DebEnv) verifkit.DebTarget {
	return func(env *verifkit.DebEnv) verifkit.DebTarget {
		file := filepath.Join(dir, env.Script.ID+".conf")
		os.Setenv("FRR_CONFIG_FILE", file)
		debounceTimeout = env.ReloadInterval()
		failureTimeout = env.RetryInterval()
		reloadConfig = func() error {
			c := 0
			if b, err := os.ReadFile(file); err == nil {
				if m := vdebMarker.FindSubmatch(b); m != nil {
					c, _ = strconv.Atoi(string(m[1]))
				}
			}
			return env.Body(c)
		}
		sm := NewSessionManager(log.NewNopLogger(), logging.LevelInfo).(*sessionManager)
		return &vdebSMTarget{sm: sm}
	}
}

func TestVerifDebounce(t *testing.T) {
	scripts := verifkit.ReadDebScripts()
	out := verifkit.NewObsWriter()
	defer out.Close()
	var deb, sm []verifkit.DebScript
	for _, sc := range scripts {
		switch sc.Target {
		case "deb":
			deb = append(deb, sc)
		case "sm":
			sm = append(sm, sc)
		}
	}
	verifkit.DebRunAll(deb, out, 16, func(verifkit.DebScript) func(env *verifkit.DebEnv) verifkit.DebTarget { return vdebMake })
	// the session manager reads package variables and the environment: one run at a time
	dir := t.TempDir()
	oldReload, oldDeb, oldFail := reloadConfig, debounceTimeout, failureTimeout
	verifkit.DebRunAll(sm, out, 1, func(verifkit.DebScript) func(env *verifkit.DebEnv) verifkit.DebTarget { return vdebMakeSM(dir) })
	reloadConfig, debounceTimeout, failureTimeout = oldReload, oldDeb, oldFail
	t.Logf("verif: %d debouncer runs, %d session-manager runs, %d lines", len(deb), len(sm), out.N)
}
