---------------------------- MODULE ListenerTrace ----------------------------
(***************************************************************************)
(* Role C for C20 (event handlers are atomic).  The observations of one run *)
(* of the real code form a block of lines:                                  *)
(*   init                                                                   *)
(*   h ...   one line per handler invocation, in the RECORDED LOCK ORDER     *)
(*           (sequence number taken by the wrapper inside the Listener's     *)
(*           critical section): event, object delivered, result, status      *)
(*           write, state after, counter / status notifications with their   *)
(*           clock ticks, and the same step of the serial re-execution of    *)
(*           the same events in this order on a fresh real instance (`ser`)  *)
(*   f ...   status-fetcher calls with the clock ticks around them           *)
(*   final   state after every goroutine has finished                        *)
(*   mon     panics recovered, watchdog verdict                              *)
(* and one `race` line per test process carries the reports of the Go race   *)
(* detector (pairs of access positions).                                     *)
(*                                                                         *)
(* Controller side: the lock order is replayed through the sequential        *)
(* operators of Controller.tla / Alloc.tla (Listener!Outcomes); every        *)
(* handler result must be one of the outcomes of the operator applied to     *)
(* the state its predecessor left.  A step the operators do not explain but  *)
(* which the real sequential code reproduces from the same state is model    *)
(* drift (printed, never an alarm).  Speaker side: the step must equal the   *)
(* serial re-execution.  Fetchers: the value returned must be one the        *)
(* fetched item had at some moment between the begin and the end of the      *)
(* call (TLC searches the placement among the recorded writes).              *)
(***************************************************************************)
EXTENDS Listener, Json

Trace == ndJsonDeserialize("obs.ndjson")
N == Len(Trace)

VARIABLES i,      \* line being judged
          st,     \* controller side: state before line i in the concurrent run; speaker side: last snapshot
          sst,    \* the same for the serial re-execution
          wr      \* item |-> sequence of recorded writes [lo, hi, val] of the current run, in lock order

SvcAll == DOMAIN SvcMeta
Has(o, f) == f \in DOMAIN o

(* the spec record as the scenario carried it (it was printed from Listener!CtlSpecs, so it has every
   field Controller.tla reads); only the port list becomes a set again *)
SpecOf(j) == [j EXCEPT !.ports = Range(j.ports)]
MemOf(m) == [t \in SvcAll |->
               IF t \in DOMAIN m
               THEN [pool |-> m[t].pool, ips |-> m[t].ips, ports |-> Range(m[t].ports), sk |-> m[t].sk, bk |-> m[t].bk]
               ELSE NULL]
ObjOf(o) == IF Has(o.obj, "null") THEN NULL
            ELSE [spec |-> SpecOf(o.obj.spec), status |-> o.obj.status, ann |-> o.obj.ann]
EvOf(o) == IF o.ev = "svc" THEN [k |-> "svc", s |-> o.s, o |-> ObjOf(o)] ELSE [k |-> "pool", layout |-> o.layout]

CtrEq(c, L, al) == \A pn \in DOMAIN c : c[pn] = Ctr(L, al, pn)
SameCtr(c, d) == DOMAIN c = DOMAIN d /\ \A pn \in DOMAIN c : c[pn] = d[pn]

(* what one handler invocation did: out = the h line or its `ser` field     *)
Explains(x, ev, out) ==
  /\ x.st.al = MemOf(out.mem)
  /\ x.write = out.tried
  /\ (out.tried => (x.status = out.wstatus /\ x.ann = out.wann))
  /\ out.res = (IF out.tried /\ ~out.wok THEN "Error" ELSE x.res)
  /\ CtrEq(out.ctr, x.st.L, x.st.al)
Explained(pre, o, out) == \E x \in Outcomes(pre, EvOf(o)) : Explains(x, EvOf(o), out)

SameOut(a, b) ==
  /\ a.res = b.res /\ a.tried = b.tried /\ a.wok = b.wok /\ a.wstatus = b.wstatus /\ a.wann = b.wann
  /\ MemOf(a.mem) = MemOf(b.mem) /\ SameCtr(a.ctr, b.ctr)

NextL(L, o) == IF o.ev = "pool" /\ o.layout # NILPOOLS THEN o.layout ELSE L
CtlPost(pre, o, out) == CtlState(NextL(pre.L, o), MemOf(out.mem))

IsCtl(o) == o.side = "ctl"

----------------------------------------------------------------------------
(* the property predicates                                                  *)

(* serial equivalence of one handler step                                   *)
StepModel(o) == IsCtl(o) /\ Explained(st, o, o)
StepSerial(o) == IF IsCtl(o) THEN st = sst /\ SameOut(o, o.ser)
                 ELSE st = sst /\ o.res = o.ser.res /\ o.snap = o.ser.snap
(* A controller step the operators do not explain is decided by the serial re-execution when that
   one started the step from the same state (same real code, run sequentially): equal = model drift,
   different = violation.  When the two runs had parted before (the allocator legitimately picks
   among equally ranked pools by map order) the step is left undecided and reported as such. *)
Undecided(o) == o.k = "h" /\ IsCtl(o) /\ ~StepModel(o) /\ st # sst
C20_SerialEquiv(o) == o.k = "h" => (StepModel(o) \/ StepSerial(o) \/ Undecided(o))
Drift(o) == o.k = "h" /\ IsCtl(o) /\ ~StepModel(o) /\ StepSerial(o)

(* the state after every goroutine has joined is the state the last handler left, and equals the
   serial re-execution's (same fallback for drift as above) *)
C20_FinalState(o) ==
  o.k = "final" =>
     IF IsCtl(o)
     THEN /\ MemOf(o.mem) = st.al
          /\ (CtrEq(o.ctr, st.L, st.al) \/ st # sst \/ SameCtr(o.ctr, o.ser.ctr))
          /\ (st = sst => (MemOf(o.ser.mem) = MemOf(o.mem) /\ SameCtr(o.ctr, o.ser.ctr)))
     ELSE o.snap = st /\ (st = sst => o.ser.snap = o.snap)

(* fetchers are atomic reads.  ws = the recorded writes of the item in lock order; write k became
   visible somewhere in (lo, hi): lo = the clock when its handler entered the critical section,
   hi = the clock of the notification that followed the write.  Write 0 is the initial value.      *)
Writes(o) == LET key == o.what \o "/" \o o.key IN IF key \in DOMAIN wr THEN wr[key] ELSE <<>>
Candidates(ws, o) ==
  {k \in 0..Len(ws) : (k = 0 \/ ws[k].lo < o.e) /\ (k = Len(ws) \/ ws[k + 1].hi > o.b)}
InitialOf(o) == IF o.what = "ctr" THEN ZeroCtr ELSE <<>>
ValAt(ws, o, k) == IF k = 0 THEN InitialOf(o) ELSE ws[k].val
C20_FetchAtomic(o) ==
  o.k = "f" =>
     LET ws == Writes(o)  K == Candidates(ws, o) IN
     IF o.what = "l2"
     THEN (* the list grows and shrinks element by element inside one handler; only its length is
             logged by the reader: it lies between the lengths of two compatible values *)
          \E k1, k2 \in K : Len(ValAt(ws, o, k1)) <= o.len /\ o.len <= Len(ValAt(ws, o, k2))
     ELSE \E k \in K : ValAt(ws, o, k) = o.val

C20_NoCrash(o) == o.k = "mon" => o.panics = <<>>
C20_NoDeadlock(o) == o.k = "mon" => ~o.deadlock
C20_NoDataRace(o) == o.k = "race" => o.races = <<>>
C20_NoFatal(o) == o.k = "race" => o.fatal = <<>>

Fails(o) ==
  (IF C20_SerialEquiv(o) THEN {} ELSE {"C20.SerialEquiv"}) \cup
  (IF C20_FinalState(o) THEN {} ELSE {"C20.FinalState"}) \cup
  (IF C20_FetchAtomic(o) THEN {} ELSE {"C20.FetchAtomic"}) \cup
  (IF C20_NoCrash(o) THEN {} ELSE {"C20.NoCrash"}) \cup
  (IF C20_NoDeadlock(o) THEN {} ELSE {"C20.NoDeadlock"}) \cup
  (IF C20_NoDataRace(o) THEN {} ELSE {"C20.NoDataRace"}) \cup
  (IF C20_NoFatal(o) THEN {} ELSE {"C20.NoFatal"})

----------------------------------------------------------------------------
(* replay                                                                   *)
NoWrites == [x \in {} |-> <<>>]
RECURSIVE AddWrites(_, _, _, _)
AddWrites(w, cbs, lo, k) ==
  IF k > Len(cbs) THEN w
  ELSE LET key == cbs[k].what \o "/" \o cbs[k].key
           old == IF key \in DOMAIN w THEN w[key] ELSE <<>>
           new == Append(old, [lo |-> lo, hi |-> cbs[k].t, val |-> cbs[k].val])
       IN AddWrites([x \in DOMAIN w \cup {key} |-> IF x = key THEN new ELSE w[x]], cbs, lo, k + 1)

StartOf(o) == IF IsCtl(o) THEN CtlInit(SvcAll) ELSE o.snap0

(* state before line j+1, given the state before line j *)
After(o, cur, out) ==
  IF o.k = "init" THEN StartOf(o)
  ELSE IF o.k = "h" THEN (IF IsCtl(o) THEN CtlPost(cur, o, out) ELSE out.snap)
  ELSE cur

Init == i = 1 /\ st = <<>> /\ sst = <<>> /\ wr = NoWrites
Next ==
  /\ i < N
  /\ i' = i + 1
  /\ LET o == Trace[i] IN
       /\ st' = After(o, st, o)
       /\ sst' = (IF o.k = "h" THEN After(o, sst, o.ser) ELSE After(o, sst, o))
       /\ wr' = (IF o.k = "init" THEN NoWrites
                 ELSE IF o.k = "h" THEN AddWrites(wr, o.cb, o.t0, 1)
                 ELSE wr)

(* what the operators predict for an unexplained controller step (diagnostics only) *)
Diag(o) ==
  IF o.k = "h" /\ IsCtl(o)
  THEN { [res |-> x.res, write |-> x.write, status |-> x.status, ann |-> x.ann,
          mem |-> [t \in {u \in SvcAll : x.st.al[u] # NULL} |-> x.st.al[t]]] : x \in Outcomes(st, EvOf(o)) }
  ELSE {}

Judge ==
  LET o == Trace[i]  f == Fails(o) IN
  /\ (f = {} \/ PrintT(ToJson([fails |-> f, line |-> i, w |-> o.w, step |-> o.n, model |-> Diag(o),
                                 pre |-> IF o.k = "h" /\ IsCtl(o) THEN st.L ELSE ""])))
  /\ (~Drift(o) \/ PrintT(ToJson([drift |-> "C20.SerialEquiv", line |-> i, w |-> o.w, step |-> o.n, model |-> Diag(o),
                                   pre |-> st.L])))
  /\ (~Undecided(o) \/ PrintT(ToJson([drift |-> "undecided", line |-> i, w |-> o.w, step |-> o.n, model |-> Diag(o),
                                       pre |-> st.L])))
  /\ (i < N \/ PrintT(ToJson([done |-> N])))
=============================================================================
