"""Allocator family (C01, C02, C11 at the level of internal/allocator): spec/Alloc.tla,
spec/AllocMC.tla (roles A and B), harness/allocator (replay), spec/AllocTrace.tla (role C)."""
import json
import os

import vlib

PROPS = ["C01", "C02", "C11"]

# per property and tier: (cfg, mode); mode "edges" = role A + per-transition emission + edge cover,
# "model" = role A only (exhaustive, larger bounds), "sim" = role B by seeded TLC simulation
CONFIGS = {
    "C01": {"quick": [("AllocMC_tiny.cfg", "edges")],
            "thorough": [("AllocMC_share.cfg", "model"), ("AllocMC_tiny.cfg", "edges"), ("AllocMC_share_sim.cfg", "sim")]},
    "C02": {"quick": [("AllocMC_policy2.cfg", "edges"), ("AllocMC_policyS.cfg", "edges")],
            "thorough": [("AllocMC_policy.cfg", "model"), ("AllocMC_policy2.cfg", "edges"), ("AllocMC_policyS.cfg", "edges"),
                         ("AllocMC_policy_sim.cfg", "sim")]},
    "C11": {"quick": [("AllocMC_count2.cfg", "edges")],
            "thorough": [("AllocMC_count.cfg", "model"), ("AllocMC_count2.cfg", "edges"), ("AllocMC_count_sim.cfg", "sim")]},
}
SIM = {"num": 10000, "depth": 40}

SAMPLE = {"quick": 60000, "thorough": None}


def _norm_al(al):
    out = {}
    for sname, v in sorted(al.items()):
        if v is None or v.get("null"):
            continue
        out[sname] = [v["pool"], v["ips"], sorted(v["ports"]), v["sk"], v["bk"]]
    return out


def norm_model(st):
    return vlib.canon([st["layout"], _norm_al(st["al"])])


def norm_obs(o):
    return vlib.canon([o["layout"], _norm_al(o["mem"])])


def stim(act):
    a = {k: v for k, v in act.items() if k not in ("ok", "ips")}
    if "ips" in act and act.get("op") == "Assign":
        a["ips"] = act["ips"]
    if "r" in a:
        a["r"] = dict(a["r"], ports=sorted(a["r"]["ports"]))
    return vlib.canon(a)


def signature(fail, obs):
    act = obs.get("act", {})
    return "%s|op=%s|layout=%s" % (fail, act.get("op"), obs.get("layout"))


def replay_walks(chk, scen_path, domain_path, tag):
    obs_path = os.path.join(chk.work, "obs_%s.ndjson" % tag)
    ov = vlib.overlay_for(vlib.harness_mapping("allocator", "internal/allocator"), chk.work)
    rc, out = vlib.go_test("internal/allocator", "^TestVerifAllocReplay$", ov,
                           {"VERIF_SCENARIOS": scen_path, "VERIF_OBS": obs_path, "VERIF_DOMAIN": domain_path})
    if rc != 0:
        raise vlib.Inconclusive("allocator harness failed (rc=%s):\n%s" % (rc, out[-3000:]))
    return obs_path


def judge(chk, obs_path):
    return vlib.run_judge_parallel(chk, "AllocTrace", "AllocTrace.cfg", obs_path)


def run(chk):
    run_alloc_level(chk, CONFIGS[chk.prop][chk.tier])
    if chk.prop == "C11":
        run_shapes(chk)
    # the same property at the level of the controller (Service statuses, re-syncs, restarts)
    import fam_ctrl
    fam_ctrl.run_controller(chk)


def run_alloc_level(chk, configs):
    """Allocator-level roles A/B/C for the given (cfg, mode) list; failures whose name starts with the
    property being checked are confirmed and reported."""
    domain_path, _ = vlib.domain_dump(chk)
    prefix = chk.prop + "."
    for cfg, mode in configs:
        if mode == "model":
            res = vlib.tlc(chk.work, "AllocMC", cfg, workers=16, timeout=3000, want_json=False)
            chk.add_model_run(cfg, res)
            if res.violated:
                print("MODEL-ONLY: %s violates %s in the design model" % (cfg, res.violated))
                chk.notes.append("MODEL-ONLY: %s violates %s" % (cfg, res.violated))
            elif res.error:
                raise vlib.Inconclusive("TLC %s: %s" % (cfg, res.error))
            vlib.log("  %s (role A only): %d distinct, %d generated, %.0fs" % (cfg, res.distinct, res.generated, res.wall))
            continue
        if mode == "sim":
            raw, res = vlib.simulate_walks(chk, "AllocMC", cfg, SIM["num"], SIM["depth"], chk.seed, keep_states=True, mode="generate")
            if not raw:
                raise vlib.Inconclusive("simulation produced no walks: " + res.out[-800:])
            edges = []
            walks = []
            for w in raw:
                idx = []
                for o in w:
                    idx.append(len(edges))
                    edges.append((o["pre_c"], o["act"], o["post_c"]))
                walks.append(idx)
            del raw
            init_key = edges[walks[0][0]][0]
            left = 0
            sample = 1
        else:
            edges, inits, res = vlib.generate_edges(chk, "AllocMC", cfg)
            init_key = inits[0]
            sample = SAMPLE.get(chk.tier)
            if sample and chk.prop not in PROPS:
                sample = sample // 2      # allocator-level side run of a controller-family property
            walks, left = vlib.edge_cover_walks(edges, init_key, max_len=40, seed=chk.seed, sample=sample)
        init_state = json.loads(init_key)
        steps = [[edges[i][1] for i in w] for w in walks]
        scen = os.path.join(chk.work, "scen_%s.ndjson" % cfg)
        vlib.write_scenarios(scen, steps, {"layout": init_state["layout"]})
        vlib.log("  %s: %d edges, %d walks, %d steps, %d uncovered" % (cfg, len(edges), len(walks), sum(map(len, walks)), left))
        obs_path = replay_walks(chk, scen, domain_path, cfg)
        fails, nlines = judge(chk, obs_path)
        # index observations for reporting / drift
        mine = [f for f in fails if any(x.startswith(prefix) for x in f["fails"])]
        keep = set(f["w"] for f in mine) | {"w0"}
        byw = {}      # only the sample walk and the failing walks are kept in memory
        model = {}
        mstates = set()
        ncache = {}

        def nm(k):
            if k not in ncache:
                ncache[k] = norm_model(json.loads(k))
            return ncache[k]

        for (pre, act, post) in edges:
            pk, qk = nm(pre), nm(post)
            mstates.add(pk)
            mstates.add(qk)
            model.setdefault((pk, stim(act)), set()).add(qk)
        drift = offmodel = 0
        nontrivial = set()
        covered = set()
        for wname, ol in vlib.iter_walk_obs(obs_path):
            if wname in keep:
                byw[wname] = ol
            for k, o in enumerate(ol[1:]):
                pk, qk = norm_obs(ol[k]), norm_obs(o)
                key = (pk, stim(o["act"]))
                if mode == "sim":
                    pass      # a simulation follows one branch of the model's choices: no drift statistics
                elif key in model:
                    covered.add(key)
                    if qk not in model[key]:
                        drift += 1
                        if drift <= 3:
                            vlib.log("  drift example: pre=%s act=%s model=%s got=%s" % (pk, o["act"], sorted(model[key]), qk))
                else:
                    offmodel += 1
                if pk != qk:
                    nontrivial.add(vlib.canon([pk, key[1]]))
        chk.cov["model_edges_by_stimulus"] = chk.cov.get("model_edges_by_stimulus", 0) + len(model)
        chk.cov["model_edges_covered"] = chk.cov.get("model_edges_covered", 0) + len(covered)
        chk.cov["off_model_steps"] = chk.cov.get("off_model_steps", 0) + offmodel
        chk.cov["drift"] += drift
        if drift:
            print("DRIFT: %d observed steps differ from the detailed model's post-state (%s); not a verdict" % (drift, cfg))
        chk.cov["traces_validated_against_impl"] += len(walks)
        chk.cov["evaluations"] += nlines
        chk.cov["distinct_nontrivial"] += len(nontrivial)
        chk.cov["exhaustive"] = (left == 0 and sample is None)
        if walks and not chk.cov["samples"]:
            chk.cov["samples"].append({"cfg": cfg, "walk": steps[0][:8], "observations": byw.get("w0", [])[:3]})
        # confirm: re-execute the failing walks alone (truncated at the failing step) and re-judge
        if mine:
            confirm(chk, mine, walks, steps, init_state, domain_path, byw)
    chk.cov["rule"] = ("allocator level: every transition of the bounded TLC state graph of AllocMC is executed on the real Allocator "
                       "(edge cover by walks); non-trivial = distinct (memory, layout, operation) whose step changed memory")
    chk.assumptions += ["services always carry at least one port (the API forbids zero-port LoadBalancers)",
                        "catalogue of pool layouts and request profiles as listed in spec/Domain.tla and spec/AllocMC.tla"]


def run_shapes(chk, only=None):
    """C11 arithmetic: pool shapes with real prefix lengths (IPv6 /56../128 combined with each other and
    with IPv4 blocks), counters of the real allocator judged against the exact count (limb arithmetic)."""
    cfg = "PoolShape_gen2.cfg" if chk.tier == "quick" else "PoolShape_gen3.cfg"
    shapes = []
    if only is None:
        res = vlib.tlc(chk.work, "PoolShape", cfg, workers=4, timeout=1200, json_sink=shapes.append)
        chk.add_model_run(cfg, res)
        if res.error or not shapes:
            raise vlib.Inconclusive("PoolShape generation: %s %s" % (res.error, res.out[-800:]))
        shapes.sort(key=vlib.canon)
    else:
        shapes = only
    scen = os.path.join(chk.work, "shapes.ndjson")
    with open(scen, "w") as fh:
        for sh in shapes:
            fh.write(json.dumps(sh) + "\n")
    obs_path = os.path.join(chk.work, "obs_shapes.ndjson")
    ov = vlib.overlay_for(vlib.harness_mapping("allocator", "internal/allocator"), chk.work)
    rc, out = vlib.go_test("internal/allocator", "^TestVerifPoolShapes$", ov, {"VERIF_SCENARIOS": scen, "VERIF_OBS": obs_path})
    if rc != 0:
        raise vlib.Inconclusive("shape harness failed (rc=%s):\n%s" % (rc, out[-3000:]))
    fails, nlines = vlib.run_judge_parallel(chk, "PoolShape", "PoolShape_judge.cfg", obs_path, chunks=4)
    obs = [json.loads(l) for l in open(obs_path)]
    chk.cov["evaluations"] += nlines
    chk.cov["traces_validated_against_impl"] += nlines
    chk.cov["distinct_nontrivial"] += len(set(vlib.canon([o["cidrs"], o["avoid"]]) for o in obs))
    chk.cov["samples"].append({"shape": obs[0]})
    for f in fails:
        o = obs[f["line"] - 1]
        for name in f["fails"]:
            fams = "+".join("%s/%d" % (c["fam"], c["len"]) for c in o["cidrs"])
            hugefirst = any((128 - c["len"] >= 62) for c in o["cidrs"][:-1] if c["fam"] == "v6")
            kind = "overflow-after-huge-prefix" if hugefirst and name == "C11.ShapeV6" else "count"
            chk.fail("%s|%s|avoid=%s|%s" % (name, kind, o["avoid"], fams if kind == "count" else "*"), name,
                     detail={"observation": o},
                     scenario={"family": "shape", "shapes": [{"cidrs": o["cidrs"], "avoid": o["avoid"]}]})


def confirm(chk, mine, walks, steps, init_state, domain_path, byw):
    prefix = chk.prop + "."
    first = {}
    for f in mine:
        w = f["w"]
        if w not in first or f["step"] < first[w]["step"]:
            first[w] = f
    sel = sorted(first.items())[:200]
    scen = os.path.join(chk.work, "scen_confirm.ndjson")
    with open(scen, "w") as fh:
        for w, f in sel:
            n = int(w[1:])
            fh.write(json.dumps({"id": w, "init": {"layout": init_state["layout"]}, "steps": steps[n][:f["step"]]}) + "\n")
    obs_path = replay_walks(chk, scen, domain_path, "confirm")
    fails2, _ = judge(chk, obs_path)
    again = {(f["w"], f["step"]): f for f in fails2}
    for w, f in sel:
        f2 = again.get((w, f["step"]))
        names = [x for x in f["fails"] if x.startswith(prefix)]
        if not f2:
            chk.notes.append("unreproduced: %s step %d %s" % (w, f["step"], names))
            continue
        o = byw[w][f["step"]]
        n = int(w[1:])
        for name in names:
            if name in f2["fails"]:
                chk.fail(signature(name, o), name, detail={"observation": o},
                         scenario={"family": "alloc", "init": {"layout": init_state["layout"]}, "steps": steps[n][:f["step"]]})


def replay(chk, path):
    body = json.load(open(path))
    if body["scenario"].get("family") == "shape":
        return run_shapes(chk, only=body["scenario"]["shapes"])
    if body["scenario"].get("family") == "ctrl":
        import fam_ctrl
        return fam_ctrl.replay(chk, path)
    domain_path, _ = vlib.domain_dump(chk)
    sc = body["scenario"]
    scen = os.path.join(chk.work, "scen_replay.ndjson")
    vlib.write_scenarios(scen, [sc["steps"]], sc["init"])
    obs_path = replay_walks(chk, scen, domain_path, "replay")
    fails, nlines = judge(chk, obs_path)
    obs = [json.loads(l) for l in open(obs_path)]
    chk.cov["evaluations"] = nlines
    chk.cov["traces_validated_against_impl"] = 1
    chk.cov["samples"].append(sc["steps"][:8])
    for f in fails:
        for name in f["fails"]:
            if name.startswith(chk.prop + "."):
                chk.fail(signature(name, obs[f["line"] - 1]), name, detail={"observation": obs[f["line"] - 1]}, scenario=sc)
