----------------------------- MODULE BGPSession -----------------------------
(***************************************************************************)
(* C17 - the native BGP session of internal/bgp/native/native.go.           *)
(*                                                                          *)
(* One action per critical section of s.mu / per loop iteration, the way    *)
(* the code is structured:                                                  *)
(*                                                                          *)
(*   sender goroutine (run / connect / sendUpdates)                         *)
(*     dial       about to call connect() (also while sleeping in backoff)  *)
(*     hs         inside connect(), s.mu HELD: dialled, own OPEN sent,      *)
(*                waiting for the peer's OPEN (the peer may be slow)        *)
(*     connected  connect() returned nil, sendUpdates() has not locked yet  *)
(*     full       inside the full send, s.mu HELD, todo = routes not sent   *)
(*     wait       inside cond.Wait, s.mu released                           *)
(*     woke       cond.Wait returned, s.mu HELD, loop condition not yet     *)
(*                re-evaluated                                              *)
(*     diff       inside one diff round, s.mu HELD (todo / wdr left)        *)
(*     done       run() returned                                            *)
(*   callers      Set(S), Close - one critical section each                 *)
(*   readers      consumeBGP(conn k): after the read fails, the deferred    *)
(*                function takes s.mu and aborts only if s.conn == conn     *)
(*   keepalive    sendKeepalive: a failing write aborts                     *)
(*   peer         receives the UPDATE stream of the current connection and  *)
(*                builds a table; may drop the connection at any moment     *)
(*                                                                          *)
(* s.mu is held by the sender during the whole full send and during each    *)
(* diff round, and by connect() from the closed test across the dial and    *)
(* the whole OPEN exchange to s.conn = conn: callers, readers and the       *)
(* keepalive writer move only when LockFree.  A Set / Close issued while    *)
(* the lock is held BLOCKS (CallSet / CallClose: the call is pending) and   *)
(* takes effect - and returns - only once the lock is free (RunCall);       *)
(* everything the properties say about Close is about Close having RETURNED.*)
(* The peer's reply to our OPEN is an environment action: it completes the  *)
(* handshake (ConnectOK) or refuses it (ConnectRefused) whenever it likes.  *)
(*                                                                          *)
(* A route set ("table") is a total function Routes -> Attrs \cup {ABSENT}, *)
(* so that attribute-only changes exist.                                    *)
(***************************************************************************)
EXTENDS Naturals, Sequences, FiniteSets

CONSTANTS Routes, Attrs

ABSENT == "-"
Tables == [Routes -> Attrs \cup {ABSENT}]
Empty == [r \in Routes |-> ABSENT]
Dom(T) == {r \in Routes : T[r] # ABSENT}
NoNew == [has |-> FALSE, tbl |-> Empty]
Pending(T) == [has |-> TRUE, tbl |-> T]

Upd(r, a) == [t |-> "upd", r |-> r, a |-> a, rs |-> {}]
Wdr(R) == [t |-> "wdr", r |-> "", a |-> "", rs |-> R]
(* what a BGP speaker does with one UPDATE *)
Apply(T, m) == IF m.t = "upd" THEN [T EXCEPT ![m.r] = m.a]
               ELSE [r \in Routes |-> IF r \in m.rs THEN ABSENT ELSE T[r]]

VARIABLES
  closed,         \* s.closed
  conn,           \* s.conn: 0 = nil, k > 0 = the k-th established connection
  nconn,          \* number of connections established so far
  advertised,     \* s.advertised
  new,            \* s.new: NoNew = nil, Pending(T) = non-nil map (T may be Empty)
  snd,            \* sender goroutine: [pc, todo, wdr]
  call,           \* the caller's pending (blocked) call: [op |-> "none" | "set" | "close", S]
  readers,        \* connections whose consumeBGP goroutine has not finished
  wire,           \* UPDATEs of the current connection written but not yet read by the peer
  peerTable,      \* table the peer built from the stream of the current connection
  peerAlive,      \* the peer has not dropped the current connection
  lastRequested,  \* argument of the latest Set (Empty before the first)
  sentTable,      \* history: table implied by everything written on the current connection
  budget,         \* [sets, drops, refuse]: remaining environment actions (bounds the model)
  cnt,            \* history: [dials, sent] attempts to connect / messages written
  act             \* history: the action just taken (role B)

vars == <<closed, conn, nconn, advertised, new, snd, call, readers, wire, peerTable, peerAlive,
          lastRequested, sentTable, budget, cnt, act>>

Snd(pc, todo, wdr) == [pc |-> pc, todo |-> todo, wdr |-> wdr]
At(pc) == Snd(pc, {}, {})
LockFree == snd.pc \notin {"hs", "full", "woke", "diff"}
NoCall == [op |-> "none", S |-> Empty]

InitWith(b) ==
  /\ closed = FALSE /\ conn = 0 /\ nconn = 0
  /\ advertised = Empty /\ new = NoNew
  /\ snd = At("dial") /\ readers = {} /\ call = NoCall
  /\ wire = <<>> /\ peerTable = Empty /\ peerAlive = FALSE
  /\ lastRequested = Empty /\ sentTable = Empty
  /\ budget = b /\ cnt = [dials |-> 0, sent |-> 0]
  /\ act = [a |-> "Init"]

(* abort(): close the connection, fold the pending set into advertised      *)
AbortEff ==
  /\ conn' = 0
  /\ IF new.has THEN advertised' = new.tbl /\ new' = NoNew
     ELSE UNCHANGED <<advertised, new>>

PeerSide == <<wire, peerTable, peerAlive, sentTable>>

----------------------------------------------------------------------------
(* callers (one caller goroutine: at most one call in progress)             *)
SetEff(S) == new' = Pending(S) /\ lastRequested' = S
CloseEff == closed' = TRUE /\ AbortEff

Set(S) ==                            \* the lock is free: the call runs and returns at once
  /\ LockFree /\ call = NoCall /\ budget.sets > 0
  /\ SetEff(S)
  /\ budget' = [budget EXCEPT !.sets = @ - 1]
  /\ act' = [a |-> "Set", S |-> S]
  /\ UNCHANGED <<closed, conn, nconn, advertised, snd, call, readers, PeerSide, cnt>>

Close ==
  /\ LockFree /\ call = NoCall /\ ~closed
  /\ CloseEff
  /\ act' = [a |-> "Close"]
  /\ UNCHANGED <<nconn, snd, call, readers, PeerSide, lastRequested, budget, cnt>>

CallSet(S) ==                        \* the lock is held: the call blocks on s.mu
  /\ ~LockFree /\ call = NoCall /\ budget.sets > 0
  /\ call' = [op |-> "set", S |-> S]
  /\ budget' = [budget EXCEPT !.sets = @ - 1]
  /\ act' = [a |-> "CallSet", S |-> S]
  /\ UNCHANGED <<closed, conn, nconn, advertised, new, snd, readers, PeerSide, lastRequested, cnt>>

CallClose ==
  /\ ~LockFree /\ call = NoCall /\ ~closed
  /\ call' = [op |-> "close", S |-> Empty]
  /\ act' = [a |-> "CallClose"]
  /\ UNCHANGED <<closed, conn, nconn, advertised, new, snd, readers, PeerSide, lastRequested, budget, cnt>>

RunCall ==                           \* the blocked call gets the lock, takes effect and returns
  /\ LockFree /\ call # NoCall
  /\ IF call.op = "set"
     THEN SetEff(call.S) /\ UNCHANGED <<closed, conn, advertised>>
     ELSE CloseEff /\ UNCHANGED lastRequested
  /\ call' = NoCall
  /\ act' = [a |-> "RunCall", op |-> call.op]
  /\ UNCHANGED <<nconn, snd, readers, PeerSide, budget, cnt>>

----------------------------------------------------------------------------
(* sender: connect()                                                        *)
ConnectClosed ==                     \* connect() returns errClosed, run() returns
  /\ snd.pc = "dial" /\ closed
  /\ snd' = At("done")
  /\ act' = [a |-> "SenderExit"]
  /\ UNCHANGED <<call, closed, conn, nconn, advertised, new, readers, PeerSide, lastRequested, budget, cnt>>

ConnectBegin ==                      \* connect() takes s.mu, sees ~closed, dials and sends its OPEN
  /\ snd.pc = "dial" /\ ~closed
  /\ snd' = At("hs")
  /\ cnt' = [cnt EXCEPT !.dials = @ + 1]
  /\ act' = [a |-> "ConnectBegin"]
  /\ UNCHANGED <<call, closed, conn, nconn, advertised, new, readers, PeerSide, lastRequested, budget>>

(* the peer's OPEN arrives (whenever the peer likes) with the expected ASN: KEEPALIVE, reader    *)
(* started, s.conn = conn, lock released                                                        *)
ConnectOKWith(alive) ==              \* alive: the peer has not already dropped this connection (trace validation)
  /\ snd.pc = "hs"
  /\ nconn' = nconn + 1 /\ conn' = nconn + 1
  /\ readers' = readers \cup {nconn + 1}
  /\ snd' = At("connected")
  /\ wire' = <<>> /\ peerTable' = Empty /\ peerAlive' = alive /\ sentTable' = Empty
  /\ act' = [a |-> "ConnectOK"]
  /\ UNCHANGED <<call, closed, advertised, new, lastRequested, budget, cnt>>
ConnectOK == ConnectOKWith(TRUE)

ConnectRefused ==                    \* the peer's OPEN carries an unexpected ASN: conn.Close(), error, lock released, back-off
  /\ snd.pc = "hs" /\ budget.refuse > 0
  /\ snd' = At("dial")
  /\ budget' = [budget EXCEPT !.refuse = @ - 1]
  /\ act' = [a |-> "ConnectRefused"]
  /\ UNCHANGED <<call, closed, conn, nconn, advertised, new, readers, PeerSide, lastRequested, cnt>>

(* sender: sendUpdates() takes the lock                                     *)
EnterClosed ==
  /\ snd.pc = "connected" /\ closed
  /\ snd' = At("done")
  /\ act' = [a |-> "SenderExit"]
  /\ UNCHANGED <<call, closed, conn, nconn, advertised, new, readers, PeerSide, lastRequested, budget, cnt>>

EnterNoConn ==
  /\ snd.pc = "connected" /\ ~closed /\ conn = 0
  /\ snd' = At("dial")
  /\ act' = [a |-> "SenderRetry"]
  /\ UNCHANGED <<call, closed, conn, nconn, advertised, new, readers, PeerSide, lastRequested, budget, cnt>>

FoldAtConnect ==
  /\ snd.pc = "connected" /\ ~closed /\ conn # 0
  /\ IF new.has THEN advertised' = new.tbl /\ new' = NoNew
     ELSE UNCHANGED <<call, advertised, new>>
  /\ snd' = Snd("full", Dom(advertised'), {})
  /\ act' = [a |-> "FoldAtConnect"]
  /\ UNCHANGED <<call, closed, conn, nconn, readers, PeerSide, lastRequested, budget, cnt>>

(* one sendUpdate / sendWithdraw that succeeds: the octets are on their way  *)
(* (if the peer has dropped the connection they are lost)                   *)
Written(m) ==
  /\ wire' = IF peerAlive THEN Append(wire, m) ELSE wire
  /\ sentTable' = Apply(sentTable, m)
  /\ cnt' = [cnt EXCEPT !.sent = @ + 1]
  /\ UNCHANGED <<call, peerTable, peerAlive>>

SendUpdate(r) ==
  /\ snd.pc \in {"full", "diff"} /\ r \in snd.todo
  /\ LET T == IF snd.pc = "full" THEN advertised ELSE new.tbl IN Written(Upd(r, T[r]))
  /\ snd' = [snd EXCEPT !.todo = @ \ {r}]
  /\ act' = [a |-> "SendUpdate", r |-> r]
  /\ UNCHANGED <<call, closed, conn, nconn, advertised, new, readers, lastRequested, budget>>

FullDone ==                          \* end of the full send: first evaluation of the wait loop
  /\ snd.pc = "full" /\ snd.todo = {}
  /\ snd' = At("wait")
  /\ act' = [a |-> "WaitEnter"]
  /\ UNCHANGED <<call, closed, conn, nconn, advertised, new, readers, PeerSide, lastRequested, budget, cnt>>

Wake ==                              \* cond.Wait returns (Broadcast by Set / abort), lock re-acquired
  /\ snd.pc = "wait" /\ (new.has \/ conn = 0)
  /\ snd' = At("woke")
  /\ act' = [a |-> "Wake"]
  /\ UNCHANGED <<call, closed, conn, nconn, advertised, new, readers, PeerSide, lastRequested, budget, cnt>>

WokeClosed ==
  /\ snd.pc = "woke" /\ closed
  /\ snd' = At("done")
  /\ act' = [a |-> "SenderExit"]
  /\ UNCHANGED <<call, closed, conn, nconn, advertised, new, readers, PeerSide, lastRequested, budget, cnt>>

WokeNoConn ==
  /\ snd.pc = "woke" /\ ~closed /\ conn = 0
  /\ snd' = At("dial")
  /\ act' = [a |-> "SenderRetry"]
  /\ UNCHANGED <<call, closed, conn, nconn, advertised, new, readers, PeerSide, lastRequested, budget, cnt>>

WokeNothing ==                       \* no pending set: wait again
  /\ snd.pc = "woke" /\ ~closed /\ conn # 0 /\ ~new.has
  /\ snd' = At("wait")
  /\ act' = [a |-> "WaitEnter"]
  /\ UNCHANGED <<call, closed, conn, nconn, advertised, new, readers, PeerSide, lastRequested, budget, cnt>>

NeedsUpdate(adv, nw) == {r \in Dom(nw) : adv[r] # nw[r]}
NeedsWithdraw(adv, nw) == Dom(adv) \ Dom(nw)

DiffBegin ==
  /\ snd.pc = "woke" /\ ~closed /\ conn # 0 /\ new.has
  /\ snd' = Snd("diff", NeedsUpdate(advertised, new.tbl), NeedsWithdraw(advertised, new.tbl))
  /\ act' = [a |-> "DiffBegin"]
  /\ UNCHANGED <<call, closed, conn, nconn, advertised, new, readers, PeerSide, lastRequested, budget, cnt>>

SendWithdraw ==
  /\ snd.pc = "diff" /\ snd.todo = {} /\ snd.wdr # {}
  /\ Written(Wdr(snd.wdr))
  /\ snd' = [snd EXCEPT !.wdr = {}]
  /\ act' = [a |-> "SendWithdraw", rs |-> snd.wdr]
  /\ UNCHANGED <<call, closed, conn, nconn, advertised, new, readers, lastRequested, budget>>

DiffDone ==                          \* s.advertised, s.new = s.new, nil; back to the wait loop
  /\ snd.pc = "diff" /\ snd.todo = {} /\ snd.wdr = {}
  /\ advertised' = new.tbl /\ new' = NoNew
  /\ snd' = At("wait")
  /\ act' = [a |-> "DiffDone"]
  /\ UNCHANGED <<call, closed, conn, nconn, readers, PeerSide, lastRequested, budget, cnt>>

WriteFails ==                        \* a write on a connection the peer has dropped may fail: abort, return true
  /\ snd.pc \in {"full", "diff"} /\ (snd.todo # {} \/ snd.wdr # {})
  /\ ~peerAlive
  /\ AbortEff
  /\ snd' = At("dial")
  /\ act' = [a |-> "WriteFails"]
  /\ UNCHANGED <<call, closed, nconn, readers, PeerSide, lastRequested, budget, cnt>>

----------------------------------------------------------------------------
(* reader of connection k: its read fails once the connection is dead       *)
(* (dropped by the peer, or closed locally by abort)                        *)
Dead(k) == k # conn \/ ~peerAlive
ReaderSeesEOF(k) ==
  /\ LockFree /\ k \in readers /\ Dead(k)
  /\ readers' = readers \ {k}
  /\ IF conn = k THEN AbortEff ELSE UNCHANGED <<call, conn, advertised, new>>
  /\ act' = [a |-> "ReaderSeesEOF", k |-> k, cur |-> (conn = k)]
  /\ UNCHANGED <<call, closed, nconn, snd, PeerSide, lastRequested, budget, cnt>>

KeepaliveFails ==
  /\ LockFree /\ ~closed /\ conn # 0 /\ ~peerAlive
  /\ AbortEff
  /\ act' = [a |-> "KeepaliveFails"]
  /\ UNCHANGED <<call, closed, nconn, snd, readers, PeerSide, lastRequested, budget, cnt>>

----------------------------------------------------------------------------
(* peer                                                                     *)
PeerRecv ==
  /\ peerAlive /\ wire # <<>>
  /\ peerTable' = Apply(peerTable, Head(wire)) /\ wire' = Tail(wire)
  /\ act' = [a |-> "PeerRecv"]
  /\ UNCHANGED <<call, closed, conn, nconn, advertised, new, snd, readers, peerAlive, lastRequested, sentTable, budget, cnt>>

PeerDrops ==
  /\ peerAlive /\ budget.drops > 0
  /\ peerAlive' = FALSE /\ wire' = <<>>
  /\ budget' = [budget EXCEPT !.drops = @ - 1]
  /\ act' = [a |-> "PeerDrops"]
  /\ UNCHANGED <<call, closed, conn, nconn, advertised, new, snd, readers, peerTable, lastRequested, sentTable, cnt>>

----------------------------------------------------------------------------
SenderStep ==
  \/ ConnectClosed \/ ConnectBegin \/ ConnectOK \/ EnterClosed \/ EnterNoConn \/ FoldAtConnect
  \/ (\E r \in Routes : SendUpdate(r)) \/ FullDone \/ Wake \/ WokeClosed \/ WokeNoConn
  \/ WokeNothing \/ DiffBegin \/ SendWithdraw \/ DiffDone
ReaderStep == \E k \in 1..nconn : ReaderSeesEOF(k)

Next ==
  \/ \E S \in Tables : Set(S) \/ CallSet(S)
  \/ Close \/ CallClose \/ RunCall
  \/ SenderStep \/ ConnectRefused \/ WriteFails
  \/ ReaderStep \/ KeepaliveFails
  \/ PeerRecv \/ PeerDrops

----------------------------------------------------------------------------
(* properties                                                               *)
Settled == peerAlive /\ conn # 0 /\ snd.pc = "wait" /\ ~new.has /\ wire = <<>> /\ call = NoCall

(* the table the peer built equals the most recently requested set          *)
Converges == Settled => peerTable = lastRequested

(* nothing requested is ever lost on the session side: with no pending set, *)
(* advertised is the latest request                                         *)
NoLostSet == ~new.has => advertised = lastRequested

(* whenever the sender waits on a live connection, what it wrote on THIS    *)
(* connection amounts to the complete advertised set                        *)
FullResend == (conn # 0 /\ snd.pc = "wait") => sentTable = advertised

(* the sender loop ends only on a closed session (otherwise no further      *)
(* connection attempt is made and a later Set is never sent)                *)
SenderAlive == snd.pc = "done" => closed

(* a refused connection is never installed and nothing is written on it     *)
RefuseWrongASN ==
  [][budget'.refuse < budget.refuse => (conn' = conn /\ nconn' = nconn /\ cnt'.sent = cnt.sent /\ conn = 0)]_vars

(* once Close has returned: no connection attempt, no connection installed, *)
(* no message                                                               *)
QuietAfterClose == [][closed => (cnt' = cnt /\ nconn' = nconn /\ conn' = 0)]_vars

TypeOK ==
  /\ closed \in BOOLEAN /\ conn \in 0..nconn /\ advertised \in Tables /\ new.tbl \in Tables
  /\ snd.pc \in {"dial", "hs", "connected", "full", "wait", "woke", "diff", "done"}
  /\ call.op \in {"none", "set", "close"}
  /\ snd.todo \subseteq Routes /\ snd.wdr \subseteq Routes
  /\ peerTable \in Tables /\ lastRequested \in Tables
  /\ (closed => conn = 0)
  /\ (conn # 0 => conn = nconn)
=============================================================================
