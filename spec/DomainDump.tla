----------------------------- MODULE DomainDump -----------------------------
(* Prints the catalogue of Domain.tla as JSON for the Go harness.           *)
EXTENDS Domain, Json
VARIABLE x
ASSUME PrintT(ToJson([layouts |-> Layouts, svcmeta |-> SvcMeta]))
Init == x = 0
Next == FALSE /\ x' = x
=============================================================================
