//go:build verif

package native

// Role B harness for C17, part 3: the two drivers.
//
//   TestVerifSessStress  free-running, seeded (VERIF_SEED) stress against the real session:
//                        random Sets (empty sets, attribute-only changes, bursts), drops (idle,
//                        after n more UPDATEs, in the middle of the next full send, FIN or RST),
//                        wrong-ASN phases (at most two refused attempts), Close; settled
//                        observations at intermediate points and at the end.
//   TestVerifSessGated   schedules chosen by TLC (spec/BGPSessionMC.tla, simulation) replayed
//                        through the blocking hook; needs the verifPoint calls in native.go.
//
// The drivers hold no oracle.  Waiting limits only decide how faithfully a schedule is followed
// and whether a settled observation gets logged; a limit that expires is logged as
// {"k":"end","status":"timeout:..."} and makes the run inconclusive, never a failure.

import (
	"bufio"
	"encoding/json"
	"math/rand"
	"os"
	"strconv"
	"sync"
	"testing"
	"time"

	"github.com/go-kit/log"
	"go.universe.tf/metallb/internal/bgp"
	kit "go.universe.tf/metallb/internal/verifkit"
)

type vSessRun struct {
	id      string
	l       *vSessLog
	u       *vSessUniverse
	p       *vSessPeer
	c       *vSessCtl
	s       *session
	hooks   bool
	lastReq map[string]string
	closed  bool
	status  string
	settle  time.Duration // hook-less mode: how long the connection must have been quiet
	quiet   time.Duration // how long the peer is watched after Close returned
	settled int
}

func vSessEnvInt(name string, def int) int {
	if v := os.Getenv(name); v != "" {
		if n, err := strconv.Atoi(v); err == nil {
			return n
		}
	}
	return def
}

func vSessStart(id, mode string, ibgp bool, hold uint16, gated bool, seed int64, wrongFirst int) *vSessRun {
	r := &vSessRun{id: id, hooks: vSessHooksPresent, lastReq: vSessEmptyTable(), status: "ok",
		settle: time.Duration(vSessEnvInt("VERIF_SETTLE_MS", 250)) * time.Millisecond,
		quiet:  time.Duration(vSessEnvInt("VERIF_QUIET_MS", 120)) * time.Millisecond}
	r.l = vSessNewLog(id)
	r.u = vSessNewUniverse(ibgp)
	myASN, peerASN := uint32(64512), uint32(64512)
	if !ibgp {
		peerASN = 64600
	}
	r.p = vSessNewPeer(r.l, r.u, peerASN, hold)
	r.p.setWrong(wrongFirst)
	r.c = vSessNewCtl(r.l, r.u, gated && r.hooks)
	r.c.callerG[vSessGoid()] = true
	r.l.add("meta", map[string]interface{}{"mode": mode, "ibgp": ibgp, "hooks": r.hooks, "seed": int(seed), "hold": int(hold)})
	vSessCtls.Store(uint16(r.p.port), r.c)
	ht := 90 * time.Second
	sess, err := NewSessionManager(log.NewNopLogger()).NewSession(log.NewNopLogger(), bgp.SessionParameters{
		PeerAddress: "127.0.0.1", PeerPort: uint16(r.p.port), MyASN: myASN, PeerASN: peerASN,
		HoldTime: &ht, CurrentNode: "verif", SessionName: id})
	kit.Must(err)
	r.s = sess.(*session)
	r.l.mu.Lock()
	r.c.s = r.s
	r.l.mu.Unlock()
	return r
}

func (r *vSessRun) finish() {
	if !r.closed {
		r.doClose()
	}
	r.c.ungate()
	r.l.add("end", map[string]interface{}{"status": r.status, "desync": r.c.desync, "settled": r.settled})
	r.p.stop()
	vSessCtls.Delete(uint16(r.p.port))
}

// callWithLimit runs f on a helper goroutine (registered as a caller for the hook); if f does
// not return in time the gates are opened for good (the schedule is abandoned, not the run).
func (r *vSessRun) callWithLimit(f func()) {
	done := make(chan struct{})
	go func() {
		g := vSessGoid()
		r.l.mu.Lock()
		r.c.callerG[g] = true
		r.l.mu.Unlock()
		f()
		close(done)
	}()
	select {
	case <-done:
		return
	case <-time.After(2 * time.Second):
	}
	r.c.ungate()
	select {
	case <-done:
	case <-time.After(20 * time.Second):
		r.status = "timeout:call"
	}
}

func (r *vSessRun) doSet(t map[string]string) {
	cp := vSessEmptyTable()
	for k, v := range t {
		cp[k] = v
	}
	r.lastReq = cp
	r.l.add("set.call", map[string]interface{}{"S": cp, "req": vSessPairs(cp)})
	advs := r.u.advs(cp)
	r.callWithLimit(func() { _ = r.s.Set(advs...) })
	r.l.add("set.ret", nil)
}

func (r *vSessRun) doClose() {
	r.l.add("close.call", nil)
	r.callWithLimit(func() { _ = r.s.Close() })
	r.closed = true
	r.l.add("close.ret", nil)
}

// trySettle waits until the session is idle on a live connection and logs a settled
// observation in the same critical section in which that was seen.
//   with the hook:    the sender is parked in cond.Wait with nothing pending (read under s.mu by
//                     the hook), and the peer has read every UPDATE the hook saw being written
//                     on this connection - an exact, clock-free criterion;
//   without the hook: s.conn != nil, s.new == nil (read under s.mu) and nothing received for
//                     the settle period.
func (r *vSessRun) trySettle(limit time.Duration) bool {
	c, l := r.c, r.l
	req := vSessPairs(r.lastReq)
	if r.hooks {
		ok := c.waitFor(limit, func() bool {
			return c.sstate == vSessParked && !c.wakePending && c.up && !c.newHas && !c.closed &&
				l.curAlive && l.curConn == c.connPeerIdx && l.updRecv[l.curConn] == c.sentOnConn
		}, func() {
			l.addLocked("settled", map[string]interface{}{"c": l.curConn, "req": req, "how": "hook", "nupd": l.updRecv[l.curConn]})
		})
		if ok {
			r.settled++
		}
		return ok
	}
	deadline := time.Now().Add(limit)
	for time.Now().Before(deadline) {
		r.s.mu.Lock()
		l.mu.Lock()
		idle := r.s.conn != nil && r.s.new == nil && !r.s.closed && l.curAlive && time.Since(l.lastEvent) >= r.settle
		if idle {
			l.addLocked("settled", map[string]interface{}{"c": l.curConn, "req": req, "how": "time", "nupd": l.updRecv[l.curConn]})
		}
		l.mu.Unlock()
		r.s.mu.Unlock()
		if idle {
			r.settled++
			return true
		}
		time.Sleep(5 * time.Millisecond)
	}
	return false
}

// afterClose watches the peer for the quiet period and logs what it saw.
func (r *vSessRun) afterClose() {
	time.Sleep(r.quiet)
	r.l.mu.Lock()
	r.l.addLocked("quiet", map[string]interface{}{"accepts": r.l.accepts})
	r.l.mu.Unlock()
}

// ---------------------------------------------------------------------------- stress

func vSessRandTable(rng *rand.Rand, cur map[string]string) map[string]string {
	t := vSessEmptyTable()
	x := rng.Intn(100)
	switch {
	case x < 12: // empty set
	case x < 40: // attribute-only change of the current set (if it is not empty)
		n := 0
		for _, r := range vSessRoutes {
			t[r] = cur[r]
			if cur[r] != "-" {
				n++
			}
		}
		if n == 0 {
			t[vSessRoutes[rng.Intn(len(vSessRoutes))]] = vSessAttrNames[rng.Intn(len(vSessAttrNames))]
			break
		}
		for changed := false; !changed; {
			for _, r := range vSessRoutes {
				if t[r] != "-" && rng.Intn(2) == 0 {
					a := vSessAttrNames[rng.Intn(len(vSessAttrNames))]
					if a != t[r] {
						t[r] = a
						changed = true
					}
				}
			}
		}
	case x < 46: // the same set again
		for _, r := range vSessRoutes {
			t[r] = cur[r]
		}
	default:
		for _, r := range vSessRoutes {
			if rng.Intn(2) == 0 {
				t[r] = vSessAttrNames[rng.Intn(len(vSessAttrNames))]
			}
		}
	}
	return t
}

func vSessStressRun(id string, seed int64) *vSessLog {
	rng := rand.New(rand.NewSource(seed))
	ibgp := rng.Intn(2) == 0
	hold := uint16(0)
	if rng.Intn(100) < 30 {
		hold = 3
	}
	wrongFirst := 0
	wrongUsed := false
	if rng.Intn(100) < 6 {
		wrongFirst, wrongUsed = 1+rng.Intn(2), true
	}
	r := vSessStart(id, "stress", ibgp, hold, false, seed, wrongFirst)
	defer r.finish()
	nops := 5 + rng.Intn(22)
	limit := 8 * time.Second
	for i := 0; i < nops && !r.closed && r.status == "ok"; i++ {
		x := rng.Intn(100)
		switch {
		case x < 42:
			r.doSet(vSessRandTable(rng, r.lastReq))
		case x < 50:
			for n := 2 + rng.Intn(4); n > 0; n-- {
				r.doSet(vSessRandTable(rng, r.lastReq))
			}
		case x < 60:
			r.p.drop(0, rng.Intn(2) == 0)
		case x < 68:
			r.p.armDrop(1+rng.Intn(3), rng.Intn(2) == 0)
			r.doSet(vSessRandTable(rng, r.lastReq))
		case x < 75:
			r.p.armNextDrop(1+rng.Intn(3), rng.Intn(2) == 0)
			r.p.drop(0, rng.Intn(2) == 0)
		case x < 79:
			if !wrongUsed {
				wrongUsed = true
				n := 1 + rng.Intn(2)
				before := r.p.refusedCount()
				r.p.setWrong(n)
				r.p.drop(0, false)
				if rng.Intn(2) == 0 {
					r.doSet(vSessRandTable(rng, r.lastReq))
				}
				// at most two refused attempts (back-off 0 s, then 1 s), then the right ASN again
				r.c.waitFor(6*time.Second, func() bool { return r.p.refusedCount() >= before+n }, nil)
				r.p.setWrong(0)
			}
		case x < 90:
			if !r.trySettle(limit) {
				r.status = "timeout:settle"
			}
		default:
			time.Sleep(time.Duration(rng.Intn(3000)) * time.Microsecond)
		}
	}
	if r.status != "ok" {
		return r.l
	}
	if !r.closed && rng.Intn(100) < 15 {
		// Close in the middle of whatever is going on, possibly followed by more Sets
		r.doClose()
		for n := rng.Intn(3); n > 0; n-- {
			r.doSet(vSessRandTable(rng, r.lastReq))
		}
		r.afterClose()
		return r.l
	}
	if !r.closed {
		if !r.trySettle(limit) {
			r.status = "timeout:settle"
			return r.l
		}
		r.doClose()
		if rng.Intn(3) == 0 {
			r.doSet(vSessRandTable(rng, r.lastReq))
		}
		r.afterClose()
	}
	return r.l
}

// ---------------------------------------------------------------------------- gated

type vSessStep struct {
	A string            `json:"a"`
	S map[string]string `json:"S"`
	K int               `json:"k"`
}

type vSessSchedule struct {
	ID    string      `json:"id"`
	Ibgp  bool        `json:"ibgp"`
	Steps []vSessStep `json:"steps"`
}

func vSessGatedRun(sc vSessSchedule) *vSessLog {
	r := vSessStart(sc.ID, "gated", sc.Ibgp, 0, true, 0, 0)
	defer r.finish()
	c := r.c
	c.stabilize() // the sender arrives at gate.connect
	for n, st := range sc.Steps {
		if r.status != "ok" || !func() bool { r.l.mu.Lock(); defer r.l.mu.Unlock(); return c.gated }() {
			break
		}
		switch st.A {
		case "Set":
			c.ensureLockFree()
			t := vSessEmptyTable()
			for k, v := range st.S {
				t[k] = v
			}
			r.doSet(t)
			c.stabilize()
		case "Close":
			if !r.closed {
				c.ensureLockFree()
				r.doClose()
				c.stabilize()
			}
		case "ConnectOK", "ConnectRefused":
			r.l.mu.Lock()
			at := c.sstate == vSessAtGate && c.spoint == "gate.connect"
			r.l.mu.Unlock()
			if at {
				if st.A == "ConnectRefused" {
					r.p.setWrong(1)
				} else {
					r.p.setWrong(0)
				}
				c.releaseSender()
				c.stabilize()
			}
		case "ReaderSeesEOF":
			c.ensureLockFree()
			c.releaseReader(st.K, 250*time.Millisecond)
			c.stabilize()
		case "PeerDrops":
			r.p.drop(0, n%2 == 1) // FIN or RST, fixed by the position in the schedule
		case "PeerRecv":
			c.waitFor(100*time.Millisecond, func() bool {
				return r.l.curConn != c.connPeerIdx || !r.l.curAlive || r.l.updRecv[r.l.curConn] >= c.sentOnConn
			}, nil)
		case "KeepaliveFails", "Init":
		default: // every other action is a step of the sender goroutine
			if c.releaseSender() {
				c.stabilize()
			}
		}
	}
	// the schedule is over: open the gates, let the session converge, observe, close, observe
	c.ungate()
	r.p.setWrong(0)
	if r.status != "ok" {
		return r.l
	}
	if !r.closed {
		if !r.trySettle(8 * time.Second) {
			r.status = "timeout:settle"
			return r.l
		}
		r.doClose()
	}
	r.afterClose()
	return r.l
}

// ---------------------------------------------------------------------------- tests

func vSessWorkers() int {
	return vSessEnvInt("VERIF_PAR", 12)
}

func TestVerifSessStress(t *testing.T) {
	out := kit.NewObsWriter()
	defer out.Close()
	seed := int64(vSessEnvInt("VERIF_SEED", 1))
	runs := vSessEnvInt("VERIF_RUNS", 50)
	first := vSessEnvInt("VERIF_FIRST", 0)
	only := os.Getenv("VERIF_ONLY") // replay: one run id
	ch := make(chan int)
	var wg sync.WaitGroup
	for w := 0; w < vSessWorkers(); w++ {
		wg.Add(1)
		go func() {
			defer wg.Done()
			for n := range ch {
				id := "s" + strconv.FormatInt(seed, 10) + "_" + strconv.Itoa(n)
				if only != "" && id != only {
					continue
				}
				l := vSessStressRun(id, seed*1000003+int64(n))
				b := &kit.Block{}
				l.flush(b)
				out.WriteBlock(b)
			}
		}()
	}
	for n := first; n < first+runs; n++ {
		ch <- n
	}
	close(ch)
	wg.Wait()
}

func TestVerifSessGated(t *testing.T) {
	if !vSessHooksPresent {
		t.Skip("no verifPoint hook in the tree under test")
	}
	f, err := os.Open(os.Getenv("VERIF_SCENARIOS"))
	kit.Must(err)
	defer f.Close()
	out := kit.NewObsWriter()
	defer out.Close()
	ch := make(chan vSessSchedule)
	var wg sync.WaitGroup
	for w := 0; w < vSessWorkers(); w++ {
		wg.Add(1)
		go func() {
			defer wg.Done()
			for sc := range ch {
				l := vSessGatedRun(sc)
				b := &kit.Block{}
				l.flush(b)
				out.WriteBlock(b)
			}
		}()
	}
	scan := bufio.NewScanner(f)
	scan.Buffer(make([]byte, 1<<20), 1<<26)
	for scan.Scan() {
		var sc vSessSchedule
		kit.Must(json.Unmarshal(scan.Bytes(), &sc))
		ch <- sc
	}
	close(ch)
	wg.Wait()
}
