//go:build verif

package frr

// Tokenizer for the text rendered from templates/*.tmpl (C14).  It turns the text into the
// abstract program of spec/FRRFilter.tla: prefix-list entries, route-map entries, router blocks,
// neighbor statements, address-family statements.  It assigns NO meaning: no sorting, no merging,
// no defaults, no evaluation.  Every line must be recognised; a line it does not know goes to
// Unknown and makes the run INCONCLUSIVE (bin/lib/fam_frr.py), it is never silently skipped.

import (
	"strconv"
	"strings"

	"go.universe.tf/metallb/internal/verifkit"
)

type vFrrPlist struct {
	Af     string             `json:"af"` // "ip" | "ipv6"
	Name   string             `json:"name"`
	Seq    int                `json:"seq"`
	Action string             `json:"action"`
	Any    bool               `json:"any"`
	P      verifkit.FrrPrefix `json:"p"`
	Ge     int                `json:"ge"` // -1 = absent
	Le     int                `json:"le"`
}

type vFrrMatch struct {
	Af    string `json:"af"`
	Plist string `json:"plist"`
}

type vFrrSet struct {
	Kind     string   `json:"kind"` // "lp" | "comm" | "lcomm"
	Vals     []string `json:"vals"`
	Additive bool     `json:"additive"`
}

type vFrrRmap struct {
	Name    string      `json:"name"`
	Action  string      `json:"action"`
	Seq     int         `json:"seq"`
	Matches []vFrrMatch `json:"matches"`
	Sets    []vFrrSet   `json:"sets"`
	Onmatch string      `json:"onmatch"`
}

type vFrrRouter struct {
	Asn      string   `json:"asn"`
	Vrf      string   `json:"vrf"`
	Flags    []string `json:"flags"`
	Routerid []string `json:"routerid"`
}

type vFrrNbrStmt struct {
	Router int      `json:"router"` // 1-based index into Routers
	Peer   string   `json:"peer"`
	Stmt   string   `json:"stmt"`
	Args   []string `json:"args"`
	Iface  bool     `json:"iface"`
}

type vFrrAfStmt struct {
	Router int                `json:"router"`
	Af     string             `json:"af"`   // "ipv4" | "ipv6"
	Kind   string             `json:"kind"` // "activate" | "route-map" | "network"
	Peer   string             `json:"peer"`
	Name   string             `json:"name"`
	Dir    string             `json:"dir"`
	P      verifkit.FrrPrefix `json:"p"`
}

type vFrrProgram struct {
	Plists   []vFrrPlist   `json:"plists"`
	Rmaps    []vFrrRmap    `json:"rmaps"`
	Routers  []vFrrRouter  `json:"routers"`
	Nbrstmts []vFrrNbrStmt `json:"nbrstmts"`
	Afstmts  []vFrrAfStmt  `json:"afstmts"`
	Other    int           `json:"other"` // recognised lines outside the covered sections (log, hostname, nht, debug, bfd)
	Unknown  []string      `json:"unknown"`
}

var vFrrRouterFlags = map[string]bool{
	"no bgp ebgp-requires-policy":            true,
	"no bgp network import-check":            true,
	"no bgp default ipv4-unicast":            true,
	"bgp graceful-restart preserve-fw-state": true,
}

var vFrrBfdWords = map[string]bool{
	"receive-interval": true, "transmit-interval": true, "detect-multiplier": true, "echo-mode": true,
	"echo": true, "passive-mode": true, "minimum-ttl": true,
}

func vFrrAtoi(s string) (int, bool) {
	n, err := strconv.Atoi(s)
	return n, err == nil && n >= 0
}

func vFrrTokenize(text string) *vFrrProgram {
	pr := &vFrrProgram{Plists: []vFrrPlist{}, Rmaps: []vFrrRmap{}, Routers: []vFrrRouter{}, Nbrstmts: []vFrrNbrStmt{},
		Afstmts: []vFrrAfStmt{}, Unknown: []string{}}
	ctx := "" // "", "rmap", "router", "af", "bfd"
	af := ""  // inside "af"
	unknown := func(line string) { pr.Unknown = append(pr.Unknown, ctx+"|"+line) }
	for _, raw := range strings.Split(text, "\n") {
		line := strings.TrimRight(raw, " \t\r")
		if strings.TrimSpace(line) == "" {
			continue
		}
		indented := line[0] == ' ' || line[0] == '\t'
		f := strings.Fields(line)
		if f[0] == "!" {
			pr.Other++
			continue
		}
		if !indented {
			ctx, af = "", ""
			switch {
			case f[0] == "log" || f[0] == "hostname" || f[0] == "debug":
				pr.Other++
			case (f[0] == "ip" || f[0] == "ipv6") && len(f) == 3 && f[1] == "nht" && f[2] == "resolve-via-default":
				pr.Other++
			case (f[0] == "ip" || f[0] == "ipv6") && len(f) >= 7 && f[1] == "prefix-list" && f[3] == "seq":
				if !vFrrPlistLine(pr, f) {
					unknown(line)
				}
			case f[0] == "route-map" && len(f) == 4 && (f[2] == "permit" || f[2] == "deny"):
				n, ok := vFrrAtoi(f[3])
				if !ok {
					unknown(line)
					continue
				}
				pr.Rmaps = append(pr.Rmaps, vFrrRmap{Name: f[1], Action: f[2], Seq: n, Matches: []vFrrMatch{}, Sets: []vFrrSet{}})
				ctx = "rmap"
			case f[0] == "router" && len(f) >= 3 && f[1] == "bgp" && (len(f) == 3 || (len(f) == 5 && f[3] == "vrf")):
				r := vFrrRouter{Asn: f[2], Flags: []string{}, Routerid: []string{}}
				if len(f) == 5 {
					r.Vrf = f[4]
				}
				pr.Routers = append(pr.Routers, r)
				ctx = "router"
			case f[0] == "bfd" && len(f) == 1:
				ctx = "bfd"
				pr.Other++
			default:
				unknown(line)
			}
			continue
		}
		switch ctx {
		case "rmap":
			e := &pr.Rmaps[len(pr.Rmaps)-1]
			switch {
			case len(f) == 5 && f[0] == "match" && (f[1] == "ip" || f[1] == "ipv6") && f[2] == "address" && f[3] == "prefix-list":
				e.Matches = append(e.Matches, vFrrMatch{Af: f[1], Plist: f[4]})
			case len(f) == 3 && f[0] == "set" && f[1] == "local-preference":
				e.Sets = append(e.Sets, vFrrSet{Kind: "lp", Vals: []string{f[2]}})
			case len(f) >= 3 && f[0] == "set" && (f[1] == "community" || f[1] == "large-community"):
				s := vFrrSet{Kind: "comm", Vals: []string{}}
				if f[1] == "large-community" {
					s.Kind = "lcomm"
				}
				vals := f[2:]
				if vals[len(vals)-1] == "additive" {
					s.Additive = true
					vals = vals[:len(vals)-1]
				}
				if len(vals) == 0 {
					unknown(line)
					continue
				}
				s.Vals = append(s.Vals, vals...)
				e.Sets = append(e.Sets, s)
			case len(f) == 2 && f[0] == "on-match" && f[1] == "next":
				if e.Onmatch != "" {
					unknown(line)
					continue
				}
				e.Onmatch = "next"
			default:
				unknown(line)
			}
		case "router", "af":
			ri := len(pr.Routers)
			r := &pr.Routers[ri-1]
			joined := strings.Join(f, " ")
			switch {
			case ctx == "af" && joined == "exit-address-family":
				ctx, af = "router", ""
			case ctx == "af" && f[0] == "neighbor" && len(f) == 3 && f[2] == "activate":
				pr.Afstmts = append(pr.Afstmts, vFrrAfStmt{Router: ri, Af: af, Kind: "activate", Peer: f[1], P: verifkit.FrrNoPrefix("")})
			case ctx == "af" && f[0] == "neighbor" && len(f) == 5 && f[2] == "route-map" && (f[4] == "in" || f[4] == "out"):
				pr.Afstmts = append(pr.Afstmts, vFrrAfStmt{Router: ri, Af: af, Kind: "route-map", Peer: f[1], Name: f[3], Dir: f[4],
					P: verifkit.FrrNoPrefix("")})
			case ctx == "af" && f[0] == "network" && len(f) == 2:
				p, ok := verifkit.FrrLexPrefixPlain(f[1])
				if !ok {
					unknown(line)
					continue
				}
				pr.Afstmts = append(pr.Afstmts, vFrrAfStmt{Router: ri, Af: af, Kind: "network", P: p})
			case ctx == "af":
				unknown(line)
			case vFrrRouterFlags[joined]:
				r.Flags = append(r.Flags, joined)
			case len(f) == 3 && f[0] == "bgp" && f[1] == "router-id":
				r.Routerid = append(r.Routerid, f[2])
			case len(f) == 3 && f[0] == "address-family" && (f[1] == "ipv4" || f[1] == "ipv6") && f[2] == "unicast":
				ctx, af = "af", f[1]
			case f[0] == "neighbor" && len(f) >= 3:
				if !vFrrNeighborLine(pr, ri, f) {
					unknown(line)
				}
			default:
				unknown(line)
			}
		case "bfd":
			if (f[0] == "profile" && len(f) == 2) || vFrrBfdWords[f[0]] {
				pr.Other++
			} else {
				unknown(line)
			}
		default:
			unknown(line)
		}
	}
	return pr
}

// ip|ipv6 prefix-list NAME seq N permit|deny any | P [ge n] [le n]
func vFrrPlistLine(pr *vFrrProgram, f []string) bool {
	n, ok := vFrrAtoi(f[4])
	if !ok || (f[5] != "permit" && f[5] != "deny") {
		return false
	}
	e := vFrrPlist{Af: f[0], Name: f[2], Seq: n, Action: f[5], Ge: -1, Le: -1, P: verifkit.FrrNoPrefix("any")}
	rest := f[6:]
	if rest[0] == "any" {
		e.Any = true
		rest = rest[1:]
	} else {
		p, ok := verifkit.FrrLexPrefixPlain(rest[0])
		if !ok {
			return false
		}
		e.P = p
		rest = rest[1:]
		for len(rest) >= 2 && (rest[0] == "ge" || rest[0] == "le") {
			v, ok := vFrrAtoi(rest[1])
			if !ok {
				return false
			}
			if rest[0] == "ge" {
				e.Ge = v
			} else {
				e.Le = v
			}
			rest = rest[2:]
		}
	}
	if len(rest) != 0 {
		return false
	}
	pr.Plists = append(pr.Plists, e)
	return true
}

// neighbor PEER <statement> inside `router bgp`
func vFrrNeighborLine(pr *vFrrProgram, ri int, f []string) bool {
	st := vFrrNbrStmt{Router: ri, Peer: f[1], Args: []string{}}
	a := f[2:]
	switch {
	case len(a) == 3 && a[0] == "interface" && a[1] == "remote-as":
		st.Stmt, st.Iface, st.Args = "remote-as", true, []string{a[2]}
	case len(a) == 2 && a[0] == "remote-as":
		st.Stmt, st.Args = "remote-as", []string{a[1]}
	case len(a) == 1 && (a[0] == "ebgp-multihop" || a[0] == "graceful-restart" || a[0] == "bfd" || a[0] == "disable-connected-check"):
		st.Stmt = a[0]
	case len(a) == 2 && (a[0] == "port" || a[0] == "password" || a[0] == "update-source"):
		st.Stmt, st.Args = a[0], []string{a[1]}
	case len(a) == 3 && a[0] == "timers" && a[1] == "connect":
		st.Stmt, st.Args = "timers connect", []string{a[2]}
	case len(a) == 3 && a[0] == "timers":
		st.Stmt, st.Args = "timers", []string{a[1], a[2]}
	case len(a) == 3 && a[0] == "bfd" && a[1] == "profile":
		st.Stmt, st.Args = "bfd profile", []string{a[2]}
	default:
		return false
	}
	pr.Nbrstmts = append(pr.Nbrstmts, st)
	return true
}
