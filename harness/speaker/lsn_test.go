//go:build verif

package main

// Role B harness of the listener family (C20), speaker side.  Every scenario is one run:
// goroutines deliver Service, configuration and node events through the REAL k8s.Listener
// wrappers (ServiceHandler / ConfigHandler / NodeHandler) into the real speaker controller (real
// layer2Controller + layer2.Announce, real bgpController with a recording session manager),
// while the real Layer2StatusReconciler and ServiceBGPStatusReconciler (fake API client, one per
// goroutine) consume Announce.GetStatus / PeersForService the way production does.  The closures
// registered in the Listener are harness wrappers: called by the Listener with its mutex held,
// they take the sequence number there, call the real handler and log (seq, event, result,
// snapshot).  Afterwards the same events are re-executed one at a time, in the recorded lock
// order, on a fresh controller.  The harness drives, projects and logs; it judges nothing.

import (
	"context"
	"encoding/json"
	"fmt"
	"math/rand"
	"net"
	"os"
	"reflect"
	"regexp"
	goruntime "runtime"
	"sort"
	"strconv"
	"strings"
	"sync"
	"sync/atomic"
	"testing"
	"time"

	"github.com/go-kit/log"
	metallbv1beta1 "go.universe.tf/metallb/api/v1beta1"
	"go.universe.tf/metallb/internal/bgp"
	"go.universe.tf/metallb/internal/config"
	"go.universe.tf/metallb/internal/k8s"
	"go.universe.tf/metallb/internal/k8s/controllers"
	"go.universe.tf/metallb/internal/layer2"
	"go.universe.tf/metallb/internal/speakerlist"
	kit "go.universe.tf/metallb/internal/verifkit"
	v1 "k8s.io/api/core/v1"
	discovery "k8s.io/api/discovery/v1"
	metav1 "k8s.io/apimachinery/pkg/apis/meta/v1"
	"k8s.io/apimachinery/pkg/labels"
	"k8s.io/apimachinery/pkg/runtime"
	"k8s.io/apimachinery/pkg/types"
	"k8s.io/apimachinery/pkg/util/sets"
	ctrl "sigs.k8s.io/controller-runtime"
	"sigs.k8s.io/controller-runtime/pkg/client"
	"sigs.k8s.io/controller-runtime/pkg/client/fake"
)

// ---------------------------------------------------------------- scenario format (alphabet of spec/Listener.tla)

type vlsBAdv struct {
	Agg4  int      `json:"agg4"`
	Agg6  int      `json:"agg6"`
	Lp    uint32   `json:"lp"`
	Peers []string `json:"peers"`
	Nodes []string `json:"nodes"`
}
type vlsLAdv struct {
	Nodes []string `json:"nodes"`
	All   bool     `json:"all"`
	Ifs   []string `json:"ifs"`
}
type vlsPool struct {
	Name  string    `json:"name"`
	Cidrs []string  `json:"cidrs"`
	Bgp   []vlsBAdv `json:"bgp"`
	L2    []vlsLAdv `json:"l2"`
}
type vlsPeer struct {
	Name string `json:"name"`
	Addr string `json:"addr"`
	Sel  string `json:"sel"`
}
type vlsCfg struct {
	Pools []vlsPool `json:"pools"`
	Peers []vlsPeer `json:"peers"`
}
type vlsNode struct {
	Name    string `json:"name"`
	Rack    string `json:"rack"`
	Unavail bool   `json:"unavail"`
	Excl    bool   `json:"excl"`
}
type vlsEp struct {
	Node  string `json:"node"`
	Ready bool   `json:"ready"`
}
type vlsObj struct {
	Type string  `json:"type"`
	Etp  string  `json:"etp"`
	Ips  []int   `json:"ips"`
	Eps  []vlsEp `json:"eps"`
}
type vlsEv struct {
	K       string   `json:"k"` // "svc" | "cfg" | "node"
	S       string   `json:"s,omitempty"`
	Obj     *vlsObj  `json:"obj,omitempty"` // absent = the Service was deleted
	Cfg     string   `json:"cfg,omitempty"` // configuration name; the nil name = no configuration
	CfgBody *vlsCfg  `json:"body,omitempty"`
	Node    *vlsNode `json:"node,omitempty"`
}
type vlsInit struct {
	Seed    int64  `json:"seed"`
	Stride  int64  `json:"stride"`
	NilCfg  string `json:"nilcfg"`
	L2Fetch int    `json:"l2fetch"`
	BgpFetch int   `json:"bgpfetch"`
}

const (
	vlsNS     = "metallb-system"
	vlsMyNode = "n1"
)

// ---------------------------------------------------------------- environment of the real controller

type vlsSL struct{}

func (vlsSL) UsableSpeakers() speakerlist.SpeakerListInfo {
	return speakerlist.SpeakerListInfo{Disabled: true}
}
func (vlsSL) Rejoin() {}

type vlsClient struct{}

func (vlsClient) UpdateStatus(*v1.Service) error                     { return nil }
func (vlsClient) Infof(*v1.Service, string, string, ...interface{})  {}
func (vlsClient) Errorf(*v1.Service, string, string, ...interface{}) {}

// recording session manager (no network)
type vlsSessions struct {
	mu   sync.Mutex
	sess []*vlsSession
}
type vlsSession struct {
	m      *vlsSessions
	name   string
	addr   string
	ads    []string
	closed bool
}

func vlsAdString(a *bgp.Advertisement) string {
	comms := []string{}
	for _, c := range a.Communities {
		comms = append(comms, c.String())
	}
	return fmt.Sprintf("%s lp=%d peers=%s comms=%s", a.Prefix.String(), a.LocalPref, strings.Join(a.Peers, ","), strings.Join(comms, ","))
}

func (s *vlsSession) Set(ads ...*bgp.Advertisement) error {
	l := make([]string, 0, len(ads))
	for _, a := range ads {
		l = append(l, vlsAdString(a))
	}
	sort.Strings(l)
	s.m.mu.Lock()
	s.ads = l
	s.m.mu.Unlock()
	return nil
}
func (s *vlsSession) Close() error {
	s.m.mu.Lock()
	s.closed = true
	s.m.mu.Unlock()
	return nil
}
func (m *vlsSessions) NewSession(_ log.Logger, p bgp.SessionParameters) (bgp.Session, error) {
	m.mu.Lock()
	defer m.mu.Unlock()
	s := &vlsSession{m: m, name: p.SessionName, addr: p.PeerAddress}
	m.sess = append(m.sess, s)
	return s, nil
}
func (m *vlsSessions) SyncBFDProfiles(map[string]*config.BFDProfile) error { return nil }
func (m *vlsSessions) SyncExtraInfo(string) error                          { return nil }
func (m *vlsSessions) SetEventCallback(func(interface{}))                  {}

// open sessions with their current advertisements, and the number of sessions closed so far
func (m *vlsSessions) project() ([]string, int) {
	m.mu.Lock()
	defer m.mu.Unlock()
	out := []string{}
	closed := 0
	for _, s := range m.sess {
		if s.closed {
			closed++
			continue
		}
		out = append(out, s.name+"@"+s.addr+" ["+strings.Join(s.ads, "; ")+"]")
	}
	sort.Strings(out)
	return out, closed
}

var (
	vlsOnce    sync.Once
	vlsExclude *regexp.Regexp
	vlsIfNames = map[string]string{"if0": "verif-if0", "if1": "verif-if1"}
	vlsIfCount int
)

// vlsSetup: the announcers must not open sockets on the machine's interfaces: every interface
// that is up is excluded from layer 2; the remaining (down) ones stand for if0 / if1.
func vlsSetup() {
	vlsOnce.Do(func() {
		newBGP = func(controllerConfig) bgp.SessionManager { return &vlsSessions{} }
		ifs, _ := net.Interfaces()
		var up, down []string
		for _, i := range ifs {
			if i.Flags&net.FlagUp != 0 {
				up = append(up, regexp.QuoteMeta(i.Name))
			} else {
				down = append(down, i.Name)
			}
		}
		sort.Strings(down)
		if len(up) > 0 {
			vlsExclude = regexp.MustCompile("^(" + strings.Join(up, "|") + ")$")
		}
		for k, n := range down {
			if k < 2 {
				vlsIfNames["if"+strconv.Itoa(k)] = n
			}
		}
		vlsIfCount = len(down)
	})
}

// ---------------------------------------------------------------- records

type vlsCb struct {
	T    int64    `json:"t"`
	What string   `json:"what"`
	Key  string   `json:"key"`
	Val  []string `json:"val"`
}

type vlsSnap map[string]any

type vlsOut struct {
	Res   string
	Snap  vlsSnap
	Panic map[string]string
}

type vlsRec struct {
	seq    int64
	who    int
	ev     *vlsEv
	svc    *v1.Service
	eps    []discovery.EndpointSlice
	t0, t1 int64
	out    vlsOut
	cbs    []vlsCb
}

type vlsLogger struct{ rec *vlsRec }

func (*vlsLogger) Log(...interface{}) error { return nil }

type vlsFetch struct {
	What string   `json:"what"`
	Key  string   `json:"key"`
	Val  []string `json:"val"`
	Len  int      `json:"len"`
	B    int64    `json:"b"`
	E    int64    `json:"e"`
}

type vlsRun struct {
	id      string
	serial  bool
	nilCfg  string
	clk     kit.LsnClock
	seq     int64
	c       *controller
	bgpc    *bgpController
	ann     *layer2.Announce
	mgr     *vlsSessions
	lsn     *k8s.Listener
	cur     atomic.Pointer[vlsRec]
	crashed atomic.Bool
	logMu   sync.Mutex
	recs    []*vlsRec
	fetches []vlsFetch
	ferrs   []string
	l2Ch    chan string
	bgpCh   chan string
	gidMu   sync.Mutex
	gids    map[int64]bool
}

func vlsNewRun(id string, serial bool, nilCfg string) *vlsRun {
	vlsSetup()
	r := &vlsRun{id: id, serial: serial, nilCfg: nilCfg, gids: map[int64]bool{}}
	if !serial {
		r.l2Ch = make(chan string)  // unbuffered, as l2StatusChan of speaker/main.go
		r.bgpCh = make(chan string) // unbuffered, as bgpStatusChan
	}
	c, err := newController(controllerConfig{
		MyNode:                 vlsMyNode,
		Namespace:              vlsNS,
		Logger:                 log.NewNopLogger(),
		SList:                  vlsSL{},
		bgpType:                bgpNative,
		InterfaceExcludeRegexp: vlsExclude,
		Layer2StatusChange:     r.onL2,
		BGPAdsChangedCallback:  r.onAds,
	})
	if err != nil {
		panic("newController: " + err.Error())
	}
	c.client = vlsClient{}
	r.c = c
	r.bgpc = c.protocolHandlers[config.BGP].(*bgpController)
	r.mgr = r.bgpc.sessionManager.(*vlsSessions)
	r.ann = c.protocolHandlers[config.Layer2].(*layer2Controller).announcer
	// the first interface scan of the announcer runs in its own goroutine: wait for it, so that
	// the interface list does not depend on timing
	for k := 0; len(r.ann.GetInterfaces()) < vlsIfCount; k++ {
		if k > 60000 {
			panic("verif: the announcer's first interface scan did not complete in 30s")
		}
		time.Sleep(500 * time.Microsecond)
	}
	r.lsn = &k8s.Listener{ServiceChanged: r.svcChanged, ConfigChanged: r.cfgChanged, NodeChanged: r.nodeChanged}
	return r
}

// ---------------------------------------------------------------- callbacks of the real code

// vlsAnnSnapshot projects the announcer: per service the advertisements (address, interfaces) and
// the address reference counts.  IPAdvertisement has no accessor for its address and ipRefcnt is
// unexported: both are read through reflection (kind-specific getters, no mutation).  Callers hold
// the Listener's mutex or run when no handler can run, so nothing writes concurrently.
func vlsAnnSnapshot(a *layer2.Announce) (map[string][]string, map[string]int) {
	ips := map[string][]string{}
	for _, key := range vlsSvcKeys {
		i := strings.IndexByte(key, '/')
		l := a.GetStatus(types.NamespacedName{Namespace: key[:i], Name: key[i+1:]})
		if len(l) == 0 {
			continue
		}
		out := make([]string, 0, len(l))
		for k := range l {
			adv := l[k]
			ip := net.IP(append([]byte(nil), reflect.ValueOf(adv).FieldByName("ip").Bytes()...))
			ifs := sets.List(adv.GetInterfaces())
			out = append(out, fmt.Sprintf("%d all=%v ifs=%s", kit.Abs(ip), adv.IsAllInterfaces(), strings.Join(ifs, ",")))
		}
		ips[key] = out
	}
	ref := map[string]int{}
	it := reflect.ValueOf(a).Elem().FieldByName("ipRefcnt").MapRange()
	for it.Next() {
		ref[it.Key().String()] = int(it.Value().Int())
	}
	return ips, ref
}

// onL2 is layer2Controller.onStatusChange: called by the handler goroutine after it changed the
// announcements of one service.
func (r *vlsRun) onL2(nn types.NamespacedName) {
	ips, _ := vlsAnnSnapshot(r.ann)
	v := ips[nn.String()]
	if v == nil {
		v = []string{}
	}
	t := r.clk.Tick()
	if rec := r.cur.Load(); rec != nil {
		rec.cbs = append(rec.cbs, vlsCb{T: t, What: "l2", Key: nn.String(), Val: v})
	}
	if r.l2Ch != nil {
		r.l2Ch <- nn.String()
	}
}

// onAds is bgpController.adsChangedCallback: called after the set of peers of one service changed.
func (r *vlsRun) onAds(key string) {
	// read without activeAdsMutex: the caller is the handler goroutine, the only writer, and the
	// callback must not depend on which locks bgpController holds while it notifies
	v := sets.List(r.bgpc.activeAds[key])
	if v == nil {
		v = []string{}
	}
	t := r.clk.Tick()
	if rec := r.cur.Load(); rec != nil {
		rec.cbs = append(rec.cbs, vlsCb{T: t, What: "peers", Key: key, Val: v})
	}
	if r.bgpCh != nil {
		r.bgpCh <- key
	}
}

// ---------------------------------------------------------------- the wrappers registered in the Listener

func (r *vlsRun) enter(l log.Logger) *vlsRec {
	rec := l.(*vlsLogger).rec
	rec.seq = atomic.AddInt64(&r.seq, 1) // inside the Listener's critical section
	rec.t0 = r.clk.Tick()
	r.cur.Store(rec)
	return rec
}

func (r *vlsRun) leave(rec *vlsRec, p interface{}) {
	if p != nil {
		rec.out.Panic = kit.LsnPanic(p)
		rec.out.Res = "Panic"
		r.crashed.Store(true)
	}
	if rec.out.Snap == nil {
		rec.out.Snap = vlsEmptySnap()
	}
	r.cur.Store(nil)
	rec.t1 = r.clk.Tick()
	r.logMu.Lock()
	r.recs = append(r.recs, rec)
	r.logMu.Unlock()
}

func vlsResName(s controllers.SyncState) string {
	switch s {
	case controllers.SyncStateSuccess:
		return "Success"
	case controllers.SyncStateError:
		return "Error"
	case controllers.SyncStateErrorNoRetry:
		return "ErrorNoRetry"
	case controllers.SyncStateReprocessAll:
		return "ReprocessAll"
	}
	return "?"
}

func (r *vlsRun) svcChanged(l log.Logger, name string, svc *v1.Service, eps []discovery.EndpointSlice) (st controllers.SyncState) {
	rec := r.enter(l)
	defer func() {
		p := recover()
		if p != nil {
			st = controllers.SyncStateError
		}
		r.leave(rec, p)
	}()
	st = r.c.SetBalancer(l, name, svc, eps)
	rec.out.Res = vlsResName(st)
	rec.out.Snap = r.snapshot()
	return st
}

func (r *vlsRun) cfgChanged(l log.Logger, cfg *config.Config) (st controllers.SyncState) {
	rec := r.enter(l)
	defer func() {
		p := recover()
		if p != nil {
			st = controllers.SyncStateError
		}
		r.leave(rec, p)
	}()
	st = r.c.SetConfig(l, cfg)
	rec.out.Res = vlsResName(st)
	rec.out.Snap = r.snapshot()
	return st
}

func (r *vlsRun) nodeChanged(l log.Logger, n *v1.Node) (st controllers.SyncState) {
	rec := r.enter(l)
	defer func() {
		p := recover()
		if p != nil {
			st = controllers.SyncStateError
		}
		r.leave(rec, p)
	}()
	st = r.c.SetNode(l, n)
	rec.out.Res = vlsResName(st)
	rec.out.Snap = r.snapshot()
	return st
}

func vlsEmptySnap() vlsSnap {
	return vlsSnap{"cfg": "", "nodes": []string{}, "announced": []string{}, "svcips": []string{}, "l2": []string{}, "refcnt": []string{},
		"svcads": []string{}, "active": []string{}, "peers": []string{}, "sessions": []string{}, "closed": 0}
}

// snapshot projects the speaker's state (called by the handler goroutine, i.e. with the
// Listener's mutex held; the announcer and the session manager are read under their own locks).
func (r *vlsRun) snapshot() vlsSnap {
	s := vlsEmptySnap()
	if r.c.config != nil {
		s["cfg"] = r.c.config.BGPExtras
	}
	nodes := []string{}
	for name, n := range r.c.nodes {
		nodes = append(nodes, vlsNodeString(name, n))
	}
	sort.Strings(nodes)
	s["nodes"] = nodes
	ann := []string{}
	for proto, m := range r.c.announced {
		for svc, ok := range m {
			if ok {
				ann = append(ann, string(proto)+"|"+svc)
			}
		}
	}
	sort.Strings(ann)
	s["announced"] = ann
	sips := []string{}
	for svc, ips := range r.c.svcIPs {
		l := []string{}
		for _, ip := range ips {
			l = append(l, strconv.Itoa(kit.Abs(ip)))
		}
		sips = append(sips, svc+"="+strings.Join(l, ","))
	}
	sort.Strings(sips)
	s["svcips"] = sips
	ips, ref := vlsAnnSnapshot(r.ann)
	l2 := []string{}
	for svc, l := range ips {
		l2 = append(l2, svc+": "+strings.Join(l, " | "))
	}
	sort.Strings(l2)
	s["l2"] = l2
	rc := []string{}
	for ip, n := range ref {
		if n != 0 {
			rc = append(rc, strconv.Itoa(kit.Abs(net.ParseIP(ip)))+"="+strconv.Itoa(n))
		}
	}
	sort.Strings(rc)
	s["refcnt"] = rc
	sa := []string{}
	for svc, ads := range r.bgpc.svcAds {
		l := []string{}
		for _, a := range ads {
			l = append(l, vlsAdString(a))
		}
		sort.Strings(l)
		sa = append(sa, svc+": "+strings.Join(l, "; "))
	}
	sort.Strings(sa)
	s["svcads"] = sa
	act := []string{}
	r.bgpc.activeAdsMutex.RLock()
	for svc, ps := range r.bgpc.activeAds {
		act = append(act, svc+": "+strings.Join(sets.List(ps), ","))
	}
	r.bgpc.activeAdsMutex.RUnlock()
	sort.Strings(act)
	s["active"] = act
	peers := []string{}
	for _, p := range r.bgpc.peers {
		peers = append(peers, fmt.Sprintf("%s session=%v", p.cfg.Name, p.session != nil))
	}
	sort.Strings(peers)
	s["peers"] = peers
	s["sessions"], s["closed"] = r.mgr.project()
	return s
}

func vlsNodeString(name string, n *v1.Node) string {
	un := false
	for _, c := range n.Status.Conditions {
		if c.Type == v1.NodeNetworkUnavailable && c.Status == v1.ConditionTrue {
			un = true
		}
	}
	_, ex := n.Labels[v1.LabelNodeExcludeBalancers]
	return fmt.Sprintf("%s rack=%s unavail=%v excl=%v", name, n.Labels["rack"], un, ex)
}

// ---------------------------------------------------------------- concretisation and delivery

func vlsMakeConfig(name string, b *vlsCfg) *config.Config {
	cfg := &config.Config{Peers: map[string]*config.Peer{}, Pools: &config.Pools{ByName: map[string]*config.Pool{}},
		BFDProfiles: map[string]*config.BFDProfile{}, BGPExtras: name}
	nodeSet := func(l []string) map[string]bool {
		m := map[string]bool{}
		for _, n := range l {
			m[n] = true
		}
		return m
	}
	for _, p := range b.Pools {
		pool := &config.Pool{Name: p.Name, AutoAssign: true}
		for _, c := range p.Cidrs {
			_, n, err := net.ParseCIDR(c)
			kit.Must(err)
			pool.CIDR = append(pool.CIDR, n)
		}
		for _, a := range p.Bgp {
			adv := &config.BGPAdvertisement{AggregationLength: a.Agg4, AggregationLengthV6: a.Agg6, LocalPref: a.Lp, Nodes: nodeSet(a.Nodes)}
			adv.Peers = append(adv.Peers, a.Peers...)
			pool.BGPAdvertisements = append(pool.BGPAdvertisements, adv)
		}
		for _, a := range p.L2 {
			adv := &config.L2Advertisement{Nodes: nodeSet(a.Nodes), AllInterfaces: a.All}
			for _, i := range a.Ifs {
				adv.Interfaces = append(adv.Interfaces, vlsIfNames[i])
			}
			pool.L2Advertisements = append(pool.L2Advertisements, adv)
		}
		cfg.Pools.ByName[p.Name] = pool
	}
	for _, p := range b.Peers {
		peer := &config.Peer{Name: p.Name, Addr: net.ParseIP(p.Addr), ASN: 64512, MyASN: 64512, Port: 179}
		if p.Sel != "" {
			kv := strings.SplitN(p.Sel, "=", 2)
			peer.NodeSelectors = []labels.Selector{labels.SelectorFromSet(labels.Set{kv[0]: kv[1]})}
		}
		cfg.Peers[p.Name] = peer
	}
	return cfg
}

func vlsMakeNode(n *vlsNode) *v1.Node {
	node := &v1.Node{ObjectMeta: metav1.ObjectMeta{Name: n.Name, Labels: map[string]string{"rack": n.Rack}}}
	if n.Excl {
		node.Labels[v1.LabelNodeExcludeBalancers] = ""
	}
	st := v1.ConditionFalse
	if n.Unavail {
		st = v1.ConditionTrue
	}
	node.Status.Conditions = []v1.NodeCondition{{Type: v1.NodeNetworkUnavailable, Status: st}}
	return node
}

func vlsMakeService(s string, o *vlsObj) (*v1.Service, []discovery.EndpointSlice) {
	m := kit.Dom().SvcMeta[s]
	svc := &v1.Service{ObjectMeta: metav1.ObjectMeta{Name: s, Namespace: m.Ns}}
	svc.Spec.Type = v1.ServiceTypeClusterIP
	if o.Type == "LB" {
		svc.Spec.Type = v1.ServiceTypeLoadBalancer
	}
	svc.Spec.ExternalTrafficPolicy = v1.ServiceExternalTrafficPolicyType(o.Etp)
	for _, a := range o.Ips {
		svc.Status.LoadBalancer.Ingress = append(svc.Status.LoadBalancer.Ingress, v1.LoadBalancerIngress{IP: kit.IP(a).String()})
	}
	slice := discovery.EndpointSlice{ObjectMeta: metav1.ObjectMeta{Name: s + "-eps", Namespace: m.Ns}}
	for k, e := range o.Eps {
		node := e.Node
		ready := e.Ready
		slice.Endpoints = append(slice.Endpoints, discovery.Endpoint{Addresses: []string{"10.244.0." + strconv.Itoa(k+1)},
			NodeName: &node, Conditions: discovery.EndpointConditions{Ready: &ready, Serving: &ready}})
	}
	return svc, []discovery.EndpointSlice{slice}
}

func (r *vlsRun) build(who int, ev *vlsEv) *vlsRec {
	rec := &vlsRec{who: who, ev: ev}
	if ev.K == "svc" && ev.Obj != nil {
		rec.svc, rec.eps = vlsMakeService(ev.S, ev.Obj)
	}
	return rec
}

func (r *vlsRun) deliver(rec *vlsRec) {
	l := &vlsLogger{rec: rec}
	switch rec.ev.K {
	case "svc":
		var svc *v1.Service
		var eps []discovery.EndpointSlice
		if rec.svc != nil {
			svc = rec.svc.DeepCopy()
			for _, e := range rec.eps {
				eps = append(eps, *e.DeepCopy())
			}
		}
		r.lsn.ServiceHandler(l, kit.SvcKey(rec.ev.S), svc, eps)
	case "cfg":
		var cfg *config.Config
		if rec.ev.Cfg != r.nilCfg {
			cfg = vlsMakeConfig(rec.ev.Cfg, rec.ev.CfgBody) // a fresh object per delivery, as the config reconciler produces
		}
		r.lsn.ConfigHandler(l, cfg)
	case "node":
		r.lsn.NodeHandler(l, vlsMakeNode(rec.ev.Node))
	default:
		panic("unknown event kind " + rec.ev.K)
	}
}

func (r *vlsRun) track() func() {
	id := kit.LsnGoid()
	r.gidMu.Lock()
	r.gids[id] = true
	r.gidMu.Unlock()
	return func() {
		r.gidMu.Lock()
		delete(r.gids, id)
		r.gidMu.Unlock()
	}
}

func (r *vlsRun) liveGids() map[int64]bool {
	r.gidMu.Lock()
	defer r.gidMu.Unlock()
	out := map[int64]bool{}
	for k := range r.gids {
		out[k] = true
	}
	return out
}

// ---------------------------------------------------------------- the status reconcilers as consumers

var vlsScheme = func() *runtime.Scheme {
	s := runtime.NewScheme()
	kit.Must(metallbv1beta1.AddToScheme(s))
	kit.Must(v1.AddToScheme(s))
	return s
}()

type vlsPending struct {
	mu sync.Mutex
	q  []string
}

func (p *vlsPending) add(s string) {
	p.mu.Lock()
	defer p.mu.Unlock()
	for _, x := range p.q {
		if x == s {
			return
		}
	}
	p.q = append(p.q, s)
}

func (p *vlsPending) take() string {
	p.mu.Lock()
	defer p.mu.Unlock()
	if len(p.q) == 0 {
		return ""
	}
	s := p.q[0]
	p.q = p.q[1:]
	return s
}

var vlsSvcKeys = []string{"ns1/s1", "ns1/s2", "ns2/s3", "ns2/s4"}

func vlsSpeakerPod() *v1.Pod {
	return &v1.Pod{TypeMeta: metav1.TypeMeta{Kind: "Pod", APIVersion: "v1"},
		ObjectMeta: metav1.ObjectMeta{Name: "speaker-n1", Namespace: vlsNS, UID: "11111111-1111-1111-1111-111111111111"}}
}

func (r *vlsRun) pace(stride int64, stop *atomic.Bool) {
	for next := r.clk.Now() + stride; r.clk.Now() < next && !stop.Load() && !r.crashed.Load(); {
		goruntime.Gosched()
	}
}

func (r *vlsRun) request(rnd *rand.Rand, pending *vlsPending) ctrl.Request {
	key := pending.take()
	if key == "" {
		key = vlsSvcKeys[rnd.Intn(len(vlsSvcKeys))]
	}
	i := strings.IndexByte(key, '/')
	return ctrl.Request{NamespacedName: types.NamespacedName{Namespace: key[:i], Name: key[i+1:]}}
}

// l2Fetcher runs the real Layer2StatusReconciler; its StatusFetcher is the speaker's real
// layer2StatusFetchFunc (Announce.GetStatus) bracketed by two clock ticks.  The wrapper looks at
// the length of the returned slice only; the elements are read by the reconciler.
func (r *vlsRun) l2Fetcher(rnd *rand.Rand, pending *vlsPending, stop *atomic.Bool, stride int64) {
	defer r.track()()
	cl := fake.NewClientBuilder().WithScheme(vlsScheme).
		WithStatusSubresource(&metallbv1beta1.ServiceL2Status{}).
		WithIndex(&metallbv1beta1.ServiceL2Status{}, "status.serviceName", func(o client.Object) []string {
			l := o.GetLabels()
			return []string{types.NamespacedName{Name: l[controllers.LabelServiceName], Namespace: l[controllers.LabelServiceNamespace]}.String()}
		}).Build()
	var mine []vlsFetch
	var errs []string
	rec := &controllers.Layer2StatusReconciler{Client: cl, Logger: log.NewNopLogger(), NodeName: vlsMyNode, Namespace: vlsNS,
		SpeakerPod: vlsSpeakerPod(),
		StatusFetcher: func(nn types.NamespacedName) []layer2.IPAdvertisement {
			t0 := r.clk.Tick()
			v := r.c.layer2StatusFetchFunc(nn)
			t1 := r.clk.Tick()
			mine = append(mine, vlsFetch{What: "l2", Key: nn.String(), Val: []string{}, Len: len(v), B: t0, E: t1})
			return v
		}}
	for !stop.Load() && !r.crashed.Load() && len(mine) < 4000 {
		if _, err := rec.Reconcile(context.Background(), r.request(rnd, pending)); err != nil {
			errs = append(errs, "l2: "+err.Error())
		}
		r.pace(stride, stop)
	}
	r.logMu.Lock()
	r.fetches = append(r.fetches, mine...)
	r.ferrs = append(r.ferrs, errs...)
	r.logMu.Unlock()
}

// bgpFetcher runs the real ServiceBGPStatusReconciler; its PeersFetcher is the real
// bgpController.PeersForService bracketed by two clock ticks.
func (r *vlsRun) bgpFetcher(rnd *rand.Rand, pending *vlsPending, stop *atomic.Bool, stride int64) {
	defer r.track()()
	cl := fake.NewClientBuilder().WithScheme(vlsScheme).
		WithStatusSubresource(&metallbv1beta1.ServiceBGPStatus{}).
		WithIndex(&metallbv1beta1.ServiceBGPStatus{}, "status.serviceName", func(o client.Object) []string {
			l := o.GetLabels()
			return []string{fmt.Sprintf("%s/%s-%s", l[controllers.LabelServiceNamespace], l[controllers.LabelServiceName], l[controllers.LabelAnnounceNode])}
		}).Build()
	var mine []vlsFetch
	var errs []string
	rec := &controllers.ServiceBGPStatusReconciler{Client: cl, Logger: log.NewNopLogger(), NodeName: vlsMyNode, Namespace: vlsNS,
		SpeakerPod: vlsSpeakerPod(),
		PeersFetcher: func(key string) sets.Set[string] {
			t0 := r.clk.Tick()
			v := r.c.bgpPeersFetcher(key)
			l := sets.List(v)
			t1 := r.clk.Tick()
			if l == nil {
				l = []string{}
			}
			mine = append(mine, vlsFetch{What: "peers", Key: key, Val: l, Len: len(l), B: t0, E: t1})
			return v
		}}
	for !stop.Load() && !r.crashed.Load() && len(mine) < 4000 {
		if _, err := rec.Reconcile(context.Background(), r.request(rnd, pending)); err != nil {
			errs = append(errs, "bgp: "+err.Error())
		}
		r.pace(stride, stop)
	}
	r.logMu.Lock()
	r.fetches = append(r.fetches, mine...)
	r.ferrs = append(r.ferrs, errs...)
	r.logMu.Unlock()
}

// ---------------------------------------------------------------- one run

func vlsEvLine(ev *vlsEv) map[string]any {
	m := map[string]any{"ev": ev.K, "s": ev.S, "cfg": ev.Cfg}
	if ev.Obj != nil {
		m["obj"] = ev.Obj
	} else {
		m["obj"] = map[string]any{"null": true}
	}
	if ev.Node != nil {
		m["node"] = ev.Node
	} else {
		m["node"] = map[string]any{"null": true}
	}
	return m
}

func vlsRunScenario(wk kit.Walk, blk *kit.Block, watchdog time.Duration) {
	var in vlsInit
	kit.Must(json.Unmarshal(wk.Init, &in))
	scripts := make([][]vlsEv, len(wk.Steps))
	for i, raw := range wk.Steps {
		kit.Must(json.Unmarshal(raw, &scripts[i]))
	}
	r := vlsNewRun(wk.ID, false, in.NilCfg)
	snap0 := r.snapshot()
	l2Pending, bgpPending := &vlsPending{}, &vlsPending{}
	var stop atomic.Bool
	consumerDone := make(chan struct{})
	stopConsumer := make(chan struct{})
	go func() { // the channel sources of the two status controllers
		defer close(consumerDone)
		for {
			select {
			case k := <-r.l2Ch:
				l2Pending.add(k)
			case k := <-r.bgpCh:
				bgpPending.add(k)
			case <-stopConsumer:
				return
			}
		}
	}()
	var fwg, dwg sync.WaitGroup
	for f := 0; f < in.L2Fetch; f++ {
		fwg.Add(1)
		rnd := rand.New(rand.NewSource(in.Seed*31 + int64(f)))
		go func() { defer fwg.Done(); r.l2Fetcher(rnd, l2Pending, &stop, in.Stride) }()
	}
	for f := 0; f < in.BgpFetch; f++ {
		fwg.Add(1)
		rnd := rand.New(rand.NewSource(in.Seed*37 + int64(f)))
		go func() { defer fwg.Done(); r.bgpFetcher(rnd, bgpPending, &stop, in.Stride) }()
	}
	start := make(chan struct{})
	for d := range scripts {
		dwg.Add(1)
		go func(d int) {
			defer dwg.Done()
			defer r.track()()
			<-start
			for k := range scripts[d] {
				if r.crashed.Load() {
					return
				}
				r.deliver(r.build(d, &scripts[d][k]))
			}
		}(d)
	}
	done := make(chan struct{})
	go func() {
		close(start)
		dwg.Wait()
		stop.Store(true)
		fwg.Wait()
		close(stopConsumer)
		<-consumerDone
		close(done)
	}()
	verdict := kit.LsnWatch(done, watchdog, 2*time.Second, r.clk.Now, r.liveGids)
	n := 0
	line := func(m map[string]any) {
		m["w"], m["side"], m["n"] = wk.ID, "spk", n
		n++
		blk.Add(m)
	}
	line(map[string]any{"k": "init", "deliverers": len(scripts), "fetchers": in.L2Fetch + in.BgpFetch, "snap0": snap0})
	if verdict.Deadlock || verdict.Stall {
		line(map[string]any{"k": "mon", "panics": []any{}, "deadlock": verdict.Deadlock, "stall": verdict.Stall,
			"sites": verdict.Sites, "states": verdict.States, "ferrs": []string{}})
		return
	}
	recs := r.recs
	sort.Slice(recs, func(i, j int) bool { return recs[i].seq < recs[j].seq })
	// serial re-execution: same events, same objects, recorded lock order, fresh instance
	s := vlsNewRun(wk.ID, true, in.NilCfg)
	ser := make([]*vlsRec, len(recs))
	for i, rec := range recs {
		ser[i] = &vlsRec{who: rec.who, ev: rec.ev, svc: rec.svc, eps: rec.eps}
		if !s.crashed.Load() {
			s.deliver(ser[i])
		} else {
			ser[i].out = vlsOut{Res: "NotRun", Snap: vlsEmptySnap()}
		}
	}
	panics := []any{}
	for i, rec := range recs {
		m := vlsEvLine(rec.ev)
		m["k"], m["seq"], m["who"], m["t0"], m["t1"] = "h", rec.seq, rec.who, rec.t0, rec.t1
		m["res"], m["snap"] = rec.out.Res, rec.out.Snap
		cbs := rec.cbs
		if cbs == nil {
			cbs = []vlsCb{}
		}
		m["cb"] = cbs
		m["ser"] = map[string]any{"res": ser[i].out.Res, "snap": ser[i].out.Snap}
		if rec.out.Panic != nil {
			panics = append(panics, rec.out.Panic)
		}
		if ser[i].out.Panic != nil {
			panics = append(panics, ser[i].out.Panic)
		}
		line(m)
	}
	sort.Slice(r.fetches, func(i, j int) bool { return r.fetches[i].B < r.fetches[j].B })
	for _, f := range r.fetches {
		line(map[string]any{"k": "f", "what": f.What, "key": f.Key, "val": f.Val, "len": f.Len, "b": f.B, "e": f.E})
	}
	line(map[string]any{"k": "final", "snap": r.snapshot(), "ser": map[string]any{"snap": s.snapshot()},
		"handlers": len(recs), "fetches": len(r.fetches)})
	ferrs := r.ferrs
	if ferrs == nil {
		ferrs = []string{}
	}
	if len(ferrs) > 5 {
		ferrs = ferrs[:5]
	}
	line(map[string]any{"k": "mon", "panics": panics, "deadlock": false, "stall": false, "sites": []string{}, "states": []string{}, "ferrs": ferrs})
}

func TestVerifListenerSpeaker(t *testing.T) {
	walks := kit.ReadWalks()
	out := kit.NewObsWriter()
	defer out.Close()
	wd := 30 * time.Second
	if v := os.Getenv("VERIF_LSN_WATCHDOG_MS"); v != "" {
		ms, _ := strconv.Atoi(v)
		wd = time.Duration(ms) * time.Millisecond
	}
	kit.ForEachWalk(walks, out, func(wk kit.Walk, blk *kit.Block) { vlsRunScenario(wk, blk, wd) })
}
