------------------------------ MODULE FRRProps ------------------------------
(***************************************************************************)
(* C14 / C15: the property predicates, stated over (sessions, program) and  *)
(* (sessions, resource) with the semantics of FRRFilter.  Used by role A    *)
(* (FRRMC: on the reference generator) and by role C (FRRTrace: on what the *)
(* real code produced).  Each operator returns the NAMES of the failing     *)
(* conjuncts, so that a judge never stops at the first failure.             *)
(*                                                                          *)
(* sessions : Seq(session record of FRRMC / harness echo)                   *)
(* created  : Seq(BOOLEAN), NewSession succeeded and the session is open    *)
(***************************************************************************)
EXTENDS FRRFilter

If(c, name) == IF c THEN {} ELSE {name}

Pfx(fam, oct, len) == [fam |-> fam, oct |-> oct, len |-> len]
V6(a, b, c, d) == <<a, b, c, d, 0, 0, 0, 0, 0, 0, 0, 0, 0, 0, 0, 0>>

(* probes: prefixes nobody requests must not pass; includes covering / covered neighbours of the catalogue *)
Probes ==
  {Pfx(4, <<0, 0, 0, 0>>, 0), Pfx(4, <<10, 20, 30, 0>>, 23), Pfx(4, <<10, 20, 30, 0>>, 24), Pfx(4, <<10, 20, 30, 0>>, 25),
   Pfx(4, <<10, 20, 30, 128>>, 25), Pfx(4, <<10, 20, 30, 1>>, 32), Pfx(4, <<10, 20, 30, 0>>, 32), Pfx(4, <<10, 20, 31, 0>>, 24),
   Pfx(4, <<9, 9, 9, 0>>, 24), Pfx(4, <<192, 0, 2, 1>>, 32),
   Pfx(6, V6(0, 0, 0, 0), 0), Pfx(6, V6(252, 0, 0, 1), 64), Pfx(6, V6(252, 0, 0, 1), 65), Pfx(6, V6(252, 0, 0, 1), 63),
   Pfx(6, <<252, 0, 0, 1, 0, 0, 0, 0, 0, 0, 0, 0, 0, 0, 0, 1>>, 128), Pfx(6, V6(252, 0, 0, 2), 64), Pfx(6, V6(32, 1, 13, 184), 32)}

AllAdvs(s) == Range(s.advs) \cup Range(s.pre)
Universe(sessions, extra) ==
  Probes \cup extra \cup UNION {{Norm(a.p) : a \in AllAdvs(sessions[i])} : i \in DOMAIN sessions}

(* a secret reference: the name, the namespace, or both are given (the namespace is optional, and a reference that *)
(* only has a namespace still is "some reference" for the session manager)                                      *)
HasRef(r) == r.name # "" \/ r.ns # ""
Both(s) == s.pw # "" /\ HasRef(s.pwref)
SessIn(sessions, L, vrf) == {i \in L : sessions[i].vrf = vrf}

----------------------------------------------------------------------------
(* C14 *)
ParamFails14(prog, s) ==
  LET v == s.vrf
      x == PeerOf(s)
      A(stmt) == NbrArgs(prog, v, x, stmt)
      asn == IF s.dyn # "" THEN s.dyn ELSE s.asn
  IN If(RouterIdx(prog, v) # {} /\ RouterAsns(prog, v) = {s.myasn}, "C14.Params.router")
     \cup If(/\ A("remote-as") = {<<asn>>}
             /\ \A i \in NbrIdx(prog, v, x) : prog.nbrstmts[i].stmt = "remote-as" => prog.nbrstmts[i].iface = (s.iface # ""),
             "C14.Params.asn")
     \cup If(A("port") = {<<s.port>>} \/ (s.port = "179" /\ A("port") = {}), "C14.Params.port")       \* 179 is FRR's default
     \cup If(A("timers") = (IF s.hold # "" /\ s.keepalive # "" THEN {<<s.keepalive, s.hold>>} ELSE {}), "C14.Params.timers")
     \cup If(A("timers connect") = (IF s.connect # "" THEN {<<s.connect>>} ELSE {}), "C14.Params.connect")
     \cup If(A("password") = (IF s.pw # "" THEN {<<s.pw>>} ELSE {}), "C14.Params.password")
     \cup If(A("update-source") = (IF s.src # "" THEN {<<s.src>>} ELSE {}), "C14.Params.source")
     \cup If((A("ebgp-multihop") # {}) = s.multihop, "C14.Params.multihop")
     \cup If(/\ A("bfd profile") = (IF s.bfd # "" THEN {<<s.bfd>>} ELSE {})
             /\ (s.bfd = "" => A("bfd") = {}), "C14.Params.bfd")                     \* `bfd profile P` implies `bfd`
     \cup If({f \in {4, 6} : Activated(prog, v, x, f)} = (IF s.disablemp THEN {s.afam} ELSE {4, 6}), "C14.Params.activation")

SessionFails14(sessions, prog, s) ==
  LET v == s.vrf
      x == PeerOf(s)
      U == Universe(sessions, Mentioned(prog))
  IN If(Offered(prog, v, x) = Requested(s), "C14.ExactPerNeighbor")
     \cup If(\A q \in U \ ReqPrefixes(s) : ~PassesOut(prog, v, x, q), "C14.OtherRejected")
     \cup If(\A q \in U : ~PassesIn(prog, v, x, q), "C14.InboundDenied")
     \cup ParamFails14(prog, s)

(* L = the sessions that must be present *)
Fails14(sessions, L, prog) ==
  LET vrfs == {sessions[i].vrf : i \in L} IN
  UNION {SessionFails14(sessions, prog, sessions[i]) : i \in L}
  \cup If(\A v \in vrfs : Originated(prog, v) = UNION {ReqPrefixes(sessions[i]) : i \in SessIn(sessions, L, v)}, "C14.Originated")
  \cup If(/\ \A k \in DOMAIN prog.routers : prog.routers[k].vrf \in vrfs
          /\ \A v \in vrfs : Peers(prog, v) \subseteq {PeerOf(sessions[i]) : i \in SessIn(sessions, L, v)},
          "C14.Params.stray")

Live14(sessions) == {i \in DOMAIN sessions : ~sessions[i].ghost}

(* which session fails which per-session conjunct: for diagnostics *)
Detail14(sessions, L, prog) ==
  UNION {{<<sessions[i].k, n>> : n \in SessionFails14(sessions, prog, sessions[i])} : i \in L}

----------------------------------------------------------------------------
(* C15 *)
RECURSIVE LexLess(_, _, _)
LexLess(a, b, i) ==
  IF i > Len(a) THEN i <= Len(b)
  ELSE IF i > Len(b) THEN FALSE
  ELSE IF a[i] # b[i] THEN a[i] < b[i] ELSE LexLess(a, b, i + 1)

StructLess(p, q) ==
  \/ p.fam < q.fam
  \/ p.fam = q.fam /\ LexLess(p.oct, q.oct, 1)
  \/ p.fam = q.fam /\ p.oct = q.oct /\ p.len < q.len

(* sorted (by the order of the strings, or by family / address / length) and without duplicates *)
SortedNoDup(seq) ==
  \/ \A i \in 1..(Len(seq) - 1) : LexLess(seq[i].codes, seq[i + 1].codes, 1)
  \/ \A i \in 1..(Len(seq) - 1) : StructLess(seq[i], seq[i + 1])

ReqComms(s, q, large) ==
  UNION {IF large THEN r.lcomms ELSE r.comms : r \in {r \in Requested(s) : r.prefix = q}}
ReqLps(s, q) == {r.lp : r \in {r \in Requested(s) : r.prefix = q /\ r.lp # "0"}}

CRListed(n) ==
  PSet(n.allowed) \cup UNION {PSet(n.withCommunity[i].prefixes) : i \in DOMAIN n.withCommunity}
  \cup UNION {PSet(n.withLocalPref[i].prefixes) : i \in DOMAIN n.withLocalPref}

ParamFails15(cr, s, n) ==
  LET asn == IF s.dyn # "" THEN "0" ELSE s.asn IN
  If(n.address = s.addr /\ n.iface = s.iface, "C15.Params.address")
  \cup If(n.asn = asn /\ n.dyn = s.dyn, "C15.Params.asn")
  \cup If(n.port = s.port, "C15.Params.port")
  \cup If(n.hold = s.hold /\ n.keepalive = s.keepalive, "C15.Params.timers")
  \cup If(n.connect = s.connect, "C15.Params.connect")
  \cup If(n.srcaddr = s.src, "C15.Params.source")
  \cup If(n.multihop = s.multihop, "C15.Params.multihop")
  \cup If(n.bfd = s.bfd, "C15.Params.bfd")
  \cup If(n.disablemp = s.disablemp, "C15.Params.activation")
  \cup If(~(n.password # "" /\ HasRef(n.secret)), "C15.PasswordXor")
  \cup If(LET plain == n.password = s.pw /\ n.secret.name = "" /\ n.secret.ns = ""
              ref == n.password = "" /\ n.secret = s.pwref
          IN IF Both(s) THEN plain \/ ref ELSE IF HasRef(s.pwref) THEN ref ELSE plain,
          "C15.Params.password")

SessionFails15(cr, s) ==
  LET v == s.vrf
      x == PeerOf(s)
      N == CRNeighbors(cr, v, x)
  IN IF Cardinality(N) # 1 THEN {"C15.Neighbor"}
     ELSE LET n == CHOOSE n \in N : TRUE
              Q == CRListed(n) \cup ReqPrefixes(s)
          IN If(OfferedCR(cr, v, x) = Requested(s), "C15.OfferedExact")
             \cup If(PSet(n.allowed) = ReqPrefixes(s) /\ n.allowedMode = "", "C15.AllowedExact")
             \cup If(SortedNoDup(n.allowed) /\ Len(n.allowed) = Cardinality(PSet(n.allowed)), "C15.AllowedSorted")
             \cup If(\A q \in Q : CRComms(n, q, FALSE) = ReqComms(s, q, FALSE) /\ CRComms(n, q, TRUE) = ReqComms(s, q, TRUE),
                     "C15.CommunityExact")
             \cup If(\A q \in Q : CRLps(n, q) = ReqLps(s, q), "C15.LocalPrefExact")
             \cup ParamFails15(cr, s, n)

Fails15(sessions, L, cr, node) ==
  LET vrfs == {sessions[i].vrf : i \in L} IN
  IF ~cr.present THEN If(L = {}, "C15.NoResource")
  ELSE UNION {SessionFails15(cr, sessions[i]) : i \in L}
       \cup If(\A v \in vrfs : CRRouterPrefixes(cr, v) = UNION {ReqPrefixes(sessions[i]) : i \in SessIn(sessions, L, v)},
               "C15.RouterPrefixes")
       \cup If(\A v \in vrfs : {cr.routers[k].asn : k \in CRRouterIdx(cr, v)} = {sessions[i].myasn : i \in SessIn(sessions, L, v)},
               "C15.Params.router")
       \cup If(cr.matchLabels = <<[k |-> "kubernetes.io/hostname", v |-> node]>> /\ cr.nmatchexpr = 0, "C15.NodeSelector")
       \cup If(/\ cr.rawConfig = ""
               /\ \A k \in DOMAIN cr.routers :
                    /\ cr.routers[k].vrf \in vrfs
                    /\ cr.routers[k].nimports = 0
                    /\ \A j \in DOMAIN cr.routers[k].neighbors :
                         LET n == cr.routers[k].neighbors[j] IN
                         /\ n.badPrefixes = <<>>
                         /\ \E i \in SessIn(sessions, L, cr.routers[k].vrf) :
                              PeerOf(sessions[i]) = (IF n.iface # "" THEN n.iface ELSE n.address),
               "C15.Stray")

(* the speaker's choice for one peer (c = [pw, secretpw, ref, impl, handling]).  It may pass on both a password and a *)
(* reference only if the peer configuration itself holds both (the session manager then has to refuse or pick one,    *)
(* which is judged on the session-manager observations); otherwise the configured password is carried as it is, a     *)
(* configured secret as its content or as the reference                                                              *)
PwFails(c, password, secret) ==
  LET both == password # "" /\ HasRef(secret) IN
  If(both => (c.pw # "" /\ HasRef(c.ref)), "C15.PasswordXor")
  \cup If(IF both THEN password = c.pw /\ secret = c.ref
          ELSE IF c.pw # "" THEN password = c.pw
          ELSE IF c.ref.name # "" THEN (password = c.secretpw /\ ~HasRef(secret)) \/ (password = "" /\ secret = c.ref)
          ELSE password = "" /\ (~HasRef(secret) \/ secret = c.ref), "C15.Params.password")

(* a session carrying both a password and a secret reference may be refused *)
Live15(sessions, created) == {i \in DOMAIN sessions : ~sessions[i].ghost /\ (created[i] \/ ~Both(sessions[i]))}

(* the resource and the text denote the same routes per neighbor *)
Agreement(sessions, L, prog, cr) ==
  If(\A i \in L : OfferedCR(cr, sessions[i].vrf, PeerOf(sessions[i])) = Offered(prog, sessions[i].vrf, PeerOf(sessions[i])),
     "C15.Agreement")

=============================================================================
