---------------------------- MODULE ConfigParseMC ----------------------------
(***************************************************************************)
(* Roles A and B for C08.  The input space has the shape of a function      *)
(* argument, so the "state graph" is the set of bounded snapshots: every    *)
(* initial state is one snapshot; TLC checks ModelSound on it (role A: the  *)
(* design model accepts only sound snapshots) and prints it as one JSON     *)
(* line (role B) for the Go harness, which feeds it to the real config.For. *)
(* The snapshots are organised in slices, each exhaustive over its own      *)
(* catalogue.                                                               *)
(***************************************************************************)
EXTENDS ConfigParse, Json

CONSTANTS Slices          \* names of the slices to enumerate

VARIABLE snap

E(k, f, a, b, sp) == [k |-> k, fam |-> f, a |-> a, b |-> b, sp |-> sp]
Respell(S, sp) == {[e EXCEPT !.sp = sp] : e \in S}

CidrsAll(f) == {E("cidr", f, a, l, "plain") : a \in A, l \in 0 .. W}
CidrsAligned(f) == {e \in CidrsAll(f) : e.a % Pow2(W - e.b) = 0}
RangesAll(f) == {e \in {E("range", f, lo, hi, "plain") : lo \in A, hi \in A} : e.a <= e.b}
Marks == {0, 1, 3, 4, 7, 8, NA - 4, NA - 1}
RangesSome(f) == {e \in RangesAll(f) : e.a \in Marks /\ e.b \in Marks}
RangesRev(f) == {E("range", f, 3, 2, "plain"), E("range", f, NA - 1, 0, "plain")}
MixedAll == {E("mixed", "v4", a, b, sp) : a \in {0, NA - 1}, b \in {0, 1}, sp \in {"46", "64"}}

Pool(n, lab, ents) == [name |-> n, lab |-> lab, ents |-> ents]
Node(n, zone, addrs) == [name |-> n, zone |-> zone, addrs |-> addrs]
Addr(t, f, a, sp) == [t |-> t, fam |-> f, a |-> a, sp |-> sp]
L2(n, pools, psel, nsel, ifs) == [name |-> n, pools |-> pools, psel |-> psel, nsel |-> nsel, ifs |-> ifs]
Bgp(n, pools, psel, nsel, a4, a6, lp, peers) ==
  [name |-> n, pools |-> pools, psel |-> psel, nsel |-> nsel, agg4 |-> a4, agg6 |-> a6, lp |-> lp, peers |-> peers]
Snap(sl, pools, nodes, l2, bgp, peers) ==
  [slice |-> sl, pools |-> pools, nodes |-> nodes, l2 |-> l2, bgp |-> bgp, peers |-> peers]

----------------------------------------------------------------------------
(* (the slices take a dummy argument so that TLC does not evaluate the unused ones at start-up) *)
(* single: one pool, one entry, every entry in every spelling               *)
SingleCat ==
  CidrsAll("v4") \cup Respell(CidrsAll("v4"), "mapped") \cup Respell(CidrsAll("v4"), "low")
  \cup Respell(CidrsAligned("v4"), "ws")
  \cup RangesAll("v4") \cup Respell(RangesAll("v4"), "ws") \cup Respell(RangesAll("v4"), "mapped")
  \cup Respell(RangesAll("v4"), "mapmix") \cup RangesRev("v4")
  \cup CidrsAll("v6") \cup Respell(CidrsAll("v6"), "low")
  \cup RangesAll("v6") \cup Respell(RangesAll("v6"), "ws") \cup RangesRev("v6")
  \cup MixedAll
SliceSingle(u) == {Snap("single", <<Pool("p1", "", <<e>>)>>, <<>>, <<>>, <<>>, <<>>) : e \in SingleCat}

(* pair4 / pair6 / pairx: two pools with one entry each                     *)
PairRanges(f) == IF W <= 4 THEN RangesAll(f) ELSE RangesSome(f)
PairCat4 == CidrsAligned("v4") \cup Respell(CidrsAligned("v4"), "mapped") \cup PairRanges("v4")
PairCat6 == CidrsAligned("v6") \cup PairRanges("v6")
Part(C, k) == {e \in C : e.a % 4 = k}       \* the pair slices are cut in four for parallel TLC runs
Pairs(sl, C1, C2) ==
  {Snap(sl, <<Pool("p1", "", <<e1>>), Pool("p2", "", <<e2>>)>>, <<>>, <<>>, <<>>, <<>>) : e1 \in C1, e2 \in C2}
SlicePair4(k) == Pairs("pair4", Part(PairCat4, k), PairCat4)
SlicePair6(k) == Pairs("pair6", Part(PairCat6, k), PairCat6)
CrossCat(f) == {e \in CidrsAligned(f) : e.b <= 1} \cup RangesSome(f)
SlicePairX(u) == Pairs("pairx", CrossCat("v4") \cup Respell({e \in CidrsAligned("v4") : e.b <= 1}, "mapped"), CrossCat("v6"))
              \cup Pairs("pairx", CrossCat("v6"), CrossCat("v4"))
              \cup Pairs("pairx", MixedAll, CrossCat("v4") \cup CrossCat("v6"))

(* multi: one pool with two entries; three pools                            *)
MultiCat(f) == CidrsAligned(f) \cup RangesSome(f)
SliceMulti(u) ==
  {Snap("multi", <<Pool("p1", "", <<e1, e2>>)>>, <<>>, <<>>, <<>>, <<>>) : e1 \in MultiCat("v4"), e2 \in MultiCat("v4")}
  \cup {Snap("multi", <<Pool("p1", "", <<e1, e2>>)>>, <<>>, <<>>, <<>>, <<>>) : e1 \in CrossCat("v4"), e2 \in CrossCat("v6")}
  \cup {Snap("multi", <<Pool("p1", "", <<e1, e2>>)>>, <<>>, <<>>, <<>>, <<>>) : e1 \in CrossCat("v6"), e2 \in CrossCat("v6")}
  \cup {Snap("multi", <<Pool("p1", "", <<e1, e2>>)>>, <<>>, <<>>, <<>>, <<>>) : e1 \in MixedAll, e2 \in CrossCat("v4")}
TinyCat == {e \in CidrsAligned("v4") : e.b \in {1, 2}}
           \cup Respell({e \in CidrsAligned("v4") : e.b \in {1, 2}}, "mapped")
           \cup {E("range", "v4", 0, 3, "plain"), E("range", "v4", 2, 5, "plain"), E("range", "v4", 4, 7, "plain"),
                 E("range", "v4", NA \div 2, NA - 1, "plain"), E("range", "v4", 6, 9, "plain")}
SliceTriple(u) ==
  {Snap("triple", <<Pool("p1", "", <<e1>>), Pool("p2", "", <<e2>>), Pool("p3", "", <<e3>>)>>, <<>>, <<>>, <<>>, <<>>) :
      e1 \in TinyCat, e2 \in TinyCat, e3 \in TinyCat}

(* nodes: pools against node addresses                                      *)
NodeCat == {e \in CidrsAligned("v4") : e.b >= 1} \cup Respell({e \in CidrsAligned("v4") : e.b >= 1}, "mapped")
           \cup RangesSome("v4") \cup {e \in CidrsAligned("v6") : e.b >= 1} \cup RangesSome("v6")
NodeAddrs == {Addr(t, "v4", a, sp) : t \in {"int", "ext"}, a \in Marks, sp \in {"plain", "mapped"}}
             \cup {Addr(t, "v6", a, "plain") : t \in {"int", "ext"}, a \in Marks}
(* nodes with 2-3 address entries: several InternalIPs (v4+v6 in both orders, two of one family)   *)
(* and other address types (ExternalIP, Hostname) before / between them: EVERY InternalIP counts   *)
MultiAddr == {Addr("int", "v4", 1, "plain"), Addr("int", "v4", NA - 4, "plain"), Addr("int", "v6", 1, "plain"),
              Addr("int", "v6", NA - 4, "plain"), Addr("ext", "v4", 1, "plain"), Addr("host", "v4", 0, "plain")}
MultiAddrSeqs == {<<x, y>> : x \in MultiAddr, y \in MultiAddr} \cup {<<x, y, z>> : x \in MultiAddr, y \in MultiAddr, z \in MultiAddr}
MultiPools == {<<Pool("p1", "", <<E("cidr", "v4", 0, 1, "plain")>>)>>,
               <<Pool("p1", "", <<E("cidr", "v6", 0, 1, "plain")>>)>>,
               <<Pool("p1", "", <<E("range", "v4", NA - 5, NA - 2, "plain")>>)>>,
               <<Pool("p1", "", <<E("cidr", "v6", NA - 4, W, "plain")>>)>>,
               <<Pool("p1", "", <<E("cidr", "v4", 0, 2, "mapped")>>), Pool("p2", "", <<E("range", "v6", 0, 3, "plain")>>)>>,
               <<Pool("p1", "", <<E("cidr", "v4", NA \div 2, 1, "plain"), E("cidr", "v6", NA \div 2, 1, "plain")>>)>>}
SliceNodes(u) ==
  {Snap("nodes", <<Pool("p1", "", <<e>>)>>, <<Node("n1", "a", <<ad>>)>>, <<>>, <<>>, <<>>) : e \in NodeCat, ad \in NodeAddrs}
  \cup {Snap("nodes", pl, <<Node("n1", "a", ads)>>, <<>>, <<>>, <<>>) : pl \in MultiPools, ads \in MultiAddrSeqs}
  \cup {Snap("nodes", pl, <<Node("n1", "a", <<Addr("int", "v4", NA \div 2 - 1, "plain")>>), Node("n2", "b", ads)>>, <<>>, <<>>, <<>>) :
          pl \in MultiPools, ads \in {s \in MultiAddrSeqs : Len(s) = 2}}
  \cup {Snap("nodes", <<Pool("p1", "", <<E("cidr", "v4", 0, 1, "plain")>>), Pool("p2", "", <<e>>)>>,
             <<Node("n1", "a", <<Addr("ext", "v4", 0, "plain"), ad1>>), Node("n2", "b", <<ad2>>)>>, <<>>, <<>>, <<>>) :
          e \in {E("cidr", "v4", NA \div 2, 2, "plain"), E("range", "v6", 3, 8, "plain")},
          ad1 \in {x \in NodeAddrs : x.a \in {1, NA - 4}}, ad2 \in {x \in NodeAddrs : x.a \in {NA - 4, 8}}}

(* attach: advertisements by name / by selector / naming none               *)
APools == <<Pool("p1", "x", <<E("cidr", "v4", 0, 2, "plain")>>),
            Pool("p2", "y", <<E("cidr", "v4", 4, 2, "plain")>>),
            Pool("p3", "", <<E("cidr", "v6", 0, 2, "plain")>>)>>
ANodes == {<<>>, <<Node("n1", "a", <<>>)>>, <<Node("n1", "a", <<>>), Node("n2", "b", <<>>)>>}
APoolLists == {<<>>, <<"p1">>, <<"p1", "p2">>, <<"p9">>, <<"p2", "p9">>}
APoolSels == {<<>>, <<"x">>, <<"x", "y">>, <<"z">>}
ANodeSels == {<<>>, <<"a">>, <<"a", "b">>, <<"c">>}
AL2(n, ifs) == {L2(n, pl, ps, ns, ifs) : pl \in APoolLists, ps \in APoolSels, ns \in ANodeSels}
AL2Few(n, ifs) == {L2(n, pl, ps, ns, ifs) : pl \in {<<>>, <<"p1">>}, ps \in {<<>>, <<"x", "y">>}, ns \in {<<>>, <<"a">>, <<"b">>}}
ABgp(n, lp) == {Bgp(n, pl, ps, ns, 32, 128, lp, <<>>) : pl \in APoolLists, ps \in APoolSels, ns \in ANodeSels}
ABgpFew(n, lp) == {Bgp(n, pl, ps, ns, 32, 128, lp, <<>>) : pl \in {<<>>, <<"p1">>}, ps \in {<<>>, <<"x", "y">>}, ns \in {<<>>, <<"a">>, <<"b">>}}
SliceAttach(u) ==
  {Snap("attach", APools, nd, <<x>>, <<>>, <<>>) : nd \in ANodes, x \in AL2("l1", <<>>) \cup AL2("l1", <<"eth0">>)}
  \cup {Snap("attach", APools, nd, <<>>, <<x>>, <<>>) : nd \in ANodes, x \in ABgp("b1", 0)}
  \cup {Snap("attach", APools, nd, <<x, y>>, <<>>, <<>>) : nd \in ANodes, x \in AL2("l1", <<>>), y \in AL2Few("l2", <<>>) \cup AL2Few("l2", <<"eth0">>)}
  \cup {Snap("attach", APools, nd, <<>>, <<x, y>>, <<>>) : nd \in ANodes, x \in ABgp("b1", 0), y \in ABgpFew("b2", 0)}
  \cup {Snap("attach", APools, nd, <<y>>, <<x>>, <<>>) : nd \in ANodes, x \in ABgp("b1", 0), y \in AL2Few("l2", <<>>)}

(* agg: aggregation lengths against the prefixes of the pool                *)
AggVals(f) == {x \in {0, P0(f) - 1, Bits(f)} \cup {P0(f) + l : l \in 0 .. W + 1} : x >= 0 /\ x <= Bits(f)}
AggCat4 == CidrsAligned("v4") \cup {E("cidr", "v4", 5, 2, "plain"), E("cidr", "v4", 0, 1, "mapped")} \cup
           {e \in RangesSome("v4") : e.a \in {0, 1, 4} /\ e.b \in {3, 7, NA - 1}}
AggCat6 == {e \in CidrsAligned("v6") : e.a \in {0, NA \div 2}} \cup {E("range", "v6", 1, 4, "plain")}
SliceAgg(u) ==
  {Snap("agg", <<Pool("p1", "", <<e>>)>>, <<>>, <<>>, <<Bgp("b1", <<>>, <<>>, <<>>, a4, a6, 0, <<>>)>>, <<>>) :
      e \in AggCat4, a4 \in AggVals("v4"), a6 \in {128, P06}}
  \cup {Snap("agg", <<Pool("p1", "", <<e>>)>>, <<>>, <<>>, <<Bgp("b1", <<>>, <<>>, <<>>, a4, a6, 0, <<>>)>>, <<>>) :
      e \in AggCat6, a4 \in {32, P04}, a6 \in AggVals("v6")}
  \cup {Snap("agg", <<Pool("p1", "", <<e4, e6>>)>>, <<>>, <<>>, <<Bgp("b1", <<>>, <<>>, <<>>, a4, a6, 0, <<>>)>>, <<>>) :
      e4 \in {E("cidr", "v4", 0, 1, "plain"), E("cidr", "v4", 4, 3, "plain")},
      e6 \in {E("cidr", "v6", 0, 2, "plain"), E("cidr", "v6", 0, W, "plain")},
      a4 \in {P04, P04 + 1, P04 + 3, 32}, a6 \in {P06, P06 + 2, P06 + W, 128}}
  \cup {Snap("agg", <<Pool("p1", "", <<e1, e2>>)>>, <<>>, <<>>, <<Bgp("b1", <<>>, <<>>, <<>>, a4, 128, 0, <<>>)>>, <<>>) :
      e1 \in {E("cidr", "v4", 0, 2, "plain")}, e2 \in {E("cidr", "v4", 4, 2, "plain"), E("cidr", "v4", 8, 1, "plain")},
      a4 \in AggVals("v4")}

(* lp: local-preference clashes                                             *)
LPools == {<<Pool("p1", "", <<E("cidr", "v4", 0, 2, "plain")>>)>>,
           <<Pool("p1", "", <<E("cidr", "v6", 0, 2, "plain")>>)>>,
           <<Pool("p1", "", <<E("cidr", "v4", 0, 2, "plain"), E("range", "v6", 1, 2, "plain")>>)>>,
           <<Pool("p1", "", <<E("range", "v4", 1, 6, "plain")>>), Pool("p2", "", <<E("cidr", "v4", 8, 1, "plain")>>)>>,
           <<Pool("p1", "", <<E("mixed", "v4", 0, 1, "46")>>)>>}
LNodes == <<Node("n1", "a", <<>>), Node("n2", "b", <<>>)>>
SliceLP(u) ==
  {Snap("lp", pl, LNodes,
        <<>>, <<Bgp("b1", <<>>, <<>>, ns1, 32, 128, 100, pe1), Bgp("b2", p2, <<>>, ns2, a4, a6, lp2, pe2)>>, ex) :
      pl \in LPools, ns1 \in {<<>>, <<"a">>}, pe1 \in {<<>>, <<"q1">>, <<"q1", "q2">>},
      p2 \in {<<>>, <<"p1">>}, ns2 \in {<<>>, <<"a">>, <<"b">>}, a4 \in {32, P04 + W}, a6 \in {128, 127},
      lp2 \in {100, 200}, pe2 \in {<<>>, <<"q1">>, <<"q2">>, <<"q3">>}, ex \in {<<>>, <<"q1", "q2">>}}

Snapshots ==
  (IF "single" \in Slices THEN SliceSingle(0) ELSE {}) \cup
  UNION {IF ("pair4_" \o ToString(k)) \in Slices THEN SlicePair4(k) ELSE {} : k \in 0 .. 3} \cup
  UNION {IF ("pair6_" \o ToString(k)) \in Slices THEN SlicePair6(k) ELSE {} : k \in 0 .. 3} \cup
  (IF "pairx" \in Slices THEN SlicePairX(0) ELSE {}) \cup
  (IF "multi" \in Slices THEN SliceMulti(0) ELSE {}) \cup
  (IF "triple" \in Slices THEN SliceTriple(0) ELSE {}) \cup
  (IF "nodes" \in Slices THEN SliceNodes(0) ELSE {}) \cup
  (IF "attach" \in Slices THEN SliceAttach(0) ELSE {}) \cup
  (IF "agg" \in Slices THEN SliceAgg(0) ELSE {}) \cup
  (IF "lp" \in Slices THEN SliceLP(0) ELSE {})

ASSUME PrintT(ToJson([domain |-> [W |-> W, S4 |-> S4, S6 |-> S6]]))

Init == /\ snap \in Snapshots
        /\ PrintT(ToJson([snap |-> snap, maccept |-> MAccepts(snap)]))
Next == UNCHANGED snap
Spec == Init /\ [][Next]_snap

InvModelSound == ModelSound(snap)
=============================================================================
