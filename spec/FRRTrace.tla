------------------------------ MODULE FRRTrace ------------------------------
(***************************************************************************)
(* C14 / C15, role C: the observations of harness/frr (mode "frr": the      *)
(* tokenized text of one creation order of one session set) and of          *)
(* harness/frrk8s joined with them by the driver (mode "c15": the projected *)
(* FRRConfiguration plus the program of the same sessions and order) are    *)
(* read back and TLC evaluates the predicates of FRRProps on what the real  *)
(* code produced.                                                           *)
(*                                                                          *)
(*  C14: ExactPerNeighbor (Offered = Requested), OtherRejected,             *)
(*       InboundDenied, Originated (= union per router/VRF), Params.* on    *)
(*       the right neighbor (+ Params.stray), Deterministic (same text for  *)
(*       every creation order / history of the same session set)            *)
(*  C15: OfferedExact (OfferedCR = Requested), AllowedExact, AllowedSorted  *)
(*       (sorted, no duplicates), CommunityExact, LocalPrefExact,           *)
(*       RouterPrefixes, NodeSelector, PasswordXor, Params.*, Neighbor,     *)
(*       Stray, Deterministic, Agreement (OfferedCR = Offered of the text), *)
(*       Handover (same resource at a second look)                          *)
(*                                                                          *)
(* Every failing conjunct is printed by name (never stop at the first);     *)
(* names starting with "INFO." are informational, never a verdict.          *)
(***************************************************************************)
EXTENDS FRRProps, Json, TLC

Trace == ndJsonDeserialize("obs.ndjson")
N == Len(Trace)

VARIABLE i

(* the previous line belongs to the same id and was judged (the driver puts the lines that are not judged first) *)
SameSet(j) == j > 1 /\ Trace[j - 1].id = Trace[j].id /\ Trace[j - 1].mode = Trace[j].mode /\ Trace[j - 1].refusedok

(* o.refusedok = FALSE: a Set the model expects to be refused was accepted by the code; what the state should be *)
(* after that is not defined by the model: nothing is judged (reported as DRIFT by the driver)                      *)
NotJudged == [fails |-> {"INFO.RefusalNotObserved"}, info |-> [errs |-> <<>>]]

Verdict14(o, j) ==
  IF ~o.refusedok THEN NotJudged ELSE
  LET L == Live14(o.sessions)
      f == Fails14(o.sessions, L, o.prog)
           \cup If(SameSet(j) => Trace[j - 1].sha = o.sha, "C14.Deterministic")
           \cup If(UndefinedRefs(o.prog) = {}, "INFO.UndefinedListReference")
  IN [fails |-> f,
      info  |-> IF f = {} THEN [errs |-> <<>>]
                ELSE [errs |-> o.errs, created |-> o.created, detail |-> Detail14(o.sessions, L, o.prog),
                      undefined |-> UndefinedRefs(o.prog)]]

Verdict15(o, j) ==
  IF ~o.refusedok THEN NotJudged ELSE
  LET L == Live15(o.sessions, o.created)
      f == Fails15(o.sessions, L, o.cr, o.node)
           \cup Agreement(o.sessions, L \cap Live14(o.sessions), o.prog, o.cr)
           \* (the driver puts the orders that produced no resource at all, possible when every session of the set was
           \*  refused, in front of the others)
           \cup If((SameSet(j) /\ Trace[j - 1].cr.present /\ o.cr.present) => Trace[j - 1].sha = o.sha, "C15.Deterministic")
           \* the resource is the same at the second look (callback path: the very value that was handed over, looked at
           \* again once the operation returned; reconciler path: the object after a second Reconcile)
           \cup If(o.sha0 = o.sha, "C15.Handover")
  IN [fails |-> f,
      info  |-> IF f = {} THEN [errs |-> <<>>]
                ELSE [errs |-> o.errs, created |-> o.created,
                      detail |-> UNION {{<<o.sessions[k].k, n>> : n \in SessionFails15(o.cr, o.sessions[k])} : k \in L}]]

(* mode "pw": one call of the speaker's passwordForSession *)
VerdictPw(o) ==
  LET f == IF o.panic # "" THEN {"C15.Password.Panic"} ELSE PwFails(o.case, o.password, o.secret) IN
  [fails |-> f, info |-> [errs |-> <<o.panic>>]]

LineVerdict(j) ==
  IF Trace[j].mode = "frr" THEN Verdict14(Trace[j], j)
  ELSE IF Trace[j].mode = "pw" THEN VerdictPw(Trace[j])
  ELSE Verdict15(Trace[j], j)

Init == i = 1
Next == i < N /\ i' = i + 1

Judge ==
  LET v == LineVerdict(i) IN
  /\ (v.fails = {} \/ PrintT(ToJson([fails |-> v.fails, line |-> i, id |-> Trace[i].id, ord |-> Trace[i].ord, info |-> v.info])))
  /\ (i < N \/ PrintT(ToJson([done |-> N])))
=============================================================================
