---------------------------- MODULE ListenerDump ----------------------------
(* Prints the event alphabet of Listener.tla as JSON for the Go harness and  *)
(* the driver (the harness never keeps its own copy of the input domain).    *)
EXTENDS Listener, Json
VARIABLE x
ASSUME PrintT(ToJson([ctl |-> [specs |-> CtlSpecs, layouts |-> CtlLayouts, svcs |-> CtlSvcs, nilpools |-> NILPOOLS],
                      spk |-> [configs |-> SpkConfigs, nodes |-> SpkNodes, objs |-> SpkSvcObjs, svcs |-> SpkSvcs]]))
Init == x = 0
Next == FALSE /\ x' = x
=============================================================================
