--------------------------- MODULE ControllerTrace ---------------------------
(***************************************************************************)
(* Role C for the controller family (C01 status form, C02, C03, C06, C07,   *)
(* C11 ghost reservations): TLC evaluates the property predicates on the    *)
(* observations of the real controller + allocator + service reconciler.    *)
(* One observation per executed step: Service objects (spec as given,       *)
(* status, pool annotation), allocator memory, queue state, status writes.  *)
(***************************************************************************)
EXTENDS Controller, Json

Trace == ndJsonDeserialize("obs.ndjson")
N == Len(Trace)
VARIABLE i

SvcAll == DOMAIN SvcMeta

SpecOf(j) == [type |-> j.type, fam |-> j.fam, pol |-> j.pol, v6first |-> j.v6first, cips |-> j.cips,
              share |-> j.share, ports |-> Range(j.ports), etp |-> j.etp, sel |-> j.sel,
              reqIPs |-> j.reqIPs, reqPool |-> j.reqPool, dep |-> j.dep, legacy |-> j.legacy, bad |-> j.bad]

Api(o) == [s \in SvcAll |->
             IF s \in DOMAIN o.api
             THEN [spec |-> SpecOf(o.api[s].spec), status |-> o.api[s].status, ann |-> o.api[s].ann]
             ELSE NULL]
Mem(o) == [t \in SvcAll |->
             IF t \in DOMAIN o.mem
             THEN [pool |-> o.mem[t].pool, ips |-> o.mem[t].ips, ports |-> Range(o.mem[t].ports),
                   sk |-> o.mem[t].sk, bk |-> o.mem[t].bk]
             ELSE NULL]
Exists(a) == {s \in SvcAll : a[s] # NULL}
LBs(a) == {s \in Exists(a) : a[s].spec.type = "LB"}
SetEq(x, y) == Range(x) = Range(y)

SameWalk(j, k) == j >= 1 /\ Trace[j].w = Trace[k].w /\ Trace[j].n + 1 = Trace[k].n

(* exactly the statement of C01: same non-empty sharing key, disjoint (protocol, port) sets, and both   *)
(* Cluster or identical pod selectors                                                                  *)
StatusShareOK(x, y) ==
  /\ x.spec.share # "" /\ x.spec.share = y.spec.share
  /\ x.spec.ports \cap y.spec.ports = {}
  /\ \/ (x.spec.etp = "Cluster" /\ y.spec.etp = "Cluster")
     \/ x.spec.sel = y.spec.sel

(* the statuses of s and every other load balancer are pairwise allowed     *)
ShareConsistent(a, s) ==
  \A t \in LBs(a) \ {s} : (Range(a[s].status) \cap Range(a[t].status) # {}) => StatusShareOK(a[s], a[t])

(* no other service the controller still has on record holds one of the     *)
(* addresses of s in a way that excludes s (e.g. a deletion or re-key that  *)
(* has not been processed yet)                                              *)
MemConsistent(m, s, x) ==
  \A t \in SvcAll \ {s} :
     (m[t] # NULL /\ Range(m[t].ips) \cap Range(x.status) # {}) =>
        ShareOK(m[t], [sk |-> x.spec.share, bk |-> BackendKey(x.spec), ports |-> x.spec.ports])

FamMatch(st, sp) ==
  CASE sp.fam = "v4" -> Len(st) = 1 /\ Fam(st[1]) = "v4"
    [] sp.fam = "v6" -> Len(st) = 1 /\ Fam(st[1]) = "v6"
    [] sp.pol = "P"  -> Len(st) \in {1, 2} /\ (Len(st) = 2 => Fam(st[1]) # Fam(st[2]))
    [] OTHER         -> Len(st) = 2 /\ Fam(st[1]) # Fam(st[2])

(* is the address set st admissible for service s with spec sp under layout L *)
AdmissibleIn(L, s, sp, st) ==
  /\ L # NOCFG /\ st # <<>> /\ sp.type = "LB" /\ sp.cips /\ ~sp.bad
  /\ \E p \in PoolsOf(L) : /\ \A a \in Range(st) : Usable(p, a)
                           /\ Compatible(p, s)
                           /\ (sp.reqPool # "" => p.name = sp.reqPool)
  /\ FamMatch(st, sp)
  /\ (sp.reqIPs # <<>> => SetEq(st, sp.reqIPs))

----------------------------------------------------------------------------
C01_ExclusiveMem(o) == Exclusive(Mem(o))
C01_ExclusiveStatus(o) ==
  o.q => LET a == Api(o) IN
         \A s, t \in LBs(a) : (s # t /\ Range(a[s].status) \cap Range(a[t].status) # {}) => StatusShareOK(a[s], a[t])

C02_PlacedStatus(o) ==
  o.q => LET a == Api(o) IN
         \A s \in LBs(a) : a[s].status # <<>> =>
            \E p \in PoolsOf(o.ctl) : /\ \A x \in Range(a[s].status) : Usable(p, x)
                                      /\ a[s].ann = p.name
                                      /\ Compatible(p, s)
C02_FamilyStatus(o) ==
  o.q => LET a == Api(o) IN \A s \in LBs(a) : a[s].status # <<>> => FamMatch(a[s].status, a[s].spec)
C02_Honoured(o) ==
  o.q => LET a == Api(o) IN
         \A s \in LBs(a) : a[s].status # <<>> =>
            /\ (a[s].spec.reqIPs # <<>> => SetEq(a[s].status, a[s].spec.reqIPs))
            /\ (a[s].spec.reqPool # "" => a[s].ann = a[s].spec.reqPool)

(* automatic allocation at the level of the controller: a Service without request that had no address *)
(* and gets one in this handler call gets it from an auto-assign pool; pinned pools (ascending         *)
(* priority number, 0 last) before unpinned ones                                                      *)
Offers(L, al, p, s, r) ==
  LET ips == SelectIPs(FirstFree(al, p, s, r, "v4"), FirstFree(al, p, s, r, "v6"), r)
  IN ips # <<>> /\ AssignRes(L, al, s, ips, r).ok
C02_AutoChoiceStatus(j, o) ==
  (SameWalk(j, i) /\ Trace[j].crashes = o.crashes /\ ~o.crashed /\ o.op \in {"ReconcileOne", "PassStep"} /\ o.s \in SvcAll
     /\ o.ctl # NOCFG /\ o.ctl = Trace[j].ctl) =>
     LET p == Trace[j]  a == Api(p)  b == Api(o)  s == o.s  pre == Mem(p)  post == Mem(o) IN
     ( /\ a[s] # NULL /\ b[s] # NULL /\ a[s].spec = b[s].spec /\ a[s].spec.type = "LB"
       /\ a[s].spec.reqIPs = <<>> /\ a[s].spec.reqPool = "" /\ ~a[s].spec.bad
       /\ a[s].status = <<>> /\ pre[s] = NULL
       /\ post[s] # NULL /\ HasPool(o.ctl, post[s].pool) )
     => LET L == o.ctl  r == ReqOf(a[s].spec)  q == PoolNamed(L, post[s].pool)
            pinnedOffering == {x \in PinnedFor(L, s) : Offers(L, pre, x, s, r)}
        IN /\ q.auto
           /\ (q.alloc = NULL => pinnedOffering = {})
           /\ (q.alloc # NULL /\ ~(r.fam = "dual" /\ r.pol = "P") => \A x \in pinnedOffering : PinRank(q) <= PinRank(x))

(* C03: a service whose own request and the admissibility of its addresses  *)
(* do not change keeps its addresses (PreferDualStack may gain the other    *)
(* family from the same pool)                                               *)
(* s has held exactly st under spec sp, admissibly and without a sharing conflict, at every observation  *)
(* back to the point where it got st / sp (or the start of the walk / of this process incarnation).     *)
(* A Service whose address became admissible only a moment ago (e.g. the conflicting holder was deleted  *)
(* and the controller has not processed that yet) is not required to be stable.                          *)
RECURSIVE GoodSince(_, _, _, _)
GoodSince(k, s, sp, st) ==
  IF k < 1 THEN TRUE
  ELSE IF Trace[k].w # Trace[i].w \/ Trace[k].crashes # Trace[i].crashes THEN TRUE
  ELSE LET a == Api(Trace[k]) IN
       IF a[s] = NULL THEN TRUE
       ELSE IF a[s].spec # sp \/ a[s].status # st THEN TRUE
       ELSE /\ ShareConsistent(a, s)
            /\ (Trace[k].ctl # NOCFG => AdmissibleIn(Trace[k].ctl, s, sp, st))
            /\ AdmissibleIn(Trace[k].cfgApi, s, sp, st)
            /\ GoodSince(k - 1, s, sp, st)

C03_Stable(j, o) ==
  (SameWalk(j, i) /\ Trace[j].crashes = o.crashes) =>
     LET p == Trace[j]  a == Api(p)  b == Api(o) IN
     \A s \in Exists(a) \cap Exists(b) :
        ( /\ a[s].spec = b[s].spec
          /\ a[s].status # <<>>
          /\ \A L \in {p.ctl, p.cfgApi, o.ctl, o.cfgApi} : AdmissibleIn(L, s, a[s].spec, a[s].status)
          /\ ShareConsistent(a, s)
          /\ MemConsistent(Mem(p), s, a[s])
          /\ GoodSince(j, s, a[s].spec, a[s].status)
          /\ \A t \in (LBs(a) \cap LBs(b)) \ {s} :
                (Range(a[s].status) \cap Range(a[t].status) # {}) => StatusShareOK(b[s], b[t]) )
        => \/ SetEq(b[s].status, a[s].status)
           \/ /\ a[s].spec.pol = "P" /\ Len(a[s].status) = 1 /\ Len(b[s].status) = 2
              /\ Range(a[s].status) \subseteq Range(b[s].status)
              /\ \E q \in PoolsOf(o.ctl) : \A x \in Range(b[s].status) : Usable(q, x)

IsHandlerLine(o) == o.op \in {"ReconcileOne", "PassStep"}
(* memory form of Stable: a handler call on a Service that is entitled to its recorded addresses (by the *)
(* API objects, by the loaded configuration and by what the controller has on record) and holds them in  *)
(* memory leaves them in memory - whatever happens to the status write                                   *)
C03_StableMem(j, o) ==
  (SameWalk(j, i) /\ Trace[j].crashes = o.crashes /\ ~o.crashed /\ IsHandlerLine(o) /\ o.s \in SvcAll
     /\ o.fresh) =>      \* the handler was given the current object, not a stale cache / snapshot copy
     LET p == Trace[j]  a == Api(p)  b == Api(o)  s == o.s  m == Mem(p)  n == Mem(o) IN
     ( /\ a[s] # NULL /\ b[s] # NULL /\ a[s].spec = b[s].spec
       /\ a[s].status # <<>> /\ m[s] # NULL /\ SetEq(m[s].ips, a[s].status)
       /\ \A L \in {p.ctl, p.cfgApi, o.ctl, o.cfgApi} : AdmissibleIn(L, s, a[s].spec, a[s].status)
       /\ ShareConsistent(a, s)
       /\ MemConsistent(m, s, a[s])
       /\ GoodSince(j, s, a[s].spec, a[s].status) )
     => (n[s] # NULL /\ Range(a[s].status) \subseteq Range(n[s].ips))

(* no status write that changes nothing *)
C03_NoSpuriousWrite(o) == \A k \in DOMAIN o.writes : ~(o.writes[k].ok /\ o.writes[k].same)

(* re-processing a service right after its own successful write writes nothing *)
C03_FixedPoint(j, o) ==
  ( /\ SameWalk(j, i) /\ IsHandlerLine(o) /\ IsHandlerLine(Trace[j]) /\ o.s = Trace[j].s
    /\ ~o.crashed /\ ~Trace[j].crashed /\ o.ctl = Trace[j].ctl
    /\ \E k \in DOMAIN Trace[j].writes : Trace[j].writes[k].ok )
  => \A k \in DOMAIN o.writes : ~o.writes[k].ok

----------------------------------------------------------------------------
(* C06 *)
C06_NoLeak(o) ==
  o.q => LET a == Api(o)  m == Mem(o) IN
         \A s \in SvcAll :
            IF a[s] = NULL THEN m[s] = NULL
            ELSE (m[s] = NULL /\ a[s].status = <<>>) \/ (m[s] # NULL /\ SetEq(m[s].ips, a[s].status))

IsUserOp(o) == o.op \in {"UserPut", "UserDelete", "UserLayout"}
IsCrashLine(o) == o.crashed
(* the latest crash line of the same walk at or before k, 0 if none *)
RECURSIVE LastCrash(_)
LastCrash(k) == IF k < 1 \/ Trace[k].w # Trace[i].w THEN 0
                ELSE IF IsCrashLine(Trace[k]) THEN k ELSE LastCrash(k - 1)
(* no pool reconfiguration by the user since line c (edits of OTHER Services do not touch the       *)
(* entitlement of a Service to its recorded addresses; its own spec is compared explicitly)            *)
RECURSIVE QuietSince(_, _)
QuietSince(c, k) == IF k <= c THEN TRUE ELSE Trace[k].op # "UserLayout" /\ QuietSince(c, k - 1)

(* service u has existed with spec sp at every observation from line c to line k *)
RECURSIVE SameSince(_, _, _, _)
SameSince(c, k, u, sp) ==
  IF k <= c THEN TRUE
  ELSE LET a == Api(Trace[k]) IN a[u] # NULL /\ a[u].spec = sp /\ SameSince(c, k - 1, u, sp)

RecordedOK(R, L, s) ==   \* the recorded addresses of s were admissible and consistent with the other records
  R[s] # NULL /\ AdmissibleIn(L, s, R[s].spec, R[s].status) /\ ShareConsistent(R, s)

C06_KeepAfterRestart(o) ==
  LET c == LastCrash(i) IN
  (o.q /\ c > 0 /\ QuietSince(c, i) /\ Trace[c].cfgApi = o.cfgApi) =>
     LET R == Api(Trace[c])  b == Api(o) IN
     \A s \in Exists(R) :
        (RecordedOK(R, o.cfgApi, s) /\ SameSince(c, i, s, R[s].spec)
           /\ \A t \in Exists(R) \ {s} :      \* sharers at the crash have not been edited since
                 (Range(R[t].status) \cap Range(R[s].status) # {}) => SameSince(c, i, t, R[t].spec))
        => SetEq(b[s].status, R[s].status)

C06_NoTheft(o) ==
  LET c == LastCrash(i) IN
  (c > 0 /\ c < i /\ QuietSince(c, i) /\ Trace[c].cfgApi = o.cfgApi) =>
     LET R == Api(Trace[c])  b == Api(o) IN
     \A t \in LBs(b) : (R[t] = NULL \/ R[t].status = <<>>) =>
        \A u \in Exists(R) \ {t} :
           (RecordedOK(R, o.cfgApi, u) /\ SameSince(c, i, u, R[u].spec)
              /\ Range(b[t].status) \cap Range(R[u].status) # {})
              => StatusShareOK(b[t], b[u])

C06_Converges(o) == o.op = "Drained" => o.q

----------------------------------------------------------------------------
(* C07 *)
CanPlace(L, mem, s, sp) == \E x \in AllocateIPs(L, mem, s, sp) : x.ok
(* who holds what according to the Service statuses (what a fresh controller would rebuild): the    *)
(* admissible set of C07 is about addresses that are free or shareable in the cluster, not about the *)
(* controller's private bookkeeping                                                                 *)
MemFromApi(o) ==
  LET a == Api(o) IN
  [s \in SvcAll |->
     IF a[s] # NULL /\ a[s].spec.type = "LB" /\ a[s].status # <<>>
     THEN [pool |-> a[s].ann, ips |-> a[s].status, ports |-> a[s].spec.ports,
           sk |-> a[s].spec.share, bk |-> BackendKey(a[s].spec)]
     ELSE NULL]
C07_NoStarvation(o) ==
  o.q => LET a == Api(o)  m == MemFromApi(o) IN
         \A s \in LBs(a) :
            (a[s].spec.cips /\ ~(a[s].spec.pol = "R" /\ a[s].spec.fam # "dual") /\ a[s].status = <<>>)
               => ~CanPlace(o.ctl, m, s, a[s].spec)

(* C11, controller level: no ghost reservation for a service that does not  *)
(* exist any more or holds no address                                       *)
C11_NoGhost(o) ==
  o.q => LET a == Api(o)  m == Mem(o) IN
         \A s \in SvcAll : m[s] # NULL => (a[s] # NULL /\ a[s].status # <<>>
                                               /\ Range(m[s].ips) \subseteq Range(a[s].status))   \* no address reserved that no status records

Fails(k) ==
  LET o == Trace[k]  j == k - 1 IN
  (IF C01_ExclusiveMem(o) THEN {} ELSE {"C01.ExclusiveMem"}) \cup
  (IF C01_ExclusiveStatus(o) THEN {} ELSE {"C01.ExclusiveStatus"}) \cup
  (IF C02_PlacedStatus(o) THEN {} ELSE {"C02.PlacedStatus"}) \cup
  (IF C02_FamilyStatus(o) THEN {} ELSE {"C02.FamilyStatus"}) \cup
  (IF C02_Honoured(o) THEN {} ELSE {"C02.Honoured"}) \cup
  (IF C02_AutoChoiceStatus(j, o) THEN {} ELSE {"C02.AutoChoiceStatus"}) \cup
  (IF C03_Stable(j, o) THEN {} ELSE {"C03.Stable"}) \cup
  (IF C03_StableMem(j, o) THEN {} ELSE {"C03.StableMem"}) \cup
  (IF C03_NoSpuriousWrite(o) THEN {} ELSE {"C03.NoSpuriousWrite"}) \cup
  (IF C03_FixedPoint(j, o) THEN {} ELSE {"C03.FixedPoint"}) \cup
  (IF C06_NoLeak(o) THEN {} ELSE {"C06.NoLeak"}) \cup
  (IF C06_KeepAfterRestart(o) THEN {} ELSE {"C06.KeepAfterRestart"}) \cup
  (IF C06_NoTheft(o) THEN {} ELSE {"C06.NoTheft"}) \cup
  (IF C06_Converges(o) THEN {} ELSE {"C06.Converges"}) \cup
  (IF C07_NoStarvation(o) THEN {} ELSE {"C07.NoStarvation"}) \cup
  (IF C11_NoGhost(o) THEN {} ELSE {"C11.NoGhost"}) \cup
  (IF o.panic = "" THEN {} ELSE {"C01.Panic", "C11.Panic"})

Init == i = 1
Next == i < N /\ i' = i + 1
Judge ==
  LET f == Fails(i) IN
  /\ (f = {} \/ PrintT(ToJson([fails |-> f, line |-> i, w |-> Trace[i].w, step |-> Trace[i].n])))
  /\ (i < N \/ PrintT(ToJson([done |-> N])))
=============================================================================
