//go:build verif

package controllers

// Added to the package by the verification overlay only: read access to the start-up gate.

func VerifGate(r *ServiceReconciler) bool { return r.initialLoadPerformed }

var VerifErrRetry = errRetry
