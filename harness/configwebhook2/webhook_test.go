//go:build verif

package webhookv1beta2

// C08, acceptance gate of the admission webhooks (BGPPeer; see harness/configwebhook1 for the
// other kinds): every scenario printed by TLC (spec/ConfigWebhookMC.tla) is replayed on the real
// validate*Create / validate*Update functions; the stored objects live in a controller-runtime fake
// client (the real getExisting* run), the package's Validator is the real config validator behind a
// wrapper that records the lists it is given.  Logged: verdict, what the validated list of the
// object's kind contained, and the real validator's verdict on the lists with the TRUE resulting list
// of that kind.  No judgement happens here.

import (
	"bufio"
	"encoding/json"
	"fmt"
	"os"
	"reflect"
	"testing"

	"github.com/go-kit/log"
	"go.universe.tf/metallb/api/v1beta2"
	"go.universe.tf/metallb/internal/config"
	"go.universe.tf/metallb/internal/k8s/webhooks/validate"
	corev1 "k8s.io/api/core/v1"
	"k8s.io/apimachinery/pkg/api/meta"
	metav1 "k8s.io/apimachinery/pkg/apis/meta/v1"
	"k8s.io/apimachinery/pkg/runtime"
	"sigs.k8s.io/controller-runtime/pkg/client"
	"sigs.k8s.io/controller-runtime/pkg/client/fake"
)

const vWhNS = "metallb-system"

type vWhScen struct {
	Kind string `json:"kind"`
	N    int    `json:"n"`
	Pos  int    `json:"pos"`
	Newv string `json:"newv"`
}

type vWhLine struct {
	ID   string  `json:"id"`
	Scen vWhScen `json:"scen"`
}

type vWhObs struct {
	ID          string  `json:"id"`
	Scen        vWhScen `json:"scen"`
	Op          string  `json:"op"`
	Admit       bool    `json:"admit"`
	Err         string  `json:"err"`
	Panic       string  `json:"panic"`
	Calls       int     `json:"calls"`
	Listlen     int     `json:"listlen"`
	TargetCount int     `json:"target_count"`
	TargetIsNew bool    `json:"target_is_new"`
	TargetIsOld bool    `json:"target_is_old"`
	OthersSame  bool    `json:"others_same"`
	ResultOk    bool    `json:"result_ok"`
	ResultErr   string  `json:"result_err"`
}

type vWhRecorder struct {
	real  validate.ClusterObjects
	calls int
	lists []client.ObjectList
}

func (r *vWhRecorder) Validate(lists ...client.ObjectList) error {
	r.calls++
	r.lists = lists
	return r.real.Validate(lists...)
}

func vWhMust(err error) {
	if err != nil {
		panic(fmt.Sprintf("verif: %v", err))
	}
}

func vWhMeta(name string) metav1.ObjectMeta { return metav1.ObjectMeta{Name: name, Namespace: vWhNS} }

// vWhObject: stored object i (1..3) of a kind, or its new version: v = "old" | "fresh" | "clash".
// clash = a version that makes the resulting set invalid (other = index of another stored object, 0 if none).
func vWhObject(kind string, i int, v string, other int) client.Object {
	name := fmt.Sprintf("%s-%d", kind, i)
	sp := v1beta2.BGPPeerSpec{MyASN: 64512, ASN: 64513, Address: fmt.Sprintf("10.9.0.%d", i)}
	switch v {
	case "fresh":
		sp.Address = fmt.Sprintf("10.9.1.%d", i)
		sp.HoldTime = &metav1.Duration{Duration: 30000000000}
	case "clash":
		sp.MyASN = 0 // missing local ASN
	}
	return &v1beta2.BGPPeer{ObjectMeta: vWhMeta(name), Spec: sp}
}

func vWhSpec(o runtime.Object) interface{} {
	return reflect.ValueOf(o).Elem().FieldByName("Spec").Interface()
}

func vWhEmptyList(kind string) client.ObjectList { return &v1beta2.BGPPeerList{} }

func vWhRun(l vWhLine, real validate.ClusterObjects) (o vWhObs) {
	s := l.Scen
	o = vWhObs{ID: l.ID, Scen: s}
	defer func() {
		if r := recover(); r != nil {
			o.Panic = fmt.Sprint(r)
		}
	}()
	scheme := runtime.NewScheme()
	vWhMust(v1beta2.AddToScheme(scheme))
	vWhMust(corev1.AddToScheme(scheme))
	objs := []client.Object{
		&corev1.Node{ObjectMeta: metav1.ObjectMeta{Name: "n1"}, Status: corev1.NodeStatus{Addresses: []corev1.NodeAddress{
			{Type: corev1.NodeHostName, Address: "n1"}, {Type: corev1.NodeInternalIP, Address: "10.4.200.1"}}}},
	}
	stored := map[string]client.Object{}
	for i := 1; i <= s.N; i++ {
		x := vWhObject(s.Kind, i, "old", 0)
		stored[x.GetName()] = x
		objs = append(objs, x)
	}
	rec := &vWhRecorder{real: real}
	Logger, MetalLBNamespace, Validator = log.NewNopLogger(), vWhNS, rec
	WebhookClient = fake.NewClientBuilder().WithScheme(scheme).WithObjects(objs...).Build()

	idx, other := s.Pos, 0
	if s.Pos == 0 {
		idx = 9
	}
	for i := 1; i <= s.N; i++ {
		if i != s.Pos {
			other = i
		}
	}
	newObj := vWhObject(s.Kind, idx, s.Newv, other)
	var err error
	if s.Pos == 0 {
		o.Op = "create"
		err = validatePeerCreate(newObj.(*v1beta2.BGPPeer))
	} else {
		o.Op = "update"
		old := stored[newObj.GetName()]
		err = validatePeerUpdate(newObj.(*v1beta2.BGPPeer), old.(*v1beta2.BGPPeer))
	}
	o.Admit = err == nil
	if err != nil {
		o.Err = fmt.Sprintf("%.80q", err.Error())
		o.Err = o.Err[1 : len(o.Err)-1]
	}
	o.Calls = rec.calls
	// what did the validated list of this kind contain?
	want := reflect.TypeOf(vWhEmptyList(s.Kind))
	o.OthersSame = true
	var corrected []client.ObjectList
	for _, li := range rec.lists {
		if reflect.TypeOf(li) != want {
			corrected = append(corrected, li)
			continue
		}
		items, e := meta.ExtractList(li)
		vWhMust(e)
		o.Listlen = len(items)
		seen := map[string]bool{}
		for _, it := range items {
			acc, e := meta.Accessor(it)
			vWhMust(e)
			seen[acc.GetName()] = true
			if acc.GetName() == newObj.GetName() {
				o.TargetCount++
				o.TargetIsNew = o.TargetIsNew || reflect.DeepEqual(vWhSpec(it), vWhSpec(newObj))
				if old, ok := stored[acc.GetName()]; ok {
					o.TargetIsOld = o.TargetIsOld || reflect.DeepEqual(vWhSpec(it), vWhSpec(old))
				}
				continue
			}
			if old, ok := stored[acc.GetName()]; !ok || !reflect.DeepEqual(vWhSpec(it), vWhSpec(old)) {
				o.OthersSame = false
			}
		}
		for name := range stored {
			if !seen[name] {
				o.OthersSame = false
			}
		}
		// the true resulting list of the kind
		var res []runtime.Object
		for i := 1; i <= s.N; i++ {
			x := stored[fmt.Sprintf("%s-%d", s.Kind, i)]
			if x.GetName() == newObj.GetName() {
				continue
			}
			res = append(res, x)
		}
		res = append(res, newObj)
		cl := vWhEmptyList(s.Kind)
		vWhMust(meta.SetList(cl, res))
		corrected = append(corrected, cl)
	}
	if rec.calls > 0 {
		e := real.Validate(corrected...)
		o.ResultOk = e == nil
		if e != nil {
			o.ResultErr = fmt.Sprintf("%.80q", e.Error())
			o.ResultErr = o.ResultErr[1 : len(o.ResultErr)-1]
		}
	}
	return o
}

func TestVerifCfgWebhookV2(t *testing.T) {
	f, err := os.Open(os.Getenv("VERIF_SCENARIOS"))
	vWhMust(err)
	defer f.Close()
	of, err := os.Create(os.Getenv("VERIF_OBS"))
	vWhMust(err)
	w := bufio.NewWriter(of)
	real := config.NewValidator(config.DontValidate)
	sc := bufio.NewScanner(f)
	n := 0
	for sc.Scan() {
		if len(sc.Bytes()) == 0 {
			continue
		}
		var l vWhLine
		vWhMust(json.Unmarshal(sc.Bytes(), &l))
		if l.Scen.Kind != "peer" {
			continue
		}
		b, err := json.Marshal(vWhRun(l, real))
		vWhMust(err)
		w.Write(b)
		w.WriteByte('\n')
		n++
	}
	vWhMust(w.Flush())
	vWhMust(of.Close())
	t.Logf("%d webhook scenarios", n)
}
