//go:build verif

package controllers

// Role B/C harness for C18, function-shaped half: every snapshot enumerated by TLC
// (spec/ConfigLoadMC.tla) is rendered as ClusterResources and given to the real toConfig
//   - in the listed order (the reference),
//   - again in the listed order, VERIF_REPS times (repeatability; Go map order),
//   - with every permutation of every kind (one kind at a time), and with all kinds permuted at once.
// Logged per snapshot: how many of those loads were accepted / rejected and how many accepted
// values are not reflect.DeepEqual to the reference (the reconcilers' own comparison).
// No judgement happens here.

import (
	"encoding/json"
	"fmt"
	"os"
	"reflect"
	"strconv"
	"testing"

	v1beta1 "go.universe.tf/metallb/api/v1beta1"
	v1beta2 "go.universe.tf/metallb/api/v1beta2"
	"go.universe.tf/metallb/internal/config"
	corev1 "k8s.io/api/core/v1"
	metav1 "k8s.io/apimachinery/pkg/apis/meta/v1"
)

const vNS = "metallb-system"

type vLoadObjs struct {
	Pools []struct {
		Name  string   `json:"name"`
		Cidr  int      `json:"cidr"`
		Ns    []string `json:"ns"`
		Sel   bool     `json:"sel"`
		Nssel bool     `json:"nssel"`
		Prio  int      `json:"prio"`
	} `json:"pools"`
	Peers []struct {
		Name string `json:"name"`
		Addr int    `json:"addr"`
		Bfd  string `json:"bfd"`
	} `json:"peers"`
	Bfds []struct {
		Name string `json:"name"`
	} `json:"bfds"`
	L2advs []struct {
		Name  string   `json:"name"`
		Pools []string `json:"pools"`
		Ifs   []string `json:"ifs"`
	} `json:"l2advs"`
	Bgpadvs []struct {
		Name  string   `json:"name"`
		Pools []string `json:"pools"`
		Agg4  int32    `json:"agg4"`
		Lp    uint32   `json:"lp"`
		Comm  string   `json:"comm"`
	} `json:"bgpadvs"`
	Communities []struct {
		Name  string `json:"name"`
		Alias string `json:"alias"`
		Value int    `json:"value"`
	} `json:"communities"`
	Nodes []struct {
		Name string `json:"name"`
		Zone string `json:"zone"`
	} `json:"nodes"`
	Namespaces []struct {
		Name string `json:"name"`
		Lab  string `json:"lab"`
	} `json:"namespaces"`
}

type vLoadScen struct {
	ID   string          `json:"id"`
	Snap json.RawMessage `json:"snap"`
	Objs vLoadObjs       `json:"objs"`
}

type vLoadDom struct {
	Perms [][][]int `json:"perms"` // Perms[n-1] = all permutations of n positions (1-based)
	Reps  int       `json:"reps"`
}

func vLoadResources(o vLoadObjs) config.ClusterResources {
	var r config.ClusterResources
	for _, p := range o.Pools {
		cr := v1beta1.IPAddressPool{ObjectMeta: metav1.ObjectMeta{Name: p.Name, Namespace: vNS}}
		cr.Spec.Addresses = []string{fmt.Sprintf("10.2.%d.0/24", p.Cidr)}
		if len(p.Ns) > 0 || p.Sel || p.Nssel {
			at := &v1beta1.ServiceAllocation{Priority: p.Prio}
			at.Namespaces = append(at.Namespaces, p.Ns...)
			if p.Sel {
				at.ServiceSelectors = []metav1.LabelSelector{{MatchLabels: map[string]string{"app": p.Name}}}
			}
			if p.Nssel {
				at.NamespaceSelectors = []metav1.LabelSelector{{MatchLabels: map[string]string{"team": "x"}}}
			}
			cr.Spec.AllocateTo = at
		}
		r.Pools = append(r.Pools, cr)
	}
	for _, p := range o.Peers {
		r.Peers = append(r.Peers, v1beta2.BGPPeer{ObjectMeta: metav1.ObjectMeta{Name: p.Name, Namespace: vNS},
			Spec: v1beta2.BGPPeerSpec{MyASN: 64512, ASN: 64513, Address: fmt.Sprintf("10.9.0.%d", p.Addr), BFDProfile: p.Bfd}})
	}
	for _, p := range o.Bfds {
		r.BFDProfiles = append(r.BFDProfiles, v1beta1.BFDProfile{ObjectMeta: metav1.ObjectMeta{Name: p.Name, Namespace: vNS}})
	}
	for _, a := range o.L2advs {
		cr := v1beta1.L2Advertisement{ObjectMeta: metav1.ObjectMeta{Name: a.Name, Namespace: vNS}}
		cr.Spec.IPAddressPools = append(cr.Spec.IPAddressPools, a.Pools...)
		cr.Spec.Interfaces = append(cr.Spec.Interfaces, a.Ifs...)
		r.L2Advs = append(r.L2Advs, cr)
	}
	for _, a := range o.Bgpadvs {
		cr := v1beta1.BGPAdvertisement{ObjectMeta: metav1.ObjectMeta{Name: a.Name, Namespace: vNS}}
		cr.Spec.IPAddressPools = append(cr.Spec.IPAddressPools, a.Pools...)
		agg := a.Agg4
		cr.Spec.AggregationLength = &agg
		cr.Spec.LocalPref = a.Lp
		if a.Comm != "" {
			cr.Spec.Communities = []string{a.Comm}
		}
		r.BGPAdvs = append(r.BGPAdvs, cr)
	}
	for _, c := range o.Communities {
		r.Communities = append(r.Communities, v1beta1.Community{ObjectMeta: metav1.ObjectMeta{Name: c.Name, Namespace: vNS},
			Spec: v1beta1.CommunitySpec{Communities: []v1beta1.CommunityAlias{{Name: c.Alias, Value: "64512:" + strconv.Itoa(c.Value)}}}})
	}
	for _, n := range o.Nodes {
		r.Nodes = append(r.Nodes, corev1.Node{ObjectMeta: metav1.ObjectMeta{Name: n.Name, Labels: map[string]string{"zone": n.Zone}}})
	}
	for _, n := range o.Namespaces {
		r.Namespaces = append(r.Namespaces, corev1.Namespace{ObjectMeta: metav1.ObjectMeta{Name: n.Name, Labels: map[string]string{"team": n.Lab}}})
	}
	return r
}

func vPermuted[T any](in []T, pi []int) []T {
	if len(in) == 0 {
		return in
	}
	out := make([]T, len(in))
	for i := range in {
		out[i] = in[pi[i]-1]
	}
	return out
}

var vKinds = []string{"pools", "peers", "bfds", "l2advs", "bgpadvs", "communities", "nodes", "namespaces"}

func vKindLen(r *config.ClusterResources, kind string) int {
	switch kind {
	case "pools":
		return len(r.Pools)
	case "peers":
		return len(r.Peers)
	case "bfds":
		return len(r.BFDProfiles)
	case "l2advs":
		return len(r.L2Advs)
	case "bgpadvs":
		return len(r.BGPAdvs)
	case "communities":
		return len(r.Communities)
	case "nodes":
		return len(r.Nodes)
	}
	return len(r.Namespaces)
}

// vWithPerm: a copy of r in which kind is listed in the order pi (the other kinds untouched).
func vWithPerm(r config.ClusterResources, kind string, pi []int) config.ClusterResources {
	switch kind {
	case "pools":
		r.Pools = vPermuted(r.Pools, pi)
	case "peers":
		r.Peers = vPermuted(r.Peers, pi)
	case "bfds":
		r.BFDProfiles = vPermuted(r.BFDProfiles, pi)
	case "l2advs":
		r.L2Advs = vPermuted(r.L2Advs, pi)
	case "bgpadvs":
		r.BGPAdvs = vPermuted(r.BGPAdvs, pi)
	case "communities":
		r.Communities = vPermuted(r.Communities, pi)
	case "nodes":
		r.Nodes = vPermuted(r.Nodes, pi)
	case "namespaces":
		r.Namespaces = vPermuted(r.Namespaces, pi)
	}
	return r
}

type vTally struct {
	Kind  string `json:"kind"`
	N     int    `json:"n"`     // objects of the kind
	Runs  int    `json:"runs"`  // loads performed
	Neq   int    `json:"neq"`   // accepted loads whose value is not DeepEqual to the reference
	Nacc  int    `json:"nacc"`  // accepted
	Nrej  int    `json:"nrej"`  // rejected
	First []int  `json:"first"` // first permutation with a different value / verdict
}

type vLoadObs struct {
	T       string          `json:"t"`
	ID      string          `json:"id"`
	Snap    json.RawMessage `json:"snap"`
	FirstOk bool            `json:"first_ok"`
	Err     string          `json:"err"`
	Panic   string          `json:"panic"`
	Reps    vTally          `json:"reps"`
	Kinds   []vTally        `json:"kinds"`
	Comb    vTally          `json:"comb"`
}

func vClean(s string) string {
	b := []rune(s)
	for i, r := range b {
		if r == '"' || r == '\\' || r < 32 || r > 126 {
			b[i] = '\''
		}
	}
	if len(b) > 100 {
		b = b[:100]
	}
	return string(b)
}

func vLoadRun(sc vLoadScen, dom vLoadDom) (o vLoadObs) {
	o = vLoadObs{T: "load", ID: sc.ID, Snap: sc.Snap, Kinds: []vTally{}}
	o.Reps.First, o.Comb.First = []int{}, []int{}
	defer func() {
		if r := recover(); r != nil {
			o.Panic = vClean(fmt.Sprint(r))
		}
	}()
	base := vLoadResources(sc.Objs)
	ref, err := toConfig(base, config.DontValidate)
	o.FirstOk = err == nil
	if err != nil {
		o.Err = vClean(err.Error())
	}
	tally := func(t *vTally, r config.ClusterResources, pi []int) {
		cfg, e := toConfig(r, config.DontValidate)
		t.Runs++
		diff := false
		if e != nil {
			t.Nrej++
			diff = o.FirstOk
		} else {
			t.Nacc++
			if !o.FirstOk {
				diff = true
			} else if !reflect.DeepEqual(ref, cfg) {
				t.Neq++
				diff = true
			}
		}
		if diff && len(t.First) == 0 && pi != nil {
			t.First = append(t.First, pi...)
		}
	}
	o.Reps.Kind = "reps"
	for k := 0; k < dom.Reps; k++ {
		tally(&o.Reps, base, nil)
	}
	maxPerms := 1
	for _, kind := range vKinds {
		n := vKindLen(&base, kind)
		t := vTally{Kind: kind, N: n, First: []int{}}
		if n >= 2 {
			perms := dom.Perms[n-1]
			if len(perms) > maxPerms {
				maxPerms = len(perms)
			}
			for _, pi := range perms {
				tally(&t, vWithPerm(base, kind, pi), pi)
			}
		}
		o.Kinds = append(o.Kinds, t)
	}
	// all kinds permuted at once: the j-th permutation of every kind
	o.Comb.Kind = "combined"
	for j := 1; j < maxPerms; j++ {
		r := base
		for _, kind := range vKinds {
			if n := vKindLen(&base, kind); n >= 2 {
				perms := dom.Perms[n-1]
				r = vWithPerm(r, kind, perms[j%len(perms)])
			}
		}
		tally(&o.Comb, r, []int{j})
	}
	return o
}

func TestVerifConfigLoad(t *testing.T) {
	var dom vLoadDom
	b, err := os.ReadFile(os.Getenv("VERIF_DOMAIN"))
	vMust(err)
	vMust(json.Unmarshal(b, &dom))
	var scens []vLoadScen
	vReadLines("VERIF_SCENARIOS", func(line []byte) {
		var sc vLoadScen
		vMust(json.Unmarshal(line, &sc))
		scens = append(scens, sc)
	})
	out := make([][]interface{}, len(scens))
	total := make([]int, len(scens))
	vParallel(len(scens), func(i int) {
		o := vLoadRun(scens[i], dom)
		out[i] = []interface{}{o}
		total[i] = o.Reps.Runs + o.Comb.Runs + 1
		for _, k := range o.Kinds {
			total[i] += k.Runs
		}
	})
	vWriteObs(out)
	sum := 0
	for _, x := range total {
		sum += x
	}
	t.Logf("toConfig: %d loads over %d snapshots", sum, len(out))
}
