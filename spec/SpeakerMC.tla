------------------------------ MODULE SpeakerMC ------------------------------
(***************************************************************************)
(* The speaker (Speaker.tla) with its environment: users and the allocating *)
(* controller editing Services / endpoint slices, node label and condition  *)
(* changes, configuration changes, memberlist changes, and the work queues  *)
(* of the three reconcilers (service, node, configuration) in front of the  *)
(* handlers.  At start every existing object has an initial event pending,  *)
(* in any order.  Roles A (properties below) and B (Emit prints every       *)
(* transition).                                                             *)
(***************************************************************************)
EXTENDS Speaker, Json

CONSTANTS SpecsOf(_),      \* s |-> set of service values the environment may give s
          NodeVals(_),     \* n |-> set of node values
          LayoutSet, InitLayout,
          InitSvcs,        \* s |-> service value | NULL
          InitNodes,       \* n |-> node value
          ML,              \* memberlist enabled
          InitMembers,
          MaxEnv,          \* bound on environment steps
          IGN,             \* the speaker runs with --ignore-exclude-lb
          MaxFaults        \* failing session starts / failing Set calls that may be armed

VARIABLES cl,      \* cluster: [svcs, nodes, layout, members, ml]
          mem,     \* the speaker's memory
          svcQ, nodeQ, cfgQ, reload, gate,
          since,   \* services handed to the handler since the configuration was last loaded
          errS,    \* services whose latest handler call returned an error
          nfault,
          nenv, act

vars == <<cl, mem, svcQ, nodeQ, cfgQ, reload, gate, since, errS, nfault, nenv, act>>
View == <<cl, mem, svcQ, nodeQ, cfgQ, reload, gate, since, errS, nfault, nenv>>

(* advisory copy of the hash order of the two node names per first address  *)
(* (sha256(node # address)); the judge uses the order observed from the     *)
(* implementation instead                                                   *)
N1Wins == {0, 5, 6, 8, 12, 13, 15, 103, 105, 106, 108, 111, 114, 115}
Rank == [a \in AllV4 \cup AllV6 |-> IF a \in N1Wins THEN "n1" ELSE "n2"]
Env == EnvOf(cl, Rank)

Init ==
  /\ cl = [svcs |-> InitSvcs, nodes |-> InitNodes, layout |-> InitLayout, members |-> InitMembers, ml |-> ML, ign |-> IGN]
  /\ mem = EmptyMem
  /\ svcQ = {s \in SpkSvcs : InitSvcs[s] # NULL}
  /\ nodeQ = SpkNodes
  /\ cfgQ = TRUE /\ reload = FALSE /\ gate = FALSE /\ since = {} /\ errS = {} /\ nfault = 0
  /\ nenv = 0
  /\ act = [op |-> "Init"]
  /\ PrintT(ToJson([init |-> cl]))

(* ---- environment -------------------------------------------------------- *)
EnvSvc(s, v) ==
  /\ nenv < MaxEnv /\ v # cl.svcs[s]
  /\ cl' = [cl EXCEPT !.svcs[s] = v]
  /\ svcQ' = svcQ \cup {s}
  /\ nenv' = nenv + 1
  /\ act' = [op |-> "EnvSvc", s |-> s, v |-> v]
  /\ UNCHANGED <<mem, nodeQ, cfgQ, reload, gate, since, errS, nfault>>

EnvNode(n, v) ==
  /\ nenv < MaxEnv /\ v # cl.nodes[n]
  /\ cl' = [cl EXCEPT !.nodes[n] = v]
  /\ nodeQ' = nodeQ \cup {n}
  \* the configuration reconciler watches node labels
  /\ cfgQ' = (cfgQ \/ v.label # cl.nodes[n].label \/ v.excl # cl.nodes[n].excl)
  /\ nenv' = nenv + 1
  /\ act' = [op |-> "EnvNode", n |-> n, v |-> v]
  /\ UNCHANGED <<mem, svcQ, reload, gate, since, errS, nfault>>

EnvLayout(L) ==
  /\ nenv < MaxEnv /\ L # cl.layout
  /\ cl' = [cl EXCEPT !.layout = L]
  /\ cfgQ' = TRUE
  /\ nenv' = nenv + 1
  /\ act' = [op |-> "EnvLayout", layout |-> L]
  /\ UNCHANGED <<mem, svcQ, nodeQ, reload, gate, since, errS, nfault>>

(* a speaker joins / leaves the memberlist: the speaker list forces a sync  *)
EnvMember(n) ==
  /\ ML /\ nenv < MaxEnv
  /\ cl' = [cl EXCEPT !.members = IF n \in @ THEN @ \ {n} ELSE @ \cup {n}]
  /\ reload' = TRUE
  /\ nenv' = nenv + 1
  /\ act' = [op |-> "EnvMember", n |-> n]
  /\ UNCHANGED <<mem, svcQ, nodeQ, cfgQ, gate, since, errS, nfault>>

(* ---- faults of the session manager (armed, they fire at the next call) -- *)
ArmStart(p) ==
  /\ nfault < MaxFaults /\ p \notin mem.fs
  /\ mem' = [mem EXCEPT !.fs = @ \cup {p}]
  /\ nfault' = nfault + 1
  /\ act' = [op |-> "ArmStart", p |-> p]
  /\ UNCHANGED <<cl, svcQ, nodeQ, cfgQ, reload, gate, since, errS, nenv>>
ArmSet ==
  /\ nfault < MaxFaults /\ ~mem.fset
  /\ mem' = [mem EXCEPT !.fset = TRUE]
  /\ nfault' = nfault + 1
  /\ act' = [op |-> "ArmSet"]
  /\ UNCHANGED <<cl, svcQ, nodeQ, cfgQ, reload, gate, since, errS, nenv>>

(* ---- reconcilers -------------------------------------------------------- *)
DeliverSvc(s) ==
  /\ s \in svcQ
  /\ IF ~gate /\ cl.svcs[s] # NULL
     THEN svcQ' = svcQ \ {s} /\ UNCHANGED <<mem, since, errS>>   \* filtered until the initial load is done
     ELSE LET m2 == SetBalancer(mem, Env, s, cl.svcs[s]) IN
          /\ mem' = m2 /\ since' = since \cup {s}
          /\ svcQ' = (IF m2.err THEN svcQ ELSE svcQ \ {s})            \* an error is retried
          /\ errS' = (IF m2.err THEN errS \cup {s} ELSE errS \ {s})
  /\ act' = [op |-> "DeliverSvc", s |-> s]
  /\ UNCHANGED <<cl, nodeQ, cfgQ, reload, gate, nfault, nenv>>

DeliverNode(n) ==
  /\ n \in nodeQ
  /\ LET r == SetNode(mem, n, cl.nodes[n])
     IN /\ mem' = r.m /\ reload' = (reload \/ r.reprocess)
        /\ nodeQ' = (IF r.m.err THEN nodeQ ELSE nodeQ \ {n})
  /\ act' = [op |-> "DeliverNode", n |-> n]
  /\ UNCHANGED <<cl, svcQ, cfgQ, gate, since, errS, nfault, nenv>>

DeliverConfig ==
  /\ cfgQ
  /\ LET c == CfgOf(cl.layout, cl.nodes) IN
     IF mem.rcfg = c
     THEN /\ cfgQ' = FALSE /\ UNCHANGED <<mem, reload, since>>   \* configuration did not change, ignored
     ELSE IF CfgRefused(mem, c)
     THEN /\ mem' = [mem EXCEPT !.rcfg = NULL]                \* refused, retried
          /\ UNCHANGED <<cfgQ, reload, since>>
     ELSE LET m2 == SetConfig(mem, c) IN
          /\ mem' = [m2 EXCEPT !.rcfg = c]
          /\ cfgQ' = FALSE
          /\ IF m2.err THEN UNCHANGED <<reload, since>>        \* handler failed: no retry, no re-sync
                       ELSE reload' = TRUE /\ since' = {}
  /\ act' = [op |-> "DeliverConfig"]
  /\ UNCHANGED <<cl, svcQ, nodeQ, gate, errS, nfault, nenv>>

ResyncPass ==
  /\ reload
  /\ LET m2 == Resync(mem, Env, cl.svcs)
         ex == {s \in SpkSvcs : cl.svcs[s] # NULL}
     IN /\ mem' = m2
        /\ IF m2.err THEN reload' = TRUE /\ UNCHANGED gate /\ errS' = errS \cup ex
                     ELSE reload' = FALSE /\ gate' = TRUE /\ errS' = errS \ ex
        /\ since' = since \cup ex
  /\ act' = [op |-> "ResyncPass"]
  /\ UNCHANGED <<cl, svcQ, nodeQ, cfgQ, nfault, nenv>>

Next ==
  \/ \E s \in SpkSvcs : \E v \in SpecsOf(s) \cup {NULL} : EnvSvc(s, v)
  \/ \E n \in SpkNodes : \E v \in NodeVals(n) : EnvNode(n, v)
  \/ \E L \in LayoutSet : EnvLayout(L)
  \/ \E n \in SpkNodes : EnvMember(n)
  \/ \E p \in PeerNames : ArmStart(p)
  \/ ArmSet
  \/ \E s \in SpkSvcs : DeliverSvc(s)
  \/ \E n \in SpkNodes : DeliverNode(n)
  \/ DeliverConfig
  \/ ResyncPass

Spec == Init /\ [][Next]_vars

Quiescent == svcQ = {} /\ nodeQ = {} /\ ~cfgQ /\ ~reload /\ gate

StateRec  == [cl |-> cl, mem |-> mem, svcQ |-> svcQ, nodeQ |-> nodeQ, cfgQ |-> cfgQ, reload |-> reload, gate |-> gate, since |-> since, errS |-> errS, nfault |-> nfault, q |-> Quiescent]
StateRecP == [cl |-> cl', mem |-> mem', svcQ |-> svcQ', nodeQ |-> nodeQ', cfgQ |-> cfgQ', reload |-> reload', gate |-> gate', since |-> since', errS |-> errS', nfault |-> nfault', q |-> Quiescent']
Emit == PrintT(ToJson([pre |-> StateRec, act |-> act', post |-> StateRecP, n |-> nenv]))

----------------------------------------------------------------------------
(* Role A: the properties on the design.  A violation is reported as one    *)
(* JSON line per violating state (the exploration goes on): the verdicts    *)
(* come from role C on the real code.                                       *)
(* every announced service was handled under the configuration now loaded *)
Settled == (mem.annB \subseteq since \/ (svcQ = {} /\ nodeQ = {} /\ ~cfgQ /\ ~reload /\ gate)) /\ errS = {}
LoadedNow == Loaded(mem.cfg)
ExpectedRoutes(p) == Routes(LoadedNow, mem.annB, mem.ips, p)
SessionsExact ==
  (mem.cfg # NULL /\ Settled) =>
     \A p \in mem.peers :
        /\ (mem.sess[p.name].up => PeerShouldRun(p, mem.seen[Me]))
        /\ ((PeerShouldRun(p, mem.seen[Me]) /\ p.name \notin mem.sf) => mem.sess[p.name].up)
        /\ (mem.sess[p.name].up => mem.sess[p.name].rts = ExpectedRoutes(p.name))
ReportedPeers ==
  (mem.cfg # NULL /\ Settled) =>
     \A s \in SpkSvcs :
        mem.act[s] = IF s \in mem.annB
                     THEN {p \in PeerNames : mem.sess[p].up /\ \E r \in mem.sess[p].rts : r.pfx \in SvcPrefixes(LoadedNow, s, mem.ips)}
                     ELSE {}
Converged == Quiescent => Announced(mem) = Fresh(cl, Rank)

Soft(name, ok) == ok \/ PrintT(ToJson([mviol |-> name]))
InvSessionsExact == Soft("SessionsExact", SessionsExact)
InvReportedPeers == Soft("ReportedPeers", ReportedPeers)
InvConverged == Soft("Converged", Converged)

----------------------------------------------------------------------------
(* Value catalogues                                                         *)
NA == Nd("a", FALSE, FALSE)
NB == Nd("b", FALSE, FALSE)
EpBoth == {Ep("n1", TRUE), Ep("n2", TRUE)}
EpN1 == {Ep("n1", TRUE)}
EpN2 == {Ep("n2", TRUE)}
EpNotReady == {Ep("n1", FALSE)}

(* BGP family: addresses that share aggregates, dual stack, traffic policy  *)
SpecsBgp(s) ==
  IF s = "s1"
  THEN { Sv("LB", <<5>>, "Cluster", EpBoth), Sv("LB", <<5, 105>>, "Cluster", EpBoth), Sv("LB", <<105, 5>>, "Cluster", EpBoth),
         Sv("LB", <<9>>, "Cluster", EpBoth), Sv("LB", <<5>>, "Local", EpN2) }
  ELSE { Sv("LB", <<6>>, "Cluster", EpBoth), Sv("LB", <<107>>, "Cluster", EpBoth),
         Sv("LB", <<7>>, "Cluster", EpNotReady), Sv("CIP", <<6>>, "Cluster", EpBoth) }
NodesBgp(n) == IF n = "n1" THEN {NA, NB, Nd("a", TRUE, FALSE), Nd("a", FALSE, TRUE)} ELSE {NA}
InitBgpSvcs == [s \in SpkSvcs |-> IF s = "s1" THEN Sv("LB", <<5>>, "Cluster", EpBoth) ELSE NULL]
InitBgpSvcs2 == [s \in SpkSvcs |-> IF s = "s1" THEN Sv("LB", <<5>>, "Cluster", EpBoth) ELSE Sv("LB", <<6>>, "Cluster", EpBoth)]
InitNodesAA == [n \in SpkNodes |-> NA]
InitNodesAB == [n \in SpkNodes |-> IF n = "n1" THEN NA ELSE NB]

(* convergence family: 5, 6 are won by n1, 7 by n2; 9 lies outside pool pl  *)
SpecsConv(s) ==
  IF s = "s1"
  THEN { Sv("LB", <<5>>, "Cluster", EpBoth), Sv("LB", <<7>>, "Cluster", EpBoth),
         Sv("LB", <<5>>, "Local", EpN2), Sv("LB", <<5, 105>>, "Cluster", EpBoth), Sv("LB", <<105, 7>>, "Cluster", EpBoth),
         Sv("LB", <<9>>, "Cluster", EpBoth), Sv("LB", <<>>, "Cluster", EpBoth) }
  ELSE { Sv("LB", <<6>>, "Cluster", EpBoth), Sv("LB", <<6>>, "Cluster", EpNotReady),
         Sv("CIP", <<6>>, "Cluster", EpBoth), Sv("LB", <<5>>, "Cluster", EpN1) }
NodesConv(n) == IF n = "n1" THEN {NA, NB, Nd("a", TRUE, FALSE)} ELSE {NA, NB, Nd("a", FALSE, TRUE), Nd("a", TRUE, FALSE)}
SpecsConvSmall(s) ==
  IF s = "s1"
  THEN { Sv("LB", <<5>>, "Cluster", EpBoth), Sv("LB", <<7>>, "Cluster", EpBoth), Sv("LB", <<9>>, "Cluster", EpBoth),
         Sv("LB", <<5>>, "Local", EpN2) }
  ELSE { Sv("LB", <<6>>, "Cluster", EpBoth), Sv("LB", <<6>>, "Cluster", EpNotReady) }
NodesConvSmall(n) == IF n = "n1" THEN {NA, NB} ELSE {NA, Nd("a", FALSE, TRUE)}
(* dual-stack services over layer 2 and BGP *)
SpecsDual(s) ==
  IF s = "s1"
  THEN { Sv("LB", <<5, 105>>, "Cluster", EpBoth), Sv("LB", <<5>>, "Cluster", EpBoth), Sv("LB", <<105, 5>>, "Cluster", EpBoth),
         Sv("LB", <<7, 105>>, "Cluster", EpBoth), Sv("LB", <<105, 7>>, "Cluster", EpBoth), Sv("CIP", <<5, 105>>, "Cluster", EpBoth) }
  ELSE { Sv("LB", <<6>>, "Cluster", EpBoth) }
InitDualSvcs == [s \in SpkSvcs |-> IF s = "s1" THEN Sv("LB", <<5, 105>>, "Cluster", EpBoth) ELSE NULL]
InitConvSvcs == [s \in SpkSvcs |-> IF s = "s1" THEN Sv("LB", <<5>>, "Cluster", EpBoth) ELSE NULL]
InitConvSvcs7 == [s \in SpkSvcs |-> IF s = "s1" THEN Sv("LB", <<7>>, "Cluster", EpBoth) ELSE NULL]
InitConvSvcs2 == [s \in SpkSvcs |-> IF s = "s1" THEN Sv("LB", <<5>>, "Cluster", EpBoth) ELSE Sv("LB", <<6>>, "Cluster", EpBoth)]
(* small catalogues for the targeted configurations                         *)
SpecsBgpSmall(s) ==
  IF s = "s1" THEN { Sv("LB", <<5>>, "Cluster", EpBoth), Sv("LB", <<5, 105>>, "Cluster", EpBoth), Sv("LB", <<105, 5>>, "Cluster", EpBoth),
                     Sv("LB", <<9>>, "Cluster", EpBoth) }
  ELSE { Sv("LB", <<6>>, "Cluster", EpBoth) }
SpecsOne(s) == IF s = "s1" THEN { Sv("LB", <<5>>, "Cluster", EpBoth) } ELSE {}
SpecsTwoAddr(s) == IF s = "s1" THEN { Sv("LB", <<5>>, "Cluster", EpBoth), Sv("LB", <<7>>, "Cluster", EpBoth) } ELSE {}
(* two addresses the hash gives to n1, so that layer 2 stays with this node *)
SpecsTwoWin(s) == IF s = "s1" THEN { Sv("LB", <<5>>, "Cluster", EpBoth), Sv("LB", <<6>>, "Cluster", EpBoth) } ELSE {}
(* dual stack, IPv6 first, the two addresses won by different nodes (105: n1, 7: n2) *)
SpecsV6First(s) == IF s = "s1" THEN { Sv("LB", <<105, 7>>, "Cluster", EpBoth), Sv("LB", <<7, 105>>, "Cluster", EpBoth) } ELSE {}
InitV6First == [s \in SpkSvcs |-> IF s = "s1" THEN Sv("LB", <<105, 7>>, "Cluster", EpBoth) ELSE NULL]
NodesFlapB(n) == IF n = "n1" THEN {NA, NB} ELSE {NB}
NodesFlap(n) == IF n = "n1" THEN {NA, NB} ELSE {NA}
(* --ignore-exclude-lb: the speaker's own node carries the exclude label    *)
NXA == Nd("a", FALSE, TRUE)
NodesIgn(n) == IF n = "n1" THEN {NXA, Nd("a", TRUE, TRUE), NA} ELSE {NA, Nd("a", TRUE, FALSE)}
NodesIgnSmall(n) == IF n = "n1" THEN {NXA, Nd("a", TRUE, TRUE)} ELSE {NA}
SpecsOne7(s) == IF s = "s1" THEN { Sv("LB", <<7>>, "Cluster", EpBoth) } ELSE {}
InitNodesIgn == [n \in SpkNodes |-> IF n = "n1" THEN NXA ELSE NA]
BothMembers == {"n1", "n2"}
NoMembers == {}
=============================================================================
