"""Election family: C04 (layer-2: exactly one eligible announcer), C12 (minimal failover, choice
depends only on eligible node names and address) and C10 (BGP announcement eligibility iff).

spec/Election.tla      the definitions (views, L2Eligible, Winner, BGPEligible, C12 lemmas)
spec/ElectionMC.tla    role A (design checks for every election order) + role B (TLC enumerates the
                       bounded product of views / duels / (base, perturbed) pairs as JSON inputs)
harness/elect          real speaker controllers of every node decide on every input
spec/ElectionTrace.tla role C: TLC evaluates the property predicates on the recorded decisions
"""
import concurrent.futures
import hashlib
import json
import os
import random
import re

import vlib

PROPS = ["C04", "C10", "C12"]

# per property and tier: list of (cfg, role); role "gen" = role A + B (inputs for the harness),
# "model" = role A only
PLAN = {
    "C04": {"quick": [("l2flags_q", "gen"), ("l2eps_q", "gen"), ("seq_q", "gen"), ("cfg_q", "gen")],
            "thorough": [("l2flags_t4", "gen"), ("l2flags_t3", "gen"), ("l2eps_t4", "gen"), ("l2eps_t3", "gen"),
                         ("seq_t", "gen"), ("cfg_q", "gen")]},
    "C12": {"quick": [("lemma", "model"), ("duel", "gen"), ("pair_q", "gen"), ("l2flags_h", "gen"), ("seq_q", "gen"), ("cfg_q", "gen")],
            "thorough": [("lemma", "model"), ("duel", "gen"), ("pair_t", "gen"), ("l2flags_t3", "gen"), ("l2eps_t4", "gen"),
                         ("seq_t", "gen"), ("cfg_q", "gen")]},
    "C10": {"quick": [("bgpflags_q", "gen"), ("bgpeps9_q", "gen"), ("bgpeps3_q", "gen"), ("bgpepsm_q", "gen"),
                      ("seq_q", "gen"), ("cfg_q", "gen")],
            "thorough": [("bgpflags_t", "gen"), ("bgpeps9_q", "gen"), ("bgpeps3_q", "gen"), ("bgpepsm_q", "gen"),
                         ("bgpeps3m_t", "gen"), ("bgpeps4_t", "gen"), ("bgpeps39_t", "gen"),
                         ("seq_t", "gen"), ("cfg_q", "gen")]},
}
E2E_SAMPLE = {"quick": 1500, "thorough": 6000}     # inputs also driven through the whole speaker controller
BATCH = 150000                                      # inputs per harness run (a multiple of SEQ_CHUNK)
SEQ_CHUNK = 50                                      # sequences evaluated one after the other on the same real controllers
CHUNK = 9000                                        # observations per judging TLC process
JUDGES = 8                                          # judging TLC processes at a time
CONFIRM_PER_SIG = 3

ASSUME = {
    "C04": ["services sharing an address are evaluated on the same view (same traffic policy and endpoints): "
            "sharing requires both Cluster or the same selector",
            "a nil `ready` condition counts as ready (Kubernetes convention); a nil `serving` does not make an unready endpoint usable",
            "the memberlist view is a stand-in SpeakerList (Nodes = live members, Disabled when membership tracking is off), "
            "exactly what speakerlist.UsableSpeakers reports; no real memberlist cluster is started",
            "node flags NetworkUnavailable / exclude label exist only on nodes the speakers hold a Node object for"],
    "SEQ": ["sequence mode: every node keeps its Node object (a speaker never forgets a node); a view is reached from the previous "
            "one with SetConfig only if the advertisements changed, SetNode per changed Node, a full re-sync when a handler returns "
            "ReprocessAll or the memberlist changed, SetBalancer for Services whose endpoints / policy changed; the cluster objects "
            "seen by a re-sync are those of the new view",
            "configuration mode: two pools, advertisements with identical attributes that differ in pool names, pool selectors and "
            "node selectors, parsed by config.For with DontValidate"],
    "C12": ["eligible sets are varied by every cause the code knows (no live speaker, not selected by an advertisement, "
            "NetworkUnavailable, exclude label, no local endpoint under Local); 4 node names, 3 address pairs",
            "the election order is never computed by the check: it is the observed outcome of two-node duels"],
    "C10": ["every endpoint address is carried by entries of one node only (or only by entries without node name): "
            "the statement is ambiguous when the same address appears on different nodes",
            "a nil `ready` condition counts as ready (Kubernetes convention); a nil `serving` does not make an unready endpoint usable",
            "a node the speaker holds no Node object for is neither network-unavailable nor excluded"],
}


# --------------------------------------------------------------------------- role A + B

def generate(chk, cfg, role, seen):
    """Inputs are kept as canonical JSON strings (a thorough run holds about a million of them)."""
    lines = set()

    def sink(o):
        lines.add(vlib.canon(o))

    res = vlib.tlc(chk.work, "ElectionMC", "ElectionMC_%s.cfg" % cfg, workers=12, timeout=2400, heap="8g", json_sink=sink)
    chk.add_model_run("ElectionMC_%s.cfg" % cfg, res)
    if res.violated:
        chk.notes.append("MODEL-ONLY: design model ElectionMC_%s violates %s" % (cfg, res.violated))
        print("MODEL-ONLY: ElectionMC_%s.cfg violates %s in the design model" % (cfg, res.violated))
    elif res.error:
        raise vlib.Inconclusive("TLC ElectionMC_%s: %s\n%s" % (cfg, res.error, res.out[-1500:]))
    if role == "gen" and not lines:
        raise vlib.Inconclusive("ElectionMC_%s produced no inputs: %s" % (cfg, res.out[-800:]))
    out = []
    for l in sorted(lines):
        h = hashlib.md5(l.encode()).digest()
        if h in seen:
            continue            # the same input already came out of another configuration of this run
        seen.add(h)
        out.append(l)
    vlib.log("  ElectionMC_%s: %d states, %d distinct new inputs, %.1fs" % (cfg, res.distinct, len(out), res.wall))
    return out


def with_id(line, ident, e2e, chunk=None):
    """canonical input string -> input string carrying its id (and the whole-controller flag / the chunk number)"""
    return '{"id":"%s",%s%s%s' % (ident, '"e2e":true,' if e2e else "", '"chunk":%d,' % chunk if chunk is not None else "", line[1:])


# --------------------------------------------------------------------------- harness

def run_harness(chk, inputs, tag):
    scen = os.path.join(chk.work, "scen_%s.ndjson" % tag)
    obs = os.path.join(chk.work, "obs_%s.ndjson" % tag)
    with open(scen, "w") as fh:
        for o in inputs:
            fh.write((o if isinstance(o, str) else json.dumps(o, separators=(",", ":"))) + "\n")
    ov = vlib.overlay_for(vlib.harness_mapping("elect", "speaker"), chk.work)
    rc, out = vlib.go_test("speaker", "^TestVerifElect$", ov,
                           {"VERIF_SCENARIOS": scen, "VERIF_OBS": obs, "VERIF_SEED": chk.seed})
    if rc != 0 or not os.path.exists(obs):
        raise vlib.Inconclusive("speaker harness failed (rc=%s):\n%s" % (rc, out[-3000:]))
    lines = open(obs).read().splitlines()
    if len(lines) != len(inputs):
        raise vlib.Inconclusive("speaker harness wrote %d observations for %d inputs" % (len(lines), len(inputs)))
    os.remove(scen)
    os.remove(obs)
    return lines


# --------------------------------------------------------------------------- role C

def judge(chk, obs_lines, duel_lines, tag):
    """TLC judges the observations in chunks; the duel observations (the observed election order)
    are put in front of every chunk.  Returns the failing records (line = index into obs_lines)."""
    nd = len(duel_lines)
    parts = [obs_lines[k:k + CHUNK] for k in range(0, len(obs_lines), CHUNK)] or [[]]

    def one(k):
        d = os.path.join(chk.work, "judge_%s_%d" % (tag, k))
        os.makedirs(d, exist_ok=True)
        pth = os.path.join(d, "obs.ndjson")
        with open(pth, "w") as fh:
            fh.write("\n".join(duel_lines + parts[k]) + "\n")
        got, done = [], {}

        def sink(o):
            if "fails" in o:
                got.append(o)
            elif "done" in o:
                done["n"] = o["done"]

        res = vlib.tlc(d, "ElectionTrace", "ElectionTrace.cfg", workers=1, timeout=1800, extra_files=[pth],
                       json_sink=sink, heap="3g")
        if res.error or res.violated:
            raise vlib.Inconclusive("judge ElectionTrace: %s %s\n%s" % (res.error, res.violated, res.out[-2500:]))
        if done.get("n") != nd + len(parts[k]):
            raise vlib.Inconclusive("judge ElectionTrace consumed %s of %d observation lines\n%s"
                                    % (done.get("n"), nd + len(parts[k]), res.out[-1500:]))
        import shutil
        shutil.rmtree(d, ignore_errors=True)
        out = []
        for g in got:
            if g["line"] <= nd:
                if k == 0:
                    g["line"] = -g["line"]       # a duel line: reported once, index into duel_lines (negative)
                    out.append(g)
                continue
            g["line"] = k * CHUNK + g["line"] - nd - 1
            out.append(g)
        return out

    fails = []
    with concurrent.futures.ThreadPoolExecutor(max_workers=JUDGES) as ex:
        for r in ex.map(one, range(len(parts))):
            fails.extend(r)
    return fails


# --------------------------------------------------------------------------- signatures

FIRST = {"s4": 4, "s46": 4, "s6": 6, "s64": 6}


def _view_of(o):
    i = o["in"]
    return i.get("view") or i.get("base")


def signatures(name, g, o):
    """Stable names of what failed; one failing line may carry several (e.g. several shape pairs)."""
    info = g.get("info", {})
    v = _view_of(o) or {}
    ctx = "etp=%s|ml=%s" % (v.get("etp"), str(v.get("ml")).lower())
    if name in ("C04.SameForSharers", "C12.SameService"):
        pairs = sorted({tuple(sorted(p)) for p in info.get("splits", []) if p[0] != p[1]})
        return ["%s|pair=%s~%s|first=%s" % (name, a, b, "same" if FIRST[a] == FIRST[b] else "differ") for a, b in pairs]
    if name == "C12.ByDuels":
        return ["%s|svc=%s|pos=%d" % (name, sp[0], sp[1]) for sp in sorted(info.get("byduels", []))]
    if name in ("C12.Remove", "C12.Add", "C12.NoSwap"):
        key = name.split(".")[1].lower()
        return ["%s|shapes=%s" % (name, "+".join(sorted(info.get(key, []))))]
    if name == "C04.ExactlyOne":
        counts = set()
        for key in ("dec", "decb", "decp"):
            for d in o.get(key, []):
                for sh in d.values():
                    for ann in sh:
                        counts.add(len(ann))
        return ["%s|%s|elig=%d|announcers=%s" % (name, ctx, min(len(info.get("elig", [])), 2),
                                                  "+".join(str(c) for c in sorted(counts)))]
    if ".Seq" in name:
        m = o["in"].get("meta", {})
        key = name.split(".Seq")[1].lower()
        steps = info.get("steps", {}).get(key, [])
        return ["%s|dim=%s|etp=%s|ml=%s|ign=%s|step=%s" % (name, m.get("d"), m.get("etp"), str(m.get("ml")).lower(),
                                                          str(m.get("ign")).lower(), min(steps) if steps else "?")]
    if ".Cfg" in name:
        advs = o["in"].get("cfg", {}).get("advs", [])
        shape = "advs=%d" % len(advs)
        if len(advs) == 2:
            same = [k for k in ("pools", "psel", "nsel") if advs[0][k] == advs[1][k]]
            shape += "|same=" + "+".join(same)
        if name.startswith("C10.Cfg"):
            want = set(info.get("bgpwant", []))
            got = {n for n, r in o.get("cbgp", {}).items() if r == ""} if name == "C10.CfgIff" else set(o.get("e2e", {}).get("bgp", []))
            shape += "|" + ("missing" if want - got else "extra" if got - want else "routes")
        return ["%s|%s" % (name, shape)]
    if name == "C10.Iff":
        out = set()
        for b in info.get("bgp", []):
            out.add("%s|etp=%s|got=%s|want=%s" % (name, v.get("etp"), b["got"] or "announce",
                                                  "announce" if b["want"] else "silent"))
        return sorted(out)
    return ["%s|%s" % (name, ctx)]


# --------------------------------------------------------------------------- run

def _count_evaluations(o):
    i = o["in"]
    n = 0
    for key, vw in (("dec", "view"), ("decb", "base"), ("decp", "pert")):
        if key in o:
            n += len(o[key]) * 4 * 3 * len(i[vw]["nodes"])
    if "bgp" in o:
        n += sum(len(x) for x in o["bgp"].values())
    if "seq" in o:
        n += sum(2 * 2 * len(vw["nodes"]) for vw in i["views"])
    if "cbgp" in o:
        n += 4 * len(o["cbgp"])
    return n


def _nontrivial(o):
    """some node announces on the input (pairs: on both views)"""
    def any_ann(ds):
        return any(ann for d in ds for sh in d.values() for ann in sh)
    if "dec" in o:
        return any_ann(o["dec"])
    if "decb" in o:
        return any_ann(o["decb"]) and any_ann(o["decp"]) and o["in"]["base"] != o["in"]["pert"]
    if "bgp" in o:
        return any(r == "" for rs in o["bgp"].values() for r in rs)
    if "seq" in o:     # what is announced changes along the sequence
        return any(a["l2"] != b["l2"] or a["bgp"] != b["bgp"] for a, b in zip(o["seq"], o["seq"][1:]))
    if "cbgp" in o:
        return any(r == "" for r in o["cbgp"].values())
    return False


def process(chk, inputs, duel_obs, tag, all_fail_sigs, obs_lines=None):
    """harness + judge + confirmation for one batch of inputs"""
    prefix = chk.prop + "."
    if obs_lines is None:
        obs_lines = run_harness(chk, inputs, tag)
    fails = judge(chk, obs_lines, duel_obs, tag)
    chk.cov["traces_validated_against_impl"] += len(obs_lines)
    nontriv = 0
    for l in obs_lines:
        o = json.loads(l)
        chk.cov["evaluations"] += _count_evaluations(o)
        if _nontrivial(o):
            nontriv += 1
    chk.cov["distinct_nontrivial"] += nontriv
    if len(chk.cov["samples"]) < 3 and obs_lines:
        rnd = random.Random(chk.seed)
        pick = [json.loads(l) for l in obs_lines if '"e2e":{' in l][:50] or [json.loads(obs_lines[0])]
        chk.cov["samples"].append(rnd.choice(pick))
    # group by signature
    bysig = {}
    for g in fails:
        if g["line"] < 0:
            continue    # duel lines are judged in the batch they belong to
        o = json.loads(obs_lines[g["line"]])
        for name in g["fails"]:
            if not name.startswith(prefix):
                continue
            for sig in signatures(name, g, o):
                bysig.setdefault(sig, []).append((g, name, o))
    for sig, items in bysig.items():
        all_fail_sigs[sig] = all_fail_sigs.get(sig, 0) + len(items)
    if bysig:
        confirm(chk, bysig, duel_obs, inputs)


def confirm(chk, bysig, duel_obs, batch):
    """Every signature: the first few failing inputs are executed again, alone, and judged again.  A failing sequence is
    executed again together with the sequences that preceded it on the same controllers (its chunk)."""
    duel_inputs = [json.loads(l)["in"] for l in duel_obs]
    todo = []
    for sig, items in sorted(bysig.items()):
        if sum(1 for f in chk.failures if f["sig"] == sig) >= CONFIRM_PER_SIG:
            continue
        for g, name, o in items[:CONFIRM_PER_SIG]:
            todo.append((sig, name, o))
    if not todo:
        return
    index = None
    inputs = []
    seen = set()
    scen = {}
    for sig, name, o in todo:
        ident = o["in"]["id"]
        mine = [o["in"]]
        if o["in"]["kind"] == "seq":
            if index is None:
                index = {}
                for k, l in enumerate(batch):
                    m = re.match(r'\{"id":"([^"]*)"', l)
                    index[m.group(1)] = k
            k = index[ident]
            first = k - (int(ident.rsplit("-", 1)[1]) % SEQ_CHUNK)
            mine = [json.loads(l) for l in batch[max(first, 0):k + 1]]
        scen[ident] = mine
        for i in mine:
            if i["id"] not in seen:
                seen.add(i["id"])
                inputs.append(i)
    # sequences of one chunk must stay in their order
    inputs.sort(key=lambda i: (i.get("chunk", -1), int(i["id"].rsplit("-", 1)[1])) if i["kind"] == "seq" else (-2, 0))
    obs2 = run_harness(chk, duel_inputs + inputs, "confirm")
    nd = len(duel_inputs)
    fails2 = judge(chk, obs2[nd:], obs2[:nd], "confirm")
    again = {}
    for g in fails2:
        if g["line"] < 0:
            continue
        o2 = json.loads(obs2[nd + g["line"]])
        for name in g["fails"]:
            for sig in signatures(name, g, o2):
                again[(o2["in"]["id"], sig)] = (g, o2)
    for sig, name, o in todo:
        hit = again.get((o["in"]["id"], sig))
        if not hit:
            chk.notes.append("unreproduced: %s on input %s" % (sig, o["in"]["id"]))
            continue
        g2, o2 = hit
        needs_duels = "ByDuels" in name
        chk.fail(sig, name, detail={"observation": o2, "judge": g2},
                 scenario={"family": "elect", "inputs": scen[o["in"]["id"]], "duels": duel_inputs if needs_duels else []})


def run(chk):
    plan = PLAN[chk.prop][chk.tier]
    rnd = random.Random(chk.seed)
    duel_obs = []
    sigs = {}
    seen = set()
    total = 0
    ngen = sum(1 for _, role in plan if role == "gen")
    for cfg, role in plan:
        if role == "model":
            res = vlib.tlc(chk.work, "ElectionMC", "ElectionMC_%s.cfg" % cfg, workers=8, timeout=1800, want_json=False)
            chk.add_model_run("ElectionMC_%s.cfg" % cfg, res)
            if res.violated:
                chk.notes.append("MODEL-ONLY: ElectionMC_%s violates %s" % (cfg, res.violated))
                print("MODEL-ONLY: ElectionMC_%s.cfg violates %s in the design model" % (cfg, res.violated))
            elif res.error:
                raise vlib.Inconclusive("TLC ElectionMC_%s: %s\n%s" % (cfg, res.error, res.out[-1500:]))
            vlib.log("  ElectionMC_%s (role A only): %d states, %.1fs" % (cfg, res.distinct, res.wall))
            continue
        lines = generate(chk, cfg, role, seen)
        total += len(lines)
        # a seeded sample of the view inputs is also driven through the whole speaker controller
        view_kind = not cfg.startswith(("duel", "pair", "seq", "cfg"))
        is_seq = cfg.startswith("seq")
        e2e_every = max(1, len(lines) * ngen // E2E_SAMPLE[chk.tier])
        inputs = [with_id(l, "%s-%d" % (cfg, n), view_kind and rnd.randrange(e2e_every) == 0, n // SEQ_CHUNK if is_seq else None)
                  for n, l in enumerate(lines)]
        del lines
        if cfg == "duel":
            # the observed election order comes first; its observations precede every judged chunk
            duel_obs = run_harness(chk, inputs, "duel")
            process(chk, inputs, duel_obs, "duelviews", sigs, obs_lines=duel_obs)   # the duels are views like any other
            continue
        for b in range(0, len(inputs), BATCH):
            process(chk, inputs[b:b + BATCH], duel_obs, "%s_%d" % (cfg, b // BATCH), sigs)
    if chk.prop == "C12" and not duel_obs:
        raise vlib.Inconclusive("no duel observations")
    chk.cov["failing_observations_by_signature"] = sigs
    chk.cov["exhaustive"] = True
    chk.cov["inputs"] = total
    chk.cov["rule"] = (
        "TLC enumerates the bounded product of views of the listed ElectionMC configurations completely; every input is run on "
        "the real controllers of all nodes, for 4 service shapes x address pairs x 3 list arrangements (layer 2) or both nodes x 3 "
        "arrangements (BGP); evaluations = recorded ShouldAnnounce decisions; non-trivial = distinct inputs on which at least one "
        "node announces (pair inputs: on both views, and the views differ)")
    chk.assumptions += ASSUME[chk.prop] + ASSUME["SEQ"]


def replay(chk, path):
    body = json.load(open(path))
    sc = body["scenario"]
    duels = sc.get("duels", [])
    obs = run_harness(chk, duels + sc["inputs"], "replay")
    nd = len(duels)
    fails = judge(chk, obs[nd:], obs[:nd], "replay")
    chk.cov["traces_validated_against_impl"] = len(sc["inputs"])
    chk.cov["evaluations"] = sum(_count_evaluations(json.loads(l)) for l in obs[nd:])
    chk.cov["distinct_nontrivial"] = sum(1 for l in obs[nd:] if _nontrivial(json.loads(l)))
    chk.cov["states"] = chk.cov["transitions"] = len(sc["inputs"])
    chk.cov["samples"].append(json.loads(obs[nd]))
    chk.cov["rule"] = "replay of a stored scenario"
    for g in fails:
        if g["line"] < 0:
            continue
        o = json.loads(obs[nd + g["line"]])
        for name in g["fails"]:
            if name.startswith(chk.prop + "."):
                for sig in signatures(name, g, o):
                    chk.fail(sig, name, detail={"observation": o, "judge": g}, scenario=sc)
