------------------------------ MODULE AllocTrace ------------------------------
(***************************************************************************)
(* Role C for the allocator family: the observations logged by the Go       *)
(* harness (one NDJSON line per executed step of the real Allocator) are    *)
(* read back and the property predicates are evaluated by TLC on what the   *)
(* code actually did.  A failing predicate is printed as a JSON line        *)
(* [fail, line, w, step]; nothing here stops at the first failure, so that  *)
(* known findings and new violations can be told apart by the driver.       *)
(***************************************************************************)
EXTENDS Alloc, Json

Trace == ndJsonDeserialize("obs.ndjson")
N == Len(Trace)

VARIABLE i

SvcAll == DOMAIN SvcMeta

Has(o, f) == f \in DOMAIN o

Mem(o) == [t \in SvcAll |->
             IF t \in DOMAIN o.mem
             THEN [pool |-> o.mem[t].pool, ips |-> o.mem[t].ips, ports |-> Range(o.mem[t].ports),
                   sk |-> o.mem[t].sk, bk |-> o.mem[t].bk]
             ELSE NULL]

Req(r) == [ports |-> Range(r.ports), sk |-> r.sk, bk |-> r.bk, fam |-> r.fam, pol |-> r.pol, v6first |-> r.v6first]

SameWalk(j, k) == j >= 1 /\ Trace[j].w = Trace[k].w /\ Trace[j].i + 1 = Trace[k].i

----------------------------------------------------------------------------
(* C01 *)
C01_Exclusive(o) == Exclusive(Mem(o))
(* a fresh service with no sharing key is refused every held address        *)
C01_ProbeRefused(o) == \A k \in DOMAIN o.probes :
                         (o.probes[k].a \in InUse(Mem(o))) => ~o.probes[k].ok

----------------------------------------------------------------------------
(* C02, allocator level *)
C02_Placed(o) == \A t \in SvcAll : PlacedMem(o.layout, Mem(o), t)

FamOK(ips, r) ==
  CASE r.fam = "v4" -> Len(ips) = 1 /\ Fam(ips[1]) = "v4"
    [] r.fam = "v6" -> Len(ips) = 1 /\ Fam(ips[1]) = "v6"
    [] r.pol = "R"  -> Len(ips) = 2 /\ Fam(ips[1]) # Fam(ips[2])
    [] OTHER        -> Len(ips) \in {1, 2} /\ (Len(ips) = 2 => Fam(ips[1]) # Fam(ips[2]))

(* a successful call leaves the service with an allocation its pool admits  *)
C02_Result(o) ==
  (o.ok /\ o.act.op \in {"Assign", "Allocate", "AllocateFromPool", "AllocateAdditional"}) =>
     LET m == Mem(o)  s == o.act.s IN
     /\ m[s] # NULL
     /\ HasPool(o.layout, m[s].pool)
     /\ Compatible(PoolNamed(o.layout, m[s].pool), s)
     /\ (o.act.op = "Assign" => m[s].ips = o.act.ips)
     /\ (o.act.op \in {"Allocate", "AllocateFromPool"} => m[s].ips = o.ret)

(* a fresh automatic / from-pool allocation matches the requested families  *)
C02_Family(j, o) ==
  (o.ok /\ o.act.op \in {"Allocate", "AllocateFromPool"} /\ SameWalk(j, i) /\ Mem(Trace[j])[o.act.s] = NULL) =>
     FamOK(o.ret, Req(o.act.r))

C02_FromPool(j, o) ==
  (o.ok /\ o.act.op = "AllocateFromPool" /\ SameWalk(j, i) /\ Mem(Trace[j])[o.act.s] = NULL) =>
     Mem(o)[o.act.s].pool = o.act.pool

(* does pool p offer an admissible address set to s in memory al?           *)
Offers(L, al, p, s, r) ==
  LET ips == SelectIPs(FirstFree(al, p, s, r, "v4"), FirstFree(al, p, s, r, "v6"), r)
  IN ips # <<>> /\ AssignRes(L, al, s, ips, r).ok

(* automatic allocation: only auto-assign pools; pinned pools (ascending    *)
(* priority, 0 last) before unpinned pools                                  *)
C02_AutoChoice(j, o) ==
  (o.ok /\ o.act.op = "Allocate" /\ SameWalk(j, i) /\ Mem(Trace[j])[o.act.s] = NULL) =>
     LET L == o.layout  pre == Mem(Trace[j])  s == o.act.s  r == Req(o.act.r)
         p == PoolNamed(L, Mem(o)[s].pool)
         pinnedOffering == {q \in PinnedFor(L, s) : Offers(L, pre, q, s, r)}
     IN /\ p.auto
        /\ (p.alloc = NULL => pinnedOffering = {})
        /\ (p.alloc # NULL /\ ~(r.fam = "dual" /\ r.pol = "P") =>
              \A q \in pinnedOffering : PinRank(p) <= PinRank(q))

(* probes: an avoided buggy address or an address outside every pool is     *)
(* never handed out                                                         *)
C02_ProbeUsable(o) == \A k \in DOMAIN o.probes :
                        o.probes[k].ok => \E p \in PoolsOf(o.layout) :
                                             p.name = o.probes[k].pool /\ Usable(p, o.probes[k].a)

----------------------------------------------------------------------------
(* C07, allocator level: automatic allocation fails only when no pool it    *)
(* may use offers an admissible address set                                 *)
C07_FailOnlyIfEmpty(j, o) ==
  /\ (~o.ok /\ o.act.op = "Allocate" /\ SameWalk(j, i) /\ Mem(Trace[j])[o.act.s] = NULL) =>
       LET L == o.layout  pre == Mem(Trace[j])  s == o.act.s  r == Req(o.act.r)
       IN \A q \in PinnedFor(L, s) \cup UnpinnedAuto(L) : ~Offers(L, pre, q, s, r)
  (* ... and allocation from a requested pool fails only when that pool offers none *)
  /\ (~o.ok /\ o.act.op = "AllocateFromPool" /\ SameWalk(j, i) /\ Mem(Trace[j])[o.act.s] = NULL
         /\ HasPool(o.layout, o.act.pool)) =>
       LET L == o.layout  pre == Mem(Trace[j])  s == o.act.s  r == Req(o.act.r)
       IN ~Offers(L, pre, PoolNamed(L, o.act.pool), s, r)

----------------------------------------------------------------------------
(* C03, allocator level: gaining the address of the missing family keeps the address already held *)
C03_AdditionalKeeps(o) ==
  (o.ok /\ o.act.op = "AllocateAdditional") =>
     LET m == Mem(o)  s == o.act.s IN
     m[s] # NULL /\ Len(m[s].ips) = 2 /\ o.act.existing \in Range(m[s].ips) /\ o.ret # <<>> /\ o.ret[1] \in Range(m[s].ips)

(* C11 *)
SetOf(seq) == Range(seq)

C11_Keys(o) ==
  LET al == Mem(o) IN
  {[a |-> e.a, sk |-> e.sk, bk |-> e.bk] : e \in SetOf(o.keys)} =
     UNION {{[a |-> a, sk |-> k.sk, bk |-> k.bk] : k \in DSharingKeys(al)[a]} : a \in InUse(al)}
  \/ ~Exclusive(al)   \* (with an exclusivity violation the single Go entry is ill-defined: C01 reports it)

C11_Ports(o) ==
  LET al == Mem(o) IN
  {<<e.a, e.pt, e.s>> : e \in SetOf(o.portsUse)} =
     UNION {{<<a, x[1], x[2]>> : x \in DPortsInUse(al)[a]} : a \in InUse(al)}
  \/ ~Exclusive(al)

C11_SvcsOn(o) ==
  LET al == Mem(o) IN
  {<<e.a, e.s>> : e \in SetOf(o.svcsOn)} = UNION {{<<a, t>> : t \in Holders(al, a)} : a \in InUse(al)}

C11_PoolUse(o) ==
  LET al == Mem(o)
      kinds == {"any", "v4", "v6"}
      expected == UNION {UNION {{<<k, pn, a, DPoolUseCount(al, pn, a)>> : a \in DPoolUse(al, pn, k)}
                                 : pn \in {al[t].pool : t \in Allocated(al)}} : k \in kinds}
  IN {<<e.kind, e.pool, e.a, e.n>> : e \in {x \in SetOf(o.poolUse) : x.n # 0}} = expected

C11_Counters(o) ==
  LET al == Mem(o) IN
  \A p \in PoolsOf(o.layout) :
    \E c \in SetOf(o.counters) :
      /\ c.pool = p.name
      /\ c.as4 = Cardinality(DPoolUse(al, p.name, "v4"))
      /\ c.as6 = Cardinality(DPoolUse(al, p.name, "v6"))
      /\ c.as4 + c.av4 = PoolCountFam(p, "v4")
      /\ c.as6 + c.av6 = PoolCountFam(p, "v6")
      /\ c.as4 >= 0 /\ c.as6 >= 0 /\ c.av4 >= 0 /\ c.av6 >= 0

(* every usable address nobody holds can be taken at once by a fresh,       *)
(* unrelated service that the pool admits                                   *)
C11_Reusable(o) ==
  \A k \in DOMAIN o.probes :
     LET a == o.probes[k].a IN
     (a \notin InUse(Mem(o)) /\ \E p \in PoolsOf(o.layout) : Usable(p, a) /\ Compatible(p, "s9"))
        => o.probes[k].ok

----------------------------------------------------------------------------
NoPanic(o) == o.panic = ""

Fails(k) ==
  LET o == Trace[k]  j == k - 1 IN
  (IF C01_Exclusive(o) THEN {} ELSE {"C01.Exclusive"}) \cup
  (IF C01_ProbeRefused(o) THEN {} ELSE {"C01.ProbeRefused"}) \cup
  (IF C02_Placed(o) THEN {} ELSE {"C02.Placed"}) \cup
  (IF C02_Result(o) THEN {} ELSE {"C02.Result"}) \cup
  (IF C02_Family(j, o) THEN {} ELSE {"C02.Family"}) \cup
  (IF C02_FromPool(j, o) THEN {} ELSE {"C02.FromPool"}) \cup
  (IF C02_AutoChoice(j, o) THEN {} ELSE {"C02.AutoChoice"}) \cup
  (IF C02_ProbeUsable(o) THEN {} ELSE {"C02.ProbeUsable"}) \cup
  (IF C07_FailOnlyIfEmpty(j, o) THEN {} ELSE {"C07.FailOnlyIfEmpty"}) \cup
  (IF C03_AdditionalKeeps(o) THEN {} ELSE {"C03.AdditionalKeeps"}) \cup
  (IF C11_Keys(o) THEN {} ELSE {"C11.Keys"}) \cup
  (IF C11_Ports(o) THEN {} ELSE {"C11.Ports"}) \cup
  (IF C11_SvcsOn(o) THEN {} ELSE {"C11.SvcsOn"}) \cup
  (IF C11_PoolUse(o) THEN {} ELSE {"C11.PoolUse"}) \cup
  (IF C11_Counters(o) THEN {} ELSE {"C11.Counters"}) \cup
  (IF C11_Reusable(o) THEN {} ELSE {"C11.Reusable"}) \cup
  (IF NoPanic(o) THEN {} ELSE {"C11.Panic", "C01.Panic"})

Init == i = 1
Next == i < N /\ i' = i + 1

Judge ==
  LET f == Fails(i) IN
  /\ (f = {} \/ PrintT(ToJson([fails |-> f, line |-> i, w |-> Trace[i].w, step |-> Trace[i].i])))
  /\ (i < N \/ PrintT(ToJson([done |-> N])))
=============================================================================
