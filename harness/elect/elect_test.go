//go:build verif

package main

// Role B harness of the election family (C04, C10, C12).  Every input line is a view printed by
// TLC (spec/ElectionMC.tla).  For each view one real speaker controller per node name is used
// (newController, i.e. the real layer2Controller and bgpController wired the way the speaker
// wires them) and the ShouldAnnounce decision of EVERY node is recorded, for every service shape
// (single / dual stack, both orders) and under three arrangements of every list of the input
// (as given, reversed, seeded shuffle).  Nothing is judged here.

import (
	"bufio"
	"encoding/json"
	"fmt"
	"hash/fnv"
	"math/rand"
	"net"
	"os"
	"regexp"
	"runtime"
	"sort"
	"strconv"
	"sync"
	"testing"

	"github.com/go-kit/log"
	metallbv1beta1 "go.universe.tf/metallb/api/v1beta1"
	metallbv1beta2 "go.universe.tf/metallb/api/v1beta2"
	"go.universe.tf/metallb/internal/bgp"
	"go.universe.tf/metallb/internal/config"
	"go.universe.tf/metallb/internal/k8s/controllers"
	"go.universe.tf/metallb/internal/speakerlist"
	kit "go.universe.tf/metallb/internal/verifkit"
	v1 "k8s.io/api/core/v1"
	discovery "k8s.io/api/discovery/v1"
	metav1 "k8s.io/apimachinery/pkg/apis/meta/v1"
	"k8s.io/apimachinery/pkg/types"
)

type vFlags struct {
	Known   bool `json:"known"`
	Alive   bool `json:"alive"`
	Unavail bool `json:"unavail"`
	Excl    bool `json:"excl"`
}

type vEntry struct {
	Addrs   []string `json:"addrs"`
	Node    string   `json:"node"`
	Ready   string   `json:"ready"`
	Serving string   `json:"serving"`
}

type vView struct {
	Nodes map[string]vFlags `json:"nodes"`
	Ml    bool              `json:"ml"`
	Ign   bool              `json:"ign"`
	Advs  [][]string        `json:"advs"`
	Etp   string            `json:"etp"`
	Eps   [][]vEntry        `json:"eps"`
}

type vIn struct {
	ID    string  `json:"id"`
	Kind  string  `json:"kind"`
	Pairs [][]int `json:"pairs"`
	E2E   bool    `json:"e2e"`
	View  *vView  `json:"view"`
	Base  *vView  `json:"base"`
	Pert  *vView  `json:"pert"`
	// kind seq: views evaluated one after the other on long-lived controllers; inputs with the
	// same chunk number share the controllers (one history), in input order
	Views []*vView `json:"views"`
	Chunk int      `json:"chunk"`
	// kind cfg: the configuration as custom resources
	Cfg *vCfg `json:"cfg"`
}

type vAdvSpec struct {
	Pools []string `json:"pools"`
	Psel  string   `json:"psel"`
	Nsel  []string `json:"nsel"`
}

type vCfg struct {
	Zones map[string]string `json:"zones"`
	Advs  []vAdvSpec        `json:"advs"`
}

// what the whole controllers of all nodes announce after one view of a sequence
type vSeqObs struct {
	L2     map[string][]string `json:"l2"`     // service -> nodes with announced[layer2]
	Bgp    map[string][]string `json:"bgp"`    // service -> nodes with announced[bgp]
	Routes map[string]int      `json:"routes"` // node -> advertisements on its live sessions
	Resync map[string]int      `json:"resync"` // node -> number of full re-syncs the node's controller asked for
}

// decisions of one view for one address pair: service shape -> arrangement -> announcing nodes
type vL2Dec map[string][][]string

type vOut struct {
	In   json.RawMessage       `json:"in"`
	Dec  []vL2Dec              `json:"dec,omitempty"`  // kind l2 / duel: per address pair
	DecB []vL2Dec              `json:"decb,omitempty"` // kind pair: base view
	DecP []vL2Dec              `json:"decp,omitempty"` // kind pair: perturbed view
	Bgp  map[string][]string   `json:"bgp,omitempty"`  // kind bgp: node -> arrangement -> returned reason
	E2E  map[string][]string   `json:"e2e,omitempty"`  // protocol -> nodes whose whole controller announces
	Rts  map[string]int        `json:"routes,omitempty"`
	Seq  []vSeqObs             `json:"seq,omitempty"`  // kind seq: one per view
	CL2  *[]string             `json:"cl2,omitempty"`  // kind cfg: nodes whose layer-2 controller announces [v4]
	CBgp map[string]string     `json:"cbgp,omitempty"` // kind cfg: node -> reason returned by the BGP controller
	CErr string                `json:"cfgerr,omitempty"`
	Err  string                `json:"err,omitempty"`
}

const vArrangements = 3

// vFakeSL is the memberlist view handed to the controllers (the real SpeakerList needs a
// memberlist cluster); nil map = membership tracking disabled, as the real UsableSpeakers reports.
type vFakeSL struct{ nodes map[string]bool }

func (s *vFakeSL) UsableSpeakers() speakerlist.SpeakerListInfo {
	return speakerlist.SpeakerListInfo{Nodes: s.nodes, Disabled: s.nodes == nil}
}
func (s *vFakeSL) Rejoin() {}

// ---------------------------------------------------------------- real controllers, one per node

type vCtl struct {
	c  *controller
	sl *vFakeSL
}

var (
	vCtlMu sync.Mutex
	vCtls  = map[string]*vCtl{}
)

// recording session manager (no network)
type vSessions struct {
	mu   sync.Mutex
	sess []*vSession
}
type vSession struct {
	mu   sync.Mutex
	ads  []*bgp.Advertisement
	dead bool
}

func (s *vSession) Set(ads ...*bgp.Advertisement) error {
	s.mu.Lock()
	s.ads = ads
	s.mu.Unlock()
	return nil
}
func (s *vSession) Close() error { s.dead = true; return nil }
func (m *vSessions) NewSession(_ log.Logger, _ bgp.SessionParameters) (bgp.Session, error) {
	m.mu.Lock()
	defer m.mu.Unlock()
	s := &vSession{}
	m.sess = append(m.sess, s)
	return s, nil
}
func (m *vSessions) SyncBFDProfiles(map[string]*config.BFDProfile) error { return nil }
func (m *vSessions) SyncExtraInfo(string) error                          { return nil }
func (m *vSessions) SetEventCallback(func(interface{}))                  {}

type vClient struct{}

func (vClient) UpdateStatus(*v1.Service) error                      { return nil }
func (vClient) Infof(*v1.Service, string, string, ...interface{})  {}
func (vClient) Errorf(*v1.Service, string, string, ...interface{}) {}

var vNoIfaces = regexp.MustCompile(".*")

// vNewCtl builds a real speaker controller for one node.  The layer-2 announcer is told to
// ignore every local interface (no raw sockets); the BGP session manager records.
func vNewCtl(node string, ign bool) *vCtl {
	sl := &vFakeSL{}
	c, err := newController(controllerConfig{
		MyNode:                 node,
		Logger:                 log.NewNopLogger(),
		SList:                  sl,
		bgpType:                bgpNative,
		IgnoreExcludeLB:        ign,
		InterfaceExcludeRegexp: vNoIfaces,
		Layer2StatusChange:     func(types.NamespacedName) {},
		BGPAdsChangedCallback:  func(string) {},
	})
	if err != nil {
		panic("newController: " + err.Error())
	}
	c.client = vClient{}
	return &vCtl{c: c, sl: sl}
}

func (vc *vCtl) mgr() *vSessions {
	return vc.c.protocolHandlers[config.BGP].(*bgpController).sessionManager.(*vSessions)
}

func (vc *vCtl) routes() int {
	m := vc.mgr()
	cnt := 0
	m.mu.Lock()
	for _, s := range m.sess {
		if !s.dead {
			s.mu.Lock()
			cnt += len(s.ads)
			s.mu.Unlock()
		}
	}
	m.mu.Unlock()
	return cnt
}

func vController(node string, ign bool, tag string) *vCtl {
	key := node + "|" + strconv.FormatBool(ign) + "|" + tag
	vCtlMu.Lock()
	defer vCtlMu.Unlock()
	if c, ok := vCtls[key]; ok {
		return c
	}
	vc := vNewCtl(node, ign)
	vCtls[key] = vc
	return vc
}

// ---------------------------------------------------------------- concretisation

func vOrder(n, p int, rnd *rand.Rand) []int {
	idx := make([]int, n)
	for i := range idx {
		idx[i] = i
	}
	switch p {
	case 1:
		for i, j := 0, n-1; i < j; i, j = i+1, j-1 {
			idx[i], idx[j] = idx[j], idx[i]
		}
	case 2:
		rnd.Shuffle(n, func(i, j int) { idx[i], idx[j] = idx[j], idx[i] })
	}
	return idx
}

func vNodeNames(v *vView) []string {
	names := make([]string, 0, len(v.Nodes))
	for n := range v.Nodes {
		names = append(names, n)
	}
	sort.Strings(names)
	return names
}

func vNodes(v *vView, p int, rnd *rand.Rand) map[string]*v1.Node {
	names := vNodeNames(v)
	out := map[string]*v1.Node{}
	for _, i := range vOrder(len(names), p, rnd) {
		n := names[i]
		f := v.Nodes[n]
		if !f.Known {
			continue
		}
		node := &v1.Node{ObjectMeta: metav1.ObjectMeta{Name: n, Labels: map[string]string{"kubernetes.io/hostname": n}}}
		if p > 0 {
			node.Status.Conditions = append(node.Status.Conditions, v1.NodeCondition{Type: v1.NodeReady, Status: v1.ConditionTrue})
		}
		if f.Unavail {
			node.Status.Conditions = append(node.Status.Conditions, v1.NodeCondition{Type: v1.NodeNetworkUnavailable, Status: v1.ConditionTrue})
		} else if p == 1 {
			node.Status.Conditions = append(node.Status.Conditions, v1.NodeCondition{Type: v1.NodeNetworkUnavailable, Status: v1.ConditionFalse})
		}
		if p == 2 {
			node.Status.Conditions = append(node.Status.Conditions, v1.NodeCondition{Type: v1.NodeMemoryPressure, Status: v1.ConditionTrue})
		}
		if f.Excl {
			val := ""
			if p == 1 {
				val = "true"
			}
			node.Labels[v1.LabelNodeExcludeBalancers] = val
		}
		out[n] = node
	}
	return out
}

func vSpeakers(v *vView) map[string]bool {
	if !v.Ml {
		return nil
	}
	m := map[string]bool{}
	for n, f := range v.Nodes {
		if f.Alive {
			m[n] = true
		}
	}
	return m
}

func vPool(v *vView, p int, rnd *rand.Rand) *config.Pool {
	_, c4, _ := net.ParseCIDR("192.168.0.0/16")
	_, c6, _ := net.ParseCIDR("fc00::/16")
	pool := &config.Pool{Name: "pool1", CIDR: []*net.IPNet{c4, c6}, AutoAssign: true}
	for _, i := range vOrder(len(v.Advs), p, rnd) {
		nodes := map[string]bool{}
		for _, j := range vOrder(len(v.Advs[i]), p, rnd) {
			nodes[v.Advs[i][j]] = true
		}
		pool.L2Advertisements = append(pool.L2Advertisements, &config.L2Advertisement{Nodes: nodes, AllInterfaces: true})
		pool.BGPAdvertisements = append(pool.BGPAdvertisements, &config.BGPAdvertisement{Name: "adv" + strconv.Itoa(i),
			AggregationLength: 32, AggregationLengthV6: 128, Nodes: nodes})
	}
	return pool
}

// vEpAddr turns an abstract endpoint address into a concrete one (injective on short names).
func vEpAddr(a string) string {
	h := fnv.New32a()
	h.Write([]byte(a))
	x := h.Sum32()
	return fmt.Sprintf("10.%d.%d.%d", 1+(x>>16)&0x7f, (x>>8)&0xff, x&0xff)
}

func vCond(s string) *bool {
	switch s {
	case "T":
		b := true
		return &b
	case "F":
		b := false
		return &b
	}
	return nil
}

func vSlices(v *vView, p int, rnd *rand.Rand) []discovery.EndpointSlice {
	out := []discovery.EndpointSlice{}
	for _, i := range vOrder(len(v.Eps), p, rnd) {
		sl := discovery.EndpointSlice{ObjectMeta: metav1.ObjectMeta{Name: "slice" + strconv.Itoa(i), Namespace: "ns1",
			Labels: map[string]string{discovery.LabelServiceName: "svc"}}, AddressType: discovery.AddressTypeIPv4}
		for _, j := range vOrder(len(v.Eps[i]), p, rnd) {
			e := v.Eps[i][j]
			ep := discovery.Endpoint{}
			for _, k := range vOrder(len(e.Addrs), p, rnd) {
				ep.Addresses = append(ep.Addresses, vEpAddr(e.Addrs[k]))
			}
			if e.Node != "" {
				n := e.Node
				ep.NodeName = &n
			}
			ep.Conditions.Ready = vCond(e.Ready)
			ep.Conditions.Serving = vCond(e.Serving)
			if e.Ready == "F" && e.Serving == "T" {
				t := true
				ep.Conditions.Terminating = &t
			}
			sl.Endpoints = append(sl.Endpoints, ep)
		}
		out = append(out, sl)
	}
	return out
}

func vService(name string, v *vView, ips []net.IP) *v1.Service {
	svc := &v1.Service{ObjectMeta: metav1.ObjectMeta{Name: name, Namespace: "ns1"}}
	svc.Spec.Type = v1.ServiceTypeLoadBalancer
	svc.Spec.ExternalTrafficPolicy = v1.ServiceExternalTrafficPolicyTypeCluster
	if v.Etp == "Local" {
		svc.Spec.ExternalTrafficPolicy = v1.ServiceExternalTrafficPolicyTypeLocal
	}
	for _, ip := range ips {
		svc.Status.LoadBalancer.Ingress = append(svc.Status.LoadBalancer.Ingress, v1.LoadBalancerIngress{IP: ip.String()})
	}
	return svc
}

var vShapes = []string{"s4", "s6", "s46", "s64"}

func vShapeIPs(shape string, pair []int) []net.IP {
	a4, a6 := kit.IP(pair[0]), kit.IP(pair[1])
	switch shape {
	case "s4":
		return []net.IP{a4}
	case "s6":
		return []net.IP{a6}
	case "s46":
		return []net.IP{a4, a6}
	}
	return []net.IP{a6, a4}
}

func vSeed(id string, p int) int64 {
	h := fnv.New64a()
	h.Write([]byte(id))
	s, _ := strconv.ParseInt(os.Getenv("VERIF_SEED"), 10, 64)
	return int64(h.Sum64()>>1) ^ (s * 7919) ^ int64(p)
}

// ---------------------------------------------------------------- layer 2

// vL2 asks the layer-2 controller of every node of the view, for every address pair, service
// shape and arrangement, whether it announces.
func vL2(id string, v *vView, pairs [][]int) []vL2Dec {
	names := vNodeNames(v)
	out := make([]vL2Dec, len(pairs))
	for k := range pairs {
		out[k] = vL2Dec{}
		for _, sh := range vShapes {
			out[k][sh] = make([][]string, vArrangements)
		}
	}
	l := log.NewNopLogger()
	for p := 0; p < vArrangements; p++ {
		rnd := rand.New(rand.NewSource(vSeed(id, p)))
		nodes := vNodes(v, p, rnd)
		pool := vPool(v, p, rnd)
		eps := vSlices(v, p, rnd)
		// every node decides on its own copy of the real layer2Controller (same fields, own
		// memberlist view object so that the workers of the harness do not share it)
		handlers := map[string]*layer2Controller{}
		for _, n := range names {
			base := vController(n, v.Ign, "fn").c.protocolHandlers[config.Layer2].(*layer2Controller)
			cp := *base
			cp.sList = &vFakeSL{nodes: vSpeakers(v)}
			handlers[n] = &cp
		}
		for k, pair := range pairs {
			for _, sh := range vShapes {
				ips := vShapeIPs(sh, pair)
				svc := vService("svc-"+sh, v, ips)
				ann := []string{}
				for _, i := range vOrder(len(names), p, rnd) {
					n := names[i]
					if handlers[n].ShouldAnnounce(l, "ns1/svc-"+sh, ips, pool, svc, eps, nodes) == "" {
						ann = append(ann, n)
					}
				}
				sort.Strings(ann)
				out[k][sh][p] = ann
			}
		}
	}
	return out
}

// ---------------------------------------------------------------- BGP

func vBGP(id string, v *vView) map[string][]string {
	names := vNodeNames(v)
	out := map[string][]string{}
	l := log.NewNopLogger()
	ips := []net.IP{kit.IP(0)}
	for p := 0; p < vArrangements; p++ {
		rnd := rand.New(rand.NewSource(vSeed(id, p)))
		nodes := vNodes(v, p, rnd)
		pool := vPool(v, p, rnd)
		eps := vSlices(v, p, rnd)
		svc := vService("svc", v, ips)
		for _, n := range names {
			h := vController(n, v.Ign, "fn").c.protocolHandlers[config.BGP]
			out[n] = append(out[n], h.ShouldAnnounce(l, "ns1/svc", ips, pool, svc, eps, nodes))
		}
	}
	return out
}

// ---------------------------------------------------------------- whole controller (sampled)

var vE2EMu sync.Mutex

// vE2E drives the complete speaker controller of every node (SetConfig, node events, SetBalancer)
// and reports which nodes ended up announcing per protocol, and the number of routes handed to
// the BGP sessions.
func vE2E(v *vView, pair []int, parsed *config.Config) (map[string][]string, map[string]int) {
	vE2EMu.Lock()
	defer vE2EMu.Unlock()
	names := vNodeNames(v)
	l := log.NewNopLogger()
	rnd := rand.New(rand.NewSource(1))
	ann := map[string][]string{"l2": {}, "bgp": {}}
	routes := map[string]int{}
	ips := []net.IP{kit.IP(pair[0])}
	for _, n := range names {
		vc := vController(n, v.Ign, "e2e")
		c := vc.c
		// forget whatever the previous view left behind
		c.SetBalancer(l, "ns1/svc", nil, nil)
		cfg := parsed
		if cfg == nil {
			cfg = vConfig(v, 0, rnd)
		}
		c.nodes = map[string]*v1.Node{}
		vc.sl.nodes = vSpeakers(v)
		c.SetConfig(l, cfg)
		for _, node := range vNodes(v, 0, rnd) {
			c.SetNode(l, node)
		}
		svc := vService("svc", v, ips)
		c.SetBalancer(l, "ns1/svc", svc, vSlices(v, 0, rnd))
		if c.announced[config.Layer2]["ns1/svc"] {
			ann["l2"] = append(ann["l2"], n)
		}
		if c.announced[config.BGP]["ns1/svc"] {
			ann["bgp"] = append(ann["bgp"], n)
		}
		routes[n] = vc.routes()
	}
	return ann, routes
}

func vConfig(v *vView, p int, rnd *rand.Rand) *config.Config {
	return &config.Config{
		Pools: &config.Pools{ByName: map[string]*config.Pool{"pool1": vPool(v, p, rnd)}},
		Peers: map[string]*config.Peer{"peer1": {Name: "peer1", Addr: net.ParseIP("10.9.9.9"), ASN: 64512, MyASN: 64513}},
	}
}

// ---------------------------------------------------------------- sequences on long-lived controllers

// vHistory is one set of real controllers (one per node name) living through a chunk of sequences.
// Every view is reached from the previous one with the calls the running speaker would see:
// SetConfig only when the advertisements changed, SetNode for every Node object that changed,
// a full re-sync of the Services when a handler returned ReprocessAll or the memberlist changed
// (that is what the reconcilers / ForceSync do), SetBalancer for a Service whose endpoints or
// spec changed.
type vHistory struct {
	ctl    map[string]*vCtl
	cur    *vView
	resync map[string]int
}

var vSeqSvcs = []string{"svcA", "svcB"}

func vSeqIPs(name string, pairs [][]int) []net.IP {
	if name == "svcA" {
		return []net.IP{kit.IP(pairs[0][0])}
	}
	return []net.IP{kit.IP(pairs[len(pairs)-1][1])}
}

func vJSONEq(a, b interface{}) bool {
	x, _ := json.Marshal(a)
	y, _ := json.Marshal(b)
	return string(x) == string(y)
}

func (h *vHistory) apply(v *vView, pairs [][]int) vSeqObs {
	l := log.NewNopLogger()
	names := vNodeNames(v)
	rnd := rand.New(rand.NewSource(1))
	cur := h.cur
	for _, n := range names {
		if h.ctl[n] == nil {
			h.ctl[n] = vNewCtl(n, v.Ign)
		}
	}
	nodeObjs := vNodes(v, 0, rnd)
	eps := vSlices(v, 0, rnd)
	svcs := map[string]*v1.Service{}
	for _, s := range vSeqSvcs {
		svcs[s] = vService(s, v, vSeqIPs(s, pairs))
	}
	for _, me := range names {
		vc := h.ctl[me]
		c := vc.c
		all := func() {
			h.resync[me]++
			for _, s := range vSeqSvcs {
				c.SetBalancer(l, "ns1/"+s, svcs[s], eps)
			}
		}
		// configuration event
		if cur == nil || !vJSONEq(cur.Advs, v.Advs) {
			if c.SetConfig(l, vConfig(v, 0, rnd)) == controllers.SyncStateReprocessAll && cur != nil {
				all()
			}
		}
		// memberlist event: the speaker forces a re-sync
		oldSp, newSp := map[string]bool(nil), vSpeakers(v)
		if cur != nil {
			oldSp = vSpeakers(cur)
		}
		vc.sl.nodes = newSp
		if cur != nil && !vJSONEq(oldSp, newSp) {
			all()
		}
		// node events, through the real SetNode; re-sync only if it asks for one
		for _, n := range names {
			if cur != nil && cur.Nodes[n] == v.Nodes[n] {
				continue
			}
			if nodeObjs[n] == nil {
				continue
			}
			if c.SetNode(l, nodeObjs[n]) == controllers.SyncStateReprocessAll {
				all()
			}
		}
		// service / endpoint-slice events
		if cur == nil || cur.Etp != v.Etp || !vJSONEq(cur.Eps, v.Eps) {
			for _, s := range vSeqSvcs {
				c.SetBalancer(l, "ns1/"+s, svcs[s], eps)
			}
		}
	}
	h.cur = v
	o := vSeqObs{L2: map[string][]string{}, Bgp: map[string][]string{}, Routes: map[string]int{}, Resync: map[string]int{}}
	for _, s := range vSeqSvcs {
		o.L2[s] = []string{}
		o.Bgp[s] = []string{}
		for _, n := range names {
			if h.ctl[n].c.announced[config.Layer2]["ns1/"+s] {
				o.L2[s] = append(o.L2[s], n)
			}
			if h.ctl[n].c.announced[config.BGP]["ns1/"+s] {
				o.Bgp[s] = append(o.Bgp[s], n)
			}
		}
	}
	for _, n := range names {
		o.Routes[n] = h.ctl[n].routes()
		o.Resync[n] = h.resync[n]
	}
	return o
}

// vChunk runs the sequences of one chunk, in order, on one history per ignore-flag value.
func vChunk(raws [][]byte) [][]byte {
	hist := map[bool]*vHistory{}
	outs := make([][]byte, len(raws))
	for i, raw := range raws {
		out := vOut{In: append(json.RawMessage{}, raw...)}
		func() {
			defer func() {
				if r := recover(); r != nil {
					out.Err = fmt.Sprint("panic: ", r)
				}
			}()
			var in vIn
			kit.Must(json.Unmarshal(raw, &in))
			for _, v := range in.Views {
				h := hist[v.Ign]
				if h == nil {
					h = &vHistory{ctl: map[string]*vCtl{}, resync: map[string]int{}}
					hist[v.Ign] = h
				}
				out.Seq = append(out.Seq, h.apply(v, in.Pairs))
			}
		}()
		b, err := json.Marshal(out)
		if err != nil {
			panic(err)
		}
		outs[i] = b
	}
	return outs
}

// ---------------------------------------------------------------- configuration through config.For

func vSel(key string, vals []string) []metav1.LabelSelector {
	out := []metav1.LabelSelector{}
	for _, x := range vals {
		out = append(out, metav1.LabelSelector{MatchLabels: map[string]string{key: x}})
	}
	return out
}

// vParse renders the abstract configuration as custom resources and has the real config.For
// parse it: two pools (p1 holds the Service addresses), BGP and L2 advertisements with pool
// names, pool selectors and node selectors, one peer, the Node objects with their zone label.
func vParse(v *vView, cf *vCfg) (*config.Config, map[string]*v1.Node, error) {
	rnd := rand.New(rand.NewSource(1))
	nodes := vNodes(v, 0, rnd)
	res := config.ClusterResources{}
	for _, n := range vNodeNames(v) {
		if nodes[n] == nil {
			continue
		}
		nodes[n].Labels["zone"] = cf.Zones[n]
		res.Nodes = append(res.Nodes, *nodes[n])
	}
	res.Pools = []metallbv1beta1.IPAddressPool{
		{ObjectMeta: metav1.ObjectMeta{Name: "p1", Namespace: "metallb-system", Labels: map[string]string{"tier": "gold"}},
			Spec: metallbv1beta1.IPAddressPoolSpec{Addresses: []string{"192.168.0.0/16", "fc00::/16"}}},
		{ObjectMeta: metav1.ObjectMeta{Name: "p2", Namespace: "metallb-system", Labels: map[string]string{"tier": "silver"}},
			Spec: metallbv1beta1.IPAddressPoolSpec{Addresses: []string{"10.99.0.0/24"}}},
	}
	res.Peers = []metallbv1beta2.BGPPeer{{ObjectMeta: metav1.ObjectMeta{Name: "peer1", Namespace: "metallb-system"},
		Spec: metallbv1beta2.BGPPeerSpec{MyASN: 64513, ASN: 64512, Address: "10.9.9.9"}}}
	for i, a := range cf.Advs {
		meta := metav1.ObjectMeta{Name: "adv" + strconv.Itoa(i+1), Namespace: "metallb-system"}
		var psel []metav1.LabelSelector
		if a.Psel != "" {
			psel = vSel("tier", []string{a.Psel})
		}
		var nsel []metav1.LabelSelector
		if len(a.Nsel) > 0 {
			nsel = vSel("zone", a.Nsel)
		}
		pools := append([]string{}, a.Pools...)
		res.BGPAdvs = append(res.BGPAdvs, metallbv1beta1.BGPAdvertisement{ObjectMeta: meta,
			Spec: metallbv1beta1.BGPAdvertisementSpec{IPAddressPools: pools, IPAddressPoolSelectors: psel, NodeSelectors: nsel}})
		res.L2Advs = append(res.L2Advs, metallbv1beta1.L2Advertisement{ObjectMeta: meta,
			Spec: metallbv1beta1.L2AdvertisementSpec{IPAddressPools: pools, IPAddressPoolSelectors: psel, NodeSelectors: nsel}})
	}
	cfg, err := config.For(res, config.DontValidate)
	return cfg, nodes, err
}

func vCfgKind(in *vIn, out *vOut) {
	v := in.View
	cfg, nodes, err := vParse(v, in.Cfg)
	if err != nil {
		out.CErr = err.Error()
		return
	}
	l := log.NewNopLogger()
	rnd := rand.New(rand.NewSource(1))
	eps := vSlices(v, 0, rnd)
	ips := []net.IP{kit.IP(in.Pairs[0][0])}
	svc := vService("svc", v, ips)
	pool := cfg.Pools.ByName[poolFor(cfg.Pools, ips)]
	cl2 := []string{}
	out.CL2 = &cl2
	out.CBgp = map[string]string{}
	for _, n := range vNodeNames(v) {
		if pool == nil {
			out.CBgp[n] = "noPool"
			continue
		}
		base := vController(n, v.Ign, "fn").c
		l2 := *(base.protocolHandlers[config.Layer2].(*layer2Controller))
		l2.sList = &vFakeSL{nodes: vSpeakers(v)}
		if l2.ShouldAnnounce(l, "ns1/svc", ips, pool, svc, eps, nodes) == "" {
			cl2 = append(cl2, n)
		}
		out.CBgp[n] = base.protocolHandlers[config.BGP].ShouldAnnounce(l, "ns1/svc", ips, pool, svc, eps, nodes)
	}
	out.E2E, out.Rts = vE2E(v, in.Pairs[0], cfg)
}

// ---------------------------------------------------------------- driver

func vHandle(raw []byte) (out vOut) {
	out.In = append(json.RawMessage{}, raw...)
	defer func() {
		if r := recover(); r != nil {
			out.Err = fmt.Sprint("panic: ", r)
		}
	}()
	var in vIn
	kit.Must(json.Unmarshal(raw, &in))
	switch in.Kind {
	case "l2", "duel":
		out.Dec = vL2(in.ID, in.View, in.Pairs)
	case "pair":
		out.DecB = vL2(in.ID+"b", in.Base, in.Pairs)
		out.DecP = vL2(in.ID+"p", in.Pert, in.Pairs)
	case "bgp":
		out.Bgp = vBGP(in.ID, in.View)
	case "cfg":
		vCfgKind(&in, &out)
		return out
	default:
		panic("unknown kind " + in.Kind)
	}
	if in.E2E && in.View != nil {
		out.E2E, out.Rts = vE2E(in.View, in.Pairs[0], nil)
	}
	return out
}

func TestVerifElect(t *testing.T) {
	f, err := os.Open(os.Getenv("VERIF_SCENARIOS"))
	if err != nil {
		t.Fatal(err)
	}
	defer f.Close()
	var lines [][]byte
	sc := bufio.NewScanner(f)
	sc.Buffer(make([]byte, 1<<20), 1<<26)
	for sc.Scan() {
		if len(sc.Bytes()) > 0 {
			lines = append(lines, append([]byte{}, sc.Bytes()...))
		}
	}
	// every controller built below gets its own recording BGP session manager
	newBGP = func(controllerConfig) bgp.SessionManager { return &vSessions{} }
	res := make([][]byte, len(lines))
	par := runtime.GOMAXPROCS(0)
	if v := os.Getenv("VERIF_PAR"); v != "" {
		par, _ = strconv.Atoi(v)
	}
	// work items: a single input, or all the sequences of one chunk (one history, in order)
	var items [][]int
	chunkItem := map[int]int{}
	for i, raw := range lines {
		var head struct {
			Kind  string `json:"kind"`
			Chunk int    `json:"chunk"`
		}
		kit.Must(json.Unmarshal(raw, &head))
		if head.Kind != "seq" {
			items = append(items, []int{i})
			continue
		}
		k, ok := chunkItem[head.Chunk]
		if !ok {
			k = len(items)
			chunkItem[head.Chunk] = k
			items = append(items, nil)
		}
		items[k] = append(items[k], i)
	}
	var wg sync.WaitGroup
	ch := make(chan []int, 1024)
	for w := 0; w < par; w++ {
		wg.Add(1)
		go func() {
			defer wg.Done()
			for it := range ch {
				var head struct {
					Kind string `json:"kind"`
				}
				kit.Must(json.Unmarshal(lines[it[0]], &head))
				if head.Kind == "seq" {
					raws := make([][]byte, len(it))
					for k, i := range it {
						raws[k] = lines[i]
					}
					for k, b := range vChunk(raws) {
						res[it[k]] = b
					}
					continue
				}
				o := vHandle(lines[it[0]])
				b, err := json.Marshal(o)
				if err != nil {
					panic(err)
				}
				res[it[0]] = b
			}
		}()
	}
	for _, it := range items {
		ch <- it
	}
	close(ch)
	wg.Wait()
	out, err := os.Create(os.Getenv("VERIF_OBS"))
	if err != nil {
		t.Fatal(err)
	}
	w := bufio.NewWriterSize(out, 1<<20)
	for _, b := range res {
		w.Write(b)
		w.WriteByte('\n')
	}
	w.Flush()
	out.Close()
}
