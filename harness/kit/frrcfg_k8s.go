//go:build verif

package verifkit

// C15: projection of an FRRConfiguration into a record TLC can read (numbers as decimal strings,
// durations as seconds, prefixes in lexical form, "large:" marker split off) and its digest.  Used
// by harness/frrk8s (value handed to the config-changed callback) and by
// harness/k8scontrollers/frrcfg_* (object the real FRRK8sReconciler wrote).  No meaning assigned.

import (
	"crypto/sha256"
	"encoding/hex"
	"encoding/json"
	"strconv"
	"strings"
	"time"

	frrv1beta1 "github.com/metallb/frr-k8s/api/v1beta1"
	metav1 "k8s.io/apimachinery/pkg/apis/meta/v1"
)

type FrrKV struct {
	K string `json:"k"`
	V string `json:"v"`
}

type FrrCRLocalPref struct {
	Lp       string      `json:"lp"`
	Prefixes []FrrPrefix `json:"prefixes"`
}

type FrrCRCommunity struct {
	Raw      string      `json:"raw"`
	Large    bool        `json:"large"`
	C        string      `json:"c"`
	Prefixes []FrrPrefix `json:"prefixes"`
}

type FrrCRNeighbor struct {
	Address       string           `json:"address"`
	Iface         string           `json:"iface"`
	Asn           string           `json:"asn"`
	Dyn           string           `json:"dyn"`
	Srcaddr       string           `json:"srcaddr"`
	Port          string           `json:"port"` // "" = nil
	Password      string           `json:"password"`
	Secret        FrrSecretRef     `json:"secret"`
	Hold          string           `json:"hold"` // whole seconds, "" = nil
	Keepalive     string           `json:"keepalive"`
	Connect       string           `json:"connect"`
	Multihop      bool             `json:"multihop"`
	Bfd           string           `json:"bfd"`
	Gr            bool             `json:"gr"`
	Disablemp     bool             `json:"disablemp"`
	AllowedMode   string           `json:"allowedMode"`
	Allowed       []FrrPrefix      `json:"allowed"`
	WithLocalPref []FrrCRLocalPref `json:"withLocalPref"`
	WithCommunity []FrrCRCommunity `json:"withCommunity"`
	ReceiveMode   string           `json:"receiveMode"`
	NReceive      int              `json:"nreceive"`
	BadPrefixes   []string         `json:"badPrefixes"`
}

type FrrCRRouter struct {
	Asn       string          `json:"asn"`
	ID        string          `json:"rid"`
	Vrf       string          `json:"vrf"`
	Prefixes  []FrrPrefix     `json:"prefixes"`
	NImports  int             `json:"nimports"`
	Neighbors []FrrCRNeighbor `json:"neighbors"`
}

type FrrCR struct {
	Present     bool          `json:"present"`
	Name        string        `json:"name"`
	Namespace   string        `json:"namespace"`
	MatchLabels []FrrKV       `json:"matchLabels"`
	NMatchExpr  int           `json:"nmatchexpr"`
	Routers     []FrrCRRouter `json:"routers"`
	BfdProfiles []string      `json:"bfdProfiles"`
	RawConfig   string        `json:"rawConfig"`
}

// FrrK8sObs: one observation of the FRR-K8s path.  Path "callback": the value handed to the
// config-changed callback (Sha0 = its digest when it was handed over, Sha = digest of the very same
// value when looked at again after the operation returned); path "reconciler": the object the real
// FRRK8sReconciler wrote (Sha0 = after the first Reconcile, Sha = after the second).
type FrrK8sObs struct {
	ID        string       `json:"id"`
	Ord       int          `json:"ord"`
	Step      int          `json:"step"`
	Seq       int          `json:"seq"`
	Same      int          `json:"same"` // > 0: resource and expected sessions are identical to those of observation Seq = Same of this scenario (sessions, cr omitted)
	Mode      string       `json:"mode"`
	Path      string       `json:"path"`
	Node      string       `json:"node"`
	Ns        string       `json:"ns"`
	Sessions  []FrrSession `json:"sessions,omitempty"`
	Created   []bool       `json:"created"`
	Errs      []string     `json:"errs"`
	Refusals  []string     `json:"refusals"`
	RefusedOK bool         `json:"refusedok"`
	Sha       string       `json:"sha"`
	Sha0      string       `json:"sha0"`
	Len       int          `json:"len"`
	Calls     int          `json:"calls"`
	CR        *FrrCR       `json:"cr,omitempty"`
	JSON      string       `json:"json,omitempty"`
}

// FrrSameKey: two observations of one scenario may share sessions and artefact in the output.
func FrrSameKey(artefact string, sessions []FrrSession) string {
	b, err := json.Marshal(sessions)
	if err != nil {
		panic(err)
	}
	return artefact + "\x00" + string(b)
}

func frrSeconds(d *metav1.Duration) string {
	if d == nil {
		return ""
	}
	if d.Duration%time.Second == 0 {
		return strconv.FormatInt(int64(d.Duration/time.Second), 10)
	}
	return d.Duration.String()
}

func frrLexList(in []string, bad *[]string, codes bool) []FrrPrefix {
	out := []FrrPrefix{}
	for _, s := range in {
		p, ok := FrrLexPrefix(s)
		if !codes {
			p.Codes = nil
		}
		if !ok {
			*bad = append(*bad, s)
			continue
		}
		out = append(out, p)
	}
	return out
}

func FrrProjectCR(c *frrv1beta1.FRRConfiguration) FrrCR {
	cr := FrrCR{Present: true, Name: c.Name, Namespace: c.Namespace, MatchLabels: []FrrKV{}, Routers: []FrrCRRouter{},
		BfdProfiles: []string{}, RawConfig: c.Spec.Raw.Config, NMatchExpr: len(c.Spec.NodeSelector.MatchExpressions)}
	for _, k := range SortedKeys(c.Spec.NodeSelector.MatchLabels) {
		cr.MatchLabels = append(cr.MatchLabels, FrrKV{K: k, V: c.Spec.NodeSelector.MatchLabels[k]})
	}
	for _, b := range c.Spec.BGP.BFDProfiles {
		cr.BfdProfiles = append(cr.BfdProfiles, b.Name)
	}
	for _, r := range c.Spec.BGP.Routers {
		var bad []string
		pr := FrrCRRouter{Asn: strconv.FormatUint(uint64(r.ASN), 10), ID: r.ID, Vrf: r.VRF, NImports: len(r.Imports),
			Neighbors: []FrrCRNeighbor{}}
		pr.Prefixes = frrLexList(r.Prefixes, &bad, false)
		for _, n := range r.Neighbors {
			pn := FrrCRNeighbor{Address: n.Address, Iface: n.Interface, Asn: strconv.FormatUint(uint64(n.ASN), 10),
				Dyn: string(n.DynamicASN), Srcaddr: n.SourceAddress, Password: n.Password,
				Secret: FrrSecretRef{Name: n.PasswordSecret.Name, Ns: n.PasswordSecret.Namespace},
				Hold:   frrSeconds(n.HoldTime), Keepalive: frrSeconds(n.KeepaliveTime), Connect: frrSeconds(n.ConnectTime),
				Multihop: n.EBGPMultiHop, Bfd: n.BFDProfile, Gr: n.EnableGracefulRestart, Disablemp: n.DisableMP,
				AllowedMode: string(n.ToAdvertise.Allowed.Mode), WithLocalPref: []FrrCRLocalPref{}, WithCommunity: []FrrCRCommunity{},
				ReceiveMode: string(n.ToReceive.Allowed.Mode), NReceive: len(n.ToReceive.Allowed.Prefixes), BadPrefixes: []string{}}
			if n.Port != nil {
				pn.Port = strconv.FormatUint(uint64(*n.Port), 10)
			}
			pn.Allowed = frrLexList(n.ToAdvertise.Allowed.Prefixes, &pn.BadPrefixes, true)
			for _, lp := range n.ToAdvertise.PrefixesWithLocalPref {
				pn.WithLocalPref = append(pn.WithLocalPref, FrrCRLocalPref{Lp: strconv.FormatUint(uint64(lp.LocalPref), 10),
					Prefixes: frrLexList(lp.Prefixes, &pn.BadPrefixes, false)})
			}
			for _, cp := range n.ToAdvertise.PrefixesWithCommunity {
				e := FrrCRCommunity{Raw: cp.Community, C: cp.Community, Prefixes: frrLexList(cp.Prefixes, &pn.BadPrefixes, false)}
				if strings.HasPrefix(cp.Community, "large:") {
					e.Large, e.C = true, strings.TrimPrefix(cp.Community, "large:")
				}
				pn.WithCommunity = append(pn.WithCommunity, e)
			}
			pn.BadPrefixes = append(pn.BadPrefixes, bad...)
			pr.Neighbors = append(pr.Neighbors, pn)
		}
		cr.Routers = append(cr.Routers, pr)
	}
	return cr
}

// FrrCRDigest: SHA-256 over name, namespace and spec as JSON (what frr-k8s consumes; the metadata
// an API server adds is left out so that a handed-over value and a written object are comparable).
func FrrCRDigest(c *frrv1beta1.FRRConfiguration) (string, int, string) {
	raw, err := json.Marshal(struct {
		Name      string                          `json:"name"`
		Namespace string                          `json:"namespace"`
		Spec      frrv1beta1.FRRConfigurationSpec `json:"spec"`
	}{c.Name, c.Namespace, c.Spec})
	if err != nil {
		panic(err)
	}
	sum := sha256.Sum256(raw)
	return hex.EncodeToString(sum[:]), len(raw), string(raw)
}

// FrrEmptyCR: no resource exists.
func FrrEmptyCR() *FrrCR {
	return &FrrCR{MatchLabels: []FrrKV{}, Routers: []FrrCRRouter{}, BfdProfiles: []string{}}
}
