//go:build verif

package main

// C15 harness, speaker side: the real passwordForSession is called on every peer-password case TLC
// printed from spec/FRRMC.tla (PwCases); result, or the panic, is logged.  No oracle here.

import (
	"bufio"
	"encoding/json"
	"fmt"
	"os"
	"testing"

	"go.universe.tf/metallb/internal/config"
	"go.universe.tf/metallb/internal/verifkit"
	corev1 "k8s.io/api/core/v1"
)

type vFrrPwCase struct {
	ID       string                `json:"id"`
	Pw       string                `json:"pw"`
	Secretpw string                `json:"secretpw"`
	Ref      verifkit.FrrSecretRef `json:"ref"`
	Impl     string                `json:"impl"`
	Handling string                `json:"handling"`
}

type vFrrPwObs struct {
	ID       string                `json:"id"`
	Ord      int                   `json:"ord"`
	Mode     string                `json:"mode"`
	Sha      string                `json:"sha"`
	Len      int                   `json:"len"`
	Case     vFrrPwCase            `json:"case"`
	Password string                `json:"password"`
	Secret   verifkit.FrrSecretRef `json:"secret"`
	Panic    string                `json:"panic"`
}

func vFrrPwCall(c vFrrPwCase, o *vFrrPwObs) {
	defer func() {
		if r := recover(); r != nil {
			o.Panic = fmt.Sprint(r)
		}
	}()
	cfg := &config.Peer{Name: "verif-peer", Password: c.Pw, SecretPassword: c.Secretpw,
		PasswordRef: corev1.SecretReference{Name: c.Ref.Name, Namespace: c.Ref.Ns}}
	handling := SecretPassThrough
	if c.Handling == "convert" {
		handling = SecretConvert
	}
	pw, ref := passwordForSession(cfg, bgpImplementation(c.Impl), handling)
	o.Password, o.Secret = pw, verifkit.FrrSecretRef{Name: ref.Name, Ns: ref.Namespace}
}

func TestVerifFrrcfgPassword(t *testing.T) {
	f, err := os.Open(os.Getenv("VERIF_SCENARIOS"))
	if err != nil {
		t.Fatal(err)
	}
	defer f.Close()
	out := verifkit.NewObsWriter()
	defer out.Close()
	sc := bufio.NewScanner(f)
	sc.Buffer(make([]byte, 1<<20), 1<<24)
	for sc.Scan() {
		var in struct {
			Pwcases []vFrrPwCase `json:"pwcases"`
		}
		if err := json.Unmarshal(sc.Bytes(), &in); err != nil {
			t.Fatal(err)
		}
		for i, c := range in.Pwcases {
			if c.ID == "" {
				c.ID = fmt.Sprintf("pw%03d", i)
			}
			o := vFrrPwObs{ID: c.ID, Ord: 1, Mode: "pw", Case: c}
			vFrrPwCall(c, &o)
			out.Write(o)
		}
	}
	t.Logf("verif: %d password cases", out.N)
}
