------------------------------- MODULE Speaker -------------------------------
(***************************************************************************)
(* The speaker process of one node (speaker/main.go, bgp_controller.go,     *)
(* layer2_controller.go, internal/layer2/announcer.go) as a sequential      *)
(* object: its memory, the three handlers (SetBalancer, SetConfig,          *)
(* SetNode) transcribed branch by branch, and the two reference             *)
(* definitions the properties C05 and C09 are about:                        *)
(*   Routes  - the route set C05 describes, per peer                        *)
(*   Fresh   - what a newly started speaker announces on a cluster state    *)
(* Used by SpeakerMC (roles A and B) and SpeakerTrace (role C).             *)
(*                                                                         *)
(* Addresses.  A W-bit field (W = 4) placed across a byte boundary:         *)
(*   IPv4 a (0..15)      |-> 10.20.(a \div 4).((a % 4) * 64 + 1)            *)
(*                           (field = address bits 22..25, low bits = 1)    *)
(*   IPv6 100 + a        |-> fc00:0:0:(a \div 4):((a % 4) * 0x4000)::1      *)
(*                           (field = address bits 62..65, low bits = 1)    *)
(* A prefix is described by [fam, len, w, lo, hi]: family, prefix length,   *)
(* value of the field, value of the bits below the field, and whether the   *)
(* bits above the field are those of the base ("base") or zero ("zero").    *)
(***************************************************************************)
EXTENDS Integers, Sequences, FiniteSets, TLC

NULL == [null |-> TRUE]
Range(f) == {f[x] : x \in DOMAIN f}

W == 4
Me == "n1"
SpkNodes == {"n1", "n2"}
Other(n) == IF n = "n1" THEN "n2" ELSE "n1"
SpkSvcs == {"s1", "s2"}
LocalIfs == {"ifA"}            \* interfaces the node has; "ifX" does not exist

AllV4 == 0..15
AllV6 == 100..115
IsV4(a) == a < 100
FamOf(a) == IF a < 100 THEN "v4" ELSE "v6"
Bits(a) == a % 100
Off(a) == IF IsV4(a) THEN 22 ELSE 62
Full(a) == IF IsV4(a) THEN 32 ELSE 128

RECURSIVE Pow2(_)
Pow2(n) == IF n <= 0 THEN 1 ELSE 2 * Pow2(n - 1)

(* the address truncated to prefix length L (L = 0, Off..Off+W, or Full)    *)
Trunc(a, L) ==
  IF L = Full(a) THEN [fam |-> FamOf(a), len |-> L, w |-> Bits(a), lo |-> 1, hi |-> "base"]
  ELSE IF L = 0 THEN [fam |-> FamOf(a), len |-> 0, w |-> 0, lo |-> 0, hi |-> "zero"]
  ELSE LET m == Pow2(W - (L - Off(a)))
       IN [fam |-> FamOf(a), len |-> L, w |-> (Bits(a) \div m) * m, lo |-> 0, hi |-> "base"]

----------------------------------------------------------------------------
(* The configuration catalogue.  Names are unique over the whole catalogue  *)
(* so that an observed configuration can be read back by name.              *)

SpkPools == [
  pw |-> [name |-> "pw", cidrs |-> <<"10.20.0.0/22", "fc00::/62">>, addrs |-> AllV4 \cup AllV6],
  pl |-> [name |-> "pl", cidrs |-> <<"10.20.0.0/23", "fc00::/63">>, addrs |-> (0..7) \cup (100..107)],
  ph |-> [name |-> "ph", cidrs |-> <<"10.20.2.0/23", "fc00:0:0:2::/63">>, addrs |-> (8..15) \cup (108..115)],
  pz |-> [name |-> "pz", cidrs |-> <<"0.0.0.0/0", "::/0">>, addrs |-> AllV4 \cup AllV6]
]

(* layer-2 advertisement: pools ({} = all pools), node selector ("" = all   *)
(* nodes, else the value of the node label), interfaces ({} = all)          *)
L2A(name, pools, nsel, ifs) == [name |-> name, pools |-> pools, nsel |-> nsel, ifs |-> ifs]
SpkL2Advs == [
  X1 |-> L2A("X1", {}, "", {}),
  X2 |-> L2A("X2", {}, "a", {"ifA"}),
  X3 |-> L2A("X3", {}, "", {"ifX"}),
  X4 |-> L2A("X4", {"pl"}, "", {"ifA"}),
  X5 |-> L2A("X5", {}, "b", {}),
  X6 |-> L2A("X6", {}, "a", {"ifA", "ifX"}),
  \* all interfaces, but only on the nodes labelled b
  X9 |-> L2A("X9", {}, "b", {})
]

(* BGP advertisement: pools, node selector, peers ({} = all peers),         *)
(* aggregation lengths, local preference, communities                       *)
BA(name, pools, nsel, peers, a4, a6, lp, comms) ==
  [name |-> name, pools |-> pools, nsel |-> nsel, peers |-> peers, agg4 |-> a4, agg6 |-> a6, lp |-> lp, comms |-> comms]
SpkBgpAdvs == [
  A1 |-> BA("A1", {"pl"}, "", {}, 24, 64, 100, {"c1"}),
  A2 |-> BA("A2", {"pl"}, "a", {"p2"}, 32, 128, 200, {"c2", "L1"}),
  A3 |-> BA("A3", {"ph"}, "b", {"p1"}, 23, 63, 0, {}),
  A4 |-> BA("A4", {}, "", {"p1"}, 25, 65, 100, {"c1"}),
  A5 |-> BA("A5", {"ph"}, "a", {}, 23, 63, 50, {"L1"}),
  A6 |-> BA("A6", {}, "", {}, 0, 0, 0, {}),
  A7 |-> BA("A7", {}, "", {}, 32, 128, 0, {}),
  A8 |-> BA("A8", {}, "a", {}, 24, 64, 10, {"c2"}),
  A9 |-> BA("A9", {"pl"}, "", {"p1", "p2"}, 26, 66, 7, {"c1", "c2"}),
  \* several advertisements of the SAME aggregation length on one pool
  A10 |-> BA("A10", {"pl"}, "", {"p1"}, 32, 128, 100, {"c1"}),
  A11 |-> BA("A11", {"pl"}, "", {"p2"}, 32, 128, 200, {"c2"}),
  A12 |-> BA("A12", {"pl"}, "", {"p1"}, 32, 128, 100, {"L1"}),
  A13 |-> BA("A13", {"ph"}, "", {"p1"}, 24, 64, 10, {}),
  A14 |-> BA("A14", {"ph"}, "a", {"p2"}, 24, 64, 20, {"c1", "L1"}),
  \* IPv4 and IPv6 aggregation lengths that cut the field at different places
  A15 |-> BA("A15", {"pl"}, "", {}, 24, 66, 30, {"c1"}),
  A16 |-> BA("A16", {"pl"}, "", {"p2"}, 26, 63, 40, {}),
  A17 |-> BA("A17", {}, "b", {}, 24, 64, 10, {"c2"})
]

PR(name, nsel) == [name |-> name, nsel |-> nsel]
PeerNames == {"p1", "p2"}

Lay(pools, l2, bgp, peers) == [pools |-> pools, l2 |-> l2, bgp |-> bgp, peers |-> peers]
SpkLayouts == [
  \* BGP only
  B1 |-> Lay({"pl", "ph"}, {}, {"A1", "A2", "A3"}, {PR("p1", ""), PR("p2", "a")}),
  B2 |-> Lay({"pl", "ph"}, {}, {"A4", "A5"}, {PR("p1", "b"), PR("p2", "")}),
  B3 |-> Lay({"pl", "ph"}, {}, {"A1", "A9"}, {PR("p1", ""), PR("p2", "")}),
  B4 |-> Lay({"pl", "ph"}, {}, {"A1"}, {PR("p1", ""), PR("p2", "a")}),
  B5 |-> Lay({"pl", "ph"}, {}, {"A10", "A11", "A12", "A13", "A14"}, {PR("p1", ""), PR("p2", "")}),
  B6 |-> Lay({"pl", "ph"}, {}, {"A10", "A11"}, {PR("p1", ""), PR("p2", "a")}),
  B7 |-> Lay({"pl", "ph"}, {}, {"A10", "A11"}, {PR("p1", "a"), PR("p2", "")}),
  B8 |-> Lay({"pl", "ph"}, {}, {"A15", "A16"}, {PR("p1", ""), PR("p2", "")}),
  \* as B4 with peer p2 removed (the configurations differ in the peers only)
  B10 |-> Lay({"pl", "ph"}, {}, {"A1"}, {PR("p1", "")}),
  BZ |-> Lay({"pz"}, {}, {"A6"}, {PR("p1", "")}),
  \* layer 2 and BGP
  C1 |-> Lay({"pw"}, {"X1"}, {"A7"}, {PR("p1", "")}),
  C2 |-> Lay({"pw"}, {"X2"}, {"A8"}, {PR("p1", "")}),
  C3 |-> Lay({"pl"}, {"X3"}, {}, {}),
  C4 |-> Lay({"pl", "ph"}, {"X4", "X5"}, {"A4"}, {PR("p1", "a")}),
  C5 |-> Lay({"pw"}, {"X6"}, {"A7"}, {PR("p2", "")}),
  C6 |-> Lay({"pw"}, {"X3"}, {"A7"}, {PR("p1", "")}),
  C7 |-> Lay({"pw"}, {"X1"}, {"A7"}, {PR("p1", "a"), PR("p2", "")}),
  \* one pool carries both protocols, with independent node selection
  C8 |-> Lay({"pw"}, {"X1"}, {"A8"}, {PR("p1", "")}),
  C9 |-> Lay({"pw"}, {"X1"}, {"A17"}, {PR("p1", "")}),
  C10 |-> Lay({"pw"}, {"X2"}, {"A7"}, {PR("p1", "")}),
  \* every peer has a node selector: the node may have no session at all
  C12 |-> Lay({"pw"}, {"X1"}, {"A7"}, {PR("p1", "a")}),
  \* all interfaces for the OTHER nodes, named interfaces for the nodes labelled a
  C11 |-> Lay({"pw"}, {"X9", "X2"}, {}, {}),
  \* layer 2 only
  D1 |-> Lay({"pw"}, {"X1"}, {}, {}),
  D2 |-> Lay({"pw"}, {"X2"}, {}, {}),
  D3 |-> Lay({"pw"}, {"X3"}, {}, {}),
  D4 |-> Lay({"pl"}, {"X1"}, {}, {})
]

Catalog == [pools |-> SpkPools, l2 |-> SpkL2Advs, bgp |-> SpkBgpAdvs, layouts |-> SpkLayouts]

----------------------------------------------------------------------------
(* Node and service values                                                  *)
Nd(label, unavail, excl) == [label |-> label, unavail |-> unavail, excl |-> excl]
Ep(node, ready) == [node |-> node, ready |-> ready]
Sv(type, ips, etp, eps) == [type |-> type, ips |-> ips, etp |-> etp, eps |-> eps]

Unavail(x) == IF x = NULL THEN FALSE ELSE x.unavail
Excl(x)    == IF x = NULL THEN FALSE ELSE x.excl

(* nodes selected by a node selector among the nodes of the cluster         *)
Sel(nsel, nodes) == {n \in SpkNodes : nsel = "" \/ nodes[n].label = nsel}

(* The configuration as the ConfigReconciler renders it: the layout plus    *)
(* the node set of every advertisement, computed from the nodes of the      *)
(* cluster AT THAT MOMENT.                                                  *)
CfgOf(L, nodes) ==
  [layout |-> L,
   l2n  |-> [x \in SpkLayouts[L].l2  |-> Sel(SpkL2Advs[x].nsel, nodes)],
   bgpn |-> [x \in SpkLayouts[L].bgp |-> Sel(SpkBgpAdvs[x].nsel, nodes)]]

(* A loaded configuration in the form used by the handlers:                 *)
(*  [pools: set of pool names, l2: pool |-> (adv |-> node set),             *)
(*   bgp: pool |-> (adv |-> node set), peers: set of peer records]          *)
AdvOnPool(adv, p) == adv.pools = {} \/ p \in adv.pools
Loaded(c) ==
  LET L == SpkLayouts[c.layout] IN
  [pools |-> L.pools,
   l2  |-> [p \in L.pools |-> [x \in {y \in L.l2 : AdvOnPool(SpkL2Advs[y], p)} |-> c.l2n[x]]],
   bgp |-> [p \in L.pools |-> [x \in {y \in L.bgp : AdvOnPool(SpkBgpAdvs[y], p)} |-> c.bgpn[x]]],
   peers |-> L.peers]

(* poolFor: the pool that contains every address (pools are disjoint)       *)
PoolOf(ld, ips) ==
  LET c == {p \in ld.pools : \A a \in Range(ips) : a \in SpkPools[p].addrs}
  IN IF ips = <<>> \/ c = {} THEN "" ELSE CHOOSE p \in c : TRUE

----------------------------------------------------------------------------
(* Route generation (bgpController.SetBalancer)                             *)
AdRec(a, adv) == [pfx |-> Trunc(a, IF IsV4(a) THEN adv.agg4 ELSE adv.agg6),
                  lp |-> adv.lp, comms |-> adv.comms, peers |-> adv.peers]
AdsOf(ld, pool, ips) ==
  UNION {{AdRec(a, SpkBgpAdvs[x]) : x \in {y \in DOMAIN ld.bgp[pool] : Me \in ld.bgp[pool][y]}} : a \in Range(ips)}
ToPeer(p, ad) == ad.peers = {} \/ p \in ad.peers
RouteOf(ad) == [pfx |-> ad.pfx, lp |-> ad.lp, comms |-> ad.comms]

(* C05: the routes offered to peer p when the node announces the services   *)
(* of `ann` with the addresses `ips` under the loaded configuration ld      *)
Routes(ld, ann, ips, p) ==
  {RouteOf(ad) : ad \in {x \in UNION {AdsOf(ld, PoolOf(ld, ips[s]), ips[s]) : s \in {t \in ann : PoolOf(ld, ips[t]) # ""}} : ToPeer(p, x)}}
SvcPrefixes(ld, s, ips) ==
  IF PoolOf(ld, ips[s]) = "" THEN {} ELSE {ad.pfx : ad \in AdsOf(ld, PoolOf(ld, ips[s]), ips[s])}

PeerShouldRun(p, me) == p.nsel = "" \/ (me # NULL /\ me.label = p.nsel)

----------------------------------------------------------------------------
(* Eligibility (ShouldAnnounce of both protocols).  `seen` = the nodes the  *)
(* speaker knows (c.nodes), members/ml = the memberlist view, ign =         *)
(* --ignore-exclude-lb.                                                     *)
AnyReady(v) == \E e \in v.eps : e.ready
ReadyOn(v, n) == \E e \in v.eps : e.ready /\ e.node = n

BGPShould(ld, seen, ign, pool, v) ==
  /\ \E x \in DOMAIN ld.bgp[pool] : Me \in ld.bgp[pool][x]
  /\ ~Unavail(seen[Me]) /\ (ign \/ ~Excl(seen[Me]))
  /\ IF v.etp = "Local" THEN ReadyOn(v, Me) ELSE AnyReady(v)

L2OnNode(ld, pool, n) == \E x \in DOMAIN ld.l2[pool] : n \in ld.l2[pool][x]
Winner(avail, a, rank) ==
  IF Me \notin avail THEN Other(Me) ELSE IF avail = {Me} THEN Me ELSE rank[a]
L2Should(ld, seen, env, pool, v) ==
  /\ AnyReady(v)
  /\ L2OnNode(ld, pool, Me)
  /\ LET elig == IF env.ml THEN env.members ELSE {n \in SpkNodes : seen[n] # NULL}
         spk == {n \in elig : ~Unavail(seen[n]) /\ (env.ign \/ ~Excl(seen[n])) /\ L2OnNode(ld, pool, n)}
         avail == IF v.etp = "Local" THEN {n \in spk : ReadyOn(v, n)} ELSE spk
     IN avail # {} /\ Winner(avail, v.ips[1], env.rank) = Me

(* ipAdvertisementFor + MatchInterfaces                                     *)
L2AdvFor(ld, pool, a) ==
  LET mine == {x \in DOMAIN ld.l2[pool] : Me \in ld.l2[pool][x]}
  IN IF \E x \in mine : SpkL2Advs[x].ifs = {} THEN [ip |-> a, all |-> TRUE, ifs |-> {}]
     ELSE [ip |-> a, all |-> FALSE, ifs |-> UNION {SpkL2Advs[x].ifs : x \in mine}]
L2Match(adv) == adv.all \/ adv.ifs \cap LocalIfs # {}

----------------------------------------------------------------------------
(* The speaker's memory                                                     *)
(*  cfg   NULL | CfgOf record (c.config)                                    *)
(*  rcfg  NULL | CfgOf record (ConfigReconciler.currentConfig)              *)
(*  seen  node |-> NULL | node value (c.nodes)                              *)
(*  annB, annL  services announced per protocol (c.announced)               *)
(*  ips   service |-> addresses, <<>> = none (c.svcIPs)                     *)
(*  l2    service |-> set of [ip, all, ifs] (Announce.ips)                  *)
(*  ads   service |-> set of AdRec (bgpController.svcAds)                   *)
(*  peers set of peer records (bgpController.peers)                         *)
(*  sess  peer name |-> Down | Up(routes last Set on the live session)      *)
(*  act   service |-> set of peer names (bgpController.activeAds)           *)
(*  sf    peers whose latest session start failed                           *)
(* and the armed faults of the session manager: fs = peers whose next       *)
(* NewSession fails, fset = the next Set fails; err = the handler running   *)
(* hit an error.                                                            *)
Down == [up |-> FALSE, rts |-> {}]
Up(r) == [up |-> TRUE, rts |-> r]
EmptyMem ==
  [cfg |-> NULL, rcfg |-> NULL, seen |-> [n \in SpkNodes |-> NULL], annB |-> {}, annL |-> {},
   ips |-> [s \in SpkSvcs |-> <<>>], l2 |-> [s \in SpkSvcs |-> {}], ads |-> [s \in SpkSvcs |-> {}],
   peers |-> {}, sess |-> [p \in PeerNames |-> Down], act |-> [s \in SpkSvcs |-> {}],
   sf |-> {}, fs |-> {}, fset |-> FALSE, err |-> FALSE]

AllAds(ads) == UNION {ads[s] : s \in SpkSvcs}
PeerSet(p, ads) == {RouteOf(ad) : ad \in {x \in AllAds(ads) : ToPeer(p, x)}}
Publish(sess, ads) == [p \in PeerNames |-> IF sess[p].up THEN Up(PeerSet(p, ads)) ELSE Down]
ActiveOf(sess, ads) ==
  [s \in SpkSvcs |-> {p \in PeerNames : sess[p].up /\ \E r \in sess[p].rts : \E ad \in ads[s] : ad.pfx = r.pfx}]
(* updateAds = publishAds + notifyAdsChanged.  An armed Set failure hits    *)
(* the first Set of the publication: nothing is offered, the report is not  *)
(* refreshed, the error goes up.                                            *)
UpdateAds(m) ==
  IF m.fset /\ \E p \in PeerNames : m.sess[p].up
  THEN [m EXCEPT !.fset = FALSE, !.err = TRUE]
  ELSE LET s2 == Publish(m.sess, m.ads) IN [m EXCEPT !.sess = s2, !.act = ActiveOf(s2, m.ads)]

(* syncPeers: close what must not run, open what must run (a start may      *)
(* fail), republish when a session was opened or closed                     *)
SyncPeers(m, me) ==
  LET run == {p.name : p \in {q \in m.peers : PeerShouldRun(q, me)}}
      closed == {p \in PeerNames : m.sess[p].up /\ p \notin run}
      want == {p \in run : ~m.sess[p].up}
      failed == want \cap m.fs
      opened == want \ failed
      s1 == [p \in PeerNames |-> IF p \notin run \/ p \in failed THEN Down ELSE IF m.sess[p].up THEN m.sess[p] ELSE Up({})]
      m1 == [m EXCEPT !.sess = s1, !.fs = @ \ failed, !.sf = (@ \ opened) \cup failed]
      m2 == IF opened # {} \/ closed # {} THEN UpdateAds(m1) ELSE m1
  IN [m2 EXCEPT !.err = @ \/ failed # {}]

(* deleteBalancerProtocol; an error of the BGP handler leaves c.announced   *)
DelB(m, s) ==
  IF s \notin m.annB THEN m
  ELSE LET m1 == UpdateAds([m EXCEPT !.ads[s] = {}])
           m2 == [m1 EXCEPT !.annB = @ \ {s}]
       IN IF m1.err THEN m1 ELSE IF s \in m2.annL THEN m2 ELSE [m2 EXCEPT !.ips[s] = <<>>]
DelL(m, s) ==
  IF s \notin m.annL THEN m
  ELSE LET m2 == [m EXCEPT !.l2[s] = {}, !.annL = @ \ {s}]
       IN IF s \in m2.annB THEN m2 ELSE [m2 EXCEPT !.ips[s] = <<>>]
DelAll(m, s) == LET a == DelB(m, s) IN IF a.err THEN a ELSE DelL(a, s)

(* layer2Controller.SetBalancer: an address whose advertisement matches no  *)
(* local interface withdraws what the service had in the announcer          *)
RECURSIVE L2Set(_, _, _, _, _)
L2Set(cur, ld, pool, ips, i) ==
  IF i > Len(ips) THEN cur
  ELSE LET adv == L2AdvFor(ld, pool, ips[i])
       IN L2Set(IF L2Match(adv) THEN {e \in cur : e.ip # ips[i]} \cup {adv} ELSE {}, ld, pool, ips, i + 1)

SetB(m, ld, pool, s, v) ==
  LET m1 == UpdateAds([m EXCEPT !.ads[s] = AdsOf(ld, pool, v.ips)])
  IN IF m1.err \/ s \in m1.annB THEN m1 ELSE [m1 EXCEPT !.annB = @ \cup {s}, !.ips[s] = v.ips]
SetL(m, ld, pool, s, v) ==
  LET m1 == [m EXCEPT !.l2[s] = L2Set(m.l2[s], ld, pool, v.ips, 1)]
  IN IF s \in m1.annL THEN m1 ELSE [m1 EXCEPT !.annL = @ \cup {s}, !.ips[s] = v.ips]

SameIPs(x, y) == Len(x) = Len(y) /\ Range(x) \subseteq Range(y)

(* controller.SetBalancer; v = NULL for a deleted service.  env = the       *)
(* memberlist view, the hash order and the flag [members, ml, rank, ign].   *)
(* The result has err = TRUE when the handler returned SyncStateError.      *)
SetBalancerBody(m, env, s, v) ==
  IF v = NULL THEN DelAll(m, s)
  ELSE IF v.type # "LB" THEN DelAll(m, s)
  ELSE IF m.cfg = NULL THEN m
  ELSE IF v.ips = <<>> THEN DelAll(m, s)
  ELSE LET ld == Loaded(m.cfg)
           pool == PoolOf(ld, v.ips)
       IN IF pool = "" THEN DelAll(m, s)
          ELSE LET m0 == IF m.ips[s] # <<>> /\ ~SameIPs(v.ips, m.ips[s]) THEN DelAll(m, s) ELSE m
                   m1 == IF BGPShould(ld, m0.seen, env.ign, pool, v) THEN SetB(m0, ld, pool, s, v) ELSE DelB(m0, s)
               IN IF m0.err THEN m0
                  ELSE IF m1.err THEN m1
                  ELSE IF L2Should(ld, m1.seen, env, pool, v) THEN SetL(m1, ld, pool, s, v) ELSE DelL(m1, s)
SetBalancer(m, env, s, v) == SetBalancerBody([m EXCEPT !.err = FALSE], env, s, v)

(* controller.SetConfig: refused when an announced address has no pool;     *)
(* when the BGP handler fails the new peers are in place but c.config is    *)
(* not (SyncStateErrorNoRetry: err = TRUE in the result)                    *)
CfgRefused(m, c) == \E s \in SpkSvcs : m.ips[s] # <<>> /\ PoolOf(Loaded(c), m.ips[s]) = ""
SetConfig(m, c) ==
  LET new == SpkLayouts[c.layout].peers
      kept == {p.name : p \in m.peers \cap new}
      s1 == [p \in PeerNames |-> IF p \in kept THEN m.sess[p] ELSE Down]
      m1 == SyncPeers([m EXCEPT !.sess = s1, !.peers = new, !.sf = @ \cap kept, !.err = FALSE], m.seen[Me])
  IN IF m1.err THEN m1 ELSE [m1 EXCEPT !.cfg = c]

(* controller.SetNode; returns [m, reprocess]; m.err = SyncStateError       *)
SetNode(m, n, v) ==
  LET old == m.seen[n]
      changed == old # NULL /\ (old.unavail # v.unavail \/ old.excl # v.excl)
      m1 == [m EXCEPT !.seen[n] = v, !.err = FALSE]
      relabel == n = Me /\ (old = NULL \/ old.label # v.label \/ old.excl # v.excl)
      m2 == IF relabel THEN SyncPeers(m1, v) ELSE m1
  IN [m |-> m2, reprocess |-> changed /\ ~m2.err]

(* one full re-sync: every existing service through the handler; the result *)
(* has err = TRUE when some handler failed (the pass is retried)            *)
RECURSIVE PassOver(_, _, _, _, _)
PassOver(m, env, svcs, todo, anyerr) ==
  IF todo = {} THEN [m EXCEPT !.err = anyerr]
  ELSE LET s == CHOOSE x \in todo : \A y \in todo : Len(svcs[x].ips) >= Len(svcs[y].ips)
           m1 == SetBalancer(m, env, s, svcs[s])
       IN PassOver(m1, env, svcs, todo \ {s}, anyerr \/ m1.err)
Resync(m, env, svcs) == PassOver(m, env, svcs, {s \in SpkSvcs : svcs[s] # NULL}, FALSE)

----------------------------------------------------------------------------
(* What the speaker announces: layer-2 (service, address, scope) set and    *)
(* the routes on every live session                                         *)
Announced(m) == [l2 |-> UNION {{[s |-> s, ip |-> e.ip, all |-> e.all, ifs |-> e.ifs] : e \in m.l2[s]} : s \in SpkSvcs},
                 sess |-> m.sess]

(* C09: a freshly started speaker learns every node, loads the current      *)
(* configuration and then processes every service                           *)
RECURSIVE SeeAll(_, _, _)
SeeAll(m, nodes, todo) ==
  IF todo = {} THEN m
  ELSE LET n == CHOOSE x \in todo : TRUE IN SeeAll(SetNode(m, n, nodes[n]).m, nodes, todo \ {n})
EnvOf(cl, rank) == [members |-> cl.members, ml |-> cl.ml, rank |-> rank, ign |-> cl.ign]
FreshMem(cl, rank) ==
  LET m1 == SeeAll(EmptyMem, cl.nodes, SpkNodes)
      m2 == SetConfig(m1, CfgOf(cl.layout, cl.nodes))
  IN Resync(m2, EnvOf(cl, rank), cl.svcs)
Fresh(cl, rank) == Announced(FreshMem(cl, rank))
=============================================================================
