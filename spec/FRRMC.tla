------------------------------- MODULE FRRMC -------------------------------
(***************************************************************************)
(* C14 / C15, roles A and B.                                                *)
(*                                                                          *)
(* Role B: every initial state is one input: a set of sessions (1-3         *)
(* neighbors out of a catalogue of 11: IPv4 / IPv6 / unnumbered (two that   *)
(* differ only in the interface name), eBGP /                               *)
(* iBGP / dynamic ASN, two routers = default VRF and VRF red, the same peer *)
(* address in both VRFs, DisableMP, password / secret reference / both),    *)
(* each with 0-3 advertisements out of a catalogue of 10 (the same prefix   *)
(* with different communities, overlapping prefixes, local preference 0 /   *)
(* 100 / 200 / 2^32-1, standard and large communities, IPv4 and IPv6        *)
(* prefixes on one neighbor, none at all), and the creation orders          *)
(* (permutations; create+set interleaved or all creates first; the          *)
(* advertisements of a Set call forwards or backwards; one history with a   *)
(* preliminary Set and a session that is closed again).  All neighbors with *)
(* one session exhaustively, pairs and triples by RandomSubset (-seed).     *)
(* In addition HISTORIES on one session manager (fixed prefix + 3 operations *)
(* out of: accepted Set, Set that must be refused for two causes, Set on the *)
(* other session, SyncBFDProfiles / SyncExtraInfo, Close, third NewSession), *)
(* observed after every operation against the last ACCEPTED Sets.            *)
(* The invariant Emit prints each input as JSON.                            *)
(*                                                                          *)
(* Role A: Gen / GenCR build the abstract program / resource the way        *)
(* templates/*.tmpl and frrk8s.go are designed (per-neighbor route-map with *)
(* guarded set clauses and on-match next, per-neighbor allow list, deny any *)
(* for an empty family, in route-map deny); Design checks the property      *)
(* predicates of FRRProps on them for every enumerated input, Lemmas checks *)
(* that the semantics tells the designed program from broken variants.      *)
(***************************************************************************)
EXTENDS FRRProps, Randomization, TLC, Json

CONSTANTS Tier      \* "quick" | "thorough" | "tiny"

VARIABLE inp

----------------------------------------------------------------------------
(* catalogue *)
Px(s, fam, oct, len) == [s |-> s, fam |-> fam, oct |-> oct, len |-> len]
P1 == Px("10.20.30.0/24", 4, <<10, 20, 30, 0>>, 24)
P2 == Px("10.20.30.0/25", 4, <<10, 20, 30, 0>>, 25)
P3 == Px("10.20.30.1/32", 4, <<10, 20, 30, 1>>, 32)
P4 == Px("9.9.9.0/24", 4, <<9, 9, 9, 0>>, 24)
P5 == Px("fc00:1::/64", 6, V6(252, 0, 0, 1), 64)
P6 == Px("fc00:1::1/128", 6, <<252, 0, 0, 1, 0, 0, 0, 0, 0, 0, 0, 0, 0, 0, 0, 1>>, 128)
P7 == Px("fc00:2::/64", 6, V6(252, 0, 0, 2), 64)

C20 == "65000:20"
C100 == "65000:100"
LC == "65000:1:2"
LC2 == "64512:100:200"
LPMAX == "4294967295"

Adv(p, lp, comms, lcomms) == [p |-> p, lp |-> lp, comms |-> comms, lcomms |-> lcomms]
(* communities of one advertisement in the order of BGPCommunity.LessThan, as the speaker passes them *)
AdvCat ==
  << Adv(P1, "0", <<>>, <<>>),           Adv(P1, "0", <<C20>>, <<>>),      Adv(P1, "0", <<C100>>, <<LC>>),
     Adv(P2, "100", <<C20>>, <<>>),      Adv(P3, LPMAX, <<>>, <<LC>>),     Adv(P4, "100", <<>>, <<>>),
     Adv(P5, "0", <<>>, <<>>),           Adv(P5, "0", <<C20>>, <<>>),      Adv(P6, "100", <<C100>>, <<LC>>),
     Adv(P7, "200", <<C20, C100>>, <<>>),
     (* the same prefix again with ONLY a large community (P1: none / standard / both / large-only; P5: none / standard / large-only) *)
     Adv(P1, "0", <<>>, <<LC2>>),        Adv(P5, "0", <<>>, <<LC>>) >>
NAdv == Len(AdvCat)
AdvSets == {A \in SUBSET (1..NAdv) : Cardinality(A) <= 3}

NoRef == [name |-> "", ns |-> ""]
Nbr(k, vrf, myasn, rid, afam, addr, iface, asn, dyn, port, hold, ka, connect, pw, ref, src, mh, bfd, gr, dmp) ==
  [k |-> k, vrf |-> vrf, myasn |-> myasn, routerid |-> rid, afam |-> afam, addr |-> addr, iface |-> iface, asn |-> asn,
   dyn |-> dyn, port |-> port, hold |-> hold, keepalive |-> ka, connect |-> connect, pw |-> pw, pwref |-> ref, src |-> src,
   multihop |-> mh, bfd |-> bfd, gr |-> gr, disablemp |-> dmp]
Ref(n) == [name |-> n, ns |-> "metallb-system"]
RefName(n) == [name |-> n, ns |-> ""]                 \* the namespace of a reference is optional
RefNs == [name |-> "", ns |-> "metallb-system"]       \* a reference that only has a namespace
NbrCat ==
  << Nbr("n1", "", "64512", "10.1.1.254", 4, "10.2.2.254", "", "64600", "", "179", "90", "30", "", "pw-n1", NoRef,
         "10.1.1.254", TRUE, "", FALSE, FALSE),
     Nbr("n2", "", "64512", "10.1.1.254", 4, "10.2.2.255", "", "64512", "", "1179", "", "", "10", "", Ref("sec-n2"),
         "", FALSE, "bfdprof", TRUE, FALSE),
     Nbr("n3", "", "64512", "10.1.1.254", 6, "fc00:f853:ccd:e793::2", "", "4200000000", "", "179", "0", "0", "", "", NoRef,
         "fc00:f853:ccd:e793::1", FALSE, "", FALSE, FALSE),
     Nbr("n4", "", "64512", "10.1.1.254", 6, "fc00:f853:ccd:e793::3", "", "", "internal", "179", "", "", "", "pw-n4", NoRef,
         "", FALSE, "", FALSE, FALSE),
     Nbr("n5", "", "64512", "10.1.1.254", 0, "", "eth1", "", "external", "179", "", "", "", "", NoRef,
         "", FALSE, "bfdprof", FALSE, FALSE),
     Nbr("n6", "red", "64513", "", 4, "10.2.2.254", "", "64600", "", "179", "", "", "", "", RefName("sec-n6"),
         "", FALSE, "", FALSE, FALSE),
     Nbr("n7", "red", "64513", "", 6, "fc00:f853:ccd:e793::2", "", "64513", "", "179", "180", "60", "5", "pw-n7", NoRef,
         "", FALSE, "", TRUE, TRUE),
     Nbr("n8", "", "64512", "10.1.1.254", 4, "10.2.2.253", "", "64601", "", "179", "", "", "", "", NoRef,
         "", TRUE, "", FALSE, TRUE),
     Nbr("n9", "red", "64513", "", 0, "", "eth1", "64700", "", "179", "", "", "", "", RefNs,
         "", FALSE, "", FALSE, FALSE),
     (* differs from n5 ONLY in the interface name *)
     Nbr("n11", "", "64512", "10.1.1.254", 0, "", "eth2", "", "external", "179", "", "", "", "", NoRef,
         "", FALSE, "bfdprof", FALSE, FALSE),
     Nbr("n10", "", "64512", "10.1.1.254", 4, "10.2.2.252", "", "64602", "", "179", "", "", "", "pw-n10", Ref("sec-n10"),
         "", FALSE, "", FALSE, FALSE),
     (* a plain password together with a reference that has only a name / only a namespace *)
     Nbr("n12", "", "64512", "10.1.1.254", 4, "10.2.2.251", "", "64603", "", "179", "", "", "", "pw-n12", RefName("sec-n12"),
         "", FALSE, "", FALSE, FALSE),
     Nbr("n13", "", "64512", "10.1.1.254", 6, "fc00:f853:ccd:e793::4", "", "64604", "", "179", "", "", "", "pw-n13", RefNs,
         "", FALSE, "", FALSE, FALSE) >>
NNbr == Len(NbrCat)
NGhost == 10        \* the extra session of the history order is one of the first 10 (never one the FRR-K8s manager refuses)

(* a DisableMP session is only asked for prefixes of its own family (assumption of the check) *)
AllowedAdvs(n, A) == IF NbrCat[n].disablemp THEN {a \in A : AdvCat[a].p.fam = NbrCat[n].afam} ELSE A

RECURSIVE AnySeq(_)
AnySeq(S) == IF S = {} THEN <<>> ELSE LET m == CHOOSE m \in S : TRUE IN <<m>> \o AnySeq(S \ {m})

RECURSIVE SetToSeq(_)
SetToSeq(S) == IF S = {} THEN <<>> ELSE LET m == CHOOSE m \in S : \A o \in S : m <= o IN <<m>> \o SetToSeq(S \ {m})

AdvSeq(A) == LET q == SetToSeq(A) IN [i \in 1..Len(q) |-> AdvCat[q[i]]]
Sess(n, A, pre, ghost) ==
  LET c == NbrCat[n] IN
  [k |-> c.k, vrf |-> c.vrf, myasn |-> c.myasn, routerid |-> c.routerid, afam |-> c.afam, addr |-> c.addr, iface |-> c.iface,
   asn |-> c.asn, dyn |-> c.dyn, port |-> c.port, hold |-> c.hold, keepalive |-> c.keepalive, connect |-> c.connect,
   pw |-> c.pw, pwref |-> c.pwref, src |-> c.src, multihop |-> c.multihop, bfd |-> c.bfd, gr |-> c.gr,
   disablemp |-> c.disablemp, ghost |-> ghost, advs |-> AdvSeq(AllowedAdvs(n, A)), pre |-> AdvSeq(AllowedAdvs(n, pre))]

----------------------------------------------------------------------------
(* role B: inputs.  inp = [bucket, ns |-> sequence of catalogue indices (increasing), as |-> their advertisement sets] *)
Sizes == IF Tier = "thorough" THEN [pair |-> 120, triple |-> 120]
         ELSE IF Tier = "quick" THEN [pair |-> 18, triple |-> 6]
         ELSE [pair |-> 1, triple |-> 1]

PairsOf == {t \in (1..NNbr) \X (1..NNbr) : t[1] < t[2]}
TriplesOf == {t \in (1..NNbr) \X (1..NNbr) \X (1..NNbr) : t[1] < t[2] /\ t[2] < t[3]}
Sample(t, k) == {[ns |-> t, as |-> f] : f \in RandomSubset(k, [1..Len(t) -> AdvSets])}
SingleAdvSets == IF Tier = "tiny" THEN {{}, {2, 3, 8}, {4, 5, 10}} ELSE AdvSets
(* one bucket per set of neighbors.  The samples are drawn while TLC computes the initial states (one *)
(* thread, so they depend on -seed only) and travel in the bucket state; the buckets are then        *)
(* expanded by the TLC workers in parallel.                                                          *)
Buckets == {<<n>> : n \in 1..NNbr} \cup PairsOf \cup TriplesOf
BucketInputs(t) ==
  IF Len(t) = 1 THEN {[ns |-> t, as |-> <<A>>] : A \in SingleAdvSets}
  ELSE Sample(t, IF Len(t) = 2 THEN Sizes.pair ELSE Sizes.triple)

(* ---- histories on one session manager: a fixed prefix (two sessions created, each with an accepted Set) followed *)
(* by Depth operations out of an alphabet: accepted Sets, Sets that must be REFUSED (more than 63 communities on a    *)
(* later advertisement; one prefix with two local preferences - FRR mode only, FRR-K8s mode accepts that), Sets on   *)
(* the other session, SyncBFDProfiles / SyncExtraInfo (regeneration without a change), Close, a third NewSession.   *)
(* The harness observes after EVERY operation; the expected state (view) after each operation is the last ACCEPTED *)
(* Set of every open session: a refused Set changes nothing.                                                       *)
HAdvCat == AdvCat \o <<Adv(P4, "200", <<>>, <<>>), Adv(P4, "100", [i \in 1..64 |-> "65001:" \o ToString(i)], <<>>)>>
IdxLp2 == NAdv + 1
IdxBad == NAdv + 2
HPre == <<1, 2, 3, 4, 5, 6, 7, IdxLp2>>       \* everything a history ever mentions, for "every other prefix"
HL1 == <<1, 4>>
HL2 == <<5, 2>>
HL3 == <<7>>
(* family 2: consecutive ACCEPTED Sets on one session whose lists are nearly equal.  HB0 = p{c1}, p{c2,L}, q        *)
HB0 == <<2, 3, 6>>
HB1 == <<3, 3, 6>>              \* the attributes of ONE occurrence of the repeated prefix changed
HB2 == <<3, 2, 6>>              \* the same multiset in another order
HB3 == <<2, 6>>                 \* one occurrence dropped
HB4 == <<2, 3, IdxLp2>>         \* the local preference of one advertisement changed
HOp(op, s, advs, refuse) == [op |-> op, s |-> s, advs |-> advs, refuse |-> refuse, look |-> 0]
HPrefixOf(fam) ==
  <<HOp("new", 1, <<>>, ""), HOp("set", 1, IF fam = 1 THEN HL1 ELSE HB0, ""), HOp("new", 2, <<>>, ""), HOp("set", 2, HL3, "")>>
HAlphabetOf(fam) ==
  IF fam = 1
  THEN << HOp("set", 1, HL2, ""), HOp("set", 1, <<>>, ""), HOp("set", 2, HL1, ""),
          HOp("set", 1, <<6, IdxBad>>, "63"), HOp("set", 1, <<7, 6, IdxLp2>>, "lp"), HOp("set", 2, <<6, IdxBad>>, "63"),
          HOp("syncbfd", 1, <<>>, ""), HOp("syncextra", 1, <<>>, ""), HOp("close", 1, <<>>, ""), HOp("close", 2, <<>>, ""),
          HOp("new", 3, <<>>, "") >>
  ELSE << HOp("set", 1, HB0, ""), HOp("set", 1, HB1, ""), HOp("set", 1, HB2, ""), HOp("set", 1, HB3, ""), HOp("set", 1, HB4, ""),
          HOp("set", 2, HB1, ""), HOp("set", 1, <<6, IdxBad>>, "63"), HOp("syncbfd", 1, <<>>, ""), HOp("close", 2, <<>>, "") >>
HDepth == 3
HVariants == <<(<<1, 2, 5>>), (<<3, 6, 4>>), (<<9, 1, 3>>), (<<5, 10, 1>>)>>     \* the last: two interface sessions
HState0 == [j \in 1..3 |-> [live |-> FALSE, advs |-> <<>>]]
HEnabled(st, a) ==
  IF a.op \in {"set", "close"} THEN st[a.s].live ELSE IF a.op = "new" THEN ~st[a.s].live ELSE TRUE
HApply(st, a) ==
  IF a.op = "set" /\ a.refuse = "" THEN [st EXCEPT ![a.s].advs = a.advs]
  ELSE IF a.op = "close" THEN [st EXCEPT ![a.s] = [live |-> FALSE, advs |-> <<>>]]
  ELSE IF a.op = "new" THEN [st EXCEPT ![a.s] = [live |-> TRUE, advs |-> <<>>]]
  ELSE st
RECURSIVE HStates(_, _, _)
(* the states after each operation (operations that are not enabled leave the state alone; see HValid) *)
HStates(ops, i, st) ==
  IF i > Len(ops) THEN <<>> ELSE <<HApply(st, ops[i])>> \o HStates(ops, i + 1, HApply(st, ops[i]))
RECURSIVE HAllEnabled(_, _, _)
HAllEnabled(ops, i, st) ==
  i > Len(ops) \/ (HEnabled(st, ops[i]) /\ HAllEnabled(ops, i + 1, HApply(st, ops[i])))
HOpsOf(fam, f) == HPrefixOf(fam) \o [i \in 1..Len(f) |-> HAlphabetOf(fam)[f[i]]]
HValid(fam, f) == HAllEnabled(HOpsOf(fam, f), 1, HState0)
HBuckets ==
  LET all == 1..Len(HVariants)
      vs == IF Tier = "thorough" THEN all ELSE IF Tier = "quick" THEN RandomSubset(2, all) ELSE RandomSubset(1, all)
  IN UNION {{[bucket |-> TRUE, kind |-> "hist", fam |-> fam, ns |-> HVariants[v], as |-> <<a>>,
              pool |-> {f \in [1..HDepth -> 1..Len(HAlphabetOf(fam))] : f[1] = a /\ HValid(fam, f)}] :
               v \in vs, a \in 1..Len(HAlphabetOf(fam))} : fam \in {1, 2}}

Init == inp \in {[bucket |-> TRUE, kind |-> "set", ns |-> t, as |-> <<>>, pool |-> BucketInputs(t)] : t \in Buckets} \cup HBuckets
Next ==
  /\ inp.bucket
  /\ inp' \in IF inp.kind = "set" THEN {[bucket |-> FALSE, kind |-> "set", ns |-> i.ns, as |-> i.as, pool |-> {}] : i \in inp.pool}
              ELSE {[bucket |-> FALSE, kind |-> "hist", fam |-> inp.fam, ns |-> inp.ns, as |-> f, pool |-> {}] : f \in inp.pool}

(* a history input *)
HSess(n) ==
  LET c == NbrCat[n] IN
  [k |-> c.k, vrf |-> c.vrf, myasn |-> c.myasn, routerid |-> c.routerid, afam |-> c.afam, addr |-> c.addr, iface |-> c.iface,
   asn |-> c.asn, dyn |-> c.dyn, port |-> c.port, hold |-> c.hold, keepalive |-> c.keepalive, connect |-> c.connect,
   pw |-> c.pw, pwref |-> c.pwref, src |-> c.src, multihop |-> c.multihop, bfd |-> c.bfd, gr |-> c.gr,
   disablemp |-> c.disablemp, ghost |-> FALSE, advs |-> HAdvCat, pre |-> <<>>]
HSessions == [j \in 1..3 |-> HSess(inp.ns[j])]
HOps == LET ops == HOpsOf(inp.fam, inp.as) IN [i \in DOMAIN ops |-> [ops[i] EXCEPT !.look = i]]
HViews ==
  LET q == HStates(HOpsOf(inp.fam, inp.as), 1, HState0) IN
  [i \in DOMAIN q |-> [j \in 1..3 |-> [live |-> q[i][j].live, advs |-> q[i][j].advs, pre |-> HPre]]]
(* the sessions the judge is shown for a view *)
HViewSessions(view) ==
  [j \in 1..3 |-> [HSessions[j] EXCEPT !.ghost = ~view[j].live,
                                        !.advs = [i \in DOMAIN view[j].advs |-> HAdvCat[view[j].advs[i]]],
                                        !.pre = [i \in DOMAIN view[j].pre |-> HAdvCat[view[j].pre[i]]]]]

K == Len(inp.ns)
(* the history variant: a session that does not belong to the set is created, advertises, and is closed again *)
GhostN == CHOOSE g \in 1..NGhost : g \notin Range(inp.ns) /\ \A o \in 1..NGhost : o \notin Range(inp.ns) => g <= o
Sessions ==
  [i \in 1..(K + 1) |->
     IF i <= K THEN Sess(inp.ns[i], inp.as[i], IF i = 1 THEN {2, 5, 9, 10} ELSE {}, FALSE)
     ELSE Sess(GhostN, {1, 4, 7}, {}, TRUE)]

Op(op, s, advs) == [op |-> op, s |-> s, advs |-> advs, refuse |-> "", look |-> 0]
Fwd(i) == [j \in 1..Len(Sessions[i].advs) |-> j]
Rev(i) == [j \in 1..Len(Sessions[i].advs) |-> Len(Sessions[i].advs) + 1 - j]
RECURSIVE Cat(_, _)
Cat(f, n) == IF n = 0 THEN <<>> ELSE Cat(f, n - 1) \o f[n]
(* create and set one session after the other, advertisements forwards *)
OrdA(pi) == Cat([j \in 1..K |-> <<Op("new", pi[j], <<>>), Op("set", pi[j], Fwd(pi[j]))>>], K)
(* all creates first, then the Set calls in the opposite order, advertisements backwards *)
OrdB(pi) == [j \in 1..K |-> Op("new", pi[j], <<>>)] \o [j \in 1..K |-> Op("set", pi[K + 1 - j], Rev(pi[K + 1 - j]))]
OrdH ==
  <<Op("new", K + 1, <<>>), Op("set", K + 1, Fwd(K + 1))>> \o [j \in 1..K |-> Op("new", j, <<>>)]
  \o <<Op("preset", 1, <<>>), Op("close", K + 1, <<>>)>> \o [j \in 1..K |-> Op("set", j, Fwd(j))]
Orders ==
  IF K = 1 THEN <<OrdA(<<1>>), OrdB(<<1>>), OrdH>>
  ELSE IF K = 2 THEN <<OrdA(<<1, 2>>), OrdB(<<2, 1>>), OrdH>>
  ELSE <<OrdA(<<1, 2, 3>>), OrdB(<<1, 3, 2>>), OrdA(<<2, 3, 1>>), OrdB(<<2, 1, 3>>), OrdA(<<3, 1, 2>>), OrdB(<<3, 2, 1>>), OrdH>>

(* password handling of the speaker (passwordForSession): what a peer configuration can hold after loading *)
(* (plain password, or a secret reference together with the secret's content, or nothing) x BGP             *)
(* implementation x secret handling                                                                        *)
PwCases ==
  {[pw |-> c[1], secretpw |-> c[2], ref |-> c[3], impl |-> im, handling |-> h] :
     c \in {<<"", "", NoRef>>, <<"plain-pw", "", NoRef>>, <<"", "from-secret", Ref("peer-secret")>>,
            <<"", "from-secret", RefName("peer-secret")>>,       \* reference without namespace
            <<"", "", RefNs>>,                                   \* reference with a namespace only: nothing to resolve
            <<"plain-pw", "", RefNs>>},                          \* ... next to a plain password (the loader lets it through)
     im \in {"native", "frr", "frr-k8s"}, h \in {"passthrough", "convert"}}

Emit ==
  IF inp.bucket THEN inp.ns # <<1>> \/ PrintT(ToJson([pwcases |-> AnySeq(PwCases)]))
  ELSE IF inp.kind = "hist"
  THEN PrintT(ToJson([node |-> "node-a", ns |-> "metallb-system", sessions |-> HSessions, orders |-> <<HOps>>, views |-> HViews,
                      frronly |-> \E i \in DOMAIN HOps : HOps[i].refuse = "lp"]))
  ELSE PrintT(ToJson([node |-> "node-a", ns |-> "metallb-system", sessions |-> Sessions, orders |-> Orders]))

----------------------------------------------------------------------------
(* role A: the designed generator.  Names are tuples: only their identity matters. *)
FamAf(f) == IF f = 4 THEN "ip" ELSE "ipv6"
FamAf2(f) == IF f = 4 THEN "ipv4" ELSE "ipv6"
NoP == [s |-> "", fam |-> 0, oct |-> <<>>, len |-> 0]

Numbered(S) == LET q == AnySeq(S) IN [i \in 1..Len(q) |-> [q[i] EXCEPT !.seq = i]]

PlE(f, name, action, any, p) == [af |-> FamAf(f), name |-> name, seq |-> 0, action |-> action, any |-> any, p |-> p, ge |-> -1, le |-> -1]
RmE(name, action, seq, matches, sets, onmatch) ==
  [name |-> name, action |-> action, seq |-> seq, matches |-> matches, sets |-> sets, onmatch |-> onmatch]

(* per-neighbor lists; shared = TRUE is the broken design where the lists are per router *)
ListName(kind, s, x, shared) == IF shared THEN <<kind, s.vrf, x>> ELSE <<kind, s.vrf, PeerOf(s), x>>

GenPlists(s, shared, denyAny) ==
  LET R == Requested(s) IN
  {PlE(r.prefix.fam, ListName("pl", s, "", shared), "permit", FALSE, r.prefix) : r \in R}
  \cup {PlE(r.prefix.fam, ListName("lp", s, r.lp, shared), "permit", FALSE, r.prefix) : r \in {r \in R : r.lp # "0"}}
  \cup UNION {{PlE(r.prefix.fam, ListName("c", s, c, shared), "permit", FALSE, r.prefix) : c \in r.comms} : r \in R}
  \cup UNION {{PlE(r.prefix.fam, ListName("lc", s, c, shared), "permit", FALSE, r.prefix) : c \in r.lcomms} : r \in R}
  \cup (IF denyAny THEN {PlE(f, ListName("pl", s, "", shared), "deny", TRUE, NoP) : f \in {f \in {4, 6} : ~\E r \in R : r.prefix.fam = f}}
        ELSE {})

GenGuards(s, shared, next) ==
  LET R == Requested(s)
      G(kind, x, f, set) == RmE(<<"out", s.vrf, PeerOf(s)>>, "permit", 0,
                                <<[af |-> FamAf(f), plist |-> ListName(kind, s, x, shared)]>>, <<set>>, IF next THEN "next" ELSE "")
  IN {G("lp", r.lp, r.prefix.fam, [kind |-> "lp", vals |-> <<r.lp>>, additive |-> FALSE]) : r \in {r \in R : r.lp # "0"}}
     \cup UNION {{G("c", c, r.prefix.fam, [kind |-> "comm", vals |-> <<c>>, additive |-> TRUE]) : c \in r.comms} : r \in R}
     \cup UNION {{G("lc", c, r.prefix.fam, [kind |-> "lcomm", vals |-> <<c>>, additive |-> TRUE]) : c \in r.lcomms} : r \in R}

GenRmaps(s, shared, next) ==
  LET g == Numbered(GenGuards(s, shared, next))
      out == <<"out", s.vrf, PeerOf(s)>>
  IN <<RmE(<<"in", s.vrf, PeerOf(s)>>, "deny", 20, <<>>, <<>>, "")>> \o g
     \o <<RmE(out, "permit", Len(g) + 1, <<[af |-> "ip", plist |-> ListName("pl", s, "", shared)]>>, <<>>, ""),
          RmE(out, "permit", Len(g) + 2, <<[af |-> "ipv6", plist |-> ListName("pl", s, "", shared)]>>, <<>>, "")>>

GenNbr(s, r) ==
  LET x == PeerOf(s)
      St(stmt, args) == [router |-> r, peer |-> x, stmt |-> stmt, args |-> args, iface |-> s.iface # ""]
  IN <<St("remote-as", <<IF s.dyn # "" THEN s.dyn ELSE s.asn>>), St("port", <<s.port>>)>>
     \o (IF s.multihop THEN <<St("ebgp-multihop", <<>>)>> ELSE <<>>)
     \o (IF s.hold # "" /\ s.keepalive # "" THEN <<St("timers", <<s.keepalive, s.hold>>)>> ELSE <<>>)
     \o (IF s.connect # "" THEN <<St("timers connect", <<s.connect>>)>> ELSE <<>>)
     \o (IF s.pw # "" THEN <<St("password", <<s.pw>>)>> ELSE <<>>)
     \o (IF s.src # "" THEN <<St("update-source", <<s.src>>)>> ELSE <<>>)
     \o (IF s.bfd # "" THEN <<St("bfd", <<>>), St("bfd profile", <<s.bfd>>)>> ELSE <<>>)

GenAf(s, r) ==
  LET x == PeerOf(s)
      fams == IF s.disablemp THEN {s.afam} ELSE {4, 6}
      A(f, kind, name, dir) == [router |-> r, af |-> FamAf2(f), kind |-> kind, peer |-> x, name |-> name, dir |-> dir, p |-> NoP]
  IN Cat([j \in 1..2 |->
            LET f == IF j = 1 THEN 4 ELSE 6 IN
            IF f \in fams THEN <<A(f, "activate", "", ""), A(f, "route-map", <<"in", s.vrf, x>>, "in"),
                                 A(f, "route-map", <<"out", s.vrf, x>>, "out")>>
            ELSE <<>>], 2)

GenNet(S, L, v, r) ==
  LET Q == AnySeq(UNION {ReqPrefixes(S[i]) : i \in SessIn(S, L, v)}) IN
  [j \in 1..Len(Q) |-> [router |-> r, af |-> FamAf2(Q[j].fam), kind |-> "network", peer |-> "", name |-> "", dir |-> "", p |-> Q[j]]]

AllFlags == <<"no bgp ebgp-requires-policy", "no bgp network import-check", "no bgp default ipv4-unicast",
              "bgp graceful-restart preserve-fw-state">>

(* S: sessions, L: the live ones; the options name the broken variants used by Lemmas *)
GenX(S, L, shared, denyAny, next) ==
  LET vs == AnySeq({S[i].vrf : i \in L})
      RIdx(v) == CHOOSE r \in DOMAIN vs : vs[r] = v
      ls == AnySeq(L)
  IN [plists   |-> Numbered(UNION {GenPlists(S[i], shared, denyAny) : i \in L}),
      rmaps    |-> Cat([j \in 1..Len(ls) |-> GenRmaps(S[ls[j]], shared, next)], Len(ls)),
      routers  |-> [r \in DOMAIN vs |->
                      LET i == CHOOSE i \in L : S[i].vrf = vs[r] IN
                      [asn |-> S[i].myasn, vrf |-> vs[r], flags |-> AllFlags,
                       routerid |-> IF S[i].routerid = "" THEN <<>> ELSE <<S[i].routerid>>]],
      nbrstmts |-> Cat([j \in 1..Len(ls) |-> GenNbr(S[ls[j]], RIdx(S[ls[j]].vrf))], Len(ls)),
      afstmts  |-> Cat([j \in 1..Len(ls) |-> GenAf(S[ls[j]], RIdx(S[ls[j]].vrf))], Len(ls))
                   \o Cat([r \in DOMAIN vs |-> GenNet(S, L, vs[r], r)], Len(vs)),
      unknown  |-> <<>>]
Gen(S, L) == GenX(S, L, FALSE, TRUE, TRUE)

(* the designed FRRConfiguration *)
Codes(p) == <<p.fam>> \o p.oct \o <<p.len>>      \* stands for the text: any order will do for the design
RECURSIVE SortP(_)
SortP(S) == IF S = {} THEN <<>> ELSE LET m == CHOOSE m \in S : \A o \in S : o = m \/ StructLess(m, o) IN <<m>> \o SortP(S \ {m})
WithCodes(q) == [j \in 1..Len(q) |-> [fam |-> q[j].fam, oct |-> q[j].oct, len |-> q[j].len, codes |-> Codes(q[j])]]
GenCRNbr(s) ==
  LET R == Requested(s)
      lps == AnySeq({r.lp : r \in R} \ {"0"})
      cs == AnySeq(UNION {r.comms : r \in R})
      lcs == AnySeq(UNION {r.lcomms : r \in R})
  IN [address |-> s.addr, iface |-> s.iface, asn |-> IF s.dyn # "" THEN "0" ELSE s.asn, dyn |-> s.dyn, srcaddr |-> s.src,
      port |-> s.port, password |-> IF HasRef(s.pwref) THEN "" ELSE s.pw, secret |-> s.pwref, hold |-> s.hold,
      keepalive |-> s.keepalive, connect |-> s.connect, multihop |-> s.multihop, bfd |-> s.bfd, gr |-> s.gr,
      disablemp |-> s.disablemp, allowedMode |-> "", allowed |-> WithCodes(SortP(ReqPrefixes(s))),
      withLocalPref |-> [j \in DOMAIN lps |-> [lp |-> lps[j], prefixes |-> SortP({r.prefix : r \in {r \in R : r.lp = lps[j]}})]],
      withCommunity |-> [j \in DOMAIN cs |-> [raw |-> cs[j], large |-> FALSE, c |-> cs[j],
                                               prefixes |-> SortP({r.prefix : r \in {r \in R : cs[j] \in r.comms}})]]
                        \o [j \in DOMAIN lcs |-> [raw |-> lcs[j], large |-> TRUE, c |-> lcs[j],
                                                  prefixes |-> SortP({r.prefix : r \in {r \in R : lcs[j] \in r.lcomms}})]],
      receiveMode |-> "", nreceive |-> 0, badPrefixes |-> <<>>]
GenCR(S, L, node) ==
  LET vs == AnySeq({S[i].vrf : i \in L}) IN
  [present |-> TRUE, name |-> "x", namespace |-> "y", matchLabels |-> <<[k |-> "kubernetes.io/hostname", v |-> node]>>,
   nmatchexpr |-> 0, rawConfig |-> "", bfdProfiles |-> <<>>,
   routers |-> [r \in DOMAIN vs |->
                  LET ls == AnySeq(SessIn(S, L, vs[r])) IN
                  [asn |-> S[ls[1]].myasn, rid |-> S[ls[1]].routerid, vrf |-> vs[r], nimports |-> 0,
                   prefixes |-> SortP(UNION {ReqPrefixes(S[i]) : i \in SessIn(S, L, vs[r])}),
                   neighbors |-> [j \in DOMAIN ls |-> GenCRNbr(S[ls[j]])]]]]

(* the designed choice: FRR-K8s with pass-through hands over the reference, everything else the plain text *)
PwChoice(c) ==
  IF c.impl = "frr-k8s" /\ c.handling = "passthrough" THEN [password |-> c.pw, secret |-> c.ref]
  ELSE [password |-> IF c.secretpw # "" THEN c.secretpw ELSE c.pw, secret |-> NoRef]
DesignPw == \A c \in PwCases : PwFails(c, PwChoice(c).password, PwChoice(c).secret) = {}
ASSUME DesignPw

(* the sessions role A looks at: the input's, or for a history those of its final view *)
DSessions == IF inp.kind = "hist" THEN HViewSessions(HViews[Len(HViews)]) ELSE Sessions
LiveD == {i \in DOMAIN DSessions : ~DSessions[i].ghost}
Design14 == inp.bucket \/ Fails14(DSessions, LiveD, Gen(DSessions, LiveD)) = {}
Design15 ==
  inp.bucket \/
  LET cr == GenCR(DSessions, LiveD, "node-a") IN
  /\ Fails15(DSessions, LiveD, cr, "node-a") = {}
  /\ Agreement(DSessions, LiveD, Gen(DSessions, LiveD), cr) = {}

----------------------------------------------------------------------------
(* Lemmas: the semantics tells the designed program from broken variants (checked once, at start-up) *)
LS == <<Sess(1, {2, 3, 4, 8}, {}, FALSE), Sess(2, {1}, {}, FALSE), Sess(5, {}, {}, FALSE), Sess(6, {9}, {}, FALSE)>>
LL == 1..4
LOk == Gen(LS, LL)
Lemmas ==
  /\ Fails14(LS, LL, LOk) = {}
  (* a prefix-list shared between the neighbors of a router leaks n1's prefixes to n2 and n5 *)
  /\ {"C14.ExactPerNeighbor", "C14.OtherRejected"} \subseteq Fails14(LS, LL, GenX(LS, LL, TRUE, TRUE, TRUE))
  (* without on-match next the first guard ends the evaluation: attributes of later guards are lost *)
  /\ "C14.ExactPerNeighbor" \in Fails14(LS, LL, GenX(LS, LL, FALSE, TRUE, FALSE))
  (* P3: leaving out `deny any` for an empty family changes nothing, but is visible as an undefined reference *)
  /\ Fails14(LS, LL, GenX(LS, LL, FALSE, FALSE, TRUE)) = {}
  /\ UndefinedRefs(LOk) = {} /\ UndefinedRefs(GenX(LS, LL, FALSE, FALSE, TRUE)) # {}
  (* exact match: 10.20.30.0/24 permitted does not let 10.20.30.0/25 or /23 pass; ge/le do *)
  /\ LET e == [af |-> "ip", name |-> "l", seq |-> 5, action |-> "permit", any |-> FALSE, p |-> P1, ge |-> -1, le |-> -1]
         pr(pl) == [plists |-> pl, rmaps |-> <<>>, routers |-> <<>>, nbrstmts |-> <<>>, afstmts |-> <<>>, unknown |-> <<>>]
     IN /\ PlApply(pr(<<e>>), "ip", "l", Norm(P1)) = "permit"
        /\ PlApply(pr(<<e>>), "ip", "l", Norm(P2)) = "deny"
        /\ PlApply(pr(<<e>>), "ipv6", "l", Norm(P1)) = "undef"
        /\ PlApply(pr(<<[e EXCEPT !.le = 32]>>), "ip", "l", Norm(P3)) = "permit"
        /\ PlApply(pr(<<[e EXCEPT !.ge = 25]>>), "ip", "l", Norm(P1)) = "deny"
        /\ PlApply(pr(<<[e EXCEPT !.any = TRUE, !.action = "deny", !.seq = 1], e>>), "ip", "l", Norm(P1)) = "deny"
        /\ PlApply(pr(<<e, [e EXCEPT !.action = "deny"]>>), "ip", "l", Norm(P1)) = "deny"     \* same seq: replaced
        /\ PlApply(pr(<<[e EXCEPT !.any = TRUE]>>), "ip", "l", Norm(P5)) = "deny"              \* other family
  (* sticky permit / deny entry / implicit deny *)
  /\ LET pl == <<[af |-> "ip", name |-> "a", seq |-> 1, action |-> "permit", any |-> FALSE, p |-> P1, ge |-> -1, le |-> -1]>>
         g == RmE("m", "permit", 1, <<[af |-> "ip", plist |-> "a"]>>, <<[kind |-> "comm", vals |-> <<C20>>, additive |-> TRUE]>>, "next")
         pr(rm) == [plists |-> pl, rmaps |-> rm, routers |-> <<>>, nbrstmts |-> <<>>, afstmts |-> <<>>, unknown |-> <<>>]
     IN /\ RmApply(pr(<<g>>), "m", Norm(P1)) = [permit |-> TRUE, attrs |-> [lp |-> "0", comms |-> {C20}, lcomms |-> {}]]
        /\ ~RmApply(pr(<<g>>), "m", Norm(P2)).permit
        /\ ~RmApply(pr(<<g, RmE("m", "deny", 2, <<>>, <<>>, "")>>), "m", Norm(P1)).permit
        /\ ~RmApply(pr(<<g>>), "undefined", Norm(P1)).permit
        /\ RmApply(pr(<<g, RmE("m", "permit", 2, <<>>, <<[kind |-> "comm", vals |-> <<C100>>, additive |-> FALSE]>>, "")>>),
                   "m", Norm(P1)).attrs.comms = {C100}
  (* B1-B3: no route-map statement = everything passes, except to an eBGP neighbor once `no bgp ebgp-requires-policy`  *)
  (* is gone; no `no bgp network import-check` = nothing originated; no `no bgp default ipv4-unicast` = ipv4 active     *)
  /\ LET noPol == [LOk EXCEPT !.afstmts = SelectSeq(LOk.afstmts, LAMBDA a : a.kind # "route-map")]
         dropFlag(pr, fl) == [pr EXCEPT !.routers = [r \in DOMAIN pr.routers |->
                                 [pr.routers[r] EXCEPT !.flags = SelectSeq(pr.routers[r].flags, LAMBDA x : x # fl)]]]
         strict == dropFlag(noPol, "no bgp ebgp-requires-policy")
         noAct == [LOk EXCEPT !.afstmts = SelectSeq(LOk.afstmts, LAMBDA a : a.kind = "network")]
     IN /\ {r.prefix : r \in Offered(noPol, "", "10.2.2.254")} = Originated(LOk, "") /\ Originated(LOk, "") # {}
        /\ {"C14.InboundDenied", "C14.OtherRejected", "C14.ExactPerNeighbor"} \subseteq Fails14(LS, LL, noPol)
        /\ Offered(strict, "", "10.2.2.254") = {}                                        \* n1: eBGP
        /\ {r.prefix : r \in Offered(strict, "", "10.2.2.255")} = Originated(LOk, "")    \* n2: iBGP
        /\ Originated(dropFlag(LOk, "no bgp network import-check"), "") = {}
        /\ "C14.Originated" \in Fails14(LS, LL, dropFlag(LOk, "no bgp network import-check"))
        /\ ~Activated(noAct, "", "10.2.2.254", 4)
        /\ Activated(dropFlag(noAct, "no bgp default ipv4-unicast"), "", "10.2.2.254", 4)
        /\ ~Activated(dropFlag(noAct, "no bgp default ipv4-unicast"), "", "10.2.2.254", 6)
  (* the designed resource satisfies C15 and agrees with the designed text; a text with shared lists does not agree *)
  /\ LET cr == GenCR(LS, LL, "node-a")
     IN /\ Fails15(LS, LL, cr, "node-a") = {}
        /\ Agreement(LS, LL, LOk, cr) = {}
        /\ "C15.Agreement" \in Agreement(LS, LL, GenX(LS, LL, TRUE, TRUE, TRUE), cr)
        /\ "C15.NodeSelector" \in Fails15(LS, LL, [cr EXCEPT !.matchLabels = <<>>], "node-a")
ASSUME Lemmas
=============================================================================
