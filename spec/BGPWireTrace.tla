---------------------------- MODULE BGPWireTrace ----------------------------
(***************************************************************************)
(* C16, role C: the observations logged by harness/native (one NDJSON line  *)
(* per writer call / readOpen call on the real code) are read back and TLC  *)
(* evaluates the two predicates of the property on what the code did:       *)
(*                                                                          *)
(*   RoundTrip      the octets a writer produced are exactly one framed     *)
(*                  RFC 4271 message (marker, length field = octets         *)
(*                  written, attribute lengths and flags consistent) whose  *)
(*                  content, read by the reader of BGPWire, is Intended(p)  *)
(*   OpenReaderSafe readOpen neither panics nor hangs, takes no octet       *)
(*                  beyond Allowed(stream), and for a well-formed OPEN      *)
(*                  reports what OpenReader reports                         *)
(*                                                                          *)
(* Every failing conjunct is printed with its name (never stop at the first *)
(* one); names that do not start with "C16." are informational (DRIFT).     *)
(***************************************************************************)
EXTENDS BGPWire, Integers, Json, TLC

Trace == ndJsonDeserialize("obs.ndjson")
N == Len(Trace)

VARIABLE i

If(c, name) == IF c THEN {} ELSE {name}

----------------------------------------------------------------------------
Diff(c, t) ==
  {f \in DOMAIN c \cap DOMAIN t : c[f] # t[f]} \cup (DOMAIN c \ DOMAIN t) \cup (DOMAIN t \ DOMAIN c)

(* o.p = parameters of the call, o.bytes = what reached the connection      *)
WriterVerdict(o) ==
  LET p == o.p  w == WidthOf(p)  b == o.bytes IN
  IF o.panic # "" THEN [fails |-> {"C16.RoundTrip.Panic"}, info |-> [panic |-> o.panic]]
  ELSE IF o.timeout THEN [fails |-> {"C16.RoundTrip.Hang"}, info |-> [why |-> "watchdog"]]
  ELSE IF b = <<>> THEN
         \* nothing was written: only acceptable as a refusal in the corner the statement leaves open
         [fails |-> If(o.err # "" /\ TwoOctetCorner(p), "C16.RoundTrip.NothingWritten"), info |-> [err |-> o.err]]
  ELSE LET d == Decode(b) IN
       IF ~d.ok THEN [fails |-> {"C16.RoundTrip.Framing"}, info |-> [why |-> d.why]]
       ELSE LET c == Content(d, w)  t == Intended(p) IN
            [fails |-> If(o.err = "", "C16.RoundTrip.ErrorAfterWrite")
                       \cup If(o.nwritten = Len(b) /\ HdrLen(b) = o.nwritten, "C16.RoundTrip.Length")
                       \cup If(WellFormed(d, w), "C16.RoundTrip.WellFormed")
                       \cup If(c = t, "C16.RoundTrip.Content"),
             info |-> [diff |-> IF c = t THEN {} ELSE Diff(c, t), err |-> o.err]]

RoundTrip(o) == WriterVerdict(o).fails = {}

----------------------------------------------------------------------------
Got(o) == [class |-> "accept", asn |-> o.asn, hold |-> o.hold, mp4 |-> o.mp4, mp6 |-> o.mp6, fbasn |-> o.fbasn]

ReaderVerdict(o) ==
  LET s == o.stream  r == OpenReader(s)  ran == o.panic = "" /\ ~o.timeout IN
  [fails |-> If(o.panic = "", "C16.OpenReaderSafe.Panic")
             \cup If(~o.timeout, "C16.OpenReaderSafe.Hang")
             \cup If(ran => o.consumed <= Allowed(s), "C16.OpenReaderSafe.Bounded")
             \cup If((ran /\ r.class = "accept") => (o.ok /\ Got(o) = r), "C16.OpenReaderSafe.Outcome")
             \* informational: the statement does not say which malformed strings must be refused
             \cup If((ran /\ r.class = "reject") => ~o.ok, "INFO.AcceptsMalformed"),
   info |-> [class |-> r.class, why |-> IF r.class = "accept" THEN "" ELSE r.why,
             want |-> IF r.class = "accept" THEN r ELSE [class |-> r.class], got |-> Got(o),
             allowed |-> Allowed(s), consumed |-> o.consumed, ok |-> o.ok, err |-> o.err,
             hdrlen |-> IF Len(s) >= 19 THEN U16(s, 17) ELSE -1, type |-> IF Len(s) >= 19 THEN s[19] ELSE -1]]

OpenReaderSafe(o) == ReaderVerdict(o).fails \subseteq {"INFO.AcceptsMalformed"}

----------------------------------------------------------------------------
(* Histories: several sends on one process / connection object.  The same   *)
(* RoundTrip is demanded of every send the writer reports as successful,    *)
(* on the octets written FOR THAT CALL - whatever happened before (a send   *)
(* the writer refused, a connection that failed after k octets).  A send    *)
(* that returns an error where a refusal / failure is expected may have     *)
(* written nothing or a prefix; it is not judged.                           *)
Judgeable(p) == p.kind # "update" \/ \A k \in DOMAIN p.comms : Len(p.comms[k]) = 2
Quiet == [fails |-> {}, info |-> [err |-> ""]]

StepVerdict(st) ==
  LET p == st.p IN
  IF st.panic # "" \/ st.timeout THEN WriterVerdict(st)
  ELSE IF st.err # "" /\ (p.failat >= 0 \/ p.expect = "refusable") THEN Quiet
  ELSE IF st.err = "" /\ ~Judgeable(p) THEN Quiet
  ELSE WriterVerdict(st)

HistoryVerdict(o) ==
  LET bad == {k \in DOMAIN o.steps : StepVerdict(o.steps[k]).fails # {}} IN
  IF bad = {} THEN Quiet
  ELSE LET k == CHOOSE x \in bad : \A y \in bad : x <= y
           v == StepVerdict(o.steps[k])
       IN [fails |-> v.fails, info |-> [step |-> k, badsteps |-> bad, first |-> v.info]]

HistoryRoundTrip(o) == HistoryVerdict(o).fails = {}

----------------------------------------------------------------------------
Verdict(o) == CASE o.kind = "read" -> ReaderVerdict(o)
                [] o.kind = "history" -> HistoryVerdict(o)
                [] OTHER -> WriterVerdict(o)

Init == i = 1
Next == i < N /\ i' = i + 1

Judge ==
  LET v == Verdict(Trace[i]) IN
  /\ (v.fails = {} \/ PrintT(ToJson([fails |-> v.fails, line |-> i, id |-> Trace[i].id, info |-> v.info])))
  /\ (i < N \/ PrintT(ToJson([done |-> N])))
=============================================================================
