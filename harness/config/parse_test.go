//go:build verif

package config

// Role B/C harness for C08: every snapshot enumerated by TLC (spec/ConfigParseMC.tla) is rendered
// as ClusterResources (concretisation of the abstract W-bit windows), given to the real
// config.For(resources, DontValidate), and the outcome is projected: error, or per pool the
// parsed CIDR list expanded to per-block address counts inside the windows, the number of
// addresses outside them, and the attached advertisements.  No judgement happens here.

import (
	"bufio"
	"encoding/json"
	"fmt"
	"math/big"
	"net"
	"os"
	"runtime"
	"sort"
	"strings"
	"sync"
	"testing"

	metallbv1beta1 "go.universe.tf/metallb/api/v1beta1"
	metallbv1beta2 "go.universe.tf/metallb/api/v1beta2"
	corev1 "k8s.io/api/core/v1"
	metav1 "k8s.io/apimachinery/pkg/apis/meta/v1"
)

type vDom struct {
	W  int `json:"W"`
	S4 int `json:"S4"`
	S6 int `json:"S6"`
}

type vEntry struct {
	K   string `json:"k"`
	Fam string `json:"fam"`
	A   int    `json:"a"`
	B   int    `json:"b"`
	Sp  string `json:"sp"`
}

type vPool struct {
	Name string   `json:"name"`
	Lab  string   `json:"lab"`
	Ents []vEntry `json:"ents"`
}

type vAddr struct {
	T   string `json:"t"`
	Fam string `json:"fam"`
	A   int    `json:"a"`
	Sp  string `json:"sp"`
}

type vNode struct {
	Name  string  `json:"name"`
	Zone  string  `json:"zone"`
	Addrs []vAddr `json:"addrs"`
}

type vL2 struct {
	Name  string   `json:"name"`
	Pools []string `json:"pools"`
	Psel  []string `json:"psel"`
	Nsel  []string `json:"nsel"`
	Ifs   []string `json:"ifs"`
}

type vBgp struct {
	Name  string   `json:"name"`
	Pools []string `json:"pools"`
	Psel  []string `json:"psel"`
	Nsel  []string `json:"nsel"`
	Agg4  int32    `json:"agg4"`
	Agg6  int32    `json:"agg6"`
	Lp    uint32   `json:"lp"`
	Peers []string `json:"peers"`
}

type vSnap struct {
	Slice string   `json:"slice"`
	Pools []vPool  `json:"pools"`
	Nodes []vNode  `json:"nodes"`
	L2    []vL2    `json:"l2"`
	Bgp   []vBgp   `json:"bgp"`
	Peers []string `json:"peers"`
}

type vScen struct {
	ID   string          `json:"id"`
	Snap json.RawMessage `json:"snap"`
}

var (
	vBase4 = net.IPv4(10, 1, 0, 0).To4()
	vBase6 = net.ParseIP("fc00::1:0:0")
)

func (d vDom) shift(fam string) int {
	if fam == "v4" {
		return d.S4
	}
	return d.S6
}

func vBig(ip net.IP) *big.Int { return new(big.Int).SetBytes(ip) }

// vConc: concrete address of abstract address a of family fam, plus an offset inside its block.
func (d vDom) vConc(fam string, a int, low int) net.IP {
	base := vBase4
	if fam == "v6" {
		base = vBase6
	}
	n := vBig(base)
	n.Add(n, big.NewInt(int64(a)<<uint(d.shift(fam))+int64(low)))
	b := n.Bytes()
	out := make(net.IP, len(base))
	copy(out[len(out)-len(b):], b)
	return out
}

func vSpell(ip net.IP, mapped bool) string {
	if mapped {
		return "::ffff:" + ip.String()
	}
	return ip.String()
}

func (d vDom) vEntryString(e vEntry) string {
	s := d.shift(e.Fam)
	last := (1 << uint(s)) - 1
	switch e.K {
	case "cidr":
		bits := 32
		if e.Fam == "v6" {
			bits = 128
		}
		l := bits - s - d.W + e.B
		low := 0
		if e.Sp == "low" && s > 0 {
			low = 1
		}
		ip := d.vConc(e.Fam, e.A, low)
		switch e.Sp {
		case "mapped":
			return fmt.Sprintf("::ffff:%s/%d", ip, 96+l)
		case "ws":
			return fmt.Sprintf(" %s/%d", ip, l)
		}
		return fmt.Sprintf("%s/%d", ip, l)
	case "range":
		lo, hi := d.vConc(e.Fam, e.A, 0), d.vConc(e.Fam, e.B, last)
		switch e.Sp {
		case "ws":
			return fmt.Sprintf(" %s  -\t%s ", lo, hi)
		case "mapped":
			return vSpell(lo, true) + "-" + vSpell(hi, true)
		case "mapmix":
			return vSpell(lo, true) + "-" + vSpell(hi, false)
		}
		return lo.String() + "-" + hi.String()
	case "mixed":
		v4, v6 := d.vConc("v4", e.A, 0), d.vConc("v6", e.B, 0)
		if e.Sp == "64" {
			return v6.String() + "-" + v4.String()
		}
		return v4.String() + "-" + v6.String()
	}
	panic("entry kind " + e.K)
}

func vSelectors(key string, vals []string) []metav1.LabelSelector {
	var out []metav1.LabelSelector
	for _, v := range vals {
		out = append(out, metav1.LabelSelector{MatchLabels: map[string]string{key: v}})
	}
	return out
}

func (d vDom) vResources(s vSnap) ClusterResources {
	var r ClusterResources
	for _, p := range s.Pools {
		cr := metallbv1beta1.IPAddressPool{ObjectMeta: metav1.ObjectMeta{Name: p.Name, Namespace: "metallb-system"}}
		if p.Lab != "" {
			cr.Labels = map[string]string{"grp": p.Lab}
		}
		for _, e := range p.Ents {
			cr.Spec.Addresses = append(cr.Spec.Addresses, d.vEntryString(e))
		}
		r.Pools = append(r.Pools, cr)
	}
	for _, n := range s.Nodes {
		no := corev1.Node{ObjectMeta: metav1.ObjectMeta{Name: n.Name, Labels: map[string]string{"zone": n.Zone}}}
		for _, a := range n.Addrs {
			t := corev1.NodeInternalIP
			addr := vSpell(d.vNodeIP(a), a.Sp == "mapped")
			switch a.T {
			case "ext":
				t = corev1.NodeExternalIP
			case "host":
				t, addr = corev1.NodeHostName, n.Name+".example.org"
			}
			no.Status.Addresses = append(no.Status.Addresses, corev1.NodeAddress{Type: t, Address: addr})
		}
		r.Nodes = append(r.Nodes, no)
	}
	for _, a := range s.L2 {
		cr := metallbv1beta1.L2Advertisement{ObjectMeta: metav1.ObjectMeta{Name: a.Name, Namespace: "metallb-system"}}
		cr.Spec.IPAddressPools = append(cr.Spec.IPAddressPools, a.Pools...)
		cr.Spec.IPAddressPoolSelectors = vSelectors("grp", a.Psel)
		cr.Spec.NodeSelectors = vSelectors("zone", a.Nsel)
		cr.Spec.Interfaces = append(cr.Spec.Interfaces, a.Ifs...)
		r.L2Advs = append(r.L2Advs, cr)
	}
	for _, a := range s.Bgp {
		cr := metallbv1beta1.BGPAdvertisement{ObjectMeta: metav1.ObjectMeta{Name: a.Name, Namespace: "metallb-system"}}
		cr.Spec.IPAddressPools = append(cr.Spec.IPAddressPools, a.Pools...)
		cr.Spec.IPAddressPoolSelectors = vSelectors("grp", a.Psel)
		cr.Spec.NodeSelectors = vSelectors("zone", a.Nsel)
		a4, a6 := a.Agg4, a.Agg6
		cr.Spec.AggregationLength = &a4
		cr.Spec.AggregationLengthV6 = &a6
		cr.Spec.LocalPref = a.Lp
		cr.Spec.Peers = append(cr.Spec.Peers, a.Peers...)
		r.BGPAdvs = append(r.BGPAdvs, cr)
	}
	for i, p := range s.Peers {
		r.Peers = append(r.Peers, metallbv1beta2.BGPPeer{
			ObjectMeta: metav1.ObjectMeta{Name: p, Namespace: "metallb-system"},
			Spec:       metallbv1beta2.BGPPeerSpec{MyASN: 64512, ASN: 64512, Address: fmt.Sprintf("10.9.0.%d", i+1)},
		})
	}
	return r
}

func (d vDom) vNodeIP(a vAddr) net.IP {
	low := 0
	if d.shift(a.Fam) > 0 {
		low = 5
	}
	return d.vConc(a.Fam, a.A, low)
}

type vL2Obs struct {
	Nodes []string `json:"nodes"`
	Ifs   []string `json:"ifs"`
}

type vBgpObs struct {
	Name  string   `json:"name"`
	Nodes []string `json:"nodes"`
	Agg4  int      `json:"agg4"`
	Agg6  int      `json:"agg6"`
	Lp    int      `json:"lp"`
	Peers []string `json:"peers"`
}

type vPoolObs struct {
	Name  string    `json:"name"`
	Cnt4  []int     `json:"cnt4"`
	Cnt6  []int     `json:"cnt6"`
	Out   int       `json:"out"`
	NCidr int       `json:"ncidr"`
	L2    []vL2Obs  `json:"l2"`
	Bgp   []vBgpObs `json:"bgp"`
}

type vNodeIn struct {
	Node string `json:"node"`
	Pool string `json:"pool"`
}

type vObs struct {
	ID     string          `json:"id"`
	In     json.RawMessage `json:"snap"`
	Ok     bool            `json:"ok"`
	Err    string          `json:"err"`
	Panic  string          `json:"panic"`
	Pools  []vPoolObs      `json:"pools"`
	NodeIn []vNodeIn       `json:"nodeIn"`
}

func vSortedTrue(m map[string]bool) []string {
	out := []string{}
	for k, v := range m {
		if v {
			out = append(out, k)
		}
	}
	sort.Strings(out)
	return out
}

// vExpand adds the addresses of one parsed prefix to the per-block counters of its family
// (same reading of an IPNet as net.IPNet.Contains: an IPv4 address with a 16-byte mask is an
// IPv4 prefix of ones-96 bits) and returns the number of its addresses outside the window.
func (d vDom) vExpand(n *net.IPNet, bm4, bm6 []bool) int {
	ones, bits := n.Mask.Size()
	ip := n.IP
	fam, bm := "v6", bm6
	if ip4 := ip.To4(); ip4 != nil {
		ip, fam, bm = ip4, "v4", bm4
		if bits == 128 {
			ones -= 96
			if ones < 0 {
				ones = 0
			}
		}
		bits = 32
	} else {
		ip = ip.To16()
	}
	start := vBig(ip)
	size := new(big.Int).Lsh(big.NewInt(1), uint(bits-ones))
	end := new(big.Int).Add(start, size) // exclusive
	wstart := vBig(d.vConc(fam, 0, 0))
	wsize := int64(len(bm))
	wend := new(big.Int).Add(wstart, big.NewInt(wsize))
	lo, hi := start, end
	if lo.Cmp(wstart) < 0 {
		lo = wstart
	}
	if hi.Cmp(wend) > 0 {
		hi = wend
	}
	in := int64(0)
	if lo.Cmp(hi) < 0 {
		off := new(big.Int).Sub(lo, wstart).Int64()
		in = new(big.Int).Sub(hi, lo).Int64()
		for k := int64(0); k < in; k++ {
			bm[off+k] = true
		}
	}
	out := new(big.Int).Sub(size, big.NewInt(in))
	if out.Cmp(big.NewInt(1<<30)) > 0 {
		return 1 << 30
	}
	return int(out.Int64())
}

func (d vDom) vCounts(bm []bool, s int) []int {
	na := 1 << uint(d.W)
	out := make([]int, na)
	bs := 1 << uint(s)
	for a := 0; a < na; a++ {
		for k := 0; k < bs; k++ {
			if bm[a*bs+k] {
				out[a]++
			}
		}
	}
	return out
}

func (d vDom) vRun(sc vScen) (o vObs) {
	o = vObs{ID: sc.ID, In: sc.Snap, Pools: []vPoolObs{}, NodeIn: []vNodeIn{}}
	var s vSnap
	vMust(json.Unmarshal(sc.Snap, &s))
	res := d.vResources(s)
	defer func() {
		if r := recover(); r != nil {
			o.Ok = false
			o.Pools = []vPoolObs{}
			o.NodeIn = []vNodeIn{}
			o.Panic = vClean(fmt.Sprint(r))
		}
	}()
	cfg, err := For(res, DontValidate)
	if err != nil {
		o.Err = vClean(err.Error())
		return o
	}
	o.Ok = true
	for _, name := range vPoolNames(cfg.Pools.ByName) {
		p := cfg.Pools.ByName[name]
		po := vPoolObs{Name: name, L2: []vL2Obs{}, Bgp: []vBgpObs{}, NCidr: len(p.CIDR)}
		bm4 := make([]bool, 1<<uint(d.W+d.S4))
		bm6 := make([]bool, 1<<uint(d.W+d.S6))
		for _, c := range p.CIDR {
			po.Out += d.vExpand(c, bm4, bm6)
			if po.Out > 1<<30 {
				po.Out = 1 << 30
			}
		}
		po.Cnt4, po.Cnt6 = d.vCounts(bm4, d.S4), d.vCounts(bm6, d.S6)
		for _, a := range p.L2Advertisements {
			ifs := append([]string{}, a.Interfaces...)
			sort.Strings(ifs)
			po.L2 = append(po.L2, vL2Obs{Nodes: vSortedTrue(a.Nodes), Ifs: ifs})
		}
		for _, a := range p.BGPAdvertisements {
			peers := append([]string{}, a.Peers...)
			sort.Strings(peers)
			po.Bgp = append(po.Bgp, vBgpObs{Name: a.Name, Nodes: vSortedTrue(a.Nodes), Agg4: a.AggregationLength,
				Agg6: a.AggregationLengthV6, Lp: int(a.LocalPref), Peers: peers})
		}
		o.Pools = append(o.Pools, po)
		for _, n := range s.Nodes {
			for _, ad := range n.Addrs {
				if ad.T != "int" {
					continue
				}
				ip := d.vNodeIP(ad)
				for _, c := range p.CIDR {
					if c.Contains(ip) {
						o.NodeIn = append(o.NodeIn, vNodeIn{Node: n.Name, Pool: name})
						break
					}
				}
			}
		}
	}
	return o
}

// (this package cannot import the shared verifkit: kit helpers of other families import packages
// that import internal/config)
func vMust(err error) {
	if err != nil {
		panic(fmt.Sprintf("verif: %v", err))
	}
}

func vPoolNames(m map[string]*Pool) []string {
	ks := make([]string, 0, len(m))
	for k := range m {
		ks = append(ks, k)
	}
	sort.Strings(ks)
	return ks
}

func vClean(s string) string {
	s = strings.Map(func(r rune) rune {
		if r == '"' || r == '\\' || r < 32 || r > 126 {
			return '\''
		}
		return r
	}, s)
	if len(s) > 100 {
		s = s[:100]
	}
	return s
}

func TestVerifConfigParse(t *testing.T) {
	var d vDom
	b, err := os.ReadFile(os.Getenv("VERIF_DOMAIN"))
	vMust(err)
	vMust(json.Unmarshal(b, &d))
	f, err := os.Open(os.Getenv("VERIF_SCENARIOS"))
	vMust(err)
	defer f.Close()
	var scens []vScen
	scn := bufio.NewScanner(f)
	scn.Buffer(make([]byte, 1<<20), 1<<26)
	for scn.Scan() {
		if len(scn.Bytes()) == 0 {
			continue
		}
		var sc vScen
		vMust(json.Unmarshal(scn.Bytes(), &sc))
		scens = append(scens, sc)
	}
	out := make([]vObs, len(scens))
	var wg sync.WaitGroup
	nw := runtime.GOMAXPROCS(0)
	for w := 0; w < nw; w++ {
		wg.Add(1)
		go func(w int) {
			defer wg.Done()
			for i := w; i < len(scens); i += nw {
				out[i] = d.vRun(scens[i])
			}
		}(w)
	}
	wg.Wait()
	of, err := os.Create(os.Getenv("VERIF_OBS"))
	vMust(err)
	ow := bufio.NewWriterSize(of, 1<<20)
	for i := range out {
		b, err := json.Marshal(out[i])
		vMust(err)
		ow.Write(b)
		ow.WriteByte('\n')
	}
	vMust(ow.Flush())
	vMust(of.Close())
	t.Logf("config.For on %d snapshots", len(out))
}
