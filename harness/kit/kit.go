//go:build verif

// Package verifkit is injected into the metallb module by `go test -overlay` (it does not exist
// on disk under /repo).  It only drives, projects and logs: scenario reader, observation writer
// and the concretisation of the abstract names of spec/Domain.tla.  It holds no oracle.
package verifkit

import (
	"bufio"
	"encoding/json"
	"fmt"
	"net"
	"os"
	"runtime"
	"sort"
	"strconv"
	"strings"
	"sync"

	metallbv1beta1 "go.universe.tf/metallb/api/v1beta1"
	corev1 "k8s.io/api/core/v1"
	metav1 "k8s.io/apimachinery/pkg/apis/meta/v1"
)

// ---------------------------------------------------------------- addresses

var v4base = net.IPv4(192, 168, 0, 254).To4()
var v6base = net.ParseIP("fc00::1:0")

func addInt(ip net.IP, n int) net.IP {
	out := make(net.IP, len(ip))
	copy(out, ip)
	for i := len(out) - 1; i >= 0 && n > 0; i-- {
		s := int(out[i]) + n
		out[i] = byte(s & 0xff)
		n = s >> 8
	}
	return out
}

// IP maps an abstract address to the concrete one.
func IP(a int) net.IP {
	if a < 100 {
		return addInt(v4base, a)
	}
	return addInt(v6base, a-100)
}

func IPs(as []int) []net.IP {
	out := make([]net.IP, 0, len(as))
	for _, a := range as {
		out = append(out, IP(a))
	}
	return out
}

// Abs maps a concrete address back; addresses outside the domain map to 9000+ (v4) / 9500+ (v6)
// values that belong to no pool of the catalogue.
func Abs(ip net.IP) int {
	if ip == nil {
		return -1
	}
	if v4 := ip.To4(); v4 != nil {
		d := (int(v4[0])<<24 | int(v4[1])<<16 | int(v4[2])<<8 | int(v4[3])) - (192<<24 | 168<<16 | 0<<8 | 254)
		if d >= 0 && d < 100 {
			return d
		}
		return 90
	}
	ip = ip.To16()
	for i := 0; i < 14; i++ {
		if ip[i] != v6base[i] {
			return 950
		}
	}
	d := (int(ip[14])<<8 | int(ip[15])) - (int(v6base[14])<<8 | int(v6base[15]))
	if d >= 0 && d < 100 {
		return 100 + d
	}
	return 950
}

func AbsStr(s string) int { return Abs(net.ParseIP(s)) }

func AbsList(ips []net.IP) []int {
	out := make([]int, 0, len(ips))
	for _, ip := range ips {
		out = append(out, Abs(ip))
	}
	return out
}

// ---------------------------------------------------------------- domain (printed by TLC)

type Cidr struct {
	Cidr  string `json:"cidr"`
	Fam   string `json:"fam"`
	Addrs []int  `json:"addrs"`
}

type PoolAlloc struct {
	Null bool     `json:"null"`
	Prio int      `json:"prio"`
	Nss  []string `json:"nss"`
	Sels []string `json:"sels"`
}

type Pool struct {
	Name  string    `json:"name"`
	Cidrs []Cidr    `json:"cidrs"`
	Avoid bool      `json:"avoid"`
	Auto  bool      `json:"auto"`
	Alloc PoolAlloc `json:"alloc"`
}

type SvcMeta struct {
	Ns    string `json:"ns"`
	Label string `json:"label"`
}

type Domain struct {
	Layouts map[string][]Pool  `json:"layouts"`
	SvcMeta map[string]SvcMeta `json:"svcmeta"`
}

var (
	domOnce sync.Once
	dom     Domain
)

func Dom() *Domain {
	domOnce.Do(func() {
		p := os.Getenv("VERIF_DOMAIN")
		b, err := os.ReadFile(p)
		if err != nil {
			panic("VERIF_DOMAIN: " + err.Error())
		}
		if err := json.Unmarshal(b, &dom); err != nil {
			panic("VERIF_DOMAIN: " + err.Error())
		}
	})
	return &dom
}

// PoolCRs renders a layout of the catalogue as IPAddressPool resources.
func PoolCRs(layout string) []metallbv1beta1.IPAddressPool {
	pools, ok := Dom().Layouts[layout]
	if !ok {
		panic("unknown layout " + layout)
	}
	var out []metallbv1beta1.IPAddressPool
	for _, p := range pools {
		cr := metallbv1beta1.IPAddressPool{ObjectMeta: metav1.ObjectMeta{Name: p.Name, Namespace: "metallb-system"}}
		for _, c := range p.Cidrs {
			cr.Spec.Addresses = append(cr.Spec.Addresses, c.Cidr)
		}
		cr.Spec.AvoidBuggyIPs = p.Avoid
		auto := p.Auto
		cr.Spec.AutoAssign = &auto
		if !p.Alloc.Null {
			at := &metallbv1beta1.ServiceAllocation{Priority: p.Alloc.Prio}
			at.Namespaces = append(at.Namespaces, p.Alloc.Nss...)
			for _, l := range p.Alloc.Sels {
				at.ServiceSelectors = append(at.ServiceSelectors, metav1.LabelSelector{MatchLabels: map[string]string{"app": l}})
			}
			cr.Spec.AllocateTo = at
		}
		out = append(out, cr)
	}
	return out
}

func Namespaces() []corev1.Namespace {
	return []corev1.Namespace{
		{ObjectMeta: metav1.ObjectMeta{Name: "ns1"}},
		{ObjectMeta: metav1.ObjectMeta{Name: "ns2"}},
	}
}

// SvcKey is the namespaced name of an abstract service.
func SvcKey(s string) string { return Dom().SvcMeta[s].Ns + "/" + s }

func SvcOfKey(key string) string {
	if i := strings.IndexByte(key, '/'); i >= 0 {
		return key[i+1:]
	}
	return key
}

// PortName / ParsePort: "tcp80" <-> (TCP, 80)
func ParsePort(p string) (string, int) {
	i := 0
	for i < len(p) && (p[i] < '0' || p[i] > '9') {
		i++
	}
	n, _ := strconv.Atoi(p[i:])
	return strings.ToUpper(p[:i]), n
}

func PortName(proto string, port int) string {
	return strings.ToLower(proto) + strconv.Itoa(port)
}

// ---------------------------------------------------------------- scenarios and observations

type Walk struct {
	ID    string            `json:"id"`
	Init  json.RawMessage   `json:"init"`
	Steps []json.RawMessage `json:"steps"`
}

// ReadWalks reads the scenario file named by VERIF_SCENARIOS (one walk per line).
func ReadWalks() []Walk {
	p := os.Getenv("VERIF_SCENARIOS")
	f, err := os.Open(p)
	if err != nil {
		panic("VERIF_SCENARIOS: " + err.Error())
	}
	defer f.Close()
	var out []Walk
	sc := bufio.NewScanner(f)
	sc.Buffer(make([]byte, 1<<20), 1<<28)
	for sc.Scan() {
		if len(sc.Bytes()) == 0 {
			continue
		}
		var w Walk
		if err := json.Unmarshal(sc.Bytes(), &w); err != nil {
			panic("scenario line: " + err.Error())
		}
		out = append(out, w)
	}
	return out
}

type ObsWriter struct {
	mu sync.Mutex
	f  *os.File
	w  *bufio.Writer
	N  int
}

func NewObsWriter() *ObsWriter {
	p := os.Getenv("VERIF_OBS")
	f, err := os.Create(p)
	if err != nil {
		panic("VERIF_OBS: " + err.Error())
	}
	return &ObsWriter{f: f, w: bufio.NewWriterSize(f, 1<<20)}
}

func (o *ObsWriter) Write(v interface{}) {
	b, err := json.Marshal(v)
	if err != nil {
		panic(err)
	}
	o.mu.Lock()
	o.w.Write(b)
	o.w.WriteByte('\n')
	o.N++
	o.mu.Unlock()
}

// Block collects the lines of one walk so that they are written contiguously.
type Block struct{ lines [][]byte }

func (b *Block) Add(v interface{}) {
	x, err := json.Marshal(v)
	if err != nil {
		panic(err)
	}
	b.lines = append(b.lines, x)
}

func (o *ObsWriter) WriteBlock(b *Block) {
	o.mu.Lock()
	for _, l := range b.lines {
		o.w.Write(l)
		o.w.WriteByte('\n')
		o.N++
	}
	o.mu.Unlock()
}

// ForEachWalk runs fn over the walks on GOMAXPROCS goroutines; each walk's observations are
// written as one contiguous block.
func ForEachWalk(walks []Walk, out *ObsWriter, fn func(w Walk, b *Block)) {
	n := runtime.GOMAXPROCS(0)
	if v := os.Getenv("VERIF_PAR"); v != "" {
		n, _ = strconv.Atoi(v)
	}
	if n < 1 {
		n = 1
	}
	ch := make(chan Walk)
	var wg sync.WaitGroup
	for i := 0; i < n; i++ {
		wg.Add(1)
		go func() {
			defer wg.Done()
			for w := range ch {
				b := &Block{}
				fn(w, b)
				out.WriteBlock(b)
			}
		}()
	}
	for _, w := range walks {
		ch <- w
	}
	close(ch)
	wg.Wait()
}

func (o *ObsWriter) Close() {
	o.w.Flush()
	o.f.Close()
}

// SortedKeys is a helper for deterministic projections.
func SortedKeys[V any](m map[string]V) []string {
	ks := make([]string, 0, len(m))
	for k := range m {
		ks = append(ks, k)
	}
	sort.Strings(ks)
	return ks
}

func Itoa(i int) string { return strconv.Itoa(i) }

func Must(err error) {
	if err != nil {
		panic(fmt.Sprintf("verifkit: %v", err))
	}
}
