"""Listener family (C20, event handlers are atomic): spec/Listener.tla (sequential meaning of
concurrent delivery = the handlers' operators in lock order; event alphabet), spec/ListenerMC.tla
(role A: deliverers + fetchers + the lock), harness/controller/lsn_test.go and
harness/speaker/lsn_test.go (role B: seeded concurrent drivers through the real k8s.Listener into
the real controller / speaker, real status reconcilers as consumers, serial re-execution, built and
run with -race), spec/ListenerTrace.tla (role C).  The race detector, the panic recovery and the
watchdog are monitors on the same executions; their reports are observations judged by
ListenerTrace like the rest."""
import bisect
import concurrent.futures
import json
import os
import random
import re

import vlib

PROPS = ["C20"]

TIERS = {
    "quick": {"runs": {"ctl": 100, "spk": 100}, "events": 200,
              "mc": ["ListenerMC_a.cfg"]},
    "thorough": {"runs": {"ctl": 700, "spk": 700}, "events": 240,
                 "mc": ["ListenerMC_a.cfg", "ListenerMC_b.cfg"]},
}
# role A sanity: configurations that MUST violate the named invariant (the lock removed from the
# model; reachability witnesses)
MC_EXPECT = [("ListenerMC_nolock.cfg", "InvAtomic"), ("ListenerMC_nolock_fetch.cfg", "InvFetch"),
             ("ListenerMC_witfullrun.cfg", "WitFullRun"), ("ListenerMC_witcontention.cfg", "WitContention"),
             ("ListenerMC_witstalefetch.cfg", "WitStaleFetch")]
PKG = {"ctl": "controller", "spk": "speaker"}
TEST = {"ctl": "^TestVerifListenerController$", "spk": "^TestVerifListenerSpeaker$"}
ATTEMPTS = 5
NIL = "nil"


# --------------------------------------------------------------------------- overlay

def kit_files():
    return {"internal/verifkit/kit.go": os.path.join(vlib.HARNESS, "kit", "kit.go"),
            "internal/verifkit/listener.go": os.path.join(vlib.HARNESS, "kit", "listener.go")}


def mapping(side):
    m = kit_files()
    if side == "ctl":
        # lsn_test.go re-uses the concretisation of Services of the controller family's harness
        m["controller/zz_verif_ctrl_test.go"] = os.path.join(vlib.HARNESS, "controller", "ctrl_test.go")
        m["controller/zz_verif_lsn_test.go"] = os.path.join(vlib.HARNESS, "controller", "lsn_test.go")
        m["internal/allocator/zz_verif_export.go"] = os.path.join(vlib.HARNESS, "export", "allocator_export.go")
        m["internal/k8s/controllers/zz_verif_export.go"] = os.path.join(vlib.HARNESS, "export", "controllers_export.go")
    else:
        m["speaker/zz_verif_lsn_test.go"] = os.path.join(vlib.HARNESS, "speaker", "lsn_test.go")
    return m


# --------------------------------------------------------------------------- role A

def role_a(chk):
    for cfg in TIERS[chk.tier]["mc"]:
        res = vlib.tlc(chk.work, "ListenerMC", cfg, workers=8, timeout=1500, want_json=False, heap="10g")
        chk.add_model_run(cfg, res)
        if res.violated:
            print("MODEL-ONLY: %s violates %s in the design model" % (cfg, res.violated))
            chk.notes.append("MODEL-ONLY: %s violates %s" % (cfg, res.violated))
        elif res.error:
            raise vlib.Inconclusive("TLC %s: %s\n%s" % (cfg, res.error, res.out[-1500:]))
        vlib.log("  %s (role A): %d distinct, %d generated, %.1fs" % (cfg, res.distinct, res.generated, res.wall))
    seen = []
    for cfg, inv in MC_EXPECT:
        res = vlib.tlc(chk.work, "ListenerMC", cfg, workers=4, timeout=600, want_json=False)
        if res.violated != inv:
            raise vlib.Inconclusive("role A sanity: %s should violate %s, got violated=%s error=%s\n%s"
                                    % (cfg, inv, res.violated, res.error, res.out[-1200:]))
        seen.append("%s violates %s as expected (%d states)" % (cfg, inv, res.distinct))
    chk.cov["role_a_sanity"] = seen


# --------------------------------------------------------------------------- role B: scenarios

def alphabet(chk):
    res = vlib.tlc(chk.work, "ListenerDump", "ListenerDump.cfg", workers=1, timeout=120)
    if not res.json:
        raise vlib.Inconclusive("ListenerDump produced nothing: " + res.out[-800:])
    return res.json[0]


def weighted(rnd, items):
    tot = sum(w for _, w in items)
    x = rnd.random() * tot
    for v, w in items:
        x -= w
        if x <= 0:
            return v
    return items[-1][0]


def gen_ctl(rnd, alpha, n, events):
    specs = sorted(alpha["specs"], key=vlib.canon)
    layouts = sorted(alpha["layouts"])
    svcs = sorted(alpha["svcs"])

    def svc_ev():
        s = rnd.choice(svcs)
        if rnd.random() < 0.2:
            return {"k": "svc", "s": s}
        return {"k": "svc", "s": s, "spec": rnd.choice(specs), "fate": "fail" if rnd.random() < 0.07 else "ok"}

    def pool_ev():
        return {"k": "pool", "layout": NIL if rnd.random() < 0.06 else rnd.choice(layouts)}

    ndel = rnd.choice([3, 4, 4, 5])
    nfetch = rnd.choice([1, 2, 2, 3])
    npool = max(8, events // 8)
    per = (events - npool) // (ndel - 1)
    steps = [[svc_ev() for _ in range(per)] for _ in range(ndel - 1)]
    steps.append([pool_ev() for _ in range(npool)])
    if rnd.random() < 0.7:      # most runs start with a configuration, some with the no-configuration path
        steps[-1].insert(0, {"k": "pool", "layout": rnd.choice(layouts)})
    return {"id": "c%d" % n, "init": {"fetchers": nfetch, "seed": rnd.randrange(1 << 30), "nilpools": NIL,
                                       "stride": rnd.choice([3, 6, 12])}, "steps": steps}


def gen_spk(rnd, alpha, n, events):
    cfgs = sorted(alpha["configs"])
    svcs = sorted(alpha["svcs"])
    objs = sorted(alpha["objs"], key=vlib.canon)
    nodes = sorted(alpha["nodes"], key=vlib.canon)

    def w_obj(o):       # favour objects that can be announced
        w = 1.0
        if o["ips"]:
            w *= 3
        if any(e["ready"] and e["node"] == "n1" for e in o["eps"]):
            w *= 3
        return w

    def w_node(nd):
        w = 1.0
        if nd["name"] == "n1":
            w *= 1.5
            if not nd["unavail"] and not nd["excl"]:
                w *= 5
        return w

    wobjs = [(o, w_obj(o)) for o in objs]
    wnodes = [(nd, w_node(nd)) for nd in nodes]

    def svc_ev():
        s = rnd.choice(svcs)
        if rnd.random() < 0.12:
            return {"k": "svc", "s": s}
        return {"k": "svc", "s": s, "obj": weighted(rnd, wobjs)}

    def cfg_ev():
        if rnd.random() < 0.05:
            return {"k": "cfg", "cfg": NIL}
        c = weighted(rnd, [(x, 3 if x in ("c1", "c2") else 1) for x in cfgs])
        return {"k": "cfg", "cfg": c, "body": alpha["configs"][c]}

    def node_ev():
        return {"k": "node", "node": weighted(rnd, wnodes)}

    ncfg, nnode = max(6, events // 16), max(8, events // 10)
    nsvc = rnd.choice([2, 2, 3])
    per = (events - ncfg - nnode) // nsvc
    steps = [[svc_ev() for _ in range(per)] for _ in range(nsvc)]
    steps.append([cfg_ev() for _ in range(ncfg)])
    steps.append([node_ev() for _ in range(nnode)])
    if rnd.random() < 0.8:
        c = rnd.choice(["c1", "c2"])
        steps[-2].insert(0, {"k": "cfg", "cfg": c, "body": alpha["configs"][c]})
        steps[-1].insert(0, {"k": "node", "node": {"name": "n1", "rack": rnd.choice(["a", "b"]), "unavail": False, "excl": False}})
    return {"id": "s%d" % n, "init": {"seed": rnd.randrange(1 << 30), "stride": rnd.choice([3, 6, 12]), "nilcfg": NIL,
                                       "l2fetch": rnd.choice([1, 1, 2]), "bgpfetch": rnd.choice([1, 1, 2])}, "steps": steps}


def gen_side(chk, alpha, side, nruns, events):
    rnd = random.Random(chk.seed * 1000003 + (17 if side == "ctl" else 29))
    g = gen_ctl if side == "ctl" else gen_spk
    return [g(rnd, alpha[side], n, events) for n in range(nruns)]


# --------------------------------------------------------------------------- role B: execution and monitors

ACCESS_RE = re.compile(r"^(?:Previous )?((?:atomic )?(?:read|write)) at 0x[0-9a-f]+ by (?:goroutine \d+|main goroutine):", re.I)
FRAME_RE = re.compile(r"^\s+(/\S+\.go):(\d+)(?: \+0x[0-9a-f]+)?\s*$")
FUNC_RE = re.compile(r"^\s*(\S+)\(.*\)\s*$")


def site_of(path, line):
    """Normalised position: '<repo-relative path>:<line>' for repository sources, 'harness' for
    files injected by the overlay, None for everything else (runtime, libraries)."""
    base = os.path.basename(path)
    if base.startswith("zz_verif_") or "/internal/verifkit/" in path or path.startswith(vlib.HARNESS):
        return "harness"
    root = vlib.REPO.rstrip("/") + "/"
    if path.startswith(root):
        rel = path[len(root):]
        if not rel.startswith("vendor/"):
            return "%s:%s" % (rel, line)
    return None


def stack_site(lines):
    """First repository position of a stack (list of text lines); a stack that only touches the
    harness yields 'harness:<function>'."""
    harness = None
    fn = ""
    for l in lines:
        m = FRAME_RE.match(l)
        if m:
            s = site_of(m.group(1), m.group(2))
            if s == "harness":
                harness = harness or ("harness:" + fn.split("/")[-1])
            elif s:
                return s
            continue
        f = FUNC_RE.match(l)
        if f:
            fn = f.group(1)
    return harness or "unknown"


def parse_monitors(out):
    """Race reports and fatal errors of one `go test -race` process."""
    races, fatal = [], []
    blocks = re.split(r"^={18}\s*$", out, flags=re.M)
    for b in blocks:
        if "WARNING: DATA RACE" not in b:
            continue
        acc, cur = [], None
        for l in b.splitlines():
            m = ACCESS_RE.match(l.strip())
            if m:
                cur = {"kind": m.group(1).lower(), "lines": []}
                acc.append(cur)
                continue
            if l.startswith("Goroutine ") or not l.strip():
                if l.startswith("Goroutine "):
                    cur = None
                continue
            if cur is not None:
                cur["lines"].append(l)
        if len(acc) >= 2:
            a = {"site": stack_site(acc[0]["lines"]), "kind": acc[0]["kind"]}
            c = {"site": stack_site(acc[1]["lines"]), "kind": acc[1]["kind"]}
            x, y = sorted([a, c], key=lambda z: (z["site"], z["kind"]))
            races.append({"a": x["site"], "ka": x["kind"], "b": y["site"], "kb": y["kind"]})
    for m in re.finditer(r"^(fatal error: .*|panic: .*)$", out, flags=re.M):
        msg = m.group(1)
        if msg.startswith("panic: ") and "[recovered]" in msg:
            continue
        rest = out[m.end():].splitlines()
        stack, started = [], False
        for l in rest:
            if l.startswith("goroutine "):
                if started:
                    break
                started = True
                continue
            if started:
                stack.append(l)
        cls = re.sub(r"0x[0-9a-f]+|\d+", "N", msg)[:80]
        fatal.append({"msg": cls, "site": stack_site(stack)})
        break
    uniq = []
    for r in races:
        if r not in uniq:
            uniq.append(r)
    return uniq, fatal


def run_side(chk, side, scen, tag, domain_path, watchdog_ms=None):
    """Runs the scenarios of one side in one `go test -race` process; returns (observation lines,
    monitor line, raw output)."""
    d = os.path.join(chk.work, "%s_%s" % (side, tag))
    os.makedirs(d, exist_ok=True)
    spath, opath = os.path.join(d, "scen.ndjson"), os.path.join(d, "obs.ndjson")
    with open(spath, "w") as fh:
        for s in scen:
            fh.write(json.dumps(s) + "\n")
    ov = vlib.overlay_for(mapping(side), d)
    env = {"VERIF_SCENARIOS": spath, "VERIF_OBS": opath, "VERIF_DOMAIN": domain_path, "VERIF_SEED": chk.seed,
           "GORACE": "halt_on_error=0"}
    if watchdog_ms:
        env["VERIF_LSN_WATCHDOG_MS"] = watchdog_ms
    # VERIF_LSN_NORACE=1 (experiments only): without the race detector, to see what the serial-equivalence judge finds alone
    rc, out = vlib.go_test(PKG[side], TEST[side], ov, env, race=os.environ.get("VERIF_LSN_NORACE") != "1", timeout=1500)
    if "panic: test timed out" in out or "verif: " in out and "panic: verif: " in out:
        raise vlib.Inconclusive("%s harness did not finish:\n%s" % (side, out[-2500:]))
    races, fatal = parse_monitors(out)
    lines = []
    if os.path.exists(opath):
        for l in open(opath):
            l = l.strip()
            if l:
                try:
                    json.loads(l)
                except ValueError:
                    continue        # the process died while writing
                lines.append(l)
    if rc != 0 and not races and not fatal:
        raise vlib.Inconclusive("%s harness failed (rc=%s):\n%s" % (side, rc, out[-3000:]))
    if rc == 0 and not lines:
        raise vlib.Inconclusive("%s harness produced no observations:\n%s" % (side, out[-1500:]))
    mon = {"w": "proc-%s-%s" % (side, tag), "side": side, "k": "race", "n": 0, "races": races, "fatal": fatal}
    return lines, mon, out


# --------------------------------------------------------------------------- role C

def judge(chk, lines, tag, chunks=8):
    """ListenerTrace over the observation lines (cut at run boundaries, several TLC processes).
    Returns (fails, drifts) with line numbers relative to `lines` (1-based)."""
    if not lines:
        raise vlib.Inconclusive("no observations")
    per = max(1500, (len(lines) + chunks - 1) // chunks)
    parts, cur, lastw = [], [], None
    for l in lines:
        m = re.search(r'"w":"([^"]*)"', l)
        w = m.group(1) if m else None
        if len(cur) >= per and w != lastw:
            parts.append(cur)
            cur = []
        cur.append(l)
        lastw = w
    if cur:
        parts.append(cur)

    def one(k):
        d = os.path.join(chk.work, "judge_%s_%d" % (tag, k))
        os.makedirs(d, exist_ok=True)
        pth = os.path.join(d, "obs.ndjson")
        with open(pth, "w") as fh:
            fh.write("\n".join(parts[k]) + "\n")
        got, dr, done = [], [], {}

        def sink(o):
            if "fails" in o:
                got.append(o)
            elif "drift" in o:
                dr.append(o)
            elif "done" in o:
                done["n"] = o["done"]

        res = vlib.tlc(d, "ListenerTrace", "ListenerTrace.cfg", workers=1, timeout=1800, extra_files=[pth], json_sink=sink, heap="3g")
        if res.error or res.violated:
            raise vlib.Inconclusive("judge ListenerTrace: %s %s\n%s" % (res.error, res.violated, res.out[-2500:]))
        if done.get("n") != len(parts[k]):
            raise vlib.Inconclusive("judge ListenerTrace consumed %s of %d observation lines\n%s"
                                    % (done.get("n"), len(parts[k]), res.out[-1500:]))
        return got, dr

    fails, drifts = [], []
    with concurrent.futures.ThreadPoolExecutor(max_workers=len(parts)) as ex:
        futs = [ex.submit(one, k) for k in range(len(parts))]
        offs = 0
        for k, f in enumerate(futs):
            got, dr = f.result()
            for g in got:
                g["line"] += offs
                fails.append(g)
            for g in dr:
                g["line"] += offs
                drifts.append(g)
            offs += len(parts[k])
    return fails, drifts


def signature(name, o, extra=None):
    if name == "C20.SerialEquiv":
        return "%s|side=%s|ev=%s" % (name, o["side"], o.get("ev"))
    if name == "C20.FinalState":
        return "%s|side=%s" % (name, o["side"])
    if name == "C20.FetchAtomic":
        return "%s|side=%s|what=%s" % (name, o["side"], o.get("what"))
    if name == "C20.NoCrash":
        sites = sorted(set(p.get("site", "") for p in o.get("panics", [])))
        return "%s|side=%s|site=%s" % (name, o["side"], ",".join(sites))
    if name == "C20.NoDeadlock":
        # goroutines queued on the Listener's own mutex wait for the one that is stuck elsewhere
        sites = [x for x in o.get("sites", []) if not x.startswith("internal/k8s/listener.go:")] or o.get("sites", [])
        return "%s|side=%s|sites=%s" % (name, o["side"], ",".join(sites))
    if name == "C20.NoDataRace":
        return "%s|%s|%s" % (name, extra["a"], extra["b"])
    if name == "C20.NoFatal":
        return "%s|%s|site=%s" % (name, extra["msg"], extra["site"])
    return name


def run_failures(fails, objs):
    """Per run: the first failing line of every run-level predicate."""
    per = {}
    for f in fails:
        o = objs[f["line"] - 1]
        if o["k"] == "race":
            continue
        for name in f["fails"]:
            key = (o["w"], name)
            if key not in per or f["line"] < per[key][0]:
                per[key] = (f["line"], o, f)
    return per


# --------------------------------------------------------------------------- the check

def measure(chk, objs):
    """Coverage counted on the observations of this run."""
    runs = {}
    for o in objs:
        if o["k"] != "race":
            runs.setdefault(o["w"], []).append(o)
    nontrivial = set()
    handoffs = overlaps = nh = nf = 0
    for w, ol in runs.items():
        hs = [o for o in ol if o["k"] == "h"]
        fs = [o for o in ol if o["k"] == "f"]
        nh += len(hs)
        nf += len(fs)
        prev = None
        for h in hs:
            state = h.get("mem") if h["side"] == "ctl" else h.get("snap")
            if prev is not None and prev["who"] != h["who"]:
                handoffs += 1
            pstate = (prev.get("mem") if prev["side"] == "ctl" else prev.get("snap")) if prev is not None else None
            if state != pstate:
                nontrivial.add(vlib.canon([h["side"], h["ev"], h.get("s"), h.get("obj"), h.get("layout"), h.get("cfg"), h.get("node"), pstate]))
            prev = h
        spans = sorted((h["t0"], h["t1"]) for h in hs)
        starts = [s for s, _ in spans]
        for f in fs:
            k = bisect.bisect_left(starts, f["e"]) - 1
            if k >= 0 and spans[k][1] > f["b"]:
                overlaps += 1
    chk.cov["traces_validated_against_impl"] += len(runs)
    chk.cov["evaluations"] += nh + nf
    chk.cov["distinct_nontrivial"] += len(nontrivial)
    chk.cov["handler_steps"] = chk.cov.get("handler_steps", 0) + nh
    chk.cov["fetches"] = chk.cov.get("fetches", 0) + nf
    chk.cov["lock_handoffs_between_deliverers"] = chk.cov.get("lock_handoffs_between_deliverers", 0) + handoffs
    chk.cov["fetches_overlapping_a_handler"] = chk.cov.get("fetches_overlapping_a_handler", 0) + overlaps
    return runs


def execute(chk, scen_by_side, tag, domain_path, watchdog_ms=None):
    """Both sides in parallel; returns (lines, objs, monitor lines)."""
    with concurrent.futures.ThreadPoolExecutor(max_workers=2) as ex:
        futs = {side: ex.submit(run_side, chk, side, scen, tag, domain_path, watchdog_ms)
                for side, scen in scen_by_side.items() if scen}
        res = {side: f.result() for side, f in futs.items()}
    lines, mons = [], []
    for side in sorted(res):
        l, mon, _ = res[side]
        lines += l
        lines.append(json.dumps(mon))
        mons.append(mon)
    return lines, [json.loads(l) for l in lines], mons


def report_monitors(chk, fails, objs, seedinfo):
    """Race reports and fatal errors: each names real accesses and is its own reproduction."""
    for f in fails:
        o = objs[f["line"] - 1]
        if o["k"] != "race":
            continue
        if "C20.NoDataRace" in f["fails"]:
            for r in o["races"]:
                chk.fail(signature("C20.NoDataRace", o, r), "C20.NoDataRace",
                         detail={"race": r, "process": o["w"]},
                         scenario=dict(seedinfo, kind="side", side=o["side"]))
        if "C20.NoFatal" in f["fails"]:
            for r in o["fatal"]:
                chk.fail(signature("C20.NoFatal", o, r), "C20.NoFatal", detail={"fatal": r, "process": o["w"]},
                         scenario=dict(seedinfo, kind="side", side=o["side"]))


def confirm(chk, per, scen_index, domain_path):
    """Run-level failures are re-executed (the same scenario, up to ATTEMPTS times)."""
    reps = {}
    for (w, name), (line, o, f) in sorted(per.items()):
        reps.setdefault(signature(name, o), []).append((w, name, o, f))
    todo = {}
    for sig, lst in reps.items():
        for w, name, o, f in lst[:2]:
            todo.setdefault(w, []).append((sig, name, o, f))
    pending = dict(todo)
    for attempt in range(ATTEMPTS):
        if not pending:
            break
        by_side = {"ctl": [], "spk": []}
        for w in sorted(pending):
            side, sc = scen_index[w]
            by_side[side].append(sc)
        lines, objs, _ = execute(chk, by_side, "confirm%d" % attempt, domain_path)
        fails, _ = judge(chk, lines, "confirm%d" % attempt, chunks=4)
        again = {}
        for (w, name) in run_failures(fails, objs):
            again.setdefault(w, set()).add(name)
        for w in list(pending):
            left = []
            for sig, name, o, f in pending[w]:
                if name in again.get(w, set()):
                    side, sc = scen_index[w]
                    chk.fail(sig, name, detail={"observation": trim(o), "model": f.get("model"), "attempts": attempt + 1},
                             scenario={"family": "listener", "kind": "runs", "side": side, "runs": [sc]})
                else:
                    left.append((sig, name, o, f))
            if left:
                pending[w] = left
            else:
                del pending[w]
    for w, lst in pending.items():
        for sig, name, o, f in lst:
            chk.notes.append("unreproduced in %d attempts: %s run %s line %s" % (ATTEMPTS, sig, w, o.get("n")))


def report_drift(chk, drifts, objs):
    real = [d for d in drifts if d["drift"] != "undecided"]
    und = [d for d in drifts if d["drift"] == "undecided"]
    chk.cov["drift"] = chk.cov.get("drift", 0) + len(real)
    chk.cov["undecided_steps"] = chk.cov.get("undecided_steps", 0) + len(und)
    if real:
        print("DRIFT: %d controller step(s) not explained by Listener!Outcomes but reproduced by the serial re-execution "
              "from the same state (the model lags the code; not a violation), e.g. run %s step %s"
              % (len(real), real[0]["w"], real[0]["step"]))
    if und:
        print("DRIFT: %d controller step(s) not explained by Listener!Outcomes in runs whose serial re-execution had already "
              "parted (undecided, not judged), e.g. run %s step %s" % (len(und), und[0]["w"], und[0]["step"]))
    for d in (real[:2] + und[:1]):
        o = objs[d["line"] - 1]
        chk.notes.append("DRIFT(%s) run %s step %s: observed %s; model predicts %s"
                         % (d["drift"], d["w"], d["step"],
                            json.dumps({k: o.get(k) for k in ("ev", "s", "obj", "layout", "res", "tried", "wok", "wstatus", "wann", "mem")})[:700],
                            json.dumps(d.get("model"))[:500]))


def trim(o):
    s = json.dumps(o)
    return o if len(s) < 4000 else {"truncated": s[:4000]}


def run(chk):
    role_a(chk)
    domain_path, _ = vlib.domain_dump(chk)
    alpha = alphabet(chk)
    t = TIERS[chk.tier]
    scen = {side: gen_side(chk, alpha, side, t["runs"][side], t["events"]) for side in ("ctl", "spk")}
    index = {sc["id"]: (side, sc) for side in scen for sc in scen[side]}
    lines, objs, mons = execute(chk, scen, "main", domain_path)
    fails, drifts = judge(chk, lines, "main")
    vlib.log("  judge ListenerTrace: %d lines, %d failing lines, %d drift lines" % (len(lines), len(fails), len(drifts)))
    runs = measure(chk, objs)
    stalls = [o for o in objs if o["k"] == "mon" and o.get("stall")]
    ferrs = [e for o in objs if o["k"] == "mon" for e in o.get("ferrs", [])]
    if ferrs:
        chk.notes.append("status reconcilers returned errors from the fake API client (not judged): %s" % ferrs[:3])
    report_drift(chk, drifts, objs)
    chk.cov["race_reports"] = sum(len(m["races"]) for m in mons)
    for w in sorted(runs)[:1] + sorted(runs)[-1:]:
        ol = runs[w]
        hs = [o for o in ol if o["k"] == "h"]
        fs = [o for o in ol if o["k"] == "f"]
        mid = len(hs) // 2
        chk.cov["samples"].append({"run": w, "side": ol[0]["side"], "init": trim(ol[0]),
                                   "handler_steps_in_lock_order": [trim({k: v for k, v in h.items() if k != "ser"}) for h in hs[mid:mid + 2]],
                                   "fetches": fs[:2]})
    seedinfo = {"family": "listener", "seed": chk.seed, "tier": chk.tier, "nruns": t["runs"], "events": t["events"]}
    report_monitors(chk, fails, objs, seedinfo)
    per = run_failures(fails, objs)
    if per:
        confirm(chk, per, index, domain_path)
    if stalls and not chk.failures:
        raise vlib.Inconclusive("watchdog expired on %d run(s) whose goroutines were not provably blocked: %s"
                                % (len(stalls), json.dumps(stalls[0])[:600]))
    chk.cov["rule"] = ("every run = 4-8 goroutines delivering a seeded script of Service / pool (controller) or Service / "
                       "configuration / node (speaker) events through the real k8s.Listener wrappers while the real status "
                       "reconcilers fetch counters / layer-2 status / BGP peers, under -race; evaluations = handler invocations + "
                       "fetcher calls judged by ListenerTrace; non-trivial = distinct (side, event with its object, state before) "
                       "among the handler invocations that changed the observed state; lock hand-offs between different "
                       "deliverers and fetches overlapping a handler are counted separately")
    chk.assumptions += [
        "controller side: serial equivalence is judged by replaying the recorded lock order through Listener!Outcomes (Controller!Converge "
        "/ Alloc operators, SetPoolsRes); a step these operators do not explain but which the serial re-execution on a fresh real "
        "controller reproduces from the same state is reported as DRIFT, not as a violation",
        "speaker side: the handlers are not re-modelled; serial equivalence is judged by equality (in TLA+) of every handler result and "
        "state snapshot (announced services, announcer contents, per-peer advertisement sets, peers per service) with a serial "
        "re-execution of the same events in the recorded lock order on a fresh real speaker controller; the BGP session manager is a "
        "recording fake, memberlist is disabled, interfaces that are up are excluded from layer 2 so that no socket is opened",
        "fetcher atomicity: a fetched value must equal a value the item had between the begin and the end of the call; the values are "
        "those observed by the handler goroutine at the change notifications (countersChangedCallback, adsChangedCallback, "
        "onStatusChange), a write counts as possibly visible from the moment its handler entered the critical section; for the layer-2 "
        "status only the length of the returned list is compared (the elements are read by the real reconciler only)",
        "data races, fatal runtime errors, recovered panics and watchdog verdicts are monitor observations on the same executions; a race "
        "report names two real accesses and counts as its own reproduction; the race detector only sees the interleavings that happened",
        "the status write of the controller succeeds or fails as scripted; API conflicts are not modelled here (C06 covers them)",
    ]


def replay(chk, path):
    body = json.load(open(path))
    sc = body["scenario"]
    role_a(chk)
    domain_path, _ = vlib.domain_dump(chk)
    alpha = alphabet(chk)
    if sc.get("kind") == "side":
        saved_seed, saved_tier = chk.seed, chk.tier
        chk.seed, tier = sc["seed"], sc["tier"]
        nruns = sc.get("nruns", TIERS[tier]["runs"])[sc["side"]]
        scen = {sc["side"]: gen_side(chk, alpha, sc["side"], nruns, sc.get("events", TIERS[tier]["events"]))}
        chk.seed = saved_seed
    else:
        scen = {sc["side"]: sc["runs"]}
    wanted = body.get("what")
    for attempt in range(ATTEMPTS):
        lines, objs, mons = execute(chk, scen, "replay%d" % attempt, domain_path)
        fails, drifts = judge(chk, lines, "replay%d" % attempt, chunks=4)
        report_drift(chk, drifts, objs)
        measure(chk, objs)
        report_monitors(chk, fails, objs, {"family": "listener", "seed": sc.get("seed", chk.seed), "tier": sc.get("tier", chk.tier)})
        for (w, name), (line, o, f) in sorted(run_failures(fails, objs).items()):
            chk.fail(signature(name, o), name, detail={"observation": trim(o), "model": f.get("model")}, scenario=sc)
        if any(f["what"] == wanted for f in chk.failures) or not wanted:
            break
    chk.cov["samples"].append({"replayed": sc.get("kind"), "side": sc["side"], "runs": len(scen[sc["side"]])})
