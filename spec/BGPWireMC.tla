----------------------------- MODULE BGPWireMC -----------------------------
(***************************************************************************)
(* C16, roles A and B.                                                      *)
(*                                                                          *)
(* Role B: TLC enumerates the bounded input space - one initial state per   *)
(* input - and prints every input as one JSON line (invariant Emit):        *)
(*   Mode = "writer": parameters for sendOpen / sendUpdate / sendWithdraw / *)
(*                    sendKeepalive                                         *)
(*   Mode = "history": sequences of 2..4 sends on one process/connection,   *)
(*                    mixing valid sends, sends the writer must refuse and  *)
(*                    sends whose connection fails after k octets           *)
(*   Mode = "reader": octet strings for readOpen: OPEN messages from the    *)
(*                    grammar, their mutations, other message types, and    *)
(*                    pseudo-random strings derived from Seed               *)
(* Role A: on the same states TLC checks the design of the specification    *)
(* itself: a straightforward RFC writer (Encode) read back by the reader of *)
(* BGPWire gives Intended(p) (WriterDesign); the abstract OPEN reader       *)
(* returns, for every grammar-generated OPEN, the values the message was    *)
(* built from, and never allows more octets than the stream has             *)
(* (ReaderDesign).                                                          *)
(***************************************************************************)
EXTENDS BGPWire, Integers, Json, TLC

CONSTANTS Mode,    \* "writer" | "history" | "reader"
          Tier,    \* "quick" | "thorough"
          Seed     \* 0..65520, derived from VERIF_SEED by the driver

VARIABLE inp

----------------------------------------------------------------------------
(* pseudo-random octets: x -> 75x + 74 mod 65537, all products < 2^31       *)
Step(x) == (x * 75 + 74) % 65537
Stream(k) == Step(Step(Step((Seed * 31 + k * 17 + 1) % 65537)))
RECURSIVE RandBytes(_, _)
RandBytes(x, n) == IF n = 0 THEN <<>> ELSE LET y == Step(x) IN <<y % 256>> \o RandBytes(y, n - 1)
Pick(seq, r) == seq[(r % Len(seq)) + 1]

----------------------------------------------------------------------------
(* the reference writer                                                     *)
Header(type, body) == Marker \o B16(19 + Len(body)) \o <<type>> \o body
KA == Header(4, <<>>)
Param(t, v) == <<t, Len(v)>> \o v
CapMP(afi, res, safi) == <<1, 4>> \o B16(afi) \o <<res, safi>>
CapFB(asn) == <<65, 4>> \o asn
OpenMsg(version, as16, hold, rid, params) ==
  Header(1, <<version>> \o as16 \o B16(hold) \o rid \o <<Len(params)>> \o params)

RECURSIVE Concat(_)
Concat(ss) == IF ss = <<>> THEN <<>> ELSE Head(ss) \o Concat(Tail(ss))

Attr(flags, type, val) ==
  IF Len(val) > 255 THEN <<flags + 16, type>> \o B16(Len(val)) \o val ELSE <<flags, type, Len(val)>> \o val
EncPrefix(x) == <<x.plen>> \o Sub(x.addr, 1, CeilDiv8(x.plen))

EncodeOpen(p) ==
  OpenMsg(4, IF Above16(p.asn) THEN ASTRANS ELSE Low16(p.asn), p.hold, p.rid,
          Param(2, CapMP(1, 0, 1) \o CapMP(2, 0, 1) \o CapFB(p.asn)))

EncodeUpdate(p) ==
  LET path == IF p.ibgp THEN <<>> ELSE <<2, 1>> \o AsnWire(p.asn, Width(p))
      attrs == Attr(64, 1, <<0>>) \o Attr(64, 2, path) \o Attr(64, 3, p.nh)
               \o (IF p.ibgp THEN Attr(64, 5, p.lp) ELSE <<>>)
               \o (IF p.comms # <<>> THEN Attr(192, 8, Concat([k \in DOMAIN p.comms |-> CommWire(p.comms[k])])) ELSE <<>>)
  IN Header(2, B16(0) \o B16(Len(attrs)) \o attrs \o EncPrefix(p))

EncodeWithdraw(p) ==
  LET w == Concat([k \in DOMAIN p.prefixes |-> EncPrefix(p.prefixes[k])])
  IN Header(2, B16(Len(w)) \o w \o B16(0))

Encode(p) ==
  CASE p.kind = "open" -> EncodeOpen(p)
    [] p.kind = "update" -> EncodeUpdate(p)
    [] p.kind = "withdraw" -> EncodeWithdraw(p)
    [] OTHER -> KA

----------------------------------------------------------------------------
(* writer domain.  TLC evaluates every zero-arity constant definition at    *)
(* start-up whether it is used or not, so the large sets take a (dummy)     *)
(* parameter: only the set of the selected Mode/Tier is ever built.         *)
A1     == <<0, 0, 0, 1>>
A65534 == <<0, 0, 255, 254>>
A65535 == <<0, 0, 255, 255>>
A65536 == <<0, 1, 0, 0>>
A42    == <<250, 86, 234, 0>>                 \* 4 200 000 000
ASNs   == {A1, A65534, A65535, A65536, A42}

AddrOnes == <<255, 255, 255, 255>>
AddrAlt  == <<170, 85, 170, 85>>
AddrRand == RandBytes(Stream(1), 4)
Addrs    == {AddrOnes, AddrAlt, AddrRand}

NextHops == {<<10, 20, 30, 40>>, <<255, 0, 128, 1>>}
LocalPrefs == {<<0, 0, 0, 0>>, <<0, 0, 0, 100>>, <<128, 0, 0, 0>>, <<255, 255, 255, 255>>}
Holds == {0, 3, 90, 180, 65535}
RouterIds == {<<1, 2, 3, 4>>, <<255, 255, 255, 255>>, <<10, 0, 0, 1>>, RandBytes(Stream(2), 4)}

Comm(k) == CASE k = 1 -> <<64512 + (Seed % 1000), 258>>
             [] k = 2 -> <<65535, 65535>>
             [] k = 3 -> <<0, 0>>
             [] k = 4 -> <<65535, 0>>
             [] k = 5 -> <<0, 65535>>
             [] k = 6 -> <<255, 256>>
             [] OTHER -> <<(k * 1031 + Seed) % 65536, 65535 - k * 257>>
Comms(n) == [k \in 1..n |-> Comm(k)]
CommCounts == {0, 1, 2, 62, 63}

Upd(plen, addr, ipform, asn, ibgp, fbasn, nh, lp, nc) ==
  [kind |-> "update", plen |-> plen, addr |-> addr, ipform |-> ipform, asn |-> asn, ibgp |-> ibgp,
   fbasn |-> fbasn, nh |-> nh, lp |-> lp, comms |-> Comms(nc)]
Pfx(plen, addr, ipform) == [plen |-> plen, addr |-> addr, ipform |-> ipform]

UpdatesFull(tier_) ==
  {Upd(pl, ad, f, a, ib, fb, nh, lp, nc) :
     pl \in 0..32, ad \in Addrs, f \in {4, 16}, a \in ASNs, ib \in BOOLEAN, fb \in BOOLEAN,
     nh \in NextHops, lp \in LocalPrefs \ {<<0, 0, 0, 0>>}, nc \in CommCounts}

(* quick: a sweep of the prefix encoder and a sweep of the attribute encoder *)
UpdatesQuick(tier_) ==
  {Upd(pl, ad, f, A42, ib, TRUE, <<10, 20, 30, 40>>, <<0, 0, 0, 100>>, nc) :
     pl \in 0..32, ad \in Addrs, f \in {4, 16}, ib \in BOOLEAN, nc \in {0, 2}}
  \cup
  {Upd(pl, AddrRand, 4, a, ib, fb, nh, lp, nc) :
     pl \in {0, 7, 24, 32}, a \in ASNs, ib \in BOOLEAN, fb \in BOOLEAN, nh \in NextHops,
     lp \in LocalPrefs \ {<<0, 0, 0, 100>>}, nc \in CommCounts}

WdrSingles == {[kind |-> "withdraw", prefixes |-> <<Pfx(pl, ad, f)>>] : pl \in 0..32, ad \in Addrs, f \in {4, 16}}
EdgeLens == {0, 1, 8, 9, 24, 31, 32}
WdrMulti(lens) ==
  {[kind |-> "withdraw", prefixes |-> <<Pfx(a, AddrOnes, 4), Pfx(b, AddrAlt, 16)>>] :
     a \in lens, b \in {x \in lens : x # 0}}
  \cup
  {[kind |-> "withdraw", prefixes |-> <<Pfx(a, AddrRand, 4), Pfx(b, AddrOnes, 4), Pfx(c, AddrAlt, 4)>>] :
     a \in {0, 17}, b \in {x \in lens : x > 0}, c \in {12, 32}}

Opens == {[kind |-> "open", asn |-> a, hold |-> h, rid |-> r] : a \in ASNs, h \in Holds, r \in RouterIds}

WriterInputs(tier_) ==
  (IF Tier = "quick" THEN UpdatesQuick(Tier) ELSE UpdatesFull(Tier) \cup UpdatesQuick(Tier))
  \cup WdrSingles \cup WdrMulti(IF Tier = "quick" THEN EdgeLens ELSE 0..32)
  \cup Opens \cup {[kind |-> "keepalive"]}

----------------------------------------------------------------------------
(* reader domain: OPEN messages from the grammar                            *)
MP4c == CapMP(1, 0, 1)
MP6c == CapMP(2, 0, 1)
MPXc == CapMP(1, 0, 2)          \* IPv4 multicast: neither family of interest
MPRc == CapMP(1, 7, 1)          \* reserved octet not zero
RRc  == <<2, 0>>                \* route refresh
UNKc == <<70, 3, 1, 2, 3>>      \* unassigned capability code
UNK1c == <<71, 1, 65>>          \* another one, one octet of payload (which looks like a capability code)
GRc  == <<64, 2, 0, 120>>       \* graceful restart
FB2c == <<65, 2, 0, 1>>         \* capability 65 with a wrong length
MP3c == <<1, 3, 0, 1, 1>>       \* capability 1 with a wrong length

CapAlphabet ==
  IF Tier = "quick" THEN {MP4c, MP6c, CapFB(A65536), CapFB(A42), RRc, UNKc, UNK1c}
  ELSE {MP4c, MP6c, CapFB(A65536), CapFB(A42), RRc, UNKc, UNK1c, MPXc, MPRc, CapFB(A1), GRc, FB2c, MP3c}
MaxCaps == 3
CapLists(tier_) == UNION {[1..m -> CapAlphabet] : m \in 0..MaxCaps}

Pack(caps, how) ==
  CASE how = "none" -> <<>>
    [] how = "one" -> Param(2, Concat(caps))
    [] OTHER -> Concat([k \in DOMAIN caps |-> Param(2, caps[k])])

Gen(version, as16, hold, rid, caps, how, pre) ==
  [version |-> version, as16 |-> as16, hold |-> hold, rid |-> rid, caps |-> caps, how |-> how, pre |-> pre]
GenMsg(g) == OpenMsg(g.version, g.as16, g.hold, g.rid, g.pre \o Pack(g.caps, g.how))

RidA == <<192, 0, 2, 1>>
GenBases(tier_) ==
  {Gen(4, ASTRANS, 90, RidA, cl, how, <<>>) : cl \in CapLists(Tier), how \in {"one", "each"}}
  \cup {Gen(4, B16(65001), 180, RidA, <<>>, "none", <<>>)}
  \cup {Gen(v, a, h, RidA, cl, "one", <<>>) :
          v \in {3, 4, 5}, a \in {B16(1), B16(65534), B16(65535), ASTRANS}, h \in {0, 1, 2, 3, 90, 65535},
          cl \in {<<>>, <<CapFB(A65536)>>, <<MP4c, MP6c, CapFB(A42)>>}}
  \* an optional parameter that is not "capabilities" (1 = authentication, deprecated; 255 = RFC 9072)
  \cup {Gen(4, B16(65001), 90, RidA, <<MP4c>>, "one", pre) : pre \in {Param(1, <<9, 9>>), Param(255, <<>>), Param(3, <<1>>)}}
  \cup {Gen(4, B16(65001), 90, r, <<MP4c>>, "one", <<>>) : r \in {<<0, 0, 0, 0>>, <<255, 255, 255, 255>>}}

(* what a grammar-built OPEN says, derived from its structure (not from its octets) *)
GenFB(g) == {Drop(g.caps[k], 2) : k \in {j \in DOMAIN g.caps : g.caps[j][1] = 65}}
GenExpect(g) ==
  IF g.version # 4 THEN Rej("version")
  ELSE IF g.hold \in {1, 2} THEN Rej("hold-time")
  ELSE IF g.pre # <<>> THEN Free("unsupported-optional-parameter")
  ELSE IF \E k \in DOMAIN g.caps : g.caps[k] \in {FB2c, MP3c} THEN Rej("capability-length")
  ELSE IF Cardinality(GenFB(g)) > 1 THEN Free("conflicting-capability-65")
  ELSE IF \E k \in DOMAIN g.caps : g.caps[k] = MPRc THEN Free("capability-1-reserved-octet")
  ELSE IF g.rid = <<0, 0, 0, 0>> THEN Free("identifier-zero")
  ELSE [class |-> "accept",
        asn |-> IF GenFB(g) = {} THEN <<0, 0>> \o g.as16 ELSE CHOOSE v \in GenFB(g) : TRUE,
        hold |-> g.hold,
        mp4 |-> \E k \in DOMAIN g.caps : g.caps[k] = MP4c,
        mp6 |-> \E k \in DOMAIN g.caps : g.caps[k] = MP6c,
        fbasn |-> GenFB(g) # {}]

Tails == {<<>>, KA}
Rd(stream, chunk, tag) == [kind |-> "read", stream |-> stream, chunk |-> chunk, tag |-> tag]

BaseInputs(tier_) ==
  {[kind |-> "read", stream |-> GenMsg(g) \o t, chunk |-> c, tag |-> "grammar", gen |-> g] :
     g \in GenBases(Tier), t \in Tails, c \in {0}}
  \cup
  {[kind |-> "read", stream |-> GenMsg(g) \o KA, chunk |-> c, tag |-> "grammar-short-reads", gen |-> g] :
     g \in {x \in GenBases(Tier) : Len(x.caps) <= 1}, c \in {1, 3}}

----------------------------------------------------------------------------
(* mutations                                                                *)
SetByte(m, q, v) == [m EXCEPT ![q] = v]
SetHdrLen(m, n) == [m EXCEPT ![17] = n \div 256, ![18] = n % 256]

(* start positions of the (type, length, value) items laid out in m[from..to] *)
RECURSIVE TLVStarts(_, _, _)
TLVStarts(m, from, to) ==
  IF from + 1 > to THEN {} ELSE {from} \cup TLVStarts(m, from + 2 + m[from + 1], to)

ParamStarts(m) == TLVStarts(m, 30, Len(m))
CapStarts(m) == UNION {TLVStarts(m, q + 2, MinN(Len(m), q + 1 + m[q + 1])) : q \in {x \in ParamStarts(m) : m[x] = 2}}
LenPositions(m) == {29} \cup {q + 1 : q \in ParamStarts(m) \cup CapStarts(m)}
CodePositions(m) == ParamStarts(m) \cup CapStarts(m)
Boundaries(m) == {0, 1, 15, 16, 17, 18, 19, 20, 22, 24, 28, 29} \cup {q - 1 : q \in CodePositions(m)}
                  \cup {q : q \in CodePositions(m)} \cup {q + 1 : q \in CodePositions(m)}

MutBases ==
  {OpenMsg(4, B16(65001), 180, RidA, <<>>),                                               \* minimal, 29 octets
   OpenMsg(4, ASTRANS, 90, RidA, Param(2, MP4c \o MP6c \o CapFB(A42))),                   \* what metallb itself sends
   OpenMsg(4, ASTRANS, 90, RidA, Param(2, CapFB(A65536)) \o Param(2, MP4c)),
   OpenMsg(4, B16(65001), 90, RidA, Param(2, RRc \o UNKc \o CapFB(A42)))}
  \cup (IF Tier = "quick" THEN {} ELSE
        {OpenMsg(4, ASTRANS, 90, RidA, Param(2, RRc)),                                    \* 33 octets
         OpenMsg(4, ASTRANS, 90, RidA, Param(2, <<>>)),                                   \* 31 octets
         OpenMsg(4, B16(64512), 3, RidA, Param(2, MP6c) \o Param(2, GRc) \o Param(2, CapFB(A1)) \o Param(2, MP4c))})

Mutations(m) ==
  LET L == Len(m) IN
  {[s |-> SubSeq(m, 1, n), tag |-> "truncate"] : n \in {x \in Boundaries(m) : x < L} \cup (IF Tier = "quick" THEN {} ELSE 0..(L - 1))}
  \cup {[s |-> SetHdrLen(m, n), tag |-> "header-length"] : n \in {L - 1, L + 1, L - 8, L + 19, 19, 28, 29, 36, 37, 4096, 4097, 65535}}
  \cup {[s |-> SetByte(m, q, m[q] + 1), tag |-> "length+1"] : q \in {x \in LenPositions(m) : m[x] < 255}}
  \cup {[s |-> SetByte(m, q, m[q] - 1), tag |-> "length-1"] : q \in {x \in LenPositions(m) : m[x] > 0}}
  \cup {[s |-> SetHdrLen(SetByte(m, 29, m[29] + 1), L + 1) \o <<0>>, tag |-> "grow-1"],
        [s |-> SetHdrLen(SetByte(m, 29, m[29] + 2), L + 2) \o <<2, 0>>, tag |-> "grow-empty-capabilities"],
        [s |-> SetHdrLen(SetByte(m, 29, m[29] + 4), L + 4) \o <<2, 2, 99, 0>>, tag |-> "grow-unknown-capability"],
        [s |-> SetHdrLen(SetByte(m, 29, m[29] + 2), L + 2) \o <<77, 0>>, tag |-> "grow-unknown-parameter"],
        [s |-> SetHdrLen(m, L + 3) \o <<1, 2, 3>>, tag |-> "body-longer-than-optlen"]}
  \cup {[s |-> SetByte(m, q, v), tag |-> "code"] : q \in CodePositions(m), v \in {0, 1, 2, 3, 65, 255}}
  \cup UNION {{[s |-> SetByte(m, q, v), tag |-> "octet"] :
                  v \in {0, 255, (m[q] + 1) % 256, (m[q] + 255) % 256} \cup (IF Tier = "quick" THEN {} ELSE {1, 2, 4, 128})}
               : q \in 1..L}

MutInputs(tier_) == UNION {{Rd(x.s \o t, 0, x.tag) : x \in Mutations(m), t \in Tails} : m \in MutBases}

(* other message types where an OPEN is expected, and OPEN headers with odd lengths *)
NotifBody == <<6, 2, 77, 78, 79, 80>>
OtherInputs ==
  {Rd(Marker \o B16(L) \o <<3>> \o SubSeq(NotifBody, 1, n) \o t, 0, "notification") :
     L \in {0, 18, 19, 20, 21, 22, 25}, n \in {0, 1, 2, 3, 6}, t \in Tails \cup {<<1>>, <<1, 2>>, <<1, 2, 3>>}}
  \cup {Rd(Marker \o B16(L) \o <<ty>> \o t, 0, "other-type") : L \in {19, 23}, ty \in {0, 2, 4, 5, 255}, t \in Tails \cup {<<0, 0, 0, 0>>}}
  \cup {Rd(Marker \o B16(L) \o <<1>> \o t, c, "open-header-only") :
          L \in {0, 18, 19, 20, 28, 29, 36, 37, 4096, 4097, 65535}, t \in Tails \cup {<<4>>}, c \in {0, 1}}

(* pseudo-random strings, five shapes                                       *)
RECURSIVE RandCaps(_, _)
RandCaps(x, m) ==
  IF m = 0 THEN <<>>
  ELSE LET a == Step(x)  b == Step(a)  c == Step(b)
           code == Pick(<<1, 1, 65, 65, 2, 70, 64, a % 256>>, b)
           ln == IF code \in {1, 65} THEN Pick(<<4, 4, 4, 4, 4, 3, 5, 0>>, c) ELSE Pick(<<0, 0, 2, 4, 6, 3>>, c)
           val == IF code = 1 /\ ln = 4
                  THEN Pick(<< <<0, 1, 0, 1>>, <<0, 2, 0, 1>>, <<0, 1, 0, 2>>, <<0, 2, 0, 1>>, RandBytes(c, 4) >>, a)
                  ELSE RandBytes(c, ln)
       IN <<code, ln>> \o val \o RandCaps(Step(c), m - 1)

RandStream(k) ==
  LET x == Stream(k)  y == Step(x)  z == Step(y)
      n == y % 48
      body == RandBytes(z, n)
      fixed == <<4>> \o Pick(<<B16(1), B16(65535), ASTRANS, RandBytes(z, 2)>>, y) \o B16(Pick(<<0, 3, 90, 65535, 1, 180>>, z)) \o RidA
      tail == IF (z \div 7) % 2 = 0 THEN <<>> ELSE KA
  IN CASE k % 5 = 0 -> RandBytes(x, y % 64)
       [] k % 5 = 1 -> Marker \o body \o tail
       [] k % 5 = 2 -> Marker \o B16(MaxN(0, 19 + n + Pick(<<0, 0, 0, 1, -1, 2, -2, 7, -19>>, z))) \o <<Pick(<<1, 1, 1, 1, 3, 2, 4, 0>>, y)>> \o body \o tail
       [] k % 5 = 3 -> Header(1, fixed \o <<n>> \o body) \o tail
       [] OTHER -> LET caps == RandCaps(z, 1 + (y % 4)) IN
                   IF y % 3 = 0 THEN Header(1, fixed \o <<Len(caps) + 2>> \o Param(2, caps)) \o tail
                   ELSE Header(1, fixed \o <<Len(caps) + 4>> \o Param(2, SubSeq(caps, 1, MinN(6, Len(caps)))) \o Param(2, Drop(caps, MinN(6, Len(caps))))) \o tail

NRand == IF Tier = "quick" THEN 800 ELSE 20000
RandInputs(tier_) == {Rd(RandStream(k), 0, "random") : k \in 1..NRand}

ReaderInputs(tier_) == BaseInputs(Tier) \cup MutInputs(Tier) \cup OtherInputs \cup RandInputs(Tier)

----------------------------------------------------------------------------
(* writer histories: what one send leaves behind must not reach the next    *)
(* a step = the parameters of one send + failat (the connection accepts     *)
(* that many octets of this call, then fails; -1 = never) + expect          *)
(* ("refusable": the writer may return an error instead of a message)       *)
St(p, failat, expect) ==
  [x \in DOMAIN p \cup {"failat", "expect"} |->
     IF x = "failat" THEN failat ELSE IF x = "expect" THEN expect ELSE p[x]]

HNh == <<10, 20, 30, 40>>
HU1 == Upd(24, AddrAlt, 4, A42, TRUE, TRUE, HNh, <<0, 0, 0, 100>>, 2)
HU2 == Upd(17, AddrRand, 16, A65534, FALSE, TRUE, <<255, 0, 128, 1>>, <<0, 0, 0, 0>>, 0)
HU3 == Upd(32, AddrOnes, 4, A1, FALSE, FALSE, HNh, <<0, 0, 0, 7>>, 63)
HW1 == [kind |-> "withdraw", prefixes |-> <<Pfx(24, AddrAlt, 4)>>]
HW2 == [kind |-> "withdraw", prefixes |-> <<Pfx(9, AddrOnes, 4), Pfx(32, AddrRand, 16)>>]
HK  == [kind |-> "keepalive"]
(* sends the encoder refuses after it has started assembling the message:   *)
(* a large community (RFC 8092, "large:g:l1:l2" - three numbers) which the  *)
(* native writer cannot encode, 64 communities (256 octets: needs the       *)
(* extended-length form), own ASN above 65535 towards a 2-octet peer        *)
HUL  == [HU1 EXCEPT !.comms = <<Comm(1), <<64512, 1, 2>>, Comm(2)>>]
HU64 == [HU1 EXCEPT !.comms = Comms(64)]
HUC  == Upd(24, AddrAlt, 4, A65536, FALSE, FALSE, HNh, <<0, 0, 0, 100>>, 1)

HValid == {St(p, -1, "ok") : p \in {HU1, HU2, HW1, HW2, HK}}
HRefuse == {St(p, -1, "refusable") : p \in {HUL, HU64, HUC}}
HFail == {St(HU1, k, "ok") : k \in {0, 1, 19, 40}} \cup {St(HW1, k, "ok") : k \in {0, 20, 23}}
         \cup {St(HK, k, "ok") : k \in {0, 10}} \cup {St(HU2, 22, "ok")}
HDisturb == HRefuse \cup HFail
HAll == HValid \cup HDisturb \cup {St(HU3, -1, "ok"), St(HU3, 300, "ok"), St(HUL, 30, "refusable")}
HSmall == HValid \cup {St(HUL, -1, "refusable"), St(HU64, -1, "refusable"), St(HU1, 40, "ok"), St(HW1, 20, "ok")}

Hist(steps) == [kind |-> "history", steps |-> steps]
HistoryInputs(tier_) ==
  {Hist(<<d, v>>) : d \in HDisturb, v \in HValid}
  \cup {Hist(<<v, d, w>>) : v \in HValid, d \in HDisturb, w \in HValid}
  \cup {Hist(<<d, v, w>>) : d \in HDisturb, v \in HValid, w \in HValid}
  \cup {Hist(<<d, e, v>>) : d \in HDisturb, e \in HDisturb, v \in HValid}
  \cup {Hist(<<v, w>>) : v \in HValid, w \in HValid}
  \cup (IF Tier = "quick" THEN {} ELSE
        {Hist(<<a, b>>) : a \in HAll, b \in HAll}
        \cup {Hist(<<a, b, c>>) : a \in HAll, b \in HAll, c \in HAll}
        \cup {Hist(<<a, b, c, d>>) : a \in HSmall, b \in HSmall, c \in HSmall, d \in HSmall})

(* a step whose success can be judged: Intended is defined for it           *)
Judgeable(p) == p.kind # "update" \/ \A k \in DOMAIN p.comms : Len(p.comms[k]) = 2

----------------------------------------------------------------------------
Inputs == CASE Mode = "writer" -> WriterInputs(Tier)
            [] Mode = "history" -> HistoryInputs(Tier)
            [] OTHER -> ReaderInputs(Tier)

Init == inp \in Inputs
Next == FALSE /\ inp' = inp

(* role B: one JSON line per input                                          *)
Emit == PrintT(ToJson(inp))

(* role A                                                                   *)
DesignOK(p) ==
  LET b == Encode(p)  w == WidthOf(p)  d == Decode(b) IN
  /\ WellFormed(d, w)
  /\ Content(d, w) = Intended(p)
  /\ Len(b) = HdrLen(b)

WriterDesign == (inp.kind \notin {"read", "history"}) => DesignOK(inp)

(* every judgeable step of a history has a defined intended message (incl.  *)
(* the 64-community UPDATE, which needs the extended-length attribute form) *)
(* and every history of the quick tier offers something to judge            *)
HistoryDesign ==
  (inp.kind = "history") =>
     /\ \A k \in DOMAIN inp.steps : Judgeable(inp.steps[k]) => DesignOK(inp.steps[k])
     /\ (Tier = "quick") => \E k \in DOMAIN inp.steps : Judgeable(inp.steps[k]) /\ inp.steps[k].failat = -1

ReaderDesign ==
  (inp.kind = "read") =>
     /\ IsBytes(inp.stream)
     /\ Allowed(inp.stream) <= Len(inp.stream)
     /\ OpenReader(inp.stream).class \in {"accept", "reject", "free"}
     /\ ("gen" \in DOMAIN inp) =>
           LET r == OpenReader(inp.stream)  e == GenExpect(inp.gen) IN
           /\ r.class = e.class
           /\ (e.class = "accept" => r = e)
           /\ Allowed(inp.stream) = Len(GenMsg(inp.gen))
=============================================================================
