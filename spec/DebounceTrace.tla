---------------------------- MODULE DebounceTrace ----------------------------
(***************************************************************************)
(* Role C for C19: the histories recorded by the Go harnesses (real        *)
(* `debouncer` of internal/bgp/frr, real session manager wiring, real      *)
(* FRRK8sReconciler + debouncer of internal/k8s/controllers) are validated *)
(* against spec/Debounce.tla.                                              *)
(*                                                                         *)
(* One run = the lines  R  (SB | SE | B | BE)*  Q  E  in the order of the  *)
(* run's atomic sequence numbers:                                          *)
(*   R         header, field v = "frr" | "k8s"                             *)
(*   SB p c    submitter p enters its call with configuration c            *)
(*             (c = -1: re-apply request / poke; c = -2: a submission that *)
(*             the submitter itself rejects; otherwise c is the identity   *)
(*             of the configuration the harness asked for, computed by the *)
(*             harness from its own inputs)                                *)
(*   SE p      the call returned                                           *)
(*   B c       the reload action was entered with configuration c          *)
(*   BE ok     it returned                                                 *)
(*   Q quiet   the harness saw no event for `beats` timer periods          *)
(*   E         end of the run                                              *)
(* (the lines also carry seq, k, g, ts, t, err, disturbed: bookkeeping and  *)
(* diagnostics of the driver, not read here).                               *)
(* The moment a submission takes effect is not logged: it lies somewhere   *)
(* between SB and SE, and TLC searches the placement (action Place).  No   *)
(* time stamp is read: whatever interleaving happened is what is judged.   *)
(*                                                                         *)
(* For every placement that explains the run up to E one line              *)
(* [w, fails, drift] is printed; the driver takes, per run, the placement  *)
(* with the fewest failing predicates (a run passes iff some placement     *)
(* fails none).  `drift` = the detailed model could not make that step;    *)
(* it is reported, never judged.                                           *)
(***************************************************************************)
EXTENDS Debounce, Sequences, TLC, Json

Trace == ndJsonDeserialize("obs.ndjson")
N == Len(Trace)

Ps == {"u", "v"}

VARIABLES i,      \* next line to consume
          s,      \* record of Debounce.tla
          tp,     \* [Ps -> NONE | c | OLD]: begun, effect not yet placed
          inp,    \* submitters inside their call
          fails,  \* failing predicate names of this placement
          drift

vars == <<i, s, tp, inp, fails, drift>>

Fresh(v) == /\ s' = S0(v)
            /\ tp' = [p \in Ps |-> NONE]
            /\ inp' = {}
            /\ fails' = {}
            /\ drift' = FALSE

Init == /\ i = 1
        /\ s = S0("frr")
        /\ tp = [p \in Ps |-> NONE]
        /\ inp = {}
        /\ fails = {}
        /\ drift = FALSE

(* the unlogged step: the submission of p takes effect now *)
Place(p) ==
  /\ tp[p] # NONE
  /\ s' = AnyEff(s, tp[p])
  /\ drift' = (drift \/ ~EffectAllowed(s, tp[p]))
  /\ tp' = [tp EXCEPT ![p] = NONE]
  /\ UNCHANGED <<i, inp, fails>>

Consume ==
  /\ i <= N
  /\ LET e == Trace[i] IN
     /\ i' = i + 1
     /\ CASE e.ev = "R"  -> Fresh(e.v)
          [] e.ev = "SB" -> /\ tp' = [tp EXCEPT ![e.p] = e.c]
                            /\ inp' = inp \cup {e.p}
                            /\ UNCHANGED <<s, fails, drift>>
          [] e.ev = "SE" -> /\ tp[e.p] = NONE          \* its effect has been placed
                            /\ inp' = inp \ {e.p}
                            /\ UNCHANGED <<s, tp, fails, drift>>
          [] e.ev = "B"  -> /\ s' = BodyBegin(s, e.c)
                            /\ fails' = fails \cup BodyFails(s, e.c)
                            /\ drift' = (drift \/ ~Explains(s, e.c))
                            /\ UNCHANGED <<tp, inp>>
          [] e.ev = "BE" -> /\ s' = BodyEnd(s, e.ok)
                            /\ UNCHANGED <<tp, inp, fails, drift>>
          [] e.ev = "Q"  -> /\ fails' = (IF e.quiet THEN fails \cup QuietFails(s, inp) ELSE fails)
                            /\ drift' = (drift \/ (e.quiet /\ ~QuietExplained(s)))
                            /\ UNCHANGED <<s, tp, inp>>
          [] e.ev = "E"  -> /\ PrintT(ToJson([w |-> e.w, fails |-> fails, drift |-> drift, line |-> i]))
                            /\ Fresh(s.v)
          [] OTHER       -> /\ Assert(FALSE, <<"unknown event", e>>)
                            /\ UNCHANGED <<s, tp, inp, fails, drift>>

Next == Consume \/ \E p \in Ps : Place(p)

Spec == Init /\ [][Next]_vars

(* every line was consumed by at least one placement of every run *)
Done == i <= N \/ PrintT(ToJson([done |-> N]))
=============================================================================
