------------------------------ MODULE ConfigLoad ------------------------------
(***************************************************************************)
(* C18 - configuration loading is deterministic and independent of the      *)
(* listing order.                                                           *)
(*                                                                         *)
(* The loader is modelled the way the code is structured: every listed kind *)
(* is copied and sorted by name (sortedCopy: Go's sort.Slice is an          *)
(* insertion sort for <= 12 elements), then parsed in that order; the       *)
(* reconciler keeps the last applied value and calls the handler iff the    *)
(* new value differs.  The configuration must be a function of the SET of   *)
(* resources.                                                               *)
(*                                                                         *)
(* Objects are identified by their rank in name order (1 = smallest name);  *)
(* a listing of n objects of one kind is a sequence of ranks.               *)
(***************************************************************************)
EXTENDS Integers, Sequences, FiniteSets, TLC

CONSTANT SortModel     \* "byname": the intended design; "go_sortedCopy": the function as written

Kinds == {"pools", "peers", "bfds", "l2advs", "bgpadvs", "communities", "nodes", "namespaces"}

Rng(f) == {f[x] : x \in DOMAIN f}

Swap(s, a, b) == [s EXCEPT ![a] = s[b], ![b] = s[a]]

(* insertionSort_func of Go's sort package on data = (res, less):           *)
(*   for i := 1; i < n; i++ { for j := i; j > 0 && less(j, j-1); j-- { swap(j, j-1) } }   *)
(* "byname": less looks at the slice being sorted.  "go_sortedCopy": less   *)
(* looks at the elements of the ORIGINAL slice at the same indices while    *)
(* the copy is being swapped.                                               *)
RECURSIVE Inner(_, _, _)
Inner(orig, res, j) ==
  IF j > 1 /\ (IF SortModel = "go_sortedCopy" THEN orig[j] < orig[j - 1] ELSE res[j] < res[j - 1])
  THEN Inner(orig, Swap(res, j, j - 1), j - 1)
  ELSE res

RECURSIVE Outer(_, _, _)
Outer(orig, res, i) == IF i > Len(res) THEN res ELSE Outer(orig, Inner(orig, res, i), i + 1)

SortedCopy(listing) == Outer(listing, listing, 2)

Permute(listing, pi) == [i \in DOMAIN listing |-> listing[pi[i]]]
PermsOf(n) == Permutations(1 .. n)

(* the order in which a kind with n objects reaches the parser must not     *)
(* depend on the order in which it was listed                               *)
OrderFreeKind(n) ==
  LET base == [i \in 1 .. n |-> i] IN
  \A pi \in PermsOf(n) : SortedCopy(Permute(base, pi)) = SortedCopy(base)

----------------------------------------------------------------------------
(* Reconciler model.  U = universe of objects; the order-free value of a    *)
(* set of present objects, per reconciler.                                  *)
KindOf(o) ==
  CASE o \in {"pa", "pb", "pc"} -> "pool"
    [] o \in {"l2a", "l2b", "l2c"} -> "l2adv"
    [] o = "bga" -> "bgpadv"
    [] o = "bfd" -> "bfd"
    [] o = "n1" -> "node"
    [] o = "nsx" -> "namespace"
    [] o = "sec" -> "secret"
    [] o = "cm" -> "configmap"
    [] o = "com" -> "community"
    [] o \in {"peer", "peerh", "peerp"} -> "peer"

OfKind(S, k) == {o \in S : KindOf(o) = k}

(* what the configuration value depends on (an L2 advertisement only shows  *)
(* on the pools it is attached to, a node only in the node sets of          *)
(* advertisements; secrets, foreign config maps, unreferenced communities   *)
(* and unselected namespaces never show)                                    *)
Value(rec, present, ver) ==
  LET pools == OfKind(present, "pool")
      advs == IF rec # "pool" /\ pools # {} THEN OfKind(present, "l2adv") \cup OfKind(present, "bgpadv") ELSE {}
      nodes == IF advs # {} THEN OfKind(present, "node") ELSE {}
      peers == IF rec # "pool" THEN OfKind(present, "peer") ELSE {}
  IN [objs |-> pools \cup advs \cup nodes \cup peers, pa |-> IF "pa" \in present THEN ver ELSE 0]

=============================================================================
