//go:build verif

package layer2

// Added to the package by the verification overlay only (never on disk in /repo): a read-only
// projection of the announcer's (service, address, interface scope) table for harnesses that
// live in other packages.

import (
	"net"
	"sort"
)

type VerifAdv struct {
	IP  net.IP
	All bool
	Ifs []string
}

func VerifIPs(a *Announce) map[string][]VerifAdv {
	a.RLock()
	defer a.RUnlock()
	out := map[string][]VerifAdv{}
	for name, advs := range a.ips {
		l := []VerifAdv{}
		for _, adv := range advs {
			v := VerifAdv{IP: append(net.IP{}, adv.ip...), All: adv.allInterfaces, Ifs: []string{}}
			for k := range adv.interfaces {
				v.Ifs = append(v.Ifs, k)
			}
			sort.Strings(v.Ifs)
			l = append(l, v)
		}
		out[name] = l
	}
	return out
}
