----------------------------- MODULE ConfigLoadMC -----------------------------
(***************************************************************************)
(* Roles A and B for the function-shaped half of C18.  Every initial state  *)
(* is one resource snapshot with 0..4 objects of every kind; TLC checks     *)
(* that the modelled loader feeds the parser in an order that does not      *)
(* depend on the listing (role A) and prints the snapshot with the          *)
(* permutations of every kind (role B); the harness calls the real toConfig *)
(* for the listed order, for repetitions, and for every permutation.        *)
(***************************************************************************)
EXTENDS ConfigLoad, Json

CONSTANTS PinModes, MaxN

VARIABLE snap

L == <<"a", "b", "c", "d", "e">>
Nm(prefix, i) == prefix \o L[i]

(* adv = "multi": the objects carry multi-valued fields (lists INSIDE objects): several CIDRs per  *)
(* pool, several interfaces / node selectors per L2 advertisement, several peers / communities /  *)
(* node selectors per BGP advertisement, several aliases per Community, timers and a password on  *)
(* peers.  cidr c < 100 is the IPv4 block 10.2.c.0/24, c >= 100 an IPv6 block.                     *)
PoolObj(i, pin, adv, bad, n) ==
  [name |-> Nm("pool-", i),
   cidrs |-> LET c == IF bad = "overlap" /\ i = n /\ n >= 2 THEN 1 ELSE i IN
             IF adv = "multi" THEN (IF i = 1 THEN <<c + 20, c, c + 10>> ELSE <<c + 10, c>>) ELSE <<c>>,
   ns |-> CASE pin = "two" /\ i <= 2 -> <<"ns1">>
            [] pin = "three" /\ i <= 3 -> <<"ns1">>
            [] pin = "all" -> <<"ns1">>
            [] pin = "both" -> <<"ns1", "ns2">>
            [] pin = "spread" -> IF i % 2 = 1 THEN <<"ns1">> ELSE <<"ns2">>
            [] OTHER -> <<>>,
   sel |-> pin = "sel",
   nssel |-> pin = "nssel",
   prio |-> i]

Peer(name, addr, bfd, vrf, asn, rid, hold, ka, pw) ==
  [name |-> name, addr |-> addr, bfd |-> bfd, vrf |-> vrf, myasn |-> asn, rid |-> rid, hold |-> hold, ka |-> ka, pw |-> pw]
(* hold / ka in milliseconds, 0 = not set *)
PeerObj(i, adv, bad) ==
  Peer(Nm("peer-", i), i, IF bad = "nobfd" /\ i = 1 THEN "bfd-zz" ELSE "", "", 64512, "",
       IF adv = "multi" THEN (IF i = 1 THEN 7500 ELSE 90000) ELSE 0,
       IF adv = "multi" /\ i = 3 THEN 2500 ELSE 0,
       IF adv = "multi" /\ i = 2 THEN "pw" ELSE "")
BfdObj(i, echo) == [name |-> Nm("bfd-", i), echo |-> echo]
AdvPools(i, adv, np) ==
  IF np = 0 THEN <<>>
  ELSE IF adv = "named" THEN <<Nm("pool-", ((i - 1) % np) + 1)>>
  ELSE IF adv = "multi" /\ np >= 2 THEN <<Nm("pool-", (i % np) + 1), Nm("pool-", ((i - 1) % np) + 1)>>
  ELSE <<>>
L2Obj(i, adv, np) ==
  [name |-> Nm("l2-", i), pools |-> AdvPools(i, adv, np),
   ifs |-> IF adv = "multi" THEN <<"if-z", Nm("if-", i), "if-m">> ELSE <<Nm("if-", i)>>,
   nsel |-> IF adv = "multi" THEN <<"b", "a">> ELSE <<>>]
BgpObj(i, adv, bad, np, nc) ==
  [name |-> Nm("bgp-", i), pools |-> AdvPools(i, adv, np),
   agg4 |-> IF bad = "lpclash" THEN 32 ELSE 32 - i,
   lp |-> IF bad = "lpclash" THEN 100 * i ELSE 0,
   comms |-> (IF i <= nc THEN <<Nm("al-", i)>> ELSE <<>>) \o (IF adv = "multi" THEN <<"64512:300", "64512:100", "64512:200">> ELSE <<>>),
   peers |-> IF adv = "multi" THEN <<"peer-b", "peer-c", "peer-a">> ELSE <<>>,
   nsel |-> IF adv = "multi" THEN <<"b", "a">> ELSE <<>>]
ComObj(i, adv, bad, n) ==
  [name |-> Nm("com-", i),
   aliases |-> <<[name |-> IF bad = "dupalias" /\ i = n /\ n >= 2 THEN Nm("al-", 1) ELSE Nm("al-", i), value |-> i]>>
               \o (IF adv = "multi" THEN <<[name |-> Nm("zl-", i), value |-> 50 + i], [name |-> Nm("bl-", i), value |-> 60 + i]>> ELSE <<>>)]
NodeObj(i) == [name |-> Nm("node-", i), zone |-> L[i]]
NsObj(i) == [name |-> IF i <= 2 THEN Nm("ns", i) ELSE Nm("nsx-", i), lab |-> IF i % 2 = 1 THEN "x" ELSE "y"]

GridObjs(c, pin, adv, bad) ==
  [pools |-> [i \in 1 .. c["pools"] |-> PoolObj(i, pin, adv, bad, c["pools"])],
   peers |-> [i \in 1 .. c["peers"] |-> PeerObj(i, adv, bad)],
   bfds |-> [i \in 1 .. c["bfds"] |-> BfdObj(i, FALSE)],
   l2advs |-> [i \in 1 .. c["l2advs"] |-> L2Obj(i, adv, c["pools"])],
   bgpadvs |-> [i \in 1 .. c["bgpadvs"] |-> BgpObj(i, adv, bad, c["pools"], c["communities"])],
   communities |-> [i \in 1 .. c["communities"] |-> ComObj(i, adv, bad, c["communities"])],
   nodes |-> [i \in 1 .. c["nodes"] |-> NodeObj(i)],
   namespaces |-> [i \in 1 .. c["namespaces"] |-> NsObj(i)]]

CountVecs ==
  {[k \in Kinds |-> c] : c \in 0 .. MaxN}
  \cup {[k \in Kinds |-> IF k = k0 THEN c ELSE b] : k0 \in Kinds, c \in {3, MaxN}, b \in {0, 1, 2}}

AdvModes == {"all", "named", "multi"}
BadModes == {"none", "overlap", "lpclash", "dupalias", "nobfd"}

GridParams ==
  {[kind |-> "grid", n |-> c, pin |-> pin, adv |-> adv, bad |-> bad] :
      c \in CountVecs, pin \in PinModes \ {"peers", "advpairs"}, adv \in AdvModes, bad \in BadModes}

(* peers slice: what the mode validators compare PAIRWISE: 2 or 3 peers over 2 VRFs x 2 local   *)
(* ASNs, router ids (none / all equal / last differs / first differs), a duplicated peer address, *)
(* a BFD profile referenced / with echo mode next to an IPv6 pool with a BGP advertisement        *)
VA == {<<"", 64512>>, <<"", 64513>>, <<"red", 64512>>, <<"red", 64513>>}
PeerParams ==
  {[kind |-> "peers", n |-> [k \in Kinds |-> CASE k = "peers" -> np
                                             [] k = "pools" -> IF bfd = "echo6" THEN 2 ELSE 1
                                             [] k = "bfds" -> IF bfd = "none" THEN 0 ELSE 1
                                             [] k = "bgpadvs" -> IF bfd = "echo6" THEN 1 ELSE 0
                                             [] OTHER -> 0],
    pv |-> pv, rid |-> rid, dup |-> dup, bfd |-> bfd, pin |-> "peers", adv |-> "all", bad |-> "none"] :
      np \in {2, 3}, pv \in [1 .. 3 -> VA], rid \in {"none", "same", "lastdiff", "firstdiff"},
      dup \in BOOLEAN, bfd \in {"none", "ref", "echo6"}}

PeerSliceObjs(s) ==
  LET np == s.n["peers"] IN
  [pools |-> [i \in 1 .. s.n["pools"] |-> [name |-> Nm("pool-", i), cidrs |-> <<IF i = 2 THEN 101 ELSE 1>>, ns |-> <<>>,
                                            sel |-> FALSE, nssel |-> FALSE, prio |-> 0]],
   peers |-> [i \in 1 .. np |->
                Peer(Nm("peer-", i), IF s.dup /\ i = np THEN 1 ELSE i,
                     IF s.bfd # "none" /\ i = 2 THEN "bfd-a" ELSE "",
                     s.pv[i][1], s.pv[i][2],
                     CASE s.rid = "none" -> ""
                       [] s.rid = "same" -> "10.10.10.1"
                       [] s.rid = "lastdiff" -> IF i = np THEN "10.10.10.2" ELSE "10.10.10.1"
                       [] OTHER -> IF i = 1 THEN "10.10.10.2" ELSE "10.10.10.1",
                     0, 0, "")],
   bfds |-> [i \in 1 .. s.n["bfds"] |-> BfdObj(i, s.bfd = "echo6")],
   l2advs |-> <<>>,
   bgpadvs |-> [i \in 1 .. s.n["bgpadvs"] |-> [name |-> Nm("bgp-", i), pools |-> <<>>, agg4 |-> 32, lp |-> 0, comms |-> <<>>,
                                               peers |-> <<>>, nsel |-> <<>>]],
   communities |-> <<>>, nodes |-> <<>>, namespaces |-> <<>>]

(* advpairs slice: two (three) BGP advertisements that may CLASH on a pool (validateBGPAdvPerPool   *)
(* compares a new advertisement with the ones already attached): local preference equal / different, *)
(* aggregation length equal / different, peer lists empty (= all peers) / restricted / disjoint /    *)
(* overlapping, node selectors empty / restricted, pools reached by "none = all", by name, by label  *)
(* selector - in every asymmetric combination                                                      *)
PeerLists == {<<>>, <<"peer-a">>, <<"peer-b">>, <<"peer-b", "peer-a">>}
NodeSels == {<<>>, <<"a">>, <<"b">>}
Targets == {"all", "named", "selected"}
AdvSpec(lp, agg, pl, ns, tg) == [lp |-> lp, agg |-> agg, peers |-> pl, nsel |-> ns, tgt |-> tg]
AdvPairParams ==
  {[kind |-> "advpairs", n |-> [k \in Kinds |-> CASE k = "bgpadvs" -> 2 [] k \in {"pools", "peers", "nodes"} -> 2 [] OTHER -> 0],
    advs |-> <<AdvSpec(100, 32, p1, n1, t1), AdvSpec(lp2, a2, p2, n2, t2)>>, pin |-> "advpairs", adv |-> "all", bad |-> "none"] :
      p1 \in PeerLists, n1 \in NodeSels, t1 \in Targets,
      lp2 \in {100, 200}, a2 \in {32, 31}, p2 \in PeerLists, n2 \in NodeSels, t2 \in Targets}
  \cup
  {[kind |-> "advpairs", n |-> [k \in Kinds |-> CASE k = "bgpadvs" -> 3 [] k \in {"pools", "peers", "nodes"} -> 2 [] OTHER -> 0],
    advs |-> <<AdvSpec(100, 32, p1, n1, "all"), AdvSpec(lp2, 32, p2, n2, "all"), AdvSpec(300, 32, p3, n3, "all")>>,
    pin |-> "advpairs", adv |-> "all", bad |-> "none"] :
      p1 \in PeerLists, n1 \in NodeSels, lp2 \in {100, 200}, p2 \in PeerLists, n2 \in NodeSels, p3 \in PeerLists, n3 \in NodeSels}
  (* (three: the third may clash with exactly one of the other two) *)

AdvPairObjs(s) ==
  [pools |-> <<[name |-> "pool-a", lab |-> "x", cidrs |-> <<1>>, ns |-> <<>>, sel |-> FALSE, nssel |-> FALSE, prio |-> 0],
               [name |-> "pool-b", lab |-> "", cidrs |-> <<2>>, ns |-> <<>>, sel |-> FALSE, nssel |-> FALSE, prio |-> 0]>>,
   peers |-> [i \in 1 .. 2 |-> Peer(Nm("peer-", i), i, "", "", 64512, "", 0, 0, "")],
   bfds |-> <<>>, l2advs |-> <<>>,
   bgpadvs |-> [i \in 1 .. Len(s.advs) |->
                  [name |-> Nm("bgp-", i),
                   pools |-> IF s.advs[i].tgt = "named" THEN <<"pool-a">> ELSE <<>>,
                   psel |-> IF s.advs[i].tgt = "selected" THEN <<"x">> ELSE <<>>,
                   agg4 |-> s.advs[i].agg, lp |-> s.advs[i].lp, comms |-> <<>>,
                   peers |-> s.advs[i].peers, nsel |-> s.advs[i].nsel]],
   communities |-> <<>>,
   nodes |-> [i \in 1 .. 2 |-> NodeObj(i)],
   namespaces |-> <<>>]

Params == (IF "advpairs" \in PinModes THEN AdvPairParams ELSE {}) \cup GridParams \cup (IF "peers" \in PinModes THEN {p \in PeerParams : \A i \in 1 .. 3 : i <= p.n["peers"] \/ p.pv[i] = <<"", 64512>>} ELSE {})

Objs(s) == IF s.kind = "grid" THEN GridObjs(s.n, s.pin, s.adv, s.bad)
           ELSE IF s.kind = "peers" THEN PeerSliceObjs(s) ELSE AdvPairObjs(s)

(* permutations of a kind with n objects, as sequences of listing positions *)
PermSeqs(n) == PermsOf(n)

(* printed once: perms[n] = every permutation of n listing positions *)
ASSUME PrintT(ToJson([perms |-> [k \in 1 .. MaxN |-> PermSeqs(k)]]))

Init == /\ snap \in Params
        /\ PrintT(ToJson([snap |-> snap, objs |-> Objs(snap)]))
Next == UNCHANGED snap
Spec == Init /\ [][Next]_snap

(* Role A: the modelled loader hands every kind to the parser in an order   *)
(* that is a function of the set                                            *)
InvOrderFree == \A k \in Kinds : OrderFreeKind(snap.n[k])
=============================================================================
