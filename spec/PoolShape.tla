------------------------------ MODULE PoolShape ------------------------------
(***************************************************************************)
(* C11, arithmetic half: the number of usable addresses of a pool made of   *)
(* real prefixes, as an exact natural number.  TLC integers are 32 bit, so  *)
(* naturals are little-endian limb sequences in base 2^20 (4 limbs = 80 bit).*)
(* A prefix is [fam, len, last] with `last` the last octet of its (aligned) *)
(* base address (only relevant for IPv4 buggy-address avoidance).           *)
(***************************************************************************)
EXTENDS Integers, Sequences, FiniteSets, TLC, Json

B == 1048576       \* 2^20
NL == 4

RECURSIVE Pow2(_)
Pow2(n) == IF n = 0 THEN 1 ELSE 2 * Pow2(n - 1)

Zero == [k \in 1..NL |-> 0]
(* 2^n as limbs, n < 80 *)
PowLimbs(n) == [k \in 1..NL |-> IF k = (n \div 20) + 1 THEN Pow2(n % 20) ELSE 0]
Small(x) == [k \in 1..NL |-> IF k = 1 THEN x % B ELSE IF k = 2 THEN x \div B ELSE 0]   \* x < 2^31

RECURSIVE AddC(_, _, _, _)
AddC(x, y, k, c) == IF k > NL THEN <<>>
                    ELSE LET s == x[k] + y[k] + c IN <<s % B>> \o AddC(x, y, k + 1, s \div B)
Add(x, y) == AddC(x, y, 1, 0)
(* x - y for x >= y *)
RECURSIVE SubC(_, _, _, _)
SubC(x, y, k, b) == IF k > NL THEN <<>>
                    ELSE LET d == x[k] - y[k] - b IN
                         IF d < 0 THEN <<d + B>> \o SubC(x, y, k + 1, 1) ELSE <<d>> \o SubC(x, y, k + 1, 0)
Sub(x, y) == SubC(x, y, 1, 0)
RECURSIVE GeqFrom(_, _, _)
GeqFrom(x, y, k) == IF k = 0 THEN TRUE
                    ELSE IF x[k] > y[k] THEN TRUE ELSE IF x[k] < y[k] THEN FALSE ELSE GeqFrom(x, y, k - 1)
Geq(x, y) == GeqFrom(x, y, NL)

MaxInt64 == <<B - 1, B - 1, B - 1, 7>>        \* 2^63 - 1
TwoTo62 == PowLimbs(62)

Bits(p) == (IF p.fam = "v4" THEN 32 ELSE 128) - p.len

(* .0 / .255 addresses inside an aligned IPv4 block *)
BuggyIn(p) ==
  IF p.fam # "v4" THEN 0
  ELSE IF Bits(p) >= 8 THEN 2 * Pow2(Bits(p) - 8)
  ELSE (IF p.last = 0 THEN 1 ELSE 0) + (IF p.last + Pow2(Bits(p)) - 1 = 255 THEN 1 ELSE 0)

(* usable addresses of one prefix, as limbs (bits < 80 assumed, larger ones are capped at 2^79) *)
Usable(p, avoid) ==
  LET sz == PowLimbs(IF Bits(p) > 79 THEN 79 ELSE Bits(p))
  IN IF avoid /\ p.fam = "v4" THEN Sub(sz, Small(BuggyIn(p))) ELSE sz

RECURSIVE SumFam(_, _, _, _)
SumFam(ps, k, f, avoid) ==
  IF k > Len(ps) THEN Zero
  ELSE Add(IF ps[k].fam = f THEN Usable(ps[k], avoid) ELSE Zero, SumFam(ps, k + 1, f, avoid))

(* what the counters must report for family f: exact below 2^62, "saturated" (MaxInt64) when a   *)
(* single prefix has 2^62 addresses or more or the sum does not fit in 63 bits                    *)
Huge(ps, f) == \E k \in DOMAIN ps : ps[k].fam = f /\ Bits(ps[k]) >= 62
Expected(ps, f, avoid) ==
  LET t == SumFam(ps, 1, f, avoid)
  IN IF Huge(ps, f) \/ Geq(t, Add(MaxInt64, Small(1))) THEN MaxInt64 ELSE t

----------------------------------------------------------------------------
(* Role B: enumerate pool shapes *)
V4 == { [fam |-> "v4", len |-> 32, last |-> 0,   cidr |-> "10.1.0.0/32"],
        [fam |-> "v4", len |-> 32, last |-> 255, cidr |-> "10.1.1.255/32"],
        [fam |-> "v4", len |-> 32, last |-> 7,   cidr |-> "10.1.2.7/32"],
        [fam |-> "v4", len |-> 31, last |-> 254, cidr |-> "10.1.3.254/31"],
        [fam |-> "v4", len |-> 31, last |-> 0,   cidr |-> "10.1.4.0/31"],
        [fam |-> "v4", len |-> 30, last |-> 4,   cidr |-> "10.1.5.4/30"],
        [fam |-> "v4", len |-> 25, last |-> 128, cidr |-> "10.1.6.128/25"],
        [fam |-> "v4", len |-> 24, last |-> 0,   cidr |-> "10.1.7.0/24"],
        [fam |-> "v4", len |-> 23, last |-> 0,   cidr |-> "10.1.8.0/23"],
        [fam |-> "v4", len |-> 16, last |-> 0,   cidr |-> "10.2.0.0/16"],
        [fam |-> "v4", len |-> 8,  last |-> 0,   cidr |-> "11.0.0.0/8"] }
V6 == { [fam |-> "v6", len |-> 128, last |-> 0, cidr |-> "fc00:1::1/128"],
        [fam |-> "v6", len |-> 127, last |-> 0, cidr |-> "fc00:2::/127"],
        [fam |-> "v6", len |-> 120, last |-> 0, cidr |-> "fc00:3::/120"],
        [fam |-> "v6", len |-> 100, last |-> 0, cidr |-> "fc00:4::/100"],
        [fam |-> "v6", len |-> 96,  last |-> 0, cidr |-> "fc00:5::/96"],
        [fam |-> "v6", len |-> 80,  last |-> 0, cidr |-> "fc00:6::/80"],
        [fam |-> "v6", len |-> 68,  last |-> 0, cidr |-> "fc00:7::/68"],
        [fam |-> "v6", len |-> 67,  last |-> 0, cidr |-> "fc00:8::/67"],
        [fam |-> "v6", len |-> 66,  last |-> 0, cidr |-> "fc00:9::/66"],
        [fam |-> "v6", len |-> 64,  last |-> 0, cidr |-> "fc00:a::/64"],
        [fam |-> "v6", len |-> 56,  last |-> 0, cidr |-> "fc00:b::/56"] }
All == V4 \cup V6
CONSTANT MaxLen
Shapes == UNION {[1..n -> All] : n \in 1..MaxLen}
NoRepeat(s) == \A a, b \in DOMAIN s : a # b => s[a].cidr # s[b].cidr

VARIABLE x
GenInit == \E s \in {t \in Shapes : NoRepeat(t)}, avoid \in BOOLEAN : x = [cidrs |-> s, avoid |-> avoid]
GenNext == FALSE /\ x' = x
GenEmit == PrintT(ToJson(x))

----------------------------------------------------------------------------
(* Role C *)
Trace == ndJsonDeserialize("obs.ndjson")
N == Len(Trace)
Shape(o) == [k \in DOMAIN o.cidrs |-> [fam |-> o.cidrs[k].fam, len |-> o.cidrs[k].len, last |-> o.cidrs[k].last]]
(* the harness logs each counter as [neg, limbs]; assigned counts are 0 (nothing allocated) *)
C11_ShapeV4(o) == ~o.av4.neg /\ o.av4.limbs = Expected(Shape(o), "v4", o.avoid)
C11_ShapeV6(o) == ~o.av6.neg /\ o.av6.limbs = Expected(Shape(o), "v6", o.avoid)
C11_ShapeAssigned(o) == ~o.as4.neg /\ ~o.as6.neg /\ o.as4.limbs = Zero /\ o.as6.limbs = Zero
JudgeInit == x = 1
JudgeNext == x < N /\ x' = x + 1
Judge ==
  LET o == Trace[x]
      f == (IF C11_ShapeV4(o) THEN {} ELSE {"C11.ShapeV4"}) \cup (IF C11_ShapeV6(o) THEN {} ELSE {"C11.ShapeV6"})
           \cup (IF C11_ShapeAssigned(o) THEN {} ELSE {"C11.ShapeAssigned"})
  IN /\ (f = {} \/ PrintT(ToJson([fails |-> f, line |-> x, w |-> o.w, step |-> 0])))
     /\ (x < N \/ PrintT(ToJson([done |-> N])))
=============================================================================
