------------------------------ MODULE FRRFilter ------------------------------
(***************************************************************************)
(* C14 / C15: the MEANING of the artefacts metallb generates for FRR,      *)
(* written once.  This module is the trusted base of C14.                   *)
(*                                                                          *)
(* An abstract program (what harness/frr/frrcfg_tokenizer.go produces from  *)
(* the text; the tokenizer assigns no meaning) is a record                  *)
(*   plists   : Seq([af, name, seq, action, any, p, ge, le])                *)
(*              `ip|ipv6 prefix-list NAME seq N permit|deny P|any [ge][le]` *)
(*   rmaps    : Seq([name, action, seq, matches, sets, onmatch])            *)
(*              `route-map NAME permit|deny N` + `match ip|ipv6 address     *)
(*              prefix-list L`, `set local-preference V`, `set community .. *)
(*              [additive]`, `set large-community .. [additive]`,           *)
(*              `on-match next`                                             *)
(*   routers  : Seq([asn, vrf, flags, routerid])   `router bgp A [vrf V]`   *)
(*   nbrstmts : Seq([router, peer, stmt, args, iface])  `neighbor X ...`    *)
(*   afstmts  : Seq([router, af, kind, peer, name, dir, p])                 *)
(*              inside `address-family ipv4|ipv6 unicast`:                  *)
(*              `neighbor X activate`, `neighbor X route-map R in|out`,     *)
(*              `network P`                                                 *)
(* A prefix is [fam |-> 4|6, oct |-> <<octets>>, len |-> n] (+ s = text).   *)
(*                                                                          *)
(* Semantics (FRR 9.x, lib/plist.c, lib/routemap.c, bgpd/bgp_route.c):      *)
(*  P1 `ip` and `ipv6` prefix-lists are separate name spaces; entries are   *)
(*     tried in increasing seq; the first matching entry decides; no match  *)
(*     = deny; a repeated seq replaces the earlier line.                    *)
(*  P2 an entry matches a route of ITS family only; without ge/le the match *)
(*     is exact (same length, same bits); with ge/le: entry covers route    *)
(*     and ge <= len <= le (each bound only if given); `any` = /0 le max.   *)
(*  P3 `match ip|ipv6 address prefix-list L`: L looked up in that family's  *)
(*     name space; an undefined list matches nothing; a list matches iff    *)
(*     it permits.  All match clauses of an entry must match; an entry      *)
(*     without match clause matches every route.                            *)
(*  R1 route-map entries are tried in increasing seq.  deny + match: the    *)
(*     route is denied, stop.  permit + match: the set clauses are applied; *)
(*     without `on-match next` stop, permitted; with `on-match next` the    *)
(*     result becomes sticky-permit and evaluation continues with the next  *)
(*     entry.  Falling off the end: permitted iff sticky-permit (implicit   *)
(*     deny otherwise).  An undefined route-map denies everything.          *)
(*  R2 `set community .. additive` adds, without `additive` replaces        *)
(*     (`none` empties); same for large-community; `set local-preference`   *)
(*     overwrites.                                                          *)
(*  B1 a neighbor sends/receives family f only if activated in             *)
(*     `address-family f unicast` (ipv4 also without `activate` unless      *)
(*     `no bgp default ipv4-unicast`).                                      *)
(*  B2 `neighbor X route-map R out|in` inside address-family f filters      *)
(*     family f in that direction (last statement wins).  Without one:      *)
(*     everything passes unchanged, except for an eBGP neighbor when        *)
(*     `no bgp ebgp-requires-policy` is absent (then nothing passes).       *)
(*  B3 `network P` inside address-family f originates P (of family f) in    *)
(*     that router/VRF, provided `no bgp network import-check` is present   *)
(*     (service addresses are not in the RIB).                              *)
(*  Router blocks with the same VRF denote one router.                      *)
(***************************************************************************)
EXTENDS Integers, Sequences, FiniteSets

Range(s) == {s[i] : i \in DOMAIN s}

(* identity of a prefix: family, length, address with the bits beyond the length cleared *)
Mask(oct, n) ==
  [i \in 1..Len(oct) |->
     LET lo == (i - 1) * 8 IN
     IF n >= lo + 8 THEN oct[i]
     ELSE IF n <= lo THEN 0
     ELSE LET sh == 2 ^ (8 - (n - lo)) IN (oct[i] \div sh) * sh]
Norm(p) == [fam |-> p.fam, oct |-> Mask(p.oct, p.len), len |-> p.len]
AfFam(af) == IF af \in {"ip", "ipv4"} THEN 4 ELSE IF af = "ipv6" THEN 6 ELSE 0
MaxLen(fam) == IF fam = 4 THEN 32 ELSE 128

(* the first n bits of octet strings a and b agree *)
BitsAgree(a, b, n) ==
  /\ Len(a) = Len(b)
  /\ \A i \in 1..Len(a) :
       LET lo == (i - 1) * 8 IN
       IF n >= lo + 8 THEN a[i] = b[i]
       ELSE IF n <= lo THEN TRUE
       ELSE LET sh == 2 ^ (8 - (n - lo)) IN (a[i] \div sh) = (b[i] \div sh)

Covers(e, q) == e.fam = q.fam /\ e.len <= q.len /\ BitsAgree(e.oct, q.oct, e.len)

----------------------------------------------------------------------------
(* prefix lists: P1, P2 *)
PlEntryMatches(e, q) ==
  LET fam == AfFam(e.af) IN
  IF e.any THEN q.fam = fam
  ELSE /\ e.p.fam = fam
       /\ Covers(e.p, q)
       /\ IF e.ge = -1 /\ e.le = -1 THEN q.len = e.p.len
          ELSE (e.le = -1 \/ q.len <= e.le) /\ (e.ge = -1 \/ q.len >= e.ge)

PlIdx(prog, af, name) ==
  LET I0 == {i \in DOMAIN prog.plists : prog.plists[i].name = name /\ prog.plists[i].af = af} IN
  {i \in I0 : ~\E j \in I0 : j > i /\ prog.plists[j].seq = prog.plists[i].seq}

PlDefined(prog, af, name) == PlIdx(prog, af, name) # {}

PlApply(prog, af, name, q) ==
  LET I == PlIdx(prog, af, name) IN
  IF I = {} THEN "undef"
  ELSE LET M == {i \in I : PlEntryMatches(prog.plists[i], q)} IN
       IF M = {} THEN "deny"
       ELSE prog.plists[CHOOSE i \in M : \A j \in M : prog.plists[i].seq <= prog.plists[j].seq].action

----------------------------------------------------------------------------
(* route maps: P3, R1, R2 *)
NoAttrs == [lp |-> "0", comms |-> {}, lcomms |-> {}]

ClauseMatches(prog, c, q) == PlApply(prog, c.af, c.plist, q) = "permit"
EntryMatches(prog, e, q) == \A k \in DOMAIN e.matches : ClauseMatches(prog, e.matches[k], q)

SetVals(old, s) ==
  LET v == Range(s.vals) \ {"none"} IN
  IF "none" \in Range(s.vals) THEN {} ELSE IF s.additive THEN old \cup v ELSE v

RECURSIVE ApplySets(_, _, _)
ApplySets(sets, k, a) ==
  IF k > Len(sets) THEN a
  ELSE LET s == sets[k] IN
       ApplySets(sets, k + 1,
                 IF s.kind = "lp" THEN [a EXCEPT !.lp = s.vals[1]]
                 ELSE IF s.kind = "comm" THEN [a EXCEPT !.comms = SetVals(a.comms, s)]
                 ELSE IF s.kind = "lcomm" THEN [a EXCEPT !.lcomms = SetVals(a.lcomms, s)]
                 ELSE a)

RmIdx(prog, name) ==
  LET I0 == {i \in DOMAIN prog.rmaps : prog.rmaps[i].name = name} IN
  {i \in I0 : ~\E j \in I0 : j > i /\ prog.rmaps[j].seq = prog.rmaps[i].seq}

RECURSIVE RmWalk(_, _, _, _, _, _)
RmWalk(prog, I, q, after, sticky, a) ==
  LET C == {i \in I : prog.rmaps[i].seq > after} IN
  IF C = {} THEN [permit |-> sticky, attrs |-> a]
  ELSE LET i == CHOOSE i \in C : \A j \in C : prog.rmaps[i].seq <= prog.rmaps[j].seq
           e == prog.rmaps[i]
       IN IF ~EntryMatches(prog, e, q) THEN RmWalk(prog, I, q, e.seq, sticky, a)
          ELSE IF e.action # "permit" THEN [permit |-> FALSE, attrs |-> a]
          ELSE LET a2 == ApplySets(e.sets, 1, a) IN
               IF e.onmatch = "next" THEN RmWalk(prog, I, q, e.seq, TRUE, a2)
               ELSE [permit |-> TRUE, attrs |-> a2]

RmApply(prog, name, q) == RmWalk(prog, RmIdx(prog, name), q, -1, FALSE, NoAttrs)

----------------------------------------------------------------------------
(* routers, neighbors, address families: B1, B2, B3 *)
RouterIdx(prog, vrf) == {k \in DOMAIN prog.routers : prog.routers[k].vrf = vrf}
Flags(prog, vrf) == UNION {Range(prog.routers[k].flags) : k \in RouterIdx(prog, vrf)}
NbrIdx(prog, vrf, peer) ==
  {i \in DOMAIN prog.nbrstmts : prog.nbrstmts[i].router \in RouterIdx(prog, vrf) /\ prog.nbrstmts[i].peer = peer}
AfIdx(prog, vrf) == {i \in DOMAIN prog.afstmts : prog.afstmts[i].router \in RouterIdx(prog, vrf)}
Peers(prog, vrf) ==
  {prog.nbrstmts[i].peer : i \in {i \in DOMAIN prog.nbrstmts : prog.nbrstmts[i].router \in RouterIdx(prog, vrf)}}
  \cup {prog.afstmts[i].peer : i \in {i \in AfIdx(prog, vrf) : prog.afstmts[i].kind # "network"}}

NbrArgs(prog, vrf, peer, stmt) ==
  {prog.nbrstmts[i].args : i \in {i \in NbrIdx(prog, vrf, peer) : prog.nbrstmts[i].stmt = stmt}}

RemoteAs(prog, vrf, peer) == UNION {Range(a) : a \in NbrArgs(prog, vrf, peer, "remote-as")}
RouterAsns(prog, vrf) == {prog.routers[k].asn : k \in RouterIdx(prog, vrf)}
IsEBGP(prog, vrf, peer) ==
  \E a \in RemoteAs(prog, vrf, peer) : a = "external" \/ (a # "internal" /\ a \notin RouterAsns(prog, vrf))

Activated(prog, vrf, peer, fam) ==
  \/ \E i \in AfIdx(prog, vrf) : LET s == prog.afstmts[i] IN s.kind = "activate" /\ s.peer = peer /\ AfFam(s.af) = fam
  \/ fam = 4 /\ "no bgp default ipv4-unicast" \notin Flags(prog, vrf) /\ NbrIdx(prog, vrf, peer) # {}

(* the `route-map` statements for (peer, family, direction); the last one counts *)
PolicyIdx(prog, vrf, peer, fam, dir) ==
  {i \in AfIdx(prog, vrf) : LET s == prog.afstmts[i] IN
     s.kind = "route-map" /\ s.peer = peer /\ AfFam(s.af) = fam /\ s.dir = dir}

Verdict(prog, vrf, peer, q, dir) ==
  IF ~Activated(prog, vrf, peer, q.fam) THEN [permit |-> FALSE, attrs |-> NoAttrs]
  ELSE LET I == PolicyIdx(prog, vrf, peer, q.fam, dir) IN
       IF I = {} THEN [permit |-> ~(IsEBGP(prog, vrf, peer) /\ "no bgp ebgp-requires-policy" \notin Flags(prog, vrf)),
                       attrs |-> NoAttrs]
       ELSE RmApply(prog, prog.afstmts[CHOOSE i \in I : \A j \in I : j <= i].name, q)

Originated(prog, vrf) ==
  IF "no bgp network import-check" \notin Flags(prog, vrf) THEN {}
  ELSE {Norm(prog.afstmts[i].p) :
          i \in {i \in AfIdx(prog, vrf) : prog.afstmts[i].kind = "network" /\ prog.afstmts[i].p.fam = AfFam(prog.afstmts[i].af)}}

Route(q, a) == [prefix |-> q, lp |-> a.lp, comms |-> a.comms, lcomms |-> a.lcomms]

(* what leaves towards `peer` of router `vrf` *)
Offered(prog, vrf, peer) ==
  {Route(q, Verdict(prog, vrf, peer, q, "out").attrs) :
     q \in {q \in Originated(prog, vrf) : Verdict(prog, vrf, peer, q, "out").permit}}

(* the outbound filter alone: would q pass if it were in the table? *)
PassesOut(prog, vrf, peer, q) == Verdict(prog, vrf, peer, q, "out").permit
PassesIn(prog, vrf, peer, q) == Verdict(prog, vrf, peer, q, "in").permit

(* every prefix the program mentions *)
Mentioned(prog) ==
  {Norm(prog.plists[i].p) : i \in {i \in DOMAIN prog.plists : ~prog.plists[i].any}}
  \cup {Norm(prog.afstmts[i].p) : i \in {i \in DOMAIN prog.afstmts : prog.afstmts[i].kind = "network"}}

(* prefix-lists referenced by some route-map entry but not defined (informational: P3 makes   *)
(* them harmless; other implementations read an undefined list as `permit any`)                *)
UndefinedRefs(prog) ==
  UNION {{<<prog.rmaps[i].matches[k].af, prog.rmaps[i].matches[k].plist>> :
            k \in {k \in DOMAIN prog.rmaps[i].matches :
                     ~PlDefined(prog, prog.rmaps[i].matches[k].af, prog.rmaps[i].matches[k].plist)}} :
         i \in DOMAIN prog.rmaps}

----------------------------------------------------------------------------
(* what was requested on a session: advs = Seq([p, lp, comms, lcomms]); the same prefix merged *)
ReqPrefixes(s) == {Norm(s.advs[i].p) : i \in DOMAIN s.advs}
Requested(s) ==
  {[prefix |-> q,
    lp     |-> (CHOOSE l \in {s.advs[i].lp : i \in {i \in DOMAIN s.advs : Norm(s.advs[i].p) = q}} : TRUE),
    comms  |-> UNION {Range(s.advs[i].comms) : i \in {i \in DOMAIN s.advs : Norm(s.advs[i].p) = q}},
    lcomms |-> UNION {Range(s.advs[i].lcomms) : i \in {i \in DOMAIN s.advs : Norm(s.advs[i].p) = q}}] :
     q \in ReqPrefixes(s)}

PeerOf(s) == IF s.iface # "" THEN s.iface ELSE s.addr

----------------------------------------------------------------------------
(* The FRRConfiguration resource (projection made by harness/frrk8s):                        *)
(*   cr.routers : Seq([asn, id, vrf, prefixes, neighbors])                                   *)
(*   neighbor   : [address, iface, ..., allowedMode, allowed, withLocalPref, withCommunity]   *)
(* frr-k8s semantics: a neighbor is sent the router's prefixes that are allowed for it       *)
(* (mode "all": every prefix of the router); a prefix gets every community whose             *)
(* withCommunity entry lists it and the local preference whose withLocalPref entry lists it. *)
CRRouterIdx(cr, vrf) == {k \in DOMAIN cr.routers : cr.routers[k].vrf = vrf}
CRRouterPrefixes(cr, vrf) ==
  UNION {{Norm(cr.routers[k].prefixes[i]) : i \in DOMAIN cr.routers[k].prefixes} : k \in CRRouterIdx(cr, vrf)}
CRNeighbors(cr, vrf, peer) ==
  UNION {{cr.routers[k].neighbors[i] : i \in {i \in DOMAIN cr.routers[k].neighbors :
            LET n == cr.routers[k].neighbors[i] IN (IF n.iface # "" THEN n.iface ELSE n.address) = peer}} :
         k \in CRRouterIdx(cr, vrf)}

PSet(seq) == {Norm(seq[i]) : i \in DOMAIN seq}
CRComms(n, q, large) ==
  {n.withCommunity[i].c : i \in {i \in DOMAIN n.withCommunity :
      n.withCommunity[i].large = large /\ q \in PSet(n.withCommunity[i].prefixes)}}
CRLps(n, q) ==
  {n.withLocalPref[i].lp : i \in {i \in DOMAIN n.withLocalPref : q \in PSet(n.withLocalPref[i].prefixes)}}

OfferedCRn(cr, vrf, n) ==
  LET allowed == IF n.allowedMode = "all" THEN CRRouterPrefixes(cr, vrf) ELSE PSet(n.allowed) IN
  {[prefix |-> q,
    lp     |-> (IF CRLps(n, q) = {} THEN "0"
                ELSE IF Cardinality(CRLps(n, q)) = 1 THEN CHOOSE l \in CRLps(n, q) : TRUE ELSE "conflict"),
    comms  |-> CRComms(n, q, FALSE),
    lcomms |-> CRComms(n, q, TRUE)] : q \in allowed \cap CRRouterPrefixes(cr, vrf)}

OfferedCR(cr, vrf, peer) == UNION {OfferedCRn(cr, vrf, n) : n \in CRNeighbors(cr, vrf, peer)}

=============================================================================
