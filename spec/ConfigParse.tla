----------------------------- MODULE ConfigParse -----------------------------
(***************************************************************************)
(* C08 - accepted configuration is sound.                                   *)
(*                                                                         *)
(* A W-bit address window per family.  Abstract address a \in 0..2^W-1 of   *)
(* family f stands for the block of 2^S(f) concrete addresses               *)
(*    base(f) + a * 2^S(f) .. base(f) + a * 2^S(f) + 2^S(f) - 1             *)
(* (S4 = 6, W = 4: bits 6..9 of an IPv4 address, i.e. the window straddles  *)
(* the boundary between the 3rd and the 4th octet; S = 0: single            *)
(* addresses).  The concrete prefix length of the whole window is           *)
(* P0(f) = bits(f) - S(f) - W.  The concretisation (strings) is done by the *)
(* harness from (W, S4, S6) which TLC prints; the meaning of an entry lives *)
(* here only.                                                              *)
(*                                                                         *)
(* entry  [k, fam, a, b, sp]                                                *)
(*   k = "cidr"  : base a (not necessarily aligned), abstract length b,     *)
(*                 concrete "conc(a)/(P0+b)"; sp = plain | mapped | low     *)
(*   k = "range" : conc(a)-conc(b) inclusive (whole blocks);                *)
(*                 sp = plain | ws | mapped | mapmix                        *)
(*   k = "mixed" : a range whose ends are of different families             *)
(*                 (a = IPv4 address, b = IPv6 address, sp = "46" | "64")   *)
(*                                                                         *)
(* `Sound*` are the NECESSARY conditions C08 states for an accepted         *)
(* snapshot; nothing here says what must be accepted.  They are evaluated   *)
(* on a result record r (what a loader returned) - by role A on the result  *)
(* of the design model below, by role C (ConfigParseTrace) on the result    *)
(* of the real config.For.                                                  *)
(***************************************************************************)
EXTENDS Integers, Sequences, FiniteSets, TLC

CONSTANTS W, S4, S6

RECURSIVE Pow2(_)
Pow2(n) == IF n <= 0 THEN 1 ELSE 2 * Pow2(n - 1)

NA == Pow2(W)
A == 0 .. NA - 1
P04 == 32 - S4 - W
P06 == 128 - S6 - W
P0(f) == IF f = "v4" THEN P04 ELSE P06
Bits(f) == IF f = "v4" THEN 32 ELSE 128

Rng(f) == {f[x] : x \in DOMAIN f}
Min(a, b) == IF a < b THEN a ELSE b

(* abstract block: addresses sharing the first l bits with a               *)
Blk(a, l) == {x \in A : x \div Pow2(W - l) = a \div Pow2(W - l)}

----------------------------------------------------------------------------
(* Denotation of what the user wrote                                        *)
Den(e, f) ==
  IF e.k = "mixed" \/ e.fam # f THEN {}
  ELSE IF e.k = "cidr" THEN Blk(e.a, e.b)
  ELSE {x \in A : e.a <= x /\ x <= e.b}

DenPool(p, f) == UNION {Den(p.ents[i], f) : i \in DOMAIN p.ents}

PoolNames(s) == {s.pools[i].name : i \in DOMAIN s.pools}
PoolOf(s, n) == CHOOSE p \in Rng(s.pools) : p.name = n
NodeNames(s) == {s.nodes[i].name : i \in DOMAIN s.nodes}

WrittenAsCidrs(p) == \A i \in DOMAIN p.ents : p.ents[i].k = "cidr"

(* advertisement -> pools / nodes, as the property words it                 *)
ExpPools(s, adv) ==
  IF adv.pools = <<>> /\ adv.psel = <<>> THEN PoolNames(s)
  ELSE (Rng(adv.pools) \cap PoolNames(s))
       \cup {p.name : p \in {q \in Rng(s.pools) : q.lab # "" /\ q.lab \in Rng(adv.psel)}}

ExpNodes(s, adv) ==
  IF adv.nsel = <<>> THEN NodeNames(s)
  ELSE {n.name : n \in {m \in Rng(s.nodes) : m.zone \in Rng(adv.nsel)}}

----------------------------------------------------------------------------
(* Result record r:                                                         *)
(*   r.pools  : set of [name, full4, part4, full6, part6, out, l2, bgp]     *)
(*      full = abstract addresses whose whole block is in the pool,         *)
(*      part = blocks covered partially, out = #addresses outside windows,  *)
(*      l2 = set of [nodes, ifs], bgp = set of [name, nodes, agg4, agg6,    *)
(*      lp, peers]                                                          *)
(*   r.nodeIn : set of <<node, pool>>: internal node address inside pool    *)
Cover(pr, f) == IF f = "v4" THEN pr.full4 \cup pr.part4 ELSE pr.full6 \cup pr.part6

SoundNotMixed(s) ==
  \A p \in Rng(s.pools) : \A i \in DOMAIN p.ents : p.ents[i].k # "mixed"

SoundExact(s, r) ==
  /\ {pr.name : pr \in r.pools} = PoolNames(s)
  /\ \A pr \in r.pools :
       LET p == PoolOf(s, pr.name) IN
       /\ pr.full4 = DenPool(p, "v4") /\ pr.part4 = {}
       /\ pr.full6 = DenPool(p, "v6") /\ pr.part6 = {}
       /\ pr.out = 0

SoundDisjoint(r) ==
  \A pr \in r.pools : \A qr \in r.pools :
     pr.name # qr.name => /\ Cover(pr, "v4") \cap Cover(qr, "v4") = {}
                          /\ Cover(pr, "v6") \cap Cover(qr, "v6") = {}

SoundNoNodeIP(r) == r.nodeIn = {}

SoundAttachL2(s, r) ==
  \A pr \in r.pools :
     pr.l2 = {[nodes |-> ExpNodes(s, x), ifs |-> Rng(x.ifs)] :
                 x \in {y \in Rng(s.l2) : pr.name \in ExpPools(s, y)}}

SoundAttachBGP(s, r) ==
  \A pr \in r.pools :
     {[name |-> x.name, nodes |-> x.nodes] : x \in pr.bgp} =
     {[name |-> x.name, nodes |-> ExpNodes(s, x)] :
         x \in {y \in Rng(s.bgp) : pr.name \in ExpPools(s, y)}}

(* the aggregate of every pool address stays inside the pool                *)
Contained(al, f, set) ==
  set = {} \/ (al >= P0(f) /\ LET l == Min(al - P0(f), W) IN \A a \in set : Blk(a, l) \subseteq set)

SoundAggregate(s, r) ==
  \A pr \in r.pools :
    (pr.name \in PoolNames(s) /\ WrittenAsCidrs(PoolOf(s, pr.name))) =>
       \A x \in pr.bgp : /\ Contained(x.agg4, "v4", Cover(pr, "v4"))
                         /\ Contained(x.agg6, "v6", Cover(pr, "v6"))

(* two attached advertisements that certainly produce the same route with   *)
(* different local preferences on a common node and an existing common peer *)
Clash(s, pr, x, y) ==
  /\ x.lp # y.lp
  /\ \/ (Cover(pr, "v4") # {} /\ x.agg4 = y.agg4)
     \/ (Cover(pr, "v6") # {} /\ x.agg6 = y.agg6)
  /\ x.nodes \cap y.nodes # {}
  /\ \E q \in Rng(s.peers) : (x.peers = {} \/ q \in x.peers) /\ (y.peers = {} \/ q \in y.peers)

SoundLocalPref(s, r) ==
  \A pr \in r.pools : \A x \in pr.bgp : \A y \in pr.bgp : ~Clash(s, pr, x, y)

SoundFails(s, r) ==
  (IF SoundNotMixed(s) THEN {} ELSE {"C08.FamiliesNotMixed"}) \cup
  (IF SoundExact(s, r) THEN {} ELSE {"C08.Exact"}) \cup
  (IF SoundDisjoint(r) THEN {} ELSE {"C08.Disjoint"}) \cup
  (IF SoundNoNodeIP(r) THEN {} ELSE {"C08.NoNodeIP"}) \cup
  (IF SoundAttachL2(s, r) THEN {} ELSE {"C08.AttachL2"}) \cup
  (IF SoundAttachBGP(s, r) THEN {} ELSE {"C08.AttachBGP"}) \cup
  (IF SoundAggregate(s, r) THEN {} ELSE {"C08.Aggregate"}) \cup
  (IF SoundLocalPref(s, r) THEN {} ELSE {"C08.LocalPref"})

----------------------------------------------------------------------------
(* Design model of the loader (role A), structured like the code:           *)
(* ParseCIDR (one masked prefix per CIDR, Summarize for a range),           *)
(* poolsFor (every new prefix against every earlier one, node addresses),   *)
(* advertisement attachment, validateBGPAdvPerPool.  It is the INTENDED     *)
(* design: prefixes of different families never overlap, a mixed range is   *)
(* refused.  Differences with the real code are DRIFT, never a verdict.     *)

(* model prefix: [fam, base, len, ones]; ones = concrete mask size as the   *)
(* code reads it (Mask.Size()), 96 more for an IPv4-mapped CIDR             *)
Pfx(f, base, l, mapped) ==
  [fam |-> f, base |-> (base \div Pow2(W - l)) * Pow2(W - l), len |-> l,
   ones |-> P0(f) + l + (IF mapped THEN 96 ELSE 0)]

RECURSIVE BigLen(_, _, _)
(* smallest length (largest block) starting at lo, aligned, not beyond hi   *)
BigLen(lo, hi, l) ==
  IF l >= W THEN W
  ELSE IF lo % Pow2(W - l) = 0 /\ lo + Pow2(W - l) - 1 <= hi THEN l
  ELSE BigLen(lo, hi, l + 1)

RECURSIVE Summarize(_, _, _)
Summarize(f, lo, hi) ==
  IF lo > hi THEN <<>>
  ELSE LET l == BigLen(lo, hi, 0) IN <<Pfx(f, lo, l, FALSE)>> \o Summarize(f, lo + Pow2(W - l), hi)

MParse(e) ==
  IF e.k = "cidr" THEN <<Pfx(e.fam, e.a, e.b, e.sp = "mapped")>>
  ELSE IF e.k = "range" THEN Summarize(e.fam, e.a, e.b)
  ELSE <<>>

MEntryOK(e) ==
  /\ e.k # "mixed"
  /\ (e.k = "range" => e.a <= e.b)
  /\ (e.k = "cidr" => e.sp # "ws")      \* net.ParseCIDR does not trim

PfxSet(x) == Blk(x.base, x.len)
POverlap(x, y) == x.fam = y.fam /\ PfxSet(x) \cap PfxSet(y) # {}

(* all prefixes of the snapshot, tagged <<pool index, entry index, k>>      *)
AllPfx(s) ==
  UNION {UNION {{[pi |-> i, ei |-> j, ki |-> k, x |-> MParse(s.pools[i].ents[j])[k]] :
                    k \in DOMAIN MParse(s.pools[i].ents[j])}
                : j \in DOMAIN s.pools[i].ents}
         : i \in DOMAIN s.pools}

InternalAddrs(s) ==
  UNION {{[node |-> s.nodes[i].name, fam |-> s.nodes[i].addrs[j].fam, a |-> s.nodes[i].addrs[j].a] :
             j \in {k \in DOMAIN s.nodes[i].addrs : s.nodes[i].addrs[k].t = "int"}}
         : i \in DOMAIN s.nodes}

MPoolsOK(s) ==
  LET ap == AllPfx(s)  na == InternalAddrs(s) IN
  /\ \A p \in Rng(s.pools) : p.ents # <<>> /\ \A i \in DOMAIN p.ents : MEntryOK(p.ents[i])
  /\ \A t \in ap : \A u \in ap :
        (<<t.pi, t.ei, t.ki>> # <<u.pi, u.ei, u.ki>>) => ~POverlap(t.x, u.x)
  /\ \A t \in ap : \A n \in na : ~(n.fam = t.x.fam /\ n.a \in PfxSet(t.x))

(* validateBGPAdvPerPool, aggregation part: per written entry, the lowest   *)
(* mask of its prefixes against the length of the family of its first one   *)
MAggOK(p, adv) ==
  \A i \in DOMAIN p.ents :
     LET ps == MParse(p.ents[i]) IN
     ps = <<>> \/
       LET maxl == IF ps[1].fam = "v4" THEN adv.agg4 ELSE adv.agg6
           lowest == CHOOSE m \in {ps[k].ones : k \in DOMAIN ps} : \A k \in DOMAIN ps : m <= ps[k].ones
       IN maxl >= lowest

MHas(p, f) == \E i \in DOMAIN p.ents : MParse(p.ents[i]) # <<>> /\ MParse(p.ents[i])[1].fam = f

MAggrDifferent(p, x, y) ==
  LET h4 == MHas(p, "v4")  h6 == MHas(p, "v6") IN
  \/ (~h4 /\ ~h6)
  \/ (x.agg4 # y.agg4 /\ ~h6)
  \/ (x.agg6 # y.agg6 /\ ~h4)
  \/ (x.agg4 # y.agg4 /\ x.agg6 # y.agg6)

MCompatible(s, p, x, y) ==
  \/ MAggrDifferent(p, x, y)
  \/ (x.peers # <<>> /\ y.peers # <<>> /\ Rng(x.peers) \cap Rng(y.peers) = {})
  \/ ExpNodes(s, x) \cap ExpNodes(s, y) = {}

MBgpOK(s) ==
  \A p \in Rng(s.pools) :
    LET on == {i \in DOMAIN s.bgp : p.name \in ExpPools(s, s.bgp[i])} IN
    /\ \A i \in on : MAggOK(p, s.bgp[i])
    /\ \A i \in on : \A j \in on :
          (i < j /\ s.bgp[i].lp # s.bgp[j].lp) => MCompatible(s, p, s.bgp[j], s.bgp[i])

MAccepts(s) == MPoolsOK(s) /\ MBgpOK(s)

MSet(p, f) ==
  UNION {UNION {PfxSet(MParse(p.ents[i])[k]) :
                   k \in {m \in DOMAIN MParse(p.ents[i]) : MParse(p.ents[i])[m].fam = f}}
         : i \in DOMAIN p.ents}

MRes(s) ==
  [pools |-> {[name |-> p.name,
               full4 |-> MSet(p, "v4"), part4 |-> {},
               full6 |-> MSet(p, "v6"), part6 |-> {},
               out |-> 0,
               l2 |-> {[nodes |-> ExpNodes(s, x), ifs |-> Rng(x.ifs)] :
                          x \in {y \in Rng(s.l2) : p.name \in ExpPools(s, y)}},
               bgp |-> {[name |-> x.name, nodes |-> ExpNodes(s, x), agg4 |-> x.agg4, agg6 |-> x.agg6,
                         lp |-> x.lp, peers |-> Rng(x.peers)] :
                          x \in {y \in Rng(s.bgp) : p.name \in ExpPools(s, y)}}]
              : p \in Rng(s.pools)},
   nodeIn |-> UNION {{<<n.node, p.name>> : n \in {m \in InternalAddrs(s) : m.a \in MSet(p, m.fam)}}
                     : p \in Rng(s.pools)}]

(* Role A: whatever the design accepts is sound                             *)
ModelSound(s) == MAccepts(s) => SoundFails(s, MRes(s)) = {}

=============================================================================
