//go:build verif

package native

// Role B/C harness for C16 (native BGP wire format).  Inputs (single sends, histories of sends on
// one connection, octet strings for the OPEN reader) are enumerated by TLC
// (spec/BGPWireMC.tla); this file calls the real sendOpen / sendUpdate / sendWithdraw /
// sendKeepalive into a buffer and the real readOpen on a counting reader under a watchdog, and
// logs what happened.  No judgement happens here: the octets are decoded and compared by TLC
// (spec/BGPWireTrace.tla).

import (
	"bufio"
	"encoding/json"
	"errors"
	"fmt"
	"io"
	"net"
	"os"
	"testing"
	"time"

	"go.universe.tf/metallb/internal/bgp"
	"go.universe.tf/metallb/internal/bgp/community"
	kit "go.universe.tf/metallb/internal/verifkit"
)

type vWirePfx struct {
	Plen   int   `json:"plen"`
	Addr   []int `json:"addr"`
	Ipform int   `json:"ipform"`
}

type vWireInput struct {
	ID   string `json:"id"`
	Kind string `json:"kind"`
	// update (embeds one prefix)
	vWirePfx
	Asn   []int   `json:"asn"`
	Ibgp  bool    `json:"ibgp"`
	Fbasn bool    `json:"fbasn"`
	Nh    []int   `json:"nh"`
	Lp    []int   `json:"lp"`
	Comms [][]int `json:"comms"`
	// withdraw
	Prefixes []vWirePfx `json:"prefixes"`
	// open
	Hold int   `json:"hold"`
	Rid  []int `json:"rid"`
	// read
	Stream []int `json:"stream"`
	Chunk  int   `json:"chunk"`
	// history: several sends on one process / connection object; a step carries failat (the
	// connection accepts that many octets of this call, then fails; -1 = never) and expect
	Steps  []json.RawMessage `json:"steps"`
	Failat int               `json:"failat"`
	Expect string            `json:"expect"`
}

type vWireWriteObs struct {
	ID       string          `json:"id"`
	Kind     string          `json:"kind"`
	P        json.RawMessage `json:"p"`
	Bytes    []int           `json:"bytes"` // octets the connection accepted during this call
	NWritten int             `json:"nwritten"`
	Offered  int             `json:"offered"` // octets handed to Write during this call
	Writes   int             `json:"writes"`
	Err      string          `json:"err"`
	Panic    string          `json:"panic"`
	Timeout  bool            `json:"timeout"`
}

type vWireHistObs struct {
	ID    string          `json:"id"`
	Kind  string          `json:"kind"`
	Steps []vWireWriteObs `json:"steps"`
}

type vWireReadObs struct {
	ID       string `json:"id"`
	Kind     string `json:"kind"`
	Stream   []int  `json:"stream"`
	Chunk    int    `json:"chunk"`
	Ok       bool   `json:"ok"`
	Asn      []int  `json:"asn"`
	Hold     int    `json:"hold"`
	Mp4      bool   `json:"mp4"`
	Mp6      bool   `json:"mp6"`
	Fbasn    bool   `json:"fbasn"`
	Err      string `json:"err"`
	Consumed int    `json:"consumed"`
	Panic    string `json:"panic"`
	Timeout  bool   `json:"timeout"`
}

func vWireU32(b []int) uint32 {
	var v uint32
	for _, x := range b {
		v = v<<8 | uint32(x&0xff)
	}
	return v
}

func vWireBytes(b []int) []byte {
	out := make([]byte, len(b))
	for i, x := range b {
		out[i] = byte(x)
	}
	return out
}

func vWireInts(b []byte) []int {
	out := make([]int, len(b))
	for i, x := range b {
		out[i] = int(x)
	}
	return out
}

func vWireIP(a []int, form int) net.IP {
	if form == 16 {
		return net.IPv4(byte(a[0]), byte(a[1]), byte(a[2]), byte(a[3]))
	}
	return net.IP{byte(a[0]), byte(a[1]), byte(a[2]), byte(a[3])}
}

func vWireNet(p vWirePfx) *net.IPNet {
	return &net.IPNet{IP: vWireIP(p.Addr, p.Ipform), Mask: net.CIDRMask(p.Plen, 32)}
}

// vWireSink is the "connection" the writers write to.  It delimits calls (begin) and can fail
// after having accepted failat octets of the current call (failat < 0: never).
type vWireSink struct {
	buf     []byte
	writes  int
	n       int
	offered int
	failat  int
}

var vWireConnErr = errors.New("verif: connection write failed")

func (s *vWireSink) begin(failat int) {
	s.buf, s.writes, s.n, s.offered, s.failat = nil, 0, 0, 0, failat
}

func (s *vWireSink) Write(p []byte) (int, error) {
	s.writes++
	s.offered += len(p)
	if s.failat >= 0 && s.n+len(p) > s.failat {
		k := s.failat - s.n
		s.buf = append(s.buf, p[:k]...)
		s.n += k
		return k, vWireConnErr
	}
	s.buf = append(s.buf, p...)
	s.n += len(p)
	return len(p), nil
}

// vWireSource is the "connection" readOpen reads from: it counts what is taken from the stream
// and can deliver short reads like a socket does.
type vWireSource struct {
	data     []byte
	pos      int
	chunk    int
	consumed int
}

func (s *vWireSource) Read(p []byte) (int, error) {
	if len(p) == 0 {
		return 0, nil
	}
	if s.pos >= len(s.data) {
		return 0, io.EOF
	}
	if s.chunk > 0 && len(p) > s.chunk {
		p = p[:s.chunk]
	}
	n := copy(p, s.data[s.pos:])
	s.pos += n
	s.consumed += n
	return n, nil
}

const vWireWatchdog = 5 * time.Second

// vWireGuard runs fn under a watchdog; returns (panic text, timed out).
func vWireGuard(fn func()) (string, bool) {
	done := make(chan string, 1)
	go func() {
		defer func() {
			if r := recover(); r != nil {
				done <- fmt.Sprintf("%v", r)
				return
			}
			done <- ""
		}()
		fn()
	}()
	select {
	case p := <-done:
		return p, false
	case <-time.After(vWireWatchdog):
		return "", true
	}
}

func vWireComm(c []int) community.BGPCommunity {
	var cm community.BGPCommunity
	var err error
	if len(c) == 3 {
		cm, err = community.New(fmt.Sprintf("large:%d:%d:%d", c[0], c[1], c[2]))
	} else {
		cm, err = community.New(fmt.Sprintf("%d:%d", c[0], c[1]))
	}
	kit.Must(err)
	return cm
}

// vWireSend performs one send on the sink (the caller has called sink.begin).
func vWireSend(sink *vWireSink, in *vWireInput) error {
	switch in.Kind {
	case "open":
		return sendOpen(sink, vWireU32(in.Asn), vWireIP(in.Rid, 4), time.Duration(in.Hold)*time.Second)
	case "update":
		adv := &bgp.Advertisement{Prefix: vWireNet(in.vWirePfx), LocalPref: vWireU32(in.Lp)}
		for _, c := range in.Comms {
			adv.Communities = append(adv.Communities, vWireComm(c))
		}
		return sendUpdate(sink, vWireU32(in.Asn), in.Ibgp, in.Fbasn, net.IP(vWireBytes(in.Nh)), adv)
	case "withdraw":
		var ps []*net.IPNet
		for _, p := range in.Prefixes {
			ps = append(ps, vWireNet(p))
		}
		return sendWithdraw(sink, ps)
	case "keepalive":
		return sendKeepalive(sink)
	}
	panic("verif: unknown writer kind " + in.Kind)
}

func vWireCallObs(id string, in *vWireInput, raw []byte, sink *vWireSink, err error, pn string, to bool) vWireWriteObs {
	o := vWireWriteObs{ID: id, Kind: in.Kind, P: json.RawMessage(raw), Panic: pn, Timeout: to, Bytes: []int{}}
	if !to {
		o.Bytes, o.NWritten, o.Offered, o.Writes = vWireInts(sink.buf), sink.n, sink.offered, sink.writes
		if err != nil {
			o.Err = err.Error()
		}
	}
	return o
}

func vWireWrite(in *vWireInput, raw []byte) vWireWriteObs {
	sink := &vWireSink{}
	sink.begin(-1)
	var err error
	pn, to := vWireGuard(func() { err = vWireSend(sink, in) })
	return vWireCallObs(in.ID, in, raw, sink, err, pn, to)
}

// vWireHistory performs the sends of one history one after the other in ONE goroutine on one
// connection object; a panic or a hang ends the history (the remaining steps are logged as not run).
func vWireHistory(in *vWireInput) vWireHistObs {
	out := vWireHistObs{ID: in.ID, Kind: "history", Steps: []vWireWriteObs{}}
	steps := make([]vWireInput, len(in.Steps))
	for i, raw := range in.Steps {
		if err := json.Unmarshal(raw, &steps[i]); err != nil {
			panic("verif: history step: " + err.Error())
		}
	}
	sink := &vWireSink{}
	done := 0
	var obs []vWireWriteObs
	pn, to := vWireGuard(func() {
		for i := range steps {
			sink.begin(steps[i].Failat)
			err := vWireSend(sink, &steps[i])
			obs = append(obs, vWireCallObs(in.ID, &steps[i], in.Steps[i], sink, err, "", false))
			done = i + 1
		}
	})
	if to {
		// the goroutine may still be running: do not touch what it owns
		out.Steps = append(out.Steps, vWireWriteObs{ID: in.ID, Kind: steps[0].Kind, P: in.Steps[0], Bytes: []int{}, Timeout: true})
		return out
	}
	out.Steps = append(out.Steps, obs...)
	if pn != "" && done < len(steps) {
		out.Steps = append(out.Steps, vWireCallObs(in.ID, &steps[done], in.Steps[done], sink, nil, pn, false))
	}
	return out
}

func vWireRead(in *vWireInput) vWireReadObs {
	src := &vWireSource{data: vWireBytes(in.Stream), chunk: in.Chunk}
	var res *openResult
	var err error
	pn, to := vWireGuard(func() { res, err = readOpen(src) })
	o := vWireReadObs{ID: in.ID, Kind: "read", Stream: append([]int{}, in.Stream...), Chunk: in.Chunk,
		Asn: []int{0, 0, 0, 0}, Panic: pn, Timeout: to}
	if to {
		return o
	}
	o.Consumed = src.consumed
	if err != nil {
		o.Err = err.Error()
	}
	if pn == "" && err == nil && res != nil {
		o.Ok = true
		o.Asn = []int{int(res.asn >> 24), int(res.asn >> 16 & 0xff), int(res.asn >> 8 & 0xff), int(res.asn & 0xff)}
		o.Hold = int(res.holdTime / time.Second)
		o.Mp4, o.Mp6, o.Fbasn = res.mp4, res.mp6, res.fbasn
	} else if pn == "" && err == nil {
		o.Err = "verif: nil result without error"
	}
	return o
}

func TestVerifWire(t *testing.T) {
	f, err := os.Open(os.Getenv("VERIF_SCENARIOS"))
	if err != nil {
		t.Fatalf("VERIF_SCENARIOS: %v", err)
	}
	defer f.Close()
	out := kit.NewObsWriter()
	defer out.Close()
	// readOpen prints the fixed part of every OPEN it parses to stdout; keep the test output small
	if devnull, derr := os.OpenFile(os.DevNull, os.O_WRONLY, 0); derr == nil {
		saved := os.Stdout
		os.Stdout = devnull
		defer func() { os.Stdout = saved; devnull.Close() }()
	}
	sc := bufio.NewScanner(f)
	sc.Buffer(make([]byte, 1<<20), 1<<26)
	for sc.Scan() {
		if len(sc.Bytes()) == 0 {
			continue
		}
		raw := append([]byte{}, sc.Bytes()...)
		var in vWireInput
		if err := json.Unmarshal(raw, &in); err != nil {
			t.Fatalf("scenario line: %v", err)
		}
		if in.Kind == "read" {
			out.Write(vWireRead(&in))
		} else if in.Kind == "history" {
			out.Write(vWireHistory(&in))
		} else {
			out.Write(vWireWrite(&in, raw))
		}
	}
}
