------------------------------- MODULE Domain -------------------------------
(***************************************************************************)
(* Shared abstraction maps: addresses, blocks (CIDRs), pools, the layout    *)
(* catalogue, service identities.  The Go harness never keeps its own copy  *)
(* of this: `DomainJson` is printed by TLC and read by the harness.         *)
(*                                                                         *)
(* Addresses.  IPv4 index i (0..99)  |->  192.168.0.254 + i, so that        *)
(*   0 = 192.168.0.254, 1 = 192.168.0.255 (buggy), 2 = 192.168.1.0 (buggy), *)
(*   3 = 192.168.1.1, 4 = 192.168.1.2, 5 = 192.168.1.3.                     *)
(* IPv6 index 100+j |-> fc00::1:0 + j.                                      *)
(***************************************************************************)
EXTENDS Integers, Sequences, FiniteSets, TLC

(* NULL is a record so that TLC can compare it with the records it stands in
   for; "no address" is the integer NOADDR. *)
NULL == [null |-> TRUE]
NOADDR == -1

IsV4(a) == a < 100
Fam(a)  == IF a < 100 THEN "v4" ELSE "v6"
Buggy(a) == a \in {1, 2}

Range(f) == {f[x] : x \in DOMAIN f}

(* Blocks: one CIDR each; `addrs` is the enumeration order of the CIDR.     *)
Blk == [
  b01 |-> [cidr |-> "192.168.0.254/31", fam |-> "v4", addrs |-> <<0, 1>>],
  b23 |-> [cidr |-> "192.168.1.0/31",   fam |-> "v4", addrs |-> <<2, 3>>],
  b45 |-> [cidr |-> "192.168.1.2/31",   fam |-> "v4", addrs |-> <<4, 5>>],
  b25 |-> [cidr |-> "192.168.1.0/30",   fam |-> "v4", addrs |-> <<2, 3, 4, 5>>],
  b0  |-> [cidr |-> "192.168.0.254/32", fam |-> "v4", addrs |-> <<0>>],
  b1  |-> [cidr |-> "192.168.0.255/32", fam |-> "v4", addrs |-> <<1>>],
  b2  |-> [cidr |-> "192.168.1.0/32",   fam |-> "v4", addrs |-> <<2>>],
  b3  |-> [cidr |-> "192.168.1.1/32",   fam |-> "v4", addrs |-> <<3>>],
  v01 |-> [cidr |-> "fc00::1:0/127",    fam |-> "v6", addrs |-> <<100, 101>>],
  v23 |-> [cidr |-> "fc00::1:2/127",    fam |-> "v6", addrs |-> <<102, 103>>],
  v0  |-> [cidr |-> "fc00::1:0/128",    fam |-> "v6", addrs |-> <<100>>],
  v1  |-> [cidr |-> "fc00::1:1/128",    fam |-> "v6", addrs |-> <<101>>]
]

(* A pool.  alloc = NULL (unpinned) or [prio, nss, sels]; a pinned pool     *)
(* with nss = {} and sels = {} is "pinned to everything" (selector          *)
(* Everything()).  sels is a set of service labels; a service matches when  *)
(* its label is in the set.                                                *)
Pool(name, blocks, avoid, auto, alloc) ==
  [name |-> name, cidrs |-> [i \in 1..Len(blocks) |-> Blk[blocks[i]]],
   avoid |-> avoid, auto |-> auto, alloc |-> alloc]

Pin(prio, nss, sels) == [prio |-> prio, nss |-> nss, sels |-> sels]

(* The layout catalogue: layout name |-> sequence of pools.                 *)
Layouts == [
  E        |-> <<>>,
  A        |-> << Pool("p1", <<"b01", "v01">>, FALSE, TRUE, NULL) >>,
  Aren     |-> << Pool("q1", <<"b01", "v01">>, FALSE, TRUE, NULL) >>,
  Asplit   |-> << Pool("p1", <<"b01">>, FALSE, TRUE, NULL),
                  Pool("p2", <<"v01">>, FALSE, TRUE, NULL) >>,
  Aavoid   |-> << Pool("p1", <<"b01", "v01">>, TRUE, TRUE, NULL) >>,
  Anoauto  |-> << Pool("p1", <<"b01", "v01">>, FALSE, FALSE, NULL) >>,
  Agrow    |-> << Pool("p1", <<"b01", "v01", "b23">>, FALSE, TRUE, NULL) >>,
  One      |-> << Pool("p1", <<"b0">>, FALSE, TRUE, NULL) >>,
  OneRen   |-> << Pool("q1", <<"b0">>, FALSE, TRUE, NULL) >>,
  Two      |-> << Pool("p1", <<"b01">>, FALSE, TRUE, NULL) >>,
  TwoRen   |-> << Pool("q1", <<"b01">>, FALSE, TRUE, NULL) >>,
  TwoSplit |-> << Pool("p1", <<"b0">>, FALSE, TRUE, NULL),
                  Pool("p2", <<"b1">>, FALSE, TRUE, NULL) >>,
  TwoAvoid |-> << Pool("p1", <<"b01">>, TRUE, TRUE, NULL) >>,
  TwoMove  |-> << Pool("p1", <<"b23">>, FALSE, TRUE, NULL) >>,
  TwoPlus  |-> << Pool("p1", <<"b01">>, FALSE, TRUE, NULL),
                  Pool("p2", <<"b3">>, FALSE, FALSE, NULL) >>,
  B        |-> << Pool("p1", <<"b01">>, FALSE, TRUE, NULL),
                  Pool("p2", <<"b23">>, TRUE, TRUE, NULL),
                  Pool("p3", <<"v01">>, FALSE, TRUE, NULL) >>,
  PinNs    |-> << Pool("p1", <<"b01">>, FALSE, TRUE, NULL),
                  Pool("p2", <<"b23">>, FALSE, TRUE, Pin(2, {"ns1"}, {})),
                  Pool("p3", <<"b45">>, FALSE, TRUE, Pin(1, {"ns1"}, {})) >>,
  PinZero  |-> << Pool("p1", <<"b0">>, FALSE, TRUE, NULL),
                  Pool("p2", <<"b3">>, FALSE, TRUE, Pin(0, {"ns1"}, {})),
                  Pool("p3", <<"b45">>, FALSE, TRUE, Pin(5, {}, {"x"})) >>,
  PinZero2 |-> << Pool("p1", <<"b0">>, FALSE, TRUE, NULL),
                  Pool("p2", <<"b3">>, FALSE, TRUE, Pin(5, {"ns1"}, {})),
                  Pool("p3", <<"b45">>, FALSE, TRUE, Pin(0, {"ns1"}, {})) >>,
  PinZero3 |-> << Pool("p1", <<"b0">>, FALSE, TRUE, NULL),
                  Pool("p2", <<"b3">>, FALSE, TRUE, Pin(7, {"ns1"}, {})),
                  Pool("p3", <<"b45">>, FALSE, TRUE, Pin(0, {}, {"x"})),
                  Pool("p4", <<"v01">>, FALSE, TRUE, Pin(3, {}, {"x"})) >>,
  PinAll   |-> << Pool("p1", <<"b0">>, FALSE, TRUE, NULL),
                  Pool("p2", <<"b3">>, FALSE, TRUE, Pin(0, {}, {})) >>,
  PinDual  |-> << Pool("p1", <<"b0">>, FALSE, TRUE, Pin(1, {"ns1"}, {})),
                  Pool("p2", <<"b3", "v0">>, FALSE, TRUE, Pin(2, {"ns1"}, {})),
                  Pool("p3", <<"v1">>, FALSE, TRUE, NULL) >>,
  PinNoAuto |-> << Pool("p1", <<"b0">>, FALSE, TRUE, NULL),
                   Pool("p2", <<"b3">>, FALSE, FALSE, Pin(1, {"ns1"}, {})) >>,
  PinNoAuto2 |-> << Pool("p1", <<"b0">>, FALSE, TRUE, Pin(5, {"ns1"}, {})),
                    Pool("p2", <<"b3">>, FALSE, FALSE, Pin(1, {"ns1"}, {})) >>,
  PinSel1  |-> << Pool("p1", <<"b01">>, FALSE, TRUE, Pin(1, {}, {"x"})),
                  Pool("p2", <<"b23">>, FALSE, TRUE, NULL) >>,
  PinSel2  |-> << Pool("p1", <<"b01">>, FALSE, TRUE, Pin(1, {}, {"x", "y"})),    \* two serviceSelectors: any of them admits
                  Pool("p2", <<"b23">>, FALSE, TRUE, NULL) >>,
  PinMoveA |-> << Pool("p1", <<"b01">>, FALSE, TRUE, Pin(1, {"ns1"}, {})),
                  Pool("p2", <<"b3">>, FALSE, TRUE, NULL) >>,
  PinMoveB |-> << Pool("p1", <<"b01">>, FALSE, TRUE, Pin(1, {"ns2"}, {})),
                  Pool("p2", <<"b3">>, FALSE, TRUE, NULL) >>,
  Big      |-> << Pool("p1", <<"b25">>, TRUE, TRUE, NULL) >>,
  S32      |-> << Pool("p1", <<"b1">>, TRUE, TRUE, NULL),
                  Pool("p2", <<"b3">>, FALSE, TRUE, NULL) >>,
  Mixed    |-> << Pool("p1", <<"b0", "b3", "v0">>, FALSE, TRUE, NULL),
                  Pool("p2", <<"v1">>, FALSE, TRUE, NULL) >>,
  Dual     |-> << Pool("p1", <<"b0", "v0">>, FALSE, TRUE, NULL),
                  Pool("p2", <<"b3">>, FALSE, TRUE, NULL),
                  Pool("p3", <<"v1">>, FALSE, TRUE, NULL) >>
]

LayoutNames == DOMAIN Layouts

(* Service identities.  Namespace and label are fixed per identity; the     *)
(* rest of a service is its (mutable) spec.                                 *)
SvcMeta == [
  s1 |-> [ns |-> "ns1", label |-> "x"],
  s2 |-> [ns |-> "ns1", label |-> "y"],
  s3 |-> [ns |-> "ns2", label |-> "x"],
  s4 |-> [ns |-> "ns2", label |-> "y"],
  s9 |-> [ns |-> "ns1", label |-> "x"]    \* the harness's probe identity, never allocated at observation points
]

----------------------------------------------------------------------------
(* Pool geometry                                                            *)

PoolsOf(L) == Range(Layouts[L])
PoolNames(L) == {p.name : p \in PoolsOf(L)}
PoolNamed(L, n) == CHOOSE p \in PoolsOf(L) : p.name = n
HasPool(L, n) == n \in PoolNames(L)

PoolAddrSet(p) == UNION {Range(p.cidrs[i].addrs) : i \in DOMAIN p.cidrs}
Usable(p, a) == a \in PoolAddrSet(p) /\ ~(p.avoid /\ Buggy(a))
UsableSet(p) == {a \in PoolAddrSet(p) : Usable(p, a)}

(* poolFor: the pools that contain every address of the (non-empty) set.    *)
PoolsFor(L, ipset) == {p \in PoolsOf(L) : \A a \in ipset : Usable(p, a)}

Compatible(p, s) ==
  IF p.alloc = NULL THEN TRUE
  ELSE /\ (p.alloc.nss # {} => SvcMeta[s].ns \in p.alloc.nss)
       /\ (p.alloc.sels # {} => SvcMeta[s].label \in p.alloc.sels)

(* Addresses of pool p of family f, in the order the code scans them.       *)
RECURSIVE ConcatAddrs(_, _, _)
ConcatAddrs(cidrs, i, f) ==
  IF i > Len(cidrs) THEN <<>>
  ELSE (IF cidrs[i].fam = f THEN cidrs[i].addrs ELSE <<>>) \o ConcatAddrs(cidrs, i + 1, f)
ScanOrder(p, f) == ConcatAddrs(p.cidrs, 1, f)

(* Number of usable addresses of family f (the documented meaning of the    *)
(* pool counters; every block of the catalogue is tiny, no saturation).     *)
PoolCountFam(p, f) == Cardinality({a \in UsableSet(p) : Fam(a) = f})

=============================================================================
