----------------------------- MODULE ConfigLoadMC -----------------------------
(***************************************************************************)
(* Roles A and B for the function-shaped half of C18.  Every initial state  *)
(* is one resource snapshot with 0..4 objects of every kind; TLC checks     *)
(* that the modelled loader feeds the parser in an order that does not      *)
(* depend on the listing (role A) and prints the snapshot with the          *)
(* permutations of every kind (role B); the harness calls the real toConfig *)
(* for the listed order, for repetitions, and for every permutation.        *)
(***************************************************************************)
EXTENDS ConfigLoad, Json

CONSTANTS PinModes, MaxN

VARIABLE snap

L == <<"a", "b", "c", "d", "e">>
Nm(prefix, i) == prefix \o L[i]

PoolObj(i, pin, bad, n) ==
  [name |-> Nm("pool-", i),
   cidr |-> IF bad = "overlap" /\ i = n /\ n >= 2 THEN 1 ELSE i,
   ns |-> CASE pin = "two" /\ i <= 2 -> <<"ns1">>
            [] pin = "three" /\ i <= 3 -> <<"ns1">>
            [] pin = "all" -> <<"ns1">>
            [] pin = "both" -> <<"ns1", "ns2">>
            [] pin = "spread" -> IF i % 2 = 1 THEN <<"ns1">> ELSE <<"ns2">>
            [] OTHER -> <<>>,
   sel |-> pin = "sel",
   nssel |-> pin = "nssel",
   prio |-> i]

PeerObj(i, bad) == [name |-> Nm("peer-", i), addr |-> i, bfd |-> IF bad = "nobfd" /\ i = 1 THEN "bfd-zz" ELSE ""]
BfdObj(i) == [name |-> Nm("bfd-", i)]
AdvPools(i, adv, np) == IF adv = "named" /\ np > 0 THEN <<Nm("pool-", ((i - 1) % np) + 1)>> ELSE <<>>
L2Obj(i, adv, np) == [name |-> Nm("l2-", i), pools |-> AdvPools(i, adv, np), ifs |-> <<Nm("if-", i)>>]
BgpObj(i, adv, bad, np, nc) ==
  [name |-> Nm("bgp-", i), pools |-> AdvPools(i, adv, np),
   agg4 |-> IF bad = "lpclash" THEN 32 ELSE 32 - i,
   lp |-> IF bad = "lpclash" THEN 100 * i ELSE 0,
   comm |-> IF i <= nc THEN Nm("al-", i) ELSE ""]
ComObj(i, bad, n) == [name |-> Nm("com-", i), alias |-> IF bad = "dupalias" /\ i = n /\ n >= 2 THEN Nm("al-", 1) ELSE Nm("al-", i), value |-> i]
NodeObj(i) == [name |-> Nm("node-", i), zone |-> L[i]]
NsObj(i) == [name |-> IF i <= 2 THEN Nm("ns", i) ELSE Nm("nsx-", i), lab |-> IF i % 2 = 1 THEN "x" ELSE "y"]

Objs(c, pin, adv, bad) ==
  [pools |-> [i \in 1 .. c["pools"] |-> PoolObj(i, pin, bad, c["pools"])],
   peers |-> [i \in 1 .. c["peers"] |-> PeerObj(i, bad)],
   bfds |-> [i \in 1 .. c["bfds"] |-> BfdObj(i)],
   l2advs |-> [i \in 1 .. c["l2advs"] |-> L2Obj(i, adv, c["pools"])],
   bgpadvs |-> [i \in 1 .. c["bgpadvs"] |-> BgpObj(i, adv, bad, c["pools"], c["communities"])],
   communities |-> [i \in 1 .. c["communities"] |-> ComObj(i, bad, c["communities"])],
   nodes |-> [i \in 1 .. c["nodes"] |-> NodeObj(i)],
   namespaces |-> [i \in 1 .. c["namespaces"] |-> NsObj(i)]]

CountVecs ==
  {[k \in Kinds |-> c] : c \in 0 .. MaxN}
  \cup {[k \in Kinds |-> IF k = k0 THEN c ELSE b] : k0 \in Kinds, c \in {3, MaxN}, b \in {0, 1, 2}}

AdvModes == {"all", "named"}
BadModes == {"none", "overlap", "lpclash", "dupalias", "nobfd"}

Params == {[n |-> c, pin |-> pin, adv |-> adv, bad |-> bad] : c \in CountVecs, pin \in PinModes, adv \in AdvModes, bad \in BadModes}

(* permutations of a kind with n objects, as sequences of listing positions *)
PermSeqs(n) == PermsOf(n)

(* printed once: perms[n] = every permutation of n listing positions *)
ASSUME PrintT(ToJson([perms |-> [k \in 1 .. MaxN |-> PermSeqs(k)]]))

Init == /\ snap \in Params
        /\ PrintT(ToJson([snap |-> snap, objs |-> Objs(snap.n, snap.pin, snap.adv, snap.bad)]))
Next == UNCHANGED snap
Spec == Init /\ [][Next]_snap

(* Role A: the modelled loader hands every kind to the parser in an order   *)
(* that is a function of the set                                            *)
InvOrderFree == \A k \in Kinds : OrderFreeKind(snap.n[k])
=============================================================================
