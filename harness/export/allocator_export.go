//go:build verif

package allocator

// Added to the package by the verification overlay only (never on disk in /repo): a read-only
// projection of the allocator's memory for harnesses that live in other packages.

import "net"

type VerifAlloc struct {
	Pool    string
	IPs     []net.IP
	Ports   []Port
	Sharing string
	Backend string
}

func VerifSnapshot(a *Allocator) map[string]VerifAlloc {
	out := map[string]VerifAlloc{}
	for k, al := range a.allocated {
		v := VerifAlloc{Pool: al.pool, Sharing: al.key.sharing, Backend: al.key.backend}
		v.IPs = append(v.IPs, al.ips...)
		v.Ports = append(v.Ports, al.ports...)
		out[k] = v
	}
	return out
}
