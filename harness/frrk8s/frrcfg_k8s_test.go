//go:build verif

package frr

// C15 harness: the scenarios of spec/FRRMC.tla (one-shot session sets in several creation orders,
// and histories observed after every operation) are played against the real frr-k8s session
// manager with a DEBUG-level logger (so that the dump paths run).  The value handed to the
// config-changed callback is KEPT AS HANDED OVER (no copy): its digest is taken inside the callback
// and again when the operation has returned, and the projection logged is that of the second look.
// One observation per look.  No oracle here.

import (
	"fmt"
	"testing"

	"github.com/go-kit/log"
	frrv1beta1 "github.com/metallb/frr-k8s/api/v1beta1"
	"go.universe.tf/metallb/internal/logging"
	"go.universe.tf/metallb/internal/verifkit"
)

func TestVerifFrrcfgK8s(t *testing.T) {
	scs := verifkit.FrrReadScenarios()
	out := verifkit.NewObsWriter()
	defer out.Close()
	withText := verifkit.FrrWithText()
	l := log.NewNopLogger()
	verifkit.FrrForEach(scs, out, func(sc verifkit.FrrScenario, b *verifkit.Block) {
		first := map[string]int{}
		seq := 0
		for k, ops := range sc.Orders {
			sm := NewSessionManager(l, logging.LevelDebug, sc.Node, sc.Ns)
			var handed *frrv1beta1.FRRConfiguration // the value of the last callback, as handed over
			sha0, calls := "", 0
			var cbErrs []string
			sm.SetEventCallback(func(v interface{}) {
				calls++
				c, ok := v.(frrv1beta1.FRRConfiguration)
				if !ok {
					cbErrs = append(cbErrs, fmt.Sprintf("callback got %T", v))
					return
				}
				handed = &c // shares every slice with what the session manager goes on using
				sha0, _, _ = verifkit.FrrCRDigest(handed)
			})
			verifkit.FrrRun(sm, l, sc, ops, func(lk verifkit.FrrLook) {
				seq++
				o := verifkit.FrrK8sObs{ID: sc.ID, Ord: k + 1, Step: lk.Step, Seq: seq, Mode: "k8s", Path: "callback", Node: sc.Node,
					Ns: sc.Ns, Sessions: lk.Sessions, Created: lk.Created, Errs: append(lk.Errs, cbErrs...), Refusals: lk.Refusals,
					RefusedOK: lk.RefusedOK, Calls: calls, Sha0: sha0}
				if handed == nil {
					o.CR = verifkit.FrrEmptyCR()
				} else {
					o.Sha, o.Len, o.JSON = verifkit.FrrCRDigest(handed)
					cr := verifkit.FrrProjectCR(handed)
					o.CR = &cr
				}
				key := verifkit.FrrSameKey(o.Sha0+"|"+o.Sha+"|"+o.JSON, o.Sessions)
				if f, ok := first[key]; ok {
					o.Same, o.Sessions, o.CR = f, nil, nil // compression only: the driver copies them from that observation
				} else {
					first[key] = seq
				}
				if !withText || o.Same > 0 {
					o.JSON = ""
				}
				b.Add(o)
			})
		}
	})
	t.Logf("verif: %d scenarios, %d observations", len(scs), out.N)
}
