---------------------------- MODULE SpeakerTrace ----------------------------
(***************************************************************************)
(* Role C for the speaker family: TLC evaluates the predicates of C05 and   *)
(* C09 on the observations of the real speaker controller.                  *)
(*                                                                         *)
(* C05 is judged after every step at which every announced service has      *)
(* been handled under the configuration the speaker now holds (between the  *)
(* loading of a configuration and the re-sync it requests the advertisements*)
(* are still those of the previous configuration): the reference is what    *)
(* the speaker itself says it announces (c.announced, c.svcIPs) under the   *)
(* configuration it holds (pool -> advertisement -> node set, read from     *)
(* c.config; attributes by advertisement name from the catalogue).          *)
(* C09 is judged at quiescent observations against Fresh(cluster).          *)
(***************************************************************************)
EXTENDS Speaker, Json

Trace == ndJsonDeserialize("obs.ndjson")
N == Len(Trace)
VARIABLE i

IsNull(j) == "null" \in DOMAIN j
SvcOf(j) == IF IsNull(j) THEN NULL ELSE Sv(j.type, j.ips, j.etp, Range(j.eps))
Cluster(o) == [svcs |-> [s \in SpkSvcs |-> IF s \in DOMAIN o.cl.svcs THEN SvcOf(o.cl.svcs[s]) ELSE NULL],
               nodes |-> [n \in SpkNodes |-> o.cl.nodes[n]],
               layout |-> o.cl.layout, members |-> Range(o.cl.members), ml |-> o.cl.ml, ign |-> o.cl.ign]
RankOf(o) == [a \in AllV4 \cup AllV6 |-> IF ToString(a) \in DOMAIN o.rank THEN o.rank[ToString(a)] ELSE Me]

(* the configuration the speaker holds, in the form Routes needs *)
HasCfg(o) == ~IsNull(o.ctl)
LoadedOf(o) == [pools |-> DOMAIN o.ctl.pools,
                bgp |-> [p \in DOMAIN o.ctl.pools |-> [x \in DOMAIN o.ctl.pools[p].bgp |-> Range(o.ctl.pools[p].bgp[x])]]]
AnnB(o) == Range(o.annB)
IpsOf(o) == [s \in SpkSvcs |-> IF s \in DOMAIN o.ips THEN o.ips[s] ELSE <<>>]
SeenMe(o) == IF Me \in DOMAIN o.seen THEN o.seen[Me] ELSE NULL
RouteSet(po) == {[pfx |-> r.pfx, lp |-> r.lp, comms |-> Range(r.comms)] : r \in Range(po.routes)}
SameWalk(j, k) == j >= 1 /\ Trace[j].w = Trace[k].w /\ Trace[j].n + 1 = Trace[k].n

(* ... and no handler call that failed is waiting to be retried *)
(* ... or nothing at all is pending (quiescent): what is offered now is final *)
Settled(o) == HasCfg(o) /\ (AnnB(o) \subseteq Range(o.since) \/ o.q) /\ o.errS = <<>>

----------------------------------------------------------------------------
(* C05 *)
C05_SessionsExact(o) ==
  Settled(o) =>
    LET ld == LoadedOf(o) IN
    \A p \in DOMAIN o.peers :
       /\ (o.peers[p].up => PeerShouldRun([name |-> p, nsel |-> o.peers[p].nsel], SeenMe(o)))
       \* a peer whose latest session start failed (injected) need not be up
       /\ ((PeerShouldRun([name |-> p, nsel |-> o.peers[p].nsel], SeenMe(o)) /\ p \notin Range(o.sf)) => o.peers[p].up)
       /\ (o.peers[p].up => RouteSet(o.peers[p]) = Routes(ld, AnnB(o), IpsOf(o), p))

(* how SessionsExact fails: a route the reference has is not offered ("missing"), a route is
   offered that the reference does not have ("extra"), a session is up / down wrongly ("live") *)
SxKinds(o) ==
  IF ~Settled(o) THEN {} ELSE
  LET ld == LoadedOf(o)
      ups == {p \in DOMAIN o.peers : o.peers[p].up}
  IN (IF \E p \in ups : Routes(ld, AnnB(o), IpsOf(o), p) \ RouteSet(o.peers[p]) # {} THEN {"missing"} ELSE {}) \cup
     (IF \E p \in ups : RouteSet(o.peers[p]) \ Routes(ld, AnnB(o), IpsOf(o), p) # {} THEN {"extra"} ELSE {}) \cup
     (IF \E p \in DOMAIN o.peers :
           LET run == PeerShouldRun([name |-> p, nsel |-> o.peers[p].nsel], SeenMe(o))
           IN (o.peers[p].up /\ ~run) \/ (run /\ p \notin Range(o.sf) /\ ~o.peers[p].up)
      THEN {"live"} ELSE {})

(* a route offered before the step that no announced service produces any   *)
(* more is gone after the step (same session)                               *)
C05_Withdrawn(j, o) ==
  (SameWalk(j, i) /\ Settled(o)) =>
    LET ld == LoadedOf(o)  pre == Trace[j] IN
    \A p \in DOMAIN o.peers \cap DOMAIN pre.peers :
       (o.peers[p].up /\ pre.peers[p].up /\ o.peers[p].id = pre.peers[p].id) =>
          \A r \in RouteSet(pre.peers[p]) :
             r \notin Routes(ld, AnnB(o), IpsOf(o), p) => r \notin RouteSet(o.peers[p])

C05_ReportedPeers(o) ==
  Settled(o) =>
    LET ld == LoadedOf(o) IN
    \A s \in SpkSvcs :
       Range(o.rep[s]) = IF s \in AnnB(o)
                         THEN {p \in DOMAIN o.peers : o.peers[p].up /\
                                 \E r \in RouteSet(o.peers[p]) : r.pfx \in SvcPrefixes(ld, s, IpsOf(o))}
                         ELSE {}

----------------------------------------------------------------------------
(* C09 *)
ObsAnnounced(x) ==
  [l2 |-> {[s |-> e.s, ip |-> e.ip, all |-> e.all, ifs |-> Range(e.ifs)] : e \in Range(x.l2)},
   sess |-> [p \in PeerNames |-> IF p \in DOMAIN x.peers /\ x.peers[p].up THEN Up(RouteSet(x.peers[p])) ELSE Down]]

C09_Converged(o) == o.q => ObsAnnounced(o) = Fresh(Cluster(o), RankOf(o))
(* for the record: the fresh speaker that was actually started on the final *)
(* state, against the specification's Fresh and against the old speaker     *)
C09_FreshModel(o) == o.q => ObsAnnounced(o.fresh) = Fresh(Cluster(o), RankOf(o))
(* how the fresh speaker that was started differs from the specification's Fresh *)
L2Keys(x) == {[s |-> e.s, ip |-> e.ip] : e \in x.l2}
FreshKinds(o) ==
  LET a == ObsAnnounced(o.fresh)  b == Fresh(Cluster(o), RankOf(o)) IN
  (IF L2Keys(a) # L2Keys(b) THEN {"l2-set"} ELSE IF a.l2 # b.l2 THEN {"l2-scope"} ELSE {}) \cup
  (IF a.sess # b.sess THEN {"bgp"} ELSE {})
C09_SameAsObservedFresh(o) == o.q => ObsAnnounced(o) = ObsAnnounced(o.fresh)
C09_Drains(o) == o.op = "Drained" => (o.q \/ o.cfgQ)

Fails(k) ==
  LET o == Trace[k]  j == k - 1 IN
  (IF C05_SessionsExact(o) THEN {} ELSE {"C05.SessionsExact"}) \cup
  (IF C05_Withdrawn(j, o) THEN {} ELSE {"C05.Withdrawn"}) \cup
  (IF C05_ReportedPeers(o) THEN {} ELSE {"C05.ReportedPeers"}) \cup
  (IF C09_Converged(o) THEN {} ELSE {"C09.Converged"}) \cup
  (IF C09_FreshModel(o) THEN {} ELSE {"C09.FreshModel"}) \cup
  (IF C09_SameAsObservedFresh(o) THEN {} ELSE {"C09.DiffersFromObservedFresh"}) \cup
  (IF C09_Drains(o) THEN {} ELSE {"C09.Drains"})

Init == i = 1
Next == i < N /\ i' = i + 1
Judge ==
  LET f == Fails(i) IN
  /\ (f = {} \/ PrintT(ToJson([fails |-> f, line |-> i, w |-> Trace[i].w, step |-> Trace[i].n,
                                fm |-> (IF "C09.FreshModel" \in f THEN FreshKinds(Trace[i]) ELSE {}) \cup
                                       (IF "C05.SessionsExact" \in f THEN SxKinds(Trace[i]) ELSE {})])))
  /\ (i < N \/ PrintT(ToJson([done |-> N])))
=============================================================================
