------------------------------ MODULE Election ------------------------------
(***************************************************************************)
(* Layer-2 election (C04, C12) and BGP announcement eligibility (C10) as    *)
(* functions of a *view* shared by the speakers.                            *)
(*                                                                         *)
(* view == [ nodes : [node name -> [known, alive, unavail, excl]],          *)
(*           ml    : BOOLEAN   (memberlist enabled),                        *)
(*           ign   : BOOLEAN   (speaker started with ignore-exclude-lb),    *)
(*           advs  : sequence of node-name sets (the node selection of each *)
(*                   L2 resp. BGP advertisement of the address's pool),     *)
(*           etp   : "Cluster" | "Local",                                   *)
(*           eps   : sequence (slices) of sequences (entries) of            *)
(*                   [addrs : sequence of endpoint addresses,               *)
(*                    node  : node name | "nx" (a node without speaker,     *)
(*                            never in DOMAIN nodes) | "" (nil NodeName),   *)
(*                    ready, serving : "nil" | "T" | "F"] ]                 *)
(*                                                                         *)
(* known = the speakers hold a Node object for the name; the flags unavail  *)
(* (NetworkUnavailable condition True) and excl (exclude-from-external-     *)
(* load-balancers label) only exist on known nodes.  alive = member of the  *)
(* memberlist.                                                             *)
(*                                                                         *)
(* The election order is NOT computed here (no SHA-256): `rank` is a        *)
(* parameter - any injective function node -> Nat - in the design checks,   *)
(* and the *observed* outcome of two-node duels in the trace judge.         *)
(***************************************************************************)
EXTENDS Integers, Sequences, FiniteSets, TLC

ERange(f) == {f[x] : x \in DOMAIN f}

NodesOf(v) == DOMAIN v.nodes

(* ---------------------------------------------------------------- nodes  *)
Selected(v, n) == \E i \in DOMAIN v.advs : n \in v.advs[i]

Unavailable(v, n) == v.nodes[n].known /\ v.nodes[n].unavail
Excluded(v, n)    == v.nodes[n].known /\ v.nodes[n].excl /\ ~v.ign
NodeUsable(v, n)  == ~Unavailable(v, n) /\ ~Excluded(v, n)

(* a live speaker: member of the memberlist, or - membership tracking       *)
(* disabled - every known node                                              *)
HasSpeaker(v, n) == IF v.ml THEN v.nodes[n].alive ELSE v.nodes[n].known

(* ------------------------------------------------------------ endpoints  *)
Entries(eps) == UNION {ERange(eps[i]) : i \in DOMAIN eps}

(* EndpointCanServe: ready (nil counts as ready, the Kubernetes convention) *)
(* or serving (terminating endpoints)                                       *)
Serves(e) == e.ready \in {"nil", "T"} \/ e.serving = "T"

AnyServing(eps) == \E e \in Entries(eps) : Serves(e)
Hosts(eps, n)   == \E e \in Entries(eps) : Serves(e) /\ e.node = n

(* ------------------------------------------------------- layer 2 (C04)   *)
L2Candidate(v, n) == HasSpeaker(v, n) /\ Selected(v, n) /\ NodeUsable(v, n)

L2EligibleNode(v, n) ==
  /\ L2Candidate(v, n)
  /\ AnyServing(v.eps)
  /\ (v.etp = "Local" => Hosts(v.eps, n))

L2Eligible(v) == {n \in NodesOf(v) : L2EligibleNode(v, n)}

(* rank-minimal element of a non-empty set                                  *)
MinBy(E, rank) == CHOOSE n \in E : \A m \in E : rank[n] <= rank[m]

(* the set of announcers the property demands: one winner, or nobody        *)
Winner(v, rank) == LET E == L2Eligible(v) IN IF E = {} THEN {} ELSE {MinBy(E, rank)}

(* The decision procedure the way layer2Controller.ShouldAnnounce is        *)
(* structured (early returns, speaker map, Local filter, sort, first wins). *)
CodeSpeakers(v) == {s \in NodesOf(v) : HasSpeaker(v, s) /\ NodeUsable(v, s) /\ Selected(v, s)}

CodeAvailable(v) ==
  IF v.etp = "Local"
  THEN {e.node : e \in {x \in Entries(v.eps) : Serves(x) /\ x.node # "" /\ x.node \in CodeSpeakers(v)}}
  ELSE CodeSpeakers(v)

CodeL2Announces(v, me, rank) ==
  IF ~AnyServing(v.eps) THEN FALSE
  ELSE IF ~Selected(v, me) THEN FALSE
  ELSE LET av == CodeAvailable(v) IN
       IF av = {} THEN FALSE ELSE MinBy(av, rank) = me

(* ---------------------------------------------------- C12: the lemmas    *)
(* for one address, i.e. one rank: W(E) is the rank-minimum of E            *)
W(E, rank) == IF E = {} THEN {} ELSE {MinBy(E, rank)}

LemmaRemove(U, rank) ==
  \A E \in SUBSET U : \A R \in SUBSET (E \ W(E, rank)) : W(E \ R, rank) = W(E, rank)

LemmaAdd(U, rank) ==
  \A E \in SUBSET U : \A A \in SUBSET U : W(E \cup A, rank) \subseteq (W(E, rank) \cup (A \ E))

(* no address moves between two nodes that were both eligible before and    *)
(* after a change                                                           *)
LemmaNoSwap(U, rank) ==
  \A E \in SUBSET U : \A F \in SUBSET U :
     (W(E, rank) \cup W(F, rank)) \subseteq (E \cap F) => W(E, rank) = W(F, rank)

(* all injective ranks over a node set, as functions node -> 1..|U|         *)
Ranks(U) == {r \in [U -> 1..Cardinality(U)] : \A a, b \in U : a # b => r[a] # r[b]}

(* ------------------------------------------------------------ BGP (C10)  *)
EpAddrs(eps) == UNION {ERange(e.addrs) : e \in Entries(eps)}
Carrying(eps, a) == {e \in Entries(eps) : a \in ERange(e.addrs)}

(* an endpoint address is ready only if every entry carrying it is ready    *)
(* or serving                                                               *)
AddrReady(eps, a) == \A e \in Carrying(eps, a) : Serves(e)
AddrOn(eps, a, n) == \E e \in Carrying(eps, a) : e.node = n

BGPEligible(v, n) ==
  /\ Selected(v, n)
  /\ NodeUsable(v, n)
  /\ IF v.etp = "Local"
     THEN \E a \in EpAddrs(v.eps) : AddrReady(v.eps, a) /\ AddrOn(v.eps, a, n)
     ELSE \E a \in EpAddrs(v.eps) : AddrReady(v.eps, a)

(* the domain restriction of C10: every endpoint address lives on one node  *)
(* (or on none)                                                             *)
OneNodePerAddr(eps) == \A a \in EpAddrs(eps) : Cardinality({e.node : e \in Carrying(eps, a)}) <= 1

(* bgpController.ShouldAnnounce the way it is structured: hasHealthyEndpoint *)
(* over the entries that pass the node filter, first the local filter, then *)
(* always the global one                                                    *)
CodeHealthy(eps, keep(_)) ==
  LET kept == {e \in Entries(eps) : keep(e)}
      addrs == UNION {ERange(e.addrs) : e \in kept}
  IN \E a \in addrs : \A e \in kept : a \in ERange(e.addrs) => Serves(e)

CodeBGPAnnounces(v, me) ==
  LET local(e) == e.node = me
      all(e) == TRUE
  IN IF ~Selected(v, me) THEN FALSE
     ELSE IF Unavailable(v, me) THEN FALSE
     ELSE IF Excluded(v, me) THEN FALSE
     ELSE IF v.etp = "Local" /\ ~CodeHealthy(v.eps, local) THEN FALSE
     ELSE CodeHealthy(v.eps, all)

=============================================================================
