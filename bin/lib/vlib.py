"""Shared machinery of /verif/bin/check: TLC runner, Go overlay runner, graph walks,
evidence and known-finding handling.  See DESIGN.md section 3."""
import hashlib
import json
import os
import re
import shutil
import subprocess
import sys
import time

VERIF = os.path.dirname(os.path.dirname(os.path.dirname(os.path.abspath(__file__))))
REPO = os.environ.get("VERIF_REPO", "/repo")
SPEC = os.path.join(VERIF, "spec")
HARNESS = os.path.join(VERIF, "harness")
WORK = os.path.join(VERIF, ".work")
TLAJAR = "/opt/veriftools/tla/tla2tools.jar:/opt/veriftools/tla/CommunityModules-deps.jar"
GOTOOLCHAIN_BIN = "/root/go/pkg/mod/golang.org/toolchain@v0.0.1-go1.23.6.linux-amd64/bin"
MODPATH = "go.universe.tf/metallb"


class Inconclusive(Exception):
    pass


def log(*a):
    print(*a, file=sys.stderr, flush=True)


def goenv():
    env = dict(os.environ)
    env["PATH"] = GOTOOLCHAIN_BIN + ":" + env.get("PATH", "")
    env.update(GOTOOLCHAIN="local", GOFLAGS="-mod=mod", GOPROXY="off", GOSUMDB="off",
               GOWORK="off", CGO_ENABLED=env.get("CGO_ENABLED", "1"))
    return env


# --------------------------------------------------------------------------- TLC

class TLCResult:
    def __init__(self):
        self.rc = None
        self.out = ""
        self.json = []          # parsed PrintT(ToJson(..)) lines
        self.generated = 0
        self.distinct = 0
        self.violated = None    # name of violated invariant / property
        self.error = None       # other TLC error text
        self.wall = 0.0

    @property
    def ok(self):
        return self.error is None and self.violated is None


_JSONLINE = re.compile(r'^"\{.*\}"$')


def tlc(workdir, module, cfg, workers=16, args=(), timeout=1800, heap="8g", extra_files=(),
        deque=False, want_json=True, json_sink=None):
    """Run TLC on spec/<module>.tla with spec/cfg/<cfg> (or an absolute cfg path / literal text)
    in a scratch copy of spec/.  Returns TLCResult."""
    os.makedirs(workdir, exist_ok=True)
    sdir = os.path.join(workdir, "spec_" + re.sub(r"\W", "_", os.path.basename(cfg))[:40])
    if os.path.exists(sdir):
        shutil.rmtree(sdir)
    os.makedirs(sdir)
    for f in os.listdir(SPEC):
        if f.endswith(".tla"):
            shutil.copy(os.path.join(SPEC, f), sdir)
    if "\n" in cfg:
        cfgname = module + "_gen.cfg"
        with open(os.path.join(sdir, cfgname), "w") as fh:
            fh.write(cfg)
    else:
        src = cfg if os.path.isabs(cfg) else os.path.join(SPEC, "cfg", cfg)
        cfgname = os.path.basename(src)
        shutil.copy(src, os.path.join(sdir, cfgname))
    for f in extra_files:
        dst = os.path.join(sdir, os.path.basename(f))
        if os.path.abspath(f) != os.path.abspath(dst):
            shutil.copy(f, dst)
    # TLC unpacks its standard modules into a fresh directory under java.io.tmpdir on every start and leaves it
    # behind; keep it inside this run's scratch directory (removed with it) instead of /tmp
    jtmp = os.path.join(sdir, "jtmp")
    os.makedirs(jtmp, exist_ok=True)
    jopts = ["-XX:+UseParallelGC", "-Xmx" + heap, "-Xss64m", "-Djava.io.tmpdir=" + jtmp]
    if deque:
        jopts.append("-Dtlc2.tool.queue.IStateQueue=StateDeque")
    cmd = ["java"] + jopts + ["-cp", TLAJAR, "tlc2.TLC", "-workers", str(workers),
                              "-metadir", os.path.join(sdir, "md"), "-config", cfgname] + list(args) + [module + ".tla"]
    res = TLCResult()
    t0 = time.time()
    env = dict(os.environ)
    env.pop("JAVA_TOOL_OPTIONS", None)
    outpath = os.path.join(sdir, "tlc.out")
    with open(outpath, "w") as fh:
        try:
            p = subprocess.run(cmd, cwd=sdir, stdout=fh, stderr=subprocess.STDOUT, timeout=timeout, env=env)
            res.rc = p.returncode
        except subprocess.TimeoutExpired:
            res.rc = -9
            res.error = "timeout after %ss" % timeout
    res.wall = time.time() - t0
    other = []
    with open(outpath, errors="replace") as fh:
        for line in fh:
            line = line.rstrip("\n")
            if want_json and line.startswith('"{') and line.endswith('}"'):
                try:
                    obj = json.loads(json.loads(line))
                except Exception:
                    other.append(line)
                    continue
                if json_sink is not None:
                    json_sink(obj)
                else:
                    res.json.append(obj)
                continue
            other.append(line)
    res.out = "\n".join(other)
    m = re.search(r"(\d+) states generated, (\d+) distinct states found", res.out)
    if m:
        res.generated, res.distinct = int(m.group(1)), int(m.group(2))
    m = re.search(r"Error: Invariant (\S+) is violated", res.out)
    if m:
        res.violated = m.group(1)
    m2 = re.search(r"Error: Action property (\S+) is violated", res.out) or \
        re.search(r"Error: Temporal properties were violated", res.out)
    if m2 and not res.violated:
        res.violated = m2.group(1) if m2.lastindex else "temporal"
    if res.error is None and res.violated is None:
        if "Error:" in res.out or (res.rc not in (0,) and "No error has been found" not in res.out
                                   and "Finished in" not in res.out):
            em = re.search(r"Error: (.*(?:\n(?!\n).*){0,12})", res.out)
            res.error = em.group(1) if em else "TLC exit %s" % res.rc
    return res


# --------------------------------------------------------------------------- Go

def overlay_for(mapping, workdir, mask=()):
    """mapping: {path-inside-/repo: source file under /verif/harness}.  mask: repo files to hide."""
    ov = {"Replace": {}}
    for dst, src in mapping.items():
        ov["Replace"][os.path.join(REPO, dst)] = os.path.abspath(src)
    for m in mask:
        ov["Replace"][os.path.join(REPO, m)] = ""
    os.makedirs(workdir, exist_ok=True)
    path = os.path.join(workdir, "overlay.json")
    with open(path, "w") as fh:
        json.dump(ov, fh, indent=1)
    return path


def kit_mapping():
    m = {}
    kdir = os.path.join(HARNESS, "kit")
    for f in sorted(os.listdir(kdir)):
        if f.endswith(".go"):
            m["internal/verifkit/" + f] = os.path.join(kdir, f)
    return m


def harness_mapping(hdir, pkgdir, with_kit=True):
    """Map every harness/<hdir>/*.go into /repo/<pkgdir>/ as zz_verif_<name>_test.go."""
    m = kit_mapping() if with_kit else {}
    d = os.path.join(HARNESS, hdir)
    for f in sorted(os.listdir(d)):
        if f.endswith(".go"):
            base = f[:-3]
            if base.endswith("_test"):
                base = base[:-5]
            m["%s/zz_verif_%s_test.go" % (pkgdir, base)] = os.path.join(d, f)
    return m


def repo_status():
    p = subprocess.run(["git", "-C", REPO, "status", "--porcelain"], capture_output=True, text=True)
    return p.stdout


def go_test(pkgdir, run, overlay, env_extra=None, race=False, timeout=1500, tags="verif", count=True,
            extra_args=()):
    """go test one package of /repo with the overlay; returns (rc, output)."""
    env = goenv()
    if env_extra:
        env.update({k: str(v) for k, v in env_extra.items()})
    cmd = ["go", "test", "-tags", tags, "-vet=off", "-overlay", overlay, "-run", run, "-count=1",
           "-timeout", "%ds" % timeout]
    if race:
        cmd.append("-race")
    cmd += list(extra_args)
    cmd.append("./" + pkgdir + "/")
    before = repo_status()
    t0 = time.time()
    try:
        p = subprocess.run(cmd, cwd=REPO, env=env, capture_output=True, text=True, timeout=timeout + 120)
        rc, out = p.returncode, p.stdout + p.stderr
    except subprocess.TimeoutExpired as e:
        rc, out = -9, "timeout: " + str(e)
    after = repo_status()
    if after != before:
        # the go tool (-mod=mod) may rewrite go.mod / go.sum / e2etest/go.work.sum; restore those
        # of them that were clean before this run (never touch anything the caller had edited)
        dirty_before = set(l[3:] for l in before.splitlines())
        for l in after.splitlines():
            f = l[3:]
            if f in ("go.mod", "go.sum", "e2etest/go.work.sum", "e2etest/go.mod", "e2etest/go.sum") and f not in dirty_before:
                subprocess.run(["git", "-C", REPO, "checkout", "--", f], capture_output=True)
    log("  go test %s -run %s: rc=%s in %.1fs" % (pkgdir, run, rc, time.time() - t0))
    return rc, out


# --------------------------------------------------------------------------- graph walks

def canon(x):
    return json.dumps(x, sort_keys=True, separators=(",", ":"))


def edge_cover_walks(edges, init_key, max_len=60, limit_steps=None, seed=0, sample=None):
    """edges: list of (prekey, act, postkey, expect).  Returns walks (lists of edge indices) from
    init_key covering every edge reachable, greedily: follow unvisited edges, use a BFS shortest
    path to the nearest state with an unvisited edge, restart when the walk gets long."""
    import random
    from collections import defaultdict, deque
    rnd = random.Random(seed)
    out = defaultdict(list)
    for i, e in enumerate(edges):
        out[e[0]].append(i)
    for k in out:
        rnd.shuffle(out[k])
    unv = {k: list(v) for k, v in out.items()}
    if sample is not None and sample < len(edges):
        # quick tiers: a seed-dependent subset of the transitions is the target; every edge stays
        # available for getting there
        chosen = set(rnd.sample(range(len(edges)), sample))
        unv = {k: [i for i in v if i in chosen] for k, v in unv.items()}
    remaining = sum(len(v) for v in unv.values())
    # drop unreachable
    reach = set([init_key])
    dq = deque([init_key])
    while dq:
        k = dq.popleft()
        for i in out.get(k, ()):
            nk = edges[i][2]
            if nk not in reach:
                reach.add(nk)
                dq.append(nk)
    for k in list(unv):
        if k not in reach:
            remaining -= len(unv[k])
            unv[k] = []
    walks = []
    total = 0

    succ = {}
    for k, idxs in out.items():
        d = {}
        for i in idxs:
            nk = edges[i][2]
            if nk != k and nk not in d:
                d[nk] = i
        succ[k] = list(d.items())

    def path_to_unvisited(src):
        prev = {src: None}
        dq = deque([src])
        while dq:
            k = dq.popleft()
            if unv.get(k):
                path = []
                while prev[k] is not None:
                    pk, ei = prev[k]
                    path.append(ei)
                    k = pk
                path.reverse()
                return path
            for nk, i in succ.get(k, ()):
                if nk not in prev:
                    prev[nk] = (k, i)
                    dq.append(nk)
        return None

    while remaining > 0:
        cur = init_key
        walk = []
        while len(walk) < max_len:
            if unv.get(cur):
                i = unv[cur].pop()
                remaining -= 1
                walk.append(i)
                cur = edges[i][2]
                continue
            p = path_to_unvisited(cur)
            if p is None:
                break
            if len(walk) + len(p) >= max_len and walk:
                break
            walk.extend(p)
            for i in p:
                cur = edges[i][2]
        if not walk:
            break
        walks.append(walk)
        total += len(walk)
        if limit_steps and total >= limit_steps:
            break
    return walks, remaining


# --------------------------------------------------------------------------- known findings, evidence

def load_known():
    p = os.path.join(VERIF, "known_findings.json")
    if not os.path.exists(p):
        return []
    with open(p) as fh:
        return json.load(fh).get("findings", [])


def _sweep_dead_workdirs():
    """Scratch directories are named <prop>_<tier>_<pid>[suffix]; a run that was killed (timeout, OOM) leaves its
    directory behind (tens of GB for a thorough tier).  Remove those whose process no longer exists."""
    try:
        names = os.listdir(WORK)
    except OSError:
        return
    for n in names:
        m = re.fullmatch(r"C\d\d_[a-z]+_(\d+)(_[a-z]+)?", n)
        if not m:
            continue
        try:
            os.kill(int(m.group(1)), 0)
        except ProcessLookupError:
            shutil.rmtree(os.path.join(WORK, n), ignore_errors=True)
        except OSError:
            pass


class Check:
    """One run of one property check."""

    def __init__(self, prop, tier, seed, suffix=""):
        self.prop, self.tier, self.seed = prop, tier, seed
        self.t0 = time.time()
        self.work = os.path.join(WORK, "%s_%s_%d%s" % (prop, tier, os.getpid(), suffix))
        if os.path.exists(self.work):
            shutil.rmtree(self.work)
        _sweep_dead_workdirs()
        os.makedirs(self.work)
        self.cov = {"states": 0, "transitions": 0, "traces_validated_against_impl": 0, "samples": [],
                    "evaluations": 0, "distinct_nontrivial": 0, "rule": "", "model_runs": [], "drift": 0}
        self.assumptions = []
        self.failures = []      # dicts: {sig, what, detail, replay}
        self.notes = []

    def add_model_run(self, name, res):
        self.cov["states"] += res.distinct
        self.cov["transitions"] += res.generated
        self.cov["model_runs"].append({"cfg": name, "distinct": res.distinct, "generated": res.generated,
                                       "wall_s": round(res.wall, 1)})

    def require_ok(self, name, res):
        if res.error:
            raise Inconclusive("TLC %s: %s\n%s" % (name, res.error, res.out[-1500:]))

    def fail(self, sig, what, detail=None, scenario=None):
        self.failures.append({"sig": sig, "what": what, "detail": detail, "scenario": scenario})

    def write_replay(self, f, path=None):
        os.makedirs(os.path.join(VERIF, "replays"), exist_ok=True)
        body = {"property": self.prop, "tier": self.tier, "seed": self.seed, "signature": f["sig"],
                "what": f["what"], "detail": f["detail"], "scenario": f["scenario"],
                "repo_head": subprocess.run(["git", "-C", REPO, "rev-parse", "HEAD"], capture_output=True,
                                            text=True).stdout.strip(),
                "repo_diff_sha": hashlib.sha1(subprocess.run(["git", "-C", REPO, "diff"], capture_output=True)
                                              .stdout).hexdigest()}
        h = hashlib.sha1(canon(body).encode()).hexdigest()[:10]
        path = path or os.path.join(VERIF, "replays", "%s-%s.json" % (self.prop, h))
        with open(path, "w") as fh:
            json.dump(body, fh, indent=1, sort_keys=True)
        return path

    def finish(self, level="model_checking"):
        known = [k for k in load_known() if k.get("property") == self.prop and k.get("status") == "open"]
        reported_known = {}
        violations = []
        seen = set()
        for f in self.failures:
            hit = None
            for k in known:
                if re.fullmatch(k["signature"], f["sig"]):
                    hit = k
                    break
            if hit:
                dump = os.environ.get("VERIF_DUMP_KNOWN")     # developer aid: pin a scenario of each listed finding
                if dump and hit["id"] not in reported_known and f.get("scenario"):
                    os.makedirs(dump, exist_ok=True)
                    self.write_replay(f, os.path.join(dump, hit["id"] + ".json"))
                reported_known.setdefault(hit["id"], (hit, 0))
                reported_known[hit["id"]] = (hit, reported_known[hit["id"]][1] + 1)
            elif f["sig"] not in seen:
                seen.add(f["sig"])
                violations.append(f)
        for kid, (k, n) in sorted(reported_known.items()):
            print("KNOWN-FINDING: property=%s %s [%s, %d observation(s)]" % (self.prop, k["what_fails"], kid, n))
        for f in violations[:20]:
            path = self.write_replay(f)
            print("VIOLATION property=%s replay=%s" % (self.prop, path))
            print("  what: %s  signature: %s" % (f["what"], f["sig"]))
        cov = dict(self.cov)
        cov["known_findings_seen"] = sorted(reported_known)
        cov["samples"] = cov["samples"][:6]
        if not cov["samples"]:
            cov["samples"] = ["(none)"]
        ev = {"property_id": self.prop, "tier": self.tier, "seed": self.seed, "level": level,
              "coverage": cov, "assumptions": self.assumptions, "wall_s": round(time.time() - self.t0, 1),
              "violations": len(violations), "notes": self.notes}
        evdir = os.environ.get("VERIF_EVIDENCE_DIR") or os.path.join(VERIF, "evidence")   # (seeded-tree runs write elsewhere)
        os.makedirs(evdir, exist_ok=True)
        with open(os.path.join(evdir, self.prop + ".json"), "w") as fh:
            json.dump(ev, fh, indent=1, sort_keys=True)
        if not os.environ.get("VERIF_KEEP"):
            shutil.rmtree(self.work, ignore_errors=True)
        print("%s %s tier=%s seed=%d: states=%d transitions=%d traces=%d evaluations=%d violations=%d known=%d wall=%.0fs"
              % ("FAIL" if violations else "OK", self.prop, self.tier, self.seed, cov["states"], cov["transitions"],
                 cov["traces_validated_against_impl"], cov["evaluations"], len(violations), len(reported_known),
                 time.time() - self.t0))
        return 1 if violations else 0


# --------------------------------------------------------------------------- role B helpers

def domain_dump(chk):
    res = tlc(chk.work, "DomainDump", "DomainDump.cfg", workers=1, timeout=120)
    if not res.json:
        raise Inconclusive("DomainDump produced nothing: " + res.out[-800:])
    path = os.path.join(chk.work, "domain.json")
    with open(path, "w") as fh:
        json.dump(res.json[0], fh)
    return path, res.json[0]


def generate_edges(chk, module, cfg, timeout=1800, args=(), heap="12g", workers=16):
    """Role A + B in one run: TLC explores the bounded configuration with its invariants and
    prints every generated transition (ACTION_CONSTRAINT Emit) and the initial state(s).
    The edges are sorted, so the result does not depend on worker scheduling."""
    edges = []
    inits = []
    extra = {}

    def sink(o):
        if "pre" in o:
            edges.append((canon(o["pre"]), o["act"], canon(o["post"]), canon(o["act"])))
        elif "init" in o:
            inits.append(canon(o["init"]))
            extra.update({k: v for k, v in o.items() if k != "init"})

    res = tlc(chk.work, module, cfg, workers=workers, timeout=timeout, args=args, heap=heap, json_sink=sink)
    chk.add_model_run(os.path.basename(cfg), res)
    if res.violated:
        chk.notes.append("MODEL-ONLY: design model %s violates %s (see DESIGN.md section 2)" % (cfg, res.violated))
        print("MODEL-ONLY: %s violates %s in the design model" % (cfg, res.violated))
    elif res.error:
        raise Inconclusive("TLC %s: %s\n%s" % (cfg, res.error, res.out[-1500:]))
    if not edges or not inits:
        raise Inconclusive("no edges / initial state from %s: %s" % (cfg, res.out[-800:]))
    edges.sort(key=lambda e: (e[0], e[3], e[2]))
    edges = [e[:3] for e in edges]
    log("  %s: %d distinct states, %d transitions emitted in %.1fs" % (cfg, res.distinct, len(edges), res.wall))
    res.extra = extra
    return edges, sorted(set(inits)), res


def simulate_walks(chk, module, cfg, num, depth, seed, timeout=1800, keep_states=False, mode="simulate"):
    """Role B by seeded TLC simulation.  This TLC evaluates the action constraint (Emit) on every
    candidate successor of every simulated step, not only on the chosen one (measured by the
    announcer family).  Consecutive records with the same pre-state form one level of candidates;
    the behaviour TLC followed is rebuilt by chaining: the chosen candidate is one whose post-state is
    the next level's pre-state (a seeded choice among several such candidates, each of them being a
    transition of the model from that state).  Where nothing chains, a behaviour ended.
    Memory: only hashes of the states are kept (plus the canonical strings when keep_states);
    returns walks of {"act", "pre_h", "post_h"[, "pre_c", "post_c"]} and res.init_states {hash: state}.
    mode="generate" uses TLC's -generate instead of -simulate: it picks a sub-action and one successor at random
    without enumerating all successors, and evaluates the action constraint on the chosen transition only
    (measured: 200 behaviours of depth 40 of AllocMC_count_sim in 1.5 s and 8 000 lines, against 45 s and
    1.2 million candidate lines with -simulate), so every level has exactly one record."""
    import random
    rnd = random.Random(seed * 104729 + 7)
    inits = {}
    extra = {}
    walks = []
    st = {"pend": None, "cur": [], "ncand": 0}   # pend = [prehash, [candidate records of one level]]

    def h(c):
        return hashlib.md5(c.encode()).digest()

    def close_level(nxt):
        # the previous level is complete: pick the candidate TLC followed (chains to nxt), drop the rest
        pk, recs = st["pend"]
        cur = st["cur"]
        if cur and cur[-1]["post_h"] != pk:
            walks.append(cur)
            cur = st["cur"] = []
        cands = [r for r in recs if nxt is not None and r["post_h"] == nxt]
        cur.append(rnd.choice(cands if cands else recs))

    def sink(o):
        if "init" in o:
            inits[h(canon(o["init"]))] = o["init"]
            extra.update({k: v for k, v in o.items() if k != "init"})
            return
        if "pre" not in o:
            return
        pc, qc = canon(o["pre"]), canon(o["post"])
        rec = {"act": o["act"], "pre_h": h(pc), "post_h": h(qc)}
        if keep_states:
            rec["pre_c"], rec["post_c"] = pc, qc
        st["ncand"] += 1
        if mode == "generate":
            # one record per step; a behaviour ends where the chain breaks or after `depth` steps at an initial state
            cur = st["cur"]
            if cur and (cur[-1]["post_h"] != rec["pre_h"] or (len(cur) >= depth and rec["pre_h"] in inits)):
                walks.append(cur)
                cur = st["cur"] = []
            cur.append(rec)
        elif st["pend"] is not None and st["pend"][0] == rec["pre_h"]:
            st["pend"][1].append(rec)
        else:
            if st["pend"] is not None:
                close_level(rec["pre_h"])
            st["pend"] = [rec["pre_h"], [rec]]

    res = tlc(chk.work, module, cfg, workers=1, timeout=timeout,
              args=["-" + mode, "num=%d" % num, "-depth", str(depth), "-seed", str(seed)], json_sink=sink)
    if res.error and "timeout" in str(res.error):
        raise Inconclusive("TLC simulate %s: %s" % (cfg, res.error))
    if st["pend"] is not None:
        close_level(None)
    if st["cur"]:
        walks.append(st["cur"])
    ncand = st["ncand"]
    # a behaviour always starts in an initial state; drop fragments that do not (cannot be replayed)
    walks = [w for w in walks if w[0]["pre_h"] in inits] if inits else walks
    res.extra = extra
    res.init_states = inits
    log("  %s: simulated %d walks, %d steps (%d candidate records) in %.1fs"
        % (cfg, len(walks), sum(map(len, walks)), ncand, res.wall))
    return walks, res


def iter_walk_obs(path):
    """Stream an observation file walk by walk (the lines of one walk are contiguous)."""
    cur, curw = [], None
    with open(path) as fh:
        for line in fh:
            o = json.loads(line)
            if o["w"] != curw and cur:
                yield curw, cur
                cur = []
            curw = o["w"]
            cur.append(o)
    if cur:
        yield curw, cur


def write_scenarios(path, walks_as_steps, init, prefix="w"):
    """walks_as_steps: list of lists of act records."""
    with open(path, "w") as fh:
        for n, steps in enumerate(walks_as_steps):
            fh.write(json.dumps({"id": "%s%d" % (prefix, n), "init": init, "steps": steps}) + "\n")


def run_judge_parallel(chk, module, cfg, obs_path, obs_name="obs.ndjson", chunks=8, timeout=1800, walk_key="w"):
    """Role C on several TLC processes: the observation file is cut at walk boundaries."""
    import concurrent.futures
    lines = open(obs_path).read().splitlines()
    if not lines:
        raise Inconclusive("no observations")
    if len(lines) < 4000:
        chunks = 1
    per = (len(lines) + chunks - 1) // chunks
    parts, cur, lastw = [], [], None
    for l in lines:
        m = re.search(r'"%s":"([^"]*)"' % walk_key, l)
        w = m.group(1) if m else None
        if len(cur) >= per and w != lastw:
            parts.append(cur)
            cur = []
        cur.append(l)
        lastw = w
    if cur:
        parts.append(cur)
    fails = []

    def one(k):
        d = os.path.join(chk.work, "judge_%s_%d" % (module, k))
        os.makedirs(d, exist_ok=True)
        pth = os.path.join(d, obs_name)
        with open(pth, "w") as fh:
            fh.write("\n".join(parts[k]) + "\n")
        got, done = [], {}

        def sink(o):
            if "fails" in o:
                got.append(o)
            elif "done" in o:
                done["n"] = o["done"]

        res = tlc(d, module, cfg, workers=1, timeout=timeout, extra_files=[pth], json_sink=sink, heap="3g")
        if res.error or res.violated:
            raise Inconclusive("judge %s: %s %s\n%s" % (module, res.error, res.violated, res.out[-2500:]))
        if done.get("n") != len(parts[k]):
            raise Inconclusive("judge %s consumed %s of %d observation lines\n%s"
                               % (module, done.get("n"), len(parts[k]), res.out[-1500:]))
        return got

    t0 = time.time()
    with concurrent.futures.ThreadPoolExecutor(max_workers=len(parts)) as ex:
        offs = 0
        futs = [ex.submit(one, k) for k in range(len(parts))]
        for k, f in enumerate(futs):
            for g in f.result():
                g["line"] += offs
                fails.append(g)
            offs += len(parts[k])
    log("  judge %s: %d lines in %d chunk(s), %.1fs, %d failing lines" % (module, len(lines), len(parts), time.time() - t0, len(fails)))
    return fails, len(lines)


def run_judge(chk, module, cfg, obs_path, timeout=1800, deque=False):
    """Role C: TLC evaluates the property predicates on the observation file."""
    fails = []
    done = {}

    def sink(o):
        if "fails" in o:
            fails.append(o)
        elif "done" in o:
            done["n"] = o["done"]

    nlines = sum(1 for _ in open(obs_path))
    if nlines == 0:
        raise Inconclusive("no observations")
    res = tlc(chk.work, module, cfg, workers=1, timeout=timeout, extra_files=[obs_path], json_sink=sink, deque=deque)
    if res.error or res.violated:
        raise Inconclusive("judge %s: %s %s\n%s" % (module, res.error, res.violated, res.out[-2500:]))
    if done.get("n") != nlines:
        raise Inconclusive("judge %s consumed %s of %d observation lines\n%s" % (module, done.get("n"), nlines, res.out[-1500:]))
    return fails, nlines
