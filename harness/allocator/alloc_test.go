//go:build verif

package allocator

// Role B/C harness for the allocator family (C01, C02, C11): replays TLC-generated walks over
// the public methods of the real Allocator and logs, after every step, the projection of its
// complete memory.  No judgement happens here.

import (
	"encoding/json"
	"net"
	"os"
	"sort"
	"testing"

	"go.universe.tf/metallb/internal/config"
	"go.universe.tf/metallb/internal/ipfamily"
	kit "go.universe.tf/metallb/internal/verifkit"
	v1 "k8s.io/api/core/v1"
	metav1 "k8s.io/apimachinery/pkg/apis/meta/v1"
)

type vReq struct {
	Ports   []string `json:"ports"`
	Sk      string   `json:"sk"`
	Bk      string   `json:"bk"`
	Fam     string   `json:"fam"`
	Pol     string   `json:"pol"`
	V6first bool     `json:"v6first"`
}

type vAct struct {
	Op       string `json:"op"`
	S        string `json:"s"`
	Ips      []int  `json:"ips"`
	R        vReq   `json:"r"`
	Pool     string `json:"pool"`
	Layout   string `json:"layout"`
	Existing int    `json:"existing"`
}

type vInit struct {
	Layout string `json:"layout"`
}

func vPorts(ps []string) []Port {
	var out []Port
	for _, p := range ps {
		proto, n := kit.ParsePort(p)
		out = append(out, Port{Proto: proto, Port: n})
	}
	return out
}

func vSvc(s string, r vReq) *v1.Service {
	m := kit.Dom().SvcMeta[s]
	svc := &v1.Service{ObjectMeta: metav1.ObjectMeta{Name: s, Namespace: m.Ns, Labels: map[string]string{"app": m.Label}}}
	pol := v1.IPFamilyPolicySingleStack
	switch r.Pol {
	case "P":
		pol = v1.IPFamilyPolicyPreferDualStack
	case "R":
		pol = v1.IPFamilyPolicyRequireDualStack
	}
	svc.Spec.IPFamilyPolicy = &pol
	switch r.Fam {
	case "v4":
		svc.Spec.IPFamilies = []v1.IPFamily{v1.IPv4Protocol}
	case "v6":
		svc.Spec.IPFamilies = []v1.IPFamily{v1.IPv6Protocol}
	default:
		if r.V6first {
			svc.Spec.IPFamilies = []v1.IPFamily{v1.IPv6Protocol, v1.IPv4Protocol}
		} else {
			svc.Spec.IPFamilies = []v1.IPFamily{v1.IPv4Protocol, v1.IPv6Protocol}
		}
	}
	return svc
}

func ipfamilyOf(f string) ipfamily.Family {
	switch f {
	case "v4":
		return ipfamily.IPv4
	case "v6":
		return ipfamily.IPv6
	}
	return ipfamily.DualStack
}

func vPools(t *testing.T, layout string) *config.Pools {
	cfg, err := config.For(config.ClusterResources{Pools: kit.PoolCRs(layout), Namespaces: kit.Namespaces()}, config.DontValidate)
	if err != nil {
		t.Fatalf("layout %s rejected by config.For: %v", layout, err)
	}
	return cfg.Pools
}

type vMemEntry struct {
	Pool  string   `json:"pool"`
	Ips   []int    `json:"ips"`
	Ports []string `json:"ports"`
	Sk    string   `json:"sk"`
	Bk    string   `json:"bk"`
}

type vObs struct {
	W        string               `json:"w"`
	I        int                  `json:"i"`
	Act      json.RawMessage      `json:"act"`
	Ok       bool                 `json:"ok"`
	Ret      []int                `json:"ret"`
	Panic    string               `json:"panic"`
	Layout   string               `json:"layout"`
	Mem      map[string]vMemEntry `json:"mem"`
	Keys     []map[string]any     `json:"keys"`
	PortsUse []map[string]any     `json:"portsUse"`
	SvcsOn   []map[string]any     `json:"svcsOn"`
	PoolUse  []map[string]any     `json:"poolUse"`
	Counters []map[string]any     `json:"counters"`
	Probes   []map[string]any     `json:"probes"`
}

func vClamp(x int64) int64 {
	if x > 1000000000 {
		return 1000000000
	}
	if x < -1000000000 {
		return -1000000000
	}
	return x
}

func vProject(a *Allocator, o *vObs) {
	if o.Probes == nil {
		o.Probes = []map[string]any{}
	}
	if o.Ret == nil {
		o.Ret = []int{}
	}
	o.Mem = map[string]vMemEntry{}
	for k, al := range a.allocated {
		e := vMemEntry{Pool: al.pool, Ips: kit.AbsList(al.ips), Sk: al.key.sharing, Bk: al.key.backend, Ports: []string{}}
		for _, p := range al.ports {
			e.Ports = append(e.Ports, kit.PortName(p.Proto, p.Port))
		}
		sort.Strings(e.Ports)
		o.Mem[kit.SvcOfKey(k)] = e
	}
	o.Keys = []map[string]any{}
	for ip, k := range a.sharingKeyForIP {
		o.Keys = append(o.Keys, map[string]any{"a": kit.AbsStr(ip), "sk": k.sharing, "bk": k.backend})
	}
	o.PortsUse = []map[string]any{}
	for ip, m := range a.portsInUse {
		for p, s := range m {
			o.PortsUse = append(o.PortsUse, map[string]any{"a": kit.AbsStr(ip), "pt": kit.PortName(p.Proto, p.Port), "s": kit.SvcOfKey(s)})
		}
	}
	o.SvcsOn = []map[string]any{}
	for ip, m := range a.servicesOnIP {
		for s, b := range m {
			if b {
				o.SvcsOn = append(o.SvcsOn, map[string]any{"a": kit.AbsStr(ip), "s": kit.SvcOfKey(s)})
			}
		}
	}
	o.PoolUse = []map[string]any{}
	for kind, mm := range map[string]map[string]map[string]int{"any": a.poolIPsInUse, "v4": a.poolIPV4InUse, "v6": a.poolIPV6InUse} {
		for pool, m := range mm {
			for ip, n := range m {
				o.PoolUse = append(o.PoolUse, map[string]any{"kind": kind, "pool": pool, "a": kit.AbsStr(ip), "n": n})
			}
		}
	}
	o.Counters = []map[string]any{}
	a.countersMutex.RLock()
	names := map[string]bool{}
	for n := range a.poolToCounters {
		names[n] = true
	}
	a.countersMutex.RUnlock()
	for n := range names {
		c := a.CountersForPool(n)
		o.Counters = append(o.Counters, map[string]any{"pool": n, "as4": vClamp(c.AssignedIPv4), "as6": vClamp(c.AssignedIPv6),
			"av4": vClamp(c.AvailableIPv4), "av6": vClamp(c.AvailableIPv6)})
	}
}

// vProbe asks the real allocator, for every address of the current layout, whether a fresh
// unrelated service may take it right now (and gives it back at once).
func vProbe(a *Allocator, layout string, o *vObs) {
	o.Probes = []map[string]any{}
	probe := vSvc("s9", vReq{Fam: "v4", Pol: "S"})
	for _, p := range kit.Dom().Layouts[layout] {
		for _, c := range p.Cidrs {
			for _, ad := range c.Addrs {
				err := a.Assign("ns1/s9", probe, []net.IP{kit.IP(ad)}, []Port{{Proto: "TCP", Port: 9999}}, "", "")
				got := ""
				if err == nil {
					got = a.Pool("ns1/s9")
				}
				a.Unassign("ns1/s9")
				o.Probes = append(o.Probes, map[string]any{"a": ad, "ok": err == nil, "pool": got})
			}
		}
	}
}

func vStep(t *testing.T, a *Allocator, layout *string, raw json.RawMessage, o *vObs) {
	var act vAct
	kit.Must(json.Unmarshal(raw, &act))
	defer func() {
		if r := recover(); r != nil {
			o.Panic = "panic"
			if s, ok := r.(string); ok {
				o.Panic = s
			}
		}
	}()
	key := ""
	if act.S != "" {
		key = kit.SvcKey(act.S)
	}
	o.Ret = []int{}
	switch act.Op {
	case "Assign":
		err := a.Assign(key, vSvc(act.S, act.R), kit.IPs(act.Ips), vPorts(act.R.Ports), act.R.Sk, act.R.Bk)
		o.Ok = err == nil
	case "Unassign":
		a.Unassign(key)
		o.Ok = true
	case "Allocate":
		ips, err := a.Allocate(key, vSvc(act.S, act.R), ipfamilyOf(act.R.Fam), vPorts(act.R.Ports), act.R.Sk, act.R.Bk)
		o.Ok = err == nil
		if err == nil {
			o.Ret = kit.AbsList(ips)
		}
	case "AllocateFromPool":
		ips, err := a.AllocateFromPool(key, vSvc(act.S, act.R), ipfamilyOf(act.R.Fam), act.Pool, vPorts(act.R.Ports), act.R.Sk, act.R.Bk)
		o.Ok = err == nil
		if err == nil {
			o.Ret = kit.AbsList(ips)
		}
	case "AllocateAdditional":
		ip, err := a.AllocateFromPoolForAdditionalFamily(key, vSvc(act.S, act.R), kit.IP(act.Existing), act.Pool, vPorts(act.R.Ports), act.R.Sk, act.R.Bk)
		o.Ok = err == nil
		if err == nil {
			o.Ret = []int{kit.Abs(ip)}
		}
	case "SetPools":
		a.SetPools(vPools(t, act.Layout))
		*layout = act.Layout
		o.Ok = true
	default:
		t.Fatalf("unknown op %q", act.Op)
	}
}

func TestVerifAllocReplay(t *testing.T) {
	walks := kit.ReadWalks()
	out := kit.NewObsWriter()
	defer out.Close()
	probes := os.Getenv("VERIF_PROBES") != "0"
	kit.ForEachWalk(walks, out, func(w kit.Walk, blk *kit.Block) {
		var in vInit
		kit.Must(json.Unmarshal(w.Init, &in))
		a := New(func(string) {})
		layout := in.Layout
		a.SetPools(vPools(t, layout))
		o := &vObs{W: w.ID, I: 0, Act: json.RawMessage(`{"op":"Init"}`), Ok: true, Ret: []int{}, Layout: layout}
		vProject(a, o)
		if probes {
			vProbe(a, layout, o)
		}
		blk.Add(o)
		for i, raw := range w.Steps {
			o := &vObs{W: w.ID, I: i + 1, Act: raw}
			vStep(t, a, &layout, raw, o)
			o.Layout = layout
			vProject(a, o)
			if probes && o.Panic == "" {
				vProbe(a, layout, o)
			}
			blk.Add(o)
			if o.Panic != "" {
				break
			}
		}
	})
}
