//go:build verif

package frr

// C15 harness: the scenarios of spec/FRRMC.tla are played against the real frr-k8s session manager
// (NewSessionManager / SetEventCallback / NewSession / Set / Close / SyncBFDProfiles); the
// FRRConfiguration handed to the config-changed callback last is marshalled to JSON (digest) and
// projected field by field into a record TLC can read (numbers as decimal strings, prefixes in
// lexical form, "large:" marker split off).  The projection assigns no meaning and drops nothing
// the judge needs; one observation per (scenario, order).

import (
	"crypto/sha256"
	"encoding/hex"
	"encoding/json"
	"fmt"
	"strconv"
	"strings"
	"testing"
	"time"

	"github.com/go-kit/log"
	frrv1beta1 "github.com/metallb/frr-k8s/api/v1beta1"
	"go.universe.tf/metallb/internal/bgp"
	metallbconfig "go.universe.tf/metallb/internal/config"
	"go.universe.tf/metallb/internal/logging"
	"go.universe.tf/metallb/internal/verifkit"
	metav1 "k8s.io/apimachinery/pkg/apis/meta/v1"
)

type vFrrKV struct {
	K string `json:"k"`
	V string `json:"v"`
}

type vFrrCRLocalPref struct {
	Lp       string               `json:"lp"`
	Prefixes []verifkit.FrrPrefix `json:"prefixes"`
}

type vFrrCRCommunity struct {
	Raw      string               `json:"raw"`
	Large    bool                 `json:"large"`
	C        string               `json:"c"`
	Prefixes []verifkit.FrrPrefix `json:"prefixes"`
}

type vFrrCRNeighbor struct {
	Address       string                `json:"address"`
	Iface         string                `json:"iface"`
	Asn           string                `json:"asn"`
	Dyn           string                `json:"dyn"`
	Srcaddr       string                `json:"srcaddr"`
	Port          string                `json:"port"` // "" = nil
	Password      string                `json:"password"`
	Secret        verifkit.FrrSecretRef `json:"secret"`
	Hold          string                `json:"hold"` // whole seconds, "" = nil
	Keepalive     string                `json:"keepalive"`
	Connect       string                `json:"connect"`
	Multihop      bool                  `json:"multihop"`
	Bfd           string                `json:"bfd"`
	Gr            bool                  `json:"gr"`
	Disablemp     bool                  `json:"disablemp"`
	AllowedMode   string                `json:"allowedMode"`
	Allowed       []verifkit.FrrPrefix  `json:"allowed"`
	WithLocalPref []vFrrCRLocalPref     `json:"withLocalPref"`
	WithCommunity []vFrrCRCommunity     `json:"withCommunity"`
	ReceiveMode   string                `json:"receiveMode"`
	NReceive      int                   `json:"nreceive"`
	BadPrefixes   []string              `json:"badPrefixes"`
}

type vFrrCRRouter struct {
	Asn       string               `json:"asn"`
	ID        string               `json:"rid"`
	Vrf       string               `json:"vrf"`
	Prefixes  []verifkit.FrrPrefix `json:"prefixes"`
	NImports  int                  `json:"nimports"`
	Neighbors []vFrrCRNeighbor     `json:"neighbors"`
}

type vFrrCR struct {
	Present     bool           `json:"present"`
	Name        string         `json:"name"`
	Namespace   string         `json:"namespace"`
	MatchLabels []vFrrKV       `json:"matchLabels"`
	NMatchExpr  int            `json:"nmatchexpr"`
	Routers     []vFrrCRRouter `json:"routers"`
	BfdProfiles []string       `json:"bfdProfiles"`
	RawConfig   string         `json:"rawConfig"`
}

type vFrrK8sObs struct {
	ID       string                `json:"id"`
	Ord      int                   `json:"ord"`
	Mode     string                `json:"mode"`
	Node     string                `json:"node"`
	Ns       string                `json:"ns"`
	Same     int                   `json:"same"` // > 0: the marshalled resource is byte-identical to that of order Same (sessions, cr omitted)
	Sessions []verifkit.FrrSession `json:"sessions,omitempty"`
	Created  []bool                `json:"created"` // per session: NewSession succeeded (and not closed)
	Errs     []string              `json:"errs"`
	Sha      string                `json:"sha"`
	Len      int                   `json:"len"`
	Calls    int                   `json:"calls"`
	CR       *vFrrCR               `json:"cr,omitempty"`
	JSON     string                `json:"json,omitempty"`
}

func vFrrSeconds(d *metav1.Duration) string {
	if d == nil {
		return ""
	}
	if d.Duration%time.Second == 0 {
		return strconv.FormatInt(int64(d.Duration/time.Second), 10)
	}
	return d.Duration.String()
}

func vFrrLexList(in []string, bad *[]string, codes bool) []verifkit.FrrPrefix {
	out := []verifkit.FrrPrefix{}
	for _, s := range in {
		p, ok := verifkit.FrrLexPrefix(s)
		if !codes {
			p.Codes = nil
		}
		if !ok {
			*bad = append(*bad, s)
			continue
		}
		out = append(out, p)
	}
	return out
}

func vFrrProject(c *frrv1beta1.FRRConfiguration) vFrrCR {
	cr := vFrrCR{Present: true, Name: c.Name, Namespace: c.Namespace, MatchLabels: []vFrrKV{}, Routers: []vFrrCRRouter{},
		BfdProfiles: []string{}, RawConfig: c.Spec.Raw.Config, NMatchExpr: len(c.Spec.NodeSelector.MatchExpressions)}
	for _, k := range verifkit.SortedKeys(c.Spec.NodeSelector.MatchLabels) {
		cr.MatchLabels = append(cr.MatchLabels, vFrrKV{K: k, V: c.Spec.NodeSelector.MatchLabels[k]})
	}
	for _, b := range c.Spec.BGP.BFDProfiles {
		cr.BfdProfiles = append(cr.BfdProfiles, b.Name)
	}
	for _, r := range c.Spec.BGP.Routers {
		var bad []string
		pr := vFrrCRRouter{Asn: strconv.FormatUint(uint64(r.ASN), 10), ID: r.ID, Vrf: r.VRF, NImports: len(r.Imports),
			Neighbors: []vFrrCRNeighbor{}}
		pr.Prefixes = vFrrLexList(r.Prefixes, &bad, false)
		for _, n := range r.Neighbors {
			pn := vFrrCRNeighbor{Address: n.Address, Iface: n.Interface, Asn: strconv.FormatUint(uint64(n.ASN), 10),
				Dyn: string(n.DynamicASN), Srcaddr: n.SourceAddress, Password: n.Password,
				Secret: verifkit.FrrSecretRef{Name: n.PasswordSecret.Name, Ns: n.PasswordSecret.Namespace},
				Hold:   vFrrSeconds(n.HoldTime), Keepalive: vFrrSeconds(n.KeepaliveTime), Connect: vFrrSeconds(n.ConnectTime),
				Multihop: n.EBGPMultiHop, Bfd: n.BFDProfile, Gr: n.EnableGracefulRestart, Disablemp: n.DisableMP,
				AllowedMode: string(n.ToAdvertise.Allowed.Mode), WithLocalPref: []vFrrCRLocalPref{}, WithCommunity: []vFrrCRCommunity{},
				ReceiveMode: string(n.ToReceive.Allowed.Mode), NReceive: len(n.ToReceive.Allowed.Prefixes), BadPrefixes: []string{}}
			if n.Port != nil {
				pn.Port = strconv.FormatUint(uint64(*n.Port), 10)
			}
			pn.Allowed = vFrrLexList(n.ToAdvertise.Allowed.Prefixes, &pn.BadPrefixes, true)
			for _, lp := range n.ToAdvertise.PrefixesWithLocalPref {
				pn.WithLocalPref = append(pn.WithLocalPref, vFrrCRLocalPref{Lp: strconv.FormatUint(uint64(lp.LocalPref), 10),
					Prefixes: vFrrLexList(lp.Prefixes, &pn.BadPrefixes, false)})
			}
			for _, cp := range n.ToAdvertise.PrefixesWithCommunity {
				e := vFrrCRCommunity{Raw: cp.Community, C: cp.Community, Prefixes: vFrrLexList(cp.Prefixes, &pn.BadPrefixes, false)}
				if strings.HasPrefix(cp.Community, "large:") {
					e.Large, e.C = true, strings.TrimPrefix(cp.Community, "large:")
				}
				pn.WithCommunity = append(pn.WithCommunity, e)
			}
			pn.BadPrefixes = append(pn.BadPrefixes, bad...)
			pr.Neighbors = append(pr.Neighbors, pn)
		}
		cr.Routers = append(cr.Routers, pr)
	}
	return cr
}

func vFrrK8sPlay(sc verifkit.FrrScenario, ops []verifkit.FrrOp, o *vFrrK8sObs) {
	l := log.NewNopLogger()
	sm := NewSessionManager(l, logging.LevelInfo, sc.Node, sc.Ns)
	var last *frrv1beta1.FRRConfiguration
	sm.SetEventCallback(func(v interface{}) {
		o.Calls++
		c, ok := v.(frrv1beta1.FRRConfiguration)
		if !ok {
			o.Errs = append(o.Errs, fmt.Sprintf("callback got %T", v))
			return
		}
		last = c.DeepCopy()
	})
	profiles := map[string]*metallbconfig.BFDProfile{}
	for _, s := range sc.Sessions {
		if s.Bfd != "" {
			profiles[s.Bfd] = &metallbconfig.BFDProfile{Name: s.Bfd}
		}
	}
	if len(profiles) > 0 {
		if err := sm.SyncBFDProfiles(profiles); err != nil {
			o.Errs = append(o.Errs, "bfd: "+err.Error())
		}
	}
	live := map[int]bgp.Session{}
	for _, op := range ops {
		s := sc.Sessions[op.S-1]
		switch op.Op {
		case "new":
			sess, err := sm.NewSession(l, verifkit.FrrParams(s, sc.Node))
			if err != nil {
				o.Errs = append(o.Errs, fmt.Sprintf("new %s: %v", s.K, err))
				continue
			}
			live[op.S] = sess
		case "set", "preset":
			sess, ok := live[op.S]
			if !ok {
				o.Errs = append(o.Errs, fmt.Sprintf("%s %s: no session", op.Op, s.K))
				continue
			}
			advs := verifkit.FrrAdvs(s.Advs, op.Advs)
			if op.Op == "preset" {
				advs = verifkit.FrrAdvs(s.Pre, verifkit.FrrAllIdx(len(s.Pre)))
			}
			if err := sess.Set(advs...); err != nil {
				o.Errs = append(o.Errs, fmt.Sprintf("%s %s: %v", op.Op, s.K, err))
			}
		case "close":
			if sess, ok := live[op.S]; ok {
				if err := sess.Close(); err != nil {
					o.Errs = append(o.Errs, fmt.Sprintf("close %s: %v", s.K, err))
				}
				delete(live, op.S)
			}
		default:
			panic("unknown op " + op.Op)
		}
	}
	for i := range sc.Sessions {
		_, ok := live[i+1]
		o.Created = append(o.Created, ok)
	}
	if last == nil {
		o.CR = &vFrrCR{MatchLabels: []vFrrKV{}, Routers: []vFrrCRRouter{}, BfdProfiles: []string{}}
		return
	}
	raw, err := json.Marshal(last)
	if err != nil {
		o.Errs = append(o.Errs, "marshal: "+err.Error())
	}
	sum := sha256.Sum256(raw)
	o.Sha, o.Len = hex.EncodeToString(sum[:]), len(raw)
	cr := vFrrProject(last)
	o.CR = &cr
	o.JSON = string(raw)
}

func TestVerifFrrcfgK8s(t *testing.T) {
	scs := verifkit.FrrReadScenarios()
	out := verifkit.NewObsWriter()
	defer out.Close()
	withText := verifkit.FrrWithText()
	verifkit.FrrForEach(scs, out, func(sc verifkit.FrrScenario, b *verifkit.Block) {
		first := map[string]int{}
		for k, ops := range sc.Orders {
			o := vFrrK8sObs{ID: sc.ID, Ord: k + 1, Mode: "k8s", Node: sc.Node, Ns: sc.Ns, Sessions: sc.Sessions,
				Created: []bool{}, Errs: []string{}}
			vFrrK8sPlay(sc, ops, &o)
			key := o.Sha + "|" + o.JSON
			if f, ok := first[key]; ok {
				o.Same, o.Sessions, o.CR = f, nil, nil // compression only: the driver copies them from that line
			} else {
				first[key] = k + 1
			}
			if !withText || o.Same > 0 {
				o.JSON = ""
			}
			b.Add(o)
		}
	})
	t.Logf("verif: %d scenarios, %d observations", len(scs), out.N)
}
