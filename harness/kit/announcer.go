//go:build verif

package verifkit

// Helpers of the announcer family (C13): the address map of spec/Announcer.tla, an in-memory
// net.PacketConn that stands in for the raw ARP socket, and a global sequence counter.
// Nothing here judges anything.

import (
	"errors"
	"io"
	"net"
	"sync"
	"sync/atomic"
	"time"
)

var annV6b = net.ParseIP("fc00::5:1:0")

// AnnIP: < 200 as kit.IP; 200+j |-> fc00::5:1:0 + j (same low 24 bits as 100+j, hence the same
// solicited-node multicast group).
func AnnIP(a int) net.IP {
	if a < 200 {
		return IP(a)
	}
	return addInt(annV6b, a-200)
}

// AnnAbs maps a concrete address back (90 / 950 for addresses outside the domain).
func AnnAbs(ip net.IP) int {
	if ip == nil {
		return -1
	}
	if ip.To4() == nil {
		x := ip.To16()
		same := x != nil
		for i := 0; same && i < 14; i++ {
			if x[i] != annV6b[i] {
				same = false
			}
		}
		if same {
			d := (int(x[14])<<8 | int(x[15])) - (int(annV6b[14])<<8 | int(annV6b[15]))
			if d >= 0 && d < 100 {
				return 200 + d
			}
		}
	}
	return Abs(ip)
}

// Seq is the global atomic sequence number of the concurrent histories.
var seqCounter int64

func NextSeq() int64 { return atomic.AddInt64(&seqCounter, 1) }

// MemFrame is one frame written to a MemConn.
type MemFrame struct {
	Seq  int64
	Data []byte
}

// MemConn is a net.PacketConn without a socket: ReadFrom pops the frames pushed by the
// harness (io.EOF when there is none), WriteTo records what the code under test sends.
type MemConn struct {
	mu     sync.Mutex
	in     [][]byte
	out    []MemFrame
	closed bool
	// OnWrite, when set, is called with every written frame (instead of recording it) while the
	// writer is still inside WriteTo (that is, for the announcer, while it still holds its read
	// lock).
	OnWrite func(seq int64, b []byte)
}

type memAddr struct{}

func (memAddr) Network() string { return "mem" }
func (memAddr) String() string  { return "mem" }

func NewMemConn() *MemConn { return &MemConn{} }

func (c *MemConn) Push(b []byte) {
	c.mu.Lock()
	c.in = append(c.in, append([]byte(nil), b...))
	c.mu.Unlock()
}

func (c *MemConn) ReadFrom(p []byte) (int, net.Addr, error) {
	c.mu.Lock()
	defer c.mu.Unlock()
	if len(c.in) == 0 {
		return 0, nil, io.EOF
	}
	b := c.in[0]
	c.in = c.in[1:]
	n := copy(p, b)
	return n, memAddr{}, nil
}

func (c *MemConn) WriteTo(p []byte, _ net.Addr) (int, error) {
	b := append([]byte(nil), p...)
	c.mu.Lock()
	if c.closed {
		c.mu.Unlock()
		return 0, errors.New("memconn closed")
	}
	s := NextSeq()
	cb := c.OnWrite
	if cb == nil {
		c.out = append(c.out, MemFrame{Seq: s, Data: b})
	}
	c.mu.Unlock()
	if cb != nil {
		cb(s, b)
	}
	return len(p), nil
}

// Take returns and forgets the frames written so far.
func (c *MemConn) Take() []MemFrame {
	c.mu.Lock()
	defer c.mu.Unlock()
	o := c.out
	c.out = nil
	return o
}

func (c *MemConn) Close() error {
	c.mu.Lock()
	c.closed = true
	c.mu.Unlock()
	return nil
}
func (c *MemConn) LocalAddr() net.Addr                { return memAddr{} }
func (c *MemConn) SetDeadline(t time.Time) error      { return nil }
func (c *MemConn) SetReadDeadline(t time.Time) error  { return nil }
func (c *MemConn) SetWriteDeadline(t time.Time) error { return nil }
