"""Announcer family (C13, layer-2 responder): spec/Announcer.tla, spec/AnnouncerMC.tla (roles A and B),
harness/layer2 (replay on the real layer2.Announce / arpResponder / ndpResponder),
spec/AnnouncerTrace.tla (role C: sequential predicates, concurrent linearizability by search)."""
import concurrent.futures
import json
import os
import random
import re

import vlib

PROPS = ["C13"]

# (cfg, mode): "edges" = role A + per-transition emission + edge cover, "sim" = seeded TLC simulation
SEQ = {
    "quick": [("AnnouncerMC_filter.cfg", "edges", None), ("AnnouncerMC_group.cfg", "edges", None),
              ("AnnouncerMC_main.cfg", "edges", 30000)],
    "thorough": [("AnnouncerMC_filter.cfg", "edges", None), ("AnnouncerMC_group.cfg", "edges", None),
                 ("AnnouncerMC_main.cfg", "edges", None), ("AnnouncerMC_wide_sim.cfg", "sim", None)],
}
SIM = {"num": 300, "depth": 40}
CONC = {"quick": {"num": 200, "depth": 14, "items": 5, "grat": 4, "slow": 2},
        "thorough": {"num": 2000, "depth": 14, "items": 8, "grat": 6, "slow": 8}}
# slow histories: the updater sleeps longer than the 1.1 s period of the real spam loop's ticker before every
# 4th update and once at the end, so that the periodic announcements (and their end) are observed
SLOW_GAP_US = 1250000
CONC_CFG = "AnnouncerMC_conc.cfg"
FOREIGN = [3, 103]
PKG = "internal/layer2"


# --------------------------------------------------------------------------- helpers

def cfg_consts(cfg):
    """The domain constants of a cfg file, for the harness (the harness never has its own copy)."""
    txt = open(os.path.join(vlib.SPEC, "cfg", cfg)).read()

    def setof(name):
        m = re.search(r"^\s*%s\s*=\s*\{([^}]*)\}" % name, txt, re.M)
        if not m:
            raise vlib.Inconclusive("cfg %s has no %s" % (cfg, name))
        return [x.strip().strip('"') for x in m.group(1).split(",") if x.strip()]

    ips = sorted(int(x) for x in setof("Ips"))
    return {"svcs": sorted(setof("Svcs")), "ips": ips, "foreign": FOREIGN, "intfs": sorted(setof("Intfs")),
            "resp": sorted(setof("Resp"))}


def stim(act):
    return vlib.canon({k: v for k, v in act.items() if k != "exp"})


def norm_ips(ips):
    return vlib.canon({s: [[a["ip"], a["all"], sorted(a["ifs"])] for a in v] for s, v in sorted(ips.items())})


def overlay(chk):
    return vlib.overlay_for(vlib.harness_mapping("layer2", PKG), chk.work)


def replay_walks(chk, scen_path, tag):
    obs_path = os.path.join(chk.work, "obs_%s.ndjson" % tag)
    rc, out = vlib.go_test(PKG, "^TestVerifAnnouncerReplay$", overlay(chk),
                           {"VERIF_SCENARIOS": scen_path, "VERIF_OBS": obs_path}, extra_args=["-v"])
    if rc != 0:
        raise vlib.Inconclusive("announcer harness failed (rc=%s):\n%s" % (rc, out[-3000:]))
    m = re.search(r"ndp=(true|false)", out)
    return obs_path, (m.group(1) == "true") if m else None


def judge_seq(chk, obs_path):
    return vlib.run_judge_parallel(chk, "AnnouncerTrace", "AnnouncerTrace.cfg", obs_path)


def signature(name, obs):
    act = obs.get("act", {})
    return "%s|op=%s" % (name, act.get("op"))


def gen_edges(chk, cfg, timeout=1500):
    """vlib.generate_edges without parsing the two state records of every line (the 3-service graph prints
    4*10^5 lines): ToJson renders equal states identically, so the raw text of pre/post is the state key."""
    res = vlib.tlc(chk.work, "AnnouncerMC", cfg, workers=16, timeout=timeout, heap="12g", want_json=False)
    edges, inits = [], []
    keep = []
    for line in res.out.split("\n"):
        if not (line.startswith('"{') and line.endswith('}"')):
            keep.append(line)
            continue
        t = json.loads(line)
        if t.startswith('{"init":'):
            inits.append(t[len('{"init":'):-1])
            continue
        a = t.index(',"act":')
        b = t.index(',"post":', a)
        c = t.rindex(',"n":')
        if not t.startswith('{"pre":'):
            raise vlib.Inconclusive("unexpected emission of %s: %s" % (cfg, t[:200]))
        edges.append((t[len('{"pre":'):a], t[a + 7:b], t[b + 8:c]))
    res.out = "\n".join(keep)
    chk.add_model_run(os.path.basename(cfg), res)
    if res.violated:
        chk.notes.append("MODEL-ONLY: design model %s violates %s (see DESIGN.md section 2)" % (cfg, res.violated))
        print("MODEL-ONLY: %s violates %s in the design model" % (cfg, res.violated))
    elif res.error:
        raise vlib.Inconclusive("TLC %s: %s\n%s" % (cfg, res.error, res.out[-1500:]))
    if not edges or not inits:
        raise vlib.Inconclusive("no edges / initial state from %s: %s" % (cfg, res.out[-800:]))
    edges.sort()
    edges = [(p, json.loads(a), q) for (p, a, q) in edges]
    vlib.log("  %s: %d distinct states, %d transitions emitted in %.1fs" % (cfg, res.distinct, len(edges), res.wall))
    return edges, sorted(set(inits)), res


def sim_paths(chk, cfg, num, depth, seed, timeout=1500):
    """Role B by seeded TLC simulation.  This TLC evaluates the action constraint (Emit) on every candidate
    successor of every simulated step, not only on the chosen one: the records are grouped into levels (same step
    counter, same pre-state) and the behaviour TLC actually followed is rebuilt from the state sequence (the chosen
    successor is a candidate whose post-state is the next level's pre-state; among several candidates with that
    post-state - self-loops - a seeded choice, each being a transition of the model from that state)."""
    levels = []  # [n, prekey, [records]]

    def sink(o):
        if "pre" not in o:
            return
        pk = vlib.canon(o["pre"])
        if levels and levels[-1][0] == o["n"] and levels[-1][1] == pk:
            levels[-1][2].append(o)
        else:
            levels.append([o["n"], pk, [o]])

    res = vlib.tlc(chk.work, "AnnouncerMC", cfg, workers=1, timeout=timeout,
                   args=["-simulate", "num=%d" % num, "-depth", str(depth), "-seed", str(seed)], json_sink=sink)
    if res.error and "timeout" in str(res.error):
        raise vlib.Inconclusive("TLC simulate %s: %s" % (cfg, res.error))
    rnd = random.Random(seed * 104729 + 7)
    walks, cur = [], []
    for k, (n, pk, recs) in enumerate(levels):
        if n == 0 and cur:
            walks.append(cur)
            cur = []
        nxt = levels[k + 1] if k + 1 < len(levels) and levels[k + 1][0] == n + 1 else None
        cands = [r for r in recs if nxt is None or vlib.canon(r["post"]) == nxt[1]]
        if not cands:
            raise vlib.Inconclusive("simulation output of %s does not chain at level %d" % (cfg, k))
        cur.append(rnd.choice(cands))
    if cur:
        walks.append(cur)
    return walks, res, sum(len(l[2]) for l in levels)


def nontrivial(pre, o):
    op = o["act"].get("op")
    if op in ("Set", "Del"):
        return norm_ips(pre["ips"]) != norm_ips(o["ips"])
    if op == "Grat":
        return bool(o["frames"]) or o["gstat"] > 0
    if op in ("Arp", "Ndp"):
        return o["res"] == "reply"
    return False


# --------------------------------------------------------------------------- sequential part

def run_seq(chk):
    ndp_seen = None
    for cfg, mode, sample in SEQ[chk.tier]:
        consts = cfg_consts(cfg)
        init = dict(consts, load={"q": [], "g": []})
        if mode == "sim":
            raw, res, ncand = sim_paths(chk, cfg, SIM["num"], SIM["depth"], chk.seed)
            if not raw:
                raise vlib.Inconclusive("simulation produced no walks: " + res.out[-800:])
            edges, walks = [], []
            for w in raw:
                idx = []
                for o in w:
                    idx.append(len(edges))
                    edges.append((vlib.canon(o["pre"]), o["act"], vlib.canon(o["post"])))
                walks.append(idx)
            left = 0
            chk.cov["model_runs"].append({"cfg": cfg, "simulated_walks": len(walks), "candidate_transitions": ncand,
                                          "wall_s": round(res.wall, 1)})
        else:
            edges, inits, res = gen_edges(chk, cfg)
            walks, left = vlib.edge_cover_walks(edges, inits[0], max_len=60, seed=chk.seed, sample=sample)
        steps = [[edges[i][1] for i in w] for w in walks]
        scen = os.path.join(chk.work, "scen_%s.ndjson" % cfg)
        vlib.write_scenarios(scen, steps, init)
        vlib.log("  %s: %d edges, %d walks, %d steps, %d uncovered" % (cfg, len(edges), len(walks), sum(map(len, walks)), left))
        obs_path, ndp = replay_walks(chk, scen, cfg)
        ndp_seen = ndp if ndp_seen is None else (ndp_seen and ndp)
        fails, nlines = judge_seq(chk, obs_path)
        obs = [json.loads(l) for l in open(obs_path)]
        byw = {}
        for o in obs:
            byw.setdefault(o["w"], []).append(o)
        # drift against the model's post-state, coverage of the model's edges, non-trivial steps
        model, ncache = {}, {}

        def nk(key):
            if key not in ncache:
                ncache[key] = norm_ips(json.loads(key)["ips"])
            return ncache[key]

        for (pre, act, post) in edges:
            model.setdefault((nk(pre), stim(act)), set()).add(nk(post))
        covered, nontriv = set(), set()
        offmodel = postdrift = 0
        for n in range(len(walks)):
            ol = byw.get("w%d" % n, [])
            for k, o in enumerate(ol[1:]):
                pk, qk = norm_ips(ol[k]["ips"]), norm_ips(o["ips"])
                key = (pk, stim(o["act"]))
                if key in model:
                    covered.add(key)
                    if qk not in model[key]:
                        postdrift += 1
                else:
                    offmodel += 1
                if nontrivial(ol[k], o):
                    nontriv.add(vlib.canon([pk, key[1]]))
        dlines = [f for f in fails if any(x.startswith("D.") for x in f["fails"])]
        ilines = [f for f in fails if any(x.startswith("INFO.") for x in f["fails"])]
        chk.cov["model_edges_by_stimulus"] = chk.cov.get("model_edges_by_stimulus", 0) + len(model)
        chk.cov["model_edges_covered"] = chk.cov.get("model_edges_covered", 0) + len(covered)
        chk.cov["off_model_steps"] = chk.cov.get("off_model_steps", 0) + offmodel
        chk.cov["drift"] += len(dlines) + postdrift
        chk.cov["info_stale_scope_gratuitous"] = chk.cov.get("info_stale_scope_gratuitous", 0) + len(ilines)
        if dlines or postdrift:
            names = sorted({x for f in dlines for x in f["fails"] if x.startswith("D.")})
            print("DRIFT: %d observed steps differ from the detailed model (%s %s); not a verdict" % (len(dlines) + postdrift, cfg, names))
        chk.cov["traces_validated_against_impl"] += len(walks)
        chk.cov["evaluations"] += nlines
        chk.cov["distinct_nontrivial"] += len(nontriv)
        if mode == "edges" and cfg == "AnnouncerMC_main.cfg":
            chk.cov["exhaustive_main_graph"] = (left == 0 and sample is None)
        if walks and len(chk.cov["samples"]) < 2:
            o1 = byw.get("w0", [{}, {}])
            chk.cov["samples"].append({"cfg": cfg, "walk": steps[0][:6], "observations": o1[1:3]})
        if ilines and "info_example" not in chk.cov:
            f = ilines[0]
            o = byw[f["w"]][f["step"]]
            chk.cov["info_example"] = {"what": "gratuitous frames on an interface no current holder covers (address still held elsewhere)",
                                       "walk": steps[int(f["w"][1:])][:f["step"]], "frames": o["frames"], "ips": o["ips"]}
        mine = [f for f in fails if any(x.startswith("C13.") for x in f["fails"])]
        if mine:
            confirm_seq(chk, mine, steps, init, byw)
    return ndp_seen


def confirm_seq(chk, mine, steps, init, byw):
    """Every failing predicate is re-executed: per (predicate, operation) up to 3 walks, each cut at the first
    step where that predicate failed, replayed alone and judged again."""
    first = {}  # (walk, name) -> first failing line record
    count = {}
    for f in mine:
        for name in f["fails"]:
            if not name.startswith("C13."):
                continue
            count[name] = count.get(name, 0) + 1
            k = (f["w"], name)
            if k not in first or f["step"] < first[k]["step"]:
                first[k] = f
    sel, seen = [], {}
    for (w, name), f in sorted(first.items(), key=lambda kv: (kv[1]["step"], kv[0])):
        op = byw[w][f["step"]]["act"].get("op")
        seen[(name, op)] = seen.get((name, op), 0) + 1
        if seen[(name, op)] <= 3:
            sel.append((w, name, f))
    scen = os.path.join(chk.work, "scen_confirm.ndjson")
    with open(scen, "w") as fh:
        for n, (w, name, f) in enumerate(sel):
            fh.write(json.dumps({"id": "w%d" % n, "init": init, "steps": steps[int(w[1:])][:f["step"]]}) + "\n")
    obs_path, _ = replay_walks(chk, scen, "confirm")
    fails2, _ = judge_seq(chk, obs_path)
    again = {(f["w"], f["step"]): f for f in fails2}
    for n, (w, name, f) in enumerate(sel):
        f2 = again.get(("w%d" % n, f["step"]))
        if not f2 or name not in f2["fails"]:
            chk.notes.append("unreproduced: %s step %d %s" % (w, f["step"], name))
            continue
        o = byw[w][f["step"]]
        chk.fail(signature(name, o), name, detail={"observation": o, "failing_observations_of_this_predicate": count[name]},
                 scenario={"family": "announcer", "mode": "seq", "init": init, "steps": steps[int(w[1:])][:f["step"]]})


# --------------------------------------------------------------------------- concurrent part

def make_load(rnd, consts, p):
    v4 = [a for a in consts["ips"] if a < 100] + [3]
    v6 = [a for a in consts["ips"] if a >= 100] + [103]
    allips = consts["ips"] + FOREIGN

    def pick(pairs):
        r = rnd.random()
        for v, w in pairs:
            r -= w
            if r < 0:
                return v
        return pairs[-1][0]

    q = []
    for j in range(4):
        items = []
        for _ in range(p["items"]):
            if rnd.random() < 0.4:
                items.append({"k": "Q", "ip": rnd.choice(allips), "intf": rnd.choice(consts["intfs"])})
            elif j < 2:
                items.append({"k": "Arp", "ip": rnd.choice(v4), "aop": pick([("request", .7), ("reply", .15), ("other", .15)]),
                              "dst": pick([("self", .45), ("bcast", .25), ("other", .2), ("near", .1)]),
                              "tha": pick([("zero", .4), ("self", .35), ("other", .25)])})
            else:
                items.append({"k": "Ndp", "ip": rnd.choice(v6), "nk": pick([("ns", .55), ("ns2", .15), ("nsNoLL", .15), ("na", .15)])})
        q.append(items)
    scopes = [{"all": True, "ifs": []}, {"all": False, "ifs": ["if1"]}, {"all": False, "ifs": ["if2"]}]
    g = [dict(rnd.choice(scopes), ip=rnd.choice(consts["ips"])) for _ in range(p["grat"])]
    return {"q": q, "g": g, "gaps": [rnd.choice([0, 0, 2, 5, 10, 20, 40]) for _ in range(64)], "tail": 0}


def run_conc_harness(chk, scen, tag, tests="^(TestVerifAnnouncerConc|TestVerifAnnouncerStress)$"):
    obs_path = os.path.join(chk.work, "obs_%s.ndjson" % tag)
    rc, out = vlib.go_test(PKG, tests, overlay(chk), {"VERIF_SCENARIOS": scen, "VERIF_OBS": obs_path},
                           race=True, extra_args=["-v"])
    races = parse_races(out)
    if rc != 0 and not races:
        raise vlib.Inconclusive("announcer concurrent harness failed (rc=%s):\n%s" % (rc, out[-3000:]))
    return obs_path, races, out


def parse_races(out):
    """One entry per race-detector report: the innermost frames of metallb's own (non-harness) code."""
    reps = []
    for blk in re.split(r"WARNING: DATA RACE", out)[1:]:
        blk = blk.split("==================")[0]
        funcs = []
        for stack in re.split(r"\n\s*\n", blk):
            if not re.match(r"\s*(Read|Write|Previous read|Previous write) at ", stack or ""):
                continue
            lines = stack.splitlines()
            for k, l in enumerate(lines):
                m = re.match(r"\s+go\.universe\.tf/metallb/(.+)\(\)\s*$", l)
                if m and k + 1 < len(lines) and "zz_verif" not in lines[k + 1] and "verifkit" not in lines[k + 1] \
                        and "autogenerated" not in lines[k + 1]:
                    loc = re.search(r"([\w./-]+\.go):(\d+)", lines[k + 1])
                    funcs.append("%s@%s" % (m.group(1).split("/")[-1], os.path.basename(loc.group(1)) if loc else "?"))
                    break
            else:
                funcs.append("(harness)")
        reps.append({"funcs": sorted(set(funcs)), "text": blk.strip()[:1800]})
    return reps


def judge_conc(chk, obs_path, tag="c", chunks=12, timeout=1500):
    """Role C, concurrent: AnnouncerTrace with ConcInit/ConcNext on chunks cut at history boundaries,
    depth-first queue.  Returns (explained ids, high-water marks, all ids with sizes, lines)."""
    lines = open(obs_path).read().splitlines()
    if not lines:
        raise vlib.Inconclusive("no concurrent observations")
    hist = []  # (id, [lines])
    for l in lines:
        k = int(re.search(r'"k":(\d+)', l).group(1))
        if k == 0:
            hist.append((re.search(r'"w":"([^"]*)"', l).group(1), []))
        hist[-1][1].append(l)
    per = max(1, (len(hist) + chunks - 1) // chunks)
    parts = [hist[k:k + per] for k in range(0, len(hist), per)]
    ok, hw = set(), {}

    def one(k):
        d = os.path.join(chk.work, "cjudge_%s_%d" % (tag, k))
        os.makedirs(d, exist_ok=True)
        pth = os.path.join(d, "obs.ndjson")
        n = 0
        with open(pth, "w") as fh:
            for _, ls in parts[k]:
                fh.write("\n".join(ls) + "\n")
                n += len(ls)
        got_ok, got_hw, done = set(), {}, {}

        def sink(o):
            if "ok" in o:
                got_ok.add(o["ok"])
            elif "hw" in o:
                got_hw[o["w"]] = max(got_hw.get(o["w"], 0), o["hw"])
            elif "done" in o:
                done["n"] = o["done"]

        res = vlib.tlc(d, "AnnouncerTrace", "AnnouncerTraceConc.cfg", workers=1, timeout=timeout, extra_files=[pth],
                       json_sink=sink, heap="3g", deque=True)
        if res.error or res.violated:
            raise vlib.Inconclusive("concurrent judge: %s %s\n%s" % (res.error, res.violated, res.out[-2500:]))
        if done.get("n") != n:
            raise vlib.Inconclusive("concurrent judge consumed %s of %d lines\n%s" % (done.get("n"), n, res.out[-1500:]))
        return got_ok, got_hw, res.distinct

    states = 0
    with concurrent.futures.ThreadPoolExecutor(max_workers=len(parts)) as ex:
        for a, b, c in ex.map(one, range(len(parts))):
            ok |= a
            hw.update(b)
            states += c
    return ok, hw, hist, len(lines), states


def blocked_event(h_lines, reached):
    """The first event the search could not get past (for the signature)."""
    k = min(reached, len(h_lines) - 1)
    e = json.loads(h_lines[k])
    res = e["res"] if e["op"] not in ("Set", "Del", "G", "F") else ""
    res = re.sub(r"^panic:.*", "panic", res)
    return e, "%s:%s%s" % (e["ph"], e["op"], (":" + res) if res else "")


def run_conc(chk):
    p = CONC[chk.tier]
    consts = cfg_consts(CONC_CFG)
    raw, res, ncand = sim_paths(chk, CONC_CFG, p["num"], p["depth"], chk.seed, timeout=900)
    if not raw:
        raise vlib.Inconclusive("simulation produced no update sequences: " + res.out[-800:])
    chk.cov["model_runs"].append({"cfg": CONC_CFG, "simulated_walks": len(raw), "candidate_transitions": ncand,
                                  "wall_s": round(res.wall, 1)})
    rnd = random.Random(chk.seed * 7919 + 13)
    scen = os.path.join(chk.work, "scen_conc.ndjson")
    hists = {}
    with open(scen, "w") as fh:
        for n, w in enumerate(raw):
            steps = [{k: v for k, v in o["act"].items() if k != "exp"} for o in w]
            init = dict(consts, load=make_load(rnd, consts, p))
            if n < p["slow"]:
                init["load"]["gaps"] = [SLOW_GAP_US if k % 4 == 3 else 0 for k in range(len(steps))]
                init["load"]["tail"] = SLOW_GAP_US
            hists["h%d" % n] = {"id": "h%d" % n, "init": init, "steps": steps}
            fh.write(json.dumps(hists["h%d" % n]) + "\n")
    obs_path, races, out = run_conc_harness(chk, scen, "conc")
    ok, hw, hist, nlines, states = judge_conc(chk, obs_path)
    ncalls = sum(1 for _, ls in hist for l in ls if '"ph":"B"' in l)
    nframes = sum(1 for _, ls in hist for l in ls if '"ph":"F"' in l)
    overl = 0
    for _, ls in hist:
        open_u = False
        for l in ls:
            if '"g":"u"' in l:
                open_u = '"ph":"B"' in l
            elif open_u and '"ph":"B"' in l:
                overl += 1
    vlib.log("  concurrent: %d histories, %d calls, %d gratuitous frames, %d calls begun inside an update, "
             "%d explained, judge states %d, %d race report(s)" % (len(hist), ncalls, nframes, overl, len(ok), states, len(races)))
    chk.cov["concurrent_histories"] = len(hist)
    chk.cov["concurrent_calls"] = ncalls
    chk.cov["concurrent_gratuitous_frames"] = nframes
    chk.cov["concurrent_calls_begun_inside_an_update"] = overl
    chk.cov["concurrent_judge_states"] = states
    chk.cov["traces_validated_against_impl"] += len(ok)
    chk.cov["evaluations"] += nlines
    if hist and len(chk.cov["samples"]) < 4:
        chk.cov["samples"].append({"cfg": CONC_CFG, "history": hist[0][0], "events": [json.loads(l) for l in hist[0][1][:6]]})
    bad = [(w, ls) for w, ls in hist if w not in ok]
    chk.cov["concurrent_unexplained_first_run"] = len(bad)
    shapes = {}
    for w, ls in bad:
        shapes.setdefault(blocked_event(ls, hw.get(w, 0))[1], []).append((w, ls))
    # one representative (two tries) per distinct blocking event
    todo = [x for _, l in sorted(shapes.items())[:6] for x in l[:2]]
    confirmed = set()
    for w, ls in todo:
        e, blk = blocked_event(ls, hw.get(w, 0))
        if blk in confirmed:
            continue
        # a concurrent scenario is re-executed up to 5 times; it is a violation when it fails again
        again = None
        for attempt in range(5):
            sc1 = os.path.join(chk.work, "scen_conc_confirm.ndjson")
            with open(sc1, "w") as fh:
                fh.write(json.dumps(hists[w]) + "\n")
            o1, _, _ = run_conc_harness(chk, sc1, "cconf%d" % attempt, tests="^TestVerifAnnouncerConc$")
            ok1, hw1, hist1, _, _ = judge_conc(chk, o1, tag="cc%d" % attempt, chunks=1)
            if w not in ok1:
                again = blocked_event(hist1[0][1], hw1.get(w, 0))
                break
        if again is None:
            chk.notes.append("unreproduced concurrent history %s (blocked at %s)" % (w, blk))
            continue
        confirmed.add(blk)
        chk.fail("C13.Conc|blocked=%s" % again[1], "C13.Linearizable",
                 detail={"blocked_event": again[0], "first_run_blocked": blk, "events": [json.loads(l) for l in ls[:80]]},
                 scenario=dict(hists[w], family="announcer", mode="conc"))
    for r in races:
        if r["funcs"] == ["(harness)"]:
            raise vlib.Inconclusive("race inside the harness itself:\n" + r["text"])
        chk.fail("C13.Race|%s" % "~".join(r["funcs"]), "C13.RaceFree",
                 detail={"report": r["text"]}, scenario={"family": "announcer", "mode": "race", "note": "run bin/check C13; "
                         "the race detector names the two accesses"})


# --------------------------------------------------------------------------- entry points

def run(chk):
    ndp = run_seq(chk)
    run_conc(chk)
    chk.cov["ndp_over_udp_test_conns"] = bool(ndp)
    chk.cov["rule"] = ("sequential: every transition of the bounded TLC graphs of AnnouncerMC (quick: a seeded sample of the "
                       "3-service graph, all of the smaller ones) is executed on the real layer2.Announce with real ARP/NDP "
                       "responders, each step followed by the complete answer battery; non-trivial = distinct (pre-state, "
                       "stimulus) whose step changed the announced set, sent an unsolicited announcement or got a reply; "
                       "concurrent: one TLC-chosen update sequence per history against 4 query goroutines, the real spam "
                       "loop and direct gratuitous calls, built with -race; a history counts when TLC found a linearization")
    chk.assumptions += [
        "real NDP/ARP sockets are not opened: ARP goes over an in-memory net.PacketConn, NDP over the UDP test "
        "connections of the ndp library (ndp.TestConns) on an interface with a link-local address"
        + ("" if ndp else " -- NONE FOUND on this machine: the NDP responder path and the group counters were not exercised"),
        "NDP multicast join/leave is checked on the solicitedNodeGroups reference counters only (held => counter > 0; "
        "the exact value is drift information)",
        "all responders exist before the first announcement (responders created later by the interface scan never "
        "join the groups of addresses announced earlier: noted by reading, not observable without raw sockets)",
        "unsolicited announcements are judged per address (sent only while some service holds the address); frames on "
        "an interface that only a stale advertisement of the spam loop covers are counted as information "
        "(info_stale_scope_gratuitous), the statement being ambiguous there",
        "a neighbor solicitation without source link-layer address option is only required not to be answered when "
        "the address is not held (the code never answers it)",
        "in the concurrent histories NDP unsolicited advertisements are not observed (they go to ff02::1), ARP ones are",
        "domain: 3 services, addresses {v4 0, v6 100} (+200 sharing the solicited-node group of 100, +1 in the thorough "
        "simulation), scopes all/{if1}/{if2} (+none/{if1,if2}/all+{if1} in the thorough simulation), query interfaces if1..if3",
    ]


def replay(chk, path):
    body = json.load(open(path))
    sc = body["scenario"]
    chk.cov["samples"].append({"replayed": sc.get("mode"), "steps": sc.get("steps", [])[:8]})
    if sc.get("mode") == "seq":
        scen = os.path.join(chk.work, "scen_replay.ndjson")
        vlib.write_scenarios(scen, [sc["steps"]], sc["init"])
        obs_path, _ = replay_walks(chk, scen, "replay")
        fails, nlines = judge_seq(chk, obs_path)
        obs = [json.loads(l) for l in open(obs_path)]
        chk.cov["evaluations"] = nlines
        chk.cov["traces_validated_against_impl"] = 1
        for f in fails:
            for name in f["fails"]:
                if name.startswith("C13."):
                    chk.fail(signature(name, obs[f["line"] - 1]), name, detail={"observation": obs[f["line"] - 1]}, scenario=sc)
        return
    if sc.get("mode") == "conc":
        h = {"id": sc["id"], "init": sc["init"], "steps": sc["steps"]}
        for attempt in range(5):
            scen = os.path.join(chk.work, "scen_replay.ndjson")
            with open(scen, "w") as fh:
                fh.write(json.dumps(h) + "\n")
            obs_path, races, _ = run_conc_harness(chk, scen, "replay%d" % attempt, tests="^TestVerifAnnouncerConc$")
            ok, hw, hist, nlines, _ = judge_conc(chk, obs_path, tag="r%d" % attempt, chunks=1)
            chk.cov["evaluations"] += nlines
            chk.cov["traces_validated_against_impl"] += len(ok)
            for r in races:
                chk.fail("C13.Race|%s" % "~".join(r["funcs"]), "C13.RaceFree", detail={"report": r["text"]}, scenario=sc)
            if h["id"] not in ok:
                e, blk = blocked_event(hist[0][1], hw.get(h["id"], 0))
                chk.fail("C13.Conc|blocked=%s" % blk, "C13.Linearizable", detail={"blocked_event": e}, scenario=sc)
                return
        return
    # race: run the whole concurrent part again
    run_conc(chk)
