//go:build verif

package main

// Role B harness of the listener family (C20), controller side.  Every scenario is one run:
// several goroutines deliver Service and pool events through the REAL k8s.Listener wrappers
// (ServiceHandler / PoolHandler) into the real controller + allocator, while the real
// PoolStatusReconciler (fake API client, one per goroutine) consumes CountersForPool the way
// production does.  The closures registered in the Listener are harness wrappers: they are called
// by the Listener with its mutex held, take the sequence number there, call the real handler and
// log (seq, event, result, memory, counters).  Afterwards the same events are re-executed one at a
// time, in the recorded lock order, on a fresh controller (the serial re-execution).  The harness
// drives, projects and logs; it judges nothing.

import (
	"context"
	"encoding/json"
	"errors"
	"math/rand"
	"os"
	"reflect"
	goruntime "runtime"
	"sort"
	"strconv"
	"strings"
	"sync"
	"sync/atomic"
	"testing"
	"time"

	"github.com/go-kit/log"
	metallbv1beta1 "go.universe.tf/metallb/api/v1beta1"
	"go.universe.tf/metallb/internal/allocator"
	"go.universe.tf/metallb/internal/config"
	"go.universe.tf/metallb/internal/k8s"
	"go.universe.tf/metallb/internal/k8s/controllers"
	kit "go.universe.tf/metallb/internal/verifkit"
	v1 "k8s.io/api/core/v1"
	discovery "k8s.io/api/discovery/v1"
	metav1 "k8s.io/apimachinery/pkg/apis/meta/v1"
	"k8s.io/apimachinery/pkg/runtime"
	"k8s.io/apimachinery/pkg/types"
	ctrl "sigs.k8s.io/controller-runtime"
	"sigs.k8s.io/controller-runtime/pkg/client/fake"
)

type vlEv struct {
	K      string          `json:"k"` // "svc" | "pool"
	S      string          `json:"s,omitempty"`
	Spec   json.RawMessage `json:"spec,omitempty"` // absent = the Service was deleted
	Layout string          `json:"layout,omitempty"`
	Fate   string          `json:"fate,omitempty"` // fate of the status write, if any: "ok" | "fail"
}

type vlInit struct {
	Fetchers int    `json:"fetchers"`
	Stride   int64  `json:"stride"` // a fetcher waits until the run's clock advanced by this much between two requests
	Seed     int64  `json:"seed"`
	NilPools string `json:"nilpools"`
}

type vlCb struct {
	T    int64    `json:"t"`
	What string   `json:"what"`
	Key  string   `json:"key"`
	Val  [4]int64 `json:"val"`
}

// the object of a Service event as logged: {"null":true} or {"spec","status","ann"}
type vlObj map[string]any

var vlNullObj = vlObj{"null": true}

// what one handler invocation did (concurrent run or serial re-execution)
type vlOut struct {
	Res     string              `json:"res"`
	Tried   bool                `json:"tried"`
	Wok     bool                `json:"wok"`
	Wstatus []int               `json:"wstatus"`
	Wann    string              `json:"wann"`
	Mem     map[string]vObsMem  `json:"mem"`
	Ctr     map[string][4]int64 `json:"ctr"`
	Panic   map[string]string   `json:"panic,omitempty"`
}

type vlRec struct {
	seq    int64
	who    int
	ev     *vlEv
	svc    *v1.Service // the object delivered (nil = deleted), private copy
	obj    vlObj
	t0, t1 int64
	out    vlOut
	cbs    []vlCb
}

// vlLogger is the logger handed to the Listener: it carries the record of the event being
// delivered to the wrapper (the wrappers receive nothing else that identifies the event).
type vlLogger struct{ rec *vlRec }

func (*vlLogger) Log(...interface{}) error { return nil }

type vlFetch struct {
	What string   `json:"what"`
	Key  string   `json:"key"`
	Val  [4]int64 `json:"val"`
	B    int64    `json:"b"`
	E    int64    `json:"e"`
}

type vlAPI struct {
	status []v1.LoadBalancerIngress
	ann    string
}

type vlRun struct {
	id      string
	serial  bool
	nilName string
	clk     kit.LsnClock
	seq     int64
	c       *controller
	lsn     *k8s.Listener
	cur     atomic.Pointer[vlRec]
	crashed atomic.Bool
	apiMu   sync.Mutex
	api     map[string]vlAPI
	logMu   sync.Mutex
	recs    []*vlRec
	fetches []vlFetch
	evCh    chan string
	pools   map[string]*config.Pools
	gidMu   sync.Mutex
	gids    map[int64]bool
}

var vlPoolNames = []string{"p1", "p2", "p3", "q1"}

func vlNewRun(id string, serial bool, nilName string) *vlRun {
	r := &vlRun{id: id, serial: serial, nilName: nilName, api: map[string]vlAPI{}, pools: map[string]*config.Pools{}, gids: map[int64]bool{}}
	if !serial {
		r.evCh = make(chan string) // unbuffered, as poolStatusChan of controller/main.go
	}
	r.c = &controller{client: r}
	r.c.ips = allocator.New(r.onCounters)
	r.lsn = &k8s.Listener{ServiceChanged: r.svcChanged, PoolChanged: r.poolChanged}
	return r
}

func (r *vlRun) poolsOf(layout string) *config.Pools {
	if layout == r.nilName {
		return nil
	}
	cfg, err := config.For(config.ClusterResources{Pools: kit.PoolCRs(layout), Namespaces: kit.Namespaces()}, config.DontValidate)
	if err != nil {
		panic("layout " + layout + " rejected: " + err.Error())
	}
	return cfg.Pools
}

// ---------------------------------------------------------------- callbacks of the real code

// onCounters is the allocator's countersChangedCallback: called by the handler goroutine right
// after it rewrote the counters of `pool`.
func (r *vlRun) onCounters(pool string) {
	v := vlCountersNoLock(r.c.ips, pool)
	t := r.clk.Tick()
	if rec := r.cur.Load(); rec != nil {
		rec.cbs = append(rec.cbs, vlCb{T: t, What: "ctr", Key: pool, Val: v})
	}
	if r.evCh != nil {
		r.evCh <- pool
	}
}

// vlCountersNoLock reads the counters of one pool without taking countersMutex: the caller is the
// handler goroutine, the only writer, so the read needs no lock, and the callback must not depend
// on which locks the allocator holds while it notifies (reflection: the map is unexported).
func vlCountersNoLock(a *allocator.Allocator, pool string) [4]int64 {
	v := reflect.ValueOf(a).Elem().FieldByName("poolToCounters").MapIndex(reflect.ValueOf(pool))
	if !v.IsValid() {
		return [4]int64{}
	}
	return [4]int64{v.FieldByName("AssignedIPv4").Int(), v.FieldByName("AssignedIPv6").Int(),
		v.FieldByName("AvailableIPv4").Int(), v.FieldByName("AvailableIPv6").Int()}
}

func vlCtr(c allocator.PoolCounters) [4]int64 {
	return [4]int64{c.AssignedIPv4, c.AssignedIPv6, c.AvailableIPv4, c.AvailableIPv6}
}

// service interface of the controller
func (r *vlRun) UpdateStatus(svc *v1.Service) error {
	rec := r.cur.Load()
	if rec == nil {
		return errors.New("status write outside a handler")
	}
	rec.out.Tried = true
	rec.out.Wstatus = vStatus(svc)
	rec.out.Wann = svc.Annotations[AnnotationIPAllocateFromPool]
	if rec.ev.Fate == "fail" {
		return errors.New("injected write failure")
	}
	rec.out.Wok = true
	r.apiMu.Lock()
	r.api[svc.Name] = vlAPI{status: append([]v1.LoadBalancerIngress(nil), svc.Status.LoadBalancer.Ingress...), ann: rec.out.Wann}
	r.apiMu.Unlock()
	return nil
}
func (r *vlRun) Infof(*v1.Service, string, string, ...interface{})  {}
func (r *vlRun) Errorf(*v1.Service, string, string, ...interface{}) {}

// ---------------------------------------------------------------- the wrappers registered in the Listener

func (r *vlRun) enter(l log.Logger) *vlRec {
	rec := l.(*vlLogger).rec
	rec.seq = atomic.AddInt64(&r.seq, 1) // inside the Listener's critical section
	rec.t0 = r.clk.Tick()
	r.cur.Store(rec)
	return rec
}

func (r *vlRun) leave(rec *vlRec, p interface{}) {
	if p != nil {
		rec.out.Panic = kit.LsnPanic(p)
		rec.out.Res = "Panic"
		r.crashed.Store(true)
	}
	if rec.out.Mem == nil {
		rec.out.Mem, rec.out.Ctr = map[string]vObsMem{}, map[string][4]int64{}
	}
	if rec.out.Wstatus == nil {
		rec.out.Wstatus = []int{}
	}
	r.cur.Store(nil)
	rec.t1 = r.clk.Tick()
	r.logMu.Lock()
	r.recs = append(r.recs, rec)
	r.logMu.Unlock()
}

func (r *vlRun) svcChanged(l log.Logger, name string, svc *v1.Service, eps []discovery.EndpointSlice) (st controllers.SyncState) {
	rec := r.enter(l)
	defer func() {
		p := recover()
		if p != nil {
			st = controllers.SyncStateError
		}
		r.leave(rec, p)
	}()
	st = r.c.SetBalancer(l, name, svc, eps)
	rec.out.Res = vResName(st)
	rec.out.Mem, rec.out.Ctr = r.snapshot()
	return st
}

func (r *vlRun) poolChanged(l log.Logger, pools *config.Pools) (st controllers.SyncState) {
	rec := r.enter(l)
	defer func() {
		p := recover()
		if p != nil {
			st = controllers.SyncStateError
		}
		r.leave(rec, p)
	}()
	st = r.c.SetPools(l, pools)
	rec.out.Res = vResName(st)
	rec.out.Mem, rec.out.Ctr = r.snapshot()
	return st
}

// snapshot projects the allocator memory and the counters of every pool name of the catalogue
// (called by the handler goroutine, i.e. with the Listener's mutex held).
func (r *vlRun) snapshot() (map[string]vObsMem, map[string][4]int64) {
	mem := map[string]vObsMem{}
	for k, al := range allocator.VerifSnapshot(r.c.ips) {
		e := vObsMem{Pool: al.Pool, Ips: kit.AbsList(al.IPs), Sk: al.Sharing, Bk: strings.Replace(al.Backend, "app=", "", 1), Ports: []string{}}
		for _, p := range al.Ports {
			e.Ports = append(e.Ports, kit.PortName(p.Proto, p.Port))
		}
		sort.Strings(e.Ports)
		mem[kit.SvcOfKey(k)] = e
	}
	ctr := map[string][4]int64{}
	for _, p := range vlPoolNames {
		ctr[p] = vlCtr(r.c.ips.CountersForPool(p))
	}
	return mem, ctr
}

// ---------------------------------------------------------------- delivery

func (r *vlRun) deliver(rec *vlRec) {
	l := &vlLogger{rec: rec}
	switch rec.ev.K {
	case "svc":
		var svc *v1.Service
		if rec.svc != nil {
			svc = rec.svc.DeepCopy()
		}
		r.lsn.ServiceHandler(l, kit.SvcKey(rec.ev.S), svc, nil)
	case "pool":
		r.lsn.PoolHandler(l, r.poolsOf(rec.ev.Layout))
	default:
		panic("unknown event kind " + rec.ev.K)
	}
}

// build makes the object of a Service event the way the informer would hold it: the spec of the
// event plus the status / pool annotation most recently written through UpdateStatus.
func (r *vlRun) build(who int, ev *vlEv) *vlRec {
	rec := &vlRec{who: who, ev: ev}
	if ev.K != "svc" {
		return rec
	}
	if len(ev.Spec) == 0 || string(ev.Spec) == "null" {
		r.apiMu.Lock()
		delete(r.api, ev.S)
		r.apiMu.Unlock()
		rec.obj = vlNullObj
		return rec
	}
	svc := vMakeService(ev.S, ev.Spec)
	r.apiMu.Lock()
	cur, ok := r.api[ev.S]
	r.apiMu.Unlock()
	if ok {
		svc.Status.LoadBalancer.Ingress = append([]v1.LoadBalancerIngress(nil), cur.status...)
		if cur.ann != "" {
			if svc.Annotations == nil {
				svc.Annotations = map[string]string{}
			}
			svc.Annotations[AnnotationIPAllocateFromPool] = cur.ann
		}
	}
	rec.svc = svc
	ann := svc.Annotations[AnnotationIPAllocateFromPool]
	rec.obj = vlObj{"spec": ev.Spec, "status": vStatus(svc), "ann": ann}
	return rec
}

func (r *vlRun) track() func() {
	id := kit.LsnGoid()
	r.gidMu.Lock()
	r.gids[id] = true
	r.gidMu.Unlock()
	return func() {
		r.gidMu.Lock()
		delete(r.gids, id)
		r.gidMu.Unlock()
	}
}

func (r *vlRun) liveGids() map[int64]bool {
	r.gidMu.Lock()
	defer r.gidMu.Unlock()
	out := map[int64]bool{}
	for k := range r.gids {
		out[k] = true
	}
	return out
}

// ---------------------------------------------------------------- the status reconciler as consumer

var vlScheme = func() *runtime.Scheme {
	s := runtime.NewScheme()
	if err := metallbv1beta1.AddToScheme(s); err != nil {
		panic(err)
	}
	if err := v1.AddToScheme(s); err != nil {
		panic(err)
	}
	return s
}()

const vlNS = "metallb-system"

// poolFetcher runs the real PoolStatusReconciler against its own fake API client; the counters
// fetcher is the real CountersForPool, bracketed by two clock ticks.
func (r *vlRun) poolFetcher(rnd *rand.Rand, pending *vlPending, stop *atomic.Bool, stride int64) {
	defer r.track()()
	b := fake.NewClientBuilder().WithScheme(vlScheme)
	for _, p := range vlPoolNames {
		b = b.WithObjects(&metallbv1beta1.IPAddressPool{ObjectMeta: metav1.ObjectMeta{Name: p, Namespace: vlNS}})
	}
	b = b.WithStatusSubresource(&metallbv1beta1.IPAddressPool{})
	cl := b.Build()
	var mine []vlFetch
	rec := &controllers.PoolStatusReconciler{Client: cl, Logger: log.NewNopLogger(),
		CountersFetcher: func(name string) allocator.PoolCounters {
			t0 := r.clk.Tick()
			c := r.c.ips.CountersForPool(name)
			t1 := r.clk.Tick()
			mine = append(mine, vlFetch{What: "ctr", Key: name, Val: vlCtr(c), B: t0, E: t1})
			return c
		}}
	for !stop.Load() && !r.crashed.Load() {
		name := pending.take()
		if name == "" {
			name = vlPoolNames[rnd.Intn(len(vlPoolNames))]
		}
		_, err := rec.Reconcile(context.Background(), ctrl.Request{NamespacedName: types.NamespacedName{Namespace: vlNS, Name: name}})
		if err != nil {
			panic("PoolStatusReconciler: " + err.Error())
		}
		if len(mine) > 4000 {
			break
		}
		for next := r.clk.Now() + stride; r.clk.Now() < next && !stop.Load() && !r.crashed.Load(); {
			goruntime.Gosched()
		}
	}
	r.logMu.Lock()
	r.fetches = append(r.fetches, mine...)
	r.logMu.Unlock()
}

// vlPending is the work queue between the event channel and the status reconciler.
type vlPending struct {
	mu sync.Mutex
	q  []string
}

func (p *vlPending) add(s string) {
	p.mu.Lock()
	for _, x := range p.q {
		if x == s {
			p.mu.Unlock()
			return
		}
	}
	p.q = append(p.q, s)
	p.mu.Unlock()
}

func (p *vlPending) take() string {
	p.mu.Lock()
	defer p.mu.Unlock()
	if len(p.q) == 0 {
		return ""
	}
	s := p.q[0]
	p.q = p.q[1:]
	return s
}

// ---------------------------------------------------------------- one run

func vlOutLine(o *vlOut) map[string]any {
	m := map[string]any{"res": o.Res, "tried": o.Tried, "wok": o.Wok, "wstatus": o.Wstatus, "wann": o.Wann, "mem": o.Mem, "ctr": o.Ctr}
	if o.Panic != nil {
		m["panic"] = o.Panic
	}
	return m
}

func vlRunScenario(wk kit.Walk, blk *kit.Block, watchdog time.Duration) {
	var in vlInit
	kit.Must(json.Unmarshal(wk.Init, &in))
	scripts := make([][]vlEv, len(wk.Steps))
	for i, raw := range wk.Steps {
		kit.Must(json.Unmarshal(raw, &scripts[i]))
	}
	r := vlNewRun(wk.ID, false, in.NilPools)
	pending := &vlPending{}
	var stop atomic.Bool
	consumerDone := make(chan struct{})
	stopConsumer := make(chan struct{})
	go func() { // the channel source of the status controller: events become queued requests
		defer close(consumerDone)
		for {
			select {
			case p := <-r.evCh:
				pending.add(p)
			case <-stopConsumer:
				return
			}
		}
	}()
	var fwg, dwg sync.WaitGroup
	for f := 0; f < in.Fetchers; f++ {
		fwg.Add(1)
		rnd := rand.New(rand.NewSource(in.Seed*31 + int64(f)))
		go func() { defer fwg.Done(); r.poolFetcher(rnd, pending, &stop, in.Stride) }()
	}
	start := make(chan struct{})
	for d := range scripts {
		dwg.Add(1)
		go func(d int) {
			defer dwg.Done()
			defer r.track()()
			<-start
			for k := range scripts[d] {
				if r.crashed.Load() {
					return
				}
				r.deliver(r.build(d, &scripts[d][k]))
			}
		}(d)
	}
	done := make(chan struct{})
	go func() {
		close(start)
		dwg.Wait()
		stop.Store(true)
		fwg.Wait()
		close(stopConsumer)
		<-consumerDone
		close(done)
	}()
	verdict := kit.LsnWatch(done, watchdog, 2*time.Second, r.clk.Now, r.liveGids)
	n := 0
	line := func(m map[string]any) {
		m["w"], m["side"], m["n"] = wk.ID, "ctl", n
		n++
		blk.Add(m)
	}
	line(map[string]any{"k": "init", "deliverers": len(scripts), "fetchers": in.Fetchers})
	if verdict.Deadlock || verdict.Stall {
		// the goroutines of this run are abandoned; nothing else of it can be trusted
		line(map[string]any{"k": "mon", "panics": []any{}, "deadlock": verdict.Deadlock, "stall": verdict.Stall,
			"sites": verdict.Sites, "states": verdict.States})
		return
	}
	recs := r.recs
	sort.Slice(recs, func(i, j int) bool { return recs[i].seq < recs[j].seq })
	// serial re-execution: same events, same objects, recorded lock order, fresh instance
	s := vlNewRun(wk.ID, true, in.NilPools)
	ser := make([]*vlRec, len(recs))
	for i, rec := range recs {
		ser[i] = &vlRec{who: rec.who, ev: rec.ev, svc: rec.svc, obj: rec.obj}
		if !s.crashed.Load() {
			s.deliver(ser[i])
		} else {
			ser[i].out = vlOut{Res: "NotRun", Wstatus: []int{}, Mem: map[string]vObsMem{}, Ctr: map[string][4]int64{}}
		}
	}
	panics := []any{}
	for i, rec := range recs {
		m := vlOutLine(&rec.out)
		m["k"], m["seq"], m["who"], m["ev"], m["t0"], m["t1"] = "h", rec.seq, rec.who, rec.ev.K, rec.t0, rec.t1
		m["s"], m["layout"], m["fate"] = rec.ev.S, rec.ev.Layout, rec.ev.Fate
		if rec.ev.K == "svc" {
			m["obj"] = rec.obj
		} else {
			m["obj"] = vlNullObj
		}
		cbs := rec.cbs
		if cbs == nil {
			cbs = []vlCb{}
		}
		m["cb"] = cbs
		m["ser"] = vlOutLine(&ser[i].out)
		if rec.out.Panic != nil {
			panics = append(panics, rec.out.Panic)
		}
		line(m)
	}
	sort.Slice(r.fetches, func(i, j int) bool { return r.fetches[i].B < r.fetches[j].B })
	for _, f := range r.fetches {
		line(map[string]any{"k": "f", "what": f.What, "key": f.Key, "val": f.Val, "b": f.B, "e": f.E})
	}
	mem, ctr := r.snapshot()
	smem, sctr := s.snapshot()
	line(map[string]any{"k": "final", "mem": mem, "ctr": ctr, "ser": map[string]any{"mem": smem, "ctr": sctr},
		"handlers": len(recs), "fetches": len(r.fetches)})
	line(map[string]any{"k": "mon", "panics": panics, "deadlock": false, "stall": false, "sites": []string{}, "states": []string{}})
}

func TestVerifListenerController(t *testing.T) {
	walks := kit.ReadWalks()
	out := kit.NewObsWriter()
	defer out.Close()
	wd := 30 * time.Second
	if v := os.Getenv("VERIF_LSN_WATCHDOG_MS"); v != "" {
		ms, _ := strconv.Atoi(v)
		wd = time.Duration(ms) * time.Millisecond
	}
	kit.ForEachWalk(walks, out, func(wk kit.Walk, blk *kit.Block) { vlRunScenario(wk, blk, wd) })
}
