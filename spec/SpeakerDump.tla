---------------------------- MODULE SpeakerDump ----------------------------
(* Prints the catalogue of Speaker.tla as JSON for the Go harness.          *)
EXTENDS Speaker, Json
VARIABLE x
ASSUME PrintT(ToJson(Catalog))
Init == x = 0
Next == FALSE /\ x' = x
=============================================================================
