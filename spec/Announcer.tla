------------------------------ MODULE Announcer ------------------------------
(***************************************************************************)
(* The layer-2 announcer (internal/layer2/announcer.go, arp.go, ndp.go,     *)
(* ip_advertisement.go) as a sequential object.                             *)
(*                                                                         *)
(* Two levels are kept apart on purpose:                                    *)
(*                                                                         *)
(*  * `ann` -- what property C13 talks about: the set of                    *)
(*    (service, address, scope) triples "currently announced": the latest   *)
(*    advertisement per (service, address) of the services that were set    *)
(*    and not deleted.  It is driven by the stimuli only.                   *)
(*  * `st = [ips, refcnt, groups]` -- the memory of the Go object the way   *)
(*    the code keeps it: `ips` svc |-> sequence of advertisements (replace  *)
(*    in place / append), `refcnt` address |-> number of uses, `groups`     *)
(*    solicited-node multicast group |-> number of watchers (identical in   *)
(*    every NDP responder, all of which exist from the start).              *)
(*                                                                         *)
(* The operators are pure, so that AnnouncerMC (roles A and B) and          *)
(* AnnouncerTrace (role C) share them.                                      *)
(*                                                                         *)
(* Addresses are the abstract integers of Domain.tla (< 100: IPv4,          *)
(* 100..199: fc00::1:0 + j) plus 200+j |-> fc00::5:1:0 + j, which has the   *)
(* same low 24 bits as 100+j and therefore the same solicited-node group.   *)
(* An advertisement is [ip, all, ifs]; a scope is [all, ifs].               *)
(***************************************************************************)
EXTENDS Integers, Sequences, FiniteSets, TLC

AnnIsV4(a) == a < 100
GroupOf(a) == IF a >= 200 THEN a - 100 ELSE a

MkAdv(ip, sc) == [ip |-> ip, all |-> sc.all, ifs |-> sc.ifs]

(* IPAdvertisement.matchInterface *)
Covers(adv, intf) == adv.all \/ intf \in adv.ifs

----------------------------------------------------------------------------
(* Specification level: the announced set                                   *)

AnnSet(ann, s, adv) ==
  {e \in ann : ~(e.s = s /\ e.ip = adv.ip)} \cup {[s |-> s, ip |-> adv.ip, all |-> adv.all, ifs |-> adv.ifs]}
AnnDel(ann, s) == {e \in ann : e.s # s}

SpecHolders(ann, ip) == {e.s : e \in {x \in ann : x.ip = ip}}
SpecHeld(ann, ip) == \E e \in ann : e.ip = ip
(* at least one announced service holds ip with an advertisement covering intf *)
SpecHolds(ann, ip, intf) == \E e \in ann : e.ip = ip /\ Covers(e, intf)

----------------------------------------------------------------------------
(* Code level                                                               *)

IdxOf(seq, ip) == {k \in DOMAIN seq : seq[k].ip = ip}
HasIp(seq, ip) == IdxOf(seq, ip) # {}
FirstIdx(seq, ip) == CHOOSE k \in IdxOf(seq, ip) : \A m \in IdxOf(seq, ip) : k <= m
IpsOfSeq(seq) == {seq[k].ip : k \in DOMAIN seq}

EmptyState(Svcs, Ips) ==
  [ips    |-> [s \in Svcs |-> <<>>],
   refcnt |-> [a \in Ips |-> 0],
   groups |-> [g \in {GroupOf(a) : a \in {x \in Ips : ~AnnIsV4(x)}} |-> 0]]

(* SetBalancer(name, adv): replace in place when the service already has    *)
(* the address (no counting), else append, count, and on 0 -> 1 let every   *)
(* NDP responder watch the solicited-node group (no-op for IPv4).           *)
SetRes(st, s, adv) ==
  IF HasIp(st.ips[s], adv.ip)
  THEN [st EXCEPT !.ips[s][FirstIdx(st.ips[s], adv.ip)] = adv]
  ELSE LET rc == st.refcnt[adv.ip] + 1 IN
       [ips    |-> [st.ips EXCEPT ![s] = Append(@, adv)],
        refcnt |-> [st.refcnt EXCEPT ![adv.ip] = rc],
        groups |-> IF rc = 1 /\ ~AnnIsV4(adv.ip)
                   THEN [st.groups EXCEPT ![GroupOf(adv.ip)] = @ + 1]
                   ELSE st.groups]

(* DeleteBalancer(name): every address of the service is un-counted; an     *)
(* address whose count is no longer positive is un-watched.  (The           *)
(* addresses of one service are pairwise distinct -- invariant NoDupIp --   *)
(* so the loop of the code is order-independent.)                           *)
DelRes(st, s) ==
  LET gone == IpsOfSeq(st.ips[s])
      rc   == [a \in DOMAIN st.refcnt |-> IF a \in gone THEN st.refcnt[a] - 1 ELSE st.refcnt[a]]
      unw(g) == Cardinality({a \in gone : ~AnnIsV4(a) /\ GroupOf(a) = g /\ rc[a] <= 0})
  IN [ips    |-> [st.ips EXCEPT ![s] = <<>>],
      refcnt |-> rc,
      groups |-> [g \in DOMAIN st.groups |-> st.groups[g] - unw(g)]]

(* shouldAnnounce(ip, intf): the dropReason values of the code              *)
QueryRes(st, ip, intf) ==
  LET found == \E s \in DOMAIN st.ips : HasIp(st.ips[s], ip)
      match == \E s \in DOMAIN st.ips : \E k \in DOMAIN st.ips[s] :
                  st.ips[s][k].ip = ip /\ Covers(st.ips[s][k], intf)
  IN IF match THEN "none" ELSE IF found THEN "notThisInterface" ELSE "notAnnounced"

RefOf(st, ip) == IF ip \in DOMAIN st.refcnt THEN st.refcnt[ip] ELSE 0

(* gratuitous(adv): nothing when the count is not positive, else one        *)
(* unsolicited announcement on every responder the advertisement covers     *)
GratRes(st, adv, Resp) ==
  IF RefOf(st, adv.ip) <= 0 THEN {} ELSE {r \in Resp : Covers(adv, r)}

(* arpResponder.processRequest.  `dst` is the destination of the Ethernet   *)
(* frame, `tha` the target-hardware-address field inside the ARP packet     *)
(* (zero in ordinary requests and in Linux' unicast re-validation probes,   *)
(* the node's or any other address otherwise): two independent fields, and  *)
(* only the former says whether the frame is for this machine.              *)
ArpRes(st, aop, dst, tha, target, intf) ==
  IF aop # "request" THEN "arpReply"
  ELSE IF dst \notin {"self", "bcast"} THEN "ethernetDestination"
  ELSE LET q == QueryRes(st, target, intf) IN IF q = "none" THEN "reply" ELSE q

(* ndpResponder.processRequest *)
(* kinds: "ns" solicitation with a source link-layer option, "ns2" the same  *)
(* with a target-direction option in front of it (options are looked up by  *)
(* meaning, not by position), "nsNoLL" without a source option, "na"        *)
NdpRes(st, kind, target, intf) ==
  IF kind = "na" THEN "messageType"
  ELSE IF kind = "nsNoLL" THEN "noSourceLL"
  ELSE LET q == QueryRes(st, target, intf) IN IF q = "none" THEN "reply" ELSE q

----------------------------------------------------------------------------
(* Property C13 as relations between the two levels                         *)

NoDupIp(st) == \A s \in DOMAIN st.ips : Cardinality(IpsOfSeq(st.ips[s])) = Len(st.ips[s])

(* refcnt[ip] = number of services holding ip *)
RefcntExact(st, ann, Ips) == \A a \in Ips : RefOf(st, a) = Cardinality(SpecHolders(ann, a))

(* a request for (ip, intf) is answered iff some announced service holds ip *)
(* with an advertisement covering intf                                      *)
AnswerIff(st, ann, Ips, Intfs) ==
  \A a \in Ips, f \in Intfs : (QueryRes(st, a, f) = "none") <=> SpecHolds(ann, a, f)

(* unsolicited announcements only for held addresses *)
GratuitousOnlyHeld(st, ann, Advs, Resp) ==
  \A adv \in Advs : GratRes(st, adv, Resp) # {} => SpecHeld(ann, adv.ip)

(* only ARP requests addressed to the node or to broadcast are considered,  *)
(* and those are answered iff held and covered                              *)
ArpFilter(st, ann, Ops, Dsts, Thas, Targets, Resp) ==
  \A o \in Ops, d \in Dsts, h \in Thas, t \in Targets, r \in Resp :
     (ArpRes(st, o, d, h, t, r) = "reply") <=> (o = "request" /\ d \in {"self", "bcast"} /\ SpecHolds(ann, t, r))

(* a held IPv6 address has its solicited-node group watched; the counter is *)
(* the number of held addresses of the group                                *)
GroupsExact(st, ann, Ips) ==
  \A g \in DOMAIN st.groups :
     st.groups[g] = Cardinality({a \in Ips : ~AnnIsV4(a) /\ GroupOf(a) = g /\ SpecHeld(ann, a)})

=============================================================================
