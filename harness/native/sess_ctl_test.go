//go:build verif

package native

// Role B harness for C17, part 2: the per-run controller.  It is the receiving end of the
// verifPoint hook (harness/sesshook/sess_hook.go installs vSessOnPoint into verifHook when the
// tree under test carries the hook points): it logs {point, goroutine role, state read under
// s.mu} into the run log and, in gated mode, blocks the sender and the readers at their gates
// until the driver releases them - which makes it the scheduler of a TLC-chosen interleaving.
// This file compiles without the hook (it never names verifHook / verifPoint).

import (
	"bytes"
	"math/rand"
	"net"
	"runtime"
	"strconv"
	"strings"
	"sync"
	"time"
)

var vSessHooksPresent = false // set by harness/sesshook/sess_hook.go
var vSessCtls sync.Map        // PeerPort (uint16) -> *vSessCtl

const (
	vSessRunning = iota
	vSessAtGate
	vSessParked
	vSessExited
)

// points at which the caller of verifPoint holds s.mu
var vSessLockedPoints = map[string]bool{"set": true, "fold": true, "full.sent": true, "wait.enter": true,
	"wait.woke": true, "diff.begin": true, "diff.sent": true, "diff.withdrawn": true, "diff.done": true, "connected": true,
	"abort": true, "close": true, "reader.stale": true}

// points at which a gated run blocks the calling goroutine
var vSessBlocking = map[string]bool{"gate.connect": true, "gate.sendUpdates": true, "full.sent": true,
	"diff.sent": true, "diff.withdrawn": true, "wait.woke": true, "gate.reader": true}

// sender gates at which s.mu is held while blocked
var vSessHoldsLock = map[string]bool{"full.sent": true, "diff.sent": true, "diff.withdrawn": true}

type vSessWaiter struct {
	idx int
	ch  chan struct{}
}

// vSessCtl: every field is guarded by log.mu.
type vSessCtl struct {
	log   *vSessLog
	u     *vSessUniverse
	s     *session
	gated bool

	senderG  int64
	readerG  map[int64]int
	callerG  map[int64]bool
	nreaders int

	sstate      int
	spoint      string
	wakePending bool
	srel        chan struct{}
	rwait       []vSessWaiter
	rdone       int

	up, closed, newHas bool
	nconnected         int
	connPeerIdx        int // the peer's index of the connection of the latest "connected"
	sentOnConn         int
	hs                 int
	desync             int

	slowSend time.Duration // free-running: pace the sender after each UPDATE written (a slow socket)
	jitter   bool          // wrap s.conn at "connected" by a connection with individually delayed writes
	pace     *rand.Rand    // guarded by log.mu
}

// vSessJitterConn delays every Write call on its own before handing it on, short writes (a
// KEEPALIVE is 19 octets) longer than others: a message handed over in ONE Write still arrives
// whole, messages written concurrently or in pieces arrive in whatever order the delays produce.
type vSessJitterConn struct {
	net.Conn
	mu  sync.Mutex
	rng *rand.Rand
}

func (j *vSessJitterConn) Write(b []byte) (int, error) {
	j.mu.Lock()
	d := time.Duration(j.rng.Intn(1500)) * time.Microsecond
	if len(b) <= 19 {
		d += time.Duration(3000+j.rng.Intn(4000)) * time.Microsecond
	}
	j.mu.Unlock()
	time.Sleep(d)
	return j.Conn.Write(b)
}

func vSessNewCtl(l *vSessLog, u *vSessUniverse, gated bool) *vSessCtl {
	return &vSessCtl{log: l, u: u, gated: gated, readerG: map[int64]int{}, callerG: map[int64]bool{}}
}

func vSessGoid() int64 {
	var buf [64]byte
	n := runtime.Stack(buf[:], false)
	f := bytes.Fields(buf[:n])
	if len(f) < 2 {
		return -1
	}
	id, _ := strconv.ParseInt(string(f[1]), 10, 64)
	return id
}

// vSessOnPoint is the verifHook.
func vSessOnPoint(point string, s *session) {
	v, ok := vSessCtls.Load(s.PeerPort)
	if !ok {
		return
	}
	v.(*vSessCtl).onPoint(point, s)
}

func (c *vSessCtl) snapshotLocked(s *session, f map[string]interface{}) {
	adv, x1 := c.u.project(s.advertised)
	nt, x2 := c.u.project(s.new)
	c.up, c.closed, c.newHas = s.conn != nil, s.closed, s.new != nil
	f["st"] = true
	f["up"] = c.up
	f["closed"] = c.closed
	f["adv"] = adv
	f["nh"] = c.newHas
	f["nt"] = nt
	f["x"] = x1 + x2
}

func (c *vSessCtl) onPoint(point string, s *session) {
	base, arg := point, ""
	if i := strings.IndexByte(point, ':'); i >= 0 {
		base, arg = point[:i], point[i+1:]
	}
	gid := vSessGoid()
	l := c.log
	l.mu.Lock()
	role, rk := "sender", 0
	switch base {
	case "reader.start":
		c.nreaders++
		c.readerG[gid] = c.nreaders
		role, rk = "reader", c.nreaders
	case "gate.reader", "reader.stale":
		role, rk = "reader", c.readerG[gid]
	case "set", "close":
		role = "caller"
	case "abort":
		if gid == c.senderG {
			role = "sender"
		} else if k, ok := c.readerG[gid]; ok {
			role, rk = "reader", k
		} else if c.callerG[gid] {
			role = "caller"
		} else {
			role = "keepalive"
		}
	default:
		c.senderG = gid
	}

	if c.gated && base == "wait.woke" {
		// cond.Wait has returned and s.mu is held again.  Giving the lock up, blocking and taking
		// it again before the loop condition is re-evaluated is indistinguishable from cond.Wait
		// returning later; it lets the driver place Set / Close / reader steps before the wake-up.
		ch := make(chan struct{})
		c.sstate, c.spoint, c.srel, c.wakePending = vSessAtGate, base, ch, false
		l.bcastLocked()
		l.mu.Unlock()
		s.mu.Unlock()
		<-ch
		s.mu.Lock()
		l.mu.Lock()
		f := map[string]interface{}{"pt": base, "g": role, "rk": 0, "r": ""}
		c.snapshotLocked(s, f)
		c.hs++
		f["hs"] = c.hs
		l.addLocked("hook", f)
		l.mu.Unlock()
		return
	}

	f := map[string]interface{}{"pt": base, "g": role, "rk": rk, "r": ""}
	if arg != "" {
		f["r"] = c.u.routeName(arg)
	}
	if vSessLockedPoints[base] {
		prevUp := c.up
		c.snapshotLocked(s, f)
		_ = prevUp
	} else {
		f["st"] = false
	}
	c.hs++
	f["hs"] = c.hs
	l.addLocked("hook", f)

	var paceFor time.Duration
	if !c.gated && c.slowSend > 0 && (base == "full.sent" || base == "diff.sent") {
		paceFor = time.Duration(c.pace.Int63n(int64(c.slowSend)))
	}
	if base == "connected" && c.jitter && s.conn != nil {
		// s.mu is held: from now on everything the session writes goes through the delaying wrapper
		// (the reader keeps the inner connection; these runs have no drops by the peer)
		s.conn = &vSessJitterConn{Conn: s.conn, rng: rand.New(rand.NewSource(c.pace.Int63()))}
	}
	switch base {
	case "connected":
		c.nconnected++
		c.connPeerIdx = l.curConn
		c.sentOnConn = 0
	case "full.sent", "diff.sent", "diff.withdrawn":
		c.sentOnConn++
	case "wait.enter":
		c.sstate, c.wakePending = vSessParked, false
	case "wait.woke":
		c.sstate = vSessRunning
	case "set":
		if c.sstate == vSessParked {
			c.wakePending = true
		}
	case "abort":
		if c.sstate == vSessParked {
			c.wakePending = true
		}
		if role == "reader" {
			c.rdone++
		}
	case "reader.stale":
		c.rdone++
	case "run.exit":
		c.sstate = vSessExited
	case "connect.failed":
		c.sstate = vSessRunning
	}

	var wait chan struct{}
	if c.gated && vSessBlocking[base] {
		wait = make(chan struct{})
		if role == "reader" {
			c.rwait = append(c.rwait, vSessWaiter{idx: rk, ch: wait})
		} else {
			c.sstate, c.spoint, c.srel = vSessAtGate, base, wait
		}
	} else if role == "sender" && c.sstate == vSessAtGate {
		c.sstate = vSessRunning
	}
	l.bcastLocked()
	l.mu.Unlock()
	if wait != nil {
		<-wait
	}
	if paceFor > 0 {
		time.Sleep(paceFor) // s.mu stays held, as it would while a write blocks on a slow socket
	}
}

// ---------------------------------------------------------------------------- driver side

// changed is closed and replaced at every logged line / status change.
func (l *vSessLog) bcastLocked() {
	if l.changed != nil {
		close(l.changed)
	}
	l.changed = make(chan struct{})
}

// waitFor blocks until pred (evaluated under log.mu) holds; false on timeout.  If then is not
// nil it runs under the same lock acquisition in which pred was seen true.
func (c *vSessCtl) waitFor(timeout time.Duration, pred func() bool, then func()) bool {
	deadline := time.NewTimer(timeout)
	defer deadline.Stop()
	l := c.log
	for {
		l.mu.Lock()
		if pred() {
			if then != nil {
				then()
			}
			l.mu.Unlock()
			return true
		}
		if l.changed == nil {
			l.changed = make(chan struct{})
		}
		ch := l.changed
		l.mu.Unlock()
		select {
		case <-ch:
		case <-deadline.C:
			return false
		}
	}
}

func (c *vSessCtl) senderStable() bool {
	return c.sstate == vSessAtGate || c.sstate == vSessExited || (c.sstate == vSessParked && !c.wakePending)
}

// stabilize waits until the sender is at a gate, parked without a pending wake-up, or gone, and
// every established connection has its reader goroutine started.
func (c *vSessCtl) stabilize() bool {
	ok := c.waitFor(700*time.Millisecond, func() bool {
		// a sender inside connect() whose peer is holding the handshake back will not move either
		return (c.senderStable() || c.log.holdC != 0) && c.nreaders >= c.nconnected
	}, nil)
	if !ok {
		c.log.mu.Lock()
		c.desync++
		c.log.mu.Unlock()
	}
	return ok
}

func (c *vSessCtl) releaseSender() bool {
	l := c.log
	l.mu.Lock()
	defer l.mu.Unlock()
	if c.sstate != vSessAtGate || c.srel == nil {
		return false
	}
	ch := c.srel
	c.srel = nil
	c.sstate = vSessRunning
	close(ch)
	return true
}

func (c *vSessCtl) senderHoldsLock() bool {
	l := c.log
	l.mu.Lock()
	defer l.mu.Unlock()
	return c.sstate == vSessAtGate && vSessHoldsLock[c.spoint]
}

// ensureLockFree advances the sender until it no longer sits at a gate with s.mu held.
func (c *vSessCtl) ensureLockFree() bool {
	for i := 0; i < 16; i++ {
		if !c.senderHoldsLock() {
			return true
		}
		c.releaseSender()
		c.stabilize()
	}
	return !c.senderHoldsLock()
}

// releaseReader lets one reader (the one of connection k if it waits, else the oldest) pass
// its gate and waits until it has finished its critical section.
func (c *vSessCtl) releaseReader(k int, wait time.Duration) bool {
	if !c.waitFor(wait, func() bool { return len(c.rwait) > 0 }, nil) {
		return false
	}
	l := c.log
	l.mu.Lock()
	if len(c.rwait) == 0 {
		l.mu.Unlock()
		return false
	}
	j := 0
	for i, w := range c.rwait {
		if w.idx == k {
			j = i
		}
	}
	w := c.rwait[j]
	c.rwait = append(c.rwait[:j:j], c.rwait[j+1:]...)
	target := c.rdone + 1
	close(w.ch)
	l.mu.Unlock()
	if !c.waitFor(700*time.Millisecond, func() bool { return c.rdone >= target }, nil) {
		l.mu.Lock()
		c.desync++
		l.mu.Unlock()
	}
	return true
}

// ungate switches to free running and releases everything that is blocked.
func (c *vSessCtl) ungate() {
	l := c.log
	l.mu.Lock()
	c.gated = false
	if c.srel != nil {
		close(c.srel)
		c.srel = nil
		if c.sstate == vSessAtGate {
			c.sstate = vSessRunning
		}
	}
	for _, w := range c.rwait {
		close(w.ch)
	}
	c.rwait = nil
	l.bcastLocked()
	l.mu.Unlock()
}
