//go:build verif

package native

// Installed into internal/bgp/native only when the tree under test carries the verifPoint hook
// (bin/lib/fam_session.py greps native.go): connects the hook to the run controller of
// harness/native/sess_ctl_test.go.

func init() {
	verifHook = vSessOnPoint
	vSessHooksPresent = true
}
