--------------------------- MODULE ConfigLoadTrace ---------------------------
(***************************************************************************)
(* Role C for C18.  Two kinds of observation lines:                         *)
(*  t = "load": one snapshot given to the real toConfig in the listed       *)
(*      order (reference), repeated, and under every permutation of every   *)
(*      kind; tallies of accepted / rejected loads and of accepted values   *)
(*      that are not reflect.DeepEqual to the reference.                    *)
(*  t = "rec":  one step of a walk of the real PoolReconciler /             *)
(*      ConfigReconciler: handler invocations of the reconciliation after   *)
(*      the event and of the idle reconciliations that follow, order-free   *)
(*      digest of the value now, digest of the value applied before.        *)
(* The predicates are exactly the clauses of C18.                           *)
(***************************************************************************)
EXTENDS Integers, Sequences, FiniteSets, TLC, Json

Trace == ndJsonDeserialize("obs.ndjson")
N == Len(Trace)

VARIABLE i

Rng(f) == {f[x] : x \in DOMAIN f}

(* One "load" line carries one record per (validator mode, entry point): m.mode \in {none,      *)
(* native, frr}, m.entry \in {toConfig, webhook, for}; values are compared for toConfig only.      *)

(* computing the configuration twice from the same snapshot yields equal values *)
Repeatable(m) == m.reps.neq = 0 /\ (m.reps.nacc = 0 \/ m.reps.nrej = 0) /\ (m.first_ok <=> m.reps.nrej = 0)

(* the same value whatever the listing order (only meaningful where a       *)
(* single load has a value at all: Repeatable reports the other case)       *)
OrderFree(m) == Repeatable(m) => (\A k \in Rng(m.kinds) : k.neq = 0) /\ m.comb.neq = 0

(* acceptance or rejection does not depend on the listing order             *)
AcceptanceOrderFree(m) ==
  LET all == Rng(m.kinds) \cup {m.comb} IN
  IF m.first_ok THEN \A k \in all : k.nrej = 0 ELSE \A k \in all : k.nacc = 0

ModeFails(m) ==
  LET tag == "@" \o m.mode \o "/" \o m.entry IN
  (IF Repeatable(m) THEN {} ELSE {"C18.Repeatable" \o tag}) \cup
  (IF OrderFree(m) THEN {} ELSE {"C18.OrderFree" \o tag}) \cup
  (IF AcceptanceOrderFree(m) THEN {} ELSE {"C18.AcceptanceOrderFree" \o tag})

(* an unrelated event (or no event) never triggers the handler              *)
NoSpuriousReload(o) ==
  /\ o.idle = 0
  /\ (o.dig = o.applied => o.calls = 0)
  /\ (o.dig = "" => o.calls = 0)

(* a changed, accepted value is handed to the handler                       *)
ReloadOnChange(o) == (o.dig # "" /\ o.dig # o.applied) => o.calls >= 1

Fails(k) ==
  LET o == Trace[k] IN
  IF o.t = "load" /\ o.panic # "" THEN {"C18.NoPanic"}
  ELSE IF o.t = "load" THEN UNION {ModeFails(m) : m \in Rng(o.modes)}
  ELSE
    (IF NoSpuriousReload(o) THEN {} ELSE {"C18.NoSpuriousReload"}) \cup
    (IF ReloadOnChange(o) THEN {} ELSE {"C18.ReloadOnChange"})

Init == i = 1
Next == i < N /\ i' = i + 1

Judge ==
  LET f == Fails(i) IN
  /\ (f = {} \/ PrintT(ToJson([fails |-> f, line |-> i])))
  /\ (i < N \/ PrintT(ToJson([done |-> N])))
=============================================================================
