"""Config family: C08 (accepted configuration is sound) and C18 (configuration loading is
deterministic and independent of listing order).

C08: spec/ConfigParse.tla (denotation, necessary conditions, design model), spec/ConfigParseMC.tla
(roles A and B: TLC enumerates the bounded snapshots slice by slice, checks the design model on each
and prints it), harness/config (real config.For), spec/ConfigParseTrace.tla (role C).
C18: spec/ConfigLoad.tla / ConfigLoadMC.tla (loader + reconciler model, snapshots and permutations,
reconciler walks), harness/k8scontrollers (real toConfig, real PoolReconciler / ConfigReconciler on
the controller-runtime fake client), spec/ConfigLoadTrace.tla (role C)."""
import concurrent.futures
import json
import os
import random
import re

import vlib

PROPS = ["C08", "C18"]

def _own_mapping(hdir, pkgdir, files):
    """Overlay mapping of this family's own harness files only (harness/<hdir> may hold files of other families;
    no shared kit: helpers of other families import packages that import the packages under test here)."""
    m = {}
    for f in files:
        base = f[:-3]
        if base.endswith("_test"):
            base = base[:-5]
        m["%s/zz_verif_%s_test.go" % (pkgdir, base)] = os.path.join(vlib.HARNESS, hdir, f)
    return m


def _tlc(*a, **kw):
    """vlib.tlc, retried once on an OS-level hiccup (spec/ is copied file by file while other files may be replaced)."""
    try:
        return vlib.tlc(*a, **kw)
    except OSError as e:
        vlib.log("  retrying TLC after %r" % e)
        return vlib.tlc(*a, **kw)


# ------------------------------------------------------------------------------------------ C08

C08_SLICES = ["single", "pair4_0", "pair4_1", "pair4_2", "pair4_3", "pair6_0", "pair6_1", "pair6_2", "pair6_3",
              "pairx", "multi", "triple", "nodes", "attach", "agg", "lp"]
# (domain cfg key, fraction kept of the pair slices)
C08_TIERS = {"quick": [("w4a", 0.34)], "thorough": [("w4a", 1.0), ("w4b", 1.0), ("w5a", 1.0)]}


def _cfg_with_slices(cfgfile, slices):
    txt = open(os.path.join(vlib.SPEC, "cfg", cfgfile)).read()
    return re.sub(r"Slices = \{[^}]*\}", "Slices = {%s}" % ", ".join('"%s"' % s for s in slices), txt) + "\n"


def c08_generate(chk, key, slices=None):
    """Roles A+B: one TLC process per slice (InvModelSound checked on every snapshot, every snapshot printed)."""
    slices = slices or C08_SLICES
    cfgfile = "ConfigParseMC_%s.cfg" % key

    def one(sl):
        snaps, dom = [], {}

        def sink(o):
            if "snap" in o:
                snaps.append(o)
            elif "domain" in o:
                dom.update(o["domain"])

        res = _tlc(os.path.join(chk.work, "gen_%s_%s" % (key, sl)), "ConfigParseMC", _cfg_with_slices(cfgfile, [sl]),
                       workers=1, timeout=1500, heap="3g", json_sink=sink)
        return sl, res, snaps, dom

    out, dom = [], {}
    with concurrent.futures.ThreadPoolExecutor(max_workers=12) as ex:
        for sl, res, snaps, d in ex.map(one, slices):
            chk.add_model_run("%s:%s" % (cfgfile, sl), res)
            if res.violated:
                print("MODEL-ONLY: %s slice %s violates %s in the design model" % (cfgfile, sl, res.violated))
                chk.notes.append("MODEL-ONLY: %s slice %s violates %s" % (cfgfile, sl, res.violated))
            elif res.error:
                raise vlib.Inconclusive("TLC %s/%s: %s\n%s" % (cfgfile, sl, res.error, res.out[-1500:]))
            if not snaps:
                raise vlib.Inconclusive("slice %s of %s produced no snapshot: %s" % (sl, cfgfile, res.out[-800:]))
            vlib.log("  %s slice %-8s: %6d snapshots, %.0fs" % (key, sl, len(snaps), res.wall))
            out += snaps
            dom = d or dom
    if not dom:
        raise vlib.Inconclusive("no domain record from " + cfgfile)
    out.sort(key=lambda o: vlib.canon(o["snap"]))
    return out, dom


def c08_harness(chk, snaps, dom, tag):
    scen = os.path.join(chk.work, "c08_scen_%s.ndjson" % tag)
    obs = os.path.join(chk.work, "c08_obs_%s.ndjson" % tag)
    dpath = os.path.join(chk.work, "c08_dom_%s.json" % tag)
    json.dump(dom, open(dpath, "w"))
    with open(scen, "w") as fh:
        for o in snaps:
            fh.write(json.dumps({"id": o["id"], "snap": o["snap"]}) + "\n")
    ov = vlib.overlay_for(_own_mapping("config", "internal/config", ["parse_test.go"]), os.path.join(chk.work, "ov_config"))
    rc, out = vlib.go_test("internal/config", "^TestVerifConfigParse$", ov,
                           {"VERIF_SCENARIOS": scen, "VERIF_OBS": obs, "VERIF_DOMAIN": dpath})
    if rc != 0:
        raise vlib.Inconclusive("config harness failed (rc=%s):\n%s" % (rc, out[-3000:]))
    return obs


def c08_judge(chk, key, obs_path):
    return vlib.run_judge_parallel(chk, "ConfigParseTrace", "ConfigParseTrace_%s.cfg" % key, obs_path, walk_key="id")


def c08_shape(snap):
    ks = set()
    for p in snap["pools"]:
        for e in p["ents"]:
            ks.add("%s.%s" % (e["k"], e["sp"]) if e["k"] != "mixed" else "mixed")
    return "+".join(sorted(ks))


def c08_signature(name, snap, obs=None):
    """Canonical, input-independent description of what failed: the predicate and the spellings involved."""
    if name == "C08.FamiliesNotMixed":
        return name + "|shape=mixed-range"
    if name == "C08.NoPanic":
        what = " ".join(re.sub(r"[^a-z ]", " ", (obs or {}).get("panic", "").lower()).split())[:32].strip()
        return "%s|shape=%s|panic=%s" % (name, c08_shape(snap).replace("mixed", "mixed-range"), what)
    if name == "C08.Disjoint" and obs is not None:
        # only the pools that really intersect
        names = set()
        ps = obs["pools"]
        for x in range(len(ps)):
            for y in range(x + 1, len(ps)):
                if any(a and b for a, b in zip(ps[x]["cnt4"], ps[y]["cnt4"])) or \
                        any(a and b for a, b in zip(ps[x]["cnt6"], ps[y]["cnt6"])):
                    names |= {ps[x]["name"], ps[y]["name"]}
        sub = dict(snap, pools=[p for p in snap["pools"] if p["name"] in names] or snap["pools"])
        return "%s|shape=%s" % (name, c08_shape(sub))
    return "%s|shape=%s" % (name, c08_shape(snap))


def c08_run_one(chk, key, frac):
    prefix = "C08."
    snaps, dom = c08_generate(chk, key)
    rnd = random.Random(chk.seed)
    kept = []
    for o in snaps:
        if frac < 1.0 and o["snap"]["slice"] in ("pair4", "pair6") and rnd.random() >= frac:
            continue
        kept.append(o)
    for n, o in enumerate(kept):
        o["id"] = "%s-%s-%d" % (key, o["snap"]["slice"], n)
    vlib.log("  %s: %d snapshots enumerated by TLC, %d executed" % (key, len(snaps), len(kept)))
    obs_path = c08_harness(chk, kept, dom, key)
    fails, nlines = c08_judge(chk, key, obs_path)
    obs = [json.loads(l) for l in open(obs_path)]
    if len(obs) != len(kept):
        raise vlib.Inconclusive("harness logged %d observations for %d snapshots" % (len(obs), len(kept)))
    # coverage + drift (model accept/reject against the real one; informative only)
    accepted = set()
    by_slice = {}
    drift = {}
    exercised = {"two_or_more_pools": 0, "internal_node_ip": 0, "l2_attached": 0, "bgp_attached": 0,
                 "bgp_pair_different_localpref": 0, "cidr_pool_with_bgp": 0, "panic": 0}
    for o, k in zip(obs, kept):
        sn = k["snap"]
        sl = by_slice.setdefault(sn["slice"], {"run": 0, "accepted": 0})
        sl["run"] += 1
        if o["panic"]:
            exercised["panic"] += 1
        if o["ok"]:
            sl["accepted"] += 1
            accepted.add(vlib.canon(sn))
            exercised["two_or_more_pools"] += len(o["pools"]) >= 2
            exercised["internal_node_ip"] += any(a["t"] == "int" for n in sn["nodes"] for a in n["addrs"])
            exercised["l2_attached"] += any(p["l2"] for p in o["pools"])
            exercised["bgp_attached"] += any(p["bgp"] for p in o["pools"])
            exercised["bgp_pair_different_localpref"] += any(len({b["lp"] for b in p["bgp"]}) > 1 for p in o["pools"])
            exercised["cidr_pool_with_bgp"] += any(
                p["bgp"] and all(e["k"] == "cidr" for q in sn["pools"] if q["name"] == p["name"] for e in q["ents"])
                for p in o["pools"])
        if bool(o["ok"]) != bool(k["maccept"]) and not o["panic"]:
            d = drift.setdefault("%s|model=%s|code=%s" % (c08_shape(sn), "accept" if k["maccept"] else "reject",
                                                          "accept" if o["ok"] else "reject"), [0, None])
            d[0] += 1
            d[1] = d[1] or {"snap": sn, "err": o["err"]}
    ndrift = sum(v[0] for v in drift.values())
    if ndrift:
        print("DRIFT: %d snapshots of %s accepted/rejected differently by the design model and by config.For; not a verdict"
              % (ndrift, key))
        for kx, v in sorted(drift.items()):
            vlib.log("  drift %-60s %6d  e.g. %s" % (kx, v[0], json.dumps(v[1])[:300]))
    chk.cov["drift"] += ndrift
    chk.cov.setdefault("drift_classes", {}).update({"%s:%s" % (key, kx): v[0] for kx, v in drift.items()})
    chk.cov.setdefault("slices", {})[key] = by_slice
    chk.cov.setdefault("exercised", {})[key] = exercised
    chk.cov["traces_validated_against_impl"] += len(obs)
    chk.cov["evaluations"] += nlines
    chk.cov["distinct_nontrivial"] += len(accepted)
    chk.cov["exhaustive"] = chk.cov.get("exhaustive", True) and len(kept) == len(snaps)
    if len(chk.cov["samples"]) < 4:
        for o in obs:
            if o["ok"] and o["snap"]["slice"] in ("multi", "lp", "attach") and len(chk.cov["samples"]) < 4 \
                    and not any(s["snapshot"]["slice"] == o["snap"]["slice"] for s in chk.cov["samples"]):
                chk.cov["samples"].append({"domain": dom, "snapshot": o["snap"], "observation":
                                           {k2: o[k2] for k2 in ("ok", "err", "pools", "nodeIn")}})
    mine = [f for f in fails if any(x.startswith(prefix) for x in f["fails"])]
    if mine:
        c08_confirm(chk, key, dom, mine, obs)


def c08_confirm(chk, key, dom, mine, obs):
    """Re-execute failing snapshots alone (a bounded number per signature) and re-judge."""
    bysig = {}
    for f in mine:
        o = obs[f["line"] - 1]
        for name in f["fails"]:
            bysig.setdefault(c08_signature(name, o["snap"], o), []).append((name, o))
    sel = []
    for sig, lst in sorted(bysig.items()):
        for name, o in lst[:10]:
            sel.append((sig, name, o))
    again_in = []
    seen = set()
    for sig, name, o in sel:
        if o["id"] not in seen:
            seen.add(o["id"])
            again_in.append({"id": o["id"], "snap": o["snap"]})
    obs_path = c08_harness(chk, again_in, dom, "confirm_" + key)
    fails2, _ = c08_judge(chk, key, obs_path)
    obs2 = [json.loads(l) for l in open(obs_path)]
    again = {}
    for f in fails2:
        again.setdefault(obs2[f["line"] - 1]["id"], set()).update(f["fails"])
    for sig, name, o in sel:
        if name in again.get(o["id"], ()):
            chk.fail(sig, name, detail={"observation": {k: o[k] for k in ("ok", "err", "panic", "pools", "nodeIn")},
                                        "failing_snapshots_with_this_signature": len(bysig[sig])},
                     scenario={"family": "config", "prop": "C08", "dom": key, "domain": dom, "snap": o["snap"]})
        else:
            chk.notes.append("unreproduced: %s %s" % (o["id"], name))


# --- the admission webhooks as acceptance gate (create / update of one object against the stored ones)

C08_WH = [("configwebhook1", "internal/k8s/webhooks/webhookv1beta1", "^TestVerifCfgWebhookV1$"),
          ("configwebhook2", "internal/k8s/webhooks/webhookv1beta2", "^TestVerifCfgWebhookV2$")]


def c08_wh_harness(chk, scens, tag):
    scen = os.path.join(chk.work, "c08wh_scen_%s.ndjson" % tag)
    with open(scen, "w") as fh:
        for s in scens:
            fh.write(json.dumps(s) + "\n")
    obs_all = os.path.join(chk.work, "c08wh_obs_%s.ndjson" % tag)
    with open(obs_all, "w") as out:
        for hdir, pkg, run in C08_WH:
            obs = os.path.join(chk.work, "c08wh_obs_%s_%s.ndjson" % (tag, hdir))
            ov = vlib.overlay_for(_own_mapping(hdir, pkg, ["webhook_test.go"]), os.path.join(chk.work, "ov_" + hdir))
            rc, o = vlib.go_test(pkg, run, ov, {"VERIF_SCENARIOS": scen, "VERIF_OBS": obs})
            if rc != 0:
                raise vlib.Inconclusive("webhook harness %s failed (rc=%s):\n%s" % (hdir, rc, o[-3000:]))
            out.write(open(obs).read())
    return obs_all


def c08_wh_signature(name, o):
    return "%s|kind=%s|op=%s" % (name, o["scen"]["kind"], o["op"])


def c08_wh_judge(chk, obs_path):
    return vlib.run_judge_parallel(chk, "ConfigWebhookTrace", "ConfigWebhookTrace.cfg", obs_path, walk_key="id")


def c08_run_webhooks(chk):
    scens = []
    res = _tlc(os.path.join(chk.work, "gen_webhook"), "ConfigWebhookMC", "ConfigWebhookMC.cfg", workers=2, timeout=600, heap="2g",
               json_sink=lambda o: scens.append(o) if "scen" in o else None)
    chk.add_model_run("ConfigWebhookMC.cfg", res)
    if res.violated:
        print("MODEL-ONLY: ConfigWebhookMC violates %s in the design model" % res.violated)
        chk.notes.append("MODEL-ONLY: ConfigWebhookMC violates %s" % res.violated)
    elif res.error:
        raise vlib.Inconclusive("TLC ConfigWebhookMC: %s" % res.error)
    if not scens:
        raise vlib.Inconclusive("ConfigWebhookMC produced no scenario: " + res.out[-800:])
    scens.sort(key=lambda s: vlib.canon(s["scen"]))
    for n, s in enumerate(scens):
        s["id"] = "wh-%d" % n
    obs_path = c08_wh_harness(chk, scens, "main")
    fails, nlines = c08_wh_judge(chk, obs_path)
    obs = [json.loads(l) for l in open(obs_path)]
    if len(obs) != len(scens):
        raise vlib.Inconclusive("webhook harnesses logged %d observations for %d scenarios" % (len(obs), len(scens)))
    chk.cov["traces_validated_against_impl"] += len(obs)
    chk.cov["evaluations"] += nlines
    chk.cov["distinct_nontrivial"] += sum(1 for o in obs if o["calls"])
    chk.cov["webhook"] = {"scenarios": len(obs), "admitted": sum(1 for o in obs if o["admit"]),
                          "denied": sum(1 for o in obs if not o["admit"]),
                          "updates": sum(1 for o in obs if o["op"] == "update")}
    chk.cov["samples"].append({"kind": "webhook", "observation": next((o for o in obs if o["op"] == "update" and not o["admit"]), obs[0])})
    vlib.log("  webhooks: %d scenarios, %d admitted, %d failing lines" % (len(obs), chk.cov["webhook"]["admitted"], len(fails)))
    if not fails:
        return
    byid = {s["id"]: s for s in scens}
    sel = {}
    for f in fails:
        o = obs[f["line"] - 1]
        for name in f["fails"]:
            sel.setdefault((c08_wh_signature(name, o), name), o)
    again = [byid[o["id"]] for o in {o["id"]: o for o in sel.values()}.values()]
    obs2_path = c08_wh_harness(chk, again, "confirm")
    fails2, _ = c08_wh_judge(chk, obs2_path)
    obs2 = [json.loads(l) for l in open(obs2_path)]
    confirmed = {(obs2[f["line"] - 1]["id"], n) for f in fails2 for n in f["fails"]}
    for (sig, name), o in sorted(sel.items()):
        if (o["id"], name) in confirmed:
            chk.fail(sig, name, detail={"observation": o},
                     scenario={"family": "config", "prop": "C08", "kind": "webhook", "scen": byid[o["id"]]["scen"]})
        else:
            chk.notes.append("unreproduced: %s %s" % (o["id"], name))


def c08_run(chk):
    for key, frac in C08_TIERS[chk.tier]:
        c08_run_one(chk, key, frac)
    c08_run_webhooks(chk)
    chk.cov["rule"] = ("TLC enumerates every snapshot of each slice of spec/ConfigParseMC.tla (single entries in every "
                       "spelling, pairs and triples of pools, two-entry pools, node addresses, advertisement attachment, "
                       "aggregation lengths, local-preference pairs) over a W-bit window per family; the quick tier keeps "
                       "a seeded third of the pair slices. Every kept snapshot is given to the real config.For. "
                       "distinct_nontrivial = distinct snapshots the real code ACCEPTED (only those are judged by C08); "
                       "coverage.exercised counts the accepted snapshots in which each predicate's antecedent is non-trivial")
    chk.assumptions += [
        "pool, advertisement, node and peer names are unique inside a snapshot (duplicates are rejected before anything C08 speaks about)",
        "ranges and CIDR bases are aligned to the 2^S-address blocks of the abstract window (S4/S6 of the cfg); a 'low' spelling "
        "adds host bits to a CIDR base; exactness is still judged at single-address resolution (per-block counts)",
        "the aggregate clause is judged in its weaker reading (aggregate inside the pool's address set), so that a loader "
        "accepting an aggregate spanning two adjacent CIDRs of the same pool would not be flagged",
        "a local-preference clash is demanded to be rejected only when a common node and a common EXISTING peer are certain",
        "label selectors are matchLabels on one key; peers select every node",
        "webhook part: the validating webhooks are driven through validate*Create / validate*Update (what Handle calls after decoding); "
        "the stored objects are valid; admitted => the real validator accepts the lists the webhook consulted with the true resulting list"]


def c08_replay(chk, body):
    sc = body["scenario"]
    if sc.get("kind") == "webhook":
        obs_path = c08_wh_harness(chk, [{"id": "replay-0", "scen": sc["scen"]}], "replay")
        fails, nlines = c08_wh_judge(chk, obs_path)
        obs = [json.loads(l) for l in open(obs_path)]
        chk.cov["states"] = chk.cov["transitions"] = 1
        chk.cov["evaluations"] = nlines
        chk.cov["distinct_nontrivial"] = 1
        chk.cov["traces_validated_against_impl"] = 1
        chk.cov["samples"].append({"scenario": sc["scen"], "observation": obs[0]})
        for f in fails:
            for name in f["fails"]:
                chk.fail(c08_wh_signature(name, obs[f["line"] - 1]), name, detail={"observation": obs[f["line"] - 1]}, scenario=sc)
        return
    snap = {"id": "replay-0", "snap": sc["snap"]}
    obs_path = c08_harness(chk, [snap], sc["domain"], "replay")
    fails, nlines = c08_judge(chk, sc["dom"], obs_path)
    obs = [json.loads(l) for l in open(obs_path)]
    chk.cov["states"] = chk.cov["transitions"] = 1
    chk.cov["evaluations"] = nlines
    chk.cov["distinct_nontrivial"] = sum(1 for o in obs if o["ok"])
    chk.cov["traces_validated_against_impl"] = 1
    chk.cov["samples"].append({"snapshot": sc["snap"], "observation": obs[0]})
    for f in fails:
        for name in f["fails"]:
            if name.startswith("C08."):
                chk.fail(c08_signature(name, sc["snap"], obs[f["line"] - 1]), name, detail={"observation": obs[f["line"] - 1]}, scenario=sc)


# ------------------------------------------------------------------------------------------ C18

C18_PINMODES = ["none", "two", "three", "all", "both", "spread", "sel", "nssel", "peers", "advpairs"]
C18_LOAD = {"quick": {"cfg": "ConfigLoadMC_q.cfg", "reps": 20}, "thorough": {"cfg": "ConfigLoadMC_t.cfg", "reps": 60}}
# reconciler walks: (cfg, rec, pin, quick sample of transitions, idle reconciliations per step)
C18_RECON = {"quick": [("pool3", "pool", 3, 400, 12, "record"), ("pool2", "pool", 2, 250, 12, "record"),
                       ("pool0", "pool", 0, 150, 6, "record"),
                       ("config3", "config", 3, 350, 12, "record"), ("config0", "config", 0, 500, 6, "record"),
                       ("configadv", "config", 0, 300, 12, "record"),
                       # the PoolReconciler feeding the REAL consumer (allocator.SetPools + ReprocessAll, as controller.SetPools)
                       ("pool0", "pool", 0, 150, 4, "allocator"), ("pool3", "pool", 3, 300, 4, "allocator"),
                       ("pool2", "pool", 2, 200, 4, "allocator"), ("pool3", "pool", 1, 150, 4, "allocator"),
                       # the ConfigReconciler feeding the REAL speaker controller with the native session manager
                       ("speaker", "speaker", 0, 500, 4, "speaker-native")],
             "thorough": [("pool3", "pool", 3, None, 25, "record"), ("pool2", "pool", 2, None, 25, "record"),
                          ("pool0", "pool", 0, None, 10, "record"),
                          ("config3", "config", 3, None, 25, "record"), ("config0", "config", 0, None, 10, "record"),
                          ("configadv", "config", 0, None, 25, "record"),
                          ("pool0", "pool", 0, None, 6, "allocator"), ("pool3", "pool", 0, None, 6, "allocator"),
                          ("pool3", "pool", 3, None, 6, "allocator"), ("pool2", "pool", 2, None, 6, "allocator"),
                          ("pool3", "pool", 1, None, 6, "allocator"),
                          ("speaker", "speaker", 0, 12000, 4, "speaker-native")]}


def c18_generate_load(chk, cfgfile):
    def one(pm):
        snaps, perms = [], []

        def sink(o):
            if "snap" in o:
                snaps.append(o)
            elif "perms" in o:
                perms.append(o["perms"])

        txt = open(os.path.join(vlib.SPEC, "cfg", cfgfile)).read()
        txt = re.sub(r"PinModes = \{[^}]*\}", 'PinModes = {"%s"}' % pm, txt) + "\n"
        res = _tlc(os.path.join(chk.work, "gen_load_" + pm), "ConfigLoadMC", txt, workers=1, timeout=1500, heap="3g",
                       json_sink=sink)
        return pm, res, snaps, perms

    out, perms = [], None
    with concurrent.futures.ThreadPoolExecutor(max_workers=10) as ex:
        for pm, res, snaps, pr in ex.map(one, C18_PINMODES):
            chk.add_model_run("%s:%s" % (cfgfile, pm), res)
            if res.violated:
                print("MODEL-ONLY: %s pin mode %s violates %s in the design model" % (cfgfile, pm, res.violated))
                chk.notes.append("MODEL-ONLY: %s/%s violates %s" % (cfgfile, pm, res.violated))
            elif res.error:
                raise vlib.Inconclusive("TLC %s/%s: %s\n%s" % (cfgfile, pm, res.error, res.out[-1500:]))
            if not snaps or not pr:
                raise vlib.Inconclusive("%s/%s produced no snapshot: %s" % (cfgfile, pm, res.out[-800:]))
            vlib.log("  load snapshots pin=%-6s: %5d, %.0fs" % (pm, len(snaps), res.wall))
            out += snaps
            perms = pr[0]
    out.sort(key=lambda o: vlib.canon(o["snap"]))
    for n, o in enumerate(out):
        o["id"] = "L%d" % n
    # the loader as written (diagnostic, never a verdict): does the model of sortedCopy keep the order free?
    res = _tlc(os.path.join(chk.work, "gen_load_code"), "ConfigLoadMC", "ConfigLoadMC_code.cfg", workers=2, timeout=600,
                   heap="2g", want_json=False)
    if res.violated:
        msg = ("model of sortedCopy AS WRITTEN (less() reads the unsorted input) violates %s: order-dependent from three "
               "objects of a kind on; compare with the C18.OrderFree verdicts on the real code" % res.violated)
        vlib.log("  note: " + msg)
        chk.notes.append(msg)
    return out, perms


def c18_pinned(objs):
    """largest number of pools pinned to one namespace (explicitly or through the namespace selector)."""
    cnt = {}
    labx = [n["name"] for n in objs["namespaces"] if n["lab"] == "x"]
    for p in objs["pools"]:
        for ns in set(p["ns"]) | (set(labx) if p["nssel"] else set()):
            cnt[ns] = cnt.get(ns, 0) + 1
    return max(cnt.values()) if cnt else 0


def c18_load_harness(chk, scens, perms, reps, tag):
    scen = os.path.join(chk.work, "c18_scen_%s.ndjson" % tag)
    obs = os.path.join(chk.work, "c18_obs_%s.ndjson" % tag)
    dpath = os.path.join(chk.work, "c18_dom_%s.json" % tag)
    json.dump({"perms": perms, "reps": reps}, open(dpath, "w"))
    with open(scen, "w") as fh:
        for o in scens:
            fh.write(json.dumps({"id": o["id"], "snap": o["snap"], "objs": o["objs"]}) + "\n")
    rc, out = c18_go(chk, "^TestVerifConfigLoad$", {"VERIF_SCENARIOS": scen, "VERIF_OBS": obs, "VERIF_DOMAIN": dpath})
    if rc != 0:
        raise vlib.Inconclusive("controllers harness failed (rc=%s):\n%s" % (rc, out[-3000:]))
    return obs


def c18_go(chk, run, env):
    ov = vlib.overlay_for(_own_mapping("k8scontrollers", "internal/k8s/controllers", ["load_test.go", "recon_test.go", "cfgutil_test.go"]), os.path.join(chk.work, "ov_ctrl"))
    env = dict(env, VERIF_SEED=chk.seed)
    return vlib.go_test("internal/k8s/controllers", run, ov, env)


def c18_judge(chk, obs_path, key):
    return vlib.run_judge_parallel(chk, "ConfigLoadTrace", "ConfigLoadTrace.cfg", obs_path, walk_key=key)


def c18_mode_of(name, o):
    """judge names look like C18.OrderFree@frr/webhook: (predicate, mode record of the observation)"""
    base, _, tag = name.partition("@")
    mode, _, entry = tag.partition("/")
    for m in o["modes"]:
        if m["mode"] == mode and m["entry"] == entry:
            return base, m
    return base, o["modes"][0]


def c18_load_signatures(name, o, objs):
    base, m = c18_mode_of(name, o)
    # the validator mode / entry point is part of the signature unless it is the plain one (DontValidate through toConfig)
    sfx = "" if (m["mode"], m["entry"]) == ("none", "toConfig") else "|mode=%s|entry=%s" % (m["mode"], m["entry"])
    if base == "C18.Repeatable":
        return ["%s|pinned=%d%s" % (base, c18_pinned(objs), sfx)]
    if base == "C18.OrderFree":
        # with two or more pools pinned to one namespace a single load has no unique value (Go map order), so the
        # kind whose permutation happened to show it means nothing: the signature names the pinning instead
        pinned = c18_pinned(objs)
        if pinned >= 2:
            return ["%s|pinned=%d%s" % (base, pinned, sfx)]
        ks = ["%s|kind=%s|n=%d|pinned=%d%s" % (base, k["kind"], k["n"], pinned, sfx) for k in m["kinds"] if k["neq"]]
        return ks or ["%s|kind=combined|pinned=%d%s" % (base, pinned, sfx)]
    if base == "C18.AcceptanceOrderFree":
        bad = [k["kind"] for k in m["kinds"] + [m["comb"]] if (k["nrej"] if m["first_ok"] else k["nacc"])]
        sn = o["snap"]
        what = sn["bad"] if sn.get("kind", "grid") == "grid" else sn["kind"] + "-slice"
        return ["%s|bad=%s|kind=%s%s" % (base, what, ",".join(bad), sfx)]
    return [base + sfx]


def c18_mode_summary(o):
    return [{"mode": m["mode"], "entry": m["entry"], "first_ok": m["first_ok"], "err": m["err"], "reps": m["reps"],
             "kinds": [k for k in m["kinds"] if k["runs"]], "comb": m["comb"]} for m in o["modes"]]


def c18_run_load(chk):
    par = C18_LOAD[chk.tier]
    scens, perms = c18_generate_load(chk, par["cfg"])
    obs_path = c18_load_harness(chk, scens, perms, par["reps"], "load")
    fails, nlines = c18_judge(chk, obs_path, "id")
    obs = [json.loads(l) for l in open(obs_path)]
    if len(obs) != len(scens):
        raise vlib.Inconclusive("harness logged %d observations for %d snapshots" % (len(obs), len(scens)))
    loads = sum(1 + m["reps"]["runs"] + m["comb"]["runs"] + sum(k["runs"] for k in m["kinds"]) for o in obs for m in o["modes"])
    nontrivial = sum(1 for o in obs if any(k["n"] >= 2 for k in o["modes"][0]["kinds"]))
    chk.cov["loads"] = chk.cov.get("loads", 0) + loads
    chk.cov["load_snapshots"] = len(obs)
    chk.cov["load_snapshots_accepted"] = sum(1 for o in obs if o["modes"][0]["first_ok"])
    chk.cov["load_accepted_by_mode"] = {}
    for o in obs:
        for m in o["modes"]:
            k = "%s/%s" % (m["mode"], m["entry"])
            d = chk.cov["load_accepted_by_mode"].setdefault(k, {"accepted": 0, "rejected": 0})
            d["accepted" if m["first_ok"] else "rejected"] += 1
    chk.cov["load_snapshots_pinned_2plus"] = sum(1 for s in scens if c18_pinned(s["objs"]) >= 2)
    chk.cov["load_snapshots_3plus_of_a_kind"] = sum(1 for o in obs if any(k["n"] >= 3 for k in o["modes"][0]["kinds"]))
    chk.cov["load_snapshots_multivalued_fields"] = sum(1 for s in scens if s["snap"].get("adv") == "multi")
    chk.cov["load_snapshots_peers_slice"] = sum(1 for s in scens if s["snap"].get("kind") == "peers")
    chk.cov["load_snapshots_advpairs_slice"] = sum(1 for s in scens if s["snap"].get("kind") == "advpairs")
    chk.cov["traces_validated_against_impl"] += len(obs)
    chk.cov["evaluations"] += nlines
    chk.cov["distinct_nontrivial"] += nontrivial
    for o in obs:
        if o["modes"][0]["first_ok"] and any(k["n"] >= 3 for k in o["modes"][0]["kinds"]) and len(chk.cov["samples"]) < 2:
            chk.cov["samples"].append({"kind": "load", "snapshot": o["snap"], "observation": c18_mode_summary(o)[:3]})
    vlib.log("  load: %d snapshots, %d toConfig loads, %d failing lines" % (len(obs), loads, len(fails)))
    if not fails:
        return
    byid = {s["id"]: s for s in scens}
    bysig = {}
    for f in fails:
        o = obs[f["line"] - 1]
        for name in f["fails"]:
            for sig in c18_load_signatures(name, o, byid[o["id"]]["objs"]):
                bysig.setdefault(sig, []).append((name, o))
    sel = {}
    for sig, lst in sorted(bysig.items()):
        for name, o in lst[:6]:
            sel.setdefault(o["id"], byid[o["id"]])
    # confirm: map-order effects are probabilistic, so up to 5 re-executions with more repetitions
    confirmed = {}
    for attempt in range(5):
        todo = [s for i, s in sorted(sel.items())]
        obs2_path = c18_load_harness(chk, todo, perms, max(par["reps"], 60), "confirm%d" % attempt)
        fails2, _ = c18_judge(chk, obs2_path, "id")
        obs2 = [json.loads(l) for l in open(obs2_path)]
        for f in fails2:
            o2 = obs2[f["line"] - 1]
            for name in f["fails"]:
                for sig in c18_load_signatures(name, o2, byid[o2["id"]]["objs"]):
                    confirmed.setdefault((o2["id"], sig), o2)
        if all((o["id"], sig) in confirmed for sig, lst in bysig.items() for name, o in lst[:6]):
            break
    for sig, lst in sorted(bysig.items()):
        for name, o in lst[:6]:
            o2 = confirmed.get((o["id"], sig))
            if o2 is None:
                chk.notes.append("unreproduced: %s %s" % (o["id"], sig))
                continue
            s = byid[o["id"]]
            chk.fail(sig, name.partition("@")[0], detail={"observation": [x for x in c18_mode_summary(o2)
                                                                          if "@%s/%s" % (x["mode"], x["entry"]) in name],
                                        "failing_snapshots_with_this_signature": len(lst)},
                     scenario={"family": "config", "prop": "C18", "kind": "load", "perms": perms, "reps": max(par["reps"], 60),
                               "snap": s["snap"], "objs": s["objs"]})


def c18_recon_harness(chk, scen_path, rec, pin, idle, tag, consumer="record"):
    obs = os.path.join(chk.work, "c18_obs_%s.ndjson" % tag)
    if rec == "speaker":
        # the real speaker controller (package main of /repo/speaker) as the ConfigReconciler's handler
        ov = vlib.overlay_for(_own_mapping("speaker", "speaker", ["cfg18_test.go"]), os.path.join(chk.work, "ov_speaker"))
        rc, out = vlib.go_test("speaker", "^TestVerifCfg18Speaker$", ov,
                               {"VERIF_SCENARIOS": scen_path, "VERIF_OBS": obs, "VERIF_IDLE": idle, "VERIF_SEED": chk.seed})
        if rc != 0:
            raise vlib.Inconclusive("speaker harness (ConfigReconciler + real speaker) failed (rc=%s):\n%s" % (rc, out[-3000:]))
        return obs
    rc, out = c18_go(chk, "^TestVerifConfigRecon$", {"VERIF_SCENARIOS": scen_path, "VERIF_OBS": obs, "VERIF_REC": rec,
                                                    "VERIF_PIN": pin, "VERIF_IDLE": idle, "VERIF_CONSUMER": consumer})
    if rc != 0:
        raise vlib.Inconclusive("controllers harness (reconcilers) failed (rc=%s):\n%s" % (rc, out[-3000:]))
    return obs


def c18_rec_signature(name, o, present, pin):
    cause = "idle" if (name == "C18.NoSpuriousReload" and o["idle"]) else "op=%s:%s" % (o["act"]["op"], o["act"].get("o", ""))
    pinned = sum(1 for x in present if x in ("pa", "pb", "pc")[:pin])
    sig = "%s|rec=%s|cause=%s|pinned=%d|l2advs=%d" % (name, o["rec"], cause, pinned, sum(1 for x in present if x.startswith("l2")))
    if o.get("consumer", "record") != "record":
        sig += "|consumer=" + o["consumer"]     # the handler is the real consumer of the configuration
    return sig


def c18_present_after(init, steps):
    cur = set(init["present"])
    out = [set(cur)]
    for a in steps:
        if a["op"] == "add":
            cur.add(a["o"])
        elif a["op"] == "del":
            cur.discard(a["o"])
        out.append(set(cur))
    return out


def c18_run_recon(chk, name, rec, pin, sample, idle, consumer="record"):
    cfg = "ConfigReconMC_%s.cfg" % name
    tag = name if consumer == "record" else "%s_pin%d_%s" % (name, pin, consumer)
    edges, inits, res = vlib.generate_edges(chk, "ConfigReconMC", cfg, timeout=900, heap="4g", workers=4)
    init_key = inits[0]
    walks, left = vlib.edge_cover_walks(edges, init_key, max_len=30, seed=chk.seed, sample=sample)
    init_state = json.loads(init_key)
    steps = [[edges[i][1] for i in w] for w in walks]
    scen = os.path.join(chk.work, "c18_scen_%s.ndjson" % tag)
    vlib.write_scenarios(scen, steps, init_state, prefix=name + "-")
    obs_path = c18_recon_harness(chk, scen, rec, pin, idle, tag, consumer)
    fails, nlines = c18_judge(chk, obs_path, "w")
    obs = [json.loads(l) for l in open(obs_path)]
    byw = {}
    for o in obs:
        byw.setdefault(o["w"], []).append(o)
    drift = 0
    nontrivial = set()
    for n, st in enumerate(steps):
        ol = byw.get("%s-%d" % (name, n), [])
        pres = c18_present_after(init_state, st)
        for k, a in enumerate(st):
            if k + 1 < len(ol):
                o = ol[k + 1]
                if bool(o["calls"]) != bool(a["called"]):
                    drift += 1
                    if drift <= 3:
                        vlib.log("  drift example (%s): %s present=%s model called=%s real calls=%d" %
                                 (name, a, sorted(pres[k]), a["called"], o["calls"]))
                nontrivial.add(vlib.canon([sorted(pres[k]), a["op"], a.get("o", "")]))
    if drift:
        print("DRIFT: %d reconciler steps of %s differ from the model's handler prediction; not a verdict" % (drift, tag))
    chk.cov["drift"] += drift
    chk.cov["traces_validated_against_impl"] += len(walks)
    chk.cov["evaluations"] += nlines
    chk.cov["distinct_nontrivial"] += len(nontrivial)
    chk.cov["reconciliations"] = chk.cov.get("reconciliations", 0) + nlines * (1 + idle)
    chk.cov.setdefault("recon", {})[tag] = {"consumer": consumer, "edges": len(edges), "walks": len(walks), "steps": sum(map(len, steps)),
                                             "uncovered": left, "idle_reconciliations_per_step": idle}
    if walks and not any(isinstance(s, dict) and s.get("kind") == "recon:%s:%s" % (rec, consumer) for s in chk.cov["samples"]):
        chk.cov["samples"].append({"kind": "recon:%s:%s" % (rec, consumer), "cfg": cfg, "walk": steps[0][:6],
                                   "observations": byw.get(name + "-0", [])[:4]})
    vlib.log("  recon %s: %d edges, %d walks, %d steps, %d failing lines" % (tag, len(edges), len(walks), nlines, len(fails)))
    if not fails:
        return
    first = {}
    for f in fails:
        o = obs[f["line"] - 1]
        for nm in f["fails"]:
            key = (o["w"], nm)
            if key not in first or o["i"] < first[key]["i"]:
                first[key] = o
    bysig = {}
    for (w, nm), o in sorted(first.items()):
        n = int(w.rsplit("-", 1)[1])
        pres = c18_present_after(init_state, steps[n])[o["i"]]
        bysig.setdefault(c18_rec_signature(nm, o, pres, pin), []).append((nm, o, n))
    sel = [(sig, x) for sig, lst in sorted(bysig.items()) for x in lst[:4]]
    confirmed = set()
    for attempt in range(5):
        scen2 = os.path.join(chk.work, "c18_scen_%s_confirm.ndjson" % tag)
        with open(scen2, "w") as fh:
            for k, (sig, (nm, o, n)) in enumerate(sel):
                fh.write(json.dumps({"id": "c%d-%d" % (k, n), "init": init_state, "steps": steps[n][:o["i"]]}) + "\n")
        obs2_path = c18_recon_harness(chk, scen2, rec, pin, max(idle, 25), tag + "_confirm%d" % attempt, consumer)
        fails2, _ = c18_judge(chk, obs2_path, "w")
        obs2 = [json.loads(l) for l in open(obs2_path)]
        for f in fails2:
            o2 = obs2[f["line"] - 1]
            k = int(o2["w"][1:].split("-")[0])
            sig, (nm, o, n) = sel[k]
            pres = c18_present_after(init_state, steps[n])[o2["i"]]
            for nm2 in f["fails"]:
                if c18_rec_signature(nm2, o2, pres, pin) == sig:
                    confirmed.add(k)
        if len(confirmed) == len(sel):
            break
    for k, (sig, (nm, o, n)) in enumerate(sel):
        if k not in confirmed:
            chk.notes.append("unreproduced: %s step %d %s" % (o["w"], o["i"], sig))
            continue
        chk.fail(sig, nm, detail={"observation": o, "walks_with_this_signature": len(bysig[sig])},
                 scenario={"family": "config", "prop": "C18", "kind": "recon", "rec": rec, "pin": pin, "idle": max(idle, 25), "consumer": consumer,
                           "init": init_state, "steps": steps[n][:o["i"]]})


def c18_run(chk):
    c18_run_load(chk)
    for name, rec, pin, sample, idle, consumer in C18_RECON[chk.tier]:
        c18_run_recon(chk, name, rec, pin, sample, idle, consumer)
    chk.cov["exhaustive"] = chk.tier == "thorough"
    chk.cov["rule"] = ("load: TLC enumerates snapshots with 0..MaxN objects of every kind (count vectors: all kinds equal, or one "
                       "kind at 3/MaxN with the others at 0..2) x pinning modes x advertisement modes x rejected variants; the real "
                       "toConfig is called for the listed order, for repetitions, for every permutation of every kind and for all "
                       "kinds permuted at once. recon: every (sampled, quick) transition of spec/ConfigReconMC.tla is executed on "
                       "the real PoolReconciler/ConfigReconciler over the fake client with shuffled lists. distinct_nontrivial = "
                       "snapshots with at least one kind of >= 2 objects + distinct (present set, event) reconciler steps executed")
    chk.assumptions += [
        "object names are unique per kind; every object is valid on its own (rejected variants: overlapping pools, local-preference "
        "clash, duplicate community alias, missing BFD profile)",
        "equality of configurations is reflect.DeepEqual, the comparison the reconcilers use",
        "ReloadOnChange / NoSpuriousReload compare an order-free projection (sorted index lists and advertisement lists) of the value "
        "the real toConfig computes from the fake cluster with the projection of the value last handed to the handler",
        "handlers return SyncStateSuccess"]


def c18_replay(chk, body):
    sc = body["scenario"]
    chk.cov["states"] = chk.cov["transitions"] = 1
    if sc["kind"] == "load":
        s = {"id": "replay", "snap": sc["snap"], "objs": sc["objs"]}
        for attempt in range(5):
            obs_path = c18_load_harness(chk, [s], sc["perms"], sc["reps"], "replay%d" % attempt)
            fails, nlines = c18_judge(chk, obs_path, "id")
            obs = [json.loads(l) for l in open(obs_path)]
            if fails:
                break
        chk.cov["evaluations"] = nlines
        chk.cov["distinct_nontrivial"] = 1
        chk.cov["traces_validated_against_impl"] = 1
        chk.cov["samples"].append({"snapshot": sc["snap"], "observation": c18_mode_summary(obs[0])[:3]})
        for f in fails:
            for name in f["fails"]:
                for sig in c18_load_signatures(name, obs[f["line"] - 1], sc["objs"]):
                    chk.fail(sig, name.partition("@")[0], detail={"observation": c18_mode_summary(obs[f["line"] - 1])}, scenario=sc)
        return
    scen = os.path.join(chk.work, "c18_scen_replay.ndjson")
    vlib.write_scenarios(scen, [sc["steps"]], sc["init"], prefix="replay-")
    for attempt in range(5):
        obs_path = c18_recon_harness(chk, scen, sc["rec"], sc["pin"], sc["idle"], "replay%d" % attempt, sc.get("consumer", "record"))
        fails, nlines = c18_judge(chk, obs_path, "w")
        obs = [json.loads(l) for l in open(obs_path)]
        if fails:
            break
    chk.cov["evaluations"] = nlines
    chk.cov["distinct_nontrivial"] = len(sc["steps"])
    chk.cov["traces_validated_against_impl"] = 1
    chk.cov["samples"].append({"walk": sc["steps"], "observations": obs[:4]})
    pres = c18_present_after(sc["init"], sc["steps"])
    for f in fails:
        o = obs[f["line"] - 1]
        for name in f["fails"]:
            chk.fail(c18_rec_signature(name, o, pres[o["i"]], sc["pin"]), name, detail={"observation": o}, scenario=sc)


# ------------------------------------------------------------------------------------------ entry points

def run(chk):
    if chk.prop == "C08":
        return c08_run(chk)
    return c18_run(chk)


def replay(chk, path):
    body = json.load(open(path))
    if body["scenario"].get("prop") == "C08":
        return c08_replay(chk, body)
    return c18_replay(chk, body)
