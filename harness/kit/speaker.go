//go:build verif

package verifkit

// Helpers of the speaker family (C05, C09): the address map of spec/Speaker.tla (a 4-bit field
// across a byte boundary), the projection of a concrete prefix onto the record the specification
// uses, and the catalogue printed by TLC (spec/SpeakerDump.tla).  Nothing here judges anything.

import (
	"encoding/json"
	"net"
	"os"
	"sync"
)

// SpkIP: v4 a (0..15) |-> 10.20.(a>>2).((a&3)<<6 | 1); v6 100+a |-> fc00:0:0:(a>>2):((a&3)<<14)::1.
func SpkIP(a int) net.IP {
	if a < 100 {
		return net.IPv4(10, 20, byte(a>>2), byte((a&3)<<6|1)).To4()
	}
	a -= 100
	ip := make(net.IP, 16)
	ip[0] = 0xfc
	ip[7] = byte(a >> 2)
	ip[8] = byte((a & 3) << 6)
	ip[15] = 1
	return ip
}

// SpkAbs maps a concrete address back; 90 / 950 for addresses outside the domain.
func SpkAbs(ip net.IP) int {
	if v4 := ip.To4(); v4 != nil {
		if v4[0] == 10 && v4[1] == 20 && v4[2] < 4 && v4[3]&0x3f == 1 {
			return int(v4[2])<<2 | int(v4[3]>>6)
		}
		return 90
	}
	x := ip.To16()
	if x == nil {
		return 950
	}
	ok := x[0] == 0xfc && x[7] < 4 && x[8]&0x3f == 0 && x[15] == 1
	for i := 1; ok && i < 7; i++ {
		ok = x[i] == 0
	}
	for i := 9; ok && i < 15; i++ {
		ok = x[i] == 0
	}
	if !ok {
		return 950
	}
	return 100 + (int(x[7])<<2 | int(x[8]>>6))
}

// SpkPrefix is the record [fam, len, w, lo, hi] of spec/Speaker.tla.
type SpkPrefix struct {
	Fam string `json:"fam"`
	Len int    `json:"len"`
	W   int    `json:"w"`
	Lo  int    `json:"lo"`
	Hi  string `json:"hi"`
}

// SpkProjectPrefix describes a concrete prefix: the value of the 4-bit field, the value of the bits
// below it (capped at 2 = "something else"), and whether the bits above it are the base's, all
// zero, or something else.
func SpkProjectPrefix(n *net.IPNet) SpkPrefix {
	if n == nil {
		return SpkPrefix{Fam: "none", Hi: "other"}
	}
	l, _ := n.Mask.Size()
	if v4 := n.IP.To4(); v4 != nil && len(n.Mask) == 4 {
		p := SpkPrefix{Fam: "v4", Len: l}
		p.W = int(v4[2]&3)<<2 | int(v4[3]>>6)
		p.Lo = int(v4[3] & 0x3f)
		switch {
		case v4[0] == 10 && v4[1] == 20 && v4[2]&0xfc == 0:
			p.Hi = "base"
		case v4[0] == 0 && v4[1] == 0 && v4[2]&0xfc == 0:
			p.Hi = "zero"
		default:
			p.Hi = "other"
		}
		if p.Lo > 2 {
			p.Lo = 2
		}
		return p
	}
	x := n.IP.To16()
	if x == nil || len(n.Mask) != 16 {
		return SpkPrefix{Fam: "bad", Len: l, Hi: "other"}
	}
	p := SpkPrefix{Fam: "v6", Len: l}
	p.W = int(x[7]&3)<<2 | int(x[8]>>6)
	lo := int(x[8] & 0x3f)
	for i := 9; i < 15; i++ {
		lo |= int(x[i])
	}
	if lo != 0 {
		p.Lo = 2
	} else {
		p.Lo = int(x[15])
		if p.Lo > 2 {
			p.Lo = 2
		}
	}
	hiZero, hiBase := x[7]&0xfc == 0, x[0] == 0xfc && x[7]&0xfc == 0
	for i := 1; i < 7; i++ {
		if x[i] != 0 {
			hiZero, hiBase = false, false
		}
	}
	switch {
	case hiBase:
		p.Hi = "base"
	case hiZero && x[0] == 0:
		p.Hi = "zero"
	default:
		p.Hi = "other"
	}
	return p
}

// ---------------------------------------------------------------- catalogue (printed by TLC)

type SpkPool struct {
	Name  string   `json:"name"`
	Cidrs []string `json:"cidrs"`
	Addrs []int    `json:"addrs"`
}

type SpkL2Adv struct {
	Name  string   `json:"name"`
	Pools []string `json:"pools"`
	Nsel  string   `json:"nsel"`
	Ifs   []string `json:"ifs"`
}

type SpkBgpAdv struct {
	Name  string   `json:"name"`
	Pools []string `json:"pools"`
	Nsel  string   `json:"nsel"`
	Peers []string `json:"peers"`
	Agg4  int      `json:"agg4"`
	Agg6  int      `json:"agg6"`
	Lp    int      `json:"lp"`
	Comms []string `json:"comms"`
}

type SpkPeer struct {
	Name string `json:"name"`
	Nsel string `json:"nsel"`
}

type SpkLayout struct {
	Pools []string  `json:"pools"`
	L2    []string  `json:"l2"`
	Bgp   []string  `json:"bgp"`
	Peers []SpkPeer `json:"peers"`
}

type SpkCatalog struct {
	Pools   map[string]SpkPool   `json:"pools"`
	L2      map[string]SpkL2Adv  `json:"l2"`
	Bgp     map[string]SpkBgpAdv `json:"bgp"`
	Layouts map[string]SpkLayout `json:"layouts"`
}

var (
	spkOnce sync.Once
	spkCat  SpkCatalog
)

func SpkCat() *SpkCatalog {
	spkOnce.Do(func() {
		b, err := os.ReadFile(os.Getenv("VERIF_SPKDOMAIN"))
		if err != nil {
			panic("VERIF_SPKDOMAIN: " + err.Error())
		}
		if err := json.Unmarshal(b, &spkCat); err != nil {
			panic("VERIF_SPKDOMAIN: " + err.Error())
		}
	})
	return &spkCat
}

// SpkCommunity: the community strings behind the abstract names, and back.
var spkComms = map[string]string{"c1": "64512:100", "c2": "64512:200", "L1": "large:64512:1:2"}

func SpkCommunity(name string) string { return spkComms[name] }

func SpkCommunityName(s string) string {
	for k, v := range spkComms {
		if v == s {
			return k
		}
	}
	return "?" + s
}
