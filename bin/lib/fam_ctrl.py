"""Controller family (C03, C06, C07 and the controller-level halves of C01, C02, C11):
spec/Controller.tla + spec/ControllerMC.tla (roles A and B), harness/controller (replay on the real
controller + allocator + ServiceReconciler), spec/ControllerTrace.tla (role C)."""
import hashlib
import json
import os
import re

import vlib

PROPS = ["C03", "C06", "C07"]

# per property and tier: list of (cfg, mode)
CONFIGS = {
    "C01": {"quick": [("ControllerMC_share.cfg", "edges"), ("ControllerMC_share13.cfg", "edges"), ("ControllerMC_localshare.cfg", "edges"),
                      ("ControllerMC_fault.cfg", "edges"), ("ControllerMC_reqfull.cfg", "edges"),
                      ("ControllerMC_crashfault.cfg", "edges")],
            "thorough": [("ControllerMC_share.cfg", "edges"), ("ControllerMC_share13.cfg", "edges"), ("ControllerMC_fault.cfg", "edges"),
                         ("ControllerMC_reqfull.cfg", "edges"), ("ControllerMC_localshare.cfg", "edges"),
                         ("ControllerMC_crashfault.cfg", "edges"), ("ControllerMC_crash.cfg", "edges"),
                         ("ControllerMC_share_sim.cfg", "sim")]},
    "C02": {"quick": [("ControllerMC_req.cfg", "edges"), ("ControllerMC_dual.cfg", "edges"), ("ControllerMC_pinmove.cfg", "edges"),
                      ("ControllerMC_dualreq.cfg", "edges"), ("ControllerMC_pin.cfg", "edges"), ("ControllerMC_selmove.cfg", "edges")],
            "thorough": [("ControllerMC_req.cfg", "edges"), ("ControllerMC_dual.cfg", "edges"), ("ControllerMC_pinmove.cfg", "edges"),
                         ("ControllerMC_dualreq.cfg", "edges"), ("ControllerMC_pin.cfg", "edges"), ("ControllerMC_selmove.cfg", "edges"),
                         ("ControllerMC_dual_sim.cfg", "sim")]},
    "C03": {"quick": [("ControllerMC_stable.cfg", "edges"), ("ControllerMC_stable_il.cfg", "edges"), ("ControllerMC_stablefault.cfg", "edges"),
                      ("ControllerMC_prefer.cfg", "edges"), ("ControllerMC_localshare.cfg", "edges"), ("ControllerMC_selmove.cfg", "edges")],
            "thorough": [("ControllerMC_stable.cfg", "edges"), ("ControllerMC_stable_il.cfg", "edges"), ("ControllerMC_stablefault.cfg", "edges"),
                         ("ControllerMC_selmove.cfg", "edges"),
                         ("ControllerMC_crash3.cfg", "edges"), ("ControllerMC_prefer.cfg", "edges"), ("ControllerMC_share.cfg", "edges"),
                         ("ControllerMC_stable_sim.cfg", "sim")]},
    "C06": {"quick": [("ControllerMC_crash.cfg", "edges"), ("ControllerMC_crash3.cfg", "edges"), ("ControllerMC_fault.cfg", "edges"),
                      ("ControllerMC_crashfault.cfg", "edges"), ("ControllerMC_preferfault.cfg", "edges"),
                      ("ControllerMC_crashfault3.cfg", "edges"), ("ControllerMC_crashlayout.cfg", "edges"),
                      ("ControllerMC_crashreq.cfg", "edges")],
            "thorough": [("ControllerMC_crash.cfg", "edges"), ("ControllerMC_crash3.cfg", "edges"), ("ControllerMC_fault.cfg", "edges"),
                         ("ControllerMC_preferfault.cfg", "edges"), ("ControllerMC_crashfault3.cfg", "edges"),
                         ("ControllerMC_crashlayout.cfg", "edges"), ("ControllerMC_crashreq.cfg", "edges"),
                         ("ControllerMC_crashfault.cfg", "edges"), ("ControllerMC_stale.cfg", "edges"),
                         ("ControllerMC_crash_sim.cfg", "sim"), ("ControllerMC_stale_sim.cfg", "sim")]},
    "C07": {"quick": [("ControllerMC_starve.cfg", "edges"), ("ControllerMC_fault.cfg", "edges"), ("ControllerMC_prefer.cfg", "edges")],
            "thorough": [("ControllerMC_starve.cfg", "edges"), ("ControllerMC_fault.cfg", "edges"), ("ControllerMC_prefer.cfg", "edges"),
                         ("ControllerMC_dualreq.cfg", "edges"), ("ControllerMC_starve_sim.cfg", "sim")]},
    "C11": {"quick": [("ControllerMC_share.cfg", "edges"), ("ControllerMC_preferfault.cfg", "edges")],
            "thorough": [("ControllerMC_share.cfg", "edges"), ("ControllerMC_preferfault.cfg", "edges"), ("ControllerMC_crash_sim.cfg", "sim")]},
}
SAMPLE = {"quick": 12000, "thorough": None}
# C03's judge is the most expensive per observation (history conditions): smaller quick sample
SAMPLE_BY_PROP = {"C03": {"quick": 7000, "thorough": None}}
SIM = {"num": 8000, "depth": 60}


def mapping():
    m = vlib.harness_mapping("controller", "controller")
    m["internal/allocator/zz_verif_export.go"] = os.path.join(vlib.HARNESS, "export", "allocator_export.go")
    m["internal/k8s/controllers/zz_verif_export.go"] = os.path.join(vlib.HARNESS, "export", "controllers_export.go")
    return m


def release_kind(walk_obs, k):
    """For a starvation failure at observation k: what kind of memory change most recently made
    room (the latest step before k at which some allocation shrank, moved, changed ports or key, or
    the loaded pools changed).  Only used to name the failure, never to decide it."""
    for r in range(k, 0, -1):
        a, b = walk_obs[r - 1], walk_obs[r]
        if a["ctl"] != b["ctl"]:
            return "pools"
        wf = "+writefail" if any(not x.get("ok") for x in b.get("writes", [])) else ""
        for s, m in a["mem"].items():
            n = b["mem"].get(s)
            if n is None:
                return "removed" + wf
            if sorted(n["ips"]) != sorted(m["ips"]):
                return "ips" + wf
            if n["ports"] != m["ports"]:
                return "ports" + wf
            if (n["sk"], n["bk"]) != (m["sk"], m["bk"]):
                return "key" + wf
    return "none"


def restart_kind(walk_obs, k):
    """For a KeepAfterRestart failure: was there, at the latest crash, a Service whose (not yet reconciled)
    request names an address recorded for another Service?  Only used to name the failure."""
    c = None
    for r in range(k, -1, -1):
        if walk_obs[r].get("crashed"):
            c = r
            break
    if c is None:
        return "nocrash"
    api = walk_obs[c]["api"]
    for t, v in api.items():
        req = v["spec"].get("reqIPs") or []
        if req and sorted(req) != sorted(v["status"]):
            for u, w in api.items():
                if u != t and set(req) & set(w["status"]):
                    return "unreconciled-request-for-recorded-address"
    # a Service that held a (now different) record at the crash sits, at the failing observation, on an address
    # that was recorded for another Service at the crash: the holder of a stale record moved onto it.  The step
    # kind at which it got there is part of the name (in the first re-sync pass or by a single-service request).
    now = walk_obs[k]["api"]
    for u, v in api.items():
        su = set(v["status"])
        if not su or (u in now and set(now[u]["status"]) == su):
            continue
        for t, w in api.items():
            if t == u or t not in now or not w["status"] or (w["spec"].get("reqIPs") or []):
                continue
            if set(now[t]["status"]) & su and set(now[t]["status"]) != set(w["status"]):
                via = "?"
                for r in range(c + 1, k + 1):
                    a = walk_obs[r]["api"]
                    if t in a and set(a[t]["status"]) & su:
                        via = walk_obs[r]["op"]
                        break
                return "stale-record-holder-takes-recorded-address" + ("" if via == "PassStep" else "+via=" + via)
    return "other"


def signature(fail, obs, walk_obs=None, k=None):
    """Stable description of a failure: predicate and the kind of step; for starvation, what
    released the address."""
    if fail == "C07.NoStarvation" and walk_obs is not None:
        return "%s|release=%s" % (fail, release_kind(walk_obs, k))
    if fail == "C06.KeepAfterRestart" and walk_obs is not None:
        return "%s|kind=%s" % (fail, restart_kind(walk_obs, k))
    return "%s|op=%s" % (fail, obs.get("op"))


def replay_walks(chk, scen_path, domain_path, tag, seed=None):
    obs_path = os.path.join(chk.work, "obs_%s.ndjson" % tag)
    ov = vlib.overlay_for(mapping(), chk.work)
    rc, out = vlib.go_test("controller", "^TestVerifControllerReplay$", ov,
                           {"VERIF_SCENARIOS": scen_path, "VERIF_OBS": obs_path, "VERIF_DOMAIN": domain_path,
                            "VERIF_SEED": chk.seed if seed is None else seed})
    if rc != 0:
        raise vlib.Inconclusive("controller harness failed (rc=%s):\n%s" % (rc, out[-3000:]))
    return obs_path


def judge(chk, obs_path):
    return vlib.run_judge_parallel(chk, "ControllerTrace", "ControllerTrace.cfg", obs_path)


def init_of(state):
    svcs = {s: v["spec"] for s, v in state["api"].items() if not v.get("null")}
    return {"layout": state["cfgApi"], "svcs": svcs, "stale": bool(state.get("stale"))}


def history_kind(walk_obs, k):
    """What kinds of user operations / faults precede observation k in its walk (for signatures)."""
    ops = []
    for o in walk_obs[:k + 1]:
        if o["op"] in ("UserPut", "UserDelete", "UserLayout", "Crash") or o.get("crashed"):
            ops.append(o["op"] if not o.get("crashed") else "Crash")
    return ops


def run_controller(chk):
    domain_path, _ = vlib.domain_dump(chk)
    prefix = chk.prop + "."
    for cfg, mode in CONFIGS[chk.prop][chk.tier]:
        if mode == "sim":
            raw, res = vlib.simulate_walks(chk, "ControllerMC", cfg, SIM["num"], SIM["depth"], chk.seed, mode="generate")
            if not raw:
                raise vlib.Inconclusive("simulation produced no walks: " + res.out[-800:])
            steps = [[o["act"] for o in w] for w in raw]
            inits = [init_of(dict(res.init_states[w[0]["pre_h"]], stale=res.extra.get("stale", False))) for w in raw]
            nedges = sum(map(len, steps))
            del raw
            left = 0
            exhaustive = False
        else:
            edges, initkeys, res = vlib.generate_edges(chk, "ControllerMC", cfg)
            init_state = dict(json.loads(initkeys[0]), stale=res.extra.get("stale", False))
            sample = SAMPLE_BY_PROP.get(chk.prop, SAMPLE).get(chk.tier)
            walks, left = vlib.edge_cover_walks(edges, initkeys[0], max_len=60, seed=chk.seed, sample=sample)
            steps = [[edges[i][1] for i in w] for w in walks]
            inits = [init_of(init_state)] * len(walks)
            nedges = len(edges)
            exhaustive = (left == 0 and (sample is None or sample >= len(edges)))
        scen = os.path.join(chk.work, "scen_%s.ndjson" % cfg)
        with open(scen, "w") as fh:
            for n, st in enumerate(steps):
                fh.write(json.dumps({"id": "w%d" % n, "init": inits[n], "steps": st}) + "\n")
        vlib.log("  %s: %d edges, %d walks, %d steps, %d uncovered" % (cfg, nedges, len(steps), sum(map(len, steps)), left))
        obs_path = replay_walks(chk, scen, domain_path, cfg)
        fails, nlines = judge(chk, obs_path)
        # stream the observations (they can be hundreds of thousands of lines): counts only; the
        # observations of failing walks are loaded afterwards
        nontrivial = set()
        quiescent = 0
        prev = None
        sample_obs = []
        with open(obs_path) as fh:
            for line in fh:
                o = json.loads(line)
                if o["w"] == "w0" and len(sample_obs) < 4:
                    sample_obs.append(o)
                if prev is not None and prev["w"] == o["w"]:
                    if o["q"]:
                        quiescent += 1
                    if o["api"] != prev["api"] or o["mem"] != prev["mem"]:
                        nontrivial.add(hashlib.md5(vlib.canon([prev["api"], prev["mem"], prev["ctl"], o["op"], o["s"],
                                                               o["act"] if o["op"].startswith("User") else None]).encode()).digest())
                prev = o
        mine = [f for f in fails if any(x.startswith(prefix) for x in f["fails"])]
        byw = {}
        if mine:
            want = set(f["w"] for f in mine)
            for wname, ol in vlib.iter_walk_obs(obs_path):
                if wname in want:
                    byw[wname] = ol
        chk.cov["traces_validated_against_impl"] += len(steps)
        chk.cov["evaluations"] += nlines
        chk.cov["distinct_nontrivial"] += len(nontrivial)
        chk.cov["quiescent_observations"] = chk.cov.get("quiescent_observations", 0) + quiescent
        chk.cov["exhaustive"] = chk.cov.get("exhaustive", True) and exhaustive
        if steps and len(chk.cov["samples"]) < 2:
            chk.cov["samples"].append({"cfg": cfg, "walk": steps[0][:10], "observations": sample_obs})
        if mine:
            confirm(chk, mine, steps, inits, domain_path, byw)
    rule = ("controller level: every transition of the bounded TLC state graph of ControllerMC (user operations, pool "
            "changes, reconcile requests, re-sync passes, failing writes, crashes) is executed on the real controller + "
            "allocator + ServiceReconciler (edge cover by walks, each walk drained to quiescence); non-trivial = distinct "
            "(API objects, memory, configuration, step) whose step changed the API objects or the memory")
    chk.cov["rule"] = (chk.cov["rule"] + " || " if chk.cov["rule"] else "") + rule
    chk.assumptions += ["Services carry at least one port; loadBalancerIP and the loadBalancerIPs annotation are never both set; "
                        "requested addresses are syntactically valid",
                        "the informer cache follows the API server at once unless the configuration says Stale",
                        "a Service's sharing key is what controller/service.go documents: the stable allow-shared-ip annotation when it "
                        "is present (even empty), the deprecated one otherwise",
                        "API faults are finite (bounded numbers of failing status writes, failing List calls and crashes per walk)"]


def confirm(chk, mine, steps, inits, domain_path, byw):
    prefix = chk.prop + "."
    first = {}
    for f in mine:
        w = f["w"]
        if w not in first or f["step"] < first[w]["step"]:
            first[w] = f
    # one representative walk per (predicate set, op) to keep the confirmation small
    reps = {}
    for w, f in sorted(first.items()):
        o = byw[w][f["step"]]
        for name in f["fails"]:
            if name.startswith(prefix):
                reps.setdefault(signature(name, o, byw[w], f["step"]), []).append((w, f))
    sel = {}
    for key, lst in reps.items():
        for w, f in lst[:3]:
            sel[w] = f
    scen = os.path.join(chk.work, "scen_confirm.ndjson")
    with open(scen, "w") as fh:
        for w, f in sorted(sel.items()):
            n = int(w[1:])
            fh.write(json.dumps({"id": w, "init": inits[n], "steps": steps[n]}) + "\n")
    obs_path = replay_walks(chk, scen, domain_path, "confirm")
    fails2, _ = judge(chk, obs_path)
    obs2 = {}
    for l in open(obs_path):
        o = json.loads(l)
        obs2.setdefault(o["w"], []).append(o)
    again = {}
    for f in fails2:
        again.setdefault(f["w"], set()).update(f["fails"])
    for w, f in sorted(sel.items()):
        n = int(w[1:])
        o = byw[w][f["step"]]
        for name in f["fails"]:
            if not name.startswith(prefix):
                continue
            if name in again.get(w, set()):
                chk.fail(signature(name, o, byw[w], f["step"]), name,
                         detail={"observation": o, "history": history_kind(byw[w], f["step"])},
                         scenario={"family": "ctrl", "id": w, "init": inits[n], "steps": steps[n]})
            else:
                chk.notes.append("unreproduced: %s obs %d %s" % (w, f["step"], name))
    # every failing (predicate, op) pair that was not selected is represented by its signature already


# allocator-level configurations that also decide predicates of these properties (AllocTrace.tla:
# C07.FailOnlyIfEmpty, C03.AdditionalKeeps)
ALLOC_LEVEL = {
    "C07": {"quick": [("AllocMC_policy2.cfg", "edges"), ("AllocMC_policyS.cfg", "edges"), ("AllocMC_fpshare.cfg", "edges")],
            "thorough": [("AllocMC_policy2.cfg", "edges"), ("AllocMC_policyS.cfg", "edges"), ("AllocMC_fpshare.cfg", "edges"),
                         ("AllocMC_policy_sim.cfg", "sim")]},
    "C03": {"quick": [("AllocMC_policy2.cfg", "edges")],
            "thorough": [("AllocMC_policy2.cfg", "edges"), ("AllocMC_policy_sim.cfg", "sim")]},
}


def run(chk):
    if chk.prop in ALLOC_LEVEL:
        import fam_alloc
        fam_alloc.run_alloc_level(chk, ALLOC_LEVEL[chk.prop][chk.tier])
    run_controller(chk)


def replay(chk, path):
    body = json.load(open(path))
    domain_path, _ = vlib.domain_dump(chk)
    sc = body["scenario"]
    scen = os.path.join(chk.work, "scen_replay.ndjson")
    with open(scen, "w") as fh:
        fh.write(json.dumps({"id": sc.get("id", "w0"), "init": sc["init"], "steps": sc["steps"]}) + "\n")
    # the order of List results and other environment choices of the harness derive from (seed, walk id):
    # a replay uses the seed the scenario was recorded with
    obs_path = replay_walks(chk, scen, domain_path, "replay", seed=body.get("seed"))
    fails, nlines = judge(chk, obs_path)
    obs = [json.loads(l) for l in open(obs_path)]
    chk.cov["evaluations"] = nlines
    chk.cov["traces_validated_against_impl"] = 1
    chk.cov["samples"].append(sc["steps"][:8])
    for f in fails:
        for name in f["fails"]:
            if name.startswith(chk.prop + "."):
                chk.fail(signature(name, obs[f["line"] - 1], obs, f["line"] - 1), name,
                         detail={"observation": obs[f["line"] - 1]}, scenario=sc)
