-------------------------- MODULE ConfigWebhookTrace --------------------------
(***************************************************************************)
(* Role C for the webhook part of C08.  One observation per scenario: what  *)
(* the recording validator saw when the real validate*Create/Update ran.    *)
(***************************************************************************)
EXTENDS Integers, Sequences, FiniteSets, TLC, Json

Trace == ndJsonDeserialize("obs.ndjson")
N == Len(Trace)

VARIABLE i

(* the validated set is the stored set with the new version of the object   *)
(* in place of the old one (appended on create)                             *)
ValidatesNewState(o) ==
  /\ o.calls = 1
  /\ o.listlen = o.scen.n + (IF o.scen.pos = 0 THEN 1 ELSE 0)
  /\ o.target_count = 1
  /\ o.target_is_new
  /\ ~o.target_is_old
  /\ o.others_same

(* what is admitted is what the validator accepts for the RESULTING set     *)
AdmitsOnlyValid(o) == o.admit => o.result_ok

Fails(k) ==
  LET o == Trace[k] IN
  IF o.panic # "" THEN {"C08.NoPanic"}
  ELSE (IF ValidatesNewState(o) THEN {} ELSE {"C08.WebhookValidatesNewState"}) \cup
       (IF AdmitsOnlyValid(o) THEN {} ELSE {"C08.WebhookAdmitsOnlyValid"})

Init == i = 1
Next == i < N /\ i' = i + 1

Judge ==
  LET f == Fails(i) IN
  /\ (f = {} \/ PrintT(ToJson([fails |-> f, line |-> i, id |-> Trace[i].id])))
  /\ (i < N \/ PrintT(ToJson([done |-> N])))
=============================================================================
