"""Session family (C17, native BGP session convergence): spec/BGPSession.tla (the session as the code is
structured: one action per critical section of s.mu), spec/BGPSessionMC.tla (role A: exhaustive design check +
liveness; role B: TLC-chosen interleavings), harness/native/sess_*.go (real session against an in-process scripted
peer: seeded free-running stress, and - when the tree carries the verifPoint hook - schedules replayed through the
blocking hook), spec/BGPSessionTrace.tla (role C: peer-side predicates + trace validation of the hook events)."""
import concurrent.futures
import json
import os
import re

import vlib

PROPS = ["C17"]

PKG = "internal/bgp/native"
TIERS = {
    "quick": {"stress": 200, "gated": 400, "depth": 60, "race": False, "par": 12,
              "model": [("BGPSessionMC_small.cfg", 8, ()), ("BGPSessionMC_live.cfg", 4, ())]},
    "thorough": {"stress": 1500, "gated": 5000, "depth": 70, "race": True, "par": 12,
                 "model": [("BGPSessionMC_full.cfg", 10, ()), ("BGPSessionMC_sets4.cfg", 4, ()),
                           ("BGPSessionMC_live.cfg", 2, ())]},
}
CONFIRM_TRIES = 5
MAX_INCONCLUSIVE_RUNS = 0.2


def hooks_present():
    try:
        return "verifPoint(" in open(os.path.join(vlib.REPO, PKG, "native.go")).read()
    except OSError:
        return False


def mapping(hooks):
    m = vlib.harness_mapping("native", PKG)
    if hooks:
        m[PKG + "/zz_verif_sess_hook_test.go"] = os.path.join(vlib.HARNESS, "sesshook", "sess_hook.go")
    return m


# --------------------------------------------------------------------------- role A

def model_runs(chk, specs):
    """Role A on several TLC processes at once."""
    def one(spec):
        cfg, workers, args = spec
        return cfg, vlib.tlc(os.path.join(chk.work, "model_" + cfg), "BGPSessionMC", cfg, workers=workers, timeout=1500,
                             args=list(args), heap="10g", want_json=False)
    ex = concurrent.futures.ThreadPoolExecutor(max_workers=len(specs))
    return ex, [ex.submit(one, s) for s in specs]


def collect_model(chk, futs):
    for f in futs:
        cfg, res = f.result()
        chk.add_model_run(cfg, res)
        if res.violated:
            chk.notes.append("MODEL-ONLY: design model %s violates %s" % (cfg, res.violated))
            print("MODEL-ONLY: %s violates %s in the design model" % (cfg, res.violated))
        elif res.error:
            raise vlib.Inconclusive("TLC %s: %s\n%s" % (cfg, res.error, res.out[-1500:]))
        if res.distinct == 0:
            raise vlib.Inconclusive("TLC %s explored nothing:\n%s" % (cfg, res.out[-800:]))
        vlib.log("  %s: %d distinct states, %d generated, %.1fs" % (cfg, res.distinct, res.generated, res.wall))


# --------------------------------------------------------------------------- role B

def simulate_schedules(chk, num, depth, seed):
    """TLC -simulate on BGPSessionMC_sim.cfg.  This TLC evaluates the action constraint on every candidate
    successor, so each line carries the action that led to the current state (last) and the candidate (act); the
    chosen candidate of step n is the `last` of the lines of step n+1 (the final step of a walk is dropped)."""
    groups = []     # [n, last, [candidate acts]]

    def sink(o):
        if "act" not in o or "n" not in o:
            return
        if groups and groups[-1][0] == o["n"] and groups[-1][1] == vlib.canon(o["last"]):
            groups[-1][2].append(o["act"])
        else:
            groups.append([o["n"], vlib.canon(o["last"]), [o["act"]]])

    res = vlib.tlc(os.path.join(chk.work, "sim"), "BGPSessionMC", "BGPSessionMC_sim.cfg", workers=1, timeout=1500,
                   args=["-simulate", "num=%d" % num, "-depth", str(depth), "-seed", str(seed)], json_sink=sink, heap="4g")
    if res.violated:
        chk.notes.append("MODEL-ONLY: simulation of BGPSessionMC_sim.cfg violates %s" % res.violated)
        print("MODEL-ONLY: BGPSessionMC_sim.cfg violates %s in the design model" % res.violated)
    elif res.error:
        raise vlib.Inconclusive("TLC simulate: %s\n%s" % (res.error, res.out[-1500:]))
    walks, cur = [], []
    for k, (n, last, cands) in enumerate(groups):
        if n == 0:
            if cur:
                walks.append(cur)
            cur = []
        elif cur is not None:
            cur.append(json.loads(last))   # the action chosen at step n-1
    if cur:
        walks.append(cur)
    walks = [w for w in walks if len(w) >= 3]
    if not walks:
        raise vlib.Inconclusive("simulation produced no schedules: " + res.out[-800:])
    return walks, res


def write_schedules(path, walks, seed, prefix="g"):
    scheds = []
    with open(path, "w") as fh:
        for n, w in enumerate(walks):
            sc = {"id": "%s%d_%d" % (prefix, seed, n), "ibgp": (n + seed) % 2 == 0, "steps": w}
            scheds.append(sc)
            fh.write(json.dumps(sc, separators=(",", ":")) + "\n")
    return scheds


def go_run(chk, test, env, hooks, race, tag):
    obs = os.path.join(chk.work, "obs_%s.ndjson" % tag)
    wd = os.path.join(chk.work, "ov_" + tag)
    ov = vlib.overlay_for(mapping(hooks), wd)
    e = {"VERIF_OBS": obs}
    e.update(env)
    rc, out = vlib.go_test(PKG, "^%s$" % test, ov, e, race=race, timeout=300 if chk.tier == "quick" else 1500)
    if rc != 0:
        if "DATA RACE" in out:
            return obs, out
        raise vlib.Inconclusive("native session harness failed (rc=%s):\n%s" % (rc, out[-3000:]))
    return obs, out


def stress(chk, hooks, runs, race, tag="stress", only=None, seed=None, par=12):
    env = {"VERIF_SEED": chk.seed if seed is None else seed, "VERIF_RUNS": runs, "VERIF_PAR": par}
    if only:
        env["VERIF_ONLY"] = only
        env["VERIF_RUNS"] = int(only.split("_")[1]) + 1
    return go_run(chk, "TestVerifSessStress", env, hooks, race, tag)


def gated(chk, sched_path, race, tag="gated", par=12):
    return go_run(chk, "TestVerifSessGated", {"VERIF_SCENARIOS": sched_path, "VERIF_PAR": par}, True, race, tag)


# --------------------------------------------------------------------------- role C

def judge(chk, obs_path, tag):
    lines = sum(1 for _ in open(obs_path))
    d = os.path.join(chk.work, "j_" + tag)
    os.makedirs(d, exist_ok=True)
    sub = type("W", (), {"work": d})()      # run_judge_parallel only needs .work
    return vlib.run_judge_parallel(sub, "BGPSessionTrace", "BGPSessionTrace.cfg", obs_path, chunks=10 if lines > 20000 else 4,
                                   walk_key="w")


def load_runs(obs_path):
    runs = {}
    order = []
    for l in open(obs_path):
        o = json.loads(l)
        if o["w"] not in runs:
            runs[o["w"]] = []
            order.append(o["w"])
        runs[o["w"]].append(o)
    return runs, order


def signature(name, f, lines):
    meta = lines[0]
    mode = meta.get("mode")
    info = f.get("info", {})
    if name in ("C17.Converges", "C17.FullResend"):
        tbl = {x["r"]: x["a"] for x in info.get("table", [])}
        req = {x["r"]: x["a"] for x in info.get("req", [])}
        # one primary kind (a single defect shows up in many combinations): a requested route absent from the
        # table > a route the peer still holds although it is not requested > wrong attributes
        if any(a == "?malformed" for a in tbl.values()):
            kind = "malformed"   # an announced route came in an UPDATE whose attribute block is not the intended one
        elif any(a == "?aspath" for a in tbl.values()):
            kind = "aspath"      # an announced route carries an AS_PATH of the wrong width / content
        elif any(r not in tbl for r in req):
            kind = "missing"
        elif any(r not in req for r in tbl):
            kind = "stale"
        elif any(tbl[r] != a for r, a in req.items()):
            kind = "attr"
        else:
            kind = "none"
        return "%s|kind=%s|conn=%s" % (name, kind, "first" if info.get("first") else "later")
    if name == "C16.SessionAsPathWidth":
        return "%s|cap65=%s|ibgp=%s" % (name, str(bool(info.get("cap65"))).lower(), str(bool(meta.get("ibgp"))).lower())
    if name in ("C17.StreamWellFormed", "C16.SessionUpdateWellFormed", "C16.SessionFraming"):
        t = info.get("t")
        if t == "upd":
            nh = info.get("nexthop") or []
            what = "codes" if info.get("codes") in ([-2], None) else ("nexthop-len=%d" % len(nh) if len(nh) != 4 else "attrs")
            if info.get("codes") == [-2]:
                what = "attr-block"
        else:
            what = {"bad": "undecodable-update", "badframe": "no-header-at-boundary"}.get(t, str(t))
        return "%s|%s" % (name, what)
    if name == "C17.ConvergesEventually":
        return "%s|sender-loop-ended-before-close" % name
    if name in ("C17.NoSpuriousReset", "C16.SessionSpuriousReset"):
        return "%s|pipelined=%s" % (name, str(bool(info.get("pipe"))).lower())
    return "%s|at=%s" % (name, info.get("pt"))


def summarize(obs_path, fails, prefix="C17."):
    """Split the judge's output into verdict failures (names with the prefix of the property being checked) and
    drift, per run.  Names of the other property (C16.* aliases in a C17 run and vice versa) are left out."""
    runs, order = load_runs(obs_path)
    verdict, drift = {}, {}
    for f in fails:
        w = f["w"]
        for name in f["fails"]:
            if name.startswith(prefix):
                verdict.setdefault(w, []).append((name, f))
            elif name.startswith("DRIFT."):
                drift.setdefault(w, []).append((name, f))
    return runs, order, verdict, drift


def nontrivial(runs):
    keys = set()
    for w, lines in runs.items():
        prev = "start"
        for o in lines:
            if o["k"] == "hook" and o.get("st"):
                keys.add((prev, o["pt"], o["g"], o["up"], o["closed"], o["nh"],
                          sum(1 for v in o["adv"].values() if v != "-")))
                if o["g"] == "sender":
                    prev = o["pt"]
            elif o["k"] == "settled":
                keys.add(("settled", o["c"] > 1, len(o["req"]), min(o["nupd"], 6)))
            elif o["k"] == "msg" and o["t"] in ("upd", "wdr"):
                keys.add(("msg", o["t"], o["c"] > 1))
    return keys


def account(chk, runs, order, tag):
    bad = [w for w in order if runs[w][-1].get("k") != "end" or runs[w][-1].get("status") != "ok"]
    settled = sum(1 for w in order for o in runs[w] if o["k"] == "settled")
    chk.cov["traces_validated_against_impl"] += len(order) - len(bad)
    chk.cov["evaluations"] += sum(len(runs[w]) for w in order)
    chk.cov[tag + "_runs"] = len(order)
    chk.cov[tag + "_settled_observations"] = settled
    chk.cov[tag + "_inconclusive_runs"] = len(bad)
    chk.cov[tag + "_connections"] = sum(1 for w in order for o in runs[w] if o["k"] == "accept")
    chk.cov[tag + "_drops"] = sum(1 for w in order for o in runs[w] if o["k"] == "drop")
    if tag == "gated":
        chk.cov["gated_desync_waits"] = sum(runs[w][-1].get("desync", 0) for w in order if runs[w][-1].get("k") == "end")
    if bad:
        chk.notes.append("%s: %d of %d runs ended on a harness time limit (%s); they prove nothing and are not failures"
                         % (tag, len(bad), len(order), sorted({str(runs[w][-1].get("status")) for w in bad})))
    if len(bad) > MAX_INCONCLUSIVE_RUNS * max(1, len(order)):
        raise vlib.Inconclusive("%s: %d of %d runs ended on a harness time limit" % (tag, len(bad), len(order)))


def report_drift(chk, drift, runs, tag):
    if not drift:
        return
    n = sum(len(v) for v in drift.values())
    kinds = sorted({name for v in drift.values() for name, _ in v})
    chk.cov["drift"] += n
    print("DRIFT: %s: %d hook event(s) in %d run(s) are not explained by spec/BGPSession.tla (%s); not a verdict"
          % (tag, n, len(drift), ", ".join(kinds)))
    ex = []
    for w, v in list(drift.items())[:3]:
        name, f = v[0]
        k = f["step"]
        ex.append({"run": w, "what": name, "event": runs[w][k] if k < len(runs[w]) else None,
                   "before": [{"pt": o.get("pt"), "g": o.get("g"), "k": o["k"]} for o in runs[w][max(0, k - 6):k]]})
    chk.cov.setdefault("drift_examples", []).extend(ex)


# --------------------------------------------------------------------------- confirmation

def confirm(chk, hooks, verdict, runs, scheds, race, prefix="C17."):
    """Re-execute every failing run (at most a few per signature) up to CONFIRM_TRIES times; a failure is
    reported when the same predicate fails again with the same signature."""
    per_sig = {}
    for w, v in sorted(verdict.items()):
        for name, f in v:
            per_sig.setdefault(signature(name, f, runs[w]), []).append((w, name, f))
    n = 0
    for sig, lst in sorted(per_sig.items()):
        done = False
        for w, name, f in lst[:3]:
            if done:
                break
            for attempt in range(CONFIRM_TRIES):
                n += 1
                tag = "confirm%d" % n
                if runs[w][0].get("mode") == "gated":
                    sp = os.path.join(chk.work, tag + ".ndjson")
                    with open(sp, "w") as fh:
                        fh.write(json.dumps(scheds[w]) + "\n")
                    obs, _ = gated(chk, sp, race, tag=tag, par=1)
                    scenario = {"family": "session", "side_family": "fam_session", "mode": "gated", "schedule": scheds[w]}
                else:
                    seed = int(w[1:].split("_")[0])
                    obs, _ = stress(chk, hooks, 1, race, tag=tag, only=w, seed=seed, par=1)
                    scenario = {"family": "session", "side_family": "fam_session", "mode": "stress", "id": w, "seed": seed}
                fails2, _ = judge(chk, obs, tag)
                runs2, _, verdict2, _ = summarize(obs, fails2, prefix)
                again = [(nm, ff) for nm, ff in verdict2.get(w, []) if signature(nm, ff, runs2[w]) == sig]
                if again:
                    nm, ff = again[0]
                    k = ff["step"]
                    chk.fail(sig, name, detail={"judge": ff.get("info"), "line": runs2[w][k] if k < len(runs2[w]) else None,
                                                "history": compact(runs2[w][:k + 1]), "occurrences": len(lst),
                                                "confirmed_on_attempt": attempt + 1},
                             scenario=scenario)
                    done = True
                    break
        if not done:
            chk.notes.append("unreproduced: %s (%d run(s), e.g. %s) in %d re-executions each"
                             % (sig, len(lst), lst[0][0], CONFIRM_TRIES))


def compact(lines, keep=60):
    out = []
    for o in lines[-keep:]:
        k = o["k"]
        if k == "hook":
            out.append("%d hook %s/%s up=%s closed=%s adv=%s new=%s" % (
                o["i"], o["pt"] + (":" + o["r"] if o.get("r") else ""), o["g"], o.get("up"), o.get("closed"),
                tbl(o.get("adv")), tbl(o.get("nt")) if o.get("nh") else "nil"))
        elif k == "msg":
            out.append("%d peer c%d %s %s" % (o["i"], o["c"], o["t"], o.get("r", "") + ":" + o.get("a", "") if o["t"] == "upd"
                                              else ",".join(o.get("rs", []))))
        elif k == "set.call":
            out.append("%d Set %s" % (o["i"], tbl(o["S"])))
        elif k == "settled":
            out.append("%d settled c%d req=%s" % (o["i"], o["c"], ",".join(x["r"] + ":" + x["a"] for x in o["req"])))
        else:
            out.append("%d %s %s" % (o["i"], k, {x: v for x, v in o.items() if x not in ("w", "i", "k")}))
    return out


def tbl(t):
    if not t:
        return "{}"
    return "{" + ",".join("%s:%s" % (r, a) for r, a in sorted(t.items()) if a != "-") + "}"


# --------------------------------------------------------------------------- entry points

def run(chk):
    T = TIERS[chk.tier]
    hooks = hooks_present()
    specs = T["model"]
    if os.environ.get("VERIF_SESSION_NO_MODEL"):      # development aid (mutant runs): skip role A
        specs = [("BGPSessionMC_tiny.cfg", 2, ())]
    ex, futs = model_runs(chk, specs)
    try:
        # free-running stress
        obs_s, out_s = stress(chk, hooks, T["stress"], T["race"], par=T["par"])
        race_reports = []
        if "DATA RACE" in out_s:
            race_reports.append(out_s)
        scheds = {}
        obs_g = None
        if hooks:
            walks, sres = simulate_schedules(chk, T["gated"], T["depth"], chk.seed)
            sp = os.path.join(chk.work, "schedules.ndjson")
            scheds = {s["id"]: s for s in write_schedules(sp, walks, chk.seed)}
            chk.cov["gated_schedule_steps"] = sum(len(w) for w in walks)
            obs_g, out_g = gated(chk, sp, T["race"], par=T["par"])
            if "DATA RACE" in out_g:
                race_reports.append(out_g)
        else:
            msg = ("the tree under test has no verifPoint hook in internal/bgp/native/native.go: only the free-running "
                   "stress part ran (time-based settle criterion); the gated TLC schedules and the trace validation "
                   "against spec/BGPSession.tla need notes/session_hook.patch")
            chk.notes.append(msg)
            vlib.log("  " + msg)
        all_runs = {}
        for tag, obs in (("stress", obs_s), ("gated", obs_g)):
            if obs is None:
                continue
            fails, nlines = judge(chk, obs, tag)
            runs, order, verdict, drift = summarize(obs, fails)
            account(chk, runs, order, tag)
            report_drift(chk, drift, runs, tag)
            all_runs.update(runs)
            if len(chk.cov["samples"]) < 2 and order:
                chk.cov["samples"].append({"run": order[0], "meta": runs[order[0]][0], "log": compact(runs[order[0]], keep=40)})
            if verdict:
                confirm(chk, hooks, verdict, runs, scheds, T["race"])
        for rep in race_reports:
            m = re.search(r"WARNING: DATA RACE(.*?)={18}", rep, re.S)
            txt = m.group(1) if m else rep[-2000:]
            fr = re.findall(r"\n\s+(go\.universe\.tf/metallb/\S+)\(", txt)
            chk.fail("C17.DataRace|" + ">".join(fr[:2]), "data race reported by the Go race detector in the session",
                     detail={"report": txt[:3000]}, scenario={"family": "session", "mode": "stress", "race": True})
        chk.cov["distinct_nontrivial"] = len(nontrivial(all_runs))
        collect_model(chk, futs)
    finally:
        ex.shutdown(wait=True)
    chk.cov["hooks"] = hooks
    chk.cov["rule"] = ("real session against an in-process scripted peer: seeded free-running stress runs plus (with the hook) "
                       "TLC-simulated interleavings replayed through the blocking hook; traces = runs judged to their last "
                       "line; evaluations = log lines judged by TLC; non-trivial = distinct (previous sender point, hook point, "
                       "goroutine role, conn up, closed, pending set?, |advertised|) of the hook events read under s.mu, plus "
                       "distinct (settled on first/later connection, |requested|, UPDATEs read) and (message kind, first/later)")
    chk.assumptions += [
        "route sets hold distinct IPv4 prefixes (4 prefixes of length 24..32) with legacy communities; attribute values differ in "
        "LOCAL_PREF only on iBGP sessions (it is not on the wire of an eBGP session) and in communities on both",
        "the peer's table is per connection: a new connection starts from an empty table (RFC 4271 section 6: routes of a lost "
        "session are dropped), so 'equals the requested set' on a later connection is the full re-send",
        "a settled observation is taken only when the session is idle on a live connection: with the hook, sender parked in "
        "cond.Wait with s.new == nil read under s.mu and every UPDATE the hook saw written already read by the peer; without "
        "the hook, s.conn != nil and s.new == nil read under s.mu and nothing received for VERIF_SETTLE_MS",
        "messages already in flight when Close takes s.mu may reach the peer afterwards; QuietAfterClose is judged on connection "
        "attempts accepted after Close returned, on anything received on a connection whose OPEN the peer answered only after "
        "Close returned (slow handshake: it was sent in reaction to that answer), and on closed=TRUE read under s.mu at the "
        "hook's write/install points; a Close (or Set) that is still blocked on s.mu while the handshake is pending is not judged",
        "ConvergesEventually: the hook's run.exit logged before close.call (the sender loop returns only on a closed session, and "
        "closed is only set by Close, which starts after close.call is logged) - a run that merely fails to settle within the "
        "harness limit stays inconclusive; StreamWellFormed: every UPDATE the peer reads decodes, its attribute block is ORIGIN, "
        "AS_PATH, NEXT_HOP = the address the peer sees the session coming from, LOCAL_PREF iff iBGP, optionally COMMUNITIES, and "
        "a header stands at every message boundary; half of the sessions are created with SessionParameters.SourceAddress = "
        "net.ParseIP(\"127.0.0.1\"); 35 % of the stress runs pace the sender after each UPDATE (slow socket); 1 run in 50 (with "
        "the hook) runs keepalives every second over a connection whose Write calls are delayed individually",
        "NoSpuriousReset: an end of stream the peer sees is explained only by its own drop (no eof line is logged then), a wrong "
        "ASN it presented, or a Close call that has begun; the peer's OPEN varies per connection (capability 65, MP "
        "capabilities, hold time 0/3/30 s) and in 30 % of the connections OPEN, KEEPALIVE, a 4096-octet UPDATE and a KEEPALIVE "
        "leave in one write; AS_PATH must be the intended one in the width announced on that connection",
    ]


def run_side(chk):
    """Side run for C16 (called by bin/check after fam_wire): two defects of the wire property are only visible
    through connect() with a live peer - the AS_PATH width must follow the capability the peer announced on THIS
    connection, and reading the peer's OPEN must not swallow octets the peer pipelined behind it.  A small batch of
    the stress runs (the scripted peer varies its OPEN per connection and pipelines in 30 % of them); only the
    C16.* names of spec/BGPSessionTrace.tla are reported."""
    if chk.prop != "C16":
        return
    hooks = hooks_present()
    runs_n = 60 if chk.tier == "quick" else 400
    obs, out = stress(chk, hooks, runs_n, False, tag="side16", par=12)
    fails, nlines = judge(chk, obs, "side16")
    runs, order, verdict, _ = summarize(obs, fails, "C16.")
    bad = [w for w in order if runs[w][-1].get("k") != "end" or runs[w][-1].get("status") != "ok"]
    if len(bad) > MAX_INCONCLUSIVE_RUNS * max(1, len(order)):
        raise vlib.Inconclusive("session side run: %d of %d runs ended on a harness time limit" % (len(bad), len(order)))
    chk.cov["session_side_runs"] = len(order)
    chk.cov["session_side_lines"] = nlines
    chk.cov["session_side_updates_checked"] = sum(1 for w in order for o in runs[w] if o["k"] == "msg" and o.get("t") == "upd")
    chk.cov["session_side_connections"] = {
        "cap65": sum(1 for w in order for o in runs[w] if o["k"] == "sentopen" and o.get("cap65")),
        "no_cap65": sum(1 for w in order for o in runs[w] if o["k"] == "sentopen" and not o.get("cap65")),
        "pipelined": sum(1 for w in order for o in runs[w] if o["k"] == "sentopen" and o.get("pipe"))}
    chk.cov["traces_validated_against_impl"] += len(order) - len(bad)
    chk.cov["evaluations"] += nlines
    chk.assumptions.append("session side run: AS_PATH of every UPDATE a live session sends must be the intended one in the width "
                           "the peer announced on that connection (4 octets iff its OPEN carried capability 65); a session that "
                           "resets a connection on which the peer pipelined messages behind its OPEN has read beyond the OPEN")
    if verdict:
        confirm(chk, hooks, verdict, runs, {}, False, prefix="C16.")


def replay(chk, path):
    body = json.load(open(path))
    sc = body["scenario"]
    hooks = hooks_present()
    if sc.get("mode") == "gated":
        if not hooks:
            raise vlib.Inconclusive("the replay is a gated schedule but the tree has no verifPoint hook")
        sp = os.path.join(chk.work, "replay.ndjson")
        with open(sp, "w") as fh:
            fh.write(json.dumps(sc["schedule"]) + "\n")
        runner = lambda k: gated(chk, sp, bool(sc.get("race")), tag="replay%d" % k, par=1)[0]
    else:
        if "id" not in sc:
            raise vlib.Inconclusive("replay of a race report: re-run bin/check C17 --tier thorough")
        runner = lambda k: stress(chk, hooks, 1, False, tag="replay%d" % k, only=sc["id"], seed=sc["seed"], par=1)[0]
    for k in range(CONFIRM_TRIES):
        obs = runner(k)
        fails, nlines = judge(chk, obs, "replay%d" % k)
        runs, order, verdict, drift = summarize(obs, fails, chk.prop + ".")
        chk.cov["evaluations"] += nlines
        chk.cov["traces_validated_against_impl"] += len(order)
        chk.cov["states"] = chk.cov["transitions"] = chk.cov["evaluations"]
        chk.cov["rule"] = "replay of the stored run; states = states of the role-C trace specification"
        if order and not chk.cov["samples"]:
            chk.cov["samples"].append({"run": order[0], "log": compact(runs[order[0]], keep=40)})
        hit = False
        for w, v in verdict.items():
            for name, f in v:
                hit = True
                chk.fail(signature(name, f, runs[w]), name, detail={"judge": f.get("info"), "history": compact(runs[w][:f["step"] + 1])},
                         scenario=sc)
        if hit:
            break
    chk.cov["distinct_nontrivial"] = max(1, len(nontrivial(runs)))
