------------------------------ MODULE BGPWire ------------------------------
(***************************************************************************)
(* C16 - an independent RFC 4271 reader over Seq(0..255), the intended      *)
(* content of the messages the native speaker writes, and the abstract      *)
(* OPEN reader (outcome + how many octets may be consumed).                 *)
(*                                                                          *)
(* TLC integers are 32 bit: every 32-bit wire quantity (ASN, router id,     *)
(* next hop, local preference, address) is a sequence of four octets; a     *)
(* community is a pair <<hi, lo>> of 16-bit numbers (the "hi:lo" notation). *)
(* Nothing here is derived from internal/bgp/native: RFC 4271 (framing,     *)
(* OPEN, UPDATE, NOTIFICATION, KEEPALIVE), RFC 5492 (capabilities),         *)
(* RFC 4760 (capability 1), RFC 6793 (capability 65, AS_TRANS), RFC 1997.   *)
(***************************************************************************)
EXTENDS Naturals, Sequences, FiniteSets

Sub(b, from, n) == SubSeq(b, from, from + n - 1)
Drop(b, n)      == SubSeq(b, n + 1, Len(b))
U16(b, k)       == b[k] * 256 + b[k + 1]
B16(n)          == <<n \div 256, n % 256>>
Rep(x, n)       == [k \in 1..n |-> x]
RangeOf(s)      == {s[k] : k \in DOMAIN s}
MinN(a, b)      == IF a < b THEN a ELSE b
MaxN(a, b)      == IF a > b THEN a ELSE b
Pow2(n)         == <<1, 2, 4, 8, 16, 32, 64, 128, 256>>[n + 1]
CeilDiv8(n)     == (n + 7) \div 8
IsBytes(b)      == \A k \in DOMAIN b : b[k] \in 0..255

Marker   == Rep(255, 16)
ASTRANS  == <<91, 160>>                      \* 23456
Above16(a) == a[1] # 0 \/ a[2] # 0           \* a 4-octet number above 65535
Low16(a)   == <<a[3], a[4]>>

Bad(why)  == [ok |-> FALSE, why |-> why]
Items(ok, items) == [ok |-> ok, items |-> items]

(***************************************************************************)
(* Framing (RFC 4271 4.1)                                                   *)
(***************************************************************************)
HdrOK(b)   == Len(b) >= 19 /\ Sub(b, 1, 16) = Marker
HdrLen(b)  == U16(b, 17)
HdrType(b) == b[19]

(***************************************************************************)
(* (type, length, value) runs with one-octet type and length: optional      *)
(* parameters of OPEN and capabilities inside parameter 2.                  *)
(***************************************************************************)
RECURSIVE TLV(_)
TLV(b) ==
  IF Len(b) = 0 THEN Items(TRUE, <<>>)
  ELSE IF Len(b) < 2 THEN Items(FALSE, <<>>)
  ELSE IF Len(b) < 2 + b[2] THEN Items(FALSE, <<>>)
  ELSE LET r == TLV(Drop(b, 2 + b[2]))
       IN Items(r.ok, <<[t |-> b[1], v |-> Sub(b, 3, b[2])]>> \o r.items)

RECURSIVE CapsOf(_)
CapsOf(params) ==
  IF params = <<>> THEN Items(TRUE, <<>>)
  ELSE LET p == Head(params)  r == CapsOf(Tail(params))
       IN IF p.t # 2 THEN r
          ELSE LET c == TLV(p.v) IN Items(c.ok /\ r.ok, c.items \o r.items)

(* b is a framed message of type 1 (RFC 4271 4.2)                           *)
DecodeOpen(b) ==
  IF Len(b) < 29 THEN Bad("open-too-short")
  ELSE IF 29 + b[29] # Len(b) THEN Bad("optional-parameters-length")
  ELSE LET ps == TLV(Drop(b, 29)) IN
       IF ~ps.ok THEN Bad("optional-parameter-overrun")
       ELSE LET cs == CapsOf(ps.items) IN
            [ok |-> TRUE, type |-> 1, version |-> b[20], as16 |-> Sub(b, 21, 2), hold |-> U16(b, 23),
             rid |-> Sub(b, 25, 4), params |-> ps.items, capsok |-> cs.ok, caps |-> cs.items]

CapVals(d, code) == {d.caps[k].v : k \in {j \in DOMAIN d.caps : d.caps[j].t = code}}

(* capabilities this property talks about have a fixed length (RFC 4760, RFC 6793) *)
CapsWellFormed(d) ==
  /\ d.capsok
  /\ \A v \in CapVals(d, 65) : Len(v) = 4
  /\ \A v \in CapVals(d, 1) : Len(v) = 4

(* the AS number an OPEN announces: capability 65 takes precedence          *)
OpenASN(d) == IF CapVals(d, 65) = {} THEN <<0, 0>> \o d.as16 ELSE CHOOSE v \in CapVals(d, 65) : TRUE
HasMP(d, afi, safi) == \E v \in CapVals(d, 1) : Len(v) = 4 /\ U16(v, 1) = afi /\ v[4] = safi

(***************************************************************************)
(* UPDATE (RFC 4271 4.3)                                                    *)
(***************************************************************************)
(* the first n bits of the octets, trailing bits cleared ("irrelevant")     *)
MaskBits(bytes, n) ==
  [j \in 1..Len(bytes) |->
     IF j * 8 <= n THEN bytes[j]
     ELSE IF (j - 1) * 8 >= n THEN 0
     ELSE LET d == Pow2(8 - (n - (j - 1) * 8)) IN bytes[j] - (bytes[j] % d)]

PrefixOf(addr, n) == [len |-> n, bits |-> MaskBits(Sub(addr, 1, CeilDiv8(n)), n)]

RECURSIVE Prefixes(_)
Prefixes(b) ==
  IF Len(b) = 0 THEN Items(TRUE, <<>>)
  ELSE LET n == b[1]  k == CeilDiv8(n) IN
       IF n > 32 \/ Len(b) < 1 + k THEN Items(FALSE, <<>>)
       ELSE LET r == Prefixes(Drop(b, 1 + k))
            IN Items(r.ok, <<[len |-> n, bits |-> MaskBits(Sub(b, 2, k), n)]>> \o r.items)

FlagOptional(f)   == f \div 128 = 1
FlagTransitive(f) == (f \div 64) % 2 = 1
FlagPartial(f)    == (f \div 32) % 2 = 1
FlagExtended(f)   == (f \div 16) % 2 = 1

RECURSIVE Attrs(_)
Attrs(b) ==
  IF Len(b) = 0 THEN Items(TRUE, <<>>)
  ELSE IF Len(b) < 3 THEN Items(FALSE, <<>>)
  ELSE LET ext == FlagExtended(b[1])
           hl  == IF ext THEN 4 ELSE 3 IN
       IF Len(b) < hl THEN Items(FALSE, <<>>)
       ELSE LET al == IF ext THEN U16(b, 3) ELSE b[3] IN
            IF Len(b) < hl + al THEN Items(FALSE, <<>>)
            ELSE LET r == Attrs(Drop(b, hl + al))
                 IN Items(r.ok, <<[flags |-> b[1], type |-> b[2], val |-> Sub(b, hl + 1, al)]>> \o r.items)

(* AS_PATH segments; w = octets per AS number on this session (2, or 4 when *)
(* both sides announced capability 65)                                      *)
RECURSIVE Segs(_, _)
Segs(b, w) ==
  IF Len(b) = 0 THEN Items(TRUE, <<>>)
  ELSE IF Len(b) < 2 THEN Items(FALSE, <<>>)
  ELSE LET n == b[2] IN
       IF b[1] \notin {1, 2} \/ n = 0 \/ Len(b) < 2 + n * w THEN Items(FALSE, <<>>)
       ELSE LET r == Segs(Drop(b, 2 + n * w), w)
            IN Items(r.ok, <<[t |-> b[1], asns |-> [j \in 1..n |-> Sub(b, 3 + (j - 1) * w, w)]]>> \o r.items)

DecodeUpdate(b) ==
  LET L == Len(b) IN
  IF L < 23 THEN Bad("update-too-short")
  ELSE LET wl == U16(b, 20) IN
       IF 23 + wl > L THEN Bad("withdrawn-routes-length")
       ELSE LET al == U16(b, 22 + wl) IN          \* octets 20-21: wl; 22..21+wl: withdrawn; then al
            IF 23 + wl + al > L THEN Bad("total-path-attribute-length")
            ELSE LET wd == Prefixes(Sub(b, 22, wl))
                     at == Attrs(Sub(b, 24 + wl, al))
                     nl == Prefixes(Drop(b, 23 + wl + al)) IN
                 IF ~wd.ok THEN Bad("withdrawn-routes")
                 ELSE IF ~at.ok THEN Bad("path-attribute-overrun")
                 ELSE IF ~nl.ok THEN Bad("nlri")
                 ELSE [ok |-> TRUE, type |-> 2, withdrawn |-> wd.items, attrs |-> at.items, nlri |-> nl.items]

DecodeNotification(b) ==
  IF Len(b) < 21 THEN Bad("notification-too-short")
  ELSE [ok |-> TRUE, type |-> 3, code |-> b[20], subcode |-> b[21], data |-> Drop(b, 21)]

(* Decode: exactly one message occupying all of b                           *)
Decode(b) ==
  IF ~IsBytes(b) THEN Bad("not-octets")
  ELSE IF ~HdrOK(b) THEN Bad("header")
  ELSE IF HdrLen(b) # Len(b) THEN Bad("length-field")
  ELSE IF Len(b) > 4096 THEN Bad("too-long")
  ELSE CASE HdrType(b) = 1 -> DecodeOpen(b)
         [] HdrType(b) = 2 -> DecodeUpdate(b)
         [] HdrType(b) = 3 -> DecodeNotification(b)
         [] HdrType(b) = 4 -> IF Len(b) = 19 THEN [ok |-> TRUE, type |-> 4] ELSE Bad("keepalive-length")
         [] OTHER -> Bad("type")

(***************************************************************************)
(* "attribute lengths consistent", flags, no duplicates, mandatory ones     *)
(***************************************************************************)
AttrFlagsOK(a) ==
  /\ a.flags % 16 = 0
  /\ (a.type \in {1, 2, 3, 5}) => (~FlagOptional(a.flags) /\ FlagTransitive(a.flags) /\ ~FlagPartial(a.flags))
  /\ (a.type = 8) => (FlagOptional(a.flags) /\ FlagTransitive(a.flags))

AttrValueOK(a, w) ==
  CASE a.type = 1 -> Len(a.val) = 1 /\ a.val[1] \in 0..2
    [] a.type = 2 -> Segs(a.val, w).ok
    [] a.type = 3 -> Len(a.val) = 4
    [] a.type = 5 -> Len(a.val) = 4
    [] a.type = 8 -> Len(a.val) % 4 = 0
    [] OTHER -> TRUE

AttrTypes(d) == {d.attrs[k].type : k \in DOMAIN d.attrs}

UpdateWellFormed(d, w) ==
  /\ \A k \in DOMAIN d.attrs : AttrFlagsOK(d.attrs[k]) /\ AttrValueOK(d.attrs[k], w)
  /\ \A j, k \in DOMAIN d.attrs : d.attrs[j].type = d.attrs[k].type => j = k
  /\ (d.nlri # <<>>) => {1, 2, 3} \subseteq AttrTypes(d)

OpenWellFormed(d) ==
  /\ CapsWellFormed(d)
  /\ Cardinality(CapVals(d, 65)) <= 1

WellFormed(d, w) ==
  /\ d.ok
  /\ (d.type = 1) => OpenWellFormed(d)
  /\ (d.type = 2) => UpdateWellFormed(d, w)

(***************************************************************************)
(* Content: what a decoded message says, in the vocabulary of the           *)
(* statement.  Intended: what the statement says it must say.               *)
(***************************************************************************)
AttrVal(d, ty) ==
  LET S == {k \in DOMAIN d.attrs : d.attrs[k].type = ty}
  IN IF S = {} THEN <<>> ELSE d.attrs[CHOOSE k \in S : TRUE].val

Chunks4(v) == {Sub(v, 4 * (k - 1) + 1, 4) : k \in 1..(Len(v) \div 4)}

Content(d, w) ==
  CASE d.type = 1 ->
         [kind |-> "open", version |-> d.version, as16 |-> d.as16, hold |-> d.hold, rid |-> d.rid,
          asn |-> OpenASN(d)]
    [] d.type = 2 ->
         [kind |-> "update",
          nlri |-> RangeOf(d.nlri), nnlri |-> Len(d.nlri),
          withdrawn |-> RangeOf(d.withdrawn), nwithdrawn |-> Len(d.withdrawn),
          \* an empty COMMUNITIES attribute says the same as none
          attrtypes |-> {t \in AttrTypes(d) : ~(t = 8 /\ AttrVal(d, 8) = <<>>)},
          origin |-> AttrVal(d, 1),
          aspath |-> IF 2 \in AttrTypes(d) THEN Segs(AttrVal(d, 2), w).items ELSE <<>>,
          nexthop |-> AttrVal(d, 3),
          localpref |-> AttrVal(d, 5),
          comms |-> Chunks4(AttrVal(d, 8)), ncomms |-> Len(AttrVal(d, 8)) \div 4]
    [] d.type = 3 -> [kind |-> "notification", code |-> d.code, subcode |-> d.subcode]
    [] OTHER -> [kind |-> "keepalive"]

CommWire(c) == B16(c[1]) \o B16(c[2])                 \* "hi:lo" -> (hi << 16) + lo, big endian
AsnWire(asn, w) == IF w = 4 THEN asn ELSE IF Above16(asn) THEN ASTRANS ELSE Low16(asn)
Width(p) == IF p.fbasn THEN 4 ELSE 2

IntendedOpen(p) ==
  [kind |-> "open", version |-> 4, as16 |-> IF Above16(p.asn) THEN ASTRANS ELSE Low16(p.asn),
   hold |-> p.hold, rid |-> p.rid, asn |-> p.asn]

IntendedUpdate(p) ==
  [kind |-> "update",
   nlri |-> {PrefixOf(p.addr, p.plen)}, nnlri |-> 1,
   withdrawn |-> {}, nwithdrawn |-> 0,
   attrtypes |-> {1, 2, 3} \cup (IF p.ibgp THEN {5} ELSE {}) \cup (IF p.comms # <<>> THEN {8} ELSE {}),
   origin |-> <<0>>,
   aspath |-> IF p.ibgp THEN <<>> ELSE <<[t |-> 2, asns |-> <<AsnWire(p.asn, Width(p))>>]>>,
   nexthop |-> p.nh,
   localpref |-> IF p.ibgp THEN p.lp ELSE <<>>,
   comms |-> {CommWire(c) : c \in RangeOf(p.comms)}, ncomms |-> Len(p.comms)]

IntendedWithdraw(p) ==
  [kind |-> "update",
   nlri |-> {}, nnlri |-> 0,
   withdrawn |-> {PrefixOf(x.addr, x.plen) : x \in RangeOf(p.prefixes)}, nwithdrawn |-> Len(p.prefixes),
   attrtypes |-> {}, origin |-> <<>>, aspath |-> <<>>, nexthop |-> <<>>, localpref |-> <<>>,
   comms |-> {}, ncomms |-> 0]

Intended(p) ==
  CASE p.kind = "open" -> IntendedOpen(p)
    [] p.kind = "update" -> IntendedUpdate(p)
    [] p.kind = "withdraw" -> IntendedWithdraw(p)
    [] OTHER -> [kind |-> "keepalive"]

(* the AS_PATH width the session uses for this message                      *)
WidthOf(p) == IF p.kind = "update" THEN Width(p) ELSE 2

(* The one corner the statement leaves open: an eBGP UPDATE of a speaker    *)
(* whose own AS number does not fit two octets to a peer without capability *)
(* 65.  RFC 6793 wants AS_TRANS; refusing to write anything is accepted too.*)
TwoOctetCorner(p) == p.kind = "update" /\ ~p.ibgp /\ ~p.fbasn /\ Above16(p.asn)

(***************************************************************************)
(* The abstract OPEN reader.  s is everything the peer has sent so far (an  *)
(* arbitrary octet string, more messages may follow the first).             *)
(*   class "accept": a well-formed OPEN a conforming reader must take, with *)
(*                   the values it must report                              *)
(*   class "reject": not an acceptable OPEN (framing, type, lengths,        *)
(*                   version, hold time 1..2, truncated)                    *)
(*   class "free"  : RFC leaves the receiver a choice (unsupported optional *)
(*                   parameter, conflicting capability-65 values, reserved  *)
(*                   octet of capability 1 not zero, identifier 0.0.0.0)    *)
(* The property only demands the "accept" outcomes; see BGPWireTrace.       *)
(***************************************************************************)
Rej(why)  == [class |-> "reject", why |-> why]
Free(why) == [class |-> "free", why |-> why]

OpenReader(s) ==
  IF Len(s) < 19 THEN Rej("incomplete-header")
  ELSE IF Sub(s, 1, 16) # Marker THEN Rej("marker")
  ELSE IF s[19] # 1 THEN Rej("not-open")
  ELSE LET L == U16(s, 17) IN
       IF L < 29 \/ L > 4096 THEN Rej("bad-message-length")
       ELSE IF Len(s) < L THEN Rej("truncated")
       ELSE LET d == DecodeOpen(SubSeq(s, 1, L)) IN
            IF ~d.ok THEN Rej(d.why)
            ELSE IF d.version # 4 THEN Rej("version")
            ELSE IF d.hold \in {1, 2} THEN Rej("hold-time")
            ELSE IF \E k \in DOMAIN d.params : d.params[k].t # 2 THEN Free("unsupported-optional-parameter")
            ELSE IF ~CapsWellFormed(d) THEN Rej("capability-length")
            ELSE IF Cardinality(CapVals(d, 65)) > 1 THEN Free("conflicting-capability-65")
            ELSE IF \E v \in CapVals(d, 1) : v[3] # 0 THEN Free("capability-1-reserved-octet")
            ELSE IF d.rid = <<0, 0, 0, 0>> THEN Free("identifier-zero")
            ELSE [class |-> "accept", asn |-> OpenASN(d), hold |-> d.hold,
                  mp4 |-> HasMP(d, 1, 1), mp6 |-> HasMP(d, 2, 1), fbasn |-> CapVals(d, 65) # {}]

(* how many octets of s a reader of ONE message may take from the stream:   *)
(* the header, then nothing beyond the announced message length             *)
Allowed(s) == IF Len(s) < 19 THEN Len(s) ELSE MinN(Len(s), MaxN(19, U16(s, 17)))
=============================================================================
