---------------------------- MODULE BGPSessionMC ----------------------------
(***************************************************************************)
(* Roles A and B for C17.                                                   *)
(*  role A: exhaustive check of BGPSession on a bounded configuration       *)
(*          (all interleavings of caller / sender / reader / keepalive /    *)
(*          peer), liveness under fairness on a small one;                  *)
(*  role B: Emit prints every chosen transition (simulation mode): the      *)
(*          action names are the schedule replayed through the blocking     *)
(*          hook against the real session.                                  *)
(***************************************************************************)
EXTENDS BGPSession, Json, TLC

CONSTANTS MaxSets, MaxDrops, MaxRefuse, MaxWire, MaxSteps

VARIABLE n            \* step counter (simulation only; 0 when MaxSteps = 0)
mcvars == <<vars, n>>

Init == InitWith([sets |-> MaxSets, drops |-> MaxDrops, refuse |-> MaxRefuse]) /\ n = 0
Tick == n' = IF MaxSteps = 0 THEN 0 ELSE n + 1
MCNext == Next /\ Tick /\ (MaxSteps = 0 \/ n < MaxSteps)

(* history variables that do not influence behaviour are hidden from the    *)
(* fingerprint; budget stays (it bounds the model)                          *)
View == <<closed, conn, nconn, advertised, new, snd, call, readers, wire, peerTable, peerAlive,
          lastRequested, sentTable, budget>>

WireBound == Len(wire) <= MaxWire

Spec == Init /\ [][MCNext]_mcvars

(* fairness: every goroutine that can move eventually moves; the            *)
(* environment (Set, Close, PeerDrops, ConnectRefused) is bounded by budget *)
Fair ==
  /\ WF_mcvars(SenderStep /\ Tick)
  /\ WF_mcvars(WriteFails /\ Tick)
  /\ WF_mcvars(ReaderStep /\ Tick)
  /\ WF_mcvars(RunCall /\ Tick)
  /\ WF_mcvars(PeerRecv /\ Tick)
LiveSpec == Spec /\ Fair

(* once the environment has stopped, the peer's table settles on the last   *)
(* requested set (or the session was closed)                                *)
EventuallyConverged == <>[](closed \/ (Settled /\ peerTable = lastRequested))

Emit == PrintT(ToJson([n |-> n, last |-> act, act |-> act']))

(* role B, simulation: the same actions with the environment's choices thinned out so that a    *)
(* random walk interleaves them with the sender instead of spending every Set before the first *)
(* connection (TLC picks uniformly among the successors)                                       *)
SimTargets == {Empty, RandomElement(Tables),
               [lastRequested EXCEPT ![RandomElement(Routes)] = RandomElement(Attrs \cup {ABSENT})]}
SimNext ==
  /\ Tick /\ n < MaxSteps
  /\ \/ \E S \in SimTargets : Set(S) \/ CallSet(S)
     \/ (RandomElement(1..10) = 1 /\ Close)
     \/ (RandomElement(1..4) = 1 /\ CallClose)
     \/ RunCall
     \/ (RandomElement(1..2) = 1 /\ PeerDrops)
     \/ (RandomElement(1..2) = 1 /\ ConnectRefused)
     \/ SenderStep \/ WriteFails \/ ReaderStep \/ PeerRecv
SimSpec == Init /\ [][SimNext]_mcvars

Sym == Permutations(Routes) \cup Permutations(Attrs)

(* vacuity probes (role A, -coverage / expected violations)                 *)
NeverSettledNonEmpty == ~(Settled /\ lastRequested # Empty /\ nconn >= 2)
=============================================================================
