-------------------------- MODULE BGPSessionTrace --------------------------
(***************************************************************************)
(* C17, role C.  The run logs of harness/native/sess_* (one NDJSON line per *)
(* event, all lines of one run in the order of one mutex, runs one after    *)
(* the other, each starting with a "meta" line) are read back and TLC       *)
(* evaluates the predicates of the property on what the real session and    *)
(* the scripted peer did.  One state per line.                              *)
(*                                                                          *)
(* (a) peer side - the verdict predicates (names "C17.*"):                  *)
(*   Converges       at every settled observation the table rebuilt from    *)
(*                   the UPDATE stream of that connection alone equals the  *)
(*                   last requested set, prefix AND attributes              *)
(*   FullResend      on a connection that is not the first one of the run   *)
(*                   every requested route was announced on it              *)
(*   RefuseWrongASN  nothing is received on a connection after the peer     *)
(*                   presented an unexpected ASN, and it is never installed *)
(*   QuietAfterClose no connection is accepted after Close returned; nothing *)
(*                   is received on a connection whose handshake the peer   *)
(*                   answered only after Close returned (whatever arrives   *)
(*                   there was sent in reaction to that answer, hence after *)
(*                   Close returned; a Close that is still blocked while    *)
(*                   the handshake is pending is not judged); no connection *)
(*                   is installed and no UPDATE written with closed = TRUE  *)
(*                   read under the session's own lock                      *)
(*                                                                          *)
(*   NoSpuriousReset the session never ends a connection of a peer that     *)
(*                   behaves: an end of stream seen by the peer is only     *)
(*                   explained by its own drop, a wrong ASN it presented,   *)
(*                   or a Close call that has begun                         *)
(*   ConvergesEventually  the sender loop (run) does not end before Close   *)
(*                   has been called: a session whose loop has returned     *)
(*                   makes no further connection attempt and sends no later *)
(*                   Set - it can never converge again (hook "run.exit"     *)
(*                   logged before "close.call")                            *)
(*   StreamWellFormed what the peer reads is a sequence of whole, well-     *)
(*                   formed messages: a header at every message boundary,   *)
(*                   every UPDATE decodable, its attribute block exactly    *)
(*                   ORIGIN, AS_PATH, NEXT_HOP (= the address the peer sees *)
(*                   the session coming from), LOCAL_PREF iff iBGP,         *)
(*                   optionally COMMUNITIES (aliases C16.SessionFraming,    *)
(*                   C16.SessionUpdateWellFormed)                           *)
(*   (Converges includes AS_PATH: an UPDATE whose AS_PATH is not the        *)
(*   intended one IN THE WIDTH THE PEER ANNOUNCED ON THAT CONNECTION -      *)
(*   4 octets iff its OPEN carried capability 65 - enters the table with    *)
(*   the attribute value "?aspath".)  Names starting with "C16." are        *)
(*   aliases picked up by the side run of the wire property:                *)
(*   C16.SessionAsPathWidth, C16.SessionSpuriousReset (a reset of a         *)
(*   connection on which the peer pipelined messages behind its OPEN).      *)
(*                                                                          *)
(* (b) hook side - trace validation against BGPSession: every hook event    *)
(*   must be an enabled action of the specification whose post-state has    *)
(*   the logged closed / conn # nil / advertised / new.  An event that is   *)
(*   not explained is reported as "DRIFT.<point>" (never a verdict, DESIGN  *)
(*   section 2) and validation of that run stops; while the trace is        *)
(*   explained the invariants of the specification are evaluated on it      *)
(*   ("C17.FullResendHook": what was written on this connection amounts to  *)
(*   the complete advertised set whenever the sender goes to wait).         *)
(***************************************************************************)
EXTENDS BGPSession, Integers, Json, TLC

Trace == ndJsonDeserialize("obs.ndjson")
N == Len(Trace)

VARIABLES
  i,        \* lines processed
  sync,     \* (b) the model still explains the hook events of this run
  fl,       \* failing predicate names of line i
  tabs,     \* (a) {[c, r, a]}: table per connection rebuilt from the UPDATE stream
  ann,      \* (a) {[c, r]}: routes announced at least once on connection c
  wrongc,   \* (a) connections on which the peer presented an unexpected ASN
  lastAcc,  \* (a) index of the latest accepted connection
  deadc,    \* connections the peer has dropped
  estab,    \* peer indices of the connections the session installed (hook "connected"), in order
  okc,      \* (a) connections on which the peer presented the expected ASN, in order
  lateOpen, \* (a) connections whose OPEN the peer answered after Close had returned
  pipec,    \* (a) connections on which the peer pipelined messages behind its OPEN
  closeCall,\* (a) a Close call has begun
  closeRet  \* (a) Close has returned

tvars == <<i, sync, fl, tabs, ann, wrongc, lastAcc, deadc, estab, okc, lateOpen, pipec, closeCall, closeRet>>

Big == [sets |-> 1000000, drops |-> 1000000, refuse |-> 1000000]
Tbl(x) == [r \in Routes |-> x[r]]
Range(s) == {s[k] : k \in DOMAIN s}
If(c, name) == IF c THEN {} ELSE {name}

----------------------------------------------------------------------------
(* (b) one hook event = one action of BGPSession                            *)
MatchPost(o) ==
  /\ closed' = o.closed
  /\ (conn' # 0) = o.up
  /\ advertised' = Tbl(o.adv)
  /\ new' = [has |-> o.nh, tbl |-> Tbl(o.nt)]
  /\ o.x = 0

Stutter == UNCHANGED vars

(* the sender's decisions outside the lock are logged after they were taken: closed may have  *)
(* become TRUE in between (conn = 0 cannot have changed, only the sender installs one)        *)
SenderReturnsTrue ==
  /\ snd.pc \in {"connected", "woke"} /\ conn = 0
  /\ snd' = At("dial") /\ act' = [a |-> "SenderRetry"]
  /\ UNCHANGED <<call, closed, conn, nconn, advertised, new, readers, PeerSide, lastRequested, budget, cnt>>

ConnectFailed ==                     \* connect() returned an error (refused peer, or the dial itself failed)
  /\ snd.pc \in {"dial", "hs"}
  /\ snd' = At("dial") /\ act' = [a |-> "ConnectRefused"]
  /\ UNCHANGED <<call, closed, conn, nconn, advertised, new, readers, PeerSide, lastRequested, budget, cnt>>

StaleReader ==
  LET cand == readers \ {conn} IN
  IF cand = {} THEN Stutter
  ELSE ReaderSeesEOF(CHOOSE k \in cand : \A j \in cand : k <= j)

HookAction(o) ==
  CASE o.pt = "set"            -> o.g = "caller" /\ Set(Tbl(o.nt))
    [] o.pt = "close"          -> closed /\ Stutter
    [] o.pt = "abort"          -> CASE o.g = "caller"    -> Close
                                    [] o.g = "sender"    -> WriteFails
                                    [] o.g = "reader"    -> conn # 0 /\ ReaderSeesEOF(conn)
                                    [] o.g = "keepalive" -> KeepaliveFails
                                    [] OTHER -> FALSE
    [] o.pt = "connected"      -> ConnectOKWith(lastAcc \notin deadc)
    [] o.pt = "connect.failed" -> ConnectFailed
    [] o.pt = "run.exit"       -> ConnectClosed \/ EnterClosed \/ WokeClosed \/ (snd.pc = "done" /\ Stutter)
    [] o.pt = "gate.connect"   -> (snd.pc = "dial" /\ Stutter) \/ SenderReturnsTrue
    [] o.pt = "gate.sendUpdates" -> snd.pc = "connected" /\ Stutter
    [] o.pt = "fold"           -> FoldAtConnect
    [] o.pt = "full.sent"      -> snd.pc = "full" /\ SendUpdate(o.r)
    [] o.pt = "diff.begin"     -> DiffBegin
    [] o.pt = "diff.sent"      -> snd.pc = "diff" /\ SendUpdate(o.r)
    [] o.pt = "diff.withdrawn" -> snd.pc = "diff" /\ SendWithdraw
    [] o.pt = "diff.done"      -> DiffDone
    [] o.pt = "wait.enter"     -> FullDone \/ WokeNothing \/ (snd.pc = "wait" /\ Stutter)
    [] o.pt = "wait.woke"      -> Wake
    [] o.pt = "reader.start"   -> Stutter
    [] o.pt = "gate.reader"    -> Stutter
    [] o.pt = "reader.stale"   -> StaleReader
    [] OTHER -> FALSE

HookStep(o) == HookAction(o) /\ (o.st => MatchPost(o))

----------------------------------------------------------------------------
(* model variables at the start of a run                                    *)
ResetModel ==
  /\ closed' = FALSE /\ conn' = 0 /\ nconn' = 0
  /\ advertised' = Empty /\ new' = NoNew
  /\ snd' = At("dial") /\ readers' = {} /\ call' = NoCall
  /\ wire' = <<>> /\ peerTable' = Empty /\ peerAlive' = FALSE
  /\ lastRequested' = Empty /\ sentTable' = Empty
  /\ budget' = Big /\ cnt' = [dials |-> 0, sent |-> 0]
  /\ act' = [a |-> "Init"]

(* the peer dropped the connection the session currently uses *)
ModelDrop(o) ==
  IF estab # <<>> /\ o.c = estab[Len(estab)]
  THEN /\ peerAlive' = FALSE /\ wire' = <<>>
       /\ UNCHANGED <<call, closed, conn, nconn, advertised, new, snd, readers, peerTable, lastRequested, sentTable, budget, cnt, act>>
  ELSE Stutter

----------------------------------------------------------------------------
(* (a) the peer's table per connection                                      *)
TableOf(c) == {[r |-> t.r, a |-> t.a] : t \in {u \in tabs : u.c = c}}
AnnouncedOn(c) == {t.r : t \in {u \in ann : u.c = c}}

(* value of path attribute `code` in the raw attribute octets b (from position p): <<-1>> if     *)
(* absent, <<-2>> if the attribute list is malformed                                             *)
RECURSIVE AttrValue(_, _, _)
AttrValue(b, p, code) ==
  IF p > Len(b) THEN <<-1>>
  ELSE IF p + 2 > Len(b) THEN <<-2>>
  ELSE LET ext == (b[p] \div 16) % 2 = 1 IN
       IF ext /\ p + 3 > Len(b) THEN <<-2>>
       ELSE LET hl == IF ext THEN 4 ELSE 3
                ln == IF ext THEN b[p + 2] * 256 + b[p + 3] ELSE b[p + 2] IN
            IF p + hl + ln - 1 > Len(b) THEN <<-2>>
            ELSE IF b[p + 1] = code THEN SubSeq(b, p + hl, p + hl + ln - 1)
            ELSE AttrValue(b, p + hl + ln, code)

(* the attribute type codes of the block, in order; <<-2>> if the block is malformed             *)
RECURSIVE AttrCodes(_, _)
AttrCodes(b, p) ==
  IF p > Len(b) THEN <<>>
  ELSE IF p + 2 > Len(b) THEN <<-2>>
  ELSE LET ext == (b[p] \div 16) % 2 = 1 IN
       IF ext /\ p + 3 > Len(b) THEN <<-2>>
       ELSE LET hl == IF ext THEN 4 ELSE 3
                ln == IF ext THEN b[p + 2] * 256 + b[p + 3] ELSE b[p + 2] IN
            IF p + hl + ln - 1 > Len(b) THEN <<-2>>
            ELSE LET rest == AttrCodes(b, p + hl + ln) IN
                 IF rest = <<-2>> THEN rest ELSE <<b[p + 1]>> \o rest

UpdWellFormed(o) ==
  LET base == IF o.ibgp THEN <<1, 2, 3, 5>> ELSE <<1, 2, 3>>
      cs == AttrCodes(o.attrs, 1) IN
  /\ cs \in {base, base \o <<8>>}
  /\ AttrValue(o.attrs, 1, 1) = <<0>>            \* ORIGIN IGP
  /\ AttrValue(o.attrs, 1, 3) = o.nh             \* NEXT_HOP: 4 octets, the session's own address on this connection
  /\ (o.ibgp => Len(AttrValue(o.attrs, 1, 5)) = 4)

AsnOctets(n, width) ==
  IF width = 4 THEN <<0, 0, (n \div 256) % 256, n % 256>> ELSE <<(n \div 256) % 256, n % 256>>   \* n < 65536 here

(* the AS_PATH the statement of C16 intends, in the width the peer announced on this connection: *)
(* empty on an iBGP session, one AS_SEQUENCE holding the own ASN otherwise                       *)
IntendedAsPath(o) ==
  IF o.ibgp THEN <<>> ELSE <<2, 1>> \o AsnOctets(o.myasn, IF o.cap65 THEN 4 ELSE 2)
AsPathOK(o) == AttrValue(o.attrs, 1, 2) = IntendedAsPath(o)

ApplyMsg(o) ==
  CASE o.t = "upd" -> /\ tabs' = {t \in tabs : ~(t.c = o.c /\ t.r = o.r)}
                                 \cup {[c |-> o.c, r |-> o.r,
                                        a |-> IF ~UpdWellFormed(o) THEN "?malformed" ELSE IF AsPathOK(o) THEN o.a ELSE "?aspath"]}
                      /\ ann' = ann \cup {[c |-> o.c, r |-> o.r]}
    [] o.t = "wdr" -> /\ tabs' = {t \in tabs : ~(t.c = o.c /\ t.r \in Range(o.rs))}
                      /\ ann' = ann
    [] OTHER       -> UNCHANGED <<tabs, ann>>

FirstEstab(c) == okc = <<>> \/ okc[1] = c

SentEvents == {"full.sent", "diff.sent", "diff.withdrawn"}

(* failing predicate names of the line about to be processed (evaluated in the pre-state)     *)
PeerFails(o) ==
  CASE o.k = "settled" ->
         If(TableOf(o.c) = Range(o.req), "C17.Converges")
         \cup If(FirstEstab(o.c) \/ {x.r : x \in Range(o.req)} \subseteq AnnouncedOn(o.c), "C17.FullResend")
    [] o.k = "msg" -> If(o.c \notin wrongc, "C17.RefuseWrongASN") \cup If(o.c \notin lateOpen, "C17.QuietAfterClose")
                      \cup (IF o.t = "upd" /\ ~AsPathOK(o) THEN {"C16.SessionAsPathWidth"} ELSE {})
                      \cup (IF o.t = "bad" \/ (o.t = "upd" /\ ~UpdWellFormed(o))
                            THEN {"C17.StreamWellFormed", "C16.SessionUpdateWellFormed"} ELSE {})
                      \cup (IF o.t = "badframe" THEN {"C17.StreamWellFormed", "C16.SessionFraming"} ELSE {})
    [] o.k = "eof" -> IF o.c \in wrongc \/ o.c \in deadc \/ closeCall THEN {}
                      ELSE {"C17.NoSpuriousReset"} \cup (IF o.c \in pipec THEN {"C16.SessionSpuriousReset"} ELSE {})
    [] o.k = "accept" -> If(~closeRet, "C17.QuietAfterClose")
    [] o.k = "hook" ->
         (IF o.st /\ o.closed /\ o.pt \in SentEvents \cup {"connected"} THEN {"C17.QuietAfterClose"} ELSE {})
         \cup (IF o.pt = "connected" /\ lastAcc \in wrongc THEN {"C17.RefuseWrongASN"} ELSE {})
         \cup (IF o.pt = "run.exit" /\ ~closeCall THEN {"C17.ConvergesEventually"} ELSE {})
    [] OTHER -> {}

----------------------------------------------------------------------------
TInit ==
  /\ InitWith(Big)
  /\ i = 0 /\ sync = TRUE /\ fl = {}
  /\ tabs = {} /\ ann = {} /\ wrongc = {} /\ lastAcc = 0 /\ deadc = {} /\ estab = <<>> /\ okc = <<>> /\ lateOpen = {} /\ pipec = {} /\ closeCall = FALSE /\ closeRet = FALSE

PeerVarsUnchanged == UNCHANGED <<tabs, ann, wrongc, lastAcc, deadc, estab, okc, lateOpen, pipec, closeCall, closeRet>>

Line(o) ==
  CASE o.k = "meta" ->
         /\ ResetModel /\ sync' = o.hooks /\ fl' = {}
         /\ tabs' = {} /\ ann' = {} /\ wrongc' = {} /\ lastAcc' = 0 /\ deadc' = {} /\ estab' = <<>> /\ okc' = <<>> /\ lateOpen' = {} /\ pipec' = {} /\ closeCall' = FALSE /\ closeRet' = FALSE
    [] o.k = "hook" ->
         /\ UNCHANGED <<tabs, ann, wrongc, lastAcc, deadc, okc, lateOpen, pipec, closeCall, closeRet>>
         /\ estab' = IF o.pt = "connected" THEN Append(estab, lastAcc) ELSE estab
         /\ IF ~sync THEN Stutter /\ sync' = sync /\ fl' = PeerFails(o)
            ELSE \/ /\ HookStep(o) /\ sync' = TRUE
                    /\ fl' = PeerFails(o) \cup
                         (IF o.pt = "wait.enter" /\ conn' # 0 /\ sentTable' # advertised'
                          THEN {"C17.FullResendHook"} ELSE {})
                 \/ /\ ~ENABLED HookStep(o) /\ Stutter /\ sync' = FALSE
                    /\ fl' = PeerFails(o) \cup {"DRIFT." \o o.pt}
    [] o.k = "drop" ->
         /\ ModelDrop(o) /\ deadc' = deadc \cup {o.c} /\ fl' = {}
         /\ UNCHANGED <<sync, tabs, ann, wrongc, lastAcc, estab, okc, lateOpen, pipec, closeCall, closeRet>>
    [] o.k = "accept" ->
         /\ Stutter /\ lastAcc' = o.c /\ fl' = PeerFails(o)
         /\ UNCHANGED <<sync, tabs, ann, wrongc, deadc, estab, okc, lateOpen, pipec, closeCall, closeRet>>
    [] o.k = "sentopen" ->
         /\ Stutter /\ wrongc' = (IF o.wrong THEN wrongc \cup {o.c} ELSE wrongc) /\ fl' = {}
         /\ okc' = (IF o.wrong THEN okc ELSE Append(okc, o.c))
         /\ lateOpen' = (IF closeRet THEN lateOpen \cup {o.c} ELSE lateOpen)
         /\ pipec' = (IF o.pipe THEN pipec \cup {o.c} ELSE pipec)
         /\ UNCHANGED <<sync, tabs, ann, lastAcc, deadc, estab, closeCall, closeRet>>
    [] o.k = "msg" ->
         /\ Stutter /\ ApplyMsg(o) /\ fl' = PeerFails(o)
         /\ UNCHANGED <<sync, wrongc, lastAcc, deadc, estab, okc, lateOpen, pipec, closeCall, closeRet>>
    [] o.k = "settled" ->
         /\ Stutter /\ fl' = PeerFails(o) /\ UNCHANGED sync /\ PeerVarsUnchanged
    [] o.k = "eof" ->
         /\ Stutter /\ fl' = PeerFails(o) /\ UNCHANGED sync /\ PeerVarsUnchanged
    [] o.k = "close.call" ->
         /\ Stutter /\ closeCall' = TRUE /\ fl' = {}
         /\ UNCHANGED <<sync, tabs, ann, wrongc, lastAcc, deadc, estab, okc, lateOpen, pipec, closeRet>>
    [] o.k = "close.ret" ->
         /\ Stutter /\ closeRet' = TRUE /\ fl' = {}
         /\ UNCHANGED <<sync, tabs, ann, wrongc, lastAcc, deadc, estab, okc, lateOpen, pipec, closeCall>>
    [] OTHER -> Stutter /\ fl' = {} /\ UNCHANGED sync /\ PeerVarsUnchanged

(* The sender's exits from sendUpdates after a wake-up (closed: return false; conn = nil: return  *)
(* true) release s.mu but are logged later, outside the lock ("run.exit" / "gate.connect").  An   *)
(* event another goroutine logs under s.mu in between proves the sender has left: that unlogged   *)
(* step is taken first, without consuming a line.                                                 *)
NeedsImplicit(o) ==
  o.k = "hook" /\ sync /\ o.g # "sender" /\ o.st /\ snd.pc = "woke" /\ (closed \/ conn = 0)
ImplicitSenderLeave ==
  /\ snd' = At(IF closed THEN "done" ELSE "dial") /\ act' = [a |-> "Implicit"]
  /\ UNCHANGED <<call, closed, conn, nconn, advertised, new, readers, PeerSide, lastRequested, budget, cnt>>
  /\ fl' = {} /\ UNCHANGED <<i, sync, tabs, ann, wrongc, lastAcc, deadc, estab, okc, lateOpen, pipec, closeCall, closeRet>>

(* connect() has no hook point between taking s.mu and installing the connection: the start of *)
(* the handshake (ConnectBegin) is taken, without consuming a line, when "connected" arrives.   *)
NeedsBegin(o) == o.k = "hook" /\ sync /\ o.pt = "connected" /\ snd.pc = "dial" /\ ~closed
ImplicitConnectBegin ==
  /\ ConnectBegin
  /\ fl' = {} /\ UNCHANGED <<i, sync, tabs, ann, wrongc, lastAcc, deadc, estab, okc, lateOpen, pipec, closeCall, closeRet>>

TNext == /\ i < N
         /\ LET o == Trace[i + 1] IN
            IF NeedsImplicit(o) THEN ImplicitSenderLeave
            ELSE IF NeedsBegin(o) THEN ImplicitConnectBegin
            ELSE i' = i + 1 /\ Line(o)

Info(o) ==
  IF o.k = "settled"
  THEN [c |-> o.c, table |-> TableOf(o.c), req |-> Range(o.req), announced |-> AnnouncedOn(o.c), first |-> FirstEstab(o.c), pt |-> ""]
  ELSE [c |-> IF o.k \in {"msg", "accept", "eof"} THEN o.c ELSE 0, table |-> {}, req |-> {}, announced |-> {}, first |-> FALSE,
        pt |-> IF o.k = "hook" THEN o.pt ELSE o.k,
        cap65 |-> IF o.k = "msg" /\ o.t = "upd" THEN o.cap65 ELSE FALSE,
        aspath |-> IF o.k = "msg" /\ o.t = "upd" THEN AttrValue(o.attrs, 1, 2) ELSE <<>>,
        pipe |-> IF o.k = "eof" THEN o.c \in pipec ELSE FALSE,
        why |-> IF o.k = "eof" THEN o.why ELSE "",
        t |-> IF o.k = "msg" THEN o.t ELSE "",
        codes |-> IF o.k = "msg" /\ o.t = "upd" THEN AttrCodes(o.attrs, 1) ELSE <<>>,
        nexthop |-> IF o.k = "msg" /\ o.t = "upd" THEN AttrValue(o.attrs, 1, 3) ELSE <<>>]

(* printed once per state: the failing predicates of line i; "done" proves every line was consumed *)
Judge ==
  /\ (fl = {} \/ PrintT(ToJson([fails |-> fl, line |-> i, w |-> Trace[i].w, step |-> Trace[i].i, info |-> Info(Trace[i])])))
  /\ (i < N \/ PrintT(ToJson([done |-> N])))
=============================================================================
