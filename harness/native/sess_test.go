//go:build verif

package native

// Role B harness for C17 (native BGP session), part 1: run log, route/attribute universe, the
// scripted BGP peer on a loopback listener and its minimal UPDATE reader.
//
// Nothing in the sess_* files judges: the peer decodes what it receives into
// (announce route+attributes | withdraw routes) records and logs them, the drivers log what
// they asked for, the hook (when /repo carries the verifPoint calls) logs the session state
// under s.mu.  Every line of one run goes through one mutex and gets the next index; the
// verdicts are computed by TLC from these lines (spec/BGPSessionTrace.tla).

import (
	"encoding/binary"
	"fmt"
	"io"
	"math/rand"
	"net"
	"sort"
	"strings"
	"sync"
	"time"

	"go.universe.tf/metallb/internal/bgp"
	"go.universe.tf/metallb/internal/bgp/community"
	kit "go.universe.tf/metallb/internal/verifkit"
)

// ---------------------------------------------------------------------------- universe

var vSessRoutes = []string{"r1", "r2", "r3", "r4"}
var vSessPrefixes = map[string]string{"r1": "10.20.0.1/32", "r2": "10.20.0.2/32", "r3": "10.20.1.0/24", "r4": "10.20.2.128/25"}
var vSessAttrNames = []string{"a1", "a2", "a3", "a4"}

type vSessAttr struct {
	lp    uint32
	comms []uint32
}

// attribute values: on an iBGP session LOCAL_PREF is on the wire, on an eBGP session only the
// communities are, so the four values differ in something the peer can see in both cases
func vSessAttrs(ibgp bool) map[string]vSessAttr {
	if ibgp {
		return map[string]vSessAttr{"a1": {100, nil}, "a2": {200, nil}, "a3": {100, []uint32{65000<<16 | 7}},
			"a4": {100, []uint32{65000<<16 | 9}}}
	}
	return map[string]vSessAttr{"a1": {100, nil}, "a2": {100, []uint32{65000<<16 | 7}},
		"a3": {100, []uint32{65000<<16 | 9}}, "a4": {100, []uint32{65000<<16 | 7, 65000<<16 | 9}}}
}

func vSessAttrKey(ibgp bool, lp int64, comms []uint32) string {
	c := append([]uint32(nil), comms...)
	sort.Slice(c, func(i, j int) bool { return c[i] < c[j] })
	if !ibgp {
		lp = -1
	}
	return fmt.Sprintf("%d|%v", lp, c)
}

type vSessUniverse struct {
	ibgp     bool
	attrs    map[string]vSessAttr
	byKey    map[string]string // attribute key -> name
	byPrefix map[string]string // prefix -> route name
}

func vSessNewUniverse(ibgp bool) *vSessUniverse {
	u := &vSessUniverse{ibgp: ibgp, attrs: vSessAttrs(ibgp), byKey: map[string]string{}, byPrefix: map[string]string{}}
	for n, a := range u.attrs {
		lp := int64(a.lp)
		u.byKey[vSessAttrKey(ibgp, lp, a.comms)] = n
	}
	for r, p := range vSessPrefixes {
		u.byPrefix[p] = r
	}
	return u
}

func (u *vSessUniverse) routeName(pfx string) string {
	if r, ok := u.byPrefix[pfx]; ok {
		return r
	}
	return "?" + pfx
}

func (u *vSessUniverse) attrName(lp int64, comms []uint32) string {
	k := vSessAttrKey(u.ibgp, lp, comms)
	if n, ok := u.byKey[k]; ok {
		return n
	}
	return "?" + k
}

// adv builds the Advertisement of route r with attribute value a.
func (u *vSessUniverse) adv(r, a string) *bgp.Advertisement {
	_, n, err := net.ParseCIDR(vSessPrefixes[r])
	kit.Must(err)
	at := u.attrs[a]
	ad := &bgp.Advertisement{Prefix: n, LocalPref: at.lp}
	for _, c := range at.comms {
		cc, err := community.New(fmt.Sprintf("%d:%d", c>>16, c&0xffff))
		kit.Must(err)
		ad.Communities = append(ad.Communities, cc)
	}
	return ad
}

// table is the abstract form of a route set: every route of the universe -> attribute name or "-".
func vSessEmptyTable() map[string]string {
	t := map[string]string{}
	for _, r := range vSessRoutes {
		t[r] = "-"
	}
	return t
}

func (u *vSessUniverse) advs(t map[string]string) []*bgp.Advertisement {
	out := []*bgp.Advertisement{}
	for _, r := range vSessRoutes {
		if a, ok := t[r]; ok && a != "-" {
			out = append(out, u.adv(r, a))
		}
	}
	return out
}

// project maps the session's own map back to the abstract table; extra counts keys outside the universe.
func (u *vSessUniverse) project(m map[string]*bgp.Advertisement) (map[string]string, int) {
	t := vSessEmptyTable()
	extra := 0
	for k, ad := range m {
		r, ok := u.byPrefix[k]
		if !ok {
			extra++
			continue
		}
		var cs []uint32
		for _, c := range ad.Communities {
			if lc, ok := c.(community.BGPCommunityLegacy); ok {
				cs = append(cs, lc.ToUint32())
			}
		}
		// the session's own records always carry LOCAL_PREF: name them by the full value
		name := "?"
		for n, a := range u.attrs {
			if a.lp == ad.LocalPref && vSessAttrKey(true, 0, a.comms) == vSessAttrKey(true, 0, cs) {
				name = n
			}
		}
		t[r] = name
	}
	return t, extra
}

func vSessPairs(t map[string]string) []map[string]string {
	out := []map[string]string{}
	for _, r := range vSessRoutes {
		if a := t[r]; a != "-" && a != "" {
			out = append(out, map[string]string{"r": r, "a": a})
		}
	}
	return out
}

// ---------------------------------------------------------------------------- run log

type vSessLog struct {
	mu    sync.Mutex
	w     string
	lines []map[string]interface{}
	// counters maintained under mu (consistent snapshots for the settle test)
	accepts   int
	curConn   int // index of the latest accepted connection
	curAlive  bool
	updRecv   map[int]int   // UPDATE messages read per connection
	anyRecv   map[int]int   // all messages read per connection
	lastEvent time.Time     // harness-internal pacing only (never logged, never judged)
	changed   chan struct{} // closed and replaced whenever a line is added (see sess_ctl_test.go)
	sealed    bool          // the "end" line is written: whatever a surviving goroutine does later is not part of the run
	holdC     int           // connection whose OPEN reply the peer is holding back (0 = none)
	armNext   int           // >0: the next accepted connection is dropped after this many UPDATEs
	armRst    bool
}

func vSessNewLog(w string) *vSessLog {
	return &vSessLog{w: w, updRecv: map[int]int{}, anyRecv: map[int]int{}, lastEvent: time.Now()}
}

// add appends one line; the caller holds l.mu.
func (l *vSessLog) addLocked(kind string, f map[string]interface{}) {
	if l.sealed {
		return
	}
	if kind == "end" {
		l.sealed = true
	}
	if f == nil {
		f = map[string]interface{}{}
	}
	f["w"] = l.w
	f["i"] = len(l.lines)
	f["k"] = kind
	l.lines = append(l.lines, f)
	l.lastEvent = time.Now()
	l.bcastLocked()
}

func (l *vSessLog) add(kind string, f map[string]interface{}) {
	l.mu.Lock()
	l.addLocked(kind, f)
	l.mu.Unlock()
}

func (l *vSessLog) flush(b *kit.Block) {
	l.mu.Lock()
	for _, x := range l.lines {
		b.Add(x)
	}
	l.mu.Unlock()
}

// ---------------------------------------------------------------------------- scripted peer

type vSessPeer struct {
	log  *vSessLog
	u    *vSessUniverse
	ln   net.Listener
	port int
	asn  uint32 // the ASN the session expects
	hold uint16
	// what the peer announces differs from connection to connection (the same router coming back
	// with another software version / configuration): capability 65 (4-octet ASNs), the
	// multiprotocol capabilities, the hold time; and it may pipeline its first messages
	vary    bool
	holds   []uint16
	rng     *rand.Rand       // guarded by mu
	myASN   uint32           // the session's ASN (logged with every UPDATE record)
	opened  map[int]vSessOpn // what was announced on connection k
	remotes map[int][]int    // remote address of connection k as the peer sees it

	mu        sync.Mutex
	wrong     int // present a wrong ASN on the next `wrong` connections
	refused   int // connections on which a wrong ASN was presented
	conns     map[int]net.Conn
	dropAfter map[int]int   // connection -> drop when this many UPDATEs have been read (armed)
	rst       bool          // drop with RST instead of FIN
	holdNext  bool          // slow handshake: hold the reply to the next OPEN until release()
	holdCh    chan struct{} // closed by release()
	done      chan struct{}
}

// vSessOpn: the peer's own OPEN of one connection.
type vSessOpn struct {
	cap65, mp4, mp6, pipe bool
	hold                  uint16
}

func (p *vSessPeer) planOpen() vSessOpn {
	if !p.vary {
		return vSessOpn{cap65: true, mp4: true, hold: p.hold}
	}
	return vSessOpn{cap65: p.rng.Intn(100) < 55, mp4: p.rng.Intn(100) < 80, mp6: p.rng.Intn(100) < 30,
		pipe: p.rng.Intn(100) < 30, hold: p.holds[p.rng.Intn(len(p.holds))]}
}

func vSessNewPeer(l *vSessLog, u *vSessUniverse, asn uint32, hold uint16) *vSessPeer {
	ln, err := net.Listen("tcp4", "127.0.0.1:0")
	kit.Must(err)
	p := &vSessPeer{log: l, u: u, ln: ln, port: ln.Addr().(*net.TCPAddr).Port, asn: asn, hold: hold,
		conns: map[int]net.Conn{}, dropAfter: map[int]int{}, done: make(chan struct{}), opened: map[int]vSessOpn{}, remotes: map[int][]int{}}
	return p
}

func (p *vSessPeer) start() *vSessPeer {
	go p.acceptLoop()
	return p
}

func (p *vSessPeer) stop() {
	p.release()
	close(p.done)
	p.ln.Close()
	p.mu.Lock()
	for _, c := range p.conns {
		c.Close()
	}
	p.mu.Unlock()
}

func (p *vSessPeer) acceptLoop() {
	for {
		c, err := p.ln.Accept()
		if err != nil {
			return
		}
		p.log.mu.Lock()
		p.log.accepts++
		k := p.log.accepts
		p.log.curConn = k
		p.log.curAlive = true
		p.log.addLocked("accept", map[string]interface{}{"c": k})
		arm, armRst := p.log.armNext, p.log.armRst
		p.log.armNext = 0
		p.log.mu.Unlock()
		p.mu.Lock()
		p.conns[k] = c
		if ta, ok := c.RemoteAddr().(*net.TCPAddr); ok && ta.IP.To4() != nil {
			p.remotes[k] = vSessInts(ta.IP.To4())
		}
		if arm > 0 {
			p.dropAfter[k] = arm
			p.rst = armRst
		}
		p.mu.Unlock()
		go p.serve(k, c)
	}
}

// armHold makes the peer read the session's OPEN on the next connection and then keep its own
// OPEN back until release() - a slow handshake.
func (p *vSessPeer) armHold() {
	p.mu.Lock()
	p.holdNext = true
	if p.holdCh == nil {
		p.holdCh = make(chan struct{})
	}
	p.mu.Unlock()
}

// release lets a held handshake go on (and disarms a hold that has not started yet).
func (p *vSessPeer) release() {
	p.mu.Lock()
	p.holdNext = false
	if p.holdCh != nil {
		close(p.holdCh)
		p.holdCh = nil
	}
	p.mu.Unlock()
}

// remoteIP: the address the peer sees the session coming from on connection k (4 octets).
func (p *vSessPeer) remoteIP(k int) []int {
	p.mu.Lock()
	defer p.mu.Unlock()
	if ip, ok := p.remotes[k]; ok {
		return ip
	}
	return []int{0, 0, 0, 0}
}

func (p *vSessPeer) setWrong(n int) {
	p.mu.Lock()
	p.wrong = n
	p.mu.Unlock()
}

func (p *vSessPeer) refusedCount() int {
	p.mu.Lock()
	defer p.mu.Unlock()
	return p.refused
}

// drop closes connection k (the current one if k == 0).  The "drop" line is logged BEFORE the
// socket is closed, so that every effect of the drop on the session is logged after it.
func (p *vSessPeer) drop(k int, rst bool) bool {
	p.log.mu.Lock()
	if k == 0 {
		k = p.log.curConn
	}
	p.mu.Lock()
	c := p.conns[k]
	delete(p.conns, k)
	delete(p.dropAfter, k)
	p.mu.Unlock()
	if c == nil {
		p.log.mu.Unlock()
		return false
	}
	if k == p.log.curConn {
		p.log.curAlive = false
	}
	p.log.addLocked("drop", map[string]interface{}{"c": k, "rst": rst})
	p.log.mu.Unlock()
	if rst {
		if tc, ok := c.(*net.TCPConn); ok {
			tc.SetLinger(0)
		}
	}
	c.Close()
	return true
}

// armDrop makes the peer drop the current connection once it has read n more UPDATEs on it.
func (p *vSessPeer) armDrop(n int, rst bool) {
	p.log.mu.Lock()
	k := p.log.curConn
	have := p.log.updRecv[k]
	p.log.mu.Unlock()
	p.mu.Lock()
	if _, ok := p.conns[k]; ok {
		p.dropAfter[k] = have + n
		p.rst = rst
	}
	p.mu.Unlock()
}

// armNextDrop makes the peer drop the NEXT connection once it has read n UPDATEs on it (a full
// send cut in the middle).
func (p *vSessPeer) armNextDrop(n int, rst bool) {
	p.log.mu.Lock()
	p.log.armNext, p.log.armRst = n, rst
	p.log.mu.Unlock()
}

// vSessErrFraming: the octets at a message boundary are not a BGP header (marker / length).
var vSessErrFraming = fmt.Errorf("framing")

func vSessReadMsg(c net.Conn) (typ byte, body []byte, err error) {
	hdr := make([]byte, 19)
	if _, err = io.ReadFull(c, hdr); err != nil {
		return 0, nil, err
	}
	for i := 0; i < 16; i++ {
		if hdr[i] != 0xff {
			return 0, nil, vSessErrFraming
		}
	}
	n := int(binary.BigEndian.Uint16(hdr[16:18]))
	if n < 19 || n > 4096 {
		return 0, nil, vSessErrFraming
	}
	body = make([]byte, n-19)
	if _, err = io.ReadFull(c, body); err != nil {
		return 0, nil, err
	}
	return hdr[18], body, nil
}

func vSessOpenMsg(asn uint32, o vSessOpn) []byte {
	asn16 := uint16(asn)
	if asn > 65535 {
		asn16 = 23456
	}
	caps := []byte{}
	if o.mp4 {
		caps = append(caps, 1, 4, 0, 1, 0, 1)
	}
	if o.mp6 {
		caps = append(caps, 1, 4, 0, 2, 0, 1)
	}
	if o.cap65 {
		caps = append(caps, 65, 4, byte(asn>>24), byte(asn>>16), byte(asn>>8), byte(asn))
	}
	body := []byte{4, byte(asn16 >> 8), byte(asn16), byte(o.hold >> 8), byte(o.hold), 10, 99, 99, 99}
	if len(caps) > 0 {
		body = append(body, byte(len(caps)+2), 2, byte(len(caps)))
		body = append(body, caps...)
	} else {
		body = append(body, 0)
	}
	return vSessFrame(1, body)
}

// vSessBigUpdate is a legal UPDATE of the maximum message size (4096 octets): 814 withdrawn /32
// prefixes and one /16, no attributes, no NLRI.
func vSessBigUpdate() []byte {
	wd := make([]byte, 0, 4073)
	for i := 0; i < 814; i++ {
		wd = append(wd, 32, 198, 51, byte(i>>8), byte(i))
	}
	wd = append(wd, 16, 198, 18)
	body := []byte{byte(len(wd) >> 8), byte(len(wd))}
	body = append(body, wd...)
	body = append(body, 0, 0)
	return vSessFrame(2, body)
}

func vSessFrame(typ byte, body []byte) []byte {
	m := make([]byte, 19, 19+len(body))
	for i := 0; i < 16; i++ {
		m[i] = 0xff
	}
	binary.BigEndian.PutUint16(m[16:18], uint16(19+len(body)))
	m[18] = typ
	return append(m, body...)
}

func (p *vSessPeer) logEOF(k int, err error) {
	p.log.mu.Lock()
	if k == p.log.curConn {
		p.log.curAlive = false
	}
	e := "eof"
	if err != nil && err != io.EOF {
		e = "err"
		if strings.Contains(err.Error(), "timeout") {
			e = "timeout"
		}
	}
	p.log.addLocked("eof", map[string]interface{}{"c": k, "why": e})
	p.log.mu.Unlock()
	p.mu.Lock()
	if c, ok := p.conns[k]; ok {
		c.Close()
		delete(p.conns, k)
	}
	p.mu.Unlock()
}

func (p *vSessPeer) serve(k int, c net.Conn) {
	// the session speaks first: its OPEN
	c.SetReadDeadline(time.Now().Add(8 * time.Second))
	typ, body, err := vSessReadMsg(c)
	if err != nil {
		p.logEOF(k, err)
		return
	}
	if typ != 1 || len(body) < 10 {
		p.log.add("msg", map[string]interface{}{"c": k, "t": "other", "type": int(typ)})
	} else {
		p.log.add("open", map[string]interface{}{"c": k, "asn16": int(binary.BigEndian.Uint16(body[1:3])),
			"hold": int(binary.BigEndian.Uint16(body[3:5]))})
	}
	p.mu.Lock()
	var hold chan struct{}
	if p.holdNext {
		p.holdNext = false
		hold = p.holdCh
	}
	p.mu.Unlock()
	if hold != nil {
		p.log.mu.Lock()
		p.log.holdC = k
		p.log.addLocked("hold", map[string]interface{}{"c": k})
		p.log.mu.Unlock()
		select {
		case <-hold:
		case <-p.done:
		}
		p.log.mu.Lock()
		p.log.holdC = 0
		p.log.addLocked("release", map[string]interface{}{"c": k})
		p.log.mu.Unlock()
	}
	p.mu.Lock()
	wrong := p.wrong > 0
	if wrong {
		p.wrong--
		p.refused++
	}
	p.mu.Unlock()
	asn := p.asn
	if wrong {
		asn = p.asn + 1
	}
	p.mu.Lock()
	opn := p.planOpen()
	p.opened[k] = opn
	p.mu.Unlock()
	// the line is logged before the octets leave: everything the session does in reaction comes later
	p.log.add("sentopen", map[string]interface{}{"c": k, "wrong": wrong, "cap65": opn.cap65, "mp4": opn.mp4, "mp6": opn.mp6,
		"hold": int(opn.hold), "pipe": opn.pipe && !wrong})
	first := vSessOpenMsg(asn, opn)
	if opn.pipe && !wrong {
		// pipelining: OPEN, KEEPALIVE, a maximum-size UPDATE and another KEEPALIVE leave in ONE write
		first = append(first, vSessFrame(4, nil)...)
		first = append(first, vSessBigUpdate()...)
		first = append(first, vSessFrame(4, nil)...)
	}
	if _, err := c.Write(first); err != nil {
		p.logEOF(k, err)
		return
	}
	if !wrong && !opn.pipe {
		if _, err := c.Write(vSessFrame(4, nil)); err != nil {
			p.logEOF(k, err)
			return
		}
	}
	for {
		if wrong {
			c.SetReadDeadline(time.Now().Add(5 * time.Second))
		} else {
			c.SetReadDeadline(time.Time{})
		}
		typ, body, err := vSessReadMsg(c)
		if err == vSessErrFraming {
			// the stream cannot be read any further: log it and end the connection (what a router
			// does with NOTIFICATION 1/1) - the drop is the peer's own
			p.log.add("msg", map[string]interface{}{"c": k, "t": "badframe"})
			p.drop(k, false)
			return
		}
		if err != nil {
			p.mu.Lock()
			_, mine := p.conns[k]
			p.mu.Unlock()
			if mine { // not dropped by command: the session (or the network) ended it
				p.logEOF(k, err)
			}
			return
		}
		nupd := p.logMsg(k, typ, body)
		p.mu.Lock()
		lim, armed := p.dropAfter[k]
		rst := p.rst
		p.mu.Unlock()
		if armed && nupd >= lim {
			p.drop(k, rst)
			return
		}
	}
}

// logMsg decodes one message into records and logs them; returns the number of UPDATEs read so far on k.
func (p *vSessPeer) logMsg(k int, typ byte, body []byte) int {
	recs := []map[string]interface{}{}
	switch typ {
	case 4:
		recs = append(recs, map[string]interface{}{"t": "ka"})
	case 2:
		wd, anns, attrs, ok := vSessDecodeUpdate(body)
		if !ok {
			raw := body
			if len(raw) > 160 {
				raw = raw[:160]
			}
			recs = append(recs, map[string]interface{}{"t": "bad", "raw": vSessInts(raw), "len": len(body)})
			break
		}
		if len(wd) > 0 {
			rs := []string{}
			for _, w := range wd {
				rs = append(rs, p.u.routeName(w))
			}
			recs = append(recs, map[string]interface{}{"t": "wdr", "rs": rs})
		}
		for _, a := range anns {
			p.mu.Lock()
			opn := p.opened[k]
			p.mu.Unlock()
			// the raw path attributes go into the log together with what THIS connection's OPEN of the
			// peer announced: whether AS_PATH has the width that capability implies is decided by TLC
			recs = append(recs, map[string]interface{}{"t": "upd", "r": p.u.routeName(a.pfx), "a": p.u.attrName(a.lp, a.comms),
				"attrs": vSessInts(attrs), "cap65": opn.cap65, "ibgp": p.u.ibgp, "myasn": int(p.myASN), "nh": p.remoteIP(k)})
		}
		if len(wd) == 0 && len(anns) == 0 {
			recs = append(recs, map[string]interface{}{"t": "other", "type": 2})
		}
	default:
		recs = append(recs, map[string]interface{}{"t": "other", "type": int(typ)})
	}
	p.log.mu.Lock()
	defer p.log.mu.Unlock()
	for _, r := range recs {
		r["c"] = k
		p.log.addLocked("msg", r)
	}
	p.log.anyRecv[k]++
	if typ == 2 {
		p.log.updRecv[k]++
	}
	return p.log.updRecv[k]
}

func vSessInts(b []byte) []int {
	out := make([]int, len(b))
	for i, x := range b {
		out[i] = int(x)
	}
	return out
}

type vSessAnn struct {
	pfx   string
	lp    int64
	comms []uint32
}

func vSessReadPrefixes(b []byte) ([]string, bool) {
	out := []string{}
	for len(b) > 0 {
		bits := int(b[0])
		n := (bits + 7) / 8
		if bits > 32 || len(b) < 1+n {
			return nil, false
		}
		ip := make([]byte, 4)
		copy(ip, b[1:1+n])
		out = append(out, fmt.Sprintf("%d.%d.%d.%d/%d", ip[0], ip[1], ip[2], ip[3], bits))
		b = b[1+n:]
	}
	return out, true
}

// vSessDecodeUpdate is the peer's minimal RFC 4271 UPDATE reader: withdrawn prefixes, and the
// NLRI prefixes with the LOCAL_PREF (-1 if absent) and COMMUNITIES found among the attributes.
func vSessDecodeUpdate(body []byte) (wd []string, anns []vSessAnn, rawAttrs []byte, ok bool) {
	if len(body) < 4 {
		return nil, nil, nil, false
	}
	wl := int(binary.BigEndian.Uint16(body[0:2]))
	if len(body) < 2+wl+2 {
		return nil, nil, nil, false
	}
	wd, ok = vSessReadPrefixes(body[2 : 2+wl])
	if !ok {
		return nil, nil, nil, false
	}
	al := int(binary.BigEndian.Uint16(body[2+wl : 4+wl]))
	if len(body) < 4+wl+al {
		return nil, nil, nil, false
	}
	attrs := body[4+wl : 4+wl+al]
	rawAttrs = append([]byte(nil), attrs...)
	lp := int64(-1)
	var comms []uint32
	for len(attrs) > 0 {
		if len(attrs) < 3 {
			return nil, nil, nil, false
		}
		flags, code := attrs[0], attrs[1]
		ln, off := int(attrs[2]), 3
		if flags&0x10 != 0 {
			if len(attrs) < 4 {
				return nil, nil, nil, false
			}
			ln, off = int(binary.BigEndian.Uint16(attrs[2:4])), 4
		}
		if len(attrs) < off+ln {
			return nil, nil, nil, false
		}
		v := attrs[off : off+ln]
		switch code {
		case 5:
			if ln == 4 {
				lp = int64(binary.BigEndian.Uint32(v))
			}
		case 8:
			for i := 0; i+4 <= ln; i += 4 {
				comms = append(comms, binary.BigEndian.Uint32(v[i:i+4]))
			}
		}
		attrs = attrs[off+ln:]
	}
	nlri, ok := vSessReadPrefixes(body[4+wl+al:])
	if !ok {
		return nil, nil, nil, false
	}
	for _, pfx := range nlri {
		anns = append(anns, vSessAnn{pfx: pfx, lp: lp, comms: comms})
	}
	return wd, anns, rawAttrs, true
}
