//go:build verif

package main

// Role B harness of the election family (C04, C10, C12).  Every input line is a view printed by
// TLC (spec/ElectionMC.tla).  For each view one real speaker controller per node name is used
// (newController, i.e. the real layer2Controller and bgpController wired the way the speaker
// wires them) and the ShouldAnnounce decision of EVERY node is recorded, for every service shape
// (single / dual stack, both orders) and under three arrangements of every list of the input
// (as given, reversed, seeded shuffle).  Nothing is judged here.

import (
	"bufio"
	"encoding/json"
	"fmt"
	"hash/fnv"
	"math/rand"
	"net"
	"os"
	"runtime"
	"sort"
	"strconv"
	"sync"
	"testing"

	"github.com/go-kit/log"
	"go.universe.tf/metallb/internal/bgp"
	"go.universe.tf/metallb/internal/config"
	"go.universe.tf/metallb/internal/speakerlist"
	kit "go.universe.tf/metallb/internal/verifkit"
	v1 "k8s.io/api/core/v1"
	discovery "k8s.io/api/discovery/v1"
	metav1 "k8s.io/apimachinery/pkg/apis/meta/v1"
	"k8s.io/apimachinery/pkg/types"
)

type vFlags struct {
	Known   bool `json:"known"`
	Alive   bool `json:"alive"`
	Unavail bool `json:"unavail"`
	Excl    bool `json:"excl"`
}

type vEntry struct {
	Addrs   []string `json:"addrs"`
	Node    string   `json:"node"`
	Ready   string   `json:"ready"`
	Serving string   `json:"serving"`
}

type vView struct {
	Nodes map[string]vFlags `json:"nodes"`
	Ml    bool              `json:"ml"`
	Ign   bool              `json:"ign"`
	Advs  [][]string        `json:"advs"`
	Etp   string            `json:"etp"`
	Eps   [][]vEntry        `json:"eps"`
}

type vIn struct {
	ID    string  `json:"id"`
	Kind  string  `json:"kind"`
	Pairs [][]int `json:"pairs"`
	E2E   bool    `json:"e2e"`
	View  *vView  `json:"view"`
	Base  *vView  `json:"base"`
	Pert  *vView  `json:"pert"`
}

// decisions of one view for one address pair: service shape -> arrangement -> announcing nodes
type vL2Dec map[string][][]string

type vOut struct {
	In   json.RawMessage       `json:"in"`
	Dec  []vL2Dec              `json:"dec,omitempty"`  // kind l2 / duel: per address pair
	DecB []vL2Dec              `json:"decb,omitempty"` // kind pair: base view
	DecP []vL2Dec              `json:"decp,omitempty"` // kind pair: perturbed view
	Bgp  map[string][]string   `json:"bgp,omitempty"`  // kind bgp: node -> arrangement -> returned reason
	E2E  map[string][]string   `json:"e2e,omitempty"`  // protocol -> nodes whose whole controller announces
	Rts  map[string]int        `json:"routes,omitempty"`
	Err  string                `json:"err,omitempty"`
}

const vArrangements = 3

// vFakeSL is the memberlist view handed to the controllers (the real SpeakerList needs a
// memberlist cluster); nil map = membership tracking disabled, as the real UsableSpeakers reports.
type vFakeSL struct{ nodes map[string]bool }

func (s *vFakeSL) UsableSpeakers() speakerlist.SpeakerListInfo {
	return speakerlist.SpeakerListInfo{Nodes: s.nodes, Disabled: s.nodes == nil}
}
func (s *vFakeSL) Rejoin() {}

// ---------------------------------------------------------------- real controllers, one per node

type vCtl struct {
	c  *controller
	sl *vFakeSL
}

var (
	vCtlMu sync.Mutex
	vCtls  = map[string]*vCtl{}
)

// recording session manager (no network)
type vSessions struct {
	mu   sync.Mutex
	sess []*vSession
}
type vSession struct {
	mu   sync.Mutex
	ads  []*bgp.Advertisement
	dead bool
}

func (s *vSession) Set(ads ...*bgp.Advertisement) error {
	s.mu.Lock()
	s.ads = ads
	s.mu.Unlock()
	return nil
}
func (s *vSession) Close() error { s.dead = true; return nil }
func (m *vSessions) NewSession(_ log.Logger, _ bgp.SessionParameters) (bgp.Session, error) {
	m.mu.Lock()
	defer m.mu.Unlock()
	s := &vSession{}
	m.sess = append(m.sess, s)
	return s, nil
}
func (m *vSessions) SyncBFDProfiles(map[string]*config.BFDProfile) error { return nil }
func (m *vSessions) SyncExtraInfo(string) error                          { return nil }
func (m *vSessions) SetEventCallback(func(interface{}))                  {}

type vClient struct{}

func (vClient) UpdateStatus(*v1.Service) error                      { return nil }
func (vClient) Infof(*v1.Service, string, string, ...interface{})  {}
func (vClient) Errorf(*v1.Service, string, string, ...interface{}) {}

func vController(node string, ign bool, tag string) *vCtl {
	key := node + "|" + strconv.FormatBool(ign) + "|" + tag
	vCtlMu.Lock()
	defer vCtlMu.Unlock()
	if c, ok := vCtls[key]; ok {
		return c
	}
	sl := &vFakeSL{}
	mgr := &vSessions{}
	saved := newBGP
	newBGP = func(controllerConfig) bgp.SessionManager { return mgr }
	c, err := newController(controllerConfig{
		MyNode:                node,
		Logger:                log.NewNopLogger(),
		SList:                 sl,
		bgpType:               bgpNative,
		IgnoreExcludeLB:       ign,
		Layer2StatusChange:    func(types.NamespacedName) {},
		BGPAdsChangedCallback: func(string) {},
	})
	newBGP = saved
	if err != nil {
		panic("newController: " + err.Error())
	}
	c.client = vClient{}
	vc := &vCtl{c: c, sl: sl}
	vCtls[key] = vc
	vMgrs[key] = mgr
	return vc
}

var vMgrs = map[string]*vSessions{}

// ---------------------------------------------------------------- concretisation

func vOrder(n, p int, rnd *rand.Rand) []int {
	idx := make([]int, n)
	for i := range idx {
		idx[i] = i
	}
	switch p {
	case 1:
		for i, j := 0, n-1; i < j; i, j = i+1, j-1 {
			idx[i], idx[j] = idx[j], idx[i]
		}
	case 2:
		rnd.Shuffle(n, func(i, j int) { idx[i], idx[j] = idx[j], idx[i] })
	}
	return idx
}

func vNodeNames(v *vView) []string {
	names := make([]string, 0, len(v.Nodes))
	for n := range v.Nodes {
		names = append(names, n)
	}
	sort.Strings(names)
	return names
}

func vNodes(v *vView, p int, rnd *rand.Rand) map[string]*v1.Node {
	names := vNodeNames(v)
	out := map[string]*v1.Node{}
	for _, i := range vOrder(len(names), p, rnd) {
		n := names[i]
		f := v.Nodes[n]
		if !f.Known {
			continue
		}
		node := &v1.Node{ObjectMeta: metav1.ObjectMeta{Name: n, Labels: map[string]string{"kubernetes.io/hostname": n}}}
		if p > 0 {
			node.Status.Conditions = append(node.Status.Conditions, v1.NodeCondition{Type: v1.NodeReady, Status: v1.ConditionTrue})
		}
		if f.Unavail {
			node.Status.Conditions = append(node.Status.Conditions, v1.NodeCondition{Type: v1.NodeNetworkUnavailable, Status: v1.ConditionTrue})
		} else if p == 1 {
			node.Status.Conditions = append(node.Status.Conditions, v1.NodeCondition{Type: v1.NodeNetworkUnavailable, Status: v1.ConditionFalse})
		}
		if p == 2 {
			node.Status.Conditions = append(node.Status.Conditions, v1.NodeCondition{Type: v1.NodeMemoryPressure, Status: v1.ConditionTrue})
		}
		if f.Excl {
			val := ""
			if p == 1 {
				val = "true"
			}
			node.Labels[v1.LabelNodeExcludeBalancers] = val
		}
		out[n] = node
	}
	return out
}

func vSpeakers(v *vView) map[string]bool {
	if !v.Ml {
		return nil
	}
	m := map[string]bool{}
	for n, f := range v.Nodes {
		if f.Alive {
			m[n] = true
		}
	}
	return m
}

func vPool(v *vView, p int, rnd *rand.Rand) *config.Pool {
	_, c4, _ := net.ParseCIDR("192.168.0.0/16")
	_, c6, _ := net.ParseCIDR("fc00::/16")
	pool := &config.Pool{Name: "pool1", CIDR: []*net.IPNet{c4, c6}, AutoAssign: true}
	for _, i := range vOrder(len(v.Advs), p, rnd) {
		nodes := map[string]bool{}
		for _, j := range vOrder(len(v.Advs[i]), p, rnd) {
			nodes[v.Advs[i][j]] = true
		}
		pool.L2Advertisements = append(pool.L2Advertisements, &config.L2Advertisement{Nodes: nodes, AllInterfaces: true})
		pool.BGPAdvertisements = append(pool.BGPAdvertisements, &config.BGPAdvertisement{Name: "adv" + strconv.Itoa(i),
			AggregationLength: 32, AggregationLengthV6: 128, Nodes: nodes})
	}
	return pool
}

// vEpAddr turns an abstract endpoint address into a concrete one (injective on short names).
func vEpAddr(a string) string {
	h := fnv.New32a()
	h.Write([]byte(a))
	x := h.Sum32()
	return fmt.Sprintf("10.%d.%d.%d", 1+(x>>16)&0x7f, (x>>8)&0xff, x&0xff)
}

func vCond(s string) *bool {
	switch s {
	case "T":
		b := true
		return &b
	case "F":
		b := false
		return &b
	}
	return nil
}

func vSlices(v *vView, p int, rnd *rand.Rand) []discovery.EndpointSlice {
	out := []discovery.EndpointSlice{}
	for _, i := range vOrder(len(v.Eps), p, rnd) {
		sl := discovery.EndpointSlice{ObjectMeta: metav1.ObjectMeta{Name: "slice" + strconv.Itoa(i), Namespace: "ns1",
			Labels: map[string]string{discovery.LabelServiceName: "svc"}}, AddressType: discovery.AddressTypeIPv4}
		for _, j := range vOrder(len(v.Eps[i]), p, rnd) {
			e := v.Eps[i][j]
			ep := discovery.Endpoint{}
			for _, k := range vOrder(len(e.Addrs), p, rnd) {
				ep.Addresses = append(ep.Addresses, vEpAddr(e.Addrs[k]))
			}
			if e.Node != "" {
				n := e.Node
				ep.NodeName = &n
			}
			ep.Conditions.Ready = vCond(e.Ready)
			ep.Conditions.Serving = vCond(e.Serving)
			if e.Ready == "F" && e.Serving == "T" {
				t := true
				ep.Conditions.Terminating = &t
			}
			sl.Endpoints = append(sl.Endpoints, ep)
		}
		out = append(out, sl)
	}
	return out
}

func vService(name string, v *vView, ips []net.IP) *v1.Service {
	svc := &v1.Service{ObjectMeta: metav1.ObjectMeta{Name: name, Namespace: "ns1"}}
	svc.Spec.Type = v1.ServiceTypeLoadBalancer
	svc.Spec.ExternalTrafficPolicy = v1.ServiceExternalTrafficPolicyTypeCluster
	if v.Etp == "Local" {
		svc.Spec.ExternalTrafficPolicy = v1.ServiceExternalTrafficPolicyTypeLocal
	}
	for _, ip := range ips {
		svc.Status.LoadBalancer.Ingress = append(svc.Status.LoadBalancer.Ingress, v1.LoadBalancerIngress{IP: ip.String()})
	}
	return svc
}

var vShapes = []string{"s4", "s6", "s46", "s64"}

func vShapeIPs(shape string, pair []int) []net.IP {
	a4, a6 := kit.IP(pair[0]), kit.IP(pair[1])
	switch shape {
	case "s4":
		return []net.IP{a4}
	case "s6":
		return []net.IP{a6}
	case "s46":
		return []net.IP{a4, a6}
	}
	return []net.IP{a6, a4}
}

func vSeed(id string, p int) int64 {
	h := fnv.New64a()
	h.Write([]byte(id))
	s, _ := strconv.ParseInt(os.Getenv("VERIF_SEED"), 10, 64)
	return int64(h.Sum64()>>1) ^ (s * 7919) ^ int64(p)
}

// ---------------------------------------------------------------- layer 2

// vL2 asks the layer-2 controller of every node of the view, for every address pair, service
// shape and arrangement, whether it announces.
func vL2(id string, v *vView, pairs [][]int) []vL2Dec {
	names := vNodeNames(v)
	out := make([]vL2Dec, len(pairs))
	for k := range pairs {
		out[k] = vL2Dec{}
		for _, sh := range vShapes {
			out[k][sh] = make([][]string, vArrangements)
		}
	}
	l := log.NewNopLogger()
	for p := 0; p < vArrangements; p++ {
		rnd := rand.New(rand.NewSource(vSeed(id, p)))
		nodes := vNodes(v, p, rnd)
		pool := vPool(v, p, rnd)
		eps := vSlices(v, p, rnd)
		// every node decides on its own copy of the real layer2Controller (same fields, own
		// memberlist view object so that the workers of the harness do not share it)
		handlers := map[string]*layer2Controller{}
		for _, n := range names {
			base := vController(n, v.Ign, "fn").c.protocolHandlers[config.Layer2].(*layer2Controller)
			cp := *base
			cp.sList = &vFakeSL{nodes: vSpeakers(v)}
			handlers[n] = &cp
		}
		for k, pair := range pairs {
			for _, sh := range vShapes {
				ips := vShapeIPs(sh, pair)
				svc := vService("svc-"+sh, v, ips)
				ann := []string{}
				for _, i := range vOrder(len(names), p, rnd) {
					n := names[i]
					if handlers[n].ShouldAnnounce(l, "ns1/svc-"+sh, ips, pool, svc, eps, nodes) == "" {
						ann = append(ann, n)
					}
				}
				sort.Strings(ann)
				out[k][sh][p] = ann
			}
		}
	}
	return out
}

// ---------------------------------------------------------------- BGP

func vBGP(id string, v *vView) map[string][]string {
	names := vNodeNames(v)
	out := map[string][]string{}
	l := log.NewNopLogger()
	ips := []net.IP{kit.IP(0)}
	for p := 0; p < vArrangements; p++ {
		rnd := rand.New(rand.NewSource(vSeed(id, p)))
		nodes := vNodes(v, p, rnd)
		pool := vPool(v, p, rnd)
		eps := vSlices(v, p, rnd)
		svc := vService("svc", v, ips)
		for _, n := range names {
			h := vController(n, v.Ign, "fn").c.protocolHandlers[config.BGP]
			out[n] = append(out[n], h.ShouldAnnounce(l, "ns1/svc", ips, pool, svc, eps, nodes))
		}
	}
	return out
}

// ---------------------------------------------------------------- whole controller (sampled)

var vE2EMu sync.Mutex

// vE2E drives the complete speaker controller of every node (SetConfig, node events, SetBalancer)
// and reports which nodes ended up announcing per protocol, and the number of routes handed to
// the BGP sessions.
func vE2E(v *vView, pair []int) (map[string][]string, map[string]int) {
	vE2EMu.Lock()
	defer vE2EMu.Unlock()
	names := vNodeNames(v)
	l := log.NewNopLogger()
	rnd := rand.New(rand.NewSource(1))
	ann := map[string][]string{"l2": {}, "bgp": {}}
	routes := map[string]int{}
	ips := []net.IP{kit.IP(pair[0])}
	for _, n := range names {
		key := n + "|" + strconv.FormatBool(v.Ign) + "|e2e"
		vc := vController(n, v.Ign, "e2e")
		mgr := vMgrs[key]
		c := vc.c
		// forget whatever the previous view left behind
		c.SetBalancer(l, "ns1/svc", nil, nil)
		pool := vPool(v, 0, rnd)
		cfg := &config.Config{
			Pools: &config.Pools{ByName: map[string]*config.Pool{"pool1": pool}},
			Peers: map[string]*config.Peer{"peer1": {Name: "peer1", Addr: net.ParseIP("10.9.9.9"), ASN: 64512, MyASN: 64513}},
		}
		c.nodes = map[string]*v1.Node{}
		vc.sl.nodes = vSpeakers(v)
		c.SetConfig(l, cfg)
		for _, node := range vNodes(v, 0, rnd) {
			c.SetNode(l, node)
		}
		svc := vService("svc", v, ips)
		c.SetBalancer(l, "ns1/svc", svc, vSlices(v, 0, rnd))
		if c.announced[config.Layer2]["ns1/svc"] {
			ann["l2"] = append(ann["l2"], n)
		}
		if c.announced[config.BGP]["ns1/svc"] {
			ann["bgp"] = append(ann["bgp"], n)
		}
		cnt := 0
		mgr.mu.Lock()
		for _, s := range mgr.sess {
			if !s.dead {
				s.mu.Lock()
				cnt += len(s.ads)
				s.mu.Unlock()
			}
		}
		mgr.mu.Unlock()
		routes[n] = cnt
	}
	return ann, routes
}

// ---------------------------------------------------------------- driver

func vHandle(raw []byte) (out vOut) {
	out.In = append(json.RawMessage{}, raw...)
	defer func() {
		if r := recover(); r != nil {
			out.Err = fmt.Sprint("panic: ", r)
		}
	}()
	var in vIn
	kit.Must(json.Unmarshal(raw, &in))
	switch in.Kind {
	case "l2", "duel":
		out.Dec = vL2(in.ID, in.View, in.Pairs)
	case "pair":
		out.DecB = vL2(in.ID+"b", in.Base, in.Pairs)
		out.DecP = vL2(in.ID+"p", in.Pert, in.Pairs)
	case "bgp":
		out.Bgp = vBGP(in.ID, in.View)
	default:
		panic("unknown kind " + in.Kind)
	}
	if in.E2E && in.View != nil {
		out.E2E, out.Rts = vE2E(in.View, in.Pairs[0])
	}
	return out
}

func TestVerifElect(t *testing.T) {
	f, err := os.Open(os.Getenv("VERIF_SCENARIOS"))
	if err != nil {
		t.Fatal(err)
	}
	defer f.Close()
	var lines [][]byte
	sc := bufio.NewScanner(f)
	sc.Buffer(make([]byte, 1<<20), 1<<26)
	for sc.Scan() {
		if len(sc.Bytes()) > 0 {
			lines = append(lines, append([]byte{}, sc.Bytes()...))
		}
	}
	res := make([][]byte, len(lines))
	par := runtime.GOMAXPROCS(0)
	if v := os.Getenv("VERIF_PAR"); v != "" {
		par, _ = strconv.Atoi(v)
	}
	var wg sync.WaitGroup
	ch := make(chan int, 1024)
	for w := 0; w < par; w++ {
		wg.Add(1)
		go func() {
			defer wg.Done()
			for i := range ch {
				o := vHandle(lines[i])
				b, err := json.Marshal(o)
				if err != nil {
					panic(err)
				}
				res[i] = b
			}
		}()
	}
	for i := range lines {
		ch <- i
	}
	close(ch)
	wg.Wait()
	out, err := os.Create(os.Getenv("VERIF_OBS"))
	if err != nil {
		t.Fatal(err)
	}
	w := bufio.NewWriterSize(out, 1<<20)
	for _, b := range res {
		w.Write(b)
		w.WriteByte('\n')
	}
	w.Flush()
	out.Close()
}
