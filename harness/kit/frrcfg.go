//go:build verif

package verifkit

// Shared by harness/frr/frrcfg_*.go and harness/frrk8s/frrcfg_*.go (C14, C15): the scenario
// records TLC prints from spec/FRRMC.tla, their concretisation into bgp.SessionParameters /
// bgp.Advertisement, and the lexical form of a prefix.  No oracle here: what a program or a
// resource means is defined in spec/FRRFilter.tla only.

import (
	"bufio"
	"encoding/json"
	"fmt"
	"net"
	"os"
	"runtime"
	"sort"
	"strconv"
	"sync"
	"time"

	"github.com/go-kit/log"
	"go.universe.tf/metallb/internal/bgp"
	"go.universe.tf/metallb/internal/bgp/community"
	metallbconfig "go.universe.tf/metallb/internal/config"
	corev1 "k8s.io/api/core/v1"
)

// FrrPrefix is the lexical form of "a.b.c.d/n" / "x:y::/n": the text, its character codes (so that
// the judge can talk about the order of strings), family, octets as written, length.
type FrrPrefix struct {
	S     string `json:"s"`
	Codes []int  `json:"codes,omitempty"`
	Fam   int    `json:"fam"`
	Oct   []int  `json:"oct"`
	Len   int    `json:"len"`
}

// FrrNoPrefix stands where a record needs a prefix but the text has none (`any`).
func FrrNoPrefix(s string) FrrPrefix {
	return FrrPrefix{S: s, Fam: 0, Oct: []int{}, Len: 0}
}

// FrrLexPrefixPlain is FrrLexPrefix without the character codes.
func FrrLexPrefixPlain(s string) (FrrPrefix, bool) {
	p, ok := FrrLexPrefix(s)
	p.Codes = nil
	return p, ok
}

func FrrLexPrefix(s string) (FrrPrefix, bool) {
	ip, ipnet, err := net.ParseCIDR(s)
	if err != nil {
		return FrrNoPrefix(s), false
	}
	p := FrrPrefix{S: s, Codes: []int{}, Oct: []int{}}
	for _, c := range []byte(s) {
		p.Codes = append(p.Codes, int(c))
	}
	p.Len, _ = ipnet.Mask.Size()
	raw := ip.To4()
	p.Fam = 4
	if raw == nil {
		raw = ip.To16()
		p.Fam = 6
	}
	for _, b := range raw {
		p.Oct = append(p.Oct, int(b))
	}
	return p, true
}

type FrrSecretRef struct {
	Name string `json:"name"`
	Ns   string `json:"ns"`
}

type FrrAdv struct {
	P      FrrPrefix `json:"p"`
	Lp     string    `json:"lp"`
	Comms  []string  `json:"comms"`
	Lcomms []string  `json:"lcomms"`
}

// FrrSession: every value is the one TLC chose; numbers travel as decimal strings ("" = unset).
type FrrSession struct {
	K         string       `json:"k"`
	Vrf       string       `json:"vrf"`
	Myasn     string       `json:"myasn"`
	Routerid  string       `json:"routerid"`
	Afam      int          `json:"afam"` // family of Addr (4 / 6), 0 for an interface
	Addr      string       `json:"addr"`
	Iface     string       `json:"iface"`
	Asn       string       `json:"asn"`
	Dyn       string       `json:"dyn"`
	Port      string       `json:"port"`
	Hold      string       `json:"hold"`
	Keepalive string       `json:"keepalive"`
	Connect   string       `json:"connect"`
	Pw        string       `json:"pw"`
	Pwref     FrrSecretRef `json:"pwref"`
	Src       string       `json:"src"`
	Multihop  bool         `json:"multihop"`
	Bfd       string       `json:"bfd"`
	Gr        bool         `json:"gr"`
	Disablemp bool         `json:"disablemp"`
	Ghost     bool         `json:"ghost"`
	Advs      []FrrAdv     `json:"advs"`
	Pre       []FrrAdv     `json:"pre"`
}

// FrrOp: new / set (advs = 1-based indices into Advs, in the order to pass) / preset (Pre) / close /
// syncbfd (SyncBFDProfiles with the same profiles again) / syncextra (SyncExtraInfo("")).
// Refuse != "": TLC expects this Set to be refused ("63": more than 63 communities on a later
// advertisement, "lp": one prefix with two local preferences).  Look > 0: observe after this
// operation; Views[Look-1] is the state TLC expects (history scenarios).
type FrrOp struct {
	Op     string `json:"op"`
	S      int    `json:"s"`
	Advs   []int  `json:"advs"`
	Refuse string `json:"refuse"`
	Look   int    `json:"look"`
}

// FrrViewSession: one session in the state expected after an operation of a history: open or not,
// the advertisements of the last accepted Set, the other advertisements the history ever mentions
// (indices into the session's Advs, which is the pool in a history scenario).
type FrrViewSession struct {
	Live bool  `json:"live"`
	Advs []int `json:"advs"`
	Pre  []int `json:"pre"`
}

// FrrScenario: a one-shot scenario (Views empty: every order is observed once, at its end, and
// must show Sessions) or a history (one order, observed after every operation with Look > 0).
type FrrScenario struct {
	ID       string             `json:"id"`
	Node     string             `json:"node"`
	Ns       string             `json:"ns"`
	Sessions []FrrSession       `json:"sessions"`
	Orders   [][]FrrOp          `json:"orders"`
	Views    [][]FrrViewSession `json:"views"`
	Frronly  bool               `json:"frronly"`
}

func FrrReadScenarios() []FrrScenario {
	f, err := os.Open(os.Getenv("VERIF_SCENARIOS"))
	if err != nil {
		panic("VERIF_SCENARIOS: " + err.Error())
	}
	defer f.Close()
	var out []FrrScenario
	sc := bufio.NewScanner(f)
	sc.Buffer(make([]byte, 1<<20), 1<<26)
	for sc.Scan() {
		if len(sc.Bytes()) == 0 {
			continue
		}
		var s FrrScenario
		if err := json.Unmarshal(sc.Bytes(), &s); err != nil {
			panic("scenario: " + err.Error())
		}
		for i := range s.Sessions {
			if s.Sessions[i].Advs == nil {
				s.Sessions[i].Advs = []FrrAdv{}
			}
			if s.Sessions[i].Pre == nil {
				s.Sessions[i].Pre = []FrrAdv{}
			}
		}
		out = append(out, s)
	}
	if err := sc.Err(); err != nil {
		panic(err)
	}
	return out
}

func frrU(s string, bits int) uint64 {
	if s == "" {
		return 0
	}
	v, err := strconv.ParseUint(s, 10, bits)
	if err != nil {
		panic(fmt.Sprintf("scenario number %q: %v", s, err))
	}
	return v
}

func frrDur(s string) *time.Duration {
	if s == "" {
		return nil
	}
	d := time.Duration(frrU(s, 32)) * time.Second
	return &d
}

// FrrParams concretises one session record the way speaker/bgp_controller.go fills the structure.
func FrrParams(s FrrSession, node string) bgp.SessionParameters {
	p := bgp.SessionParameters{
		PeerAddress:     s.Addr,
		PeerPort:        uint16(frrU(s.Port, 16)),
		PeerInterface:   s.Iface,
		MyASN:           uint32(frrU(s.Myasn, 32)),
		PeerASN:         uint32(frrU(s.Asn, 32)),
		DynamicASN:      s.Dyn,
		HoldTime:        frrDur(s.Hold),
		KeepAliveTime:   frrDur(s.Keepalive),
		ConnectTime:     frrDur(s.Connect),
		Password:        s.Pw,
		PasswordRef:     corev1.SecretReference{Name: s.Pwref.Name, Namespace: s.Pwref.Ns},
		CurrentNode:     node,
		BFDProfile:      s.Bfd,
		GracefulRestart: s.Gr,
		EBGPMultiHop:    s.Multihop,
		VRFName:         s.Vrf,
		SessionName:     s.K,
		DisableMP:       s.Disablemp,
	}
	if s.Src != "" {
		p.SourceAddress = net.ParseIP(s.Src)
	}
	if s.Routerid != "" {
		p.RouterID = net.ParseIP(s.Routerid)
	}
	return p
}

// FrrAdvs builds the advertisements idx (1-based) of list, in that order.  The communities of one
// advertisement are ordered with LessThan, as SetBalancer of the speaker does.
func FrrAdvs(list []FrrAdv, idx []int) []*bgp.Advertisement {
	out := []*bgp.Advertisement{}
	for _, i := range idx {
		a := list[i-1]
		_, ipnet, err := net.ParseCIDR(a.P.S)
		if err != nil {
			panic(err)
		}
		ad := &bgp.Advertisement{Prefix: ipnet, LocalPref: uint32(frrU(a.Lp, 32))}
		for _, c := range a.Comms {
			v, err := community.New(c)
			if err != nil {
				panic(err)
			}
			ad.Communities = append(ad.Communities, v)
		}
		for _, c := range a.Lcomms {
			v, err := community.New("large:" + c)
			if err != nil {
				panic(err)
			}
			ad.Communities = append(ad.Communities, v)
		}
		sort.Slice(ad.Communities, func(i, j int) bool { return ad.Communities[i].LessThan(ad.Communities[j]) })
		out = append(out, ad)
	}
	return out
}

// FrrWithText: keep the rendered text / JSON in the observation (replays, samples).
func FrrWithText() bool { return os.Getenv("VERIF_TEXT") != "" }

// FrrLook is what the harness knows when it observes: which operation, the sessions TLC expects
// (echoed into the observation for the judge), which sessions are open, what went wrong.
type FrrLook struct {
	Step      int
	Sessions  []FrrSession
	Created   []bool
	Errs      []string // unexpected errors so far
	Refusals  []string // errors of the Sets TLC expected to be refused
	RefusedOK bool     // every Set TLC expected to be refused returned an error
}

func frrPick(pool []FrrAdv, idx []int) []FrrAdv {
	out := []FrrAdv{}
	for _, i := range idx {
		out = append(out, pool[i-1])
	}
	return out
}

func frrViewSessions(sc FrrScenario, view []FrrViewSession) []FrrSession {
	out := make([]FrrSession, len(sc.Sessions))
	for j, s := range sc.Sessions {
		out[j] = s
		out[j].Ghost = !view[j].Live
		out[j].Advs = frrPick(s.Advs, view[j].Advs)
		out[j].Pre = frrPick(s.Advs, view[j].Pre)
	}
	return out
}

// FrrBFDProfiles: the profiles the sessions of the scenario refer to.
func FrrBFDProfiles(sc FrrScenario) map[string]*metallbconfig.BFDProfile {
	profiles := map[string]*metallbconfig.BFDProfile{}
	for _, s := range sc.Sessions {
		if s.Bfd != "" {
			profiles[s.Bfd] = &metallbconfig.BFDProfile{Name: s.Bfd}
		}
	}
	return profiles
}

// FrrRun plays one list of operations on a session manager (FRR or FRR-K8s) and calls look where
// the scenario wants an observation.  It drives and reports; it decides nothing.
func FrrRun(sm bgp.SessionManager, l log.Logger, sc FrrScenario, ops []FrrOp, look func(FrrLook)) {
	st := FrrLook{Errs: []string{}, Refusals: []string{}, RefusedOK: true}
	profiles := FrrBFDProfiles(sc)
	if len(profiles) > 0 {
		if err := sm.SyncBFDProfiles(profiles); err != nil {
			st.Errs = append(st.Errs, "bfd: "+err.Error())
		}
	}
	live := map[int]bgp.Session{}
	for k, op := range ops {
		switch op.Op {
		case "new":
			s := sc.Sessions[op.S-1]
			sess, err := sm.NewSession(l, FrrParams(s, sc.Node))
			if err != nil {
				st.Errs = append(st.Errs, fmt.Sprintf("new %s: %v", s.K, err))
			} else {
				live[op.S] = sess
			}
		case "set", "preset":
			s := sc.Sessions[op.S-1]
			sess, ok := live[op.S]
			if !ok {
				st.Errs = append(st.Errs, fmt.Sprintf("%s %s: no session", op.Op, s.K))
				break
			}
			advs := FrrAdvs(s.Advs, op.Advs)
			if op.Op == "preset" {
				advs = FrrAdvs(s.Pre, FrrAllIdx(len(s.Pre)))
			}
			err := sess.Set(advs...)
			switch {
			case op.Refuse != "" && err == nil:
				st.RefusedOK = false
			case op.Refuse != "":
				st.Refusals = append(st.Refusals, fmt.Sprintf("%s %s: %v", op.Op, s.K, err))
			case err != nil:
				st.Errs = append(st.Errs, fmt.Sprintf("%s %s: %v", op.Op, s.K, err))
			}
		case "close":
			if sess, ok := live[op.S]; ok {
				if err := sess.Close(); err != nil {
					st.Errs = append(st.Errs, fmt.Sprintf("close %s: %v", sc.Sessions[op.S-1].K, err))
				}
				delete(live, op.S)
			}
		case "syncbfd":
			if err := sm.SyncBFDProfiles(FrrBFDProfiles(sc)); err != nil {
				st.Errs = append(st.Errs, "syncbfd: "+err.Error())
			}
		case "syncextra":
			if err := sm.SyncExtraInfo(""); err != nil {
				st.Errs = append(st.Errs, "syncextra: "+err.Error())
			}
		default:
			panic("unknown op " + op.Op)
		}
		last := k == len(ops)-1
		if op.Look == 0 && !(last && len(sc.Views) == 0) {
			continue
		}
		o := st
		o.Step = k + 1
		o.Sessions = sc.Sessions
		if op.Look > 0 {
			o.Sessions = frrViewSessions(sc, sc.Views[op.Look-1])
		}
		o.Created = []bool{}
		for i := range sc.Sessions {
			_, ok := live[i+1]
			o.Created = append(o.Created, ok)
		}
		o.Errs = append([]string{}, st.Errs...)
		o.Refusals = append([]string{}, st.Refusals...)
		look(o)
	}
}

func FrrAllIdx(n int) []int {
	out := make([]int, n)
	for i := range out {
		out[i] = i + 1
	}
	return out
}

// FrrForEach runs fn over the scenarios on GOMAXPROCS goroutines; the observations of one scenario
// are written as one contiguous block.
func FrrForEach(scs []FrrScenario, out *ObsWriter, fn func(sc FrrScenario, b *Block)) {
	n := runtime.GOMAXPROCS(0)
	if v := os.Getenv("VERIF_PAR"); v != "" {
		n, _ = strconv.Atoi(v)
	}
	if n < 1 {
		n = 1
	}
	ch := make(chan FrrScenario)
	var wg sync.WaitGroup
	for i := 0; i < n; i++ {
		wg.Add(1)
		go func() {
			defer wg.Done()
			for sc := range ch {
				b := &Block{}
				fn(sc, b)
				out.WriteBlock(b)
			}
		}()
	}
	for _, sc := range scs {
		ch <- sc
	}
	close(ch)
	wg.Wait()
}
